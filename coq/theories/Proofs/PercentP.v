(* PercentP: the k-th standalone PATH.  snapshot_path builds, for a standalone call, a fmt FORMAT: every part (Dir, the
   calling file, the name, Ext) is escaped with esc_pct, the path functions (Join, Dir, Clean) run on the escaped parts, and
   fmt.Sprintf (subst_d) puts the ordinal in afterwards.  This file shows that the result is exactly the path that the plain
   path functions give for the unescaped parts and the file name with the ordinal already in it - for EVERY Config, calling
   file and test name ('%', '/', "." and ".." components anywhere).

   Method: a byte-wise expansion [expand e s] (every byte c replaced by the string e c) commutes with all the path functions
   as long as e keeps '/' and '.' and maps every other byte to a non-empty string free of '/' and '.' ([good]).  Bytes are
   arbitrary N, so there is a marker byte m that occurs in none of the inputs; with P the plain path for the file name
   <name>_m.snap<Ext>,
     - expanding P by  '%' -> "%%", m -> "%d"   gives the format snapshot_path builds,
     - expanding P by  m -> <ordinal>           gives the plain path for the ordinal,
     - m occurs at most once in P (the path functions never duplicate a component), and on such a string subst_d of the
       first expansion is the second one. *)
From Coq Require Import String.
From Coq Require Import List NArith Bool Lia.
Import ListNotations.
From Snaps Require Import Base.Bytes Base.Dec Model.PathModel Model.Api.
From Snaps Require Import Proofs.BytesP Proofs.DecP Proofs.CallerP.

(* ---------- byte-wise expansion ---------- *)

Definition expand (e : N -> bytes) (s : bytes) : bytes := flat_map e s.

Definition good (e : N -> bytes) : Prop :=
  e slash = [slash] /\ e dot = [dot] /\
  forall c, c <> slash -> c <> dot -> e c <> [] /\ ~ In slash (e c) /\ ~ In dot (e c).

Lemma expand_nil e : expand e [] = [].
Proof. reflexivity. Qed.
Lemma expand_cons e c s : expand e (c :: s) = e c ++ expand e s.
Proof. reflexivity. Qed.
Lemma expand_app e a b : expand e (a ++ b) = expand e a ++ expand e b.
Proof.
  induction a as [|x a IH]; [reflexivity|].
  cbn [app]. rewrite !expand_cons, IH. now rewrite app_assoc.
Qed.
Lemma expand_single e c : expand e [c] = e c.
Proof. rewrite expand_cons, expand_nil. apply app_nil_r. Qed.

Lemma dot_neq_slash : dot <> slash.
Proof. discriminate. Qed.

Lemma beq_iff (a b c d : bytes) : (a = b <-> c = d) -> beq a b = beq c d.
Proof.
  intros H. destruct (beq_spec a b) as [E|E], (beq_spec c d) as [F|F]; try reflexivity; exfalso; tauto.
Qed.

(* ---------- facts about the path functions that do not mention expansions ---------- *)

Lemma split_slash_nonnil s : split_slash s <> [].
Proof.
  destruct s as [|c r]; [discriminate|]. cbn [split_slash].
  destruct (N.eqb c slash); [discriminate|]. destruct (split_slash r); discriminate.
Qed.

Lemma split_slash_app_noslash w s : ~ In slash w ->
  split_slash (w ++ s) = match split_slash s with l :: ls => (w ++ l) :: ls | [] => [w] end.
Proof.
  induction w as [|c w IH]; intros Hw.
  - cbn [app]. destruct (split_slash s) as [|l ls] eqn:E; [now apply split_slash_nonnil in E|reflexivity].
  - cbn [app split_slash].
    assert (Hc : N.eqb c slash = false) by (apply N.eqb_neq; intros ->; apply Hw; now left).
    rewrite Hc, IH by (intros H; apply Hw; now right).
    destruct (split_slash s); reflexivity.
Qed.

Lemma join_slash_cons2 l l2 r : join_slash (l :: l2 :: r) = l ++ slash :: join_slash (l2 :: r).
Proof. reflexivity. Qed.

Lemma clean_nonnil p : p <> [] ->
  clean p = if is_abs p then slash :: join_slash (clean_comps true (split_slash p) [])
            else match clean_comps false (split_slash p) [] with
                 | [] => [dot]
                 | x :: xs => join_slash (x :: xs)
                 end.
Proof.
  destruct p as [|c r]; [congruence|]. intros _. unfold clean. cbv zeta.
  destruct (is_abs (c :: r)); [reflexivity|].
  destruct (clean_comps false (split_slash (c :: r)) []); reflexivity.
Qed.

Lemma drop_to_slash_app_noslash w r : ~ In slash w -> drop_to_slash (w ++ r) = drop_to_slash r.
Proof.
  induction w as [|c w IH]; intros Hw; [reflexivity|]. cbn [app drop_to_slash].
  assert (Hc : N.eqb c slash = false) by (apply N.eqb_neq; intros ->; apply Hw; now left).
  rewrite Hc. apply IH. intros H; apply Hw; now right.
Qed.

Lemma dir_part_snoc_noslash q w : ~ In slash w -> dir_part (q ++ w) = dir_part q.
Proof.
  intros Hw. unfold dir_part. rewrite rev_app_distr, drop_to_slash_app_noslash; [reflexivity|].
  intros H. apply Hw. now apply in_rev.
Qed.

Lemma dir_part_snoc_slash q : dir_part (q ++ [slash]) = q ++ [slash].
Proof.
  unfold dir_part. rewrite rev_app_distr. cbn [rev app drop_to_slash]. rewrite N.eqb_refl.
  cbn [rev]. now rewrite rev_involutive.
Qed.

(* ---------- a good expansion commutes with the path functions ---------- *)

Section Good.
  Variable e : N -> bytes.
  Hypothesis Hg : good e.

  Lemma good_slash : e slash = [slash].
  Proof. apply Hg. Qed.
  Lemma good_dot : e dot = [dot].
  Proof. apply Hg. Qed.

  Lemma good_nonempty c : e c <> [].
  Proof.
    destruct Hg as (Hs & Hd & Ho).
    destruct (N.eq_dec c slash) as [->|Hns]; [rewrite Hs; discriminate|].
    destruct (N.eq_dec c dot) as [->|Hnd]; [rewrite Hd; discriminate|].
    apply (Ho c Hns Hnd).
  Qed.

  Lemma good_no_slash c : c <> slash -> ~ In slash (e c).
  Proof.
    intros Hns. destruct Hg as (Hs & Hd & Ho).
    destruct (N.eq_dec c dot) as [->|Hnd].
    - rewrite Hd. intros [H|[]]. now apply dot_neq_slash.
    - apply (Ho c Hns Hnd).
  Qed.

  Lemma good_no_dot c : c <> dot -> ~ In dot (e c).
  Proof.
    intros Hnd. destruct Hg as (Hs & Hd & Ho).
    destruct (N.eq_dec c slash) as [->|Hns].
    - rewrite Hs. intros [H|[]]. now apply dot_neq_slash.
    - apply (Ho c Hns Hnd).
  Qed.

  Lemma good_head_slash c t : e c = slash :: t -> c = slash /\ t = [].
  Proof.
    intros He. destruct (N.eq_dec c slash) as [->|Hns].
    - rewrite good_slash in He. injection He as <-. now split.
    - exfalso. apply (good_no_slash c Hns). rewrite He. now left.
  Qed.

  Lemma good_head_dot c t : e c = dot :: t -> c = dot /\ t = [].
  Proof.
    intros He. destruct (N.eq_dec c dot) as [->|Hnd].
    - rewrite good_dot in He. injection He as <-. now split.
    - exfalso. apply (good_no_dot c Hnd). rewrite He. now left.
  Qed.

  Lemma expand_eq_nil x : expand e x = [] <-> x = [].
  Proof.
    split; [|now intros ->].
    destruct x as [|a x]; [reflexivity|]. rewrite expand_cons. intros H.
    apply app_eq_nil in H. destruct H as [H _]. now apply good_nonempty in H.
  Qed.

  Lemma expand_eq_dot x : expand e x = [dot] <-> x = [dot].
  Proof.
    split.
    - destruct x as [|a x]; [discriminate|]. rewrite expand_cons.
      destruct (e a) as [|h t] eqn:Ea; [now apply good_nonempty in Ea|].
      cbn [app]. intros H. injection H as Hh Ht. subst h.
      apply app_eq_nil in Ht. destruct Ht as [Ht Hx]. apply (proj1 (expand_eq_nil x)) in Hx. subst x t.
      apply good_head_dot in Ea. destruct Ea as [Ea _]. now subst a.
    - intros ->. rewrite expand_single. apply good_dot.
  Qed.

  Lemma expand_eq_dotdot x : expand e x = dotdot <-> x = dotdot.
  Proof.
    split.
    - destruct x as [|a x]; [discriminate|]. rewrite expand_cons.
      destruct (e a) as [|h t] eqn:Ea; [now apply good_nonempty in Ea|].
      unfold dotdot. cbn [app]. intros H. injection H as Hh Ht. subst h.
      apply good_head_dot in Ea. destruct Ea as [Ea Et]. subst a t. cbn [app] in Ht.
      apply (proj1 (expand_eq_dot x)) in Ht. now subst x.
    - intros ->. unfold dotdot. rewrite expand_cons, expand_single, good_dot. reflexivity.
  Qed.

  Lemma beq_expand_nil x : beq (expand e x) [] = beq x [].
  Proof. apply beq_iff, expand_eq_nil. Qed.
  Lemma beq_expand_dot x : beq (expand e x) [dot] = beq x [dot].
  Proof. apply beq_iff, expand_eq_dot. Qed.
  Lemma beq_expand_dotdot x : beq (expand e x) dotdot = beq x dotdot.
  Proof. apply beq_iff, expand_eq_dotdot. Qed.

  Lemma is_abs_expand p : is_abs (expand e p) = is_abs p.
  Proof.
    destruct p as [|c r]; [reflexivity|]. rewrite expand_cons. cbn [is_abs].
    destruct (e c) as [|h t] eqn:Ea; [now apply good_nonempty in Ea|]. cbn [app].
    destruct (N.eqb c slash) eqn:E.
    - apply N.eqb_eq in E. subst c. rewrite good_slash in Ea. injection Ea as Hh _. subst h. apply N.eqb_refl.
    - apply N.eqb_neq. intros ->. apply good_head_slash in Ea. destruct Ea as [Ea _]. subst c.
      now rewrite N.eqb_refl in E.
  Qed.

  Lemma split_slash_expand s : split_slash (expand e s) = map (expand e) (split_slash s).
  Proof.
    induction s as [|c r IH]; [reflexivity|]. rewrite expand_cons. cbn [split_slash].
    destruct (N.eqb c slash) eqn:E.
    - apply N.eqb_eq in E. subst c. rewrite good_slash. cbn [app split_slash]. rewrite N.eqb_refl, IH. reflexivity.
    - apply N.eqb_neq in E. rewrite split_slash_app_noslash by now apply good_no_slash.
      rewrite IH. destruct (split_slash r) as [|l ls] eqn:Er; [now apply split_slash_nonnil in Er|].
      cbn [map]. now rewrite expand_cons.
  Qed.

  Lemma join_slash_expand ls : join_slash (map (expand e) ls) = expand e (join_slash ls).
  Proof.
    induction ls as [|l r IH]; [reflexivity|]. destruct r as [|l2 r]; [reflexivity|].
    cbn [map] in *. rewrite !join_slash_cons2, IH, expand_app, expand_cons, good_slash. reflexivity.
  Qed.

  Lemma clean_comps_expand rooted comps stack :
    clean_comps rooted (map (expand e) comps) (map (expand e) stack) =
    map (expand e) (clean_comps rooted comps stack).
  Proof.
    revert stack. induction comps as [|c r IH]; intros stack.
    - cbn [map clean_comps]. now rewrite map_rev.
    - cbn [map clean_comps]. rewrite beq_expand_nil, beq_expand_dot, beq_expand_dotdot.
      destruct (beq c [] || beq c [dot]); [apply IH|].
      destruct (beq c dotdot).
      + destruct stack as [|top rest]; cbn [map].
        * destruct rooted; [apply (IH [])|apply (IH [c])].
        * rewrite beq_expand_dotdot. destruct (beq top dotdot); [apply (IH (c :: top :: rest))|apply IH].
      + apply (IH (c :: stack)).
  Qed.

  Lemma clean_comps_expand_nil rooted comps :
    clean_comps rooted (map (expand e) comps) [] = map (expand e) (clean_comps rooted comps []).
  Proof. exact (clean_comps_expand rooted comps []). Qed.

  Theorem clean_expand p : clean (expand e p) = expand e (clean p).
  Proof.
    destruct p as [|c r].
    - change (clean (expand e [])) with [dot]. change (clean []) with [dot].
      rewrite expand_single. symmetry. apply good_dot.
    - assert (Hp : c :: r <> []) by discriminate.
      assert (Hp' : expand e (c :: r) <> []) by (intros H; now apply (proj1 (expand_eq_nil _)) in H).
      rewrite (clean_nonnil _ Hp), (clean_nonnil _ Hp'), is_abs_expand, split_slash_expand, !clean_comps_expand_nil.
      destruct (is_abs (c :: r)).
      + rewrite join_slash_expand, expand_cons, good_slash. reflexivity.
      + destruct (clean_comps false (split_slash (c :: r)) []) as [|x xs]; cbn [map].
        * rewrite expand_single. symmetry. apply good_dot.
        * change (expand e x :: map (expand e) xs) with (map (expand e) (x :: xs)). apply join_slash_expand.
  Qed.

  Lemma filter_nonempty_expand l :
    filter (fun x => negb (beq x [])) (map (expand e) l) = map (expand e) (filter (fun x => negb (beq x [])) l).
  Proof.
    induction l as [|a l IH]; [reflexivity|]. cbn [map filter]. rewrite beq_expand_nil.
    destruct (negb (beq a [])); cbn [map]; now rewrite IH.
  Qed.

  Theorem join_expand elems : join (map (expand e) elems) = expand e (join elems).
  Proof.
    unfold join. rewrite filter_nonempty_expand.
    destruct (filter (fun x => negb (beq x [])) elems) as [|x xs]; [reflexivity|]. cbn [map].
    change (expand e x :: map (expand e) xs) with (map (expand e) (x :: xs)).
    rewrite join_slash_expand. apply clean_expand.
  Qed.

  Theorem join2_expand a b : join2 (expand e a) (expand e b) = expand e (join2 a b).
  Proof. exact (join_expand [a; b]). Qed.

  Lemma dir_part_expand p : dir_part (expand e p) = expand e (dir_part p).
  Proof.
    induction p as [|c p IH] using rev_ind; [reflexivity|].
    rewrite expand_app, expand_single. destruct (N.eq_dec c slash) as [->|Hns].
    - rewrite good_slash, !dir_part_snoc_slash, expand_app, expand_single, good_slash. reflexivity.
    - rewrite dir_part_snoc_noslash by now apply good_no_slash.
      rewrite (dir_part_snoc_noslash p [c]); [exact IH|].
      intros [H|[]]. now apply Hns.
  Qed.

  Theorem dirname_expand p : dirname (expand e p) = expand e (dirname p).
  Proof. unfold dirname. rewrite dir_part_expand. apply clean_expand. Qed.
End Good.

(* ---------- the path functions never duplicate a byte other than '/' and '.' ---------- *)

Fixpoint cnt (m : N) (s : bytes) : nat :=
  match s with
  | [] => 0
  | c :: r => (if N.eqb c m then 1 else 0) + cnt m r
  end.
Fixpoint cntl (m : N) (ls : list bytes) : nat :=
  match ls with
  | [] => 0
  | l :: r => cnt m l + cntl m r
  end.

Lemma cnt_app m a b : cnt m (a ++ b) = cnt m a + cnt m b.
Proof. induction a as [|x a IH]; [reflexivity|]. cbn [app cnt]. rewrite IH. lia. Qed.
Lemma cnt_rev m a : cnt m (rev a) = cnt m a.
Proof. induction a as [|x a IH]; [reflexivity|]. cbn [rev]. rewrite cnt_app, IH. cbn [cnt]. lia. Qed.
Lemma cntl_app m a b : cntl m (a ++ b) = cntl m a + cntl m b.
Proof. induction a as [|x a IH]; [reflexivity|]. cbn [app cntl]. rewrite IH. lia. Qed.
Lemma cntl_rev m a : cntl m (rev a) = cntl m a.
Proof. induction a as [|x a IH]; [reflexivity|]. cbn [rev]. rewrite cntl_app, IH. cbn [cntl]. lia. Qed.

Lemma cnt_notin m s : ~ In m s -> cnt m s = 0.
Proof.
  induction s as [|c s IH]; intros Hs; [reflexivity|]. cbn [cnt].
  assert (Hc : N.eqb c m = false) by (apply N.eqb_neq; intros ->; apply Hs; now left).
  rewrite Hc, IH; [reflexivity|]. intros H; apply Hs; now right.
Qed.
Lemma cnt_zero_notin m s : cnt m s = 0 -> ~ In m s.
Proof.
  induction s as [|c s IH]; intros Hs; [intros []|]. cbn [cnt] in Hs.
  destruct (N.eqb c m) eqn:E; [discriminate|]. apply N.eqb_neq in E.
  intros [H|H]; [now apply E|]. revert H. apply IH. exact Hs.
Qed.

Section Count.
  Variable m : N.
  Hypothesis Hms : m <> slash.
  Hypothesis Hmd : m <> dot.

  Lemma slash_eqb_m : N.eqb slash m = false.
  Proof. apply N.eqb_neq. intros H. now apply Hms. Qed.
  Lemma dot_eqb_m : N.eqb dot m = false.
  Proof. apply N.eqb_neq. intros H. now apply Hmd. Qed.

  Lemma split_slash_cnt s : cntl m (split_slash s) = cnt m s.
  Proof.
    induction s as [|c s IH]; [reflexivity|]. cbn [split_slash cnt].
    destruct (N.eqb c slash) eqn:E.
    - apply N.eqb_eq in E. subst c. rewrite slash_eqb_m. cbn [cntl cnt]. lia.
    - destruct (split_slash s) as [|l ls]; cbn [cntl cnt] in *; lia.
  Qed.

  Lemma join_slash_cnt ls : cnt m (join_slash ls) = cntl m ls.
  Proof.
    induction ls as [|l r IH]; [reflexivity|]. destruct r as [|l2 r].
    - cbn [join_slash cntl]. lia.
    - rewrite join_slash_cons2, cnt_app. cbn [cnt]. rewrite slash_eqb_m, IH. cbn [cntl]. lia.
  Qed.

  Lemma clean_comps_cnt rooted comps stack :
    cntl m (clean_comps rooted comps stack) <= cntl m comps + cntl m stack.
  Proof.
    revert stack. induction comps as [|c r IH]; intros stack.
    - cbn [clean_comps cntl]. rewrite cntl_rev. lia.
    - cbn [clean_comps].
      destruct (beq c [] || beq c [dot]); [specialize (IH stack); cbn [cntl]; lia|].
      destruct (beq c dotdot).
      + destruct stack as [|top rest].
        * destruct rooted; [specialize (IH [])|specialize (IH [c])]; cbn [cntl] in *; lia.
        * destruct (beq top dotdot); [specialize (IH (c :: top :: rest))|specialize (IH rest)]; cbn [cntl] in *; lia.
      + specialize (IH (c :: stack)). cbn [cntl] in *. lia.
  Qed.

  Lemma clean_cnt p : cnt m (clean p) <= cnt m p.
  Proof.
    destruct p as [|c r].
    - change (clean []) with [dot]. cbn [cnt]. rewrite dot_eqb_m. lia.
    - assert (Hp : c :: r <> []) by discriminate. rewrite (clean_nonnil _ Hp).
      set (p := c :: r).
      pose proof (clean_comps_cnt (is_abs p) (split_slash p) []) as Hc.
      rewrite split_slash_cnt in Hc. cbn [cntl] in Hc.
      destruct (is_abs p).
      + cbn [cnt]. rewrite slash_eqb_m, join_slash_cnt. lia.
      + destruct (clean_comps false (split_slash p) []) as [|x xs].
        * cbn [cnt]. rewrite dot_eqb_m. lia.
        * rewrite join_slash_cnt. lia.
  Qed.

  Lemma filter_cntl (f : bytes -> bool) l : cntl m (filter f l) <= cntl m l.
  Proof.
    induction l as [|a l IH]; [reflexivity|]. cbn [filter]. destruct (f a); cbn [cntl]; lia.
  Qed.

  Lemma join_cnt elems : cnt m (join elems) <= cntl m elems.
  Proof.
    unfold join. pose proof (filter_cntl (fun x => negb (beq x [])) elems) as Hf.
    destruct (filter (fun x => negb (beq x [])) elems) as [|x xs]; [cbn [cnt]; lia|].
    pose proof (clean_cnt (join_slash (x :: xs))) as Hc. rewrite join_slash_cnt in Hc. lia.
  Qed.

  Lemma join2_cnt a b : cnt m (join2 a b) <= cnt m a + cnt m b.
  Proof. pose proof (join_cnt [a; b]) as H. unfold join2. cbn [cntl] in H. lia. Qed.

  Lemma drop_to_slash_cnt r : cnt m (drop_to_slash r) <= cnt m r.
  Proof.
    induction r as [|c r IH]; [reflexivity|]. cbn [drop_to_slash].
    destruct (N.eqb c slash); [lia|]. cbn [cnt]. lia.
  Qed.

  Lemma dirname_cnt p : cnt m (dirname p) <= cnt m p.
  Proof.
    unfold dirname, dir_part. pose proof (clean_cnt (rev (drop_to_slash (rev p)))) as Hc.
    rewrite cnt_rev in Hc. pose proof (drop_to_slash_cnt (rev p)) as Hd. rewrite cnt_rev in Hd. lia.
  Qed.
End Count.

(* ---------- the two expansions of the marker ---------- *)

(* '%' -> "%%", marker -> "%d" *)
Definition e_fmt (m c : N) : bytes :=
  if N.eqb c m then [37%N; 100%N] else if N.eqb c pct then [pct; pct] else [c].
(* marker -> k *)
Definition e_ord (m : N) (k : bytes) (c : N) : bytes :=
  if N.eqb c m then k else [c].

Lemma good_e_fmt m : m <> slash -> m <> dot -> good (e_fmt m).
Proof.
  intros Hms Hmd. unfold good, e_fmt. repeat split.
  - replace (N.eqb slash m) with false by (symmetry; apply N.eqb_neq; congruence). reflexivity.
  - replace (N.eqb dot m) with false by (symmetry; apply N.eqb_neq; congruence). reflexivity.
  - destruct (N.eqb c m); [discriminate|]. destruct (N.eqb c pct); discriminate.
  - destruct (N.eqb c m); [|destruct (N.eqb c pct)].
    + intros [Hx|[Hx|[]]]; discriminate Hx.
    + intros [Hx|[Hx|[]]]; discriminate Hx.
    + intros [Hx|[]]. congruence.
  - destruct (N.eqb c m); [|destruct (N.eqb c pct)].
    + intros [Hx|[Hx|[]]]; discriminate Hx.
    + intros [Hx|[Hx|[]]]; discriminate Hx.
    + intros [Hx|[]]. congruence.
Qed.

Lemma good_e_ord m k : m <> slash -> m <> dot -> k <> [] -> ~ In slash k -> ~ In dot k -> good (e_ord m k).
Proof.
  intros Hms Hmd Hk Hks Hkd. unfold good, e_ord. repeat split.
  - replace (N.eqb slash m) with false by (symmetry; apply N.eqb_neq; congruence). reflexivity.
  - replace (N.eqb dot m) with false by (symmetry; apply N.eqb_neq; congruence). reflexivity.
  - destruct (N.eqb c m); [exact Hk|discriminate].
  - destruct (N.eqb c m); [exact Hks|]. intros [Hx|[]]. congruence.
  - destruct (N.eqb c m); [exact Hkd|]. intros [Hx|[]]. congruence.
Qed.

Lemma expand_e_fmt_notin m s : ~ In m s -> expand (e_fmt m) s = esc_pct s.
Proof.
  induction s as [|c s IH]; intros Hs; [reflexivity|]. rewrite expand_cons. cbn [esc_pct]. unfold e_fmt at 1.
  assert (Hc : N.eqb c m = false) by (apply N.eqb_neq; intros ->; apply Hs; now left).
  rewrite Hc, IH by (intros H; apply Hs; now right).
  destruct (N.eqb c pct); reflexivity.
Qed.

Lemma expand_e_ord_notin m k s : ~ In m s -> expand (e_ord m k) s = s.
Proof.
  induction s as [|c s IH]; intros Hs; [reflexivity|]. rewrite expand_cons. unfold e_ord at 1.
  assert (Hc : N.eqb c m = false) by (apply N.eqb_neq; intros ->; apply Hs; now left).
  rewrite Hc, IH by (intros H; apply Hs; now right). reflexivity.
Qed.

Lemma expand_e_fmt_marker m : expand (e_fmt m) [m] = [37%N; 100%N].
Proof. rewrite expand_single. unfold e_fmt. now rewrite N.eqb_refl. Qed.
Lemma expand_e_ord_marker m k : expand (e_ord m k) [m] = k.
Proof. rewrite expand_single. unfold e_ord. now rewrite N.eqb_refl. Qed.

(* Sprintf on the format expansion of a string that holds the marker at most once = the ordinal expansion *)
Theorem subst_d_expand m k s : cnt m s <= 1 ->
  subst_d (expand (e_fmt m) s) k = expand (e_ord m k) s.
Proof.
  induction s as [|c s IH]; intros Hc; [reflexivity|].
  rewrite !expand_cons. unfold e_fmt at 1, e_ord at 1. cbn [cnt] in Hc.
  destruct (N.eqb c m) eqn:Em.
  - assert (Hs : ~ In m s) by (apply cnt_zero_notin; lia).
    cbn [app subst_d]. change (N.eqb 37 pct) with true. cbn iota.
    change (N.eqb 100 pct) with false. cbn iota. change (N.eqb 100 100) with true. cbn iota.
    now rewrite (expand_e_fmt_notin m s Hs), unesc_esc_pct, (expand_e_ord_notin m k s Hs).
  - destruct (N.eqb c pct) eqn:Ep.
    + apply N.eqb_eq in Ep. subst c. cbn [app subst_d]. rewrite N.eqb_refl. rewrite IH by lia. reflexivity.
    + cbn [app subst_d]. rewrite Ep. rewrite IH by lia. reflexivity.
Qed.

(* ---------- a marker byte that occurs nowhere ---------- *)

Definition fresh (l : bytes) : N := N.succ (fold_right N.max 0%N l).

Lemma fold_max_ge l x : In x l -> (x <= fold_right N.max 0%N l)%N.
Proof.
  induction l as [|a l IH]; [intros []|]. cbn [fold_right]. intros [->|H].
  - apply N.le_max_l.
  - apply N.le_trans with (fold_right N.max 0%N l); [now apply IH|apply N.le_max_r].
Qed.

Lemma fresh_notin l : ~ In (fresh l) l.
Proof. intros H. apply fold_max_ge in H. unfold fresh in H. lia. Qed.

Lemma dec_no_slash n : ~ In slash (dec n).
Proof.
  intros H. pose proof (dec_digits n) as Hd. rewrite forallb_forall in Hd. apply Hd in H. discriminate H.
Qed.
Lemma dec_no_dot n : ~ In dot (dec n).
Proof.
  intros H. pose proof (dec_digits n) as Hd. rewrite forallb_forall in Hd. apply Hd in H. discriminate H.
Qed.

(* ---------- the k-th standalone path ---------- *)

Section Kth.
  Variables d caller name ex : bytes.
  Variable m : N.
  Hypothesis Hms : m <> slash.
  Hypothesis Hmd : m <> dot.
  Hypothesis Hm_d : ~ In m d.
  Hypothesis Hm_caller : ~ In m caller.
  Hypothesis Hm_name : ~ In m name.
  Hypothesis Hm_ex : ~ In m ex.
  Hypothesis Hm_us : ~ In m (B "_").
  Hypothesis Hm_snap : ~ In m (B ".snap").

  (* the plain path for the file name with the marker in the place of the ordinal *)
  Definition dir_of (caller d : bytes) : bytes := if is_abs d then d else join2 (dirname caller) d.
  Definition marked : bytes := join2 (dir_of caller d) (name ++ B "_" ++ [m] ++ B ".snap" ++ ex).

  Lemma dir_of_expand e : good e -> expand e (dir_of caller d) = dir_of (expand e caller) (expand e d).
  Proof.
    intros Hg. unfold dir_of. rewrite (is_abs_expand e Hg). destruct (is_abs d); [reflexivity|].
    now rewrite (dirname_expand e Hg), (join2_expand e Hg).
  Qed.

  Lemma marked_fmt :
    expand (e_fmt m) marked =
    join2 (dir_of (esc_pct caller) (esc_pct d)) (esc_pct name ++ B "_%d" ++ B ".snap" ++ esc_pct ex).
  Proof.
    pose proof (good_e_fmt m Hms Hmd) as Hg. unfold marked.
    rewrite <- (join2_expand _ Hg), (dir_of_expand _ Hg), !expand_app.
    rewrite expand_e_fmt_marker, (expand_e_fmt_notin m caller Hm_caller), (expand_e_fmt_notin m d Hm_d),
      (expand_e_fmt_notin m name Hm_name), (expand_e_fmt_notin m ex Hm_ex), (expand_e_fmt_notin m _ Hm_us),
      (expand_e_fmt_notin m _ Hm_snap).
    reflexivity.
  Qed.

  Lemma marked_ord k : k <> [] -> ~ In slash k -> ~ In dot k ->
    expand (e_ord m k) marked = join2 (dir_of caller d) (name ++ B "_" ++ k ++ B ".snap" ++ ex).
  Proof.
    intros Hk Hks Hkd. pose proof (good_e_ord m k Hms Hmd Hk Hks Hkd) as Hg. unfold marked.
    rewrite <- (join2_expand _ Hg), (dir_of_expand _ Hg), !expand_app.
    rewrite expand_e_ord_marker, (expand_e_ord_notin m k caller Hm_caller), (expand_e_ord_notin m k d Hm_d),
      (expand_e_ord_notin m k name Hm_name), (expand_e_ord_notin m k ex Hm_ex), (expand_e_ord_notin m k _ Hm_us),
      (expand_e_ord_notin m k _ Hm_snap).
    reflexivity.
  Qed.

  Lemma marked_once : cnt m marked <= 1.
  Proof.
    unfold marked.
    pose proof (join2_cnt m Hms Hmd (dir_of caller d) (name ++ B "_" ++ [m] ++ B ".snap" ++ ex)) as Hj.
    assert (Hdir : cnt m (dir_of caller d) = 0).
    { unfold dir_of. destruct (is_abs d); [now apply cnt_notin|].
      pose proof (join2_cnt m Hms Hmd (dirname caller) d) as H1.
      pose proof (dirname_cnt m Hms Hmd caller) as H2.
      rewrite (cnt_notin m caller Hm_caller) in H2. rewrite (cnt_notin m d Hm_d) in H1. lia. }
    rewrite !cnt_app in Hj.
    rewrite (cnt_notin m name Hm_name), (cnt_notin m ex Hm_ex), (cnt_notin m _ Hm_us), (cnt_notin m _ Hm_snap) in Hj.
    cbn [cnt] in Hj. rewrite N.eqb_refl in Hj. lia.
  Qed.

  Lemma kth_path_marker k : k <> [] -> ~ In slash k -> ~ In dot k ->
    subst_d (join2 (dir_of (esc_pct caller) (esc_pct d)) (esc_pct name ++ B "_%d" ++ B ".snap" ++ esc_pct ex)) k =
    join2 (dir_of caller d) (name ++ B "_" ++ k ++ B ".snap" ++ ex).
  Proof.
    intros Hk Hks Hkd. rewrite <- marked_fmt, (subst_d_expand m k marked marked_once).
    now apply marked_ord.
  Qed.
End Kth.

(* the ordinal, or any other non-empty string free of '/' and '.', in the place of the "%d" *)
Theorem standalone_subst_path (c : config) (caller test k : bytes) :
  k <> [] -> ~ In slash k -> ~ In dot k ->
  subst_d (snapshot_path c caller test true) k =
  join2 (if is_abs (c_dir c) then c_dir c else join2 (dirname caller) (c_dir c))
        ((match c_filename c with [] => replace_byte slash 95%N test | f => f end)
           ++ B "_" ++ k ++ B ".snap" ++ c_ext c).
Proof.
  intros Hk Hks Hkd. rewrite path_standalone.
  set (name := match c_filename c with [] => replace_byte slash 95%N test | f => f end).
  set (l := c_dir c ++ caller ++ name ++ c_ext c ++ B "_" ++ B ".snap" ++ [slash; dot]).
  pose proof (fresh_notin l) as Hf. set (m := fresh l) in Hf. unfold l in Hf. rewrite !in_app_iff in Hf.
  apply (kth_path_marker (c_dir c) caller name (c_ext c) m); try assumption.
  - intros ->. apply Hf. do 6 right. now left.
  - intros ->. apply Hf. do 6 right. right. now left.
  - tauto.
  - tauto.
  - tauto.
  - tauto.
  - tauto.
  - tauto.
Qed.

Theorem standalone_kth_path : forall (c : config) (caller test : bytes) (n : nat),
  subst_d (snapshot_path c caller test true) (dec n) =
  join2 (if is_abs (c_dir c) then c_dir c else join2 (dirname caller) (c_dir c))
        ((match c_filename c with [] => replace_byte slash 95%N test | f => f end)
           ++ B "_" ++ dec n ++ B ".snap" ++ c_ext c).
Proof.
  intros c caller test n. apply standalone_subst_path.
  - apply dec_nonempty.
  - apply dec_no_slash.
  - apply dec_no_dot.
Qed.

(* the premise "no '/' in k" of standalone_subst_path is needed (Clean runs BEFORE the substitution on the left and after it
   on the right); the decimal ordinal satisfies it *)
Example standalone_subst_path_slash_refuted :
  let c := {| c_filename := B "f"; c_dir := B "d"; c_ext := []; c_update := None |} in
  let k := B "/../y" in
  subst_d (snapshot_path c (B "/p/x_test.go") (B "T") true) k = B "/p/d/f_/../y.snap" /\
  join2 (join2 (dirname (B "/p/x_test.go")) (c_dir c)) (c_filename c ++ B "_" ++ k ++ B ".snap" ++ c_ext c) = B "/p/d/y.snap".
Proof. vm_compute. split; reflexivity. Qed.

(* concrete instances, computed: '%', "%d", "%%", ".", ".." and '/' in every part *)
Module Instances.
  Definition mk (f d x : string) : config := {| c_filename := B f; c_dir := B d; c_ext := B x; c_update := None |}.
  Definition lhs (c : config) (caller test : bytes) (n : nat) : bytes := subst_d (snapshot_path c caller test true) (dec n).
  Definition rhs (c : config) (caller test : bytes) (n : nat) : bytes :=
    join2 (if is_abs (c_dir c) then c_dir c else join2 (dirname caller) (c_dir c))
          ((match c_filename c with [] => replace_byte slash 95%N test | f => f end)
             ++ B "_" ++ dec n ++ B ".snap" ++ c_ext c).
  Definition cfgs : list config :=
    [mk "" "__snapshots__" ""; mk "" "" ""; mk "f%" "a/../b%" ".x%"; mk "%d" "./x" ""; mk "%%" "/abs/%d/./" "/../y%d";
     mk "a/../.." "" "/.."; mk "../%d/x" "../../.." "%d%d"; mk "" "/" "/"; mk "." ".." "/../.."; mk "/" "%" "/../%d";
     mk "x/%d" "%d/.." "/../../%d%%"; mk "" "." "."].
  Definition callers : list bytes :=
    map B ["/a/b/c_test.go"; "c_test.go"; "/x%d/y%/z"; "%d/../%%/t.go"; ""; "/"; "a%d"]%string.
  Definition tests : list bytes := map B ["T"; "T/a%d"; "%"; "%%d/.."; ""; "../.."]%string.
  Example all_agree :
    forallb (fun c => forallb (fun ca => forallb (fun t => forallb (fun n => beq (lhs c ca t n) (rhs c ca t n)) [0; 7; 123])
                                                 tests) callers) cfgs = true.
  Proof. vm_compute. reflexivity. Qed.
  Example one_shown :
    lhs (mk "f%" "a/../b%" ".x%") (B "/p%d/q/x_test.go") (B "T") 12 = B "/p%d/q/b%/f%_12.snap.x%".
  Proof. vm_compute. reflexivity. Qed.
End Instances.

Print Assumptions standalone_subst_path.
Print Assumptions standalone_kth_path.
