(* Lemmas about Clean (C05 clean part, C07, C09, C10). *)
From Coq Require Import String.
From Coq Require Import List NArith Arith Bool Lia.
Import ListNotations.
From Snaps Require Import Base.Bytes Base.Lines Base.Dec Base.Assoc.
From Snaps Require Import Model.Frame Model.PathModel Model.Mode Model.Api Model.Natural Model.Clean.
From Snaps Require Import Proofs.BytesP.

(* a used file is rewritten only when deleting was allowed and something was stale, or sorting
   was allowed and the ids were unsorted *)
Lemma examine_file_rewrite_iff registered skipped update sort f o nf :
  examine_file registered skipped update sort f = (o, Some nf) ->
  (update = true /\ o <> []) \/ sort = true.
Proof.
  unfold examine_file.
  set (x := examine_lines _ _ _ _ _ _).
  destruct (x_obsolete x) eqn:Eo; cbn.
  - rewrite andb_false_r. cbn. destruct sort; cbn.
    + intros _. now right.
    + discriminate.
  - destruct update; cbn.
    + intros [= <- _]. left. split; [reflexivity|discriminate].
    + destruct sort; cbn; [intros _; now right|discriminate].
Qed.

Lemma examine_file_noop registered skipped f :
  snd (examine_file registered skipped false false f) = None.
Proof.
  unfold examine_file. cbn. reflexivity.
Qed.

(* the walk over used files with deleting and sorting both off writes nothing *)
Lemma clean_fold_noop (s : state) count used :
  forall fs obs ws,
  let step_file := fun (acc : list (bytes * bytes) * list bytes * list (wkind * bytes)) (p : bytes) =>
      let '(fs, obs, ws) := acc in
      match alookup p fs with
      | None => acc
      | Some f =>
          let '(o, nf) := examine_file (registered_tests (s_cleanup s) p count) (s_skipped s) false false f in
          match nf with
          | Some f' => (aset p f' fs, obs ++ o, ws ++ [(WRewrite, p)])
          | None => (fs, obs ++ o, ws)
          end
      end in
  fst (fst (fold_left step_file used (fs, obs, ws))) = fs /\
  snd (fold_left step_file used (fs, obs, ws)) = ws.
Proof.
  induction used as [|p used IH]; intros fs obs ws; cbn zeta in *; [split; reflexivity|].
  cbn [fold_left]. destruct (alookup p fs) as [f|] eqn:E; [|apply IH].
  pose proof (examine_file_noop (registered_tests (s_cleanup s) p count) (s_skipped s) f) as H.
  destruct (examine_file _ _ false false f) as [o nf]. cbn in H. subst nf. apply IH.
Qed.

(* when neither deleting nor sorting is allowed (always the case on CI), Clean writes nothing *)
Lemma clean_readonly s sort_opt count :
  clean_deletes (s_env s) = false -> clean_sorts (s_env s) sort_opt = false ->
  s_fs (fst (clean_run s sort_opt count)) = s_fs s /\ cr_writes (snd (clean_run s sort_opt count)) = [].
Proof.
  intros Hd Hs. unfold clean_run. rewrite Hd, Hs.
  set (fr := examine_files _ _ _).
  pose proof (clean_fold_noop s count (fr_used fr) (s_fs s) [] []) as H. cbn zeta in H.
  destruct (fold_left _ (fr_used fr) (s_fs s, [], [])) as [[fs2 obs] w2]. cbn in H. destruct H as [-> ->].
  cbn. split; reflexivity.
Qed.

Lemma clean_ci_readonly s sort_opt count :
  ci (s_env s) = true ->
  s_fs (fst (clean_run s sort_opt count)) = s_fs s /\ cr_writes (snd (clean_run s sort_opt count)) = [].
Proof.
  intros Hci. apply clean_readonly; unfold clean_deletes, clean_sorts; rewrite Hci;
    [apply andb_false_r|apply andb_false_r].
Qed.

(* only files whose name contains ".snap" are ever reported (and hence removed) *)
Lemma examine_files_inner_snap dir paths standalone names acc :
  let f := fun acc name =>
            if negb (contains snaps_ext name) then acc else
            let p := join2 dir name in
            if mem_bytes p paths then {| fr_obsolete := fr_obsolete acc; fr_used := fr_used acc ++ [p] |}
            else if mem_bytes p standalone then acc
            else {| fr_obsolete := fr_obsolete acc ++ [p]; fr_used := fr_used acc |} in
  forall p, In p (fr_obsolete (fold_left f names acc)) ->
  In p (fr_obsolete acc) \/
  exists name, In name names /\ contains snaps_ext name = true /\ p = join2 dir name /\
               mem_bytes p paths = false /\ mem_bytes p standalone = false.
Proof.
  intros f. revert acc. induction names as [|n names IH]; intros acc p Hin; cbn [fold_left] in Hin.
  - now left.
  - apply IH in Hin as [Hin|[name [H1 H2]]].
    + unfold f in Hin. destruct (contains snaps_ext n) eqn:Ec; cbn in Hin; [|now left].
      destruct (mem_bytes (join2 dir n) paths) eqn:Ep; cbn in Hin; [now left|].
      destruct (mem_bytes (join2 dir n) standalone) eqn:Es; cbn in Hin; [now left|].
      apply in_app_or in Hin as [Hin|[<-|[]]]; [now left|].
      right. exists n. repeat split; auto. now left.
    + right. exists name. destruct H2 as [H2 [H3 [H4 H5]]]. repeat split; auto. now right.
Qed.
