From Coq Require Import String.
From Coq Require Import List NArith Bool Lia.
Import ListNotations.
From Snaps Require Import Base.Bytes Model.PathModel Model.Api Model.Caller Proofs.BytesP.

Lemma snapshot_path_gen_notrim c caller test standalone :
  snapshot_path_gen false c caller test standalone = snapshot_path c caller test standalone.
Proof.
  unfold snapshot_path_gen, snapshot_path. rewrite andb_true_r.
  destruct (is_abs (c_dir c)); reflexivity.
Qed.

(* multi-entry: <dir>/<name>.snap<Ext> *)
Lemma path_multi c caller test :
  snapshot_path c caller test false =
  join2 (if is_abs (c_dir c) then c_dir c else join2 (dirname caller) (c_dir c))
        ((match c_filename c with
          | [] => trim_suffix (ext (basename caller)) (basename caller)
          | f => f
          end) ++ B ".snap" ++ c_ext c).
Proof. unfold snapshot_path, construct_filename, snaps_ext. destruct (c_filename c); reflexivity. Qed.

(* standalone: <dir>/<Filename, or N with / replaced by _>_%d.snap<Ext> (the ordinal is substituted later) *)
Lemma path_standalone c caller test :
  snapshot_path c caller test true =
  join2 (if is_abs (c_dir c) then c_dir c else join2 (dirname caller) (c_dir c))
        (((match c_filename c with
           | [] => replace_byte slash 95%N test
           | f => f
           end) ++ B "_%d") ++ B ".snap" ++ c_ext c).
Proof. unfold snapshot_path, construct_filename, snaps_ext. destruct (c_filename c); reflexivity. Qed.

(* an absolute Dir makes the location independent of the calling file's directory *)
Lemma path_abs_dir c caller1 caller2 test standalone :
  is_abs (c_dir c) = true -> c_filename c <> [] ->
  snapshot_path c caller1 test standalone = snapshot_path c caller2 test standalone.
Proof.
  intros Ha Hf. unfold snapshot_path, construct_filename. rewrite Ha.
  destruct (c_filename c); [contradiction|reflexivity].
Qed.

(* helper frames in non-test files between the call and the test function do not matter: the
   walk returns the first *_test.go frame *)
Lemma base_caller_skips_helpers prev hs f rest :
  Forall (fun h => is_test_file (fr_file h) = false /\ beq (fr_func h) (B "testing.tRunner") = false) hs ->
  is_test_file (fr_file f) = true -> beq (fr_func f) (B "testing.tRunner") = false ->
  base_caller_from prev (hs ++ f :: rest) = fr_file f.
Proof.
  intros Hh Hf Hn. revert prev. induction hs as [|h hs IH]; intros prev; cbn [app base_caller_from].
  - now rewrite Hn, Hf.
  - inversion Hh as [|? ? [H1 H2] Hr]; subst. rewrite H2, H1. now apply IH.
Qed.

Lemma last_default_indep {A} (l : list A) d1 d2 : l <> [] -> last l d1 = last l d2.
Proof.
  induction l as [|a l IH]; [congruence|]. intros _. destruct l as [|b l]; [reflexivity|].
  cbn [last]. apply IH. discriminate.
Qed.

(* no test file on the stack: the frame just below testing.tRunner (the test function's file) *)
Lemma base_caller_trunner prev hs f rest :
  Forall (fun h => is_test_file (fr_file h) = false /\ beq (fr_func h) (B "testing.tRunner") = false) hs ->
  beq (fr_func f) (B "testing.tRunner") = true ->
  base_caller_from prev (hs ++ f :: rest) = last (map fr_file hs) prev.
Proof.
  intros Hh Hf. revert prev. induction hs as [|h hs IH]; intros prev; cbn [app base_caller_from].
  - now rewrite Hf.
  - inversion Hh as [|? ? [H1 H2] Hr]; subst. rewrite H2, H1. rewrite IH by assumption.
    cbn [map]. destruct (map fr_file hs) as [|b l] eqn:E; [reflexivity|].
    change (last (b :: l) (fr_file h) = last (fr_file h :: b :: l) prev).
    change (last (fr_file h :: b :: l) prev) with (last (b :: l) prev).
    apply last_default_indep. discriminate.
Qed.
