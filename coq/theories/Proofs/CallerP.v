From Coq Require Import String.
From Coq Require Import List NArith Bool Lia.
Import ListNotations.
From Snaps Require Import Base.Bytes Model.PathModel Model.Api Model.Caller Proofs.BytesP.

Lemma snapshot_path_gen_notrim c caller test standalone :
  snapshot_path_gen false c caller test standalone = snapshot_path c caller test standalone.
Proof.
  unfold snapshot_path_gen, snapshot_path. rewrite andb_true_r.
  destruct (is_abs (c_dir c)); reflexivity.
Qed.

(* multi-entry: <dir>/<name>.snap<Ext> *)
Lemma path_multi c caller test :
  snapshot_path c caller test false =
  join2 (if is_abs (c_dir c) then c_dir c else join2 (dirname caller) (c_dir c))
        ((match c_filename c with
          | [] => trim_suffix (ext (basename caller)) (basename caller)
          | f => f
          end) ++ B ".snap" ++ c_ext c).
Proof. unfold snapshot_path, construct_filename, snaps_ext. destruct (c_filename c); reflexivity. Qed.

(* standalone: <dir>/<Filename, or N with / replaced by _>_%d.snap<Ext> (the ordinal is substituted later) *)
Lemma path_standalone c caller test :
  snapshot_path c caller test true =
  join2 (if is_abs (c_dir c) then c_dir c else join2 (dirname caller) (c_dir c))
        (((match c_filename c with
           | [] => replace_byte slash 95%N test
           | f => f
           end) ++ B "_%d") ++ B ".snap" ++ c_ext c).
Proof. unfold snapshot_path, construct_filename, snaps_ext. destruct (c_filename c); reflexivity. Qed.

(* an absolute Dir makes the location independent of the calling file's directory *)
Lemma path_abs_dir c caller1 caller2 test standalone :
  is_abs (c_dir c) = true -> c_filename c <> [] ->
  snapshot_path c caller1 test standalone = snapshot_path c caller2 test standalone.
Proof.
  intros Ha Hf. unfold snapshot_path, construct_filename. rewrite Ha.
  destruct (c_filename c); [contradiction|reflexivity].
Qed.

(* helper frames in non-test files between the call and the test function do not matter: the
   walk returns the first *_test.go frame *)
Lemma base_caller_skips_helpers prev hs f rest :
  Forall (fun h => is_test_file (fr_file h) = false /\ beq (fr_func h) (B "testing.tRunner") = false) hs ->
  is_test_file (fr_file f) = true -> beq (fr_func f) (B "testing.tRunner") = false ->
  base_caller_from prev (hs ++ f :: rest) = fr_file f.
Proof.
  intros Hh Hf Hn. revert prev. induction hs as [|h hs IH]; intros prev; cbn [app base_caller_from].
  - now rewrite Hn, Hf.
  - inversion Hh as [|? ? [H1 H2] Hr]; subst. rewrite H2, H1. now apply IH.
Qed.

Lemma last_default_indep {A} (l : list A) d1 d2 : l <> [] -> last l d1 = last l d2.
Proof.
  induction l as [|a l IH]; [congruence|]. intros _. destruct l as [|b l]; [reflexivity|].
  cbn [last]. apply IH. discriminate.
Qed.

(* no test file on the stack: the frame just below testing.tRunner (the test function's file) *)
Lemma base_caller_trunner prev hs f rest :
  Forall (fun h => is_test_file (fr_file h) = false /\ beq (fr_func h) (B "testing.tRunner") = false) hs ->
  beq (fr_func f) (B "testing.tRunner") = true ->
  base_caller_from prev (hs ++ f :: rest) = last (map fr_file hs) prev.
Proof.
  intros Hh Hf. revert prev. induction hs as [|h hs IH]; intros prev; cbn [app base_caller_from].
  - now rewrite Hf.
  - inversion Hh as [|? ? [H1 H2] Hr]; subst. rewrite H2, H1. rewrite IH by assumption.
    cbn [map]. destruct (map fr_file hs) as [|b l] eqn:E; [reflexivity|].
    change (last (b :: l) (fr_file h) = last (fr_file h :: b :: l) prev).
    change (last (fr_file h :: b :: l) prev) with (last (b :: l) prev).
    apply last_default_indep. discriminate.
Qed.

(* ---------- the standalone ordinal, the .json default, -trimpath ---------- *)

(* fmt.Sprintf(path, k) is modelled by [subst_d]: it puts k in place of the FIRST "%d". That is the "_%d" constructFilename
   appended exactly when nothing before it holds a '%' (directory, Filename, test name): the condition under which the model
   is exact (finding K8 is its failure) *)
Lemma subst_d_first (pre post k : bytes) :
  ~ In 37%N pre -> subst_d (pre ++ 37%N :: 100%N :: post) k = pre ++ k ++ post.
Proof.
  induction pre as [|c pre IH]; intros Hn.
  - reflexivity.
  - cbn [app]. assert (Hc : c <> 37%N) by (intros E; apply Hn; left; now symmetry).
    assert (Hp : ~ In 37%N pre) by (intros H; apply Hn; now right).
    unfold subst_d; fold subst_d.
    destruct c as [|p]; [now rewrite IH|].
    destruct (N.eq_dec (N.pos p) 37%N) as [E|E]; [contradiction|].
    (* the pattern 37 :: 100 :: r does not match because the head is not 37 *)
    destruct p as [p|p|]; try (now rewrite IH);
    repeat (destruct p as [p|p|]; try (now rewrite IH); try (exfalso; apply E; reflexivity)).
Qed.

Lemma standalone_file_name c caller test :
  construct_filename c caller test true =
  (match c_filename c with [] => replace_byte slash 95%N test | f => f end) ++ B "_%d" ++ snaps_ext ++ c_ext c.
Proof. unfold construct_filename. destruct (c_filename c); now rewrite <- ?app_assoc. Qed.

(* MatchStandaloneJSON: ".json" exactly when no Ext option was given *)
Lemma json_ext_default c : c_ext c = [] -> c_ext (json_ext c) = B ".json".
Proof. intros E. unfold json_ext. now rewrite E. Qed.
Lemma json_ext_given c : c_ext c <> [] -> json_ext c = c.
Proof. intros E. unfold json_ext. destruct (c_ext c); [contradiction|reflexivity]. Qed.

(* under -trimpath a relative Dir is kept as it is (it resolves against the working directory): the location no longer
   depends on the directory of the calling test file, only - for a multi-entry file without Filename - on its base name *)
Lemma trim_dir_kept c caller test standalone :
  snapshot_path_gen true c caller test standalone = join2 (c_dir c) (construct_filename c caller test standalone).
Proof. unfold snapshot_path_gen. now rewrite andb_false_r. Qed.
Lemma trim_caller_dir_irrelevant c caller1 caller2 test standalone :
  basename caller1 = basename caller2 ->
  snapshot_path_gen true c caller1 test standalone = snapshot_path_gen true c caller2 test standalone.
Proof.
  intros E. rewrite !trim_dir_kept. f_equal. unfold construct_filename. now rewrite E.
Qed.
