From Coq Require Import String.
From Coq Require Import List NArith Bool Lia.
Import ListNotations.
From Snaps Require Import Base.Bytes Model.PathModel Model.Api Model.Caller Proofs.BytesP.

Lemma snapshot_path_gen_notrim c caller test standalone :
  snapshot_path_gen false c caller test standalone = snapshot_path c caller test standalone.
Proof.
  unfold snapshot_path_gen, snapshot_path. rewrite andb_true_r.
  destruct standalone; [destruct (is_abs (esc_pct (c_dir c)))|destruct (is_abs (c_dir c))]; reflexivity.
Qed.

(* multi-entry: <dir>/<name>.snap<Ext> *)
Lemma path_multi c caller test :
  snapshot_path c caller test false =
  join2 (if is_abs (c_dir c) then c_dir c else join2 (dirname caller) (c_dir c))
        ((match c_filename c with
          | [] => trim_suffix (ext (basename caller)) (basename caller)
          | f => f
          end) ++ B ".snap" ++ c_ext c).
Proof. unfold snapshot_path, construct_filename, snaps_ext. destruct (c_filename c); reflexivity. Qed.

(* standalone: the FORMAT <dir>/<Filename, or N with / replaced by _>_%d.snap<Ext> in which every '%' of the directory, the
   calling file, the name and the extension is doubled; the ordinal is substituted later (subst_d_format below, and
   Proofs/PercentP.v for the path that results) *)
Lemma path_standalone c caller test :
  snapshot_path c caller test true =
  join2 (if is_abs (esc_pct (c_dir c)) then esc_pct (c_dir c) else join2 (dirname (esc_pct caller)) (esc_pct (c_dir c)))
        (esc_pct (match c_filename c with
                  | [] => replace_byte slash 95%N test
                  | f => f
                  end) ++ B "_%d" ++ B ".snap" ++ esc_pct (c_ext c)).
Proof. unfold snapshot_path, construct_filename, snaps_ext. destruct (c_filename c); reflexivity. Qed.

(* an absolute Dir makes the location independent of the calling file's directory *)
Lemma path_abs_dir c caller1 caller2 test standalone :
  is_abs (c_dir c) = true -> c_filename c <> [] ->
  snapshot_path c caller1 test standalone = snapshot_path c caller2 test standalone.
Proof.
  intros Ha Hf. unfold snapshot_path, construct_filename.
  assert (Ha' : is_abs (esc_pct (c_dir c)) = true).
  { destruct (c_dir c) as [|x r]; [discriminate|]. cbn [is_abs] in Ha. cbn [esc_pct].
    destruct (N.eqb x pct) eqn:E; [|exact Ha].
    apply N.eqb_eq in E. subst x. discriminate Ha. }
  destruct standalone; rewrite ?Ha, ?Ha'; (destruct (c_filename c); [contradiction|reflexivity]).
Qed.

(* helper frames in non-test files between the call and the test function do not matter: the
   walk returns the first *_test.go frame *)
Lemma base_caller_skips_helpers prev hs f rest :
  Forall (fun h => is_test_file (fr_file h) = false /\ beq (fr_func h) (B "testing.tRunner") = false) hs ->
  is_test_file (fr_file f) = true -> beq (fr_func f) (B "testing.tRunner") = false ->
  base_caller_from prev (hs ++ f :: rest) = fr_file f.
Proof.
  intros Hh Hf Hn. revert prev. induction hs as [|h hs IH]; intros prev; cbn [app base_caller_from].
  - now rewrite Hn, Hf.
  - inversion Hh as [|? ? [H1 H2] Hr]; subst. rewrite H2, H1. now apply IH.
Qed.

Lemma last_default_indep {A} (l : list A) d1 d2 : l <> [] -> last l d1 = last l d2.
Proof.
  induction l as [|a l IH]; [congruence|]. intros _. destruct l as [|b l]; [reflexivity|].
  cbn [last]. apply IH. discriminate.
Qed.

(* no test file on the stack: the frame just below testing.tRunner (the test function's file) *)
Lemma base_caller_trunner prev hs f rest :
  Forall (fun h => is_test_file (fr_file h) = false /\ beq (fr_func h) (B "testing.tRunner") = false) hs ->
  beq (fr_func f) (B "testing.tRunner") = true ->
  base_caller_from prev (hs ++ f :: rest) = last (map fr_file hs) prev.
Proof.
  intros Hh Hf. revert prev. induction hs as [|h hs IH]; intros prev; cbn [app base_caller_from].
  - now rewrite Hf.
  - inversion Hh as [|? ? [H1 H2] Hr]; subst. rewrite H2, H1. rewrite IH by assumption.
    cbn [map]. destruct (map fr_file hs) as [|b l] eqn:E; [reflexivity|].
    change (last (b :: l) (fr_file h) = last (fr_file h :: b :: l) prev).
    change (last (fr_file h :: b :: l) prev) with (last (b :: l) prev).
    apply last_default_indep. discriminate.
Qed.

(* ---------- the standalone ordinal, the .json default, -trimpath ---------- *)

(* fmt.Sprintf(path, k) is modelled by [subst_d]: "%%" prints '%', the first "%d" prints the ordinal. On a format whose
   literal parts were escaped with [esc_pct] the result is the literal parts around the ordinal - for EVERY content of the
   parts, '%' included (before fix F8 the parts were not escaped: finding K8) *)
Lemma unesc_esc_pct (s : bytes) : unesc_pct (esc_pct s) = s.
Proof.
  induction s as [|c s IH]; [reflexivity|]. cbn [esc_pct].
  destruct (N.eqb c pct) eqn:E.
  - apply N.eqb_eq in E. subst c. cbn [unesc_pct]. rewrite N.eqb_refl. now rewrite IH.
  - cbn [unesc_pct]. rewrite E. now rewrite IH.
Qed.
Lemma subst_d_format (pre post k : bytes) :
  subst_d (esc_pct pre ++ 37%N :: 100%N :: esc_pct post) k = pre ++ k ++ post.
Proof.
  induction pre as [|c pre IH].
  - cbn [esc_pct app subst_d]. change (N.eqb 37 pct) with true. cbn iota.
    change (N.eqb 100 pct) with false. cbn iota. change (N.eqb 100 100) with true. cbn iota.
    now rewrite unesc_esc_pct.
  - cbn [esc_pct]. destruct (N.eqb c pct) eqn:E.
    + apply N.eqb_eq in E. subst c. cbn [app subst_d]. rewrite N.eqb_refl. now rewrite IH.
    + cbn [app subst_d]. rewrite E. now rewrite IH.
Qed.

Lemma standalone_file_name c caller test :
  construct_filename c caller test true =
  esc_pct (match c_filename c with [] => replace_byte slash 95%N test | f => f end) ++ B "_%d" ++ snaps_ext ++ esc_pct (c_ext c).
Proof. unfold construct_filename. destruct (c_filename c); reflexivity. Qed.
(* the k-th standalone file NAME, for every name and extension *)
Lemma standalone_file_name_kth c caller test k :
  subst_d (construct_filename c caller test true) k =
  (match c_filename c with [] => replace_byte slash 95%N test | f => f end) ++ B "_" ++ k ++ snaps_ext ++ c_ext c.
Proof.
  rewrite standalone_file_name.
  set (f := match c_filename c with [] => replace_byte slash 95%N test | f => f end).
  change (B "_%d") with ([95%N] ++ [37%N; 100%N]).
  replace (esc_pct f ++ ([95%N] ++ [37%N; 100%N]) ++ snaps_ext ++ esc_pct (c_ext c))
    with (esc_pct (f ++ [95%N]) ++ 37%N :: 100%N :: esc_pct (snaps_ext ++ c_ext c)).
  - rewrite subst_d_format. now rewrite <- !app_assoc.
  - assert (Happ : forall a b, esc_pct (a ++ b) = esc_pct a ++ esc_pct b).
    { intros a b. induction a as [|x a IH]; [reflexivity|]. cbn [app esc_pct]. destruct (N.eqb x pct); cbn [app]; now rewrite IH. }
    rewrite !Happ. change (esc_pct [95%N]) with [95%N]. change (esc_pct snaps_ext) with snaps_ext.
    now rewrite <- !app_assoc.
Qed.

(* MatchStandaloneJSON: ".json" exactly when no Ext option was given *)
Lemma json_ext_default c : c_ext c = [] -> c_ext (json_ext c) = B ".json".
Proof. intros E. unfold json_ext. now rewrite E. Qed.
Lemma json_ext_given c : c_ext c <> [] -> json_ext c = c.
Proof. intros E. unfold json_ext. destruct (c_ext c); [contradiction|reflexivity]. Qed.

(* under -trimpath a relative Dir is kept as it is (it resolves against the working directory): the location no longer
   depends on the directory of the calling test file, only - for a multi-entry file without Filename - on its base name *)
Lemma trim_dir_kept c caller test standalone :
  snapshot_path_gen true c caller test standalone =
  join2 (if standalone then esc_pct (c_dir c) else c_dir c)
        (construct_filename c (if standalone then esc_pct caller else caller) test standalone).
Proof. unfold snapshot_path_gen. now rewrite andb_false_r. Qed.
Lemma trim_caller_dir_irrelevant c caller1 caller2 test standalone :
  basename caller1 = basename caller2 ->
  snapshot_path_gen true c caller1 test standalone = snapshot_path_gen true c caller2 test standalone.
Proof.
  intros E. rewrite !trim_dir_kept. f_equal. unfold construct_filename.
  destruct standalone; [reflexivity|now rewrite E].
Qed.
