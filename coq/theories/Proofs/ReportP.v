(* ReportP: lemmas about the NO_COLOR failure report (Model/Report.v). *)
From Coq Require Import String.
From Coq Require Import List NArith Arith Bool Lia.
Import ListNotations.
From Snaps Require Import Base.Bytes Base.Lines Base.Dec Proofs.BytesP Proofs.DecP.
From Snaps Require Import Model.Difflib Model.DifflibSpec Model.Report Model.ReportSpec.
From Snaps Require Import Proofs.DifflibP.

(* ================================================================== *)
(** * splitNewlines *)

Lemma split_after_nl_nonempty s : split_after_nl s <> [].
Proof.
  destruct s as [|c r]; cbn; [discriminate|].
  destruct (N.eqb c nl); [discriminate|]. destruct (split_after_nl r); discriminate.
Qed.

(* SplitAfter loses nothing *)
Lemma concat_split_after_nl s : concat (split_after_nl s) = s.
Proof.
  induction s as [|c r IH]; [reflexivity|]. cbn [split_after_nl].
  destruct (N.eqb c nl).
  - cbn. now rewrite IH.
  - destruct (split_after_nl r) as [|l ls] eqn:E; [now destruct (split_after_nl_nonempty r)|].
    cbn in *. now rewrite IH.
Qed.

Lemma concat_append_last x ls : ls <> [] -> concat (append_last x ls) = concat ls ++ x.
Proof.
  induction ls as [|l r IH]; intros Hne; [congruence|].
  destruct r as [|l2 r].
  - cbn. now rewrite !app_nil_r.
  - change (append_last x (l :: l2 :: r)) with (l :: append_last x (l2 :: r)).
    cbn [concat]. rewrite IH by discriminate. cbn [concat]. now rewrite app_assoc.
Qed.

Lemma concat_split_newlines s : concat (split_newlines s) = s ++ [nl].
Proof.
  unfold split_newlines. rewrite concat_append_last by apply split_after_nl_nonempty.
  now rewrite concat_split_after_nl.
Qed.

(** split_newlines_inj *)
Theorem split_newlines_inj s t : split_newlines s = split_newlines t -> s = t.
Proof.
  intros H. apply (f_equal (@concat N)) in H. rewrite !concat_split_newlines in H.
  now apply app_inv_tail in H.
Qed.

Lemma append_last_nonempty x ls : ls <> [] -> append_last x ls <> [].
Proof. destruct ls as [|l [|l2 r]]; cbn; congruence. Qed.

Lemma split_newlines_nonempty s : split_newlines s <> [].
Proof. apply append_last_nonempty, split_after_nl_nonempty. Qed.

Lemma append_last_cons x l ls : ls <> [] -> append_last x (l :: ls) = l :: append_last x ls.
Proof. destruct ls; [congruence|reflexivity]. Qed.

(* the same lines as strings.Split(s, "\n"), each with "\n" put back *)
Lemma split_newlines_split_nl s : split_newlines s = map (fun l => l ++ [nl]) (split_nl s).
Proof.
  unfold split_newlines. induction s as [|c r IH]; [reflexivity|].
  cbn [split_after_nl split_nl]. destruct (N.eqb_spec c nl) as [->|Hc].
  - rewrite append_last_cons by apply split_after_nl_nonempty. rewrite IH. reflexivity.
  - destruct (split_after_nl r) as [|l ls] eqn:E; [now destruct (split_after_nl_nonempty r)|].
    destruct (split_nl r) as [|l' ls'] eqn:E'.
    + destruct ls; cbn in IH; discriminate.
    + destruct ls as [|l2 ls].
      * cbn [append_last map] in IH |- *. injection IH as E1 E2.
        rewrite <- E2. cbn [app]. now rewrite E1.
      * rewrite (append_last_cons [nl] l (l2 :: ls)) in IH by discriminate.
        transitivity ((c :: l) :: append_last [nl] (l2 :: ls)); [reflexivity|].
        cbn [map] in IH |- *. injection IH as E1 E2. cbn [app].
        f_equal; [f_equal; exact E1|exact E2].
Qed.

(* ================================================================== *)
(** * accumulation of (lines, inserted, deleted) *)

Lemma r_lines_add x y : r_lines (acc_add x y) = r_lines x ++ r_lines y.
Proof. destruct x as [[? ?] ?], y as [[? ?] ?]. reflexivity. Qed.
Lemma r_ins_add x y : r_ins (acc_add x y) = r_ins x + r_ins y.
Proof. destruct x as [[? ?] ?], y as [[? ?] ?]. reflexivity. Qed.
Lemma r_del_add x y : r_del (acc_add x y) = r_del x + r_del y.
Proof. destruct x as [[? ?] ?], y as [[? ?] ?]. reflexivity. Qed.

Lemma count_ins_app x y : count_ins (x ++ y) = count_ins x + count_ins y.
Proof. unfold count_ins. now rewrite filter_app, app_length. Qed.
Lemma count_del_app x y : count_del (x ++ y) = count_del x + count_del y.
Proof. unfold count_del. now rewrite filter_app, app_length. Qed.

Lemma count_ins_map_RIns l : count_ins (map RIns l) = length l.
Proof. unfold count_ins. induction l; cbn; auto. Qed.
Lemma count_ins_map_RDel l : count_ins (map RDel l) = 0.
Proof. unfold count_ins. induction l; cbn; auto. Qed.
Lemma count_del_map_RDel l : count_del (map RDel l) = length l.
Proof. unfold count_del. induction l; cbn; auto. Qed.
Lemma count_del_map_RIns l : count_del (map RIns l) = 0.
Proof. unfold count_del. induction l; cbn; auto. Qed.
Lemma count_ins_map_REq f (l : list bytes) : count_ins (map (fun x => REq (f x)) l) = 0.
Proof. unfold count_ins. induction l; cbn; auto. Qed.
Lemma count_del_map_REq f (l : list bytes) : count_del (map (fun x => REq (f x)) l) = 0.
Proof. unfold count_del. induction l; cbn; auto. Qed.

(* counters are bumped exactly where a tagged line is emitted *)
Lemma op_lines_counts al bl c :
  r_ins (op_lines al bl c) = count_ins (r_lines (op_lines al bl c)) /\
  r_del (op_lines al bl c) = count_del (r_lines (op_lines al bl c)).
Proof.
  unfold op_lines. destruct (op_tag c); cbn [r_ins r_del r_lines fst snd].
  - now rewrite count_ins_map_REq, count_del_map_REq.
  - now rewrite count_ins_map_RIns, count_del_map_RIns.
  - now rewrite count_ins_map_RDel, count_del_map_RDel.
  - rewrite count_ins_app, count_del_app, count_ins_map_RIns, count_ins_map_RDel,
      count_del_map_RIns, count_del_map_RDel. lia.
Qed.

Lemma ops_lines_counts al bl g :
  r_ins (ops_lines al bl g) = count_ins (r_lines (ops_lines al bl g)) /\
  r_del (ops_lines al bl g) = count_del (r_lines (ops_lines al bl g)).
Proof.
  unfold ops_lines. induction g as [|c r [IH1 IH2]]; cbn [fold_right]; [now split|].
  rewrite r_ins_add, r_del_add, r_lines_add, count_ins_app, count_del_app, IH1, IH2.
  destruct (op_lines_counts al bl c) as [-> ->]. now split.
Qed.

Lemma group_lines_counts sr al bl g :
  r_ins (group_lines sr al bl g) = count_ins (r_lines (group_lines sr al bl g)) /\
  r_del (group_lines sr al bl g) = count_del (r_lines (group_lines sr al bl g)).
Proof.
  unfold group_lines. rewrite r_ins_add, r_del_add, r_lines_add, count_ins_app, count_del_app.
  destruct (ops_lines_counts al bl g) as [-> ->].
  destruct sr; cbn [r_ins r_del r_lines fst snd]; split; reflexivity.
Qed.

(** inserted = number of "+ " lines, deleted = number of "- " lines *)
Theorem unified_counts a b :
  r_ins (unified_nocolor a b) = count_ins (r_lines (unified_nocolor a b)) /\
  r_del (unified_nocolor a b) = count_del (r_lines (unified_nocolor a b)).
Proof.
  unfold unified_nocolor.
  induction (grouped_opcodes context (split_newlines a) (split_newlines b)) as [|g gs [IH1 IH2]];
    cbn [fold_right]; [now split|].
  rewrite r_ins_add, r_del_add, r_lines_add, count_ins_app, count_del_app, IH1, IH2.
  match goal with |- context [group_lines ?sr ?al ?bl g] =>
    destruct (group_lines_counts sr al bl g) as [-> ->] end.
  now split.
Qed.

(* ================================================================== *)
(** * which lines are printed as "- " / "+ " *)

Lemma del_lines_app x y : del_lines (x ++ y) = del_lines x ++ del_lines y.
Proof. induction x as [|[l|l|l|r1 r2] x IH]; cbn; now rewrite ?IH. Qed.
Lemma ins_lines_app x y : ins_lines (x ++ y) = ins_lines x ++ ins_lines y.
Proof. induction x as [|[l|l|l|r1 r2] x IH]; cbn; now rewrite ?IH. Qed.

Lemma In_del_lines l ls : In (RDel l) ls <-> In l (del_lines ls).
Proof.
  induction ls as [|[x|x|x|r1 r2] ls IH]; cbn; try tauto;
    try (split; [intros [H|H]; [discriminate|tauto]|tauto]).
  split; [intros [H|H]; [injection H; auto|tauto]|intros [->|H]; tauto].
Qed.
Lemma In_ins_lines l ls : In (RIns l) ls <-> In l (ins_lines ls).
Proof.
  induction ls as [|[x|x|x|r1 r2] ls IH]; cbn; try tauto;
    try (split; [intros [H|H]; [discriminate|tauto]|tauto]).
  split; [intros [H|H]; [injection H; auto|tauto]|intros [->|H]; tauto].
Qed.

Lemma del_lines_map_RDel l : del_lines (map RDel l) = l.
Proof. induction l; cbn; congruence. Qed.
Lemma del_lines_map_RIns l : del_lines (map RIns l) = [].
Proof. induction l; cbn; congruence. Qed.
Lemma del_lines_map_REq f (l : list bytes) : del_lines (map (fun x => REq (f x)) l) = [].
Proof. induction l; cbn; congruence. Qed.
Lemma ins_lines_map_RIns l : ins_lines (map RIns l) = l.
Proof. induction l; cbn; congruence. Qed.
Lemma ins_lines_map_RDel l : ins_lines (map RDel l) = [].
Proof. induction l; cbn; congruence. Qed.
Lemma ins_lines_map_REq f (l : list bytes) : ins_lines (map (fun x => REq (f x)) l) = [].
Proof. induction l; cbn; congruence. Qed.

Lemma op_lines_del al bl c : del_lines (r_lines (op_lines al bl c)) = deleted_of al c.
Proof.
  unfold op_lines, deleted_of. destruct (op_tag c); cbn [r_lines fst].
  - apply del_lines_map_REq.
  - apply del_lines_map_RIns.
  - apply del_lines_map_RDel.
  - now rewrite del_lines_app, del_lines_map_RDel, del_lines_map_RIns, app_nil_r.
Qed.

Lemma op_lines_ins al bl c : ins_lines (r_lines (op_lines al bl c)) = inserted_of bl c.
Proof.
  unfold op_lines, inserted_of. destruct (op_tag c); cbn [r_lines fst].
  - apply ins_lines_map_REq.
  - apply ins_lines_map_RIns.
  - apply ins_lines_map_RDel.
  - now rewrite ins_lines_app, ins_lines_map_RDel, ins_lines_map_RIns.
Qed.

Lemma ops_lines_del al bl g :
  del_lines (r_lines (ops_lines al bl g)) = concat (map (deleted_of al) g).
Proof.
  unfold ops_lines. induction g as [|c r IH]; cbn [fold_right map concat]; [reflexivity|].
  now rewrite r_lines_add, del_lines_app, IH, op_lines_del.
Qed.
Lemma ops_lines_ins al bl g :
  ins_lines (r_lines (ops_lines al bl g)) = concat (map (inserted_of bl) g).
Proof.
  unfold ops_lines. induction g as [|c r IH]; cbn [fold_right map concat]; [reflexivity|].
  now rewrite r_lines_add, ins_lines_app, IH, op_lines_ins.
Qed.

Lemma group_lines_del sr al bl g :
  del_lines (r_lines (group_lines sr al bl g)) = concat (map (deleted_of al) g).
Proof.
  unfold group_lines. rewrite r_lines_add, del_lines_app, ops_lines_del. now destruct sr.
Qed.
Lemma group_lines_ins sr al bl g :
  ins_lines (r_lines (group_lines sr al bl g)) = concat (map (inserted_of bl) g).
Proof.
  unfold group_lines. rewrite r_lines_add, ins_lines_app, ops_lines_ins. now destruct sr.
Qed.

Lemma groups_lines_del sr al bl gs :
  del_lines (r_lines (fold_right (fun g acc => acc_add (group_lines sr al bl g) acc) ([], 0, 0) gs))
  = concat (map (deleted_of al) (concat gs)).
Proof.
  induction gs as [|g gs IH]; cbn [fold_right concat]; [reflexivity|].
  now rewrite r_lines_add, del_lines_app, IH, group_lines_del, map_app, concat_app.
Qed.
Lemma groups_lines_ins sr al bl gs :
  ins_lines (r_lines (fold_right (fun g acc => acc_add (group_lines sr al bl g) acc) ([], 0, 0) gs))
  = concat (map (inserted_of bl) (concat gs)).
Proof.
  induction gs as [|g gs IH]; cbn [fold_right concat]; [reflexivity|].
  now rewrite r_lines_add, ins_lines_app, IH, group_lines_ins, map_app, concat_app.
Qed.

(* Equal opcodes contribute nothing *)
Lemma concat_deleted_filter al ops :
  concat (map (deleted_of al) ops) = concat (map (deleted_of al) (filter non_equal ops)).
Proof.
  induction ops as [|c r IH]; [reflexivity|]. cbn [map concat filter].
  unfold non_equal at 1, is_equal, deleted_of at 1.
  destruct (op_tag c) eqn:E; cbn [tag_eqb negb map concat app]; rewrite IH; try reflexivity;
    unfold deleted_of at 2; now rewrite E.
Qed.
Lemma concat_inserted_filter bl ops :
  concat (map (inserted_of bl) ops) = concat (map (inserted_of bl) (filter non_equal ops)).
Proof.
  induction ops as [|c r IH]; [reflexivity|]. cbn [map concat filter].
  unfold non_equal at 1, is_equal, inserted_of at 1.
  destruct (op_tag c) eqn:E; cbn [tag_eqb negb map concat app]; rewrite IH; try reflexivity;
    unfold inserted_of at 2; now rewrite E.
Qed.

(** the "- " lines of the report are exactly the a-lines of the Delete/Replace opcodes of the
    full script, the "+ " lines exactly the b-lines of its Insert/Replace opcodes (grouping
    with 3 lines of context loses no change) *)
Theorem report_del_lines a b :
  del_lines (r_lines (unified_nocolor a b)) =
  concat (map (deleted_of (split_newlines a)) (get_opcodes (split_newlines a) (split_newlines b))).
Proof.
  unfold unified_nocolor. rewrite groups_lines_del.
  rewrite concat_deleted_filter, grouped_no_change_lost. symmetry. apply concat_deleted_filter.
Qed.

Theorem report_ins_lines a b :
  ins_lines (r_lines (unified_nocolor a b)) =
  concat (map (inserted_of (split_newlines b)) (get_opcodes (split_newlines a) (split_newlines b))).
Proof.
  unfold unified_nocolor. rewrite groups_lines_ins.
  rewrite concat_inserted_filter, grouped_no_change_lost. symmetry. apply concat_inserted_filter.
Qed.

Lemma In_concat_map {A B} (f : A -> list B) l x : In x (concat (map f l)) -> exists c, In c l /\ In x (f c).
Proof.
  intros H. apply in_concat in H as (y & Hy & Hx). apply in_map_iff in Hy as (c & <- & Hc). eauto.
Qed.

(** every "- " line is a line of the snapshot, every "+ " line a line of the received text *)
Theorem report_lines_truthful a b l :
  (In (RDel l) (r_lines (unified_nocolor a b)) -> In l (split_newlines a)) /\
  (In (RIns l) (r_lines (unified_nocolor a b)) -> In l (split_newlines b)).
Proof.
  split; intros H.
  - apply In_del_lines in H. rewrite report_del_lines in H.
    apply In_concat_map in H as (c & _ & H). unfold deleted_of in H.
    destruct (op_tag c); try contradiction; eapply In_slice, H.
  - apply In_ins_lines in H. rewrite report_ins_lines in H.
    apply In_concat_map in H as (c & _ & H). unfold inserted_of in H.
    destruct (op_tag c); try contradiction; eapply In_slice, H.
Qed.

(** residual: with ops the full script,
    - the snapshot lines are the interleaving of kept and deleted lines,
    - the received lines are the interleaving of THE SAME kept lines and the inserted lines,
    - the deleted / inserted lines are exactly what the report prints as "- " / "+ ". *)
Theorem report_residual a b :
  let al := split_newlines a in
  let bl := split_newlines b in
  let ops := get_opcodes al bl in
  al = concat (map (fun c => kept_a_of al c ++ deleted_of al c) ops) /\
  bl = concat (map (fun c => kept_a_of al c ++ inserted_of bl c) ops) /\
  map (kept_a_of al) ops = map (kept_b_of bl) ops /\
  del_lines (r_lines (unified_nocolor a b)) = concat (map (deleted_of al) ops) /\
  ins_lines (r_lines (unified_nocolor a b)) = concat (map (inserted_of bl) ops).
Proof.
  intros al bl ops. destruct (opcodes_replay al bl) as [Hb Ha].
  repeat split.
  - rewrite <- Ha at 1. unfold replay_a. f_equal. apply map_ext. intros c.
    unfold replay_a_op, kept_a_of, deleted_of. destruct (op_tag c); now rewrite ?app_nil_r.
  - rewrite <- Hb at 1. unfold replay_b. f_equal. apply map_ext. intros c.
    unfold replay_b_op, kept_a_of, inserted_of. destruct (op_tag c); now rewrite ?app_nil_r.
  - apply opcodes_kept_same.
  - apply report_del_lines.
  - apply report_ins_lines.
Qed.

(* ================================================================== *)
(** * the report is empty iff the texts are equal *)

Lemma forallb_false_exists {A} (f : A -> bool) l :
  forallb f l = false -> exists x, In x l /\ f x = false.
Proof.
  induction l as [|x l IH]; cbn; [discriminate|]. destruct (f x) eqn:E; cbn.
  - intros H. destruct (IH H) as (y & Hy & Hf). exists y. auto.
  - intros _. exists x. auto.
Qed.

Lemma nonempty_has_elem {A} (l : list A) : l <> [] -> exists x, In x l.
Proof. destruct l as [|x l]; [congruence|]. exists x. now left. Qed.

Lemma unified_has_change a b :
  a <> b ->
  exists l, In (RDel l) (r_lines (unified_nocolor a b)) \/ In (RIns l) (r_lines (unified_nocolor a b)).
Proof.
  intros Hne.
  set (al := split_newlines a). set (bl := split_newlines b).
  destruct (forallb is_equal (get_opcodes al bl)) eqn:F.
  { exfalso. apply Hne, split_newlines_inj. now apply opcodes_all_equal_same. }
  apply forallb_false_exists in F as (c & Hin & Hc).
  pose proof (opcodes_equal_sound al bl c Hin) as Hs.
  pose proof (opcodes_in_bounds al bl c Hin) as (_ & Hb1 & _ & Hb2).
  assert (Hd : (exists l, In l (deleted_of al c)) \/ (exists l, In l (inserted_of bl c))).
  { unfold deleted_of, inserted_of, is_equal in *. destruct (op_tag c); try discriminate.
    - right. apply nonempty_has_elem, slice_nonempty; [apply Hs|exact Hb2].
    - left. apply nonempty_has_elem, slice_nonempty; [apply Hs|exact Hb1].
    - left. apply nonempty_has_elem, slice_nonempty; [apply Hs|exact Hb1]. }
  destruct Hd as [(l & Hl)|(l & Hl)]; exists l; [left|right].
  - apply In_del_lines. rewrite report_del_lines. apply in_concat.
    exists (deleted_of al c). split; [|exact Hl]. apply in_map. exact Hin.
  - apply In_ins_lines. rewrite report_ins_lines. apply in_concat.
    exists (inserted_of bl c). split; [|exact Hl]. apply in_map. exact Hin.
Qed.

Lemma render_line_nonempty r : render_line r <> [].
Proof. destruct r; cbn; discriminate. Qed.

Lemma render_body_nonempty ls : ls <> [] -> render_body ls <> [].
Proof.
  destruct ls as [|r ls]; [congruence|]. intros _. unfold render_body. cbn [map concat].
  pose proof (render_line_nonempty r). destruct (render_line r); [congruence|discriminate].
Qed.

Lemma build_report_nonempty i d diff name line : diff <> [] -> build_report i d diff name line <> [].
Proof.
  intros H. unfold build_report. destruct diff; [congruence|].
  destruct (int_padding i d). discriminate.
Qed.

(** C13_empty_iff (NO_COLOR) *)
Theorem pretty_diff_empty_iff a b name line :
  pretty_diff_nocolor a b name line = [] <-> a = b.
Proof.
  unfold pretty_diff_nocolor. destruct (beq_spec a b) as [->|Hne]; [tauto|].
  split; [|congruence]. intros H. exfalso.
  destruct (unified_has_change a b Hne) as (l & Hl).
  unfold render_nocolor in H. destruct (unified_nocolor a b) as [[ls i] d]. cbn [r_lines fst] in Hl.
  revert H. apply build_report_nonempty, render_body_nonempty.
  destruct Hl as [Hl|Hl]; intros ->; contradiction.
Qed.

(* ================================================================== *)
(** * no ESC byte is introduced *)

Lemma no_esc_app x y : no_esc (x ++ y) = no_esc x && no_esc y.
Proof. apply forallb_app. Qed.

Lemma no_esc_cons c x : no_esc (c :: x) = negb (N.eqb c esc) && no_esc x.
Proof. reflexivity. Qed.

Lemma no_esc_concat ls : (forall x, In x ls -> no_esc x = true) -> no_esc (concat ls) = true.
Proof.
  induction ls as [|l ls IH]; intros H; [reflexivity|]. cbn [concat]. rewrite no_esc_app.
  rewrite (H l (or_introl eq_refl)), IH; [reflexivity|]. intros x Hx. apply H. now right.
Qed.

Lemma no_esc_In_concat ls x : no_esc (concat ls) = true -> In x ls -> no_esc x = true.
Proof.
  induction ls as [|l ls IH]; intros H Hin; [contradiction|]. cbn [concat] in H.
  rewrite no_esc_app in H. apply andb_prop in H as [H1 H2].
  destruct Hin as [->|Hin]; auto.
Qed.

Lemma no_esc_iff s : no_esc s = true <-> ~ In esc s.
Proof.
  unfold no_esc. rewrite forallb_forall. split.
  - intros H Hin. specialize (H _ Hin). now rewrite N.eqb_refl in H.
  - intros H x Hx. destruct (N.eqb_spec x esc) as [->|]; [contradiction|reflexivity].
Qed.

Lemma no_esc_digits s : forallb is_digit s = true -> no_esc s = true.
Proof.
  unfold no_esc. rewrite !forallb_forall. intros H x Hx. specialize (H x Hx).
  unfold is_digit in H. apply andb_prop in H as [H1 _]. apply N.leb_le in H1.
  destruct (N.eqb_spec x esc) as [->|]; [|reflexivity]. unfold esc in H1. lia.
Qed.

Lemma no_esc_dec n : no_esc (dec n) = true.
Proof. apply no_esc_digits, dec_digits. Qed.

Lemma no_esc_spaces n : no_esc (spaces n) = true.
Proof. unfold spaces. induction n; cbn; auto. Qed.

Lemma no_esc_split_newlines s l : no_esc s = true -> In l (split_newlines s) -> no_esc l = true.
Proof.
  intros Hs Hin. apply (no_esc_In_concat (split_newlines s)); [|exact Hin].
  rewrite concat_split_newlines, no_esc_app, Hs. reflexivity.
Qed.

Lemma no_esc_show_equal_line l : no_esc l = true -> no_esc (show_equal_line l) = true.
Proof. intros H. unfold show_equal_line. destruct (beq l [nl]); [reflexivity|exact H]. Qed.

Lemma no_esc_format_range s e : no_esc (format_range s e) = true.
Proof.
  unfold format_range. destruct (e - s =? 1); [apply no_esc_dec|].
  rewrite !no_esc_app, !no_esc_dec. reflexivity.
Qed.

Lemma lines_clean_map_slice (f : bytes -> rline) (l : list bytes) i j :
  (forall x, In x l -> rline_clean (f x) = true) ->
  lines_clean (map f (slice l i j)).
Proof.
  intros H. apply Forall_forall. intros r Hr. apply in_map_iff in Hr as (x & <- & Hx).
  apply H. eapply In_slice, Hx.
Qed.

Lemma op_lines_clean al bl c :
  (forall x, In x al -> no_esc x = true) -> (forall x, In x bl -> no_esc x = true) ->
  lines_clean (r_lines (op_lines al bl c)).
Proof.
  intros Ha Hb. unfold op_lines. destruct (op_tag c); cbn [r_lines fst].
  - apply lines_clean_map_slice. intros x Hx. cbn. apply no_esc_show_equal_line, Ha, Hx.
  - apply lines_clean_map_slice. exact Hb.
  - apply lines_clean_map_slice. exact Ha.
  - apply Forall_app. split; apply lines_clean_map_slice; assumption.
Qed.

Lemma ops_lines_clean al bl g :
  (forall x, In x al -> no_esc x = true) -> (forall x, In x bl -> no_esc x = true) ->
  lines_clean (r_lines (ops_lines al bl g)).
Proof.
  intros Ha Hb. unfold ops_lines. induction g as [|c r IH]; cbn [fold_right]; [constructor|].
  rewrite r_lines_add. apply Forall_app. split; [now apply op_lines_clean|exact IH].
Qed.

Lemma group_lines_clean sr al bl g :
  (forall x, In x al -> no_esc x = true) -> (forall x, In x bl -> no_esc x = true) ->
  lines_clean (r_lines (group_lines sr al bl g)).
Proof.
  intros Ha Hb. unfold group_lines. rewrite r_lines_add. apply Forall_app. split.
  - destruct sr; cbn [r_lines fst]; [|constructor]. constructor; [|constructor].
    unfold range_line. cbn. now rewrite !no_esc_format_range.
  - now apply ops_lines_clean.
Qed.

Lemma unified_clean a b :
  no_esc a = true -> no_esc b = true -> lines_clean (r_lines (unified_nocolor a b)).
Proof.
  intros Ha Hb. unfold unified_nocolor.
  induction (grouped_opcodes context (split_newlines a) (split_newlines b)) as [|g gs IH];
    cbn [fold_right]; [constructor|].
  rewrite r_lines_add. apply Forall_app. split; [|exact IH].
  apply group_lines_clean; intros x Hx;
    [apply (no_esc_split_newlines a)|apply (no_esc_split_newlines b)]; assumption.
Qed.

Lemma render_line_clean r : rline_clean r = true -> no_esc (render_line r) = true.
Proof.
  destruct r as [l|l|l|r1 r2]; cbn [rline_clean render_line]; intros H;
    rewrite ?no_esc_app; try (rewrite H; reflexivity).
  apply andb_prop in H as [-> ->]. reflexivity.
Qed.

Lemma render_body_clean ls : lines_clean ls -> no_esc (render_body ls) = true.
Proof.
  intros H. unfold render_body. apply no_esc_concat. intros x Hx.
  apply in_map_iff in Hx as (r & <- & Hr). apply render_line_clean.
  unfold lines_clean in H. rewrite Forall_forall in H. now apply H.
Qed.

Lemma int_padding_clean i d :
  no_esc (fst (int_padding i d)) = true /\ no_esc (snd (int_padding i d)) = true.
Proof.
  unfold int_padding. destruct (_ =? _); [now split|].
  destruct (_ <? _); cbn [fst snd]; split; try reflexivity; apply no_esc_spaces.
Qed.

Lemma build_report_clean i d diff name line :
  no_esc diff = true -> no_esc name = true -> no_esc (build_report i d diff name line) = true.
Proof.
  intros Hd Hn. unfold build_report. destruct diff as [|c diff]; [reflexivity|].
  destruct (int_padding_clean i d) as [Hi Hp]. destruct (int_padding i d) as [ipad dpad].
  cbn [fst snd] in Hi, Hp.
  rewrite !no_esc_app, Hd, Hi, Hp, !no_esc_dec.
  destruct name as [|n0 name]; [reflexivity|]. rewrite !no_esc_app, Hn, no_esc_dec. reflexivity.
Qed.

(** C13_no_escape *)
Theorem pretty_diff_no_esc a b name line :
  no_esc a = true -> no_esc b = true -> no_esc name = true ->
  no_esc (pretty_diff_nocolor a b name line) = true.
Proof.
  intros Ha Hb Hn. unfold pretty_diff_nocolor. destruct (beq a b); [reflexivity|].
  pose proof (unified_clean a b Ha Hb) as Hc.
  unfold render_nocolor. destruct (unified_nocolor a b) as [[ls i] d]. cbn [r_lines fst] in Hc.
  apply build_report_clean; [|exact Hn]. now apply render_body_clean.
Qed.

Corollary pretty_diff_no_esc_In a b name line :
  ~ In 27%N (a ++ b ++ name) -> ~ In 27%N (pretty_diff_nocolor a b name line).
Proof.
  intros H. apply no_esc_iff, pretty_diff_no_esc; apply no_esc_iff; intros Hin; apply H;
    rewrite !in_app_iff; auto.
Qed.

(* ================================================================== *)
(** * where a report line comes from *)

Lemma ops_lines_In al bl g r :
  In r (r_lines (ops_lines al bl g)) -> exists c, In c g /\ In r (r_lines (op_lines al bl c)).
Proof.
  unfold ops_lines. induction g as [|c g IH]; cbn [fold_right]; [intros []|].
  rewrite r_lines_add. intros H. apply in_app_or in H as [H|H].
  - exists c. split; [now left|exact H].
  - destruct (IH H) as (c' & Hc & Hr). exists c'. split; [now right|exact Hr].
Qed.

Lemma unified_In a b r :
  In r (r_lines (unified_nocolor a b)) ->
  exists g, In g (grouped_opcodes context (split_newlines a) (split_newlines b)) /\
    (r = range_line g \/
     exists c, In c g /\ In r (r_lines (op_lines (split_newlines a) (split_newlines b) c))).
Proof.
  unfold unified_nocolor.
  induction (grouped_opcodes context (split_newlines a) (split_newlines b)) as [|g gs IH];
    cbn [fold_right]; [intros []|].
  rewrite r_lines_add. intros H. apply in_app_or in H as [H|H].
  - exists g. split; [now left|]. unfold group_lines in H. rewrite r_lines_add in H.
    apply in_app_or in H as [H|H].
    + left. destruct (_ || _); cbn in H; [|contradiction]. destruct H as [<-|[]]. reflexivity.
    + right. now apply ops_lines_In.
  - destruct (IH H) as (g' & Hg & Hr). exists g'. split; [now right|exact Hr].
Qed.

(** every "  " (context) line of the report is a line common to both texts
    (shown with the newline symbol when it is a bare newline) *)
Theorem report_context_lines_common a b l :
  In (REq l) (r_lines (unified_nocolor a b)) ->
  exists l0, In l0 (split_newlines a) /\ In l0 (split_newlines b) /\ l = show_equal_line l0.
Proof.
  intros H. apply unified_In in H as (g & Hg & [H|(c & Hc & H)]); [discriminate|].
  destruct (grouped_ops_sound _ _ _ _ _ Hg Hc) as [(_ & _ & _ & _ & Hok) _].
  unfold op_lines in H. destruct (op_tag c) eqn:E; cbn [r_lines fst] in H.
  - destruct (Hok eq_refl) as [_ Es].
    apply in_map_iff in H as (l0 & E0 & Hl0). injection E0 as <-.
    exists l0. repeat split; [eapply In_slice, Hl0|].
    apply (In_slice _ (j1 c) (j2 c)). unfold line in *. rewrite <- Es. exact Hl0.
  - apply in_map_iff in H as (? & ? & _). discriminate.
  - apply in_map_iff in H as (? & ? & _). discriminate.
  - apply in_app_or in H as [H|H]; apply in_map_iff in H as (? & ? & _); discriminate.
Qed.
