(* Injectivity of the stored JSON text, as a corollary of losslessness: two valid documents whose stored texts are equal
   denote the same JSON value (up to the order of object members when keys are sorted). *)
From Coq Require Import List NArith Bool Lia.
Import ListNotations.
From Snaps Require Import Base.Bytes Base.Lines Model.Json Model.JsonSpec Proofs.JsonP.

Lemma store_injective (width : nat) (indent : bytes) (sk : bool) (s1 s2 : bytes) (v1 v2 : jv) :
  parse (S (length s1)) s1 = Some v1 -> parse (S (length s2)) s2 = Some v2 -> ws_bytes indent ->
  snapshot_json width indent sk s1 = snapshot_json width indent sk s2 ->
  sort_if sk v1 = sort_if sk v2.
Proof.
  intros H1 H2 Hi Heq.
  pose proof (snapshot_lossless width indent sk s1 v1 (length (snapshot_json width indent sk s1)) H1 Hi (le_n _)) as L1.
  pose proof (snapshot_lossless width indent sk s2 v2 (length (snapshot_json width indent sk s2)) H2 Hi (le_n _)) as L2.
  rewrite Heq in L1. rewrite L1 in L2. now inversion L2.
Qed.

(* hence: documents denoting different values (after sorting, when sorting is on) store different texts *)
Corollary different_values_different_text (width : nat) (indent : bytes) (sk : bool) (s1 s2 : bytes) (v1 v2 : jv) :
  parse (S (length s1)) s1 = Some v1 -> parse (S (length s2)) s2 = Some v2 -> ws_bytes indent ->
  sort_if sk v1 <> sort_if sk v2 ->
  snapshot_json width indent sk s1 <> snapshot_json width indent sk s2.
Proof. intros H1 H2 Hi Hne Heq. apply Hne. eapply store_injective; eauto. Qed.

Print Assumptions store_injective.
Print Assumptions different_values_different_text.
