(* Lemmas on newline splitting, scanning and joining. *)
From Coq Require Import List NArith Arith Bool Lia.
Import ListNotations.
From Snaps Require Import Base.Bytes Base.Lines Proofs.BytesP.

Definition no_nl (l : bytes) : Prop := ~ In nl l.
Definition no_cr_end (l : bytes) : Prop := drop_cr l = l.
Definition safe_line (l : bytes) : Prop := no_nl l /\ no_cr_end l.

Lemma no_nl_nil : no_nl []. Proof. intros []. Qed.

Lemma no_nl_cons c l : no_nl (c :: l) <-> c <> nl /\ no_nl l.
Proof. unfold no_nl; cbn; split; [intros H; split; auto|intros [H1 H2] [H|H]; auto]. Qed.

Lemma split_nl_nonempty s : split_nl s <> [].
Proof.
  destruct s as [|c r]; cbn; [discriminate|].
  destruct (N.eqb c nl); [discriminate|]. destruct (split_nl r); discriminate.
Qed.

Lemma split_nl_no_nl l : no_nl l -> split_nl l = [l].
Proof.
  induction l as [|c l IH]; intros H; [reflexivity|].
  apply no_nl_cons in H as [Hc Hl]. cbn.
  apply N.eqb_neq in Hc. rewrite Hc, (IH Hl). reflexivity.
Qed.

Lemma split_nl_app_nl l r : no_nl l -> split_nl (l ++ nl :: r) = l :: split_nl r.
Proof.
  induction l as [|c l IH]; intros H.
  - reflexivity.
  - apply no_nl_cons in H as [Hc Hl]. cbn [app split_nl].
    apply N.eqb_neq in Hc. rewrite Hc, (IH Hl). reflexivity.
Qed.

Lemma unlines_cons l ls : unlines (l :: ls) = l ++ nl :: unlines ls.
Proof. unfold unlines. cbn. now rewrite <- app_assoc. Qed.

Lemma unlines_app a b : unlines (a ++ b) = unlines a ++ unlines b.
Proof. unfold unlines. now rewrite map_app, concat_app. Qed.

Lemma split_nl_unlines_app ls rest :
  Forall no_nl ls -> split_nl (unlines ls ++ rest) = ls ++ split_nl rest.
Proof.
  induction ls as [|l ls IH]; intros H; [reflexivity|].
  inversion H as [|? ? Hl Hls]; subst.
  rewrite unlines_cons, <- app_assoc. cbn [app].
  rewrite split_nl_app_nl by assumption. now rewrite IH.
Qed.

Lemma split_nl_unlines ls : Forall no_nl ls -> split_nl (unlines ls) = ls ++ [[]].
Proof.
  intros H. rewrite <- (app_nil_r (unlines ls)). now rewrite split_nl_unlines_app.
Qed.

Lemma drop_last_empty_snoc ls : drop_last_empty (ls ++ [[]]) = ls.
Proof.
  induction ls as [|l ls IH]; [reflexivity|].
  cbn [app drop_last_empty]. destruct (ls ++ [[]]) eqn:E.
  - now destruct ls.
  - now rewrite IH.
Qed.

Lemma map_drop_cr_safe ls : Forall safe_line ls -> map drop_cr ls = ls.
Proof.
  induction 1 as [|l ls [_ Hl] _ IH]; cbn; [reflexivity|]. unfold no_cr_end in Hl. congruence.
Qed.

Lemma safe_no_nl ls : Forall safe_line ls -> Forall no_nl ls.
Proof. apply Forall_impl. now intros ? []. Qed.

(* scanning a canonical file gives back its lines *)
Lemma scan_unlines ls : Forall safe_line ls -> scan (unlines ls) = ls.
Proof.
  intros H. unfold scan. rewrite split_nl_unlines by now apply safe_no_nl.
  rewrite drop_last_empty_snoc. now apply map_drop_cr_safe.
Qed.

Lemma join_nl_cons l ls : ls <> [] -> join_nl (l :: ls) = l ++ nl :: join_nl ls.
Proof. destruct ls; [congruence|reflexivity]. Qed.

Lemma join_split s : join_nl (split_nl s) = s.
Proof.
  induction s as [|c r IH]; [reflexivity|]. cbn [split_nl].
  destruct (N.eqb_spec c nl) as [->|Hc].
  - rewrite join_nl_cons by apply split_nl_nonempty. now rewrite IH.
  - destruct (split_nl r) as [|l ls] eqn:E; [now destruct (split_nl_nonempty r)|].
    destruct ls as [|l2 ls].
    + cbn in *. now rewrite IH.
    + rewrite join_nl_cons by discriminate. rewrite join_nl_cons in IH by discriminate.
      cbn [app]. f_equal. exact IH.
Qed.

Lemma split_nl_all_no_nl s : Forall no_nl (split_nl s).
Proof.
  induction s as [|c r IH]; cbn.
  - constructor; [apply no_nl_nil|constructor].
  - destruct (N.eqb_spec c nl) as [->|Hc].
    + constructor; [apply no_nl_nil|assumption].
    + destruct (split_nl r) as [|l ls]; [constructor; [|constructor]|].
      * apply no_nl_cons. split; [assumption|apply no_nl_nil].
      * inversion IH; subst. constructor; [|assumption]. apply no_nl_cons. now split.
Qed.

Lemma split_join ls : ls <> [] -> Forall no_nl ls -> split_nl (join_nl ls) = ls.
Proof.
  induction ls as [|l ls IH]; intros Hne H; [congruence|].
  inversion H as [|? ? Hl Hls]; subst.
  destruct ls as [|l2 ls].
  - cbn. now apply split_nl_no_nl.
  - rewrite join_nl_cons by discriminate. rewrite split_nl_app_nl by assumption.
    rewrite IH; [reflexivity|discriminate|assumption].
Qed.

Lemma unlines_split_nl s : unlines (split_nl s) = s ++ [nl].
Proof.
  induction s as [|c r IH]; [reflexivity|]. cbn [split_nl].
  destruct (N.eqb_spec c nl) as [->|Hc].
  - rewrite unlines_cons, IH. reflexivity.
  - destruct (split_nl r) as [|l ls] eqn:E; [now destruct (split_nl_nonempty r)|].
    rewrite unlines_cons in *. cbn. now rewrite IH.
Qed.

Lemma trim_one_nl_snoc s : trim_one_nl (s ++ [nl]) = s.
Proof.
  induction s as [|c s IH]; [reflexivity|].
  cbn [app trim_one_nl]. destruct (s ++ [nl]) eqn:E.
  - now destruct s.
  - now rewrite IH.
Qed.

Lemma unlines_no_nl_inj a b : Forall no_nl a -> Forall no_nl b -> unlines a = unlines b -> a = b.
Proof.
  intros Ha Hb H. apply (f_equal split_nl) in H.
  rewrite !split_nl_unlines in H by assumption. now apply app_inv_tail in H.
Qed.

Lemma split_nl_inj a b : split_nl a = split_nl b -> a = b.
Proof. intros H. rewrite <- (join_split a), <- (join_split b). now f_equal. Qed.
