From Coq Require Import List NArith Bool Lia.
Import ListNotations.
From Snaps Require Import Base.Bytes Base.Assoc.

Lemma beq_spec (a b : bytes) : reflect (a = b) (beq a b).
Proof.
  revert b; induction a as [|x a IH]; intros [|y b]; cbn; try (constructor; congruence).
  destruct (N.eqb_spec x y) as [->|Hne]; cbn.
  - destruct (IH b) as [->|Hne]; constructor; congruence.
  - constructor; congruence.
Qed.

Lemma beq_refl a : beq a a = true.
Proof. destruct (beq_spec a a); congruence. Qed.

Lemma beq_eq a b : beq a b = true <-> a = b.
Proof. destruct (beq_spec a b); split; congruence. Qed.

Lemma beq_neq a b : beq a b = false <-> a <> b.
Proof. destruct (beq_spec a b); split; congruence. Qed.

Lemma beq_sym a b : beq a b = beq b a.
Proof. destruct (beq_spec a b), (beq_spec b a); congruence. Qed.

Section AssocP.
  Context {V : Type}.
  Implicit Types m : list (bytes * V).

  Lemma alookup_aset_same k v m : alookup k (aset k v m) = Some v.
  Proof.
    induction m as [|[k' v'] m IH]; cbn.
    - now rewrite beq_refl.
    - destruct (beq k k') eqn:E; cbn; rewrite ?E, ?beq_refl; auto.
  Qed.

  Lemma alookup_aset_other k k' v m : k' <> k -> alookup k' (aset k v m) = alookup k' m.
  Proof.
    intros Hne. induction m as [|[k2 v2] m IH]; cbn.
    - apply beq_neq in Hne. now rewrite Hne.
    - destruct (beq k k2) eqn:E; cbn.
      + apply beq_eq in E; subst k2. apply beq_neq in Hne. now rewrite Hne.
      + destruct (beq k' k2); auto.
  Qed.

  Lemma aset_same_noop k v m : alookup k m = Some v -> aset k v m = m.
  Proof.
    induction m as [|[k' v'] m IH]; cbn; [discriminate|].
    destruct (beq k k') eqn:E.
    - intros [= ->]. apply beq_eq in E. now subst.
    - intros H. now rewrite IH.
  Qed.
End AssocP.

Section Assoc2P.
  Context {V : Type}.
  Lemma key2_eqb_spec (a b : key2) : reflect (a = b) (key2_eqb a b).
  Proof.
    destruct a as [a1 a2], b as [b1 b2]; unfold key2_eqb; cbn.
    destruct (beq_spec a1 b1), (beq_spec a2 b2); constructor; congruence.
  Qed.
  Lemma alookup2_aset2_same (k : key2) (v : V) m : alookup2 k (aset2 k v m) = Some v.
  Proof.
    induction m as [|[k' v'] m IH]; cbn.
    - destruct (key2_eqb_spec k k); congruence.
    - destruct (key2_eqb_spec k k'); cbn.
      + destruct (key2_eqb_spec k k); congruence.
      + destruct (key2_eqb_spec k k'); congruence.
  Qed.
  Lemma alookup2_aset2_other (k k' : key2) (v : V) m :
    k' <> k -> alookup2 k' (aset2 k v m) = alookup2 k' m.
  Proof.
    intros Hne. induction m as [|[k2 v2] m IH]; cbn.
    - destruct (key2_eqb_spec k' k); congruence.
    - destruct (key2_eqb_spec k k2); cbn.
      + subst k2. destruct (key2_eqb_spec k' k); congruence.
      + destruct (key2_eqb_spec k' k2); auto.
  Qed.
End Assoc2P.
