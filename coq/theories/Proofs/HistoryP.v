(* Histories of multi-entry calls: recording run, replay run, registry determinism. *)
From Coq Require Import String.
From Coq Require Import List NArith Arith Bool Lia.
Import ListNotations.
From Snaps Require Import Base.Bytes Base.Lines Base.Dec Base.Assoc.
From Snaps Require Import Model.Frame Model.PathModel Model.Mode Model.Api.
From Snaps Require Import Proofs.BytesP Proofs.LinesP Proofs.DecP Proofs.FrameP Proofs.ApiP.

(* operations allowed in a test history: multi-entry Match* calls with Go-legal names and
   CR-safe values, ends of test executions, Config creation *)
Definition hist_op_ok (o : op) : Prop :=
  match o with
  | OMatch a _ test p =>
      is_standalone a = false /\ no_nl test /\
      match p with POk text => value_ok a text | _ => True end
  | OEndTest _ => True
  | ONewConfig _ _ _ _ => True
  | _ => False
  end.

Definition fact_of (s : state) (o : op) : list fact :=
  match o with
  | OMatch a h test (POk text) =>
      match nth_error (s_cfgs s) h with
      | Some c => [(multi_path s c test, multi_id s c test, a, text)]
      | None => []
      end
  | _ => []
  end.

Fixpoint facts (s : state) (h : list op) : list fact :=
  match h with
  | [] => []
  | o :: r => fact_of s o ++ facts (fst (step s o)) r
  end.

(* outcomes of a run that only recorded: every call passed or was added *)
Definition rec_ok (o : obs) : Prop :=
  o_outcome o = Passed \/ o_outcome o = Added \/ o_outcome o = NoCall.

(* a call that reports nothing to the test and writes nothing *)
Definition silent_pass (o : obs) : Prop :=
  (o_outcome o = Passed \/ o_outcome o = NoCall) /\
  o_errors o = 0 /\ o_logs o = [] /\ o_writes o = [].

Lemma run_cons s o r :
  run s (o :: r) = (fst (run (fst (step s o)) r), snd (step s o) :: snd (run (fst (step s o)) r)).
Proof.
  cbn [run]. destruct (step s o) as [s1 ob]. cbn [fst snd]. destruct (run s1 r) as [s2 obs]. reflexivity.
Qed.

Lemma step_match_multi s a h test p c :
  is_standalone a = false -> nth_error (s_cfgs s) h = Some c ->
  step s (OMatch a h test p) = multi_call s a c test p.
Proof. intros Hst Hc. cbn [step]. now rewrite Hc, Hst. Qed.

Lemma step_match_nocfg s a h test p :
  nth_error (s_cfgs s) h = None -> step s (OMatch a h test p) = (s, obs_none).
Proof. intros Hc. cbn [step]. now rewrite Hc. Qed.

(* what a non-recording outcome looks like for the other payloads *)
Lemma multi_call_bad s a c test p :
  is_standalone a = false -> (forall t, p <> POk t) ->
  ~ rec_ok (snd (multi_call s a c test p)).
Proof.
  intros Hst Hp. unfold multi_call, rec_ok, finish.
  destruct a; try discriminate Hst; destruct p; try (exfalso; eapply Hp; reflexivity);
    cbn; intuition discriminate.
Qed.

Lemma end_test_fs s test : s_fs (end_test s test) = s_fs s.
Proof.
  unfold end_test.
  assert (H : forall (l : list (bytes * creset)) st,
            s_fs (fold_left (fun st p => apply_reset st (snd p)) l st) = s_fs st).
  { induction l as [|x l IH]; intros st; cbn [fold_left]; [reflexivity|].
    rewrite IH. destruct (snd x); reflexivity. }
  rewrite H. reflexivity.
Qed.

(* ---------- the recording run ---------- *)

Lemma record_run h : forall s,
  Forall hist_op_ok h -> wf_fs (s_fs s) -> Forall rec_ok (snd (run s h)) ->
  let s1 := fst (run s h) in
  wf_fs (s_fs s1) /\ Forall (holds (s_fs s1)) (facts s h) /\
  (forall fct, holds (s_fs s) fct -> holds (s_fs s1) fct).
Proof.
  induction h as [|o r IH]; intros s Hok Hwf Hrec; cbn zeta.
  - cbn. repeat split; auto.
  - rewrite run_cons in *. cbn [fst snd] in *.
    inversion Hok as [|? ? Ho Hr]; subst. inversion Hrec as [|? ? Ho1 Hr1]; subst.
    (* one step: fs stays well-formed, this op's fact holds, old facts survive *)
    assert (Hstep : wf_fs (s_fs (fst (step s o))) /\
                    Forall (holds (s_fs (fst (step s o)))) (fact_of s o) /\
                    (forall fct, holds (s_fs s) fct -> holds (s_fs (fst (step s o))) fct)).
    { destruct o as [a hd test p|test|test|fn d ex u|e|pa co|pa|]; cbn [hist_op_ok] in Ho;
        try contradiction.
      - destruct Ho as [Hst [Hnl Hv]].
        destruct (nth_error (s_cfgs s) hd) as [c|] eqn:Ec.
        + rewrite (step_match_multi _ _ _ _ _ _ Hst Ec) in *.
          destruct p as [| | |text];
            try (exfalso; eapply (multi_call_bad s a c test); [exact Hst| |exact Ho1];
                 intros t; discriminate).
          cbn [fact_of]. rewrite Ec.
          destruct (multi_call s a c test (POk text)) as [s' ob] eqn:Em. cbn [fst snd] in *.
          destruct Ho1 as [Hp|[Ha|Hn]].
          * destruct (multi_passed _ _ _ _ _ _ _ Hst Em Hp) as [Hh Hfs].
            rewrite Hfs. repeat split; auto.
          * destruct (multi_added _ _ _ _ _ _ _ Hst Hnl Hv Hwf Em Ha) as [Hh [Hwf' Hpres]].
            repeat split; auto.
          * exfalso.
            destruct (multi_call_spec s a c test text Hst)
              as [s2 [o2 [E [_ [_ [_ [_ [_ [_ [_ [Hm _]]]]]]]]]]].
            rewrite Em in E. injection E as <- <-.
            destruct (lookup_slot _ _ _) as [[prev line]|].
            -- destruct (same a prev text); [destruct Hm as [Hm _]; congruence|].
               destruct (should_update _ _); destruct Hm as [Hm _]; congruence.
            -- destruct (should_create _ _); destruct Hm as [Hm _]; congruence.
        + rewrite (step_match_nocfg _ _ _ _ _ Ec). cbn [fst fact_of].
          destruct p; try rewrite Ec; repeat split; auto.
      - cbn [step fst fact_of]. rewrite end_test_fs. repeat split; auto.
      - cbn [step fst fact_of s_fs]. repeat split; auto. }
    destruct Hstep as [Hwf1 [Hf1 Hp1]].
    destruct (IH (fst (step s o)) Hr Hwf1 Hr1) as [Hwf2 [Hf2 Hp2]].
    repeat split; auto.
    cbn [facts]. apply Forall_app. split; [|assumption].
    eapply Forall_impl; [|exact Hf1]. intros fct. apply Hp2.
Qed.

(* ---------- the replay run ---------- *)

Lemma replay_run h : forall t,
  Forall hist_op_ok h -> Forall (holds (s_fs t)) (facts t h) ->
  (forall o, In o h -> match o with OMatch _ _ _ p => exists text, p = POk text | _ => True end) ->
  Forall silent_pass (snd (run t h)) /\ s_fs (fst (run t h)) = s_fs t.
Proof.
  induction h as [|o r IH]; intros t Hok Hf Hp.
  - cbn. split; [constructor|reflexivity].
  - rewrite run_cons. cbn [fst snd].
    inversion Hok as [|? ? Ho Hr]; subst.
    cbn [facts] in Hf. apply Forall_app in Hf as [Hf1 Hf2].
    assert (Hstep : silent_pass (snd (step t o)) /\ s_fs (fst (step t o)) = s_fs t).
    { destruct o as [a hd test p|test|test|fn d ex u|e|pa co|pa|]; cbn [hist_op_ok] in Ho;
        try contradiction.
      - destruct Ho as [Hst [Hnl Hv]].
        destruct (Hp _ (or_introl eq_refl)) as [text ->].
        destruct (nth_error (s_cfgs t) hd) as [c|] eqn:Ec.
        + rewrite (step_match_multi _ _ _ _ _ _ Hst Ec).
          cbn [fact_of] in Hf1. rewrite Ec in Hf1. inversion Hf1 as [|? ? Hh _]; subst.
          destruct (multi_replay t a c test text Hst Hh) as [s' [ob [E [H1 [H2 [H3 [H4 H5]]]]]]].
          rewrite E. cbn [fst snd]. split; [|assumption].
          unfold silent_pass. repeat split; auto.
        + rewrite (step_match_nocfg _ _ _ _ _ Ec). cbn. unfold silent_pass. cbn. repeat split; auto.
      - cbn [step fst snd]. rewrite end_test_fs. unfold silent_pass. cbn. repeat split; auto.
      - cbn [step fst snd s_fs]. unfold silent_pass. cbn. repeat split; auto. }
    destruct Hstep as [Hs1 Hfs1].
    destruct (IH (fst (step t o)) Hr) as [Hs2 Hfs2].
    + now rewrite Hfs1.
    + intros o' Hin. apply Hp. now right.
    + split; [constructor; assumption|]. now rewrite Hfs2.
Qed.

(* ---------- which slot a call addresses depends on the registry view only ---------- *)

Lemma multi_call_view s a c test p :
  reg_view (fst (multi_call s a c test p)) =
  match a, p with
  | ASnap, PNoValues => reg_view s
  | _, _ => reg_view (fst (reg_multi s (multi_path s c test) test))
  end.
Proof.
  unfold multi_call, finish, reg_multi, reg_view, multi_path.
  destruct a, p; cbn; try reflexivity;
    repeat match goal with
           | |- context [match ?x with _ => _ end] => destruct x eqn:?
           end; reflexivity.
Qed.

Lemma reg_multi_view s t path test :
  reg_view s = reg_view t ->
  reg_view (fst (reg_multi s path test)) = reg_view (fst (reg_multi t path test)).
Proof.
  unfold reg_view, reg_multi. cbn. intros [= H1 H2 H3 H4 H5]. now rewrite H1, H2, H3, H4, H5.
Qed.

Lemma view_paths s t c test :
  reg_view s = reg_view t ->
  multi_path s c test = multi_path t c test /\ multi_id s c test = multi_id t c test.
Proof.
  unfold reg_view, multi_id, multi_path. intros [= H1 H2 H3 H4 H5]. now rewrite H1, H2.
Qed.

Lemma apply_reset_view s t r :
  reg_view s = reg_view t -> reg_view (apply_reset s r) = reg_view (apply_reset t r).
Proof.
  unfold reg_view. intros [= H1 H2 H3 H4 H5]. destruct r; cbn; now rewrite H1, H2, H3, H4, H5.
Qed.

Lemma set_pending_view s t p :
  reg_view s = reg_view t -> reg_view (set_pending s p) = reg_view (set_pending t p).
Proof. unfold reg_view. intros [= H1 H2 H3 H4 H5]. cbn. now rewrite H1, H2, H3, H4. Qed.

Lemma end_test_view s t test :
  reg_view s = reg_view t -> reg_view (end_test s test) = reg_view (end_test t test).
Proof.
  intros H. unfold end_test.
  assert (Hp : s_pending s = s_pending t) by (unfold reg_view in H; congruence).
  rewrite Hp.
  generalize (filter (fun p : bytes * creset => beq (fst p) test) (s_pending t)) as l.
  pose proof (set_pending_view s t
    (filter (fun p : bytes * creset => negb (beq (fst p) test)) (s_pending t)) H) as H0.
  revert H0.
  generalize (set_pending s (filter (fun p : bytes * creset => negb (beq (fst p) test)) (s_pending t))) as s'.
  generalize (set_pending t (filter (fun p : bytes * creset => negb (beq (fst p) test)) (s_pending t))) as t'.
  intros t' s' H0 l. revert s' t' H0.
  induction l as [|x l IH]; intros s' t' H0; cbn [fold_left]; [assumption|].
  apply IH. now apply apply_reset_view.
Qed.

Lemma step_view s t o :
  hist_op_ok o -> reg_view s = reg_view t ->
  reg_view (fst (step s o)) = reg_view (fst (step t o)) /\ fact_of s o = fact_of t o.
Proof.
  intros Ho Hv.
  assert (Hcf : s_cfgs s = s_cfgs t) by (unfold reg_view in Hv; congruence).
  destruct o as [a hd test p|test|test|fn d ex u|e|pa co|pa|]; cbn [hist_op_ok] in Ho;
    try contradiction.
  - destruct Ho as [Hst _]. cbn [step fact_of]. rewrite Hst, <- Hcf.
    destruct (nth_error (s_cfgs s) hd) as [c|] eqn:Ec.
    + destruct (view_paths s t c test Hv) as [Hp Hi]. split.
      * rewrite !multi_call_view. rewrite <- Hp.
        destruct a, p; try assumption; now apply reg_multi_view.
      * destruct p; try reflexivity. now rewrite Hp, Hi.
    + split; [assumption|]. destruct p; reflexivity.
  - cbn [step fst fact_of]. split; [now apply end_test_view|reflexivity].
  - cbn [step fst fact_of]. split; [|reflexivity].
    revert Hv. unfold reg_view. cbn. intros [= H1 H2 H3 H4 H5]. now rewrite H1, H2, H3, H4, H5.
Qed.

Lemma facts_view h : forall s t,
  Forall hist_op_ok h -> reg_view s = reg_view t -> facts s h = facts t h.
Proof.
  induction h as [|o r IH]; intros s t Hok Hv; [reflexivity|].
  inversion Hok as [|? ? Ho Hr]; subst. cbn [facts].
  destruct (step_view s t o Ho Hv) as [Hv' Hf]. rewrite Hf. f_equal. now apply IH.
Qed.

(* ---------- caller and configs along a history ---------- *)

Lemma multi_call_caller_cfgs s a c test p :
  s_caller (fst (multi_call s a c test p)) = s_caller s /\
  s_cfgs (fst (multi_call s a c test p)) = s_cfgs s.
Proof.
  unfold multi_call, finish, reg_multi.
  destruct a, p; cbn; try (split; reflexivity);
    repeat match goal with
           | |- context [match ?x with _ => _ end] => destruct x eqn:?
           end; split; reflexivity.
Qed.

Lemma step_caller_cfgs s o :
  hist_op_ok o ->
  s_caller (fst (step s o)) = s_caller s /\ exists extra, s_cfgs (fst (step s o)) = s_cfgs s ++ extra.
Proof.
  intros Ho.
  destruct o as [a hd test p|test|test|fn d ex u|e|pa co|pa|]; cbn [hist_op_ok] in Ho;
    try contradiction.
  - destruct Ho as [Hst _]. cbn [step]. rewrite Hst.
    destruct (nth_error (s_cfgs s) hd) as [c|]; [|cbn; split; [reflexivity|exists []; now rewrite app_nil_r]].
    destruct (multi_call_caller_cfgs s a c test p) as [H1 H2]. rewrite H1, H2.
    split; [reflexivity|exists []; now rewrite app_nil_r].
  - cbn [step fst]. pose proof (end_test_view s s test eq_refl) as _.
    unfold end_test.
    assert (H : forall (l : list (bytes * creset)) st,
               s_caller (fold_left (fun st p => apply_reset st (snd p)) l st) = s_caller st /\
               s_cfgs (fold_left (fun st p => apply_reset st (snd p)) l st) = s_cfgs st).
    { induction l as [|x l IH]; intros st; cbn [fold_left]; [split; reflexivity|].
      destruct (IH (apply_reset st (snd x))) as [H1 H2]. rewrite H1, H2.
      destruct (snd x); split; reflexivity. }
    destruct (H (filter (fun p => beq (fst p) test) (s_pending s))
                (set_pending s (filter (fun p => negb (beq (fst p) test)) (s_pending s)))) as [H1 H2].
    rewrite H1, H2. cbn. split; [reflexivity|exists []; now rewrite app_nil_r].
  - cbn [step fst s_caller s_cfgs]. split; [reflexivity|eauto].
Qed.

Lemma run_caller_cfgs h : forall s,
  Forall hist_op_ok h ->
  s_caller (fst (run s h)) = s_caller s /\ exists extra, s_cfgs (fst (run s h)) = s_cfgs s ++ extra.
Proof.
  induction h as [|o r IH]; intros s Hok.
  - cbn. split; [reflexivity|exists []; now rewrite app_nil_r].
  - rewrite run_cons. cbn [fst]. inversion Hok as [|? ? Ho Hr]; subst.
    destruct (step_caller_cfgs s o Ho) as [H1 [x1 H2]].
    destruct (IH (fst (step s o)) Hr) as [H3 [x2 H4]].
    rewrite H3, H1, H4, H2. split; [reflexivity|]. exists (x1 ++ x2). now rewrite app_assoc.
Qed.

(* ---------- two processes ---------- *)

Definition fresh (s : state) : Prop :=
  s_running s = [] /\ s_srunning s = [] /\ s_pending s = [] /\ length (s_cfgs s) = 1.

(* a new test process (registries, counters, configs start over; files persist) in mode e2 *)
Definition replay_start (s1 : state) (e2 : env) : state :=
  fst (step (fst (step s1 ONewProcess)) (OSetEnv e2)).

Definition has_value (o : op) : Prop :=
  match o with OMatch _ _ _ p => exists text, p = POk text | _ => True end.

Lemma replay_after_create s0 h e2 :
  fresh s0 -> wf_fs (s_fs s0) -> Forall hist_op_ok h -> Forall has_value h ->
  Forall rec_ok (snd (run s0 h)) ->
  let s1 := fst (run s0 h) in
  let t0 := replay_start s1 e2 in
  Forall silent_pass (snd (run t0 h)) /\ s_fs (fst (run t0 h)) = s_fs s1.
Proof.
  intros [Hf1 [Hf2 [Hf3 Hf4]]] Hwf Hok Hval Hrec s1 t0.
  destruct (record_run h s0 Hok Hwf Hrec) as [_ [Hfacts _]]. fold s1 in Hfacts.
  destruct (run_caller_cfgs h s0 Hok) as [Hcal [extra Hcf]]. fold s1 in Hcal, Hcf.
  assert (Hview : reg_view s0 = reg_view t0).
  { unfold reg_view, t0, replay_start. cbn. rewrite Hf1, Hf2, Hf3, Hcal, Hcf.
    destruct (s_cfgs s0) as [|c0 [|c1 l]]; try discriminate Hf4. reflexivity. }
  assert (Hfs : s_fs t0 = s_fs s1) by reflexivity.
  destruct (replay_run h t0 Hok) as [H1 H2].
  - rewrite <- (facts_view h s0 t0 Hok Hview), Hfs. exact Hfacts.
  - intros o Hin. rewrite Forall_forall in Hval. apply (Hval o Hin).
  - split; [assumption|]. now rewrite H2.
Qed.
