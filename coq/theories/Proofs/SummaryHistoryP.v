(* The Snapshot Summary over whole histories: what an independent reader sees in Clean's output are the
   tallies of the outcomes of the calls made in the process, the number of snaps.Skip* calls, and exactly
   the lists Clean judged obsolete. *)
From Coq Require Import List NArith Bool Lia.
Import ListNotations.
From Snaps Require Import Base.Bytes Base.Assoc.
From Snaps Require Import Model.Frame Model.PathModel Model.Mode Model.Api Model.Clean Model.Summary.
From Snaps Require Import Proofs.OutcomeP Proofs.SummaryP.

Lemma clean_run_counts s sort_opt count :
  cr_counts (snd (clean_run s sort_opt count)) = s_events s /\
  cr_skipped (snd (clean_run s sort_opt count)) = length (s_skipped s).
Proof.
  unfold clean_run.
  match goal with |- context [fold_left ?f ?l ?a] => destruct (fold_left f l a) as [[fs2 obs] w2] end.
  split; reflexivity.
Qed.

Theorem summary_totals_history ops s0 sort_opt count nocolor :
  Forall api_op ops -> ~ In ONewProcess ops ->
  let s := fst (run s0 ops) in
  let r := snd (clean_run s sort_opt count) in
  items_ok (sumdata_of_result r) ->
  exists rd, read_summary (clean_stdout nocolor (sumdata_of_result r)) = Some rd /\
    sr_counts rd = tally (snd (run s0 ops)) (s_events s0) /\
    sr_skipped rd = length (s_skipped s0) + count_skips (snd (run s0 ops)) /\
    sr_files rd = cr_obsolete_files r /\ sr_tests rd = cr_obsolete_tests r.
Proof.
  intros Hapi Hnp s r Hok.
  exists (sumread_of (sumdata_of_result r)). split; [now apply read_summary_correct|].
  destruct (run_counters ops s0 Hapi Hnp) as [Hc Hs].
  destruct (clean_run_counts s sort_opt count) as [Hrc Hrs]. fold r in Hrc, Hrs.
  unfold sumread_of, sumdata_of_result. cbn [sr_counts sr_skipped sr_files sr_tests sd_counts sd_skipped sd_files sd_tests].
  rewrite Hrc, Hrs. unfold s. rewrite Hc, Hs. repeat split; reflexivity.
Qed.

Lemma newline_item_breaks_ex : exists d, read_summary (clean_stdout true d) <> Some (sumread_of d).
Proof. exists ex_nl_item. exact newline_item_breaks. Qed.
