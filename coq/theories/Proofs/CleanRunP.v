(* The Clean properties (C07, C08 skip clause, C09) stated for a WHOLE clean_run on a state:
   the entry-level theorems of CleanEntriesP lifted through the run-level theorems of CleanFilesP
   (snaps/clean.go Clean -> examineFiles -> examineSnaps). *)
From Coq Require Import String.
From Coq Require Import List NArith Arith Bool Lia Permutation.
Import ListNotations.
From Snaps Require Import Base.Bytes Base.Lines Base.Dec Base.Assoc.
From Snaps Require Import Model.Frame Model.PathModel Model.Mode Model.Api Model.Natural Model.Clean.
From Snaps Require Import Proofs.BytesP Proofs.FrameP Proofs.CleanP Proofs.CleanEntriesP Proofs.CleanFilesP.
From Snaps Require Import Proofs.RunFilterP Proofs.TestIdP.

(* ====================================================================================== *)
(* 0. Small list facts                                                                    *)
(* ====================================================================================== *)

Lemma filter_negb_nil {A} (f : A -> bool) l : filter (fun x => negb (f x)) l = [] -> filter f l = l.
Proof.
  induction l as [|x l IH]; [reflexivity|]. cbn [filter].
  destruct (f x); cbn [negb]; [intros H; now rewrite IH|discriminate].
Qed.

Lemma nodup_map_filter {A B} (g : A -> B) (f : A -> bool) l : NoDup (map g l) -> NoDup (map g (filter f l)).
Proof.
  induction l as [|x l IH]; intros H; [constructor|]. inversion H as [|? ? Hn Hl]; subst.
  cbn [filter]. destruct (f x); [|now apply IH]. cbn [map]. constructor; [|now apply IH].
  intros Hin. apply Hn. apply in_map_iff in Hin as [y [Hy Hin]]. apply filter_In in Hin as [Hin _].
  rewrite <- Hy. now apply in_map.
Qed.

Lemma in_split_nodup {A} (x : A) l :
  NoDup l -> In x l -> exists l1 l2, l = l1 ++ x :: l2 /\ ~ In x l1 /\ ~ In x l2.
Proof.
  intros Hnd Hin. apply in_split in Hin as [l1 [l2 ->]]. exists l1, l2. split; [reflexivity|].
  apply NoDup_remove_2 in Hnd. split; intros H; apply Hnd; apply in_or_app; auto.
Qed.

(* ====================================================================================== *)
(* 1. What one addressed file holds after the run                                         *)
(* ====================================================================================== *)

(* the entries of a file with entries [es] after examineSnaps, as a function of the two flags:
   untouched when nothing is to be pruned and nothing to be sorted, otherwise the staying entries
   emitted in id order (file order or sorted order) *)
Definition entries_after (reg skp : list bytes) (del srt : bool) (es : list centry) : list centry :=
  let stale := filter (fun e => negb (kept reg skp e)) es in
  let should_sort := srt && negb (is_sorted_nat (map fst es)) in
  let should_update := del && (match stale with [] => false | _ => true end) in
  if negb should_update && negb should_sort then es
  else flat_map (pick (stay reg skp del es)) (if should_sort then sort_nat (map fst es) else map fst es).

(* is the file rewritten at all *)
Definition rewritten (reg skp : list bytes) (del srt : bool) (es : list centry) : bool :=
  let stale := filter (fun e => negb (kept reg skp e)) es in
  negb (negb (del && (match stale with [] => false | _ => true end)) &&
        negb (srt && negb (is_sorted_nat (map fst es)))).

Lemma stay_no_stale reg skp del es :
  filter (fun e => negb (kept reg skp e)) es = [] -> stay reg skp del es = es.
Proof.
  intros H. unfold stay. rewrite <- (filter_negb_nil _ _ H) at 2.
  rewrite <- (filter_negb_nil _ _ H) at 1. clear H.
  induction es as [|e es IH]; [reflexivity|]. cbn [filter].
  destruct (kept reg skp e) eqn:E; [|exact IH]. cbn [filter]. rewrite E. cbn [orb]. now rewrite IH.
Qed.

Lemma entries_after_unwritten reg skp del srt es :
  rewritten reg skp del srt es = false -> entries_after reg skp del srt es = es /\ stay reg skp del es = es.
Proof.
  unfold rewritten, entries_after. cbv zeta. intros H. apply negb_false_iff in H. rewrite H.
  split; [reflexivity|]. apply andb_true_iff in H as [H _]. apply negb_true_iff in H.
  destruct del; cbn [andb] in H.
  - apply stay_no_stale. destruct (filter _ es); [reflexivity|discriminate].
  - apply stay_report_only.
Qed.

(* in every case: a permutation of the staying entries *)
Theorem entries_after_perm reg skp del srt es :
  Forall centry_ok es -> NoDup (map fst es) ->
  Permutation (entries_after reg skp del srt es) (stay reg skp del es).
Proof.
  intros Hok Hnd. destruct (rewritten reg skp del srt es) eqn:E.
  - unfold rewritten in E. unfold entries_after. cbv zeta. apply negb_true_iff in E. rewrite E.
    destruct (srt && negb (is_sorted_nat (map fst es))).
    + apply (rewrite_preserves_content reg skp del es true Hok Hnd).
    + apply (rewrite_preserves_content reg skp del es false Hok Hnd).
  - destruct (entries_after_unwritten _ _ _ _ _ E) as [-> ->]. apply Permutation_refl.
Qed.

(* sorting off, or the ids already in natural order: exactly the staying entries, in place *)
Theorem entries_after_nosort reg skp del srt es :
  NoDup (map fst es) ->
  srt = false \/ is_sorted_nat (map fst es) = true ->
  entries_after reg skp del srt es = stay reg skp del es.
Proof.
  intros Hnd Hs.
  assert (Hss : srt && negb (is_sorted_nat (map fst es)) = false).
  { destruct Hs as [->| ->]; [reflexivity|]. cbn [negb]. apply andb_false_r. }
  destruct (rewritten reg skp del srt es) eqn:E.
  - unfold rewritten in E. unfold entries_after. cbv zeta. apply negb_true_iff in E. rewrite E, Hss.
    unfold stay. now apply pick_file_order.
  - destruct (entries_after_unwritten _ _ _ _ _ E) as [-> ->]. reflexivity.
Qed.

Lemma stay_nodup reg skp del es : NoDup (map fst es) -> NoDup (map fst (stay reg skp del es)).
Proof. apply nodup_map_filter. Qed.

Lemma entries_after_nodup reg skp del srt es :
  Forall centry_ok es -> NoDup (map fst es) -> NoDup (map fst (entries_after reg skp del srt es)).
Proof.
  intros Hok Hnd.
  apply (Permutation_NoDup (Permutation_map fst (Permutation_sym (entries_after_perm reg skp del srt es Hok Hnd)))).
  now apply stay_nodup.
Qed.

Lemma kept_in_entries_after reg skp del srt es e :
  Forall centry_ok es -> NoDup (map fst es) -> In e es -> kept reg skp e = true ->
  In e (entries_after reg skp del srt es).
Proof.
  intros Hok Hnd Hin Hk.
  apply (Permutation_in _ (Permutation_sym (entries_after_perm reg skp del srt es Hok Hnd))).
  apply filter_In. split; [assumption|]. now rewrite Hk.
Qed.

(* examine_file, restated with the two functions *)
Lemma examine_file_after reg skp del srt es :
  Forall centry_ok es -> NoDup (map fst es) ->
  examine_file reg skp del srt (render (map to_entry es)) =
  (map fst (filter (fun e => negb (kept reg skp e)) es),
   if rewritten reg skp del srt es then Some (render (map to_entry (entries_after reg skp del srt es))) else None).
Proof.
  intros Hok Hnd. rewrite examine_file_entries by assumption. cbv zeta.
  unfold rewritten, entries_after. cbv zeta.
  destruct (filter (fun e => negb (kept reg skp e)) es) as [|o os]; cbn [map];
    destruct (negb _ && negb _); reflexivity.
Qed.

(* ====================================================================================== *)
(* 2. The run                                                                             *)
(* ====================================================================================== *)

(* what the examination of used file [q] contributes to the entry report of the run *)
Definition file_report (s : state) (sort_opt : bool) (count : nat) (q : bytes) : list bytes :=
  match alookup q (s_fs s) with
  | Some f => fst (run_exam s sort_opt count q f)
  | None => []
  end.

(* registry, skip list and the two flags as the run passes them to examineSnaps for file [p] *)
Definition run_reg (s : state) (count : nat) (p : bytes) : list bytes := registered_tests (s_cleanup s) p count.
Definition run_del (s : state) : bool := clean_deletes (s_env s).
Definition run_srt (s : state) (sort_opt : bool) : bool := clean_sorts (s_env s) sort_opt.

(* the entries of [p] after the run, given its entries [es] before *)
Definition run_entries (s : state) (sort_opt : bool) (count : nat) (p : bytes) (es : list centry) : list centry :=
  entries_after (run_reg s count p) (s_skipped s) (run_del s) (run_srt s sort_opt) es.

Section Run.
  Variables (s : state) (sort_opt : bool) (count : nat) (p : bytes) (es : list centry).
  Hypothesis Hkeys : NoDup (map fst (s_fs s)).
  Hypothesis Hused : In p (fr_used (run_files s count)).
  Hypothesis Hcontent : alookup p (s_fs s) = Some (render (map to_entry es)).
  Hypothesis Hok : Forall centry_ok es.
  Hypothesis Hnd : NoDup (map fst es).

  Let reg := run_reg s count p.
  Let skp := s_skipped s.
  Let res := clean_run s sort_opt count.
  Let out := run_entries s sort_opt count p es.

  (* the content of [p] in the resulting file system *)
  Theorem run_file_content : alookup p (s_fs (fst res)) = Some (render (map to_entry out)).
  Proof.
    unfold res. rewrite (clean_run_used_content s sort_opt count Hkeys p Hused), Hcontent.
    cbn [option_map]. f_equal. unfold newc, run_exam.
    rewrite examine_file_after by assumption. cbn [snd]. fold reg skp.
    destruct (rewritten _ _ _ _ es) eqn:E; [reflexivity|].
    symmetry. f_equal. f_equal. exact (proj1 (entries_after_unwritten _ _ _ _ _ E)).
  Qed.

  (* [p] is written by the run exactly when examineSnaps has something to prune or to sort *)
  Theorem run_file_written :
    In (WRewrite, p) (cr_writes (snd res)) <->
    rewritten reg skp (run_del s) (run_srt s sort_opt) es = true.
  Proof.
    unfold res. rewrite (clean_run_writes_rewrite s sort_opt count Hkeys p). split.
    - intros [_ [f [f' [Hf Hs]]]]. rewrite Hcontent in Hf. injection Hf as <-.
      unfold run_exam in Hs. rewrite examine_file_after in Hs by assumption. cbn [snd] in Hs.
      unfold reg, skp, run_reg, run_del, run_srt. destruct (rewritten _ _ _ _ es); [reflexivity|discriminate].
    - intros H. split; [assumption|]. eexists _, _. split; [exact Hcontent|].
      unfold run_exam. rewrite examine_file_after by assumption. cbn [snd].
      unfold reg, skp, run_reg, run_del, run_srt in H. rewrite H. reflexivity.
  Qed.

  (* ---------- C09: the report ---------- *)

  (* the part of the entry report contributed by [p]: exactly the ids of the entries that are
     neither registered nor skip-protected, in file order *)
  Theorem run_report_exact_one_file :
    file_report s sort_opt count p = map fst (filter (fun e => negb (kept reg skp e)) es).
  Proof.
    unfold file_report. rewrite Hcontent. unfold run_exam. now rewrite obsolete_exact.
  Qed.

  (* where that part sits in the report of the whole run *)
  Theorem run_report_decompose :
    exists l1 l2,
      fr_used (run_files s count) = l1 ++ p :: l2 /\ ~ In p l1 /\ ~ In p l2 /\
      cr_obsolete_tests (snd res) =
        flat_map (file_report s sort_opt count) l1 ++
        map fst (filter (fun e => negb (kept reg skp e)) es) ++
        flat_map (file_report s sort_opt count) l2.
  Proof.
    destruct (in_split_nodup p _ (run_used_nodup s count Hkeys) Hused) as [l1 [l2 [E [H1 H2]]]].
    exists l1, l2. repeat (split; [assumption|]).
    unfold res. rewrite (clean_run_obsolete_tests s sort_opt count Hkeys).
    change (flat_map _ (fr_used (run_files s count)))
      with (flat_map (file_report s sort_opt count) (fr_used (run_files s count))).
    rewrite E, flat_map_app. cbn [flat_map]. now rewrite run_report_exact_one_file.
  Qed.

  (* completeness: every entry that is neither registered nor skip-protected IS reported by the run *)
  Theorem run_stale_entries_reported e :
    In e es -> mem_bytes (fst e) reg = false -> test_skipped skp (fst e) = false ->
    In (fst e) (cr_obsolete_tests (snd res)).
  Proof.
    intros Hin Hr Hs. destruct run_report_decompose as [l1 [l2 [_ [_ [_ ->]]]]].
    apply in_or_app. right. apply in_or_app. left. apply in_map. apply filter_In. split; [assumption|].
    unfold kept, keep_id. now rewrite Hr, Hs.
  Qed.

  (* exactness: nothing else of [p] is *)
  Theorem run_reported_entries_stale id :
    In id (file_report s sort_opt count p) ->
    exists e, In e es /\ fst e = id /\ mem_bytes id reg = false /\ test_skipped skp id = false.
  Proof.
    rewrite run_report_exact_one_file. intros H. apply in_map_iff in H as [e [<- H]].
    apply filter_In in H as [Hin Hk]. exists e. split; [assumption|]. split; [reflexivity|].
    unfold kept, keep_id in Hk. apply negb_true_iff, orb_false_iff in Hk. exact Hk.
  Qed.

  (* ---------- C07 / C08: what survives ---------- *)

  (* the general form: an entry that is registered or skip-protected is, after the run in every mode
     and sort setting, in file [p] exactly once with exactly its body, and [p] does not report it;
     the run does not report its id at all unless ANOTHER addressed file reports the same id *)
  Theorem run_kept_entry_survives e :
    In e es -> kept reg skp e = true ->
    alookup p (s_fs (fst res)) = Some (render (map to_entry out)) /\
    In e out /\ NoDup (map fst out) /\
    ~ In (fst e) (file_report s sort_opt count p) /\
    ((forall q, In q (fr_used (run_files s count)) -> q <> p -> ~ In (fst e) (file_report s sort_opt count q)) ->
     ~ In (fst e) (cr_obsolete_tests (snd res))).
  Proof.
    intros Hin Hk. split; [apply run_file_content|].
    split; [now apply kept_in_entries_after|]. split; [now apply entries_after_nodup|].
    assert (Hp : ~ In (fst e) (file_report s sort_opt count p)).
    { intros H. apply run_reported_entries_stale in H as [e' [_ [He' [H1 H2]]]].
      unfold kept, keep_id in Hk. rewrite H1, H2 in Hk. discriminate. }
    split; [exact Hp|]. intros Hothers H.
    destruct run_report_decompose as [l1 [l2 [E [N1 [N2 Hr]]]]]. rewrite Hr in H.
    rewrite <- run_report_exact_one_file in H.
    apply in_app_or in H as [H|H]; [|apply in_app_or in H as [H|H]; [contradiction|]];
      apply in_flat_map in H as [q [Hq H]]; apply (Hothers q).
    - rewrite E. apply in_or_app. now left.
    - intros ->. contradiction.
    - exact H.
    - rewrite E. apply in_or_app. right. now right.
    - intros ->. contradiction.
    - exact H.
  Qed.

  (* C07: an entry addressed in this run (its id is registered for [p]) *)
  Theorem run_addressed_entry_survives e :
    In e es -> In (fst e) (registered_tests (s_cleanup s) p count) ->
    alookup p (s_fs (fst res)) = Some (render (map to_entry out)) /\
    In e out /\ NoDup (map fst out) /\
    ~ In (fst e) (file_report s sort_opt count p) /\
    ((forall q, In q (fr_used (run_files s count)) -> q <> p -> ~ In (fst e) (file_report s sort_opt count q)) ->
     ~ In (fst e) (cr_obsolete_tests (snd res))).
  Proof.
    intros Hin Hr. apply run_kept_entry_survives; [assumption|].
    unfold kept, keep_id, reg, run_reg. apply mem_bytes_in in Hr. now rewrite Hr.
  Qed.

  (* C08, skip clause: the entries of a skipped test and of its sub-tests - whatever the registry says *)
  Theorem run_skip_protected_entry_kept n m k e :
    In n (s_skipped s) -> (m = n \/ exists r, m = n ++ [slash] ++ r) -> no_space m ->
    In e es -> fst e = snapshot_occ_fmt m k ->
    alookup p (s_fs (fst res)) = Some (render (map to_entry out)) /\
    In e out /\ NoDup (map fst out) /\
    ~ In (fst e) (file_report s sort_opt count p) /\
    ((forall q, In q (fr_used (run_files s count)) -> q <> p -> ~ In (fst e) (file_report s sort_opt count q)) ->
     ~ In (fst e) (cr_obsolete_tests (snd res))).
  Proof.
    intros Hn Hm Hs Hin He. apply run_kept_entry_survives; [assumption|].
    unfold kept. rewrite He. now apply (skipped_entry_kept reg skp n m k).
  Qed.

  (* C07, -count: the registry holds count*k for test t (count uniform executions of k calls each):
     every ordinal 1..k of t is protected *)
  Theorem run_count_uniform t k i e :
    0 < count -> 1 <= i <= k -> alookup2 (p, t) (s_cleanup s) = Some (count * k) ->
    In e es -> fst e = snapshot_occ_fmt t i ->
    alookup p (s_fs (fst res)) = Some (render (map to_entry out)) /\
    In e out /\ NoDup (map fst out) /\
    ~ In (fst e) (file_report s sort_opt count p) /\
    ((forall q, In q (fr_used (run_files s count)) -> q <> p -> ~ In (fst e) (file_report s sort_opt count q)) ->
     ~ In (fst e) (cr_obsolete_tests (snd res))).
  Proof.
    intros Hc Hi Hl Hin He. apply run_kept_entry_survives; [assumption|].
    unfold kept, keep_id. rewrite He. unfold reg, run_reg.
    now rewrite (registered_tests_uniform (s_cleanup s) p t k count i Hc Hi Hl).
  Qed.

  (* ---------- C09: report-only versus removal ---------- *)

  (* UPDATE_SNAPS neither true nor clean, or on CI: the entries of [p] after the run are a permutation
     of the entries before (sorting may reorder); the very same list, and no write, when sorting is
     off or not needed *)
  Theorem run_report_only_keeps_entries :
    clean_deletes (s_env s) = false ->
    alookup p (s_fs (fst res)) = Some (render (map to_entry out)) /\
    Permutation out es /\
    (clean_sorts (s_env s) sort_opt = false \/ is_sorted_nat (map fst es) = true ->
     out = es /\ ~ In (WRewrite, p) (cr_writes (snd res))).
  Proof.
    intros Hd. split; [apply run_file_content|].
    assert (Hst : stay reg skp (run_del s) es = es) by (unfold run_del; rewrite Hd; apply stay_report_only).
    split.
    - pose proof (entries_after_perm reg skp (run_del s) (run_srt s sort_opt) es Hok Hnd) as HP.
      rewrite Hst in HP. exact HP.
    - intros Hs. split.
      + unfold out, run_entries. fold reg skp. rewrite entries_after_nosort by assumption. exact Hst.
      + rewrite run_file_written. unfold rewritten, run_del, run_srt. rewrite Hd. cbn [andb negb].
        destruct Hs as [-> | ->]; cbn [andb negb]; [discriminate|]. rewrite andb_false_r. discriminate.
  Qed.

  (* UPDATE_SNAPS true or clean, off CI: exactly the reported entries are gone *)
  Theorem run_delete_mode_removes_reported :
    clean_deletes (s_env s) = true ->
    alookup p (s_fs (fst res)) = Some (render (map to_entry out)) /\
    Permutation out (filter (kept reg skp) es) /\
    (forall e, In e out <-> In e es /\ ~ In (fst e) (file_report s sort_opt count p)) /\
    (clean_sorts (s_env s) sort_opt = false \/ is_sorted_nat (map fst es) = true ->
     out = filter (kept reg skp) es).
  Proof.
    intros Hd. split; [apply run_file_content|].
    assert (Hst : stay reg skp (run_del s) es = filter (kept reg skp) es)
      by (unfold run_del; rewrite Hd; apply stay_clean).
    assert (Hp : Permutation out (filter (kept reg skp) es)).
    { pose proof (entries_after_perm reg skp (run_del s) (run_srt s sort_opt) es Hok Hnd) as HP.
      rewrite Hst in HP. exact HP. }
    split; [exact Hp|]. split.
    - intros e. rewrite run_report_exact_one_file. split.
      + intros H. apply (Permutation_in _ Hp) in H. apply filter_In in H as [Hin Hk].
        split; [assumption|]. intros Hr. apply in_map_iff in Hr as [e' [He' Hf]].
        apply filter_In in Hf as [_ Hk']. unfold kept in *. rewrite He', Hk in Hk'. discriminate.
      + intros [Hin Hr]. apply (Permutation_in _ (Permutation_sym Hp)). apply filter_In.
        split; [assumption|]. destruct (kept reg skp e) eqn:Ek; [reflexivity|]. exfalso. apply Hr.
        apply in_map. apply filter_In. split; [assumption|]. now rewrite Ek.
    - intros Hs. unfold out, run_entries. fold reg skp. rewrite entries_after_nosort by assumption. exact Hst.
  Qed.
End Run.

(* ---------- corollaries in the words of the properties ---------- *)

(* every reachable state satisfies the unique-keys hypothesis, so for a state reached by a test run
   the theorems only need: [p] is an addressed file holding well-formed entries *)
Corollary reachable_run_addressed_entry_survives e0 caller dir ops sort_opt count p es e :
  let s := fst (run (init_state e0 caller dir) ops) in
  In p (fr_used (run_files s count)) -> alookup p (s_fs s) = Some (render (map to_entry es)) ->
  Forall centry_ok es -> NoDup (map fst es) ->
  In e es -> In (fst e) (registered_tests (s_cleanup s) p count) ->
  exists out, alookup p (s_fs (fst (clean_run s sort_opt count))) = Some (render (map to_entry out)) /\
              In e out /\ NoDup (map fst out) /\ ~ In (fst e) (file_report s sort_opt count p).
Proof.
  intros s Hu Hc Hok Hnd Hin Hr. exists (run_entries s sort_opt count p es).
  destruct (run_addressed_entry_survives s sort_opt count p es (reachable_keys_nodup e0 caller dir ops)
              Hu Hc Hok Hnd e Hin Hr) as [H1 [H2 [H3 [H4 _]]]]. auto.
Qed.

(* when [p] is the only addressed file, "not reported by p" is "not reported by the run" *)
Corollary run_single_file_not_reported s sort_opt count p es e :
  NoDup (map fst (s_fs s)) -> fr_used (run_files s count) = [p] ->
  alookup p (s_fs s) = Some (render (map to_entry es)) -> Forall centry_ok es -> NoDup (map fst es) ->
  In e es -> kept (run_reg s count p) (s_skipped s) e = true ->
  ~ In (fst e) (cr_obsolete_tests (snd (clean_run s sort_opt count))).
Proof.
  intros Hk Hu Hc Hok Hnd Hin Hkept.
  assert (Hused : In p (fr_used (run_files s count))) by (rewrite Hu; now left).
  destruct (run_kept_entry_survives s sort_opt count p es Hk Hused Hc Hok Hnd e Hin Hkept) as [_ [_ [_ [_ H]]]].
  apply H. intros q Hq Hne. rewrite Hu in Hq. destruct Hq as [->|[]]. contradiction.
Qed.

(* ====================================================================================== *)
(* 3. Non-vacuity: a concrete run with a live, a stale and a skip-protected entry          *)
(* ====================================================================================== *)

Module RunExample.
  Local Open Scope string_scope.

  Definition env_of (u : updvar) : env := {| ci := false; upd := u; colour := false |}.
  Definition snap := B "/p/__snapshots__/a_test.snap".
  Definition live : centry := (B "TestA - 1", B "a").
  Definition stale : centry := (B "TestOld - 1", B "old").
  Definition prot : centry := (B "TestSkip/sub - 1", B "s").
  Definition es : list centry := [live; stale; prot].
  Definition content := render (map to_entry es).

  (* the test binary: TestA matches its snapshot (passes), TestSkip calls snaps.Skip, TestOld is gone *)
  Definition ops : list op :=
    [OPutFile snap content;
     OMatch ASnap 0 (B "TestA") (POk (B "a")); OEndTest (B "TestA");
     OSkip (B "TestSkip")].

  Definition st (u : updvar) : state :=
    fst (run (init_state (env_of u) (B "/p/a_test.go") (B "__snapshots__")) ops).

  Lemma st_keys u : NoDup (map fst (s_fs (st u))).
  Proof. apply reachable_keys_nodup. Qed.

  Lemma es_ok : Forall centry_ok es.
  Proof. repeat constructor; try (vm_compute; reflexivity); try (vm_compute; intuition discriminate). Qed.

  Lemma es_nodup : NoDup (map fst es).
  Proof. repeat constructor; vm_compute; intuition discriminate. Qed.

  Lemma st_used u : In snap (fr_used (run_files (st u) 1)).
  Proof. destruct u; vm_compute; left; reflexivity. Qed.

  Lemma st_content u : alookup snap (s_fs (st u)) = Some (render (map to_entry es)).
  Proof. destruct u; vm_compute; reflexivity. Qed.

  (* the computed runs *)
  Example delete_mode :
    let res := clean_run (st UClean) false 1 in
    map o_outcome (snd (run (init_state (env_of UClean) (B "/p/a_test.go") (B "__snapshots__")) ops))
      = [NoCall; Passed; NoCall; SkipLogged] /\
    clean_deletes (s_env (st UClean)) = true /\
    fr_used (run_files (st UClean) 1) = [snap] /\
    s_skipped (st UClean) = [B "TestSkip"] /\
    registered_tests (s_cleanup (st UClean)) snap 1 = [B "TestA - 1"] /\
    cr_obsolete_tests (snd res) = [B "TestOld - 1"] /\
    cr_writes (snd res) = [(WRewrite, snap)] /\
    s_fs (fst res) = [(snap, render (map to_entry [live; prot]))] /\
    run_entries (st UClean) false 1 snap es = [live; prot].
  Proof. vm_compute. repeat split; reflexivity. Qed.

  Example report_mode :
    let res := clean_run (st UUnset) false 1 in
    clean_deletes (s_env (st UUnset)) = false /\
    cr_obsolete_tests (snd res) = [B "TestOld - 1"] /\
    cr_writes (snd res) = [] /\
    s_fs (fst res) = [(snap, content)] /\
    run_entries (st UUnset) false 1 snap es = es.
  Proof. vm_compute. repeat split; reflexivity. Qed.

  (* the theorems apply (every hypothesis holds) in every mode and sort setting *)
  Example theorems_apply u sort_opt :
    let s := st u in
    let res := clean_run s sort_opt 1 in
    let out := run_entries s sort_opt 1 snap es in
    alookup snap (s_fs (fst res)) = Some (render (map to_entry out)) /\
    (* C07: the live entry survives and is not reported *)
    In live out /\ ~ In (fst live) (cr_obsolete_tests (snd res)) /\
    (* C08: the entry of the sub-test of the skipped test survives and is not reported *)
    In prot out /\ ~ In (fst prot) (cr_obsolete_tests (snd res)) /\
    NoDup (map fst out) /\
    (* C09: the stale entry is reported, and the report of the file is exactly that *)
    In (fst stale) (cr_obsolete_tests (snd res)) /\
    file_report s sort_opt 1 snap = [fst stale].
  Proof.
    cbv zeta.
    pose proof (st_keys u) as Hk. pose proof (st_used u) as Hu. pose proof (st_content u) as Hc.
    assert (Hsingle : fr_used (run_files (st u) 1) = [snap]) by (destruct u; vm_compute; reflexivity).
    assert (Hlive : In (fst live) (registered_tests (s_cleanup (st u)) snap 1))
      by (destruct u; vm_compute; left; reflexivity).
    assert (Hskip : In (B "TestSkip") (s_skipped (st u))) by (destruct u; vm_compute; left; reflexivity).
    destruct (run_addressed_entry_survives (st u) sort_opt 1 snap es Hk Hu Hc es_ok es_nodup live
                (or_introl eq_refl) Hlive) as [H1 [H2 [H3 [_ H5]]]].
    destruct (run_skip_protected_entry_kept (st u) sort_opt 1 snap es Hk Hu Hc es_ok es_nodup
                (B "TestSkip") (B "TestSkip/sub") 1 prot Hskip) as [_ [G2 [_ [_ G5]]]].
    { right. exists (B "sub"). reflexivity. }
    { vm_compute. intuition discriminate. }
    { right. right. left. reflexivity. }
    { reflexivity. }
    assert (Hothers : forall id q, In q (fr_used (run_files (st u) 1)) -> q <> snap ->
                                   ~ In id (file_report (st u) sort_opt 1 q)).
    { intros id q Hq Hne. rewrite Hsingle in Hq. destruct Hq as [<-|[]]. contradiction. }
    split; [exact H1|]. split; [exact H2|]. split; [apply H5, Hothers|].
    split; [exact G2|]. split; [apply G5, Hothers|]. split; [exact H3|]. split.
    - apply (run_stale_entries_reported (st u) sort_opt 1 snap es Hk Hu Hc es_ok es_nodup stale).
      + right. left. reflexivity.
      + destruct u; vm_compute; reflexivity.
      + destruct u; vm_compute; reflexivity.
    - rewrite (run_report_exact_one_file (st u) sort_opt 1 snap es Hc es_ok es_nodup).
      destruct u; vm_compute; reflexivity.
  Qed.

  (* C09 by the theorems: report mode keeps every entry, delete mode drops exactly the reported one *)
  Example report_only_by_theorem sort_opt :
    run_entries (st UUnset) sort_opt 1 snap es = es /\
    ~ In (WRewrite, snap) (cr_writes (snd (clean_run (st UUnset) sort_opt 1))).
  Proof.
    destruct (run_report_only_keeps_entries (st UUnset) sort_opt 1 snap es (st_keys _) (st_used _) (st_content _)
                es_ok es_nodup) as [_ [_ H]]; [vm_compute; reflexivity|].
    apply H. right. vm_compute. reflexivity.
  Qed.

  Example delete_by_theorem sort_opt :
    run_entries (st UClean) sort_opt 1 snap es = [live; prot].
  Proof.
    destruct (run_delete_mode_removes_reported (st UClean) sort_opt 1 snap es (st_keys _) (st_used _) (st_content _)
                es_ok es_nodup) as [_ [_ [_ H]]]; [vm_compute; reflexivity|].
    rewrite H; [vm_compute; reflexivity|]. right. vm_compute. reflexivity.
  Qed.

  (* -count=2: two executions of TestA, one call each; the registry holds 2 = count * 1 *)
  Definition ops2 : list op :=
    [OPutFile snap content;
     OMatch ASnap 0 (B "TestA") (POk (B "a")); OEndTest (B "TestA");
     OMatch ASnap 0 (B "TestA") (POk (B "a")); OEndTest (B "TestA")].
  Definition st2 : state := fst (run (init_state (env_of UClean) (B "/p/a_test.go") (B "__snapshots__")) ops2).

  Example count_uniform_applies sort_opt :
    alookup2 (snap, B "TestA") (s_cleanup st2) = Some (2 * 1) /\
    In live (run_entries st2 sort_opt 2 snap es) /\
    ~ In (fst live) (file_report st2 sort_opt 2 snap).
  Proof.
    assert (Hl : alookup2 (snap, B "TestA") (s_cleanup st2) = Some (2 * 1)) by (vm_compute; reflexivity).
    split; [exact Hl|].
    assert (Hu : In snap (fr_used (run_files st2 2))) by (vm_compute; left; reflexivity).
    assert (Hc : alookup snap (s_fs st2) = Some (render (map to_entry es))) by (vm_compute; reflexivity).
    assert (H0 : 0 < 2) by lia. assert (Hi : 1 <= 1 <= 1) by lia.
    destruct (run_count_uniform st2 sort_opt 2 snap es (reachable_keys_nodup _ _ _ _) Hu Hc es_ok es_nodup
                (B "TestA") 1 1 live H0 Hi Hl (or_introl eq_refl) eq_refl) as [_ [H2 [_ [H4 _]]]].
    split; assumption.
  Qed.

  (* ---- why "its id is not in cr_obsolete_tests" needs the side condition on the OTHER files ----
     The entry report of a run is a flat list of ids without file names (clean.go: obsoleteTests is a
     []string of test ids). TestA makes two calls on the default file and one call on a second file
     (Config Filename "other"); the second file still holds a stale "TestA - 2". The run reports the id
     "TestA - 2" (for other.snap) although the entry "TestA - 2" of a_test.snap is addressed in this
     very run, survives, and is not reported by ITS file. *)
  Definition other := B "/p/__snapshots__/other.snap".
  Definition a1 : centry := (B "TestA - 1", B "a").
  Definition a2 : centry := (B "TestA - 2", B "b").
  Definition o1 : centry := (B "TestA - 1", B "c").
  Definition o2 : centry := (B "TestA - 2", B "left over").
  Definition ops3 : list op :=
    [OPutFile snap (render (map to_entry [a1; a2])); OPutFile other (render (map to_entry [o1; o2]));
     ONewConfig (Some (B "other")) None None None;
     OMatch ASnap 0 (B "TestA") (POk (B "a")); OMatch ASnap 0 (B "TestA") (POk (B "b"));
     OMatch ASnap 1 (B "TestA") (POk (B "c")); OEndTest (B "TestA")].
  Definition st3 (u : updvar) : state :=
    fst (run (init_state (env_of u) (B "/p/a_test.go") (B "__snapshots__")) ops3).

  Example same_id_reported_by_other_file :
    let s := st3 UUnset in
    let res := clean_run s false 1 in
    map o_outcome (snd (run (init_state (env_of UUnset) (B "/p/a_test.go") (B "__snapshots__")) ops3))
      = [NoCall; NoCall; NoCall; Passed; Passed; Passed; NoCall] /\
    fr_used (run_files s 1) = [snap; other] /\
    alookup snap (s_fs s) = Some (render (map to_entry [a1; a2])) /\
    In (fst a2) (registered_tests (s_cleanup s) snap 1) /\           (* addressed in this run *)
    file_report s false 1 snap = [] /\                               (* its file does not report it *)
    file_report s false 1 other = [B "TestA - 2"] /\
    cr_obsolete_tests (snd res) = [B "TestA - 2"] /\                 (* ... but the run lists its id *)
    In (fst a2) (cr_obsolete_tests (snd res)) /\
    alookup snap (s_fs (fst res)) = Some (render (map to_entry [a1; a2])) /\
    (* and in delete mode only other.snap loses its entry *)
    s_fs (fst (clean_run (st3 UClean) false 1)) =
      [(snap, render (map to_entry [a1; a2])); (other, render (map to_entry [o1]))].
  Proof.
    vm_compute. repeat split; try reflexivity.
    - right. left. reflexivity.
    - left. reflexivity.
  Qed.
End RunExample.

(* ====================================================================================== *)
(* Assumptions                                                                            *)
(* ====================================================================================== *)
Print Assumptions entries_after_perm.
Print Assumptions entries_after_nosort.
Print Assumptions run_file_content.
Print Assumptions run_file_written.
Print Assumptions run_report_exact_one_file.
Print Assumptions run_report_decompose.
Print Assumptions run_stale_entries_reported.
Print Assumptions run_reported_entries_stale.
Print Assumptions run_kept_entry_survives.
Print Assumptions run_addressed_entry_survives.
Print Assumptions run_skip_protected_entry_kept.
Print Assumptions run_count_uniform.
Print Assumptions run_report_only_keeps_entries.
Print Assumptions run_delete_mode_removes_reported.
Print Assumptions reachable_run_addressed_entry_survives.
Print Assumptions run_single_file_not_reported.
Print Assumptions RunExample.delete_mode.
Print Assumptions RunExample.report_mode.
Print Assumptions RunExample.theorems_apply.
Print Assumptions RunExample.report_only_by_theorem.
Print Assumptions RunExample.delete_by_theorem.
Print Assumptions RunExample.count_uniform_applies.
Print Assumptions RunExample.same_id_reported_by_other_file.

(* ---------- Clean touches files only: the directories of the sandbox, the registries, the counters and the skip list of the
   state are what they were - in every mode (a directory is never removed, not even an empty one that a call addressed) ---------- *)
Lemma clean_run_only_fs s sort_opt count :
  exists fs', fst (clean_run s sort_opt count) = set_fs s fs'.
Proof.
  unfold clean_run.
  match goal with |- context [fold_left ?f ?l ?a] => destruct (fold_left f l a) as [[fs2 obs] w2] end.
  now exists fs2.
Qed.

Lemma clean_run_dirs s sort_opt count : s_dirs (fst (clean_run s sort_opt count)) = s_dirs s.
Proof. destruct (clean_run_only_fs s sort_opt count) as [fs' ->]. reflexivity. Qed.
