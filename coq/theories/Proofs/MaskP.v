(* Masking lemmas for C16, derived from the lens laws of Proofs/JsonP.v. *)
From Coq Require Import List NArith Bool Lia.
Import ListNotations.
From Snaps Require Import Base.Bytes Base.Lines Model.Json Model.JsonSpec Proofs.JsonP.

(* apply one placeholder to several paths, left to right (anyMatcher.JSON on existing paths) *)
Fixpoint set_all (v : jv) (ps : list (list pstep)) (x : jv) : option jv :=
  match ps with
  | [] => Some v
  | p :: r => match set v p x with Some v' => set_all v' r x | None => None end
  end.

(* two documents that differ only at a masked path store the same masked document *)
Lemma mask_erases p v y v2 x :
  set v p y = Some v2 -> set v2 p x = set v p x.
Proof. intros H. eapply set_set_same; eauto. Qed.

(* an unmasked path (disjoint from the masked one) keeps its value, so a difference there
   survives masking *)
Lemma mask_keeps_difference p q v1 v2 x m1 m2 :
  disjoint_paths p q = true ->
  set v1 p x = Some m1 -> set v2 p x = Some m2 ->
  get v1 q <> get v2 q -> m1 <> m2.
Proof.
  intros Hd H1 H2 Hne E. subst m2. apply Hne.
  rewrite <- (get_set_disjoint p q v1 x m1 H1 Hd), <- (get_set_disjoint p q v2 x m1 H2 Hd).
  reflexivity.
Qed.

(* masking yields the placeholder at the masked path and nothing else moves *)
Lemma mask_result p q v x m :
  set v p x = Some m -> get m p = Some x /\ (disjoint_paths p q = true -> get m q = get v q).
Proof. intros H. split; [eapply get_set_same; eauto|intros Hd; eapply get_set_disjoint; eauto]. Qed.
