(* GoRunP: for which -run patterns does go-snaps' whole-id match (RunFilter.re_match on "name - k") agree with - or at least
   imply - Go's per-level test selection (GoRun.go_selects)?

   The -run clause of "Clean never deletes or reports an entry of a test that did not run" is
       go_selects p name = false -> test_skipped_run skipped p (snapshot_occ_fmt name k) = true,
   i.e.  re_match p (snapshot_occ_fmt name k) = true -> go_selects p name = true.  It is false in general (C08_run_pattern_refuted).
   Here it is PROVED for the class [safe_pattern]: every alternative is slash-free (single level) and is
     - a prefix  ^L   with L free of '/' and ' ',   or
     - exact     ^L$  with L free of ' ',           or
     - a suffix  L$   with L free of ' ' and holding at least one byte that is not a decimal digit.
   For pure prefix patterns the two decisions coincide. Every side condition is shown necessary by a computed instance. *)
From Coq Require Import String.
From Coq Require Import List NArith Arith Bool Lia.
Import ListNotations.
From Snaps Require Import Base.Bytes Base.Lines Base.Dec Base.Assoc.
From Snaps Require Import Model.PathModel Model.Api Model.Natural Model.Clean Model.RunFilter Model.GoRun.
From Snaps Require Import Proofs.BytesP Proofs.DecP Proofs.RunFilterP.

(* ---------- lists ---------- *)

Lemma existsb_eqb_false c l : existsb (N.eqb c) l = false <-> ~ In c l.
Proof.
  split.
  - intros Hf Hin.
    assert (Ht : existsb (N.eqb c) l = true).
    { apply existsb_exists. exists c. split; [assumption|apply N.eqb_refl]. }
    congruence.
  - intros Hn. destruct (existsb (N.eqb c) l) eqn:E; [|reflexivity].
    exfalso. apply existsb_exists in E as [x [Hin Hx]]. apply N.eqb_eq in Hx. subst x. now apply Hn.
Qed.

Lemma negb_existsb_eqb c l : negb (existsb (N.eqb c) l) = true <-> ~ In c l.
Proof. rewrite negb_true_iff. apply existsb_eqb_false. Qed.

Lemma existsb_ext_in {A} (f g : A -> bool) l : (forall x, In x l -> f x = g x) -> existsb f l = existsb g l.
Proof.
  induction l as [|x l IH]; intros H; cbn [existsb]; [reflexivity|].
  rewrite (H x (or_introl eq_refl)), IH; [reflexivity|].
  intros y Hy. apply H. now right.
Qed.

Lemma existsb_map_comp {A C} (f : C -> bool) (g : A -> C) l : existsb f (map g l) = existsb (fun x => f (g x)) l.
Proof. induction l as [|x l IH]; cbn [map existsb]; [reflexivity|]. now rewrite IH. Qed.

(* ---------- prefixes stop at a byte the literal does not contain ---------- *)

Lemma is_prefix_cut L x c rest : ~ In c L -> is_prefix L (x ++ c :: rest) = is_prefix L x.
Proof.
  revert x. induction L as [|d L IH]; intros x Hn; [reflexivity|].
  destruct x as [|y x]; cbn [app is_prefix].
  - destruct (N.eqb_spec d c) as [->|Hne]; [|reflexivity].
    exfalso. apply Hn. now left.
  - rewrite IH; [reflexivity|]. intros Hin. apply Hn. now right.
Qed.

(* ---------- the first '/'-element of a name ---------- *)

Lemma split_slash_nonempty s : split_slash s <> [].
Proof.
  destruct s as [|c s]; cbn [split_slash]; [discriminate|].
  destruct (N.eqb c slash); [discriminate|]. destruct (split_slash s); discriminate.
Qed.

Lemma split_slash_hd s :
  s = hd [] (split_slash s) \/ exists r, s = hd [] (split_slash s) ++ slash :: r.
Proof.
  induction s as [|c s IH]; [now left|].
  cbn [split_slash]. destruct (N.eqb_spec c slash) as [->|Hne].
  - right. exists s. reflexivity.
  - destruct (split_slash s) as [|l ls] eqn:E; [now destruct (split_slash_nonempty s)|].
    cbn [hd] in *. destruct IH as [IH|[r IH]].
    + left. now f_equal.
    + right. exists r. cbn [app]. now f_equal.
Qed.

Lemma split_slash_noslash t : ~ In slash t -> split_slash t = [t].
Proof.
  induction t as [|c t IH]; intros Hn; [reflexivity|].
  cbn [split_slash]. destruct (N.eqb_spec c slash) as [->|Hne].
  - exfalso. apply Hn. now left.
  - rewrite IH; [reflexivity|]. intros Hin. apply Hn. now right.
Qed.

Lemma is_prefix_first_elem L name :
  ~ In slash L -> is_prefix L name = is_prefix L (hd [] (split_slash name)).
Proof.
  intros Hn. destruct (split_slash_hd name) as [H|[r H]];
    remember (hd [] (split_slash name)) as h eqn:Eh; clear Eh; subst name.
  - reflexivity.
  - now apply is_prefix_cut.
Qed.

(* ---------- parse_alt: the literal is the text minus a leading ^ and a trailing $ ---------- *)

Definition strip_caret (s : bytes) : bool * bytes :=
  match s with c :: r => if N.eqb c caret then (true, r) else (false, s) | [] => (false, []) end.
Definition strip_dollar (s : bytes) : bool * bytes :=
  match rev s with c :: r => if N.eqb c dollar then (true, rev r) else (false, s) | [] => (false, []) end.

Lemma parse_alt_eq t :
  parse_alt t = {| a_start := fst (strip_caret t);
                   a_lit := snd (strip_dollar (snd (strip_caret t)));
                   a_end := fst (strip_dollar (snd (strip_caret t))) |}.
Proof.
  unfold parse_alt, strip_caret, strip_dollar.
  destruct t as [|c0 r]; [reflexivity|].
  destruct (N.eqb c0 caret); cbn [fst snd].
  - destruct (rev r) as [|d r']; [reflexivity|]. destruct (N.eqb d dollar); reflexivity.
  - destruct (rev (c0 :: r)) as [|d r']; [reflexivity|]. destruct (N.eqb d dollar); reflexivity.
Qed.

Lemma strip_caret_incl c s : In c (snd (strip_caret s)) -> In c s.
Proof.
  unfold strip_caret. destruct s as [|c0 r]; [now cbn|].
  destruct (N.eqb c0 caret); cbn [snd]; intros H; [now right|assumption].
Qed.

Lemma strip_dollar_incl c s : In c (snd (strip_dollar s)) -> In c s.
Proof.
  unfold strip_dollar. destruct (rev s) as [|d r'] eqn:E; [now cbn|].
  destruct (N.eqb d dollar); cbn [snd]; intros H; [|assumption].
  apply in_rev. rewrite E. right. now apply in_rev.
Qed.

(* a slash-free (space-free, ...) alternative text gives a slash-free (space-free, ...) literal *)
Lemma parse_alt_lit_incl c t : In c (a_lit (parse_alt t)) -> In c t.
Proof.
  rewrite parse_alt_eq. cbn [a_lit]. intros H. now apply strip_caret_incl, strip_dollar_incl.
Qed.

Example parse_alt_exact : parse_alt (B "^TestA$") = {| a_start := true; a_lit := B "TestA"; a_end := true |}.
Proof. vm_compute. reflexivity. Qed.

(* ---------- Go's selection for a single-level alternative ---------- *)

Lemma go_alt_selects_single t name :
  ~ In slash t -> go_alt_selects t name = alt_match (parse_alt t) (hd [] (split_slash name)).
Proof.
  intros Hn. unfold go_alt_selects. rewrite split_slash_noslash by assumption. cbn [map].
  destruct (split_slash name) as [|n nr] eqn:E; [now destruct (split_slash_nonempty name)|].
  cbn [go_levels hd]. apply andb_true_r.
Qed.

(* ---------- 1. a prefix literal without '/' and ' ' sees only the first element of the name ---------- *)

Lemma prefix_alt_id a name k :
  a_start a = true -> a_end a = false -> ~ In slash (a_lit a) -> no_space (a_lit a) ->
  alt_match a (snapshot_occ_fmt name k) = alt_match a (hd [] (split_slash name)).
Proof.
  intros Hs He Hsl Hsp. unfold alt_match. rewrite Hs, He.
  unfold snapshot_occ_fmt. change sep with (32%N :: [45%N; 32%N]). cbn [app].
  rewrite is_prefix_cut by exact Hsp. now apply is_prefix_first_elem.
Qed.

(* ---------- 2. an exact literal without ' ' never equals an id ---------- *)

Lemma exact_alt_never a name k :
  a_start a = true -> a_end a = true -> no_space (a_lit a) ->
  alt_match a (snapshot_occ_fmt name k) = false.
Proof.
  intros Hs He Hsp. unfold alt_match. rewrite Hs, He. apply beq_neq. intros Heq.
  apply Hsp. rewrite Heq. unfold snapshot_occ_fmt. apply in_or_app. right.
  change sep with (32%N :: [45%N; 32%N]). cbn [app]. now left.
Qed.

(* ---------- 3. a suffix literal without ' ' lies inside the ordinal: it is all digits ---------- *)

Lemma id_rev name k :
  rev (snapshot_occ_fmt name k) = rev (dec k) ++ 32%N :: ([45%N; 32%N] ++ rev name).
Proof.
  unfold snapshot_occ_fmt. change sep with ([32%N; 45%N; 32%N]).
  rewrite !rev_app_distr. change (rev [32%N; 45%N; 32%N]) with ([32%N; 45%N; 32%N]).
  rewrite <- app_assoc. reflexivity.
Qed.

Lemma dec_all_digits k c : In c (dec k) -> is_digit c = true.
Proof. intros H. exact (proj1 (forallb_forall is_digit (dec k)) (dec_digits k) c H). Qed.

Lemma suffix_space_free_in_ordinal L name k :
  no_space L -> is_suffix L (snapshot_occ_fmt name k) = is_suffix L (dec k).
Proof.
  intros Hsp. unfold is_suffix. rewrite id_rev. apply is_prefix_cut.
  intros Hin. apply Hsp. now apply in_rev.
Qed.

Lemma suffix_alt_nondigit_never a name k :
  a_start a = false -> a_end a = true -> no_space (a_lit a) ->
  (exists c, In c (a_lit a) /\ is_digit c = false) ->
  alt_match a (snapshot_occ_fmt name k) = false.
Proof.
  intros Hs He Hsp [c [Hin Hc]]. unfold alt_match. rewrite Hs, He.
  rewrite suffix_space_free_in_ordinal by assumption.
  destruct (is_suffix (a_lit a) (dec k)) eqn:E; [|reflexivity].
  exfalso. unfold is_suffix in E. apply is_prefix_spec in E as [r Hr].
  assert (Hd : In c (dec k)).
  { apply in_rev. rewrite Hr. apply in_or_app. left. rewrite <- in_rev. exact Hin. }
  apply dec_all_digits in Hd. congruence.
Qed.

(* ---------- 4. the safe class ---------- *)

Definition has_byte (c : N) (l : bytes) : bool := existsb (N.eqb c) l.
Definition has_nondigit (l : bytes) : bool := existsb (fun c => negb (is_digit c)) l.

Definition safe_alt (a : alt) : bool :=
  match a_start a, a_end a with
  | true, false => negb (has_byte slash (a_lit a)) && negb (has_byte 32%N (a_lit a))
  | true, true => negb (has_byte 32%N (a_lit a))
  | false, true => negb (has_byte 32%N (a_lit a)) && has_nondigit (a_lit a)
  | false, false => false
  end.

(* single-level alternatives only *)
Definition safe_pattern (p : bytes) : bool :=
  forallb (fun t => negb (existsb (N.eqb slash) t) && safe_alt (parse_alt t)) (split_bar p).

Lemma has_nondigit_spec l : has_nondigit l = true -> exists c, In c l /\ is_digit c = false.
Proof.
  unfold has_nondigit. intros H. apply existsb_exists in H as [c [Hin Hc]].
  exists c. split; [assumption|]. now apply negb_true_iff.
Qed.

(* a safe alternative that matches the id matches the first element of the name *)
Lemma safe_alt_first a name k :
  safe_alt a = true -> alt_match a (snapshot_occ_fmt name k) = true ->
  alt_match a (hd [] (split_slash name)) = true.
Proof.
  unfold safe_alt, has_byte. intros Hsafe Hm.
  destruct (a_start a) eqn:Hs, (a_end a) eqn:He.
  - apply negb_existsb_eqb in Hsafe.
    rewrite exact_alt_never in Hm by assumption. discriminate.
  - apply andb_prop in Hsafe as [Hsl Hsp].
    apply negb_existsb_eqb in Hsl. apply negb_existsb_eqb in Hsp.
    now rewrite <- (prefix_alt_id a name k) by assumption.
  - apply andb_prop in Hsafe as [Hsp Hnd].
    apply negb_existsb_eqb in Hsp. apply has_nondigit_spec in Hnd.
    rewrite suffix_alt_nondigit_never in Hm by assumption. discriminate.
  - discriminate.
Qed.

Lemma re_match_split p s :
  re_match p s = existsb (fun t => alt_match (parse_alt t) s) (split_bar p).
Proof. unfold re_match, parse_pattern. apply existsb_map_comp. Qed.

(* MAIN THEOREM: for a safe pattern, an id that go-snaps takes for "ran" belongs to a test Go selected.
   (No hypothesis on [name] is needed: the literals are space-free, so they cannot see past the first " - ".) *)
Theorem safe_pattern_sound p name k :
  safe_pattern p = true ->
  re_match p (snapshot_occ_fmt name k) = true -> go_selects p name = true.
Proof.
  intros Hsafe Hm. rewrite re_match_split in Hm. apply existsb_exists in Hm as [t [Hin Ht]].
  unfold safe_pattern in Hsafe. rewrite forallb_forall in Hsafe.
  specialize (Hsafe t Hin). apply andb_prop in Hsafe as [Hsl Hsa].
  apply negb_existsb_eqb in Hsl.
  unfold go_selects. apply existsb_exists. exists t. split; [assumption|].
  rewrite go_alt_selects_single by assumption. now apply (safe_alt_first _ name k).
Qed.

(* ... so the entries of a test the pattern did not select are protected *)
Corollary unselected_entry_protected skipped p name k :
  safe_pattern p = true -> go_selects p name = false ->
  test_skipped_run skipped p (snapshot_occ_fmt name k) = true.
Proof.
  intros Hsafe Hgo. unfold test_skipped_run.
  destruct (re_match p (snapshot_occ_fmt name k)) eqn:E; [|apply orb_true_r].
  rewrite (safe_pattern_sound p name k Hsafe E) in Hgo. discriminate.
Qed.

(* the statements in the shape used elsewhere (names of Go tests contain no space) *)
Corollary safe_pattern_sound_ns p name k :
  safe_pattern p = true -> no_space name ->
  re_match p (snapshot_occ_fmt name k) = true -> go_selects p name = true.
Proof. intros Hsafe _. now apply safe_pattern_sound. Qed.

Corollary unselected_entry_protected_ns skipped p name k :
  safe_pattern p = true -> no_space name -> go_selects p name = false ->
  test_skipped_run skipped p (snapshot_occ_fmt name k) = true.
Proof. intros Hsafe _. now apply unselected_entry_protected. Qed.

(* ---------- 5. pure prefix patterns: the two decisions coincide ---------- *)

Definition prefix_alt (a : alt) : bool :=
  a_start a && negb (a_end a) && negb (has_byte slash (a_lit a)) && negb (has_byte 32%N (a_lit a)).

Definition prefix_pattern (p : bytes) : bool :=
  forallb (fun t => negb (existsb (N.eqb slash) t) && prefix_alt (parse_alt t)) (split_bar p).

Lemma prefix_alt_safe a : prefix_alt a = true -> safe_alt a = true.
Proof.
  unfold prefix_alt, safe_alt. intros H.
  apply andb_prop in H as [H Hsp]. apply andb_prop in H as [H Hsl]. apply andb_prop in H as [Hs He].
  apply negb_true_iff in He. rewrite Hs, He, Hsl, Hsp. reflexivity.
Qed.

Lemma prefix_pattern_safe p : prefix_pattern p = true -> safe_pattern p = true.
Proof.
  unfold prefix_pattern, safe_pattern. rewrite !forallb_forall. intros H t Hin.
  specialize (H t Hin). apply andb_prop in H as [Hsl Hp].
  rewrite Hsl. cbn [andb]. now apply prefix_alt_safe.
Qed.

Theorem prefix_pattern_equiv p name k :
  prefix_pattern p = true ->
  re_match p (snapshot_occ_fmt name k) = go_selects p name.
Proof.
  intros Hp. rewrite re_match_split. unfold go_selects. apply existsb_ext_in. intros t Hin.
  unfold prefix_pattern in Hp. rewrite forallb_forall in Hp.
  specialize (Hp t Hin). apply andb_prop in Hp as [Hsl Hpa].
  apply negb_existsb_eqb in Hsl. rewrite go_alt_selects_single by assumption.
  unfold prefix_alt, has_byte in Hpa.
  apply andb_prop in Hpa as [Hpa Hsp]. apply andb_prop in Hpa as [Hpa Hls]. apply andb_prop in Hpa as [Hs He].
  apply negb_true_iff in He. apply negb_existsb_eqb in Hsp. apply negb_existsb_eqb in Hls.
  now apply prefix_alt_id.
Qed.

(* for a pure prefix pattern go-snaps protects exactly: the skip list, and the tests Go did not select *)
Corollary prefix_pattern_protection skipped p name k :
  prefix_pattern p = true ->
  test_skipped_run skipped p (snapshot_occ_fmt name k)
  = test_skipped skipped (snapshot_occ_fmt name k) || negb (go_selects p name).
Proof. intros Hp. unfold test_skipped_run. now rewrite (prefix_pattern_equiv p name k Hp). Qed.

(* ---------- 6. necessity: outside the class go-snaps says "ran" for a test Go did not select ---------- *)

(* an unanchored literal matches a deeper level of the name *)
Example unsafe_unanchored :
  safe_pattern (B "Sub2") = false /\
  re_match (B "Sub2") (snapshot_occ_fmt (B "TestAlpha/Sub2") 1) = true /\
  go_selects (B "Sub2") (B "TestAlpha/Sub2") = false /\
  test_skipped_run [] (B "Sub2") (snapshot_occ_fmt (B "TestAlpha/Sub2") 1) = false.
Proof. vm_compute. repeat split. Qed.

(* a digit suffix matches the ordinal *)
Example unsafe_digit_suffix :
  safe_pattern (B "1$") = false /\
  re_match (B "1$") (snapshot_occ_fmt (B "TestBeta") 1) = true /\
  go_selects (B "1$") (B "TestBeta") = false /\
  test_skipped_run [] (B "1$") (snapshot_occ_fmt (B "TestBeta") 1) = false.
Proof. vm_compute. repeat split. Qed.

(* a plain digit alternative matches the ordinal (finding K3) *)
Example unsafe_digit_alternative :
  safe_pattern (B "TestZeta|1") = false /\
  re_match (B "TestZeta|1") (snapshot_occ_fmt (B "TestAlpha") 1) = true /\
  go_selects (B "TestZeta|1") (B "TestAlpha") = false /\
  test_skipped_run [] (B "TestZeta|1") (snapshot_occ_fmt (B "TestAlpha") 1) = false.
Proof. vm_compute. repeat split. Qed.

(* the unanchored literal need not be a digit or a sub-test name: it may straddle the " - " *)
Example unsafe_unanchored_separator :
  re_match (B "a - 1") (snapshot_occ_fmt (B "TestAlpha") 1) = true /\
  go_selects (B "a - 1") (B "TestAlpha") = false.
Proof. vm_compute. repeat split. Qed.

(* the side conditions of [safe_alt] are needed too: a space lets an anchored literal reach the separator and the ordinal *)
Example unsafe_prefix_space :
  safe_pattern (B "^TestA -") = false /\
  re_match (B "^TestA -") (snapshot_occ_fmt (B "TestA") 1) = true /\
  go_selects (B "^TestA -") (B "TestA") = false.
Proof. vm_compute. repeat split. Qed.

Example unsafe_exact_space :
  safe_pattern (B "^TestA - 1$") = false /\
  re_match (B "^TestA - 1$") (snapshot_occ_fmt (B "TestA") 1) = true /\
  go_selects (B "^TestA - 1$") (B "TestA") = false.
Proof. vm_compute. repeat split. Qed.

Example unsafe_suffix_space :
  safe_pattern (B "A - 1$") = false /\
  re_match (B "A - 1$") (snapshot_occ_fmt (B "TestA") 1) = true /\
  go_selects (B "A - 1$") (B "TestA") = false.
Proof. vm_compute. repeat split. Qed.

(* the converse of the main theorem fails for exact and suffix alternatives: Go runs the test, go-snaps takes it for
   "did not run" (its entries are protected - the harmless direction) *)
Example safe_not_complete :
  safe_pattern (B "^TestZeta$|Beta$") = true /\
  go_selects (B "^TestZeta$|Beta$") (B "TestZeta") = true /\
  re_match (B "^TestZeta$|Beta$") (snapshot_occ_fmt (B "TestZeta") 1) = false /\
  go_selects (B "^TestZeta$|Beta$") (B "TestBeta") = true /\
  re_match (B "^TestZeta$|Beta$") (snapshot_occ_fmt (B "TestBeta") 1) = false.
Proof. vm_compute. repeat split. Qed.

(* ---------- 7. non-vacuity ---------- *)

Definition ex_pattern : bytes := B "^TestAl|^TestZeta$|Beta$".

Example ex_pattern_safe : safe_pattern ex_pattern = true.
Proof. vm_compute. reflexivity. Qed.

Example ex_names_no_space : no_space (B "TestAlpha/Sub1") /\ no_space (B "TestBeta") /\ no_space (B "TestGamma").
Proof. repeat split; apply existsb_eqb_false; vm_compute; reflexivity. Qed.

(* the hypotheses of the main theorem hold for TestAlpha/Sub1: its entries are "ran" for go-snaps, and Go selected it *)
Example ex_sound_applies : forall k,
  re_match ex_pattern (snapshot_occ_fmt (B "TestAlpha/Sub1") k) = true /\
  go_selects ex_pattern (B "TestAlpha/Sub1") = true.
Proof.
  intros k.
  assert (Hm : re_match ex_pattern (snapshot_occ_fmt (B "TestAlpha/Sub1") k) = true).
  { rewrite re_match_split. change (split_bar ex_pattern) with [B "^TestAl"; B "^TestZeta$"; B "Beta$"].
    cbn [existsb]. apply orb_true_iff. left.
    rewrite prefix_alt_id; [vm_compute; reflexivity | reflexivity | reflexivity | |];
      apply existsb_eqb_false; vm_compute; reflexivity. }
  split; [exact Hm|].
  exact (safe_pattern_sound_ns ex_pattern (B "TestAlpha/Sub1") k ex_pattern_safe (proj1 ex_names_no_space) Hm).
Qed.

(* TestGamma is not selected: every one of its entries is protected, whatever the skip list and the ordinal *)
Example ex_unselected_protected : forall skipped k,
  go_selects ex_pattern (B "TestGamma") = false /\
  test_skipped_run skipped ex_pattern (snapshot_occ_fmt (B "TestGamma") k) = true.
Proof.
  intros skipped k.
  assert (Hgo : go_selects ex_pattern (B "TestGamma") = false) by (vm_compute; reflexivity).
  split; [exact Hgo|].
  exact (unselected_entry_protected_ns skipped ex_pattern (B "TestGamma") k ex_pattern_safe
           (proj2 (proj2 ex_names_no_space)) Hgo).
Qed.

(* TestBeta is selected (Beta$) but its ids never match: protected as well (the harmless direction) *)
Example ex_selected_suffix : forall k,
  go_selects ex_pattern (B "TestBeta") = true /\
  re_match ex_pattern (snapshot_occ_fmt (B "TestBeta") k) = false.
Proof.
  intros k. split; [vm_compute; reflexivity|].
  destruct (re_match ex_pattern (snapshot_occ_fmt (B "TestBeta") k)) eqn:E; [|reflexivity].
  exfalso. rewrite re_match_split in E.
  change (split_bar ex_pattern) with [B "^TestAl"; B "^TestZeta$"; B "Beta$"] in E.
  cbn [existsb] in E. rewrite orb_false_r in E.
  apply orb_true_iff in E as [E|E]; [|apply orb_true_iff in E as [E|E]].
  - rewrite prefix_alt_id in E; [vm_compute in E; discriminate | reflexivity | reflexivity | |];
      apply existsb_eqb_false; vm_compute; reflexivity.
  - rewrite exact_alt_never in E; [discriminate | reflexivity | reflexivity |].
    apply existsb_eqb_false. vm_compute. reflexivity.
  - rewrite suffix_alt_nondigit_never in E; [discriminate | reflexivity | reflexivity | |].
    + apply existsb_eqb_false. vm_compute. reflexivity.
    + exists 66%N. split; [vm_compute; tauto | reflexivity].
Qed.

(* the equivalence on a pure prefix pattern *)
Example ex_prefix_equiv : forall name k,
  re_match (B "^TestAl|^TestZ") (snapshot_occ_fmt name k) = go_selects (B "^TestAl|^TestZ") name.
Proof. intros name k. apply prefix_pattern_equiv. vm_compute. reflexivity. Qed.

Print Assumptions safe_pattern_sound.
Print Assumptions unselected_entry_protected.
Print Assumptions safe_pattern_sound_ns.
Print Assumptions unselected_entry_protected_ns.
Print Assumptions prefix_pattern_equiv.

(* ====================================================================================================
   The FILE-level check (isFileSkipped / RunFilter.file_skipped_run): with a non-empty pattern a file is protected iff its
   sibling test file parses and NO function name of it matches the whole pattern. Function names are Go identifiers: they
   contain neither '/' nor ' '. For EVERY pattern of the class - multi-level alternatives included - a whole-pattern match
   against a slash-free name implies that Go selects that top-level function, so a file none of whose functions is selected
   is protected. For single-level patterns the two decisions coincide on function names.
   ==================================================================================================== *)

(* ---------- a matching literal lies inside the subject ---------- *)

Lemma is_prefix_incl p s c : is_prefix p s = true -> In c p -> In c s.
Proof.
  intros H Hin. apply is_prefix_spec in H as [r ->]. apply in_or_app. now left.
Qed.

Lemma index_of_incl pat s n c : index_of pat s = Some n -> In c pat -> In c s.
Proof.
  revert n. induction s as [|d s IH]; intros n H Hin.
  - cbn [index_of] in H. destruct (is_prefix pat []) eqn:E; [|discriminate].
    now apply (is_prefix_incl pat [] c E).
  - cbn [index_of] in H. destruct (is_prefix pat (d :: s)) eqn:E.
    + now apply (is_prefix_incl pat (d :: s) c E).
    + destruct (index_of pat s) as [m|]; [|discriminate]. right. now apply (IH m).
Qed.

Lemma alt_match_incl a s c : alt_match a s = true -> In c (a_lit a) -> In c s.
Proof.
  unfold alt_match. intros H Hin. destruct (a_start a), (a_end a).
  - apply beq_eq in H. now rewrite <- H.
  - now apply (is_prefix_incl (a_lit a) s c).
  - unfold is_suffix in H. apply in_rev. apply (is_prefix_incl (rev (a_lit a)) (rev s) c H).
    rewrite <- in_rev. exact Hin.
  - unfold contains in H. destruct (index_of (a_lit a) s) as [n|] eqn:E; [|discriminate].
    now apply (index_of_incl (a_lit a) s n c).
Qed.

(* ---------- stripping ^ and $ keeps every '/' ---------- *)

Lemma strip_caret_keeps c s : c <> caret -> In c s -> In c (snd (strip_caret s)).
Proof.
  intros Hc Hin. unfold strip_caret. destruct s as [|c0 r]; [contradiction|].
  destruct (N.eqb_spec c0 caret) as [->|Hne]; cbn [snd]; [|assumption].
  destruct Hin as [Heq|Hin]; [now symmetry in Heq|assumption].
Qed.

Lemma strip_dollar_keeps c s : c <> dollar -> In c s -> In c (snd (strip_dollar s)).
Proof.
  intros Hc Hin. unfold strip_dollar. apply in_rev in Hin.
  destruct (rev s) as [|d r'] eqn:E; [contradiction|].
  destruct (N.eqb_spec d dollar) as [->|Hne]; cbn [snd].
  - rewrite <- in_rev. destruct Hin as [Heq|Hin]; [now symmetry in Heq|assumption].
  - apply in_rev. rewrite E. exact Hin.
Qed.

Lemma parse_alt_lit_keeps c t : c <> caret -> c <> dollar -> In c t -> In c (a_lit (parse_alt t)).
Proof.
  intros Hc Hd Hin. rewrite parse_alt_eq. cbn [a_lit]. now apply strip_dollar_keeps, strip_caret_keeps.
Qed.

(* a multi-level alternative never matches, as a whole, a slash-free name *)
Lemma multi_level_alt_no_match t name :
  In slash t -> ~ In slash name -> alt_match (parse_alt t) name = false.
Proof.
  intros Ht Hn. destruct (alt_match (parse_alt t) name) eqn:E; [|reflexivity].
  exfalso. apply Hn. apply (alt_match_incl (parse_alt t) name slash E).
  apply parse_alt_lit_keeps; [discriminate|discriminate|assumption].
Qed.

(* ---------- Go's selection of a top-level (slash-free) name: only the first element of each alternative counts ---------- *)

Lemma go_alt_selects_top t name :
  ~ In slash name -> go_alt_selects t name = alt_match (parse_alt (hd [] (split_slash t))) name.
Proof.
  intros Hn. unfold go_alt_selects. rewrite (split_slash_noslash name Hn).
  destruct (split_slash t) as [|e es] eqn:E; [now destruct (split_slash_nonempty t)|].
  cbn [map go_levels hd]. destruct (map parse_alt es); apply andb_true_r.
Qed.

Lemma go_alt_selects_single_top t name :
  ~ In slash t -> ~ In slash name -> go_alt_selects t name = alt_match (parse_alt t) name.
Proof.
  intros Ht Hn. rewrite go_alt_selects_top by assumption. now rewrite (split_slash_noslash t Ht).
Qed.

(* ---------- (1) a whole-pattern match on a function name implies Go selects the function - for EVERY pattern ---------- *)

Theorem re_match_func_sound p name :
  ~ In slash name -> re_match p name = true -> go_selects p name = true.
Proof.
  intros Hn Hm. rewrite re_match_split in Hm. apply existsb_exists in Hm as [t [Hin Ht]].
  unfold go_selects. apply existsb_exists. exists t. split; [assumption|].
  destruct (existsb (N.eqb slash) t) eqn:Hsl.
  - apply existsb_exists in Hsl as [c [Hc Heq]]. apply N.eqb_eq in Heq. subst c.
    rewrite (multi_level_alt_no_match t name Hc Hn) in Ht. discriminate.
  - apply existsb_eqb_false in Hsl. now rewrite go_alt_selects_single_top.
Qed.

(* ---------- (2) a file none of whose test functions Go selects is protected ---------- *)

Theorem unselected_file_protected p names :
  p <> [] -> Forall (fun n => ~ In slash n) names ->
  (forall n, In n names -> go_selects p n = false) ->
  file_skipped_run p (Some names) = true.
Proof.
  intros Hp Hnames Hgo. unfold file_skipped_run. destruct p as [|c p]; [contradiction|].
  apply negb_true_iff. destruct (existsb (re_match (c :: p)) names) eqn:E; [|reflexivity].
  exfalso. apply existsb_exists in E as [n [Hin Hm]].
  rewrite Forall_forall in Hnames.
  specialize (Hgo n Hin).
  rewrite (re_match_func_sound (c :: p) n (Hnames n Hin) Hm) in Hgo. discriminate.
Qed.

(* ---------- (3) single-level patterns: the two decisions coincide on function names ---------- *)

Definition single_level (p : bytes) : bool :=
  forallb (fun t => negb (existsb (N.eqb slash) t)) (split_bar p).

Theorem single_level_func_equiv p name :
  single_level p = true -> ~ In slash name -> go_selects p name = re_match p name.
Proof.
  intros Hp Hn. rewrite re_match_split. unfold go_selects. apply existsb_ext_in. intros t Hin.
  unfold single_level in Hp. rewrite forallb_forall in Hp. specialize (Hp t Hin).
  apply negb_existsb_eqb in Hp. now apply go_alt_selects_single_top.
Qed.

Corollary single_level_file_equiv p names :
  single_level p = true -> p <> [] -> Forall (fun n => ~ In slash n) names ->
  file_skipped_run p (Some names) = negb (existsb (go_selects p) names).
Proof.
  intros Hp Hne Hnames. unfold file_skipped_run. destruct p as [|c p]; [contradiction|].
  f_equal. apply existsb_ext_in. intros n Hin. rewrite Forall_forall in Hnames.
  symmetry. now apply single_level_func_equiv; [|apply Hnames].
Qed.

Lemma safe_pattern_single_level p : safe_pattern p = true -> single_level p = true.
Proof.
  unfold safe_pattern, single_level. rewrite !forallb_forall. intros H t Hin.
  specialize (H t Hin). now apply andb_prop in H as [Hsl _].
Qed.

(* ---------- (4) the limits ---------- *)

(* finding K6: without a parsable sibling .go file (standalone snapshots, custom file names) -run protects nothing *)
Lemma file_without_sibling_unprotected p : file_skipped_run p None = false.
Proof. destruct p; reflexivity. Qed.

Example file_without_sibling_example :
  B "^TestZeta$" <> [] /\ go_selects (B "^TestZeta$") (B "TestAlpha") = false /\
  file_skipped_run (B "^TestZeta$") None = false.
Proof. vm_compute. repeat split. discriminate. Qed.

(* the converse of (1) fails for a multi-level pattern: Go runs TestAPI (to reach TestAPI/v1), the whole pattern does not match
   the function name, the file stays protected - the harmless direction *)
Example multi_level_file_overprotected :
  single_level (B "TestAPI/v1") = false /\
  go_selects (B "TestAPI/v1") (B "TestAPI") = true /\
  re_match (B "TestAPI/v1") (B "TestAPI") = false /\
  file_skipped_run (B "TestAPI/v1") (Some [B "TestAPI"]) = true.
Proof. vm_compute. repeat split. Qed.

(* the slash-free hypothesis of (1) is needed: against a name WITH '/' (a sub-test, never a function name) an unanchored
   literal matches a deeper level that Go's per-level selection does not look at *)
Example re_match_name_with_slash :
  re_match (B "Sub2") (B "TestAlpha/Sub2") = true /\ go_selects (B "Sub2") (B "TestAlpha/Sub2") = false.
Proof. vm_compute. repeat split. Qed.

(* ---------- non-vacuity of (2) and (3) ---------- *)

Definition ex_file_pattern : bytes := B "^TestAl|Beta$".
Definition ex_file_names : list bytes := [B "TestGamma"; B "TestDelta"].

Example ex_file_hyps :
  ex_file_pattern <> [] /\ Forall (fun n => ~ In slash n) ex_file_names /\
  (forall n, In n ex_file_names -> go_selects ex_file_pattern n = false).
Proof.
  split; [discriminate|]. split.
  - repeat constructor; apply existsb_eqb_false; vm_compute; reflexivity.
  - intros n [<-|[<-|[]]]; vm_compute; reflexivity.
Qed.

Example ex_file_protected : file_skipped_run ex_file_pattern (Some ex_file_names) = true.
Proof.
  destruct ex_file_hyps as [Hne [Hnames Hgo]].
  exact (unselected_file_protected ex_file_pattern ex_file_names Hne Hnames Hgo).
Qed.

(* ... and a file holding a selected function is not protected; by the equivalence (3) *)
Example ex_file_selected :
  file_skipped_run ex_file_pattern (Some [B "TestGamma"; B "TestBeta"]) = false.
Proof.
  rewrite single_level_file_equiv.
  - vm_compute. reflexivity.
  - vm_compute. reflexivity.
  - discriminate.
  - repeat constructor; apply existsb_eqb_false; vm_compute; reflexivity.
Qed.

Example ex_func_sound_applies :
  re_match ex_file_pattern (B "TestAlpha") = true /\ go_selects ex_file_pattern (B "TestAlpha") = true.
Proof.
  assert (Hm : re_match ex_file_pattern (B "TestAlpha") = true) by (vm_compute; reflexivity).
  split; [exact Hm|]. apply re_match_func_sound; [|exact Hm].
  apply existsb_eqb_false. vm_compute. reflexivity.
Qed.

Print Assumptions re_match_func_sound.
Print Assumptions unselected_file_protected.
Print Assumptions single_level_func_equiv.
Print Assumptions single_level_file_equiv.
Print Assumptions file_without_sibling_unprotected.
