(* GoRunP: for which -run patterns does go-snaps' whole-id match (RunFilter.re_match on "name - k") agree with - or at least
   imply - Go's per-level test selection (GoRun.go_selects)?

   The -run clause of "Clean never deletes or reports an entry of a test that did not run" is
       go_selects p name = false -> test_skipped_run skipped p (snapshot_occ_fmt name k) = true,
   i.e.  re_match p (snapshot_occ_fmt name k) = true -> go_selects p name = true.  It is false in general (C08_run_pattern_refuted).
   Here it is PROVED for the class [safe_pattern]: every alternative is slash-free (single level) and is
     - a prefix  ^L   with L free of '/' and ' ',   or
     - exact     ^L$  with L free of ' ',           or
     - a suffix  L$   with L free of ' ' and holding at least one byte that is not a decimal digit.
   For pure prefix patterns the two decisions coincide. Every side condition is shown necessary by a computed instance. *)
From Coq Require Import String.
From Coq Require Import List NArith Arith Bool Lia.
Import ListNotations.
From Snaps Require Import Base.Bytes Base.Lines Base.Dec Base.Assoc.
From Snaps Require Import Model.PathModel Model.Api Model.Natural Model.Clean Model.RunFilter Model.GoRun.
From Snaps Require Import Proofs.BytesP Proofs.DecP Proofs.RunFilterP.

(* ---------- lists ---------- *)

Lemma existsb_eqb_false c l : existsb (N.eqb c) l = false <-> ~ In c l.
Proof.
  split.
  - intros Hf Hin.
    assert (Ht : existsb (N.eqb c) l = true).
    { apply existsb_exists. exists c. split; [assumption|apply N.eqb_refl]. }
    congruence.
  - intros Hn. destruct (existsb (N.eqb c) l) eqn:E; [|reflexivity].
    exfalso. apply existsb_exists in E as [x [Hin Hx]]. apply N.eqb_eq in Hx. subst x. now apply Hn.
Qed.

Lemma negb_existsb_eqb c l : negb (existsb (N.eqb c) l) = true <-> ~ In c l.
Proof. rewrite negb_true_iff. apply existsb_eqb_false. Qed.

Lemma existsb_ext_in {A} (f g : A -> bool) l : (forall x, In x l -> f x = g x) -> existsb f l = existsb g l.
Proof.
  induction l as [|x l IH]; intros H; cbn [existsb]; [reflexivity|].
  rewrite (H x (or_introl eq_refl)), IH; [reflexivity|].
  intros y Hy. apply H. now right.
Qed.

Lemma existsb_map_comp {A C} (f : C -> bool) (g : A -> C) l : existsb f (map g l) = existsb (fun x => f (g x)) l.
Proof. induction l as [|x l IH]; cbn [map existsb]; [reflexivity|]. now rewrite IH. Qed.

(* ---------- prefixes stop at a byte the literal does not contain ---------- *)

Lemma is_prefix_cut L x c rest : ~ In c L -> is_prefix L (x ++ c :: rest) = is_prefix L x.
Proof.
  revert x. induction L as [|d L IH]; intros x Hn; [reflexivity|].
  destruct x as [|y x]; cbn [app is_prefix].
  - destruct (N.eqb_spec d c) as [->|Hne]; [|reflexivity].
    exfalso. apply Hn. now left.
  - rewrite IH; [reflexivity|]. intros Hin. apply Hn. now right.
Qed.

(* ---------- the first '/'-element of a name ---------- *)

Lemma split_slash_nonempty s : split_slash s <> [].
Proof.
  destruct s as [|c s]; cbn [split_slash]; [discriminate|].
  destruct (N.eqb c slash); [discriminate|]. destruct (split_slash s); discriminate.
Qed.

Lemma split_slash_hd s :
  s = hd [] (split_slash s) \/ exists r, s = hd [] (split_slash s) ++ slash :: r.
Proof.
  induction s as [|c s IH]; [now left|].
  cbn [split_slash]. destruct (N.eqb_spec c slash) as [->|Hne].
  - right. exists s. reflexivity.
  - destruct (split_slash s) as [|l ls] eqn:E; [now destruct (split_slash_nonempty s)|].
    cbn [hd] in *. destruct IH as [IH|[r IH]].
    + left. now f_equal.
    + right. exists r. cbn [app]. now f_equal.
Qed.

Lemma split_slash_noslash t : ~ In slash t -> split_slash t = [t].
Proof.
  induction t as [|c t IH]; intros Hn; [reflexivity|].
  cbn [split_slash]. destruct (N.eqb_spec c slash) as [->|Hne].
  - exfalso. apply Hn. now left.
  - rewrite IH; [reflexivity|]. intros Hin. apply Hn. now right.
Qed.

Lemma is_prefix_first_elem L name :
  ~ In slash L -> is_prefix L name = is_prefix L (hd [] (split_slash name)).
Proof.
  intros Hn. destruct (split_slash_hd name) as [H|[r H]];
    remember (hd [] (split_slash name)) as h eqn:Eh; clear Eh; subst name.
  - reflexivity.
  - now apply is_prefix_cut.
Qed.

(* ---------- parse_alt: the literal is the text minus a leading ^ and a trailing $ ---------- *)

Definition strip_caret (s : bytes) : bool * bytes :=
  match s with c :: r => if N.eqb c caret then (true, r) else (false, s) | [] => (false, []) end.
Definition strip_dollar (s : bytes) : bool * bytes :=
  match rev s with c :: r => if N.eqb c dollar then (true, rev r) else (false, s) | [] => (false, []) end.

Lemma parse_alt_eq t :
  parse_alt t = {| a_start := fst (strip_caret t);
                   a_lit := snd (strip_dollar (snd (strip_caret t)));
                   a_end := fst (strip_dollar (snd (strip_caret t))) |}.
Proof.
  unfold parse_alt, strip_caret, strip_dollar.
  destruct t as [|c0 r]; [reflexivity|].
  destruct (N.eqb c0 caret); cbn [fst snd].
  - destruct (rev r) as [|d r']; [reflexivity|]. destruct (N.eqb d dollar); reflexivity.
  - destruct (rev (c0 :: r)) as [|d r']; [reflexivity|]. destruct (N.eqb d dollar); reflexivity.
Qed.

Lemma strip_caret_incl c s : In c (snd (strip_caret s)) -> In c s.
Proof.
  unfold strip_caret. destruct s as [|c0 r]; [now cbn|].
  destruct (N.eqb c0 caret); cbn [snd]; intros H; [now right|assumption].
Qed.

Lemma strip_dollar_incl c s : In c (snd (strip_dollar s)) -> In c s.
Proof.
  unfold strip_dollar. destruct (rev s) as [|d r'] eqn:E; [now cbn|].
  destruct (N.eqb d dollar); cbn [snd]; intros H; [|assumption].
  apply in_rev. rewrite E. right. now apply in_rev.
Qed.

(* a slash-free (space-free, ...) alternative text gives a slash-free (space-free, ...) literal *)
Lemma parse_alt_lit_incl c t : In c (a_lit (parse_alt t)) -> In c t.
Proof.
  rewrite parse_alt_eq. cbn [a_lit]. intros H. now apply strip_caret_incl, strip_dollar_incl.
Qed.

Example parse_alt_exact : parse_alt (B "^TestA$") = {| a_start := true; a_lit := B "TestA"; a_end := true |}.
Proof. vm_compute. reflexivity. Qed.

(* ---------- Go's selection for a single-level alternative ---------- *)

Lemma go_alt_selects_single t name :
  ~ In slash t -> go_alt_selects t name = alt_match (parse_alt t) (hd [] (split_slash name)).
Proof.
  intros Hn. unfold go_alt_selects. rewrite split_slash_noslash by assumption. cbn [map].
  destruct (split_slash name) as [|n nr] eqn:E; [now destruct (split_slash_nonempty name)|].
  cbn [go_levels hd]. apply andb_true_r.
Qed.

(* ---------- 1. a prefix literal without '/' and ' ' sees only the first element of the name ---------- *)

Lemma prefix_alt_id a name k :
  a_start a = true -> a_end a = false -> ~ In slash (a_lit a) -> no_space (a_lit a) ->
  alt_match a (snapshot_occ_fmt name k) = alt_match a (hd [] (split_slash name)).
Proof.
  intros Hs He Hsl Hsp. unfold alt_match. rewrite Hs, He.
  unfold snapshot_occ_fmt. change sep with (32%N :: [45%N; 32%N]). cbn [app].
  rewrite is_prefix_cut by exact Hsp. now apply is_prefix_first_elem.
Qed.

(* ---------- 2. an exact literal without ' ' never equals an id ---------- *)

Lemma exact_alt_never a name k :
  a_start a = true -> a_end a = true -> no_space (a_lit a) ->
  alt_match a (snapshot_occ_fmt name k) = false.
Proof.
  intros Hs He Hsp. unfold alt_match. rewrite Hs, He. apply beq_neq. intros Heq.
  apply Hsp. rewrite Heq. unfold snapshot_occ_fmt. apply in_or_app. right.
  change sep with (32%N :: [45%N; 32%N]). cbn [app]. now left.
Qed.

(* ---------- 3. a suffix literal without ' ' lies inside the ordinal: it is all digits ---------- *)

Lemma id_rev name k :
  rev (snapshot_occ_fmt name k) = rev (dec k) ++ 32%N :: ([45%N; 32%N] ++ rev name).
Proof.
  unfold snapshot_occ_fmt. change sep with ([32%N; 45%N; 32%N]).
  rewrite !rev_app_distr. change (rev [32%N; 45%N; 32%N]) with ([32%N; 45%N; 32%N]).
  rewrite <- app_assoc. reflexivity.
Qed.

Lemma dec_all_digits k c : In c (dec k) -> is_digit c = true.
Proof. intros H. exact (proj1 (forallb_forall is_digit (dec k)) (dec_digits k) c H). Qed.

Lemma suffix_space_free_in_ordinal L name k :
  no_space L -> is_suffix L (snapshot_occ_fmt name k) = is_suffix L (dec k).
Proof.
  intros Hsp. unfold is_suffix. rewrite id_rev. apply is_prefix_cut.
  intros Hin. apply Hsp. now apply in_rev.
Qed.

Lemma suffix_alt_nondigit_never a name k :
  a_start a = false -> a_end a = true -> no_space (a_lit a) ->
  (exists c, In c (a_lit a) /\ is_digit c = false) ->
  alt_match a (snapshot_occ_fmt name k) = false.
Proof.
  intros Hs He Hsp [c [Hin Hc]]. unfold alt_match. rewrite Hs, He.
  rewrite suffix_space_free_in_ordinal by assumption.
  destruct (is_suffix (a_lit a) (dec k)) eqn:E; [|reflexivity].
  exfalso. unfold is_suffix in E. apply is_prefix_spec in E as [r Hr].
  assert (Hd : In c (dec k)).
  { apply in_rev. rewrite Hr. apply in_or_app. left. rewrite <- in_rev. exact Hin. }
  apply dec_all_digits in Hd. congruence.
Qed.

(* ---------- 4. the safe class ---------- *)

Definition has_byte (c : N) (l : bytes) : bool := existsb (N.eqb c) l.
Definition has_nondigit (l : bytes) : bool := existsb (fun c => negb (is_digit c)) l.

Definition safe_alt (a : alt) : bool :=
  match a_start a, a_end a with
  | true, false => negb (has_byte slash (a_lit a)) && negb (has_byte 32%N (a_lit a))
  | true, true => negb (has_byte 32%N (a_lit a))
  | false, true => negb (has_byte 32%N (a_lit a)) && has_nondigit (a_lit a)
  | false, false => false
  end.

(* single-level alternatives only *)
Definition safe_pattern (p : bytes) : bool :=
  forallb (fun t => negb (existsb (N.eqb slash) t) && safe_alt (parse_alt t)) (split_bar p).

Lemma has_nondigit_spec l : has_nondigit l = true -> exists c, In c l /\ is_digit c = false.
Proof.
  unfold has_nondigit. intros H. apply existsb_exists in H as [c [Hin Hc]].
  exists c. split; [assumption|]. now apply negb_true_iff.
Qed.

(* a safe alternative that matches the id matches the first element of the name *)
Lemma safe_alt_first a name k :
  safe_alt a = true -> alt_match a (snapshot_occ_fmt name k) = true ->
  alt_match a (hd [] (split_slash name)) = true.
Proof.
  unfold safe_alt, has_byte. intros Hsafe Hm.
  destruct (a_start a) eqn:Hs, (a_end a) eqn:He.
  - apply negb_existsb_eqb in Hsafe.
    rewrite exact_alt_never in Hm by assumption. discriminate.
  - apply andb_prop in Hsafe as [Hsl Hsp].
    apply negb_existsb_eqb in Hsl. apply negb_existsb_eqb in Hsp.
    now rewrite <- (prefix_alt_id a name k) by assumption.
  - apply andb_prop in Hsafe as [Hsp Hnd].
    apply negb_existsb_eqb in Hsp. apply has_nondigit_spec in Hnd.
    rewrite suffix_alt_nondigit_never in Hm by assumption. discriminate.
  - discriminate.
Qed.

Lemma re_match_split p s :
  re_match p s = existsb (fun t => alt_match (parse_alt t) s) (split_bar p).
Proof. unfold re_match, parse_pattern. apply existsb_map_comp. Qed.

(* MAIN THEOREM: for a safe pattern, an id that go-snaps takes for "ran" belongs to a test Go selected.
   (No hypothesis on [name] is needed: the literals are space-free, so they cannot see past the first " - ".) *)
Theorem safe_pattern_sound p name k :
  safe_pattern p = true ->
  re_match p (snapshot_occ_fmt name k) = true -> go_selects p name = true.
Proof.
  intros Hsafe Hm. rewrite re_match_split in Hm. apply existsb_exists in Hm as [t [Hin Ht]].
  unfold safe_pattern in Hsafe. rewrite forallb_forall in Hsafe.
  specialize (Hsafe t Hin). apply andb_prop in Hsafe as [Hsl Hsa].
  apply negb_existsb_eqb in Hsl.
  unfold go_selects. apply existsb_exists. exists t. split; [assumption|].
  rewrite go_alt_selects_single by assumption. now apply (safe_alt_first _ name k).
Qed.

(* ... so the entries of a test the pattern did not select are protected *)
Corollary unselected_entry_protected skipped p name k :
  safe_pattern p = true -> go_selects p name = false ->
  test_skipped_run skipped p (snapshot_occ_fmt name k) = true.
Proof.
  intros Hsafe Hgo. unfold test_skipped_run.
  destruct (re_match p (snapshot_occ_fmt name k)) eqn:E; [|apply orb_true_r].
  rewrite (safe_pattern_sound p name k Hsafe E) in Hgo. discriminate.
Qed.

(* the statements in the shape used elsewhere (names of Go tests contain no space) *)
Corollary safe_pattern_sound_ns p name k :
  safe_pattern p = true -> no_space name ->
  re_match p (snapshot_occ_fmt name k) = true -> go_selects p name = true.
Proof. intros Hsafe _. now apply safe_pattern_sound. Qed.

Corollary unselected_entry_protected_ns skipped p name k :
  safe_pattern p = true -> no_space name -> go_selects p name = false ->
  test_skipped_run skipped p (snapshot_occ_fmt name k) = true.
Proof. intros Hsafe _. now apply unselected_entry_protected. Qed.

(* ---------- 5. pure prefix patterns: the two decisions coincide ---------- *)

Definition prefix_alt (a : alt) : bool :=
  a_start a && negb (a_end a) && negb (has_byte slash (a_lit a)) && negb (has_byte 32%N (a_lit a)).

Definition prefix_pattern (p : bytes) : bool :=
  forallb (fun t => negb (existsb (N.eqb slash) t) && prefix_alt (parse_alt t)) (split_bar p).

Lemma prefix_alt_safe a : prefix_alt a = true -> safe_alt a = true.
Proof.
  unfold prefix_alt, safe_alt. intros H.
  apply andb_prop in H as [H Hsp]. apply andb_prop in H as [H Hsl]. apply andb_prop in H as [Hs He].
  apply negb_true_iff in He. rewrite Hs, He, Hsl, Hsp. reflexivity.
Qed.

Lemma prefix_pattern_safe p : prefix_pattern p = true -> safe_pattern p = true.
Proof.
  unfold prefix_pattern, safe_pattern. rewrite !forallb_forall. intros H t Hin.
  specialize (H t Hin). apply andb_prop in H as [Hsl Hp].
  rewrite Hsl. cbn [andb]. now apply prefix_alt_safe.
Qed.

Theorem prefix_pattern_equiv p name k :
  prefix_pattern p = true ->
  re_match p (snapshot_occ_fmt name k) = go_selects p name.
Proof.
  intros Hp. rewrite re_match_split. unfold go_selects. apply existsb_ext_in. intros t Hin.
  unfold prefix_pattern in Hp. rewrite forallb_forall in Hp.
  specialize (Hp t Hin). apply andb_prop in Hp as [Hsl Hpa].
  apply negb_existsb_eqb in Hsl. rewrite go_alt_selects_single by assumption.
  unfold prefix_alt, has_byte in Hpa.
  apply andb_prop in Hpa as [Hpa Hsp]. apply andb_prop in Hpa as [Hpa Hls]. apply andb_prop in Hpa as [Hs He].
  apply negb_true_iff in He. apply negb_existsb_eqb in Hsp. apply negb_existsb_eqb in Hls.
  now apply prefix_alt_id.
Qed.

(* for a pure prefix pattern go-snaps protects exactly: the skip list, and the tests Go did not select *)
Corollary prefix_pattern_protection skipped p name k :
  prefix_pattern p = true ->
  test_skipped_run skipped p (snapshot_occ_fmt name k)
  = test_skipped skipped (snapshot_occ_fmt name k) || negb (go_selects p name).
Proof. intros Hp. unfold test_skipped_run. now rewrite (prefix_pattern_equiv p name k Hp). Qed.

(* ---------- 6. necessity: outside the class go-snaps says "ran" for a test Go did not select ---------- *)

(* an unanchored literal matches a deeper level of the name *)
Example unsafe_unanchored :
  safe_pattern (B "Sub2") = false /\
  re_match (B "Sub2") (snapshot_occ_fmt (B "TestAlpha/Sub2") 1) = true /\
  go_selects (B "Sub2") (B "TestAlpha/Sub2") = false /\
  test_skipped_run [] (B "Sub2") (snapshot_occ_fmt (B "TestAlpha/Sub2") 1) = false.
Proof. vm_compute. repeat split. Qed.

(* a digit suffix matches the ordinal *)
Example unsafe_digit_suffix :
  safe_pattern (B "1$") = false /\
  re_match (B "1$") (snapshot_occ_fmt (B "TestBeta") 1) = true /\
  go_selects (B "1$") (B "TestBeta") = false /\
  test_skipped_run [] (B "1$") (snapshot_occ_fmt (B "TestBeta") 1) = false.
Proof. vm_compute. repeat split. Qed.

(* a plain digit alternative matches the ordinal (finding K3) *)
Example unsafe_digit_alternative :
  safe_pattern (B "TestZeta|1") = false /\
  re_match (B "TestZeta|1") (snapshot_occ_fmt (B "TestAlpha") 1) = true /\
  go_selects (B "TestZeta|1") (B "TestAlpha") = false /\
  test_skipped_run [] (B "TestZeta|1") (snapshot_occ_fmt (B "TestAlpha") 1) = false.
Proof. vm_compute. repeat split. Qed.

(* the unanchored literal need not be a digit or a sub-test name: it may straddle the " - " *)
Example unsafe_unanchored_separator :
  re_match (B "a - 1") (snapshot_occ_fmt (B "TestAlpha") 1) = true /\
  go_selects (B "a - 1") (B "TestAlpha") = false.
Proof. vm_compute. repeat split. Qed.

(* the side conditions of [safe_alt] are needed too: a space lets an anchored literal reach the separator and the ordinal *)
Example unsafe_prefix_space :
  safe_pattern (B "^TestA -") = false /\
  re_match (B "^TestA -") (snapshot_occ_fmt (B "TestA") 1) = true /\
  go_selects (B "^TestA -") (B "TestA") = false.
Proof. vm_compute. repeat split. Qed.

Example unsafe_exact_space :
  safe_pattern (B "^TestA - 1$") = false /\
  re_match (B "^TestA - 1$") (snapshot_occ_fmt (B "TestA") 1) = true /\
  go_selects (B "^TestA - 1$") (B "TestA") = false.
Proof. vm_compute. repeat split. Qed.

Example unsafe_suffix_space :
  safe_pattern (B "A - 1$") = false /\
  re_match (B "A - 1$") (snapshot_occ_fmt (B "TestA") 1) = true /\
  go_selects (B "A - 1$") (B "TestA") = false.
Proof. vm_compute. repeat split. Qed.

(* the converse of the main theorem fails for exact and suffix alternatives: Go runs the test, go-snaps takes it for
   "did not run" (its entries are protected - the harmless direction) *)
Example safe_not_complete :
  safe_pattern (B "^TestZeta$|Beta$") = true /\
  go_selects (B "^TestZeta$|Beta$") (B "TestZeta") = true /\
  re_match (B "^TestZeta$|Beta$") (snapshot_occ_fmt (B "TestZeta") 1) = false /\
  go_selects (B "^TestZeta$|Beta$") (B "TestBeta") = true /\
  re_match (B "^TestZeta$|Beta$") (snapshot_occ_fmt (B "TestBeta") 1) = false.
Proof. vm_compute. repeat split. Qed.

(* ---------- 7. non-vacuity ---------- *)

Definition ex_pattern : bytes := B "^TestAl|^TestZeta$|Beta$".

Example ex_pattern_safe : safe_pattern ex_pattern = true.
Proof. vm_compute. reflexivity. Qed.

Example ex_names_no_space : no_space (B "TestAlpha/Sub1") /\ no_space (B "TestBeta") /\ no_space (B "TestGamma").
Proof. repeat split; apply existsb_eqb_false; vm_compute; reflexivity. Qed.

(* the hypotheses of the main theorem hold for TestAlpha/Sub1: its entries are "ran" for go-snaps, and Go selected it *)
Example ex_sound_applies : forall k,
  re_match ex_pattern (snapshot_occ_fmt (B "TestAlpha/Sub1") k) = true /\
  go_selects ex_pattern (B "TestAlpha/Sub1") = true.
Proof.
  intros k.
  assert (Hm : re_match ex_pattern (snapshot_occ_fmt (B "TestAlpha/Sub1") k) = true).
  { rewrite re_match_split. change (split_bar ex_pattern) with [B "^TestAl"; B "^TestZeta$"; B "Beta$"].
    cbn [existsb]. apply orb_true_iff. left.
    rewrite prefix_alt_id; [vm_compute; reflexivity | reflexivity | reflexivity | |];
      apply existsb_eqb_false; vm_compute; reflexivity. }
  split; [exact Hm|].
  exact (safe_pattern_sound_ns ex_pattern (B "TestAlpha/Sub1") k ex_pattern_safe (proj1 ex_names_no_space) Hm).
Qed.

(* TestGamma is not selected: every one of its entries is protected, whatever the skip list and the ordinal *)
Example ex_unselected_protected : forall skipped k,
  go_selects ex_pattern (B "TestGamma") = false /\
  test_skipped_run skipped ex_pattern (snapshot_occ_fmt (B "TestGamma") k) = true.
Proof.
  intros skipped k.
  assert (Hgo : go_selects ex_pattern (B "TestGamma") = false) by (vm_compute; reflexivity).
  split; [exact Hgo|].
  exact (unselected_entry_protected_ns skipped ex_pattern (B "TestGamma") k ex_pattern_safe
           (proj2 (proj2 ex_names_no_space)) Hgo).
Qed.

(* TestBeta is selected (Beta$) but its ids never match: protected as well (the harmless direction) *)
Example ex_selected_suffix : forall k,
  go_selects ex_pattern (B "TestBeta") = true /\
  re_match ex_pattern (snapshot_occ_fmt (B "TestBeta") k) = false.
Proof.
  intros k. split; [vm_compute; reflexivity|].
  destruct (re_match ex_pattern (snapshot_occ_fmt (B "TestBeta") k)) eqn:E; [|reflexivity].
  exfalso. rewrite re_match_split in E.
  change (split_bar ex_pattern) with [B "^TestAl"; B "^TestZeta$"; B "Beta$"] in E.
  cbn [existsb] in E. rewrite orb_false_r in E.
  apply orb_true_iff in E as [E|E]; [|apply orb_true_iff in E as [E|E]].
  - rewrite prefix_alt_id in E; [vm_compute in E; discriminate | reflexivity | reflexivity | |];
      apply existsb_eqb_false; vm_compute; reflexivity.
  - rewrite exact_alt_never in E; [discriminate | reflexivity | reflexivity |].
    apply existsb_eqb_false. vm_compute. reflexivity.
  - rewrite suffix_alt_nondigit_never in E; [discriminate | reflexivity | reflexivity | |].
    + apply existsb_eqb_false. vm_compute. reflexivity.
    + exists 66%N. split; [vm_compute; tauto | reflexivity].
Qed.

(* the equivalence on a pure prefix pattern *)
Example ex_prefix_equiv : forall name k,
  re_match (B "^TestAl|^TestZ") (snapshot_occ_fmt name k) = go_selects (B "^TestAl|^TestZ") name.
Proof. intros name k. apply prefix_pattern_equiv. vm_compute. reflexivity. Qed.

Print Assumptions safe_pattern_sound.
Print Assumptions unselected_entry_protected.
Print Assumptions safe_pattern_sound_ns.
Print Assumptions unselected_entry_protected_ns.
Print Assumptions prefix_pattern_equiv.
