(* Outcome-level theorems used by C02, C05, C17, C20. *)
From Coq Require Import String.
From Coq Require Import List NArith Arith Bool Lia.
Import ListNotations.
From Snaps Require Import Base.Bytes Base.Lines Base.Dec Base.Assoc.
From Snaps Require Import Model.Frame Model.PathModel Model.Mode Model.Api.
From Snaps Require Import Proofs.BytesP Proofs.LinesP Proofs.DecP Proofs.FrameP Proofs.DiffDecisionP
  Proofs.ApiP Proofs.StandaloneP Proofs.StepP.

Ltac destruct_call :=
  repeat (match goal with
          | |- context [match alookup ?p ?m with _ => _ end] => destruct (alookup p m) eqn:?
          | |- context [match get_prev ?i ?f with _ => _ end] => destruct (get_prev i f) as [[? ?]|] eqn:?
          | |- context [if ?b then _ else _] => destruct b eqn:?
          end; cbn).

(* ---------- C02: a differing value is never conflated with the stored one ---------- *)

(* what is stored for v0 compares as different from any v1 <> v0 (no escape-token lines) *)
Lemma same_false a v0 v1 :
  v0 <> v1 -> (a <> AJson -> no_token_line v0 /\ no_token_line v1) ->
  same a (snap_of a v0) v1 = false.
Proof.
  intros Hne Htok. destruct a; cbn [same snap_of];
    try (apply diff_empty_false; rewrite !unescape_escape;
         destruct Htok as [H0 H1]; [discriminate|]; intros E; apply Hne;
         now apply unescape_inj_on).
  now apply diff_empty_false.
Qed.

Lemma multi_no_false_pass s a c test v0 v1 n :
  is_standalone a = false ->
  lookup_slot (s_fs s) (multi_path s c test) (multi_id s c test) = Some (snap_of a v0, n) ->
  v0 <> v1 -> (a <> AJson -> no_token_line v0 /\ no_token_line v1) ->
  should_update (s_env s) (c_update c) = false ->
  exists s' o, multi_call s a c test (POk v1) = (s', o) /\
    o_outcome o = Failed EDiff /\ o_errors o = 1 /\ o_logs o = [] /\ o_writes o = [] /\
    s_fs s' = s_fs s.
Proof.
  intros Hst Hl Hne Htok Hup.
  destruct (multi_call_spec s a c test v1 Hst)
    as [s' [o [E [_ [_ [_ [_ [_ [_ [_ [Hm [_ [He Hlg]]]]]]]]]]]]].
  rewrite Hl, (same_false a v0 v1 Hne Htok), Hup in Hm. destruct Hm as [Ho [Hw [Hfs _]]].
  exists s', o. rewrite Ho in He, Hlg. repeat split; assumption.
Qed.

(* ---------- C05: who may write ---------- *)

Lemma should_update_table e u :
  should_update e u =
  negb (ci e) && match u with Some b => b | None => match upd e with UTrue => true | _ => false end end.
Proof. unfold should_update. destruct (ci e), u as [[]|], (upd e); reflexivity. Qed.

Lemma should_create_table e u :
  should_create e u = negb (ci e) && match u with Some b => b | None => true end.
Proof. unfold should_create. destruct (ci e), u as [[]|]; reflexivity. Qed.

Lemma clean_flags_table e sort_opt :
  clean_deletes e = negb (ci e) && match upd e with UTrue | UClean => true | _ => false end /\
  clean_sorts e sort_opt = negb (ci e) && sort_opt.
Proof. unfold clean_deletes, clean_sorts, should_clean_var. destruct (ci e), (upd e), sort_opt; split; reflexivity. Qed.

Lemma api_eq_snap a : a = ASnap \/ a <> ASnap.
Proof. destruct a; [now left|right; discriminate..]. Qed.

(* any Match* step that writes had permission from the mode table, and wrote one file *)
Lemma step_write_permission s a hd test p s' o c :
  nth_error (s_cfgs s) hd = Some c ->
  step s (OMatch a hd test p) = (s', o) ->
  let c' := match a with AStandJson => json_ext c | _ => c end in
  (o_writes o = [] /\ s_fs s' = s_fs s /\ o_outcome o <> Added /\ o_outcome o <> Updated) \/
  (o_outcome o = Added /\ should_create (s_env s) (c_update c') = true /\
     exists k, o_writes o = [(k, o_path o)] /\ k <> WRewrite /\ k <> WRemove) \/
  (o_outcome o = Updated /\ should_update (s_env s) (c_update c') = true /\
     o_writes o = [(WRewrite, o_path o)]).
Proof.
  intros Hc. cbn [step]. rewrite Hc.
  destruct (is_standalone a) eqn:Hst.
  - (* standalone *)
    set (c' := match a with AStandJson => json_ext c | _ => c end).
    destruct p as [| | |text].
    + destruct (stand_call_bad_spec s a c' test PNoValues EInvalid eq_refl)
        as [s2 [o2 [E [H1 [_ [_ [H4 [H5 _]]]]]]]].
      rewrite E. intros [= <- <-]. left. rewrite H1. repeat split; auto; discriminate.
    + destruct (stand_call_bad_spec s a c' test PInvalid EInvalid eq_refl)
        as [s2 [o2 [E [H1 [_ [_ [H4 [H5 _]]]]]]]].
      rewrite E. intros [= <- <-]. left. rewrite H1. repeat split; auto; discriminate.
    + destruct (stand_call_bad_spec s a c' test PMatchErr EMatchers eq_refl)
        as [s2 [o2 [E [H1 [_ [_ [H4 [H5 _]]]]]]]].
      rewrite E. intros [= <- <-]. left. rewrite H1. repeat split; auto; discriminate.
    + destruct (stand_call_spec s a c' test text) as [s2 [o2 [E [Hp [_ [_ [_ [_ [Hm _]]]]]]]]].
      rewrite E. intros [= <- <-]. rewrite Hp.
      destruct (alookup _ _) as [prev|].
      * destruct (diff_empty prev text).
        -- destruct Hm as [H1 [H2 H3]]. left. rewrite H1. repeat split; auto; discriminate.
        -- destruct (should_update _ _) eqn:Hu.
           ++ destruct Hm as [H1 [H2 H3]]. right. right. repeat split; auto.
           ++ destruct Hm as [H1 [H2 H3]]. left. rewrite H1. repeat split; auto; discriminate.
      * destruct (should_create _ _) eqn:Hu.
        -- destruct Hm as [H1 [H2 H3]]. right. left. repeat split; auto.
           exists WCreate. repeat split; auto; discriminate.
        -- destruct Hm as [H1 [H2 H3]]. left. rewrite H1. repeat split; auto; discriminate.
  - (* multi-entry *)
    assert (Hc' : match a with AStandJson => json_ext c | _ => c end = c)
      by (destruct a; try reflexivity; discriminate Hst).
    rewrite Hc'.
    destruct p as [| | |text].
    + destruct (api_eq_snap a) as [->|Hna].
      * cbn. intros [= <- <-]. left. cbn. repeat split; auto; discriminate.
      * assert (Hnw : ~ (a = ASnap /\ PNoValues = PNoValues)) by (intros [H _]; contradiction).
        destruct (multi_call_bad_spec s a c test PNoValues EInvalid Hst eq_refl Hnw)
          as [s2 [o2 [E [H1 [_ [_ [H4 [H5 _]]]]]]]].
        rewrite E. intros [= <- <-]. left. rewrite H1. repeat split; auto; discriminate.
    + assert (Hnw : ~ (a = ASnap /\ PInvalid = PNoValues)) by (intros [_ H]; discriminate H).
      destruct (multi_call_bad_spec s a c test PInvalid EInvalid Hst eq_refl Hnw)
        as [s2 [o2 [E [H1 [_ [_ [H4 [H5 _]]]]]]]].
      rewrite E. intros [= <- <-]. left. rewrite H1. repeat split; auto; discriminate.
    + assert (Hnw : ~ (a = ASnap /\ PMatchErr = PNoValues)) by (intros [_ H]; discriminate H).
      destruct (multi_call_bad_spec s a c test PMatchErr EMatchers Hst eq_refl Hnw)
        as [s2 [o2 [E [H1 [_ [_ [H4 [H5 _]]]]]]]].
      rewrite E. intros [= <- <-]. left. rewrite H1. repeat split; auto; discriminate.
    + destruct (multi_call_spec s a c test text Hst)
        as [s2 [o2 [E [Hp [_ [_ [_ [_ [_ [_ [Hm _]]]]]]]]]]].
      rewrite E. intros [= <- <-]. rewrite Hp.
      destruct (lookup_slot _ _ _) as [[prev line]|].
      * destruct (same a prev text).
        -- destruct Hm as [H1 [H2 [H3 _]]]. left. rewrite H1. repeat split; auto; discriminate.
        -- destruct (should_update _ _) eqn:Hu.
           ++ destruct Hm as [H1 [H2 H3]]. right. right. repeat split; auto.
           ++ destruct Hm as [H1 [H2 [H3 _]]]. left. rewrite H1. repeat split; auto; discriminate.
      * destruct (should_create _ _) eqn:Hu.
        -- destruct Hm as [H1 [H2 H3]]. right. left. repeat split; auto.
           eexists. split; [exact H2|]. destruct (alookup _ _); split; discriminate.
        -- destruct Hm as [H1 [H2 H3]]. left. rewrite H1. repeat split; auto; discriminate.
Qed.

Lemma json_ext_update c : c_update (json_ext c) = c_update c.
Proof. unfold json_ext. destruct (c_ext c); reflexivity. Qed.

(* API operations of a test process (everything except harness-side file/env setup) *)
Definition api_op (o : op) : Prop :=
  match o with
  | OMatch _ _ _ _ | OEndTest _ | OSkip _ | ONewConfig _ _ _ _ | ONewProcess => True
  | _ => False
  end.

Lemma step_env s o : api_op o -> s_env (fst (step s o)) = s_env s.
Proof.
  destruct o as [a hd test p|test|test|fn d ex u|e|pa co|pa|]; cbn [api_op]; try contradiction;
    intros _; cbn [step fst]; try reflexivity.
  - destruct (nth_error (s_cfgs s) hd) as [c|]; [|reflexivity].
    destruct (is_standalone a).
    + unfold stand_call, finish, reg_stand. destruct p; cbn; try reflexivity;
        repeat match goal with |- context [match ?x with _ => _ end] => destruct x eqn:? end; reflexivity.
    + unfold multi_call, finish, reg_multi. destruct a, p; cbn; try reflexivity;
        repeat match goal with |- context [match ?x with _ => _ end] => destruct x eqn:? end; reflexivity.
  - unfold end_test.
    assert (H : forall (l : list (bytes * creset)) st,
               s_env (fold_left (fun st p => apply_reset st (snd p)) l st) = s_env st).
    { induction l as [|x l IH]; intros st; cbn [fold_left]; [reflexivity|].
      rewrite IH. destruct (snd x); reflexivity. }
    now rewrite H.
Qed.

(* on CI no API step writes anything *)
Lemma step_ci_readonly s o :
  api_op o -> ci (s_env s) = true ->
  o_writes (snd (step s o)) = [] /\ s_fs (fst (step s o)) = s_fs s.
Proof.
  intros Ha Hci.
  destruct o as [a hd test p|test|test|fn d ex u|e|pa co|pa|]; cbn [api_op] in Ha; try contradiction.
  - destruct (nth_error (s_cfgs s) hd) as [c|] eqn:Ec; [|cbn [step]; rewrite Ec; split; reflexivity].
    destruct (step s (OMatch a hd test p)) as [s' o] eqn:E. cbn [fst snd].
    destruct (step_write_permission s a hd test p s' o c Ec E) as [[H1 [H2 _]]|[[_ [H _]]|[_ [H _]]]].
    + split; assumption.
    + unfold should_create in H. rewrite Hci in H. discriminate.
    + unfold should_update in H. rewrite Hci in H. discriminate.
  - cbn [step fst snd]. split; [reflexivity|].
    unfold end_test.
    assert (H : forall (l : list (bytes * creset)) st,
               s_fs (fold_left (fun st p => apply_reset st (snd p)) l st) = s_fs st).
    { induction l as [|x l IH]; intros st; cbn [fold_left]; [reflexivity|].
      rewrite IH. destruct (snd x); reflexivity. }
    now rewrite H.
  - cbn. split; reflexivity.
  - cbn. split; reflexivity.
  - cbn. split; reflexivity.
Qed.

Lemma run_ci_readonly ops : forall s,
  Forall api_op ops -> ci (s_env s) = true ->
  Forall (fun o => o_writes o = []) (snd (run s ops)) /\ s_fs (fst (run s ops)) = s_fs s.
Proof.
  induction ops as [|o r IH]; intros s Hok Hci.
  - cbn. split; [constructor|reflexivity].
  - inversion Hok as [|? ? Ho Hr]; subst.
    destruct (step_ci_readonly s o Ho Hci) as [Hw Hfs].
    pose proof (step_env s o Ho) as Henv.
    cbn [run]. destruct (step s o) as [s1 ob] eqn:E. cbn [fst snd] in *.
    assert (Hci1 : ci (s_env s1) = true) by now rewrite Henv.
    destruct (IH s1 Hr Hci1) as [H1 H2].
    destruct (run s1 r) as [s2 obs]. cbn [fst snd] in *.
    split; [constructor; assumption|congruence].
Qed.

(* ---------- C20: exactly one outcome, counters follow ---------- *)

Definition counts_as_outcome (oc : outcome) : bool :=
  match oc with Passed | Added | Updated | Failed _ => true | _ => false end.

Definition signals_of (oc : outcome) : nat * list logkind :=
  match oc with
  | Passed => (0, []) | Added => (0, [LAdded]) | Updated => (0, [LUpdated])
  | Failed _ => (1, []) | Warned => (0, [LWarning]) | SkipLogged => (0, [LSkipped]) | NoCall => (0, [])
  end.

Lemma step_obs_shape s o : (o_errors (snd (step s o)), o_logs (snd (step s o))) = signals_of (o_outcome (snd (step s o))).
Proof.
  destruct o as [a hd test p|test|test|fn d ex u|e|pa co|pa|]; cbn [step]; try reflexivity.
  destruct (nth_error (s_cfgs s) hd) as [c|]; [|reflexivity].
  destruct (is_standalone a).
  - unfold stand_call, finish, reg_stand. destruct p; cbn; try reflexivity;
      repeat match goal with |- context [match ?x with _ => _ end] => destruct x eqn:? end; reflexivity.
  - unfold multi_call, finish, reg_multi. destruct a, p; cbn; try reflexivity;
      repeat match goal with |- context [match ?x with _ => _ end] => destruct x eqn:? end; reflexivity.
Qed.

(* every Match* call with a value ends in exactly one of passed/added/updated/failed *)
Lemma match_one_outcome s a hd test p c :
  nth_error (s_cfgs s) hd = Some c -> ~ (a = ASnap /\ p = PNoValues) ->
  counts_as_outcome (o_outcome (snd (step s (OMatch a hd test p)))) = true.
Proof.
  intros Hc Hnw. cbn [step]. rewrite Hc.
  destruct (is_standalone a) eqn:Hst.
  - unfold stand_call, finish, reg_stand. destruct p; cbn; try reflexivity;
      repeat match goal with |- context [match ?x with _ => _ end] => destruct x eqn:? end; reflexivity.
  - unfold multi_call, finish, reg_multi.
    destruct a, p; try discriminate Hst; try (exfalso; apply Hnw; split; reflexivity);
      cbn; try reflexivity;
      repeat match goal with |- context [match ?x with _ => _ end] => destruct x eqn:? end; reflexivity.
Qed.

Lemma step_events s o :
  api_op o -> o <> ONewProcess ->
  s_events (fst (step s o)) = bump (o_outcome (snd (step s o))) (s_events s) /\
  length (s_skipped (fst (step s o))) =
    length (s_skipped s) + (match o_outcome (snd (step s o)) with SkipLogged => 1 | _ => 0 end).
Proof.
  intros Ha Hnp.
  destruct o as [a hd test p|test|test|fn d ex u|e|pa co|pa|]; cbn [api_op] in Ha; try contradiction;
    try congruence; cbn [step].
  - destruct (nth_error (s_cfgs s) hd) as [c|]; [|cbn; split; [reflexivity|lia]].
    destruct (is_standalone a).
    + unfold stand_call, finish, reg_stand. destruct p; cbn; try (split; [reflexivity|lia]);
        destruct_call; split; try reflexivity; lia.
    + unfold multi_call, finish, reg_multi. destruct a, p; cbn; try (split; [reflexivity|lia]);
        destruct_call; split; try reflexivity; lia.
  - cbn [fst snd]. unfold end_test.
    assert (H : forall (l : list (bytes * creset)) st,
               s_events (fold_left (fun st p => apply_reset st (snd p)) l st) = s_events st /\
               s_skipped (fold_left (fun st p => apply_reset st (snd p)) l st) = s_skipped st).
    { induction l as [|x l IH]; intros st; cbn [fold_left]; [split; reflexivity|].
      destruct (IH (apply_reset st (snd x))) as [H1 H2]. rewrite H1, H2.
      destruct (snd x); split; reflexivity. }
    destruct (H (filter (fun p => beq (fst p) test) (s_pending s))
                (set_pending s (filter (fun p => negb (beq (fst p) test)) (s_pending s)))) as [H1 H2].
    rewrite H1, H2. cbn. split; [reflexivity|lia].
  - cbn. rewrite app_length. cbn. split; [reflexivity|lia].
  - cbn. split; [reflexivity|lia].
Qed.

Definition tally (obs : list obs) (c : counters) : counters :=
  fold_left (fun c o => bump (o_outcome o) c) obs c.

Definition count_skips (obs : list obs) : nat :=
  length (filter (fun o => match o_outcome o with SkipLogged => true | _ => false end) obs).

(* the counters after any history are the tally of the outcomes, the skip list length is the
   number of snaps.Skip* calls *)
Lemma run_counters ops : forall s,
  Forall api_op ops -> ~ In ONewProcess ops ->
  s_events (fst (run s ops)) = tally (snd (run s ops)) (s_events s) /\
  length (s_skipped (fst (run s ops))) = length (s_skipped s) + count_skips (snd (run s ops)).
Proof.
  induction ops as [|o r IH]; intros s Hok Hnp.
  - cbn. split; [reflexivity|lia].
  - inversion Hok as [|? ? Ho Hr]; subst.
    assert (Hne : o <> ONewProcess) by (intros ->; apply Hnp; now left).
    destruct (step_events s o Ho Hne) as [He Hs].
    cbn [run]. destruct (step s o) as [s1 ob] eqn:E. cbn [fst snd] in *.
    destruct (IH s1 Hr) as [H1 H2]; [intros Hin; apply Hnp; now right|].
    destruct (run s1 r) as [s2 obs]. cbn [fst snd] in *.
    unfold tally, count_skips in *. cbn [fold_left filter]. rewrite <- He. split; [assumption|].
    rewrite H2, Hs. destruct (o_outcome ob); cbn [length]; lia.
Qed.
