(* YAML snapshots: the document bytes are stored verbatim up to terminator escaping (C18). *)
From Coq Require Import String.
From Coq Require Import List NArith Arith Bool Lia.
Import ListNotations.
From Snaps Require Import Base.Bytes Base.Lines Model.Frame Model.Api.
From Snaps Require Import Base.Assoc Model.Mode Proofs.BytesP Proofs.LinesP Proofs.FrameP Proofs.DiffDecisionP Proofs.ApiP Proofs.StandaloneP Proofs.StepP.

(* escaping changes exactly the lines equal to `---` *)
Lemma escape_only_end_lines y :
  split_nl (escape y) = map (fun l => if beq l endseq then token else l) (split_nl y).
Proof. apply escape_lines. Qed.

(* a document without an escape-token line comes back byte for byte from store + compare *)
Lemma yaml_verbatim y : no_token_line y -> unescape (escape y) = y.
Proof. intros H. rewrite unescape_escape. now apply unescape_id. Qed.

(* in any case the stored form replays against the same document *)
Lemma yaml_replays y : same AYaml (snap_of AYaml y) y = true.
Proof. apply same_snap. Qed.

(* final newline present or absent: the reader trims exactly the newline the writer added *)
Lemma yaml_final_newline f tid y n :
  get_prev tid f = Some (escape y, n) -> unescape (fst (escape y, n)) = unescape y.
Proof. intros _. cbn. apply unescape_escape. Qed.

Lemma yaml_invalid s c test :
  exists s' o, multi_call s AYaml c test PInvalid = (s', o) /\
    o_outcome o = Failed EInvalid /\ o_errors o = 1 /\ o_logs o = [] /\ o_writes o = [] /\
    s_fs s' = s_fs s /\ o_id o = multi_id s c test /\ o_path o = multi_path s c test /\
    get2 (s_running s') (multi_path s c test, test) = S (get2 (s_running s) (multi_path s c test, test)) /\
    s_events s' = bump (Failed EInvalid) (s_events s).
Proof.
  apply multi_call_bad_spec; [reflexivity|reflexivity|]. intros [H _]. discriminate H.
Qed.
