(* SchedP: lemmas on the interleaving model of concurrent Match* calls (Model/Sched.v). *)
From Coq Require Import List NArith Arith Bool Lia Permutation.
Import ListNotations.
From Snaps Require Import Base.Bytes Base.Lines Model.Frame Model.Sched Model.SchedSpec.
From Snaps Require Import Proofs.BytesP Proofs.LinesP Proofs.FrameP Proofs.IsolationP.

(* ================================================================== *)
(* 0. lists: replacing the n-th element                                *)
(* ================================================================== *)

Lemma set_nth_split {A} (l : list A) g t x :
  nth_error l g = Some t ->
  exists l1 l2, l = l1 ++ t :: l2 /\ length l1 = g /\ set_nth g x l = l1 ++ x :: l2.
Proof.
  revert g. induction l as [|y l IH]; intros [|g] Hn; cbn in Hn; try discriminate.
  - injection Hn as ->. exists [], l. repeat split.
  - destruct (IH g Hn) as [l1 [l2 [-> [Hlen Hs]]]].
    exists (y :: l1), l2. cbn. rewrite Hs, Hlen. repeat split.
Qed.

Lemma nth_error_set_nth_eq {A} (l : list A) g t x :
  nth_error l g = Some t -> nth_error (set_nth g x l) g = Some x.
Proof.
  revert g. induction l as [|y l IH]; intros [|g] Hn; cbn in *; try discriminate; auto.
Qed.

Lemma nth_error_set_nth_neq {A} (l : list A) g g' x :
  g' <> g -> nth_error (set_nth g x l) g' = nth_error l g'.
Proof.
  revert g g'. induction l as [|y l IH]; intros g g' Hne; [reflexivity|].
  destruct g as [|g], g' as [|g']; cbn; try reflexivity; try congruence.
  apply IH. congruence.
Qed.

Lemma length_set_nth {A} (l : list A) g x : length (set_nth g x l) = length l.
Proof. revert g. induction l as [|y l IH]; intros [|g]; cbn; auto. Qed.

Lemma map_set_nth {A B} (f : A -> B) (l : list A) g x :
  map f (set_nth g x l) = set_nth g (f x) (map f l).
Proof. revert g. induction l as [|y l IH]; intros [|g]; cbn; auto. now rewrite IH. Qed.

Lemma set_nth_same {A} (l : list A) g t : nth_error l g = Some t -> set_nth g t l = l.
Proof.
  revert g. induction l as [|y l IH]; intros [|g] Hn; cbn in *; try discriminate.
  - now injection Hn as ->.
  - now rewrite IH.
Qed.

(* the thread that moved, or an untouched one *)
Lemma nth_error_set_nth_cases {A} (l : list A) g t x g' y :
  nth_error l g = Some t -> nth_error (set_nth g x l) g' = Some y ->
  (g' = g /\ y = x) \/ (g' <> g /\ nth_error l g' = Some y).
Proof.
  intros Hn Hy. destruct (Nat.eq_dec g' g) as [->|Hne].
  - left. rewrite (nth_error_set_nth_eq _ _ _ _ Hn) in Hy. now injection Hy as <-.
  - right. now rewrite nth_error_set_nth_neq in Hy.
Qed.

Lemma concat_map_set_nth_same {A B} (f : A -> list B) (l : list A) g t t' :
  nth_error l g = Some t -> f t' = f t ->
  concat (map f (set_nth g t' l)) = concat (map f l).
Proof.
  intros Hn Hf. destruct (set_nth_split l g t t' Hn) as [l1 [l2 [-> [_ ->]]]].
  rewrite !map_app. cbn [map]. now rewrite Hf.
Qed.

Lemma concat_map_set_nth_perm {A B} (f : A -> list B) (l : list A) g t t' x :
  nth_error l g = Some t -> f t = x :: f t' ->
  Permutation (concat (map f l)) (x :: concat (map f (set_nth g t' l))).
Proof.
  intros Hn Hf. destruct (set_nth_split l g t t' Hn) as [l1 [l2 [-> [_ ->]]]].
  rewrite !map_app, !concat_app. cbn [map concat]. rewrite Hf. cbn [app].
  symmetry. apply Permutation_middle.
Qed.

(* ================================================================== *)
(* 1. one step, inverted                                               *)
(* ================================================================== *)

Lemma sched_step_inv p c g c' :
  sched_step p c g = Some c' ->
  exists t k rest,
    nth_error (g_threads c) g = Some t /\ t_calls t = k :: rest /\
    enabled (g_sh c) g (ev_at k (t_pc t) (t_read t)) = true /\
    c' = {| g_sh := apply_ev (g_sh c) g (ev_at k (t_pc t) (t_read t));
            g_threads := set_nth g (advance p (g_sh c) t) (g_threads c) |}.
Proof.
  unfold sched_step, next_ev. intros H.
  destruct (nth_error (g_threads c) g) as [t|] eqn:Hn; [|discriminate].
  destruct (t_calls t) as [|k rest] eqn:Hc; [discriminate|].
  destruct (enabled (g_sh c) g (ev_at k (t_pc t) (t_read t))) eqn:He; [|discriminate].
  injection H as <-. exists t, k, rest. repeat split; assumption.
Qed.

Lemma run_sched_app p c s1 s2 :
  run_sched p c (s1 ++ s2) =
  match run_sched p c s1 with Some c' => run_sched p c' s2 | None => None end.
Proof.
  revert c. induction s1 as [|g s1 IH]; intros c; [reflexivity|]. cbn [app run_sched].
  destruct (sched_step p c g); [apply IH|reflexivity].
Qed.

(* an invariant of single steps is an invariant of schedules *)
Lemma run_sched_ind (P : cfg -> Prop) p :
  (forall c g c', P c -> sched_step p c g = Some c' -> P c') ->
  forall sch c c', P c -> run_sched p c sch = Some c' -> P c'.
Proof.
  intros Hstep. induction sch as [|g sch IH]; intros c c' Hc Hr; cbn in Hr.
  - now injection Hr as <-.
  - destruct (sched_step p c g) as [c1|] eqn:Hs; [|discriminate].
    eapply IH; [|exact Hr]. eapply Hstep; eassumption.
Qed.

(* ================================================================== *)
(* 2. the lock words agree with the program counters (Repaired)        *)
(* ================================================================== *)

Lemma count_r_set_nth ths g t t' :
  nth_error ths g = Some t ->
  count_r (set_nth g t' ths) + (if holds_r t then 1 else 0) =
  count_r ths + (if holds_r t' then 1 else 0).
Proof.
  intros Hn. destruct (set_nth_split ths g t t' Hn) as [l1 [l2 [-> [_ ->]]]].
  unfold count_r. rewrite !filter_app, !app_length. cbn [filter].
  destruct (holds_r t), (holds_r t'); cbn [length]; lia.
Qed.

Lemma count_r_pos ths g t : nth_error ths g = Some t -> holds_r t = true -> 0 < count_r ths.
Proof.
  intros Hn Hr. destruct (set_nth_split ths g t t Hn) as [l1 [l2 [-> _]]].
  unfold count_r. rewrite filter_app, app_length. cbn [filter]. rewrite Hr. cbn [length]. lia.
Qed.

Lemma count_r_zero ths g t : count_r ths = 0 -> nth_error ths g = Some t -> holds_r t = false.
Proof.
  intros Hz Hn. destruct (holds_r t) eqn:E; [|reflexivity].
  pose proof (count_r_pos _ _ _ Hn E). lia.
Qed.

Lemma quiescent_lock_inv c : quiescent c -> lock_inv c.
Proof.
  intros [Hr [Hw Hall]]. unfold lock_inv. rewrite Hr, Hw.
  assert (Hpc : forall g t, nth_error (g_threads c) g = Some t -> t_pc t = PIdle).
  { intros g t Hn. rewrite Forall_forall in Hall. apply Hall. eapply nth_error_In; eassumption. }
  split; [|split; [|split]].
  - unfold count_r. symmetry. apply length_zero_iff_nil.
    induction (g_threads c) as [|t l IH]; [reflexivity|]. cbn [filter].
    inversion Hall as [|? ? Ht Hl]; subst. unfold holds_r at 1. rewrite Ht. apply IH; [assumption|].
    intros g t' Hn. apply (Hpc (S g)). exact Hn.
  - intros g t Hn Hh. unfold holds_w in Hh. rewrite (Hpc _ _ Hn) in Hh. discriminate.
  - intros g Hg. discriminate.
  - intros _. reflexivity.
Qed.

Lemma init_quiescent f prog : quiescent (init_cfg f prog).
Proof.
  unfold quiescent, init_cfg. cbn. repeat split. apply Forall_forall.
  intros t Ht. apply in_map_iff in Ht as [cs [<- _]]. reflexivity.
Qed.

Lemma holds_disjoint t : holds_r t = true -> holds_w t = true -> False.
Proof. unfold holds_r, holds_w. destruct (t_pc t); discriminate. Qed.

(* effect of one event of a thread on the lock words, as a function of what the thread
   holds before and after *)
Lemma step_locks s g t k rest :
  t_calls t = k :: rest ->
  enabled s g (ev_at k (t_pc t) (t_read t)) = true ->
  (holds_r t = true -> 0 < rlocks s) ->
  (holds_w t = true -> wlock s = Some g) ->
  rlocks (apply_ev s g (ev_at k (t_pc t) (t_read t))) + (if holds_r t then 1 else 0) =
    rlocks s + (if holds_r (advance Repaired s t) then 1 else 0) /\
  wlock (apply_ev s g (ev_at k (t_pc t) (t_read t))) =
    (if holds_w (advance Repaired s t) then Some g
     else if holds_w t then None else wlock s) /\
  (holds_w t = false -> holds_w (advance Repaired s t) = true ->
   wlock s = None /\ rlocks s = 0) /\
  (holds_r t = false -> holds_r (advance Repaired s t) = true -> wlock s = None).
Proof.
  intros Hcalls Hen Hpos Hme. unfold holds_r, holds_w in *. unfold advance. rewrite Hcalls.
  destruct (t_pc t) eqn:Hpc; cbn [ev_at] in *;
    try (destruct (decide k (t_read t)) as [| |o]);
    cbn [set_pc set_pc_read finish_call t_pc apply_ev set_file rlocks wlock];
    unfold enabled in Hen;
    try (specialize (Hpos eq_refl)); try (specialize (Hme eq_refl));
    (split; [lia|split; [first [reflexivity|exact Hme]|split; intros H1 H2; try discriminate]]);
    destruct (wlock s); try discriminate; try (apply Nat.eqb_eq in Hen); auto.
Qed.

Lemma lock_inv_step c g c' :
  lock_inv c -> sched_step Repaired c g = Some c' -> lock_inv c'.
Proof.
  intros [Hcnt [Hw1 [Hw2 Hw0]]] Hs.
  destruct (sched_step_inv _ _ _ _ Hs) as [t [k [rest [Hn [Hcalls [Hen ->]]]]]].
  pose proof (count_r_set_nth (g_threads c) g t (advance Repaired (g_sh c) t) Hn) as Hc2.
  assert (Hpos : holds_r t = true -> 0 < rlocks (g_sh c)).
  { intros Hr. rewrite Hcnt. eapply count_r_pos; eassumption. }
  destruct (step_locks (g_sh c) g t k rest Hcalls Hen Hpos (Hw1 _ _ Hn)) as [HA [HB [HC HD]]].
  set (t' := advance Repaired (g_sh c) t) in *.
  set (s' := apply_ev (g_sh c) g (ev_at k (t_pc t) (t_read t))) in *.
  unfold lock_inv. cbn [g_sh g_threads].
  split; [|split; [|split]].
  - lia.
  - intros g' t2 Hy Hh.
    destruct (nth_error_set_nth_cases _ _ _ _ _ _ Hn Hy) as [[-> ->]|[Hne Hy']].
    + rewrite HB, Hh. reflexivity.
    + pose proof (Hw1 _ _ Hy' Hh) as Ho. rewrite HB.
      destruct (holds_w t') eqn:E'; destruct (holds_w t) eqn:E.
      * pose proof (Hw1 _ _ Hn E). congruence.
      * destruct (HC eq_refl eq_refl). congruence.
      * pose proof (Hw1 _ _ Hn E). congruence.
      * exact Ho.
  - intros g' Hg'. rewrite HB in Hg'.
    destruct (holds_w t') eqn:E'.
    + injection Hg' as <-. exists t'. split; [eapply nth_error_set_nth_eq; exact Hn|exact E'].
    + destruct (holds_w t) eqn:E; [discriminate|].
      destruct (Hw2 _ Hg') as [t2 [Hy2 Hh2]].
      assert (Hne : g' <> g) by (intros ->; congruence).
      exists t2. split; [rewrite nth_error_set_nth_neq by exact Hne; exact Hy2|exact Hh2].
  - intros Hnn. rewrite HB in Hnn.
    destruct (holds_w t') eqn:E'.
    + assert (Hr' : holds_r t' = false).
      { destruct (holds_r t') eqn:R; [|reflexivity]. destruct (holds_disjoint _ R E'). }
      rewrite Hr' in HA.
      destruct (holds_w t) eqn:E.
      * assert (Hr : holds_r t = false).
        { destruct (holds_r t) eqn:R; [|reflexivity]. destruct (holds_disjoint _ R E). }
        rewrite Hr in HA. pose proof (Hw1 _ _ Hn E) as Hg.
        assert (rlocks (g_sh c) = 0) by (apply Hw0; congruence). lia.
      * destruct (HC eq_refl eq_refl) as [_ Hz]. destruct (holds_r t); lia.
    + destruct (holds_w t) eqn:E; [congruence|].
      pose proof (Hw0 Hnn) as Hz.
      destruct (holds_r t) eqn:R; [specialize (Hpos eq_refl); lia|].
      destruct (holds_r t') eqn:R'; [|lia].
      pose proof (HD eq_refl eq_refl). congruence.
Qed.

Lemma lock_inv_run c sch c' :
  lock_inv c -> run_sched Repaired c sch = Some c' -> lock_inv c'.
Proof. apply (run_sched_ind lock_inv Repaired). intros ? ? ?. apply lock_inv_step. Qed.

(* a writer excludes every other reader and writer *)
Lemma lock_inv_mutex c g t g' t' :
  lock_inv c ->
  nth_error (g_threads c) g = Some t -> holds_w t = true ->
  nth_error (g_threads c) g' = Some t' -> g' <> g ->
  holds_r t' = false /\ holds_w t' = false.
Proof.
  intros [Hcnt [Hw1 [Hw2 Hw0]]] Hn Hh Hn' Hne.
  pose proof (Hw1 _ _ Hn Hh) as Hg. split.
  - eapply count_r_zero; [|exact Hn']. rewrite <- Hcnt. apply Hw0. congruence.
  - destruct (holds_w t') eqn:E; [|reflexivity]. pose proof (Hw1 _ _ Hn' E). congruence.
Qed.

(* a reader excludes every writer *)
Lemma lock_inv_reader c g t g' t' :
  lock_inv c ->
  nth_error (g_threads c) g = Some t -> holds_r t = true ->
  nth_error (g_threads c) g' = Some t' -> holds_w t' = false.
Proof.
  intros Hinv Hn Hr Hn'. destruct (holds_w t') eqn:E; [|reflexivity].
  destruct (Nat.eq_dec g g') as [->|Hne].
  - rewrite Hn in Hn'. injection Hn' as <-. destruct (holds_disjoint _ Hr E).
  - destruct (lock_inv_mutex c g' t' g t Hinv Hn' E Hn Hne). congruence.
Qed.

(* TARGET 1.  Repaired protocol: in every configuration reachable from a configuration in
   which no lock is held (all goroutines between two calls), if goroutine [g] is between
   ELock and EUnlock (holds_w) then no other goroutine is between ERLock and ERUnlock
   (holds_r) or between ELock and EUnlock. *)
Theorem mutual_exclusion c0 sch c g t g' t' :
  quiescent c0 ->
  run_sched Repaired c0 sch = Some c ->
  nth_error (g_threads c) g = Some t -> holds_w t = true ->
  nth_error (g_threads c) g' = Some t' -> g' <> g ->
  holds_r t' = false /\ holds_w t' = false.
Proof.
  intros Hq Hr. apply lock_inv_mutex. eapply lock_inv_run; [|exact Hr].
  now apply quiescent_lock_inv.
Qed.

Corollary mutual_exclusion_init f prog sch c g t g' t' :
  run_sched Repaired (init_cfg f prog) sch = Some c ->
  nth_error (g_threads c) g = Some t -> holds_w t = true ->
  nth_error (g_threads c) g' = Some t' -> g' <> g ->
  holds_r t' = false /\ holds_w t' = false.
Proof. apply mutual_exclusion, init_quiescent. Qed.

(* the lock words themselves: a held write lock means no read lock is held *)
Corollary writer_excludes_readers c0 sch c :
  quiescent c0 -> run_sched Repaired c0 sch = Some c ->
  wlock (g_sh c) <> None -> rlocks (g_sh c) = 0.
Proof.
  intros Hq Hr. assert (Hinv : lock_inv c).
  { eapply lock_inv_run; [|exact Hr]. now apply quiescent_lock_inv. }
  destruct Hinv as [_ [_ [_ H]]]. exact H.
Qed.

(* ================================================================== *)
(* 3. TARGET 2: the Pinned protocol loses and tears entries            *)
(* ================================================================== *)

(* Goroutine 0 (A) updates its existing entry, goroutine 1 (B) creates a new one.
   B's unlocked append lands between A's ERead and A's ETrunc: both calls report success
   (updated / added), B's entry is not in the final file. *)
Lemma pinned_refuted :
  exists c,
    run_sched Pinned (init_cfg ex_file ex_prog) ex_sched_lost = Some c /\
    finished c = true /\
    outcomes c = [[OUpdated]; [OAdded]] /\
    final_file c = Some (frame ex_tidA ex_new) /\
    get_prev ex_tidB (content (final_file c)) = None.
Proof. eexists. split; [vm_compute; reflexivity|]. vm_compute. repeat split. Qed.

(* Torn variant: B's append lands between A's ETrunc and A's EWrite; A's write at offset 0
   overwrites the head of B's frame and the tail of B's frame is left behind. *)
Lemma pinned_refuted_torn :
  exists c,
    run_sched Pinned (init_cfg ex_file ex_prog) ex_sched_torn = Some c /\
    finished c = true /\
    outcomes c = [[OUpdated]; [OAdded]] /\
    final_file c = Some (frame ex_tidA ex_new ++ ex_residue) /\
    get_prev ex_tidB (content (final_file c)) = None.
Proof. eexists. split; [vm_compute; reflexivity|]. vm_compute. repeat split. Qed.

(* every serial order of the two calls keeps both entries *)
Lemma pinned_serial_keeps_both :
  (let (f, os) := run_serial Pinned ex_file [(0, ex_callA); (1, ex_callB)] in
   os = [(0, OUpdated); (1, OAdded)] /\
   option_map fst (get_prev ex_tidB (content f)) = Some ex_snapB /\
   option_map fst (get_prev ex_tidA (content f)) = Some ex_new) /\
  (let (f, os) := run_serial Pinned ex_file [(1, ex_callB); (0, ex_callA)] in
   os = [(1, OAdded); (0, OUpdated)] /\
   option_map fst (get_prev ex_tidB (content f)) = Some ex_snapB /\
   option_map fst (get_prev ex_tidA (content f)) = Some ex_new).
Proof. vm_compute. repeat split. Qed.

(* the Repaired protocol blocks both schedules (B's ELock is not enabled) *)
Lemma repaired_blocks_counterexamples :
  run_sched Repaired (init_cfg ex_file ex_prog) ex_sched_lost = None /\
  run_sched Repaired (init_cfg ex_file ex_prog) ex_sched_torn = None.
Proof. vm_compute. split; reflexivity. Qed.

(* ================================================================== *)
(* 4. TARGET 4: atomic counter increments commute                      *)
(* ================================================================== *)

Lemma tally_bump_comm a b c : tally_bump a (tally_bump b c) = tally_bump b (tally_bump a c).
Proof. destruct a, b; reflexivity. Qed.

Lemma tally_fold_perm (l l' : list (nat * soutcome)) :
  Permutation l l' ->
  forall c, fold_left (fun c x => tally_bump (snd x) c) l c =
            fold_left (fun c x => tally_bump (snd x) c) l' c.
Proof.
  induction 1 as [|x l l' _ IH|x y l|l l' l'' _ IH1 _ IH2]; intros c; cbn [fold_left].
  - reflexivity.
  - apply IH.
  - now rewrite tally_bump_comm.
  - now rewrite IH1.
Qed.

(* any two interleavings of the same increments give the same counters *)
Theorem counters_commute (l l' : list (nat * soutcome)) :
  Permutation l l' -> tally_of l = tally_of l'.
Proof. intros H. unfold tally_of. now apply tally_fold_perm. Qed.

Lemma tally_fold_counts (l : list (nat * soutcome)) c :
  let r := fold_left (fun c x => tally_bump (snd x) c) l c in
  k_passed r = k_passed c + length (filter (is_o OPassed) l) /\
  k_added r = k_added c + length (filter (is_o OAdded) l) /\
  k_updated r = k_updated c + length (filter (is_o OUpdated) l) /\
  k_erred r = k_erred c + length (filter is_err l).
Proof.
  revert c. induction l as [|[g o] l IH]; intros c; cbn [fold_left filter snd].
  - cbn. lia.
  - specialize (IH (tally_bump o c)). cbn zeta in IH. cbn zeta.
    destruct IH as [H1 [H2 [H3 H4]]]. rewrite H1, H2, H3, H4.
    unfold is_o, is_err. cbn [snd]. destruct o; cbn; lia.
Qed.

(* ... namely the multiset counts *)
Theorem counters_count (l : list (nat * soutcome)) :
  k_passed (tally_of l) = length (filter (is_o OPassed) l) /\
  k_added (tally_of l) = length (filter (is_o OAdded) l) /\
  k_updated (tally_of l) = length (filter (is_o OUpdated) l) /\
  k_erred (tally_of l) = length (filter is_err l).
Proof. apply (tally_fold_counts l tally0). Qed.

(* ================================================================== *)
(* 5. entries-level effect of a sequence of calls                      *)
(* ================================================================== *)

Lemma render_snoc es e : render (es ++ [e]) = render es ++ frame (fst e) (snd e).
Proof.
  unfold render, render_lines. rewrite flat_map_app, unlines_app. cbn [flat_map].
  rewrite app_nil_r. unfold entry_lines. now rewrite <- frame_unlines.
Qed.

Lemma lookup_entry_snoc h es e :
  lookup_entry h (es ++ [e]) =
  match lookup_entry h es with
  | Some b => Some b
  | None => if beq (fst e) h then Some (snd e) else None
  end.
Proof.
  induction es as [|x es IH]; cbn [app lookup_entry]; [reflexivity|].
  destruct (beq (fst x) h); [reflexivity|exact IH].
Qed.

Lemma lookup_entry_none_ids h es : lookup_entry h es = None -> ~ In h (map fst es).
Proof.
  induction es as [|x es IH]; cbn [lookup_entry map]; [intros _ []|].
  destruct (beq_spec (fst x) h) as [E|Hne]; [discriminate|].
  intros Hl [Hx|Hin]; [congruence|now apply IH].
Qed.

Lemma no_collision_snoc h es e :
  no_collision h es -> ~ In h (split_nl (snd e)) -> no_collision h (es ++ [e]).
Proof.
  intros Hes He. unfold no_collision. apply Forall_app. split; [exact Hes|].
  constructor; [exact He|constructor].
Qed.

Section Entries.
  Variable H : list bytes.
  Variable es0 : list entry.
  Hypothesis Hwf0 : Forall wf_entry es0.
  Hypothesis Hnc0 : no_collisions H es0.

  Lemma es_of_snoc l c : es_of es0 (l ++ [c]) = apply_call es0 (es_of es0 l) c.
  Proof. unfold es_of. now rewrite fold_left_app. Qed.

  Lemma es_of_cons_gen es l c :
    fold_left (apply_call es0) (c :: l) es = fold_left (apply_call es0) l (apply_call es0 es c).
  Proof. reflexivity. Qed.

  Lemma is_writer_false c :
    is_writer es0 c = false -> spec_outcome es0 c <> OAdded /\ spec_outcome es0 c <> OUpdated.
  Proof.
    unfold is_writer, is_added, is_updated. destruct (spec_outcome es0 c); cbn; intros Hw;
      try discriminate; split; discriminate.
  Qed.

  Lemma apply_call_nonwriter es c : is_writer es0 c = false -> apply_call es0 es c = es.
  Proof.
    unfold is_writer, is_added, is_updated, apply_call.
    destruct (spec_outcome es0 c); cbn; intros Hw; try discriminate; reflexivity.
  Qed.

  (* one call leaves every other header alone *)
  Lemma apply_call_lookup_other es c h :
    (is_writer es0 c = true -> cl_tid c <> h) ->
    lookup_entry h (apply_call es0 es c) = lookup_entry h es.
  Proof.
    intros Hne. destruct (is_writer es0 c) eqn:Hw.
    - specialize (Hne eq_refl). unfold apply_call.
      destruct (spec_outcome es0 c); try reflexivity.
      + rewrite lookup_entry_snoc. cbn [fst snd].
        destruct (lookup_entry h es); [reflexivity|].
        destruct (beq_spec (cl_tid c) h); [contradiction|reflexivity].
      + apply lookup_replace_other. congruence.
    - now rewrite apply_call_nonwriter.
  Qed.

  (* headers not addressed by a writing call keep their entry *)
  Lemma es_lookup_untouched l h :
    (forall c, In c l -> is_writer es0 c = true -> cl_tid c <> h) ->
    lookup_entry h (es_of es0 l) = lookup_entry h es0.
  Proof.
    induction l as [|c l IH] using rev_ind; intros Hl; [reflexivity|].
    rewrite es_of_snoc, apply_call_lookup_other.
    - apply IH. intros c' Hin. apply Hl. apply in_or_app. now left.
    - apply Hl. apply in_or_app. right. now left.
  Qed.

  Lemma es_lookup_fresh l h :
    ~ In h (map cl_tid l) -> lookup_entry h (es_of es0 l) = lookup_entry h es0.
  Proof.
    intros Hni. apply es_lookup_untouched. intros c Hin _ E. apply Hni.
    rewrite <- E. now apply in_map.
  Qed.

  Lemma apply_call_wf es c :
    Forall wf_entry es -> ok_call H c -> Forall wf_entry (apply_call es0 es c).
  Proof.
    intros Hes [_ [Hw _]]. unfold apply_call. destruct (spec_outcome es0 c); try exact Hes.
    - apply Forall_app. split; [exact Hes|]. constructor; [exact Hw|constructor].
    - now apply replace_wf.
  Qed.

  Lemma apply_call_nc es c :
    no_collisions H es -> ok_call H c -> no_collisions H (apply_call es0 es c).
  Proof.
    intros Hes [_ [_ Hs]] h Hh. specialize (Hes h Hh). specialize (Hs h Hh).
    unfold apply_call. destruct (spec_outcome es0 c); try exact Hes.
    - now apply no_collision_snoc.
    - now apply replace_no_collision.
  Qed.

  Lemma es_of_wf l : Forall (ok_call H) l -> Forall wf_entry (es_of es0 l).
  Proof.
    induction l as [|c l IH] using rev_ind; intros Hl; [exact Hwf0|].
    apply Forall_app in Hl as [Hl Hc]. inversion Hc; subst.
    rewrite es_of_snoc. apply apply_call_wf; auto.
  Qed.

  Lemma es_of_nc l : Forall (ok_call H) l -> no_collisions H (es_of es0 l).
  Proof.
    induction l as [|c l IH] using rev_ind; intros Hl; [exact Hnc0|].
    apply Forall_app in Hl as [Hl Hc]. inversion Hc; subst.
    rewrite es_of_snoc. apply apply_call_nc; auto.
  Qed.

  (* the ids: those of es0, then the added headers in the order of the additions *)
  Lemma es_of_ids l :
    map fst (es_of es0 l) = map fst es0 ++ map cl_tid (filter (is_added es0) l).
  Proof.
    induction l as [|c l IH] using rev_ind; [cbn; now rewrite app_nil_r|].
    rewrite es_of_snoc, filter_app, map_app, app_assoc, <- IH.
    unfold apply_call, is_added. cbn [filter].
    destruct (spec_outcome es0 c); cbn [map]; rewrite ?app_nil_r; try reflexivity.
    - now rewrite map_app.
    - apply replace_ids.
  Qed.

  (* a writing call's header holds its text afterwards, whatever other slots do later *)
  Lemma es_lookup_written l c :
    NoDup (map cl_tid l) -> In c l -> is_writer es0 c = true ->
    lookup_entry (cl_tid c) (es_of es0 l) = Some (cl_snap c).
  Proof.
    induction l as [|x l IH] using rev_ind; intros Hnd Hin Hw; [destruct Hin|].
    rewrite map_app in Hnd. cbn [map] in Hnd.
    pose proof (NoDup_remove_1 _ _ _ Hnd) as Hnd1. rewrite app_nil_r in Hnd1.
    pose proof (NoDup_remove_2 _ _ _ Hnd) as Hni. rewrite app_nil_r in Hni.
    rewrite es_of_snoc. apply in_app_or in Hin as [Hin|[->|[]]].
    - rewrite apply_call_lookup_other; [now apply IH|].
      intros _ E. apply Hni. rewrite E. now apply in_map.
    - pose proof (es_lookup_fresh l (cl_tid c) Hni) as Hfresh.
      unfold apply_call. unfold is_writer, is_added, is_updated in Hw.
      destruct (spec_outcome es0 c) eqn:Hs; try discriminate.
      + rewrite lookup_entry_snoc, Hfresh. cbn [fst snd]. rewrite beq_refl.
        unfold spec_outcome in Hs. destruct (lookup_entry (cl_tid c) es0) as [b|]; [|reflexivity].
        destruct (cl_same c b); [discriminate|]. destruct (cl_update c); discriminate.
      + apply lookup_replace_same. rewrite Hfresh.
        unfold spec_outcome in Hs. destruct (lookup_entry (cl_tid c) es0) as [b|]; [discriminate|].
        destruct (cl_create c); discriminate.
  Qed.

  (* what getPrevSnapshot + matchSnapshot decide on a rendered file *)
  Lemma decide_render es c :
    Forall wf_entry es -> no_collisions H es -> ok_call H c ->
    lookup_entry (cl_tid c) es = lookup_entry (cl_tid c) es0 ->
    decide c (render es) = decision_of (spec_outcome es0 c).
  Proof.
    intros Hes Hnc [Hin [[_ [Hne [Hnend _]]] _]] Hl. cbn [fst] in Hne, Hnend.
    pose proof (get_prev_render (cl_tid c) es Hes (Hnc _ Hin) Hne Hnend) as Hg.
    unfold decide, spec_outcome. rewrite <- Hl, <- Hg.
    destruct (get_prev (cl_tid c) (render es)) as [[b n]|]; cbn [option_map fst].
    - destruct (cl_same c b); [reflexivity|]. destruct (cl_update c); reflexivity.
    - destruct (cl_create c); reflexivity.
  Qed.
End Entries.

(* ================================================================== *)
(* 6. the invariant of the Repaired protocol                           *)
(* ================================================================== *)

Lemma NoDup_app_notin {A} (a b : list A) x : NoDup (a ++ b) -> In x b -> ~ In x a.
Proof.
  induction a as [|y a IH]; cbn; intros Hnd Hb; [intros []|].
  inversion Hnd as [|? ? Hy Hnd']; subst. intros [->|Ha].
  - apply Hy. apply in_or_app. now right.
  - now apply (IH Hnd' Hb).
Qed.

Lemma proj_snoc_same g l k : proj g (l ++ [(g, k)]) = proj g l ++ [k].
Proof.
  unfold proj. rewrite filter_app, map_app. cbn [filter fst]. now rewrite Nat.eqb_refl.
Qed.

Lemma proj_snoc_other g g2 l (k : call) : g2 <> g -> proj g2 (l ++ [(g, k)]) = proj g2 l.
Proof.
  intros Hne. unfold proj. rewrite filter_app, map_app. cbn [filter fst].
  destruct (Nat.eqb_spec g g2) as [E|_]; [congruence|]. cbn. now rewrite app_nil_r.
Qed.

Lemma puw_holds_w t : t_pc t = PUw -> holds_w t = true.
Proof. unfold holds_w. now intros ->. Qed.

(* a thread that holds no lock does not depend on the current entries *)
Lemma thr_ok_other H es0 E E' t :
  thr_ok H es0 E t -> holds_r t = false -> holds_w t = false -> thr_ok H es0 E' t.
Proof.
  unfold thr_ok, holds_r, holds_w. intros [Hok Hpc] Hr Hw. split; [exact Hok|].
  destruct (t_calls t); [exact Hpc|]. destruct (t_pc t); try discriminate; exact Hpc.
Qed.

Section Invariant.
  Variable H : list bytes.
  Variable es0 : list entry.
  Variable prog : list (list call).
  Hypothesis Hwf0 : Forall wf_entry es0.
  Hypothesis Hnc0 : no_collisions H es0.

  (* One step of thread [g] from [t] to [t'] with new shared state [s'] and linearised
     calls [lg]: the invariant is preserved under obligations local to that thread. *)
  Lemma inv_step_gen c l g t k rest t' s' lg :
    sched_inv H es0 prog c l ->
    nth_error (g_threads c) g = Some t -> t_calls t = k :: rest ->
    lock_inv {| g_sh := s'; g_threads := set_nth g t' (g_threads c) |} ->
    ((lg = [] /\ unlogged t' = unlogged t) \/
     (lg = [(g, k)] /\ unlogged t = k :: unlogged t')) ->
    trace es0 t' = trace es0 t ->
    (es_of es0 (map snd (l ++ lg)) = es_of es0 (map snd l) \/ holds_w t = true) ->
    (holds_w t = true \/ content (file s') = content (file (g_sh c))) ->
    thr_ok H es0 (es_of es0 (map snd (l ++ lg))) t' ->
    (t_pc t' <> PUw ->
     (t_pc t <> PUw -> content (file (g_sh c)) = render (es_of es0 (map snd l))) ->
     content (file s') = render (es_of es0 (map snd (l ++ lg)))) ->
    (t_pc t' = PUw -> content (file s') = []) ->
    sched_inv H es0 prog {| g_sh := s'; g_threads := set_nth g t' (g_threads c) |} (l ++ lg).
  Proof.
    intros Hinv Hn Hcalls Hlock Hlog Htrace HE Hcont Hthr' Hfile' Htorn'.
    destruct Hinv as [Ilock Ilen Ifile Itorn Ithr Inodup Ilogok Igids Iprog].
    assert (Hk : ok_call H k).
    { destruct (Ithr _ _ Hn) as [Hok _]. rewrite Hcalls in Hok. now inversion Hok. }
    constructor; cbn [g_sh g_threads].
    - exact Hlock.
    - now rewrite length_set_nth.
    - intros Hall. apply Hfile'.
      + apply (Hall g). eapply nth_error_set_nth_eq; exact Hn.
      + intros Hpc. apply Ifile. intros g2 t2 Hn2.
        destruct (Nat.eq_dec g2 g) as [->|Hne].
        * rewrite Hn in Hn2. injection Hn2 as <-. exact Hpc.
        * apply (Hall g2). now rewrite nth_error_set_nth_neq.
    - intros g2 t2 Hy Hpc2.
      destruct (nth_error_set_nth_cases _ _ _ _ _ _ Hn Hy) as [[-> ->]|[Hne Hy']].
      + now apply Htorn'.
      + destruct Hcont as [Hw|Hc].
        * destruct (lock_inv_mutex c g t g2 t2 Ilock Hn Hw Hy' Hne) as [_ Hw2].
          rewrite (puw_holds_w _ Hpc2) in Hw2. discriminate.
        * rewrite Hc. eapply Itorn; eassumption.
    - intros g2 t2 Hy.
      destruct (nth_error_set_nth_cases _ _ _ _ _ _ Hn Hy) as [[-> ->]|[Hne Hy']].
      + exact Hthr'.
      + destruct HE as [->|Hw]; [now apply (Ithr g2)|].
        destruct (lock_inv_mutex c g t g2 t2 Ilock Hn Hw Hy' Hne) as [Hr2 Hw2].
        eapply thr_ok_other; [apply (Ithr g2); exact Hy'|exact Hr2|exact Hw2].
    - destruct Hlog as [[-> Hu]|[-> Hu]].
      + rewrite app_nil_r. now rewrite (concat_map_set_nth_same unlogged _ g t t' Hn Hu).
      + replace (map snd (l ++ [(g, k)])) with (map snd l ++ [k]) by (now rewrite map_app).
        eapply Permutation_NoDup; [|exact Inodup].
        apply Permutation_map. rewrite <- app_assoc. apply Permutation_app_head. cbn [app].
        eapply concat_map_set_nth_perm; eassumption.
    - destruct Hlog as [[-> _]|[-> _]]; [now rewrite app_nil_r|].
      rewrite map_app. apply Forall_app. split; [exact Ilogok|]. cbn. constructor; [exact Hk|constructor].
    - intros x Hx. rewrite length_set_nth. apply in_app_or in Hx as [Hx|Hx]; [now apply Igids|].
      destruct Hlog as [[-> _]|[-> _]]; [destruct Hx|]. destruct Hx as [<-|[]]. cbn [fst].
      apply nth_error_Some. congruence.
    - intros g2 t2 Hy.
      destruct (nth_error_set_nth_cases _ _ _ _ _ _ Hn Hy) as [[-> ->]|[Hne Hy']].
      + destruct (Iprog _ _ Hn) as [pg [Hpg [Htr Hpr]]]. exists pg.
        split; [exact Hpg|]. split; [now rewrite Htrace|].
        destruct Hlog as [[-> Hu]|[-> Hu]].
        * now rewrite app_nil_r, Hu.
        * rewrite proj_snoc_same, <- app_assoc. cbn [app]. now rewrite <- Hu.
      + destruct (Iprog _ _ Hy') as [pg [Hpg [Htr Hpr]]]. exists pg.
        split; [exact Hpg|]. split; [exact Htr|].
        destruct Hlog as [[-> _]|[-> _]]; [now rewrite app_nil_r|].
        now rewrite proj_snoc_other.
  Qed.

  Lemma inv_entries c l :
    sched_inv H es0 prog c l ->
    Forall wf_entry (es_of es0 (map snd l)) /\ no_collisions H (es_of es0 (map snd l)).
  Proof.
    intros Hinv. pose proof (si_logok _ _ _ _ _ Hinv) as Hok.
    split; [now apply (es_of_wf H)|now apply es_of_nc].
  Qed.

  (* the header of a call that is not linearised yet has not been touched *)
  Lemma unlogged_fresh c l g t k :
    sched_inv H es0 prog c l -> nth_error (g_threads c) g = Some t -> In k (unlogged t) ->
    ~ In (cl_tid k) (map cl_tid (map snd l)).
  Proof.
    intros Hinv Hn Hin. pose proof (si_nodup _ _ _ _ _ Hinv) as Hnd. rewrite map_app in Hnd.
    eapply NoDup_app_notin; [exact Hnd|]. apply in_map. apply in_concat.
    exists (unlogged t). split; [|exact Hin]. apply in_map. eapply nth_error_In; exact Hn.
  Qed.

  Lemma unlogged_lookup c l g t k :
    sched_inv H es0 prog c l -> nth_error (g_threads c) g = Some t -> In k (unlogged t) ->
    lookup_entry (cl_tid k) (es_of es0 (map snd l)) = lookup_entry (cl_tid k) es0.
  Proof. intros Hinv Hn Hin. apply es_lookup_fresh. eapply unlogged_fresh; eassumption. Qed.

  (* under a read lock, or under the write lock outside the truncate window, the file is
     the rendering of the current entries *)
  Lemma file_when_reader c l g t :
    sched_inv H es0 prog c l -> nth_error (g_threads c) g = Some t -> holds_r t = true ->
    content (file (g_sh c)) = render (es_of es0 (map snd l)).
  Proof.
    intros Hinv Hn Hr. apply (si_file _ _ _ _ _ Hinv). intros g2 t2 Hn2 Hpc.
    pose proof (lock_inv_reader c g t g2 t2 (si_lock _ _ _ _ _ Hinv) Hn Hr Hn2) as Hw.
    rewrite (puw_holds_w _ Hpc) in Hw. discriminate.
  Qed.

  Lemma file_when_writer c l g t :
    sched_inv H es0 prog c l -> nth_error (g_threads c) g = Some t -> holds_w t = true ->
    t_pc t <> PUw ->
    content (file (g_sh c)) = render (es_of es0 (map snd l)).
  Proof.
    intros Hinv Hn Hw Hpc. apply (si_file _ _ _ _ _ Hinv). intros g2 t2 Hn2 Hpc2.
    destruct (Nat.eq_dec g2 g) as [->|Hne].
    - rewrite Hn in Hn2. injection Hn2 as <-. contradiction.
    - destruct (lock_inv_mutex c g t g2 t2 (si_lock _ _ _ _ _ Hinv) Hn Hw Hn2 Hne) as [_ Hw2].
      rewrite (puw_holds_w _ Hpc2) in Hw2. discriminate.
  Qed.

  Lemma es_of_log_nonwriter (l : list (nat * call)) (g : nat) k :
    is_writer es0 k = false ->
    es_of es0 (map snd (l ++ [(g, k)])) = es_of es0 (map snd l).
  Proof. intros Hw. rewrite map_app. cbn [map snd]. now rewrite es_of_snoc, apply_call_nonwriter. Qed.

  Lemma es_of_log_added (l : list (nat * call)) (g : nat) k :
    spec_outcome es0 k = OAdded ->
    es_of es0 (map snd (l ++ [(g, k)])) = es_of es0 (map snd l) ++ [(cl_tid k, cl_snap k)].
  Proof. intros Hs. rewrite map_app. cbn [map snd]. rewrite es_of_snoc. unfold apply_call. now rewrite Hs. Qed.

  Lemma es_of_log_updated (l : list (nat * call)) (g : nat) k :
    spec_outcome es0 k = OUpdated ->
    es_of es0 (map snd (l ++ [(g, k)])) =
    map (replace_entry (cl_tid k) (cl_snap k)) (es_of es0 (map snd l)).
  Proof. intros Hs. rewrite map_app. cbn [map snd]. rewrite es_of_snoc. unfold apply_call. now rewrite Hs. Qed.

  Ltac silent_step Hinv Hn Hcalls Hlock' Hpc Hoks :=
    eapply inv_step_gen with (lg := []);
    [ exact Hinv | exact Hn | exact Hcalls | exact Hlock'
    | left; split; [reflexivity|unfold unlogged; cbn [set_pc set_pc_read finish_call t_pc t_calls];
                                rewrite ?Hpc, ?Hcalls; reflexivity]
    | unfold trace; cbn [set_pc set_pc_read finish_call t_out t_calls]; try reflexivity
    | left; rewrite app_nil_r; reflexivity
    | right; cbn [apply_ev set_file file]; try reflexivity
    | rewrite app_nil_r; split; cbn [set_pc set_pc_read finish_call t_pc t_calls t_read];
      rewrite ?Hcalls; cbn [tl]; [try exact Hoks|auto]
    | intros _ Hf; rewrite app_nil_r; cbn [apply_ev set_file file content];
      apply Hf; rewrite Hpc; discriminate
    | cbn [set_pc set_pc_read finish_call t_pc]; discriminate ].

  (* a non-writing call returns at its decision: logged, entries unchanged *)
  Ltac finish_step Hinv Hn Hcalls Hlock' Hpc Hspec Hrest rest :=
    let HE := fresh "HE" in
    match goal with
    | |- sched_inv _ _ _ _ (?l ++ [(?g, ?k)]) =>
      assert (HE : es_of es0 (map snd (l ++ [(g, k)])) = es_of es0 (map snd l))
        by (apply es_of_log_nonwriter; unfold is_writer, is_added, is_updated;
            rewrite Hspec; reflexivity);
      eapply inv_step_gen with (lg := [(g, k)]);
      [ exact Hinv | exact Hn | exact Hcalls | exact Hlock'
      | right; split; [reflexivity|unfold unlogged; cbn [finish_call t_pc t_calls];
                                   rewrite Hpc, Hcalls; reflexivity]
      | unfold trace; cbn [finish_call t_out t_calls]; rewrite Hcalls; cbn [tl map];
        rewrite Hspec, <- app_assoc; reflexivity
      | left; exact HE
      | right; reflexivity
      | rewrite HE; split; cbn [finish_call t_pc t_calls]; rewrite Hcalls; cbn [tl];
        [exact Hrest|destruct rest; auto]
      | intros _ Hf; rewrite HE; cbn [apply_ev set_file file content];
        apply Hf; rewrite Hpc; discriminate
      | cbn [finish_call t_pc]; discriminate ]
    end.

  (* one step of the Repaired protocol preserves the invariant; the log grows by the call
     linearised by that step *)
  Lemma sched_inv_step c l g c' :
    sched_inv H es0 prog c l -> sched_step Repaired c g = Some c' ->
    sched_inv H es0 prog c' (l ++ lin_step c g).
  Proof.
    intros Hinv Hs.
    pose proof (lock_inv_step _ _ _ (si_lock _ _ _ _ _ Hinv) Hs) as Hlock'.
    destruct (sched_step_inv _ _ _ _ Hs) as [t [k [rest [Hn [Hcalls [Hen ->]]]]]].
    unfold lin_step. rewrite Hn. unfold lin_point. rewrite Hcalls.
    destruct (si_thr _ _ _ _ _ Hinv g t Hn) as [Hoks Hpcinfo]. rewrite Hcalls in Hoks, Hpcinfo.
    assert (Hk : ok_call H k) by (now inversion Hoks).
    assert (Hrest : Forall (ok_call H) rest) by (now inversion Hoks).
    destruct (inv_entries c l Hinv) as [HwfE HncE].
    unfold advance in *. rewrite Hcalls in *.
    destruct (t_pc t) eqn:Hpc; cbn [ev_at] in *.
    - (* PIdle: ERLock *) silent_step Hinv Hn Hcalls Hlock' Hpc Hoks.
    - (* PRd: ERead *) silent_step Hinv Hn Hcalls Hlock' Hpc Hoks.
      eapply file_when_reader; [exact Hinv|exact Hn|]. unfold holds_r. now rewrite Hpc.
    - (* PRu: ERUnlock and the decision *)
      assert (Hfresh : lookup_entry (cl_tid k) (es_of es0 (map snd l)) = lookup_entry (cl_tid k) es0).
      { eapply unlogged_lookup; [exact Hinv|exact Hn|]. unfold unlogged. rewrite Hpc, Hcalls. now left. }
      rewrite Hpcinfo in *.
      rewrite (decide_render H es0 _ k HwfE HncE Hk Hfresh) in *.
      destruct (spec_outcome es0 k) eqn:Hspec; cbn [decision_of] in *.
      + finish_step Hinv Hn Hcalls Hlock' Hpc Hspec Hrest rest.
      + silent_step Hinv Hn Hcalls Hlock' Hpc Hoks.
      + silent_step Hinv Hn Hcalls Hlock' Hpc Hoks.
      + finish_step Hinv Hn Hcalls Hlock' Hpc Hspec Hrest rest.
      + finish_step Hinv Hn Hcalls Hlock' Hpc Hspec Hrest rest.
    - (* PAl *) silent_step Hinv Hn Hcalls Hlock' Hpc Hoks.
    - (* PAm *) silent_step Hinv Hn Hcalls Hlock' Hpc Hoks.
    - (* PAo *) silent_step Hinv Hn Hcalls Hlock' Hpc Hoks.
    - (* PAa: EAppend *)
      assert (Hw : holds_w t = true) by (unfold holds_w; now rewrite Hpc).
      assert (Hpcw : t_pc t <> PUw) by (rewrite Hpc; discriminate).
      eapply inv_step_gen with (lg := [(g, k)]);
        [ exact Hinv | exact Hn | exact Hcalls | exact Hlock' | | | | | | | ].
      + right. split; [reflexivity|]. unfold unlogged. cbn [set_pc t_pc t_calls].
        now rewrite Hpc, Hcalls.
      + reflexivity.
      + now right.
      + now left.
      + split; cbn [set_pc t_pc t_calls]; rewrite Hcalls; [exact Hoks|exact Hpcinfo].
      + intros _ Hf. rewrite (es_of_log_added l g k Hpcinfo), render_snoc.
        cbn [apply_ev set_file file content fst snd]. now rewrite (Hf Hpcw).
      + cbn [set_pc t_pc]. discriminate.
    - (* PAu: EUnlock *) silent_step Hinv Hn Hcalls Hlock' Hpc Hoks.
      + rewrite Hcalls. cbn [tl map]. rewrite Hpcinfo, <- app_assoc. reflexivity.
      + exact Hrest.
      + destruct rest; auto.
    - (* PUl *) silent_step Hinv Hn Hcalls Hlock' Hpc Hoks.
    - (* PUo *) silent_step Hinv Hn Hcalls Hlock' Hpc Hoks.
    - (* PUr: ERead under the write lock *)
      silent_step Hinv Hn Hcalls Hlock' Hpc Hoks.
      split; [exact Hpcinfo|].
      eapply file_when_writer; [exact Hinv|exact Hn| |rewrite Hpc; discriminate].
      unfold holds_w. now rewrite Hpc.
    - (* PUt: ETrunc *)
      assert (Hw : holds_w t = true) by (unfold holds_w; now rewrite Hpc).
      eapply inv_step_gen with (lg := []);
        [ exact Hinv | exact Hn | exact Hcalls | exact Hlock' | | | | | | | ].
      + left. split; [reflexivity|]. unfold unlogged. cbn [set_pc t_pc t_calls]. now rewrite Hpc.
      + reflexivity.
      + now right.
      + now left.
      + rewrite app_nil_r. split; cbn [set_pc t_pc t_calls t_read]; rewrite Hcalls; [exact Hoks|exact Hpcinfo].
      + intros Hne. cbn [set_pc t_pc] in Hne. congruence.
      + intros _. reflexivity.
    - (* PUw: EWrite *)
      assert (Hw : holds_w t = true) by (unfold holds_w; now rewrite Hpc).
      destruct Hpcinfo as [Hspec Hread].
      assert (Hempty : content (file (g_sh c)) = []) by (eapply (si_torn _ _ _ _ _ Hinv); eassumption).
      eapply inv_step_gen with (lg := [(g, k)]);
        [ exact Hinv | exact Hn | exact Hcalls | exact Hlock' | | | | | | | ].
      + right. split; [reflexivity|]. unfold unlogged. cbn [set_pc t_pc t_calls].
        now rewrite Hpc, Hcalls.
      + reflexivity.
      + now right.
      + now left.
      + split; cbn [set_pc t_pc t_calls]; rewrite Hcalls; [exact Hoks|exact Hspec].
      + intros _ _. rewrite (es_of_log_updated l g k Hspec).
        cbn [apply_ev set_file file content]. rewrite Hempty, skipn_nil, app_nil_r, Hread.
        destruct Hk as [Hin [[_ [Hne [Hnend _]]] _]]. cbn [fst] in Hne, Hnend.
        apply update_entry_render; auto.
      + cbn [set_pc t_pc]. discriminate.
    - (* PUu: EUnlock *) silent_step Hinv Hn Hcalls Hlock' Hpc Hoks.
      + rewrite Hcalls. cbn [tl map]. rewrite Hpcinfo, <- app_assoc. reflexivity.
      + exact Hrest.
      + destruct rest; auto.
  Qed.

  Lemma sched_inv_run sch c l c' :
    sched_inv H es0 prog c l -> run_sched Repaired c sch = Some c' ->
    sched_inv H es0 prog c' (l ++ lin_order Repaired c sch).
  Proof.
    revert c l. induction sch as [|g sch IH]; intros c l Hinv Hr; cbn [run_sched lin_order] in *.
    - injection Hr as <-. now rewrite app_nil_r.
    - destruct (sched_step Repaired c g) as [c1|] eqn:Hs; [|discriminate].
      rewrite app_assoc. apply IH; [|exact Hr]. now apply sched_inv_step.
  Qed.

  Lemma sched_inv_init f0 :
    content f0 = render es0 ->
    NoDup (map cl_tid (concat prog)) -> Forall (ok_call H) (concat prog) ->
    sched_inv H es0 prog (init_cfg f0 prog) [].
  Proof.
    intros Hf Hnd Hok.
    assert (Hth : forall g t, nth_error (g_threads (init_cfg f0 prog)) g = Some t ->
                              exists pg, nth_error prog g = Some pg /\ t = init_thread pg).
    { intros g t Hn. cbn [init_cfg g_threads] in Hn. rewrite nth_error_map in Hn.
      destruct (nth_error prog g) as [pg|]; [|discriminate]. injection Hn as <-. now exists pg. }
    constructor.
    - apply quiescent_lock_inv, init_quiescent.
    - cbn. apply map_length.
    - intros _. exact Hf.
    - intros g t Hn Hpc. destruct (Hth _ _ Hn) as [pg [_ ->]]. discriminate.
    - intros g t Hn. destruct (Hth _ _ Hn) as [pg [Hpg ->]]. split; cbn [init_thread t_calls t_pc].
      + rewrite Forall_forall in *. intros k Hk. apply Hok. apply in_concat.
        exists pg. split; [eapply nth_error_In; exact Hpg|exact Hk].
      + destruct pg; auto.
    - cbn [map app init_cfg g_threads]. rewrite map_map.
      replace (map (fun x => unlogged (init_thread x)) prog) with prog; [exact Hnd|].
      clear. induction prog as [|pg pr IH]; [reflexivity|]. cbn [map]. now rewrite <- IH.
    - constructor.
    - intros x [].
    - intros g t Hn. destruct (Hth _ _ Hn) as [pg [Hpg ->]]. exists pg. repeat split; auto.
  Qed.
End Invariant.

(* ================================================================== *)
(* 7. serial executions                                                *)
(* ================================================================== *)

(* a call run alone with the small-step semantics is the atomic call, in both protocols *)
Lemma run_alone_atomic p f c : run_alone p f c = call_atomic f c.
Proof.
  unfold run_alone, call_atomic, call_fuel.
  cbn [run_thread sched_step init_cfg g_threads g_sh map nth_error init_thread next_ev t_calls
       t_pc t_read ev_at enabled init_sh wlock rlocks apply_ev advance set_pc set_pc_read
       set_nth file content].
  destruct (decide c (content f)) as [| |o]; destruct p;
    cbn [run_thread sched_step init_cfg g_threads g_sh map nth_error init_thread next_ev t_calls
         t_pc t_read ev_at enabled init_sh wlock rlocks apply_ev advance set_pc set_pc_read
         set_nth file content finish_call tl set_file Nat.eqb pred final_file outcomes t_out
         concat app hd];
    unfold add_entry; rewrite ?skipn_nil, ?app_nil_r; reflexivity.
Qed.

Section Serial.
  Variable H : list bytes.
  Variable es0 : list entry.
  Hypothesis Hwf0 : Forall wf_entry es0.
  Hypothesis Hnc0 : no_collisions H es0.

  (* the atomic call on a rendered file, at the entries level *)
  Lemma call_atomic_render f es c :
    content f = render es -> Forall wf_entry es -> no_collisions H es -> ok_call H c ->
    lookup_entry (cl_tid c) es = lookup_entry (cl_tid c) es0 ->
    content (fst (call_atomic f c)) = render (apply_call es0 es c) /\
    snd (call_atomic f c) = spec_outcome es0 c.
  Proof.
    intros Hf Hes Hnc Hk Hl. unfold call_atomic, apply_call.
    rewrite Hf, (decide_render H es0 es c Hes Hnc Hk Hl).
    destruct Hk as [Hin [[_ [Hne [Hnend _]]] _]]. cbn [fst] in Hne, Hnend.
    destruct (spec_outcome es0 c); cbn [decision_of fst snd content]; split; auto.
    - unfold add_entry. now rewrite render_snoc.
    - apply update_entry_render; auto.
  Qed.

  (* outcome of a call run alone against the initial file *)
  Lemma spec_outcome_alone p f0 c :
    content f0 = render es0 -> ok_call H c ->
    snd (run_alone p f0 c) = spec_outcome es0 c.
  Proof.
    intros Hf Hk. rewrite run_alone_atomic.
    now apply (call_atomic_render f0 es0 c Hf Hwf0 Hnc0 Hk eq_refl).
  Qed.

  (* a serial run of calls with pairwise distinct headers, started on the rendering of the
     entries after [l1] *)
  Lemma run_serial_spec p l2 : forall l1 f,
    content f = render (es_of es0 l1) ->
    Forall (ok_call H) l1 -> Forall (ok_call H) (map snd l2) ->
    NoDup (map cl_tid (l1 ++ map snd l2)) ->
    content (fst (run_serial p f l2)) = render (es_of es0 (l1 ++ map snd l2)) /\
    snd (run_serial p f l2) = map (fun x => (fst x, spec_outcome es0 (snd x))) l2.
  Proof.
    induction l2 as [|[g c] l2 IH]; intros l1 f Hf Hok1 Hok2 Hnd; cbn [run_serial map snd fst].
    - rewrite app_nil_r. split; [exact Hf|reflexivity].
    - cbn [map snd] in Hok2, Hnd. inversion Hok2 as [|? ? Hc Hok2']; subst.
      assert (Hfresh : ~ In (cl_tid c) (map cl_tid l1)).
      { rewrite map_app in Hnd. eapply NoDup_app_notin; [exact Hnd|]. now left. }
      destruct (call_atomic_render f (es_of es0 l1) c Hf (es_of_wf H es0 Hwf0 l1 Hok1)
                  (es_of_nc H es0 Hnc0 l1 Hok1) Hc (es_lookup_fresh es0 l1 _ Hfresh)) as [Hc1 Hc2].
      rewrite run_alone_atomic.
      destruct (call_atomic f c) as [f1 o] eqn:Hca. cbn [fst snd] in Hc1, Hc2.
      rewrite <- es_of_snoc in Hc1.
      assert (Hok1' : Forall (ok_call H) (l1 ++ [c])).
      { apply Forall_app. split; [exact Hok1|]. constructor; [exact Hc|constructor]. }
      assert (Hnd' : NoDup (map cl_tid ((l1 ++ [c]) ++ map snd l2))).
      { rewrite <- app_assoc. exact Hnd. }
      destruct (IH (l1 ++ [c]) f1 Hc1 Hok1' Hok2' Hnd') as [IH1 IH2].
      destruct (run_serial p f1 l2) as [f2 os]. cbn [fst snd] in *.
      rewrite <- app_assoc in IH1. cbn [app] in IH1. split; [exact IH1|]. now rewrite IH2, Hc2.
  Qed.
End Serial.

(* ---------- grouping outcomes per goroutine ---------- *)

Lemma proj_map_outcomes {A} (f : call -> A) g (l : list (nat * call)) :
  map snd (filter (fun x => Nat.eqb (fst x) g) (map (fun x => (fst x, f (snd x))) l)) =
  map f (proj g l).
Proof.
  unfold proj. induction l as [|[g' c] l IH]; [reflexivity|]. cbn [map filter fst snd].
  destruct (Nat.eqb g' g); cbn [map snd]; now rewrite IH.
Qed.

Lemma map_seq_nth_error {A B} (F : nat -> B) (h : A -> B) (l : list A) s :
  (forall g a, nth_error l g = Some a -> F (s + g) = h a) ->
  map F (seq s (length l)) = map h l.
Proof.
  revert s. induction l as [|a l IH]; intros s Hf; [reflexivity|]. cbn [length seq map]. f_equal.
  - rewrite <- (Nat.add_0_r s). now apply (Hf 0).
  - apply IH. intros g b Hn. rewrite Nat.add_succ_l, <- Nat.add_succ_r. now apply (Hf (S g)).
Qed.

Lemma map_eq_by_nth {A B C} (f : A -> C) (h : B -> C) l1 l2 :
  length l1 = length l2 ->
  (forall g a, nth_error l1 g = Some a -> exists b, nth_error l2 g = Some b /\ f a = h b) ->
  map f l1 = map h l2.
Proof.
  revert l2. induction l1 as [|a l1 IH]; intros [|b l2] Hlen Hn; try discriminate; [reflexivity|].
  cbn [map]. f_equal.
  - destruct (Hn 0 a eq_refl) as [b' [Hb Hab]]. cbn in Hb. now injection Hb as <-.
  - apply IH; [now injection Hlen|]. intros g a' Ha. now apply (Hn (S g)).
Qed.

Lemma in_proj g c (l : list (nat * call)) : In (g, c) l -> In c (proj g l).
Proof.
  intros Hin. unfold proj. apply in_map_iff. exists (g, c). split; [reflexivity|].
  apply filter_In. split; [exact Hin|]. cbn. apply Nat.eqb_refl.
Qed.

Lemma proj_in g c (l : list (nat * call)) : In c (proj g l) -> In c (map snd l).
Proof.
  unfold proj. intros Hin. apply in_map_iff in Hin as [x [<- Hx]].
  apply filter_In in Hx as [Hx _]. now apply in_map.
Qed.

Lemma NoDup_app_l {A} (a b : list A) : NoDup (a ++ b) -> NoDup a.
Proof.
  induction a as [|x a IH]; cbn; intros Hnd; [constructor|].
  inversion Hnd as [|? ? Hx Hnd']; subst. constructor; [|now apply IH].
  intros Hin. apply Hx. apply in_or_app. now left.
Qed.

Lemma NoDup_map_filter {A B} (f : A -> B) (p : A -> bool) l :
  NoDup (map f l) -> NoDup (map f (filter p l)).
Proof.
  induction l as [|x l IH]; cbn [map filter]; intros Hnd; [constructor|].
  inversion Hnd as [|? ? Hx Hnd']; subst. destruct (p x); [|now apply IH].
  cbn [map]. constructor; [|now apply IH]. intros Hin. apply Hx.
  apply in_map_iff in Hin as [y [Hy Hin]]. apply filter_In in Hin as [Hin _].
  rewrite <- Hy. now apply in_map.
Qed.

Lemma NoDup_map_inj_in {A B} (f : A -> B) l x y :
  NoDup (map f l) -> In x l -> In y l -> f x = f y -> x = y.
Proof.
  induction l as [|a l IH]; cbn [map]; intros Hnd Hx Hy Hf; [destruct Hx|].
  inversion Hnd as [|? ? Ha Hnd']; subst.
  destruct Hx as [->|Hx], Hy as [->|Hy]; auto.
  - exfalso. apply Ha. rewrite Hf. now apply in_map.
  - exfalso. apply Ha. rewrite <- Hf. now apply in_map.
Qed.

(* ================================================================== *)
(* 8. TARGET 3: every complete schedule of the Repaired protocol is    *)
(*    serialisable                                                     *)
(* ================================================================== *)

Lemma finished_threads c g t :
  finished c = true -> nth_error (g_threads c) g = Some t -> t_calls t = [].
Proof.
  unfold finished. intros Hf Hn. rewrite forallb_forall in Hf.
  specialize (Hf t (nth_error_In _ _ Hn)). unfold thread_done in Hf.
  destruct (t_calls t); [reflexivity|discriminate].
Qed.

Section Final.
  Variable H : list bytes.
  Variable es0 : list entry.
  Variable prog : list (list call).
  Variable c : cfg.
  Variable l : list (nat * call).
  Hypothesis Hinv : sched_inv H es0 prog c l.

  Lemma inv_log_in_prog k : In k (map snd l) -> In k (concat prog).
  Proof.
    intros Hin. apply in_map_iff in Hin as [[g k'] [Hk Hin]]. cbn in Hk. subst k'.
    pose proof (si_gids _ _ _ _ _ Hinv _ Hin) as Hg. cbn [fst] in Hg.
    destruct (nth_error (g_threads c) g) as [t|] eqn:Hn; [|apply nth_error_None in Hn; lia].
    destruct (si_prog _ _ _ _ _ Hinv g t Hn) as [pg [Hpg [_ Hpr]]].
    apply in_concat. exists pg. split; [eapply nth_error_In; exact Hpg|].
    rewrite <- Hpr. apply in_or_app. left. now apply in_proj.
  Qed.

  Lemma inv_log_nodup : NoDup (map cl_tid (map snd l)).
  Proof.
    pose proof (si_nodup _ _ _ _ _ Hinv) as Hnd. rewrite map_app in Hnd.
    now apply NoDup_app_l in Hnd.
  Qed.

  Hypothesis Hfin : finished c = true.

  Lemma final_thread g t :
    nth_error (g_threads c) g = Some t -> t_calls t = [] /\ t_pc t = PIdle /\ unlogged t = [].
  Proof.
    intros Hn. pose proof (finished_threads c g t Hfin Hn) as Hc.
    destruct (si_thr _ _ _ _ _ Hinv g t Hn) as [_ Hpc]. rewrite Hc in Hpc.
    repeat split; auto. unfold unlogged. now rewrite Hpc.
  Qed.

  (* the log is an interleaving of the goroutines' programs; every goroutine recorded the
     outcomes its calls get when run alone *)
  Lemma final_prog g pg :
    nth_error prog g = Some pg ->
    proj g l = pg /\
    exists t, nth_error (g_threads c) g = Some t /\ t_out t = map (spec_outcome es0) pg.
  Proof.
    intros Hpg.
    destruct (nth_error (g_threads c) g) as [t|] eqn:Hn.
    - destruct (final_thread g t Hn) as [Hc [_ Hu]].
      destruct (si_prog _ _ _ _ _ Hinv g t Hn) as [pg' [Hpg' [Htr Hpr]]].
      rewrite Hpg in Hpg'. injection Hpg' as <-.
      rewrite Hu, app_nil_r in Hpr. split; [exact Hpr|]. exists t. split; [reflexivity|].
      unfold trace in Htr. rewrite Hc in Htr. cbn in Htr. now rewrite app_nil_r in Htr.
    - apply nth_error_None in Hn. rewrite (si_len _ _ _ _ _ Hinv) in Hn.
      assert (g < length prog) by (apply nth_error_Some; congruence). lia.
  Qed.

  Lemma final_outcomes : outcomes c = map (map (spec_outcome es0)) prog.
  Proof.
    unfold outcomes. apply map_eq_by_nth; [apply (si_len _ _ _ _ _ Hinv)|].
    intros g t Hn. destruct (si_prog _ _ _ _ _ Hinv g t Hn) as [pg [Hpg _]].
    exists pg. split; [exact Hpg|].
    destruct (final_prog g pg Hpg) as [_ [t' [Hn' Ho]]]. rewrite Hn in Hn'. now injection Hn' as <-.
  Qed.

  Lemma final_file_render : content (final_file c) = render (es_of es0 (map snd l)).
  Proof.
    apply (si_file _ _ _ _ _ Hinv). intros g t Hn Hpc.
    destruct (final_thread g t Hn) as [_ [Hi _]]. congruence.
  Qed.

  Lemma final_prog_in_log k : In k (concat prog) -> In k (map snd l).
  Proof.
    intros Hin. apply in_concat in Hin as [pg [Hpg Hk]].
    apply In_nth_error in Hpg as [g Hg].
    destruct (final_prog g pg Hg) as [Hpr _]. rewrite <- Hpr in Hk. now apply proj_in in Hk.
  Qed.
End Final.

(* THE MAIN THEOREM.  Repaired protocol, entries level.
   Initial file: the rendering of well-formed entries [es0] (a missing file counts as
   empty).  Goroutines [prog] (one list of calls each) with pairwise distinct headers over
   all calls of all goroutines; every stored text well formed; no body line of es0 and no
   line of any new text equals a header in play.  Then for EVERY schedule that runs all
   goroutines to completion: *)
Theorem serialisable (es0 : list entry) (f0 : option bytes) (prog : list (list call))
        (sch : list nat) (c : cfg) :
  content f0 = render es0 ->
  Forall wf_entry es0 ->
  no_collisions (map cl_tid (concat prog)) es0 ->
  NoDup (map cl_tid (concat prog)) ->
  Forall (ok_call (map cl_tid (concat prog))) (concat prog) ->
  run_sched Repaired (init_cfg f0 prog) sch = Some c ->
  finished c = true ->
  let L := lin_order Repaired (init_cfg f0 prog) sch in
  let es' := es_of es0 (map snd L) in
  (* (a) every call gets the outcome it gets when run ALONE against the initial file *)
  outcomes c = map (map (fun k => snd (run_alone Repaired f0 k))) prog /\
  outcomes c = map (map (spec_outcome es0)) prog /\
  (* (b) the final file is a rendering of well-formed entries ... *)
  content (final_file c) = render es' /\
  Forall wf_entry es' /\
  (* ... in which every adding / updating call's slot holds its text, *)
  (forall k, In k (concat prog) ->
             spec_outcome es0 k = OAdded \/ spec_outcome es0 k = OUpdated ->
             lookup_entry (cl_tid k) es' = Some (cl_snap k)) /\
  (* every header not addressed by an adding / updating call is as it was, *)
  (forall h, (forall k, In k (concat prog) -> is_writer es0 k = true -> cl_tid k <> h) ->
             lookup_entry h es' = lookup_entry h es0) /\
  (* and the ids are those of es0 followed by the headers of the added calls, each once *)
  (exists added, map fst es' = map fst es0 ++ added /\
                 Permutation added (map cl_tid (filter (is_added es0) (concat prog)))) /\
  (* (c) L is a serial order (an interleaving of the goroutines' programs) whose serial
     run gives the same file content and the same outcomes *)
  (forall g pg, nth_error prog g = Some pg -> proj g L = pg) /\
  content (fst (run_serial Repaired f0 L)) = content (final_file c) /\
  group_outcomes (length prog) (snd (run_serial Repaired f0 L)) = outcomes c.
Proof.
  intros Hf0 Hwf0 Hnc0 Hnd Hok Hrun Hfin L es'.
  set (H := map cl_tid (concat prog)) in *.
  assert (Hinv : sched_inv H es0 prog c L).
  { change L with ([] ++ L). eapply sched_inv_run; [exact Hwf0|exact Hnc0| |exact Hrun].
    now apply sched_inv_init. }
  pose proof (final_outcomes H es0 prog c L Hinv Hfin) as Hout.
  pose proof (inv_log_nodup H es0 prog c L Hinv) as HndL.
  pose proof (si_logok _ _ _ _ _ Hinv) as HokL.
  split; [|split; [exact Hout|]].
  { rewrite Hout. apply map_ext_in. intros pg Hpg. apply map_ext_in. intros k Hk.
    symmetry. apply (spec_outcome_alone H es0 Hwf0 Hnc0 Repaired f0 k Hf0).
    rewrite Forall_forall in Hok. apply Hok. apply in_concat. now exists pg. }
  split; [now apply (final_file_render H es0 prog c L)|].
  split; [now apply (es_of_wf H)|].
  split.
  { intros k Hk Hw. apply es_lookup_written; [exact HndL| |].
    - now apply (final_prog_in_log H es0 prog c L).
    - unfold is_writer, is_added, is_updated. destruct Hw as [-> | ->]; reflexivity. }
  split.
  { intros h Hh. apply es_lookup_untouched. intros k Hk. apply Hh.
    now apply (inv_log_in_prog H es0 prog c L). }
  split.
  { exists (map cl_tid (filter (is_added es0) (map snd L))). split; [apply es_of_ids|].
    apply NoDup_Permutation.
    - now apply NoDup_map_filter.
    - now apply NoDup_map_filter.
    - intros h. rewrite !in_map_iff. split; intros [k [Hk Hin]]; exists k; (split; [exact Hk|]);
        apply filter_In in Hin as [Hin Hp]; apply filter_In; (split; [|exact Hp]).
      + now apply (inv_log_in_prog H es0 prog c L).
      + now apply (final_prog_in_log H es0 prog c L). }
  split.
  { intros g pg Hpg. now destruct (final_prog H es0 prog c L Hinv Hfin g pg Hpg). }
  assert (HndL' : NoDup (map cl_tid ([] ++ map snd L))) by exact HndL.
  destruct (run_serial_spec H es0 Hwf0 Hnc0 Repaired L [] f0 Hf0 (Forall_nil _) HokL HndL')
    as [Hs1 Hs2].
  split.
  { rewrite Hs1. symmetry. now apply (final_file_render H es0 prog c L). }
  rewrite Hs2, Hout. unfold group_outcomes.
  rewrite (map_ext _ (fun g => map (spec_outcome es0) (proj g L)))
    by (intros g; apply proj_map_outcomes).
  apply (map_seq_nth_error (fun g => map (spec_outcome es0) (proj g L)) (map (spec_outcome es0)) prog 0).
  intros g pg Hpg. cbn [plus].
  now destruct (final_prog H es0 prog c L Hinv Hfin g pg Hpg) as [-> _].
Qed.

(* ================================================================== *)
(* 9. any serial order                                                 *)
(* ================================================================== *)

Lemma existsb_false_forall {A} (f : A -> bool) l :
  existsb f l = false -> forall x, In x l -> f x = false.
Proof.
  intros He x Hin. destruct (f x) eqn:E; [|reflexivity].
  assert (existsb f l = true) by (apply existsb_exists; now exists x). congruence.
Qed.

(* two serial orders of the same calls give the same slot contents (the order of the
   appended entries in the file may differ, nothing else) *)
Lemma es_of_lookup_perm es0 l1 l2 h :
  NoDup (map cl_tid l1) -> Permutation l1 l2 ->
  lookup_entry h (es_of es0 l1) = lookup_entry h (es_of es0 l2).
Proof.
  intros Hnd Hp.
  assert (Hnd2 : NoDup (map cl_tid l2)).
  { eapply Permutation_NoDup; [|exact Hnd]. now apply Permutation_map. }
  destruct (existsb (fun k => is_writer es0 k && beq (cl_tid k) h) l1) eqn:E.
  - apply existsb_exists in E as [k [Hin Hk]]. apply andb_prop in Hk as [Hw Hh].
    apply beq_eq in Hh. subst h.
    rewrite (es_lookup_written es0 l1 k Hnd Hin Hw).
    symmetry. apply es_lookup_written; [exact Hnd2| |exact Hw].
    eapply Permutation_in; eassumption.
  - pose proof (existsb_false_forall _ _ E) as Hall. cbn beta in Hall.
    rewrite !es_lookup_untouched; [reflexivity| |].
    + intros k Hin Hw Hh. apply Permutation_sym in Hp.
      specialize (Hall k (Permutation_in _ Hp Hin)). rewrite Hw in Hall. cbn in Hall.
      apply beq_neq in Hall. contradiction.
    + intros k Hin Hw Hh. specialize (Hall k Hin). rewrite Hw in Hall. cbn in Hall.
      apply beq_neq in Hall. contradiction.
Qed.

(* Every serial order of calls with pairwise distinct headers gives every call the outcome
   it has alone against the initial file, and a file that is the rendering of [es_of]. *)
Theorem serial_any_order (es0 : list entry) (f0 : option bytes) (p : protocol)
        (l : list (nat * call)) :
  let H := map cl_tid (map snd l) in
  content f0 = render es0 -> Forall wf_entry es0 -> no_collisions H es0 ->
  NoDup H -> Forall (ok_call H) (map snd l) ->
  snd (run_serial p f0 l) = map (fun x => (fst x, snd (run_alone p f0 (snd x)))) l /\
  content (fst (run_serial p f0 l)) = render (es_of es0 (map snd l)).
Proof.
  intros H Hf0 Hwf0 Hnc0 Hnd Hok.
  destruct (run_serial_spec H es0 Hwf0 Hnc0 p l [] f0 Hf0 (Forall_nil _) Hok Hnd) as [H1 H2].
  split; [|exact H1]. rewrite H2. apply map_ext_in. intros [g k] Hin. cbn [fst snd].
  f_equal. symmetry. apply (spec_outcome_alone H es0 Hwf0 Hnc0 p f0 k Hf0).
  rewrite Forall_forall in Hok. apply Hok. apply in_map_iff. now exists (g, k).
Qed.

(* hence: two serial orders of the same calls agree on every outcome and every slot *)
Corollary serial_orders_agree (es0 : list entry) (f0 : option bytes) (p : protocol)
          (l1 l2 : list (nat * call)) (h : bytes) :
  let H := map cl_tid (map snd l1) in
  content f0 = render es0 -> Forall wf_entry es0 -> no_collisions H es0 ->
  NoDup H -> Forall (ok_call H) (map snd l1) -> Permutation l1 l2 ->
  Permutation (snd (run_serial p f0 l1)) (snd (run_serial p f0 l2)) /\
  exists e1 e2,
    content (fst (run_serial p f0 l1)) = render e1 /\
    content (fst (run_serial p f0 l2)) = render e2 /\
    lookup_entry h e1 = lookup_entry h e2.
Proof.
  intros H Hf0 Hwf0 Hnc0 Hnd Hok Hp.
  assert (Hp' : Permutation (map snd l1) (map snd l2)) by now apply Permutation_map.
  assert (Hincl : forall x, In x (map cl_tid (map snd l2)) -> In x H).
  { intros x Hx. eapply Permutation_in; [|exact Hx].
    apply Permutation_map. now apply Permutation_sym. }
  assert (Hnd2 : NoDup (map cl_tid (map snd l2))).
  { eapply Permutation_NoDup; [|exact Hnd]. now apply Permutation_map. }
  assert (Hnc2 : no_collisions (map cl_tid (map snd l2)) es0).
  { intros x Hx. apply Hnc0. now apply Hincl. }
  assert (Hok2 : Forall (ok_call (map cl_tid (map snd l2))) (map snd l2)).
  { apply Forall_forall. intros k Hk. rewrite Forall_forall in Hok.
    destruct (Hok k (Permutation_in _ (Permutation_sym Hp') Hk)) as [Hi [Hw Hs]].
    split; [now apply in_map|]. split; [exact Hw|]. intros x Hx. apply Hs. now apply Hincl. }
  destruct (serial_any_order es0 f0 p l1 Hf0 Hwf0 Hnc0 Hnd Hok) as [Ho1 Hc1].
  destruct (serial_any_order es0 f0 p l2 Hf0 Hwf0 Hnc2 Hnd2 Hok2) as [Ho2 Hc2].
  split.
  - rewrite Ho1, Ho2. now apply Permutation_map.
  - exists (es_of es0 (map snd l1)), (es_of es0 (map snd l2)).
    split; [exact Hc1|]. split; [exact Hc2|]. now apply es_of_lookup_perm.
Qed.

(* ================================================================== *)
(* 10. the Repaired protocol never deadlocks                           *)
(* ================================================================== *)

Lemma idle_inv_step p c g c' : idle_inv c -> sched_step p c g = Some c' -> idle_inv c'.
Proof.
  intros Hi Hs. destruct (sched_step_inv _ _ _ _ Hs) as [t [k [rest [Hn [Hcalls [_ ->]]]]]].
  intros g2 t2 Hy Hc2. cbn [g_threads] in Hy.
  destruct (nth_error_set_nth_cases _ _ _ _ _ _ Hn Hy) as [[-> ->]|[Hne Hy']].
  - unfold advance in *. rewrite Hcalls in *.
    destruct (t_pc t); try (destruct (decide k (t_read t))); try destruct p;
      cbn [set_pc set_pc_read finish_call t_calls t_pc] in *; try reflexivity; congruence.
  - now apply (Hi g2).
Qed.

Lemma idle_inv_run p c sch c' : idle_inv c -> run_sched p c sch = Some c' -> idle_inv c'.
Proof. apply (run_sched_ind idle_inv p). intros ? ? ?. apply idle_inv_step. Qed.

Lemma quiescent_idle_inv c : quiescent c -> idle_inv c.
Proof.
  intros [_ [_ Hall]] g t Hn _. rewrite Forall_forall in Hall. apply Hall.
  eapply nth_error_In; exact Hn.
Qed.

Lemma forallb_false_nth {A} (f : A -> bool) l :
  forallb f l = false -> exists g x, nth_error l g = Some x /\ f x = false.
Proof.
  induction l as [|a l IH]; cbn [forallb]; [discriminate|].
  destruct (f a) eqn:E; cbn [andb].
  - intros Hf. destruct (IH Hf) as [g [x [Hn Hx]]]. now exists (S g), x.
  - intros _. now exists 0, a.
Qed.

Lemma count_r_pos_nth ths :
  0 < count_r ths -> exists g t, nth_error ths g = Some t /\ holds_r t = true.
Proof.
  unfold count_r. induction ths as [|a l IH]; cbn [filter length]; [lia|].
  destruct (holds_r a) eqn:E.
  - intros _. now exists 0, a.
  - intros Hp. destruct (IH Hp) as [g [t [Hn Ht]]]. now exists (S g), t.
Qed.

Lemma sched_step_enabled p c g t k rest :
  nth_error (g_threads c) g = Some t -> t_calls t = k :: rest ->
  enabled (g_sh c) g (ev_at k (t_pc t) (t_read t)) = true ->
  exists c', sched_step p c g = Some c'.
Proof.
  intros Hn Hcalls Hen. unfold sched_step, next_ev. rewrite Hn, Hcalls, Hen. eauto.
Qed.

(* in every reachable configuration that is not finished some goroutine can move *)
Theorem repaired_progress c0 sch c :
  quiescent c0 -> run_sched Repaired c0 sch = Some c -> finished c = false ->
  exists g c', sched_step Repaired c g = Some c'.
Proof.
  intros Hq Hr Hfin.
  assert (Hlock : lock_inv c) by (eapply lock_inv_run; [|exact Hr]; now apply quiescent_lock_inv).
  assert (Hidle : idle_inv c) by (eapply idle_inv_run; [|exact Hr]; now apply quiescent_idle_inv).
  destruct Hlock as [Hcnt [Hw1 [Hw2 Hw0]]].
  destruct (wlock (g_sh c)) as [gw|] eqn:Hwl.
  - (* the writer can always continue *)
    destruct (Hw2 gw eq_refl) as [t [Hn Hh]]. exists gw.
    destruct (t_calls t) as [|k rest] eqn:Hcalls.
    { unfold holds_w in Hh. rewrite (Hidle _ _ Hn Hcalls) in Hh. discriminate. }
    eapply sched_step_enabled; [exact Hn|exact Hcalls|].
    unfold holds_w in Hh. destruct (t_pc t); try discriminate; reflexivity.
  - destruct (rlocks (g_sh c)) as [|r] eqn:Hrl.
    + (* nothing is held: any unfinished goroutine can take its next step *)
      apply forallb_false_nth in Hfin as [g [t [Hn Hd]]]. exists g.
      unfold thread_done in Hd. destruct (t_calls t) as [|k rest] eqn:Hcalls; [discriminate|].
      eapply sched_step_enabled; [exact Hn|exact Hcalls|].
      assert (Hnw : holds_w t = false).
      { destruct (holds_w t) eqn:E; [|reflexivity]. pose proof (Hw1 _ _ Hn E). congruence. }
      assert (Hnr : holds_r t = false) by (eapply count_r_zero; [|exact Hn]; lia).
      unfold holds_w in Hnw. unfold holds_r in Hnr. unfold enabled. rewrite Hwl, Hrl.
      destruct (t_pc t); try discriminate; reflexivity.
    + (* a reader can always continue *)
      destruct (count_r_pos_nth (g_threads c)) as [g [t [Hn Hh]]]; [lia|]. exists g.
      destruct (t_calls t) as [|k rest] eqn:Hcalls.
      { unfold holds_r in Hh. rewrite (Hidle _ _ Hn Hcalls) in Hh. discriminate. }
      eapply sched_step_enabled; [exact Hn|exact Hcalls|].
      unfold holds_r in Hh. destruct (t_pc t); try discriminate; reflexivity.
Qed.

(* a complete schedule of the Repaired protocol for the two calls of the counterexample:
   both entries are in the file, and the serial run in linearisation order agrees *)
Lemma repaired_example :
  exists c,
    run_sched Repaired (init_cfg ex_file ex_prog) ex_sched_ok = Some c /\
    finished c = true /\
    outcomes c = [[OUpdated]; [OAdded]] /\
    final_file c = Some (frame ex_tidA ex_new ++ frame ex_tidB ex_snapB) /\
    map fst (lin_order Repaired (init_cfg ex_file ex_prog) ex_sched_ok) = [0; 1] /\
    fst (run_serial Repaired ex_file (lin_order Repaired (init_cfg ex_file ex_prog) ex_sched_ok))
      = final_file c.
Proof. eexists. split; [vm_compute; reflexivity|]. vm_compute. repeat split. Qed.

(* ================================================================== *)
(* 11. atomicity: the file only changes under the write lock           *)
(* ================================================================== *)

(* Repaired protocol: a step that changes what a read of the file returns is a step of a
   goroutine that is between ELock and EUnlock.  With [mutual_exclusion]: between the
   ERLock and ERUnlock of a goroutine, and between the ELock and EUnlock of a goroutine,
   no OTHER goroutine changes the file, i.e. the phases are atomic. *)
Lemma file_changes_only_under_wlock c g c' :
  sched_step Repaired c g = Some c' ->
  content (final_file c') <> content (final_file c) ->
  exists t, nth_error (g_threads c) g = Some t /\ holds_w t = true.
Proof.
  intros Hs Hne. destruct (sched_step_inv _ _ _ _ Hs) as [t [k [rest [Hn [Hcalls [_ ->]]]]]].
  exists t. split; [exact Hn|]. unfold final_file in Hne. cbn [g_sh] in Hne.
  unfold holds_w. destruct (t_pc t); cbn [ev_at apply_ev set_file file content] in Hne;
    try reflexivity; exfalso; apply Hne; reflexivity.
Qed.

(* the Pinned protocol does not have this property: its EAppend is performed at a pc that
   is reached without ELock (see [pinned_refuted]) *)
