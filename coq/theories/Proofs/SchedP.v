(* SchedP: lemmas on the interleaving model of concurrent Match* calls (Model/Sched.v). *)
From Coq Require Import List NArith Arith Bool Lia Permutation.
Import ListNotations.
From Snaps Require Import Base.Bytes Base.Lines Model.Frame Model.Sched Model.SchedSpec.
From Snaps Require Import Proofs.BytesP Proofs.LinesP Proofs.FrameP Proofs.IsolationP.

(* ================================================================== *)
(* 0. lists: replacing the n-th element                                *)
(* ================================================================== *)

Lemma set_nth_split {A} (l : list A) g t x :
  nth_error l g = Some t ->
  exists l1 l2, l = l1 ++ t :: l2 /\ length l1 = g /\ set_nth g x l = l1 ++ x :: l2.
Proof.
  revert g. induction l as [|y l IH]; intros [|g] Hn; cbn in Hn; try discriminate.
  - injection Hn as ->. exists [], l. repeat split.
  - destruct (IH g Hn) as [l1 [l2 [-> [Hlen Hs]]]].
    exists (y :: l1), l2. cbn. rewrite Hs, Hlen. repeat split.
Qed.

Lemma nth_error_set_nth_eq {A} (l : list A) g t x :
  nth_error l g = Some t -> nth_error (set_nth g x l) g = Some x.
Proof.
  revert g. induction l as [|y l IH]; intros [|g] Hn; cbn in *; try discriminate; auto.
Qed.

Lemma nth_error_set_nth_neq {A} (l : list A) g g' x :
  g' <> g -> nth_error (set_nth g x l) g' = nth_error l g'.
Proof.
  revert g g'. induction l as [|y l IH]; intros g g' Hne; [reflexivity|].
  destruct g as [|g], g' as [|g']; cbn; try reflexivity; try congruence.
  apply IH. congruence.
Qed.

Lemma length_set_nth {A} (l : list A) g x : length (set_nth g x l) = length l.
Proof. revert g. induction l as [|y l IH]; intros [|g]; cbn; auto. Qed.

Lemma map_set_nth {A B} (f : A -> B) (l : list A) g x :
  map f (set_nth g x l) = set_nth g (f x) (map f l).
Proof. revert g. induction l as [|y l IH]; intros [|g]; cbn; auto. now rewrite IH. Qed.

Lemma set_nth_same {A} (l : list A) g t : nth_error l g = Some t -> set_nth g t l = l.
Proof.
  revert g. induction l as [|y l IH]; intros [|g] Hn; cbn in *; try discriminate.
  - now injection Hn as ->.
  - now rewrite IH.
Qed.

(* the thread that moved, or an untouched one *)
Lemma nth_error_set_nth_cases {A} (l : list A) g t x g' y :
  nth_error l g = Some t -> nth_error (set_nth g x l) g' = Some y ->
  (g' = g /\ y = x) \/ (g' <> g /\ nth_error l g' = Some y).
Proof.
  intros Hn Hy. destruct (Nat.eq_dec g' g) as [->|Hne].
  - left. rewrite (nth_error_set_nth_eq _ _ _ _ Hn) in Hy. now injection Hy as <-.
  - right. now rewrite nth_error_set_nth_neq in Hy.
Qed.

Lemma concat_map_set_nth_same {A B} (f : A -> list B) (l : list A) g t t' :
  nth_error l g = Some t -> f t' = f t ->
  concat (map f (set_nth g t' l)) = concat (map f l).
Proof.
  intros Hn Hf. destruct (set_nth_split l g t t' Hn) as [l1 [l2 [-> [_ ->]]]].
  rewrite !map_app. cbn [map]. now rewrite Hf.
Qed.

Lemma concat_map_set_nth_perm {A B} (f : A -> list B) (l : list A) g t t' x :
  nth_error l g = Some t -> f t = x :: f t' ->
  Permutation (concat (map f l)) (x :: concat (map f (set_nth g t' l))).
Proof.
  intros Hn Hf. destruct (set_nth_split l g t t' Hn) as [l1 [l2 [-> [_ ->]]]].
  rewrite !map_app, !concat_app. cbn [map concat]. rewrite Hf. cbn [app].
  symmetry. apply Permutation_middle.
Qed.

(* ================================================================== *)
(* 1. one step, inverted                                               *)
(* ================================================================== *)

Lemma sched_step_inv p c g c' :
  sched_step p c g = Some c' ->
  exists t k rest,
    nth_error (g_threads c) g = Some t /\ t_calls t = k :: rest /\
    enabled (g_sh c) g (ev_at k (t_pc t) (t_read t)) = true /\
    c' = {| g_sh := apply_ev (g_sh c) g (ev_at k (t_pc t) (t_read t));
            g_threads := set_nth g (advance p (g_sh c) t) (g_threads c) |}.
Proof.
  unfold sched_step, next_ev. intros H.
  destruct (nth_error (g_threads c) g) as [t|] eqn:Hn; [|discriminate].
  destruct (t_calls t) as [|k rest] eqn:Hc; [discriminate|].
  destruct (enabled (g_sh c) g (ev_at k (t_pc t) (t_read t))) eqn:He; [|discriminate].
  injection H as <-. exists t, k, rest. repeat split; assumption.
Qed.

Lemma run_sched_app p c s1 s2 :
  run_sched p c (s1 ++ s2) =
  match run_sched p c s1 with Some c' => run_sched p c' s2 | None => None end.
Proof.
  revert c. induction s1 as [|g s1 IH]; intros c; [reflexivity|]. cbn [app run_sched].
  destruct (sched_step p c g); [apply IH|reflexivity].
Qed.

(* an invariant of single steps is an invariant of schedules *)
Lemma run_sched_ind (P : cfg -> Prop) p :
  (forall c g c', P c -> sched_step p c g = Some c' -> P c') ->
  forall sch c c', P c -> run_sched p c sch = Some c' -> P c'.
Proof.
  intros Hstep. induction sch as [|g sch IH]; intros c c' Hc Hr; cbn in Hr.
  - now injection Hr as <-.
  - destruct (sched_step p c g) as [c1|] eqn:Hs; [|discriminate].
    eapply IH; [|exact Hr]. eapply Hstep; eassumption.
Qed.

(* ================================================================== *)
(* 2. the lock words agree with the program counters (Repaired)        *)
(* ================================================================== *)

Lemma count_r_set_nth ths g t t' :
  nth_error ths g = Some t ->
  count_r (set_nth g t' ths) + (if holds_r t then 1 else 0) =
  count_r ths + (if holds_r t' then 1 else 0).
Proof.
  intros Hn. destruct (set_nth_split ths g t t' Hn) as [l1 [l2 [-> [_ ->]]]].
  unfold count_r. rewrite !filter_app, !app_length. cbn [filter].
  destruct (holds_r t), (holds_r t'); cbn [length]; lia.
Qed.

Lemma count_r_pos ths g t : nth_error ths g = Some t -> holds_r t = true -> 0 < count_r ths.
Proof.
  intros Hn Hr. destruct (set_nth_split ths g t t Hn) as [l1 [l2 [-> _]]].
  unfold count_r. rewrite filter_app, app_length. cbn [filter]. rewrite Hr. cbn [length]. lia.
Qed.

Lemma count_r_zero ths g t : count_r ths = 0 -> nth_error ths g = Some t -> holds_r t = false.
Proof.
  intros Hz Hn. destruct (holds_r t) eqn:E; [|reflexivity].
  pose proof (count_r_pos _ _ _ Hn E). lia.
Qed.

Lemma quiescent_lock_inv c : quiescent c -> lock_inv c.
Proof.
  intros [Hr [Hw Hall]]. unfold lock_inv. rewrite Hr, Hw.
  assert (Hpc : forall g t, nth_error (g_threads c) g = Some t -> t_pc t = PIdle).
  { intros g t Hn. rewrite Forall_forall in Hall. apply Hall. eapply nth_error_In; eassumption. }
  split; [|split; [|split]].
  - unfold count_r. symmetry. apply length_zero_iff_nil.
    induction (g_threads c) as [|t l IH]; [reflexivity|]. cbn [filter].
    inversion Hall as [|? ? Ht Hl]; subst. unfold holds_r at 1. rewrite Ht. apply IH; [assumption|].
    intros g t' Hn. apply (Hpc (S g)). exact Hn.
  - intros g t Hn Hh. unfold holds_w in Hh. rewrite (Hpc _ _ Hn) in Hh. discriminate.
  - intros g Hg. discriminate.
  - intros _. reflexivity.
Qed.

Lemma init_quiescent f prog : quiescent (init_cfg f prog).
Proof.
  unfold quiescent, init_cfg. cbn. repeat split. apply Forall_forall.
  intros t Ht. apply in_map_iff in Ht as [cs [<- _]]. reflexivity.
Qed.

(* the other threads are untouched by a step of [g] *)
Ltac other_thread Hn Hy :=
  let H := fresh "Hcase" in
  destruct (nth_error_set_nth_cases _ _ _ _ _ _ Hn Hy) as [[-> ->]|[H Hy']].

Lemma lock_inv_step c g c' :
  lock_inv c -> sched_step Repaired c g = Some c' -> lock_inv c'.
Proof.
  intros [Hcnt [Hw1 [Hw2 Hw0]]] Hs.
  destruct (sched_step_inv _ _ _ _ Hs) as [t [k [rest [Hn [Hcalls [Hen ->]]]]]].
  pose proof (count_r_set_nth (g_threads c) g t (advance Repaired (g_sh c) t) Hn) as Hc2.
  assert (Hme : holds_w t = true -> wlock (g_sh c) = Some g) by (apply Hw1; exact Hn).
  assert (Hothers : forall g' t', g' <> g -> nth_error (g_threads c) g' = Some t' ->
                                  holds_w t' = true -> wlock (g_sh c) = Some g')
    by (intros; eapply Hw1; eassumption).
  assert (Hpos : holds_r t = true -> 0 < count_r (g_threads c))
    by (apply count_r_pos with (g := g); exact Hn).
  unfold lock_inv. cbn [g_sh g_threads].
  unfold advance in *. rewrite Hcalls in *.
  destruct (t_pc t) eqn:Hpc; cbn [ev_at] in *;
    try (destruct (decide k (t_read t)) as [| |o]);
    unfold enabled in Hen; cbn [apply_ev set_file file rlocks wlock];
    unfold holds_r, holds_w in Hc2, Hme, Hpos; rewrite Hpc in Hc2, Hme, Hpos;
    cbn [holds_r holds_w set_pc set_pc_read finish_call t_pc] in Hc2;
    (repeat split;
     [ lia
     | intros g' t' Hy Hh;
       destruct (nth_error_set_nth_cases _ _ _ _ _ _ Hn Hy) as [[-> ->]|[Hne Hy']];
       [ try (cbn in Hh; discriminate Hh); try (apply Hme; reflexivity); try reflexivity
       | pose proof (Hothers _ _ Hne Hy' Hh) as Ho;
         try (rewrite Hme in Ho by reflexivity; congruence);
         try (destruct (wlock (g_sh c)); congruence); try exact Ho ]
     | intros g' Hg';
       try discriminate Hg';
       try (injection Hg' as <-; eexists; split;
            [eapply nth_error_set_nth_eq; exact Hn|reflexivity]);
       try (destruct (Hw2 _ Hg') as [t' [Hy' Hh']];
            destruct (Nat.eq_dec g' g) as [->|Hne];
            [ rewrite Hn in Hy'; injection Hy' as <-;
              try (unfold holds_w in Hh'; rewrite Hpc in Hh'; discriminate Hh');
              eexists; split; [eapply nth_error_set_nth_eq; exact Hn|reflexivity]
            | exists t'; split; [rewrite nth_error_set_nth_neq by exact Hne; exact Hy'|exact Hh'] ])
     | intros Hnn;
       try (destruct (wlock (g_sh c)); [discriminate Hen|congruence]);
       try (destruct (wlock (g_sh c)); [discriminate Hen|]; apply Nat.eqb_eq in Hen; exact Hen);
       try congruence;
       try (pose proof (Hw0 Hnn); lia) ]).
Qed.
