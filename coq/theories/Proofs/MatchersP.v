(* MatchersP: theorems about the matcher model (Model/Matchers.v) for C15 / C16 / C17.

   Paths are TEXTS that are resolved against the document they are applied to ([steps_of]: in an
   array a numeric component is an index, everywhere else a key), so "the" step list of a path
   depends on the running document.  Disjointness is therefore stated document-independently:
     [cdisj comps q]   every possible resolution of the components [comps] is disjoint from the
                       step list [q];
     [cdisj2 c1 c2]    every resolution of [c1] is disjoint from every resolution of [c2];
     [pdisj p q], [paths_disj p1 p2]  the same for path texts.
   All of them are boolean functions (so they can be computed). *)
From Coq Require Import String.
From Coq Require Import List NArith Arith Bool Lia.
Import ListNotations.
From Snaps Require Import Base.Bytes Base.Lines Model.Json Model.JsonSpec Model.Matchers.
From Snaps Require Import Proofs.BytesP Proofs.JsonP.

(* ================================================================== *)
(* 0. specification-level definitions                                   *)

(* can component [c] resolve to step [st] in some document? *)
Definition comp_may (c : bytes) (st : pstep) : bool :=
  match st with
  | PKey k => beq c k
  | PIdx i => match comp_index c with Some n => Nat.eqb n i | None => false end
  end.

Definition may_resolve (comps : list bytes) (sts : list pstep) : Prop :=
  Forall2 (fun c st => comp_may c st = true) comps sts.

(* every resolution of [comps] is disjoint (no prefix relation) from [q] *)
Fixpoint cdisj (comps : list bytes) (q : list pstep) : bool :=
  match comps, q with
  | c :: cs, st :: q' => if comp_may c st then cdisj cs q' else true
  | _, _ => false
  end.

(* can the two components resolve to the same step? *)
Definition comp_clash (a b : bytes) : bool :=
  beq a b ||
  match comp_index a, comp_index b with Some n, Some m => Nat.eqb n m | _, _ => false end.

Fixpoint cdisj2 (c1 c2 : list bytes) : bool :=
  match c1, c2 with
  | a :: r1, b :: r2 => if comp_clash a b then cdisj2 r1 r2 else true
  | _, _ => false
  end.

(* a path text against an observation path; an unsupported path never changes anything *)
Definition pdisj (p : bytes) (q : list pstep) : bool :=
  match path_comps p with Some comps => cdisj comps q | None => true end.

(* two SIMPLE path texts that can never overlap *)
Definition paths_disj (p1 p2 : bytes) : bool :=
  match path_comps p1, path_comps p2 with
  | Some c1, Some c2 => cdisj2 c1 c2
  | _, _ => false
  end.

Fixpoint pairwise_disj (ps : list bytes) : bool :=
  match ps with
  | [] => true
  | p :: r => forallb (paths_disj p) r && pairwise_disj r
  end.

Definition all_paths (ms : list matcher) : list bytes := flat_map matcher_paths ms.

Definition ok_paths (ms : list matcher) : Prop :=
  forall p, In p (all_paths ms) -> path_comps p <> None.

(* strict prefix on step lists *)
Fixpoint sprefix (q p : list pstep) : bool :=
  match q, p with
  | [], _ :: _ => true
  | a :: q', b :: p' => pstep_eqb a b && sprefix q' p'
  | _, _ => false
  end.

Definition is_scalar (v : jv) : bool :=
  match v with JArr _ | JObj _ => false | _ => true end.

(* same top-level shape: same keys in the same order / same length / same scalar *)
Definition same_top_shape (v v' : jv) : Prop :=
  match v, v' with
  | JObj m, JObj m' => map fst m' = map fst m
  | JArr l, JArr l' => length l' = length l
  | JObj _, _ | JArr _, _ => False
  | _, _ => v' = v
  end.

(* the first step of a path whose first component is [c], in document [v] *)
Definition first_step (v : jv) (c : bytes) : pstep :=
  match v with
  | JArr _ => match comp_index c with Some i => PIdx i | None => PKey c end
  | _ => PKey c
  end.

(* the document handed to the NEXT matcher, and this matcher's errors *)
Definition step_matcher (m : matcher) (v : jv) : jv * list merr :=
  let (v1, e1) := apply_matcher m v in
  match e1 with [] => (v1, []) | _ :: _ => (v, e1) end.

(* ================================================================== *)
(* 1. path resolution                                                   *)

Lemma steps_of_cons v c rest :
  steps_of v (c :: rest) =
  first_step v c :: match step_get v (first_step v c) with
                    | Some x => steps_of x rest
                    | None => map PKey rest
                    end.
Proof. destruct v; reflexivity. Qed.

Lemma comp_may_key c : comp_may c (PKey c) = true.
Proof. cbn. apply beq_refl. Qed.

Lemma comp_may_first v c : comp_may c (first_step v c) = true.
Proof.
  unfold first_step. destruct v; try apply comp_may_key.
  destruct (comp_index c) as [i|] eqn:E; [|apply comp_may_key].
  cbn. rewrite E. apply Nat.eqb_refl.
Qed.

Lemma may_resolve_keys comps : may_resolve comps (map PKey comps).
Proof. induction comps; constructor; auto using comp_may_key. Qed.

Lemma steps_of_may comps : forall v, may_resolve comps (steps_of v comps).
Proof.
  induction comps as [|c rest IH]; intros v; [constructor|].
  rewrite steps_of_cons. constructor; [apply comp_may_first|].
  destruct (step_get v (first_step v c)); [apply IH|apply may_resolve_keys].
Qed.

Lemma steps_of_length comps v : length (steps_of v comps) = length comps.
Proof.
  generalize (steps_of_may comps v). induction 1; cbn [length]; auto.
Qed.

Lemma pstep_eqb_refl a : pstep_eqb a a = true.
Proof. destruct a; cbn; [apply beq_refl|apply Nat.eqb_refl]. Qed.

Lemma pstep_eqb_sym a b : pstep_eqb a b = pstep_eqb b a.
Proof. destruct a, b; cbn; auto using beq_sym, Nat.eqb_sym. Qed.

Lemma pstep_eqb_neq a b : pstep_eqb a b = false -> a <> b.
Proof. intros H ->. now rewrite pstep_eqb_refl in H. Qed.

Lemma disjoint_paths_sym p : forall q, disjoint_paths p q = disjoint_paths q p.
Proof.
  induction p as [|a p IH]; intros [|b q]; cbn; auto.
  rewrite (pstep_eqb_sym b a). destruct (pstep_eqb a b); auto.
Qed.

Lemma cdisj_may comps sts : may_resolve comps sts ->
  forall q, cdisj comps q = true -> disjoint_paths sts q = true.
Proof.
  induction 1 as [|c st cs sts Hc _ IH]; intros q Hq; [discriminate|].
  destruct q as [|sq q]; [discriminate|]. cbn [cdisj] in Hq. cbn [disjoint_paths].
  destruct (pstep_eqb st sq) eqn:E; [|reflexivity].
  apply pstep_eqb_eq in E. subst sq. rewrite Hc in Hq. now apply IH.
Qed.

(* the boolean check is sound for every document *)
Lemma cdisj_sound comps q w : cdisj comps q = true -> disjoint_paths (steps_of w comps) q = true.
Proof. intros H. eapply cdisj_may; eauto using steps_of_may. Qed.

Lemma comp_clash_sym a b : comp_clash a b = comp_clash b a.
Proof.
  unfold comp_clash. rewrite (beq_sym a b). f_equal.
  destruct (comp_index a), (comp_index b); auto using Nat.eqb_sym.
Qed.

Lemma cdisj2_sym c1 : forall c2, cdisj2 c1 c2 = cdisj2 c2 c1.
Proof.
  induction c1 as [|a r1 IH]; intros [|b r2]; cbn; auto.
  rewrite (comp_clash_sym b a). destruct (comp_clash a b); auto.
Qed.

Lemma comp_may_clash a b st : comp_may a st = true -> comp_may b st = true -> comp_clash a b = true.
Proof.
  unfold comp_clash. destruct st as [k|i]; cbn.
  - intros Ha Hb. apply beq_eq in Ha, Hb. subst. now rewrite beq_refl.
  - destruct (comp_index a) as [n|]; [|discriminate]. destruct (comp_index b) as [m|]; [|discriminate].
    intros Ha Hb. apply Nat.eqb_eq in Ha, Hb. subst. rewrite Nat.eqb_refl. apply orb_true_r.
Qed.

Lemma cdisj2_may c2 q : may_resolve c2 q -> forall c1, cdisj2 c1 c2 = true -> cdisj c1 q = true.
Proof.
  induction 1 as [|b sq r2 q Hb _ IH]; intros [|a r1] H; try discriminate.
  cbn [cdisj2] in H. cbn [cdisj].
  destruct (comp_may a sq) eqn:Ea; [|reflexivity].
  rewrite (comp_may_clash a b sq Ea Hb) in H. now apply IH.
Qed.

Lemma cdisj2_sound c1 c2 w1 w2 :
  cdisj2 c1 c2 = true -> disjoint_paths (steps_of w1 c1) (steps_of w2 c2) = true.
Proof. intros H. apply cdisj_sound. eapply cdisj2_may; eauto using steps_of_may. Qed.

(* (the escape case consumes two bytes, hence the induction on a length bound) *)
Lemma path_comps_aux_nonempty_n n : forall s cur l,
  length s <= n -> path_comps_aux cur s = Some l -> l <> [].
Proof.
  induction n as [|n IH]; intros s cur l Hlen H.
  - destruct s; [|cbn in Hlen; lia]. cbn in H. injection H as <-. discriminate.
  - destruct s as [|c r]; [cbn in H; injection H as <-; discriminate|].
    cbn [path_comps_aux] in H. cbn [length] in Hlen.
    destruct (N.eqb c c_bslash).
    + destruct r as [|e r2]; [injection H as <-; discriminate|].
      apply (IH r2 (e :: cur)); [cbn [length] in Hlen; lia|assumption].
    + destruct (N.eqb c 46).
      * destruct (path_comps_aux [] r); [|discriminate]. cbn in H. injection H as <-. discriminate.
      * destruct (is_path_special c); [discriminate|].
        apply (IH r (c :: cur)); [lia|assumption].
Qed.

Lemma path_comps_aux_nonempty s cur l : path_comps_aux cur s = Some l -> l <> [].
Proof. apply (path_comps_aux_nonempty_n (length s)). apply le_n. Qed.

Lemma path_comps_nonempty p comps : path_comps p = Some comps -> comps <> [].
Proof.
  unfold path_comps. destruct p; [discriminate|]. apply path_comps_aux_nonempty.
Qed.

Lemma steps_of_nonempty comps v : comps <> [] -> steps_of v comps <> [].
Proof. destruct comps; [congruence|]. rewrite steps_of_cons. discriminate. Qed.

(* ================================================================== *)
(* 2. more lens facts: one step of a set, stability of the resolution,  *)
(*    commutation of disjoint sets                                      *)

Lemma get_app p : forall v q, get v (p ++ q) = match get v p with Some x => get x q | None => None end.
Proof.
  induction p as [|st p IH]; intros v q; [reflexivity|].
  cbn [app get]. destruct (step_get v st); auto.
Qed.

Lemma step_get_scalar v st : is_scalar v = true -> step_get v st = None.
Proof. destruct v, st; cbn; congruence. Qed.

(* what a successful set does at its first step *)
Lemma set_step_inv st q y v v2 :
  set v (st :: q) y = Some v2 ->
  exists x0 y0,
    step_get v st = Some x0 /\ step_get v2 st = Some y0 /\ set x0 q y = Some y0 /\
    (forall st', pstep_eqb st st' = false -> step_get v2 st' = step_get v st') /\
    (forall c, first_step v2 c = first_step v c) /\
    same_top_shape v v2.
Proof.
  intros H. destruct st as [k|i]; destruct v as [ | | |raw|raw|l|m]; try discriminate.
  - destruct (set_obj_shape _ _ _ _ _ H) as (m1 & kr & x0 & y0 & m2 & -> & -> & Hk & Hall & Hs).
    exists x0, y0. cbn [step_get]. rewrite !find_member_skip by assumption.
    cbn [find_member]. rewrite Hk. repeat split; auto.
    + intros [k'|j] Hne; cbn [step_get]; [|reflexivity].
      apply (find_member_other k k' m1 kr x0 y0 m2 Hk).
      intros ->. cbn in Hne. now rewrite beq_refl in Hne.
    + cbn. rewrite !map_app. reflexivity.
  - destruct (set_arr_shape _ _ _ _ _ H) as (l1 & x0 & y0 & l2 & -> & -> & <- & Hs).
    exists x0, y0. cbn [step_get]. rewrite !nth_error_mid. repeat split; auto.
    + intros [k'|j] Hne; cbn [step_get]; [reflexivity|].
      apply nth_error_mid_other. intros ->. cbn in Hne. now rewrite Nat.eqb_refl in Hne.
    + cbn. rewrite !app_length. reflexivity.
Qed.

Lemma same_top_shape_refl v : same_top_shape v v.
Proof. destruct v; cbn; auto. Qed.

Lemma same_top_shape_trans a b c : same_top_shape a b -> same_top_shape b c -> same_top_shape a c.
Proof.
  destruct a, b; cbn; try tauto; try discriminate; destruct c; cbn; try tauto; try congruence.
Qed.

Lemma set_nonempty_shape p y v v2 : p <> [] -> set v p y = Some v2 -> same_top_shape v v2.
Proof.
  destruct p as [|st q]; [congruence|]. intros _ H.
  destruct (set_step_inv _ _ _ _ _ H) as (x0 & y0 & _ & _ & _ & _ & _ & Hs). exact Hs.
Qed.

Lemma sprefix_refl_false p : sprefix p p = false.
Proof. induction p as [|a p IH]; cbn; auto. now rewrite pstep_eqb_refl. Qed.

Lemma disjoint_not_sprefix p : forall q, disjoint_paths p q = true -> sprefix q p = false.
Proof.
  induction p as [|a p IH]; intros [|b q] H; try discriminate; cbn in *.
  rewrite (pstep_eqb_sym b a). destruct (pstep_eqb a b); cbn [andb]; auto.
Qed.

(* a set that does not happen strictly ABOVE the path leaves the resolution of the path alone *)
Lemma steps_of_set_stable comps : forall v q y v2,
  set v q y = Some v2 -> sprefix q (steps_of v comps) = false ->
  steps_of v2 comps = steps_of v comps.
Proof.
  induction comps as [|c rest IH]; intros v q y v2 H Hp; [reflexivity|].
  rewrite steps_of_cons in Hp. rewrite !steps_of_cons.
  destruct q as [|sq q]; [discriminate|].
  destruct (set_step_inv _ _ _ _ _ H) as (x0 & y0 & Hg & Hg2 & Hs & Hoth & Hfs & _).
  rewrite Hfs. f_equal. cbn [sprefix] in Hp.
  destruct (pstep_eqb sq (first_step v c)) eqn:E.
  - apply pstep_eqb_eq in E. subst sq. rewrite Hg, Hg2. rewrite Hg in Hp.
    cbn [andb] in Hp. now apply (IH x0 q y y0).
  - now rewrite (Hoth _ E).
Qed.

Corollary steps_of_set_same comps v y v2 :
  set v (steps_of v comps) y = Some v2 -> steps_of v2 comps = steps_of v comps.
Proof. intros H. eapply steps_of_set_stable; eauto using sprefix_refl_false. Qed.

Corollary steps_of_set_disjoint comps v q y v2 :
  set v q y = Some v2 -> cdisj comps q = true -> steps_of v2 comps = steps_of v comps.
Proof.
  intros H Hd. eapply steps_of_set_stable; eauto.
  apply disjoint_not_sprefix. now apply cdisj_sound.
Qed.

Lemma key_is_fun k k' kr : key_is k kr = true -> key_is k' kr = true -> k = k'.
Proof. unfold key_is. intros H1 H2. apply beq_eq in H1, H2. congruence. Qed.

Lemma upd_member_comm f g k k' : k <> k' -> forall m m1 m2,
  upd_member f k m = Some m1 -> upd_member g k' m = Some m2 ->
  exists m3, upd_member g k' m1 = Some m3 /\ upd_member f k m2 = Some m3.
Proof.
  intros Hne. induction m as [|[kr x] r IH]; intros m1 m2 H1 H2; [discriminate|].
  cbn [upd_member] in *.
  destruct (key_is k kr) eqn:E1, (key_is k' kr) eqn:E2.
  - exfalso. apply Hne. eapply key_is_fun; eauto.
  - destruct (f x) as [fx|] eqn:Ef; [|discriminate]. injection H1 as <-.
    destruct (upd_member g k' r) as [r2|] eqn:Er; [|discriminate]. injection H2 as <-.
    exists ((kr, fx) :: r2). cbn [upd_member]. now rewrite E1, E2, Ef, Er.
  - destruct (g x) as [gx|] eqn:Eg; [|discriminate]. injection H2 as <-.
    destruct (upd_member f k r) as [r1|] eqn:Er; [|discriminate]. injection H1 as <-.
    exists ((kr, gx) :: r1). cbn [upd_member]. now rewrite E1, E2, Eg, Er.
  - destruct (upd_member f k r) as [r1|] eqn:Er1; [|discriminate]. injection H1 as <-.
    destruct (upd_member g k' r) as [r2|] eqn:Er2; [|discriminate]. injection H2 as <-.
    destruct (IH r1 r2 eq_refl eq_refl) as (r3 & Ha & Hb).
    exists ((kr, x) :: r3). cbn [upd_member]. now rewrite E1, E2, Ha, Hb.
Qed.

Lemma upd_nth_comm f g : forall i j l l1 l2, i <> j ->
  upd_nth f i l = Some l1 -> upd_nth g j l = Some l2 ->
  exists l3, upd_nth g j l1 = Some l3 /\ upd_nth f i l2 = Some l3.
Proof.
  induction i as [|i IH]; intros j l l1 l2 Hne H1 H2; destruct l as [|x r]; try discriminate;
    destruct j as [|j]; try lia; cbn [upd_nth] in *.
  - destruct (f x) as [fx|] eqn:Ef; [|discriminate]. injection H1 as <-.
    destruct (upd_nth g j r) as [r2|] eqn:Er; [|discriminate]. injection H2 as <-.
    exists (fx :: r2). cbn [upd_nth]. now rewrite ?Ef, ?Er.
  - destruct (g x) as [gx|] eqn:Eg; [|discriminate]. injection H2 as <-.
    destruct (upd_nth f i r) as [r1|] eqn:Er; [|discriminate]. injection H1 as <-.
    exists (gx :: r1). cbn [upd_nth]. now rewrite ?Eg, ?Er.
  - destruct (upd_nth f i r) as [r1|] eqn:Er1; [|discriminate]. injection H1 as <-.
    destruct (upd_nth g j r) as [r2|] eqn:Er2; [|discriminate]. injection H2 as <-.
    destruct (IH j r r1 r2 ltac:(lia) Er1 Er2) as (r3 & Ha & Hb).
    exists (x :: r3). cbn [upd_nth]. now rewrite ?Ha, ?Hb.
Qed.

(* sets at disjoint paths commute *)
Theorem set_set_comm p : forall q v x y v1 v2,
  disjoint_paths p q = true -> set v p x = Some v1 -> set v q y = Some v2 ->
  exists v3, set v1 q y = Some v3 /\ set v2 p x = Some v3.
Proof.
  induction p as [|a p IH]; intros q v x y v1 v2 Hd H1 H2; [discriminate|].
  destruct q as [|b q]; [discriminate|]. cbn [disjoint_paths] in Hd.
  destruct (pstep_eqb a b) eqn:E.
  - apply pstep_eqb_eq in E. subst b.
    destruct a as [k|i]; destruct v as [ | | |raw|raw|l|m]; try discriminate.
    + destruct (set_obj_shape _ _ _ _ _ H1) as (m1 & kr & x0 & x1 & m2 & -> & -> & Hk & Hall & Hs1).
      cbn [set] in H2. rewrite upd_member_app in H2 by assumption.
      destruct (set x0 q y) as [y2|] eqn:Hs2; [|discriminate]. injection H2 as <-.
      destruct (IH q x0 x y x1 y2 Hd Hs1 Hs2) as (z & Ha & Hb).
      exists (JObj (m1 ++ (kr, z) :: m2)). cbn [set].
      rewrite !upd_member_app by assumption. now rewrite Ha, Hb.
    + destruct (set_arr_shape _ _ _ _ _ H1) as (l1 & x0 & x1 & l2 & -> & -> & <- & Hs1).
      cbn [set] in H2. rewrite upd_nth_app in H2.
      destruct (set x0 q y) as [y2|] eqn:Hs2; [|discriminate]. injection H2 as <-.
      destruct (IH q x0 x y x1 y2 Hd Hs1 Hs2) as (z & Ha & Hb).
      exists (JArr (l1 ++ z :: l2)). cbn [set]. rewrite !upd_nth_app. now rewrite Ha, Hb.
  - destruct a as [k|i]; destruct v as [ | | |raw|raw|l|m]; try discriminate;
      destruct b as [k'|j]; try discriminate; cbn [set] in *.
    + destruct (upd_member (fun z => set z p x) k m) as [m1|] eqn:E1; [|discriminate].
      destruct (upd_member (fun z => set z q y) k' m) as [m2|] eqn:E2; [|discriminate].
      injection H1 as <-. injection H2 as <-.
      assert (Hne : k <> k') by (intros ->; cbn in E; now rewrite beq_refl in E).
      destruct (upd_member_comm _ _ k k' Hne m m1 m2 E1 E2) as (m3 & Ha & Hb).
      exists (JObj m3). now rewrite Ha, Hb.
    + destruct (upd_nth (fun z => set z p x) i l) as [l1|] eqn:E1; [|discriminate].
      destruct (upd_nth (fun z => set z q y) j l) as [l2|] eqn:E2; [|discriminate].
      injection H1 as <-. injection H2 as <-.
      assert (Hne : i <> j) by (intros ->; cbn in E; now rewrite Nat.eqb_refl in E).
      destruct (upd_nth_comm _ _ i j l l1 l2 Hne E1 E2) as (l3 & Ha & Hb).
      exists (JArr l3). now rewrite Ha, Hb.
Qed.

(* below a scalar there is nothing *)
Lemma get_below_scalar p : forall q v x v',
  set v p x = Some v' -> is_scalar x = true -> sprefix p q = true -> get v' q = None.
Proof.
  induction p as [|a p IH]; intros q v x v' H Hx Hp.
  - cbn in H. injection H as <-. destruct q as [|b q]; [discriminate|].
    cbn [get]. now rewrite step_get_scalar.
  - destruct q as [|b q]; [discriminate|]. cbn [sprefix] in Hp.
    apply andb_true_iff in Hp. destruct Hp as [E Hp]. apply pstep_eqb_eq in E. subst b.
    destruct (set_step_inv _ _ _ _ _ H) as (x0 & y0 & _ & Hg2 & Hs & _).
    cbn [get]. rewrite Hg2. now apply (IH q x0 x y0).
Qed.

Lemma sprefix_app p q : q <> [] -> sprefix p (p ++ q) = true.
Proof.
  intros Hq. induction p as [|a p IH]; cbn.
  - destruct q; congruence.
  - now rewrite pstep_eqb_refl.
Qed.

Lemma steps_of_app c1 : forall v c2,
  steps_of v (c1 ++ c2) =
  steps_of v c1 ++ match get v (steps_of v c1) with
                   | Some w => steps_of w c2
                   | None => map PKey c2
                   end.
Proof.
  induction c1 as [|c r IH]; intros v c2; [reflexivity|].
  cbn [app]. rewrite !steps_of_cons. cbn [app get].
  destruct (step_get v (first_step v c)) as [x|] eqn:E.
  - now rewrite IH.
  - now rewrite map_app.
Qed.

(* ================================================================== *)
(* 3. one path: inversion and computation lemmas                        *)

(* the [None] branch after a successful [get] in [apply_path] is unreachable *)
Lemma apply_path_set_total v sts found x : get v sts = Some found -> set v sts x <> None.
Proof. intros H. apply set_some_iff_get. congruence. Qed.

Lemma apply_path_ok_inv e f v p v' :
  apply_path e f v p = PROk v' ->
  exists comps old x, path_comps p = Some comps /\ get v (steps_of v comps) = Some old /\
                      f old = AReplace x /\ set v (steps_of v comps) x = Some v'.
Proof.
  unfold apply_path. destruct (path_comps p) as [comps|]; [|discriminate].
  destruct (get v (steps_of v comps)) as [old|] eqn:Eg; [|destruct e; discriminate].
  destruct (f old) as [x|r] eqn:Ef; [|discriminate].
  destruct (set v (steps_of v comps) x) as [w|] eqn:Es; [|discriminate].
  intros [= <-]. exists comps, old, x. auto.
Qed.

Lemma apply_path_skip_inv e f v p :
  apply_path e f v p = PRSkip ->
  e = false /\ exists comps, path_comps p = Some comps /\ get v (steps_of v comps) = None.
Proof.
  unfold apply_path. destruct (path_comps p) as [comps|]; [|discriminate].
  destruct (get v (steps_of v comps)) as [old|] eqn:Eg.
  - destruct (f old); [destruct (set v (steps_of v comps) x)|]; discriminate.
  - destruct e; [discriminate|]. intros _. split; eauto.
Qed.

Lemma apply_path_err_inv e f v p r :
  apply_path e f v p = PRErr r ->
  (path_comps p = None /\ r = RUnsupportedPath) \/
  exists comps, path_comps p = Some comps /\
    ((get v (steps_of v comps) = None /\ e = true /\ r = RMissing) \/
     exists old, get v (steps_of v comps) = Some old /\ f old = AFail r).
Proof.
  unfold apply_path. destruct (path_comps p) as [comps|]; [|intros [= <-]; auto].
  intros H. right. exists comps. split; [reflexivity|].
  destruct (get v (steps_of v comps)) as [old|] eqn:Eg.
  - right. exists old. split; [reflexivity|].
    destruct (f old) as [x|r'] eqn:Ef; [|congruence].
    destruct (set v (steps_of v comps) x) eqn:Es; [discriminate|].
    exfalso. eapply apply_path_set_total; eauto.
  - left. destruct e; [|discriminate]. injection H as <-. auto.
Qed.

Lemma apply_path_unsupported e f v p : path_comps p = None -> apply_path e f v p = PRErr RUnsupportedPath.
Proof. unfold apply_path. now intros ->. Qed.

Lemma apply_path_missing e f v p comps :
  path_comps p = Some comps -> get v (steps_of v comps) = None ->
  apply_path e f v p = if e then PRErr RMissing else PRSkip.
Proof. unfold apply_path. now intros -> ->. Qed.

Lemma apply_path_fail e f v p comps old r :
  path_comps p = Some comps -> get v (steps_of v comps) = Some old -> f old = AFail r ->
  apply_path e f v p = PRErr r.
Proof. unfold apply_path. intros -> Hg Hf. cbv zeta. now rewrite Hg, Hf. Qed.

Lemma apply_path_replace e f v p comps old x :
  path_comps p = Some comps -> get v (steps_of v comps) = Some old -> f old = AReplace x ->
  exists v', set v (steps_of v comps) x = Some v' /\ apply_path e f v p = PROk v'.
Proof.
  unfold apply_path. intros -> Hg Hf. cbv zeta. rewrite Hg, Hf.
  destruct (set v (steps_of v comps) x) as [v'|] eqn:Es; [eauto|].
  exfalso. eapply apply_path_set_total; eauto.
Qed.

Lemma jtype_eqb_eq a b : jtype_eqb a b = true <-> a = b.
Proof. destruct a, b; cbn; split; congruence. Qed.

Lemma has_type_iff t v : has_type t v = true <-> type_of v = Some t.
Proof.
  unfold has_type. destruct (type_of v) as [t'|]; [|split; discriminate].
  rewrite jtype_eqb_eq. split; congruence.
Qed.

Lemma has_type_false_iff t v : has_type t v = false <-> type_of v <> Some t.
Proof. rewrite <- has_type_iff. destruct (has_type t v); split; congruence. Qed.

(* ================================================================== *)
(* 4. structure of the two loops                                        *)

Section Loop.
  Variables (k : nat) (e : bool) (f : jv -> action).

  Lemma run_paths_app ps1 : forall ps2 v,
    run_paths k e f (ps1 ++ ps2) v =
    let (v1, e1) := run_paths k e f ps1 v in
    let (v2, e2) := run_paths k e f ps2 v1 in (v2, e1 ++ e2).
  Proof.
    induction ps1 as [|p r IH]; intros ps2 v; cbn [app run_paths].
    - destruct (run_paths k e f ps2 v). reflexivity.
    - destruct (apply_path e f v p) as [v'| |rr]; try apply IH.
      rewrite IH. destruct (run_paths k e f r v) as [v1 e1].
      destruct (run_paths k e f ps2 v1) as [v2 e2]. reflexivity.
  Qed.

  Lemma run_paths_app_fst ps1 ps2 v :
    fst (run_paths k e f (ps1 ++ ps2) v) = fst (run_paths k e f ps2 (fst (run_paths k e f ps1 v))).
  Proof.
    rewrite run_paths_app. destruct (run_paths k e f ps1 v) as [v1 e1]. cbn [fst].
    now destruct (run_paths k e f ps2 v1).
  Qed.

  Lemma run_paths_app_snd ps1 ps2 v :
    snd (run_paths k e f (ps1 ++ ps2) v) =
    snd (run_paths k e f ps1 v) ++ snd (run_paths k e f ps2 (fst (run_paths k e f ps1 v))).
  Proof.
    rewrite run_paths_app. destruct (run_paths k e f ps1 v) as [v1 e1]. cbn [fst snd].
    now destruct (run_paths k e f ps2 v1).
  Qed.

  (* a failing path is reported ... *)
  Lemma run_paths_err_in ps1 p ps2 v r :
    apply_path e f (fst (run_paths k e f ps1 v)) p = PRErr r ->
    In {| me_matcher := k; me_path := p; me_reason := r |} (snd (run_paths k e f (ps1 ++ p :: ps2) v)).
  Proof.
    intros H. rewrite run_paths_app_snd. apply in_or_app. right.
    cbn [run_paths]. rewrite H. destruct (run_paths k e f ps2 _). cbn. auto.
  Qed.

  (* ... and nothing else is *)
  Lemma run_paths_err_sound ps : forall v err,
    In err (snd (run_paths k e f ps v)) ->
    exists ps1 p ps2 r, ps = ps1 ++ p :: ps2 /\
      err = {| me_matcher := k; me_path := p; me_reason := r |} /\
      apply_path e f (fst (run_paths k e f ps1 v)) p = PRErr r.
  Proof.
    induction ps as [|p rest IH]; intros v err H; [contradiction|].
    cbn [run_paths] in H.
    destruct (apply_path e f v p) as [v'| |r] eqn:Ep.
    - destruct (IH v' err H) as (ps1 & p' & ps2 & r & -> & -> & Hr).
      exists (p :: ps1), p', ps2, r. cbn [app run_paths]. rewrite Ep. auto.
    - destruct (IH v err H) as (ps1 & p' & ps2 & r & -> & -> & Hr).
      exists (p :: ps1), p', ps2, r. cbn [app run_paths]. rewrite Ep. auto.
    - destruct (run_paths k e f rest v) as [v2 es] eqn:Er. cbn [snd] in H. destruct H as [<-|H].
      + exists [], p, rest, r. cbn. auto.
      + assert (H' : In err (snd (run_paths k e f rest v))) by now rewrite Er.
        destruct (IH v err H') as (ps1 & p' & ps2 & r' & -> & -> & Hr).
        exists (p :: ps1), p', ps2, r'. cbn [app run_paths]. rewrite Ep.
        destruct (run_paths k e f ps1 v). auto.
  Qed.

  (* a tolerated missing path changes nothing: the other paths are applied as if it were not listed *)
  Lemma run_paths_skip ps1 p ps2 v :
    apply_path e f (fst (run_paths k e f ps1 v)) p = PRSkip ->
    run_paths k e f (ps1 ++ p :: ps2) v = run_paths k e f (ps1 ++ ps2) v.
  Proof.
    intros H. rewrite !run_paths_app. destruct (run_paths k e f ps1 v) as [v1 e1].
    cbn [fst] in H. cbn [run_paths]. now rewrite H.
  Qed.
End Loop.

Lemma step_matcher_snd m v : snd (step_matcher m v) = snd (apply_matcher m v).
Proof. unfold step_matcher. destruct (apply_matcher m v) as [v1 [|x e1]]; reflexivity. Qed.

Lemma step_matcher_fst m v :
  fst (step_matcher m v) = match snd (apply_matcher m v) with [] => fst (apply_matcher m v) | _ :: _ => v end.
Proof. unfold step_matcher. destruct (apply_matcher m v) as [v1 [|x e1]]; reflexivity. Qed.

Lemma apply_matchers_cons m ms v :
  apply_matchers (m :: ms) v =
  let (v1, e1) := step_matcher m v in
  let (v2, e2) := apply_matchers ms v1 in (v2, e1 ++ e2).
Proof.
  unfold step_matcher. cbn [apply_matchers].
  destruct (apply_matcher m v) as [v1 [|x e1]].
  - now destruct (apply_matchers ms v1).
  - reflexivity.
Qed.

Lemma apply_matchers_app ms1 : forall ms2 v,
  apply_matchers (ms1 ++ ms2) v =
  let (v1, e1) := apply_matchers ms1 v in
  let (v2, e2) := apply_matchers ms2 v1 in (v2, e1 ++ e2).
Proof.
  induction ms1 as [|m r IH]; intros ms2 v.
  - cbn [app apply_matchers]. now destruct (apply_matchers ms2 v).
  - cbn [app]. rewrite !apply_matchers_cons. destruct (step_matcher m v) as [w ew].
    rewrite IH. destruct (apply_matchers r w) as [v1 e1].
    destruct (apply_matchers ms2 v1) as [v2 e2]. now rewrite app_assoc.
Qed.

Lemma apply_matchers_app_fst ms1 ms2 v :
  fst (apply_matchers (ms1 ++ ms2) v) = fst (apply_matchers ms2 (fst (apply_matchers ms1 v))).
Proof.
  rewrite apply_matchers_app. destruct (apply_matchers ms1 v) as [v1 e1]. cbn [fst].
  now destruct (apply_matchers ms2 v1).
Qed.

Lemma apply_matchers_app_snd ms1 ms2 v :
  snd (apply_matchers (ms1 ++ ms2) v) =
  snd (apply_matchers ms1 v) ++ snd (apply_matchers ms2 (fst (apply_matchers ms1 v))).
Proof.
  rewrite apply_matchers_app. destruct (apply_matchers ms1 v) as [v1 e1]. cbn [fst snd].
  now destruct (apply_matchers ms2 v1).
Qed.

Lemma apply_matchers_cons_fst m ms v :
  fst (apply_matchers (m :: ms) v) = fst (apply_matchers ms (fst (step_matcher m v))).
Proof.
  rewrite apply_matchers_cons. destruct (step_matcher m v) as [w ew]. cbn [fst].
  now destruct (apply_matchers ms w).
Qed.

Lemma apply_matchers_cons_snd m ms v :
  snd (apply_matchers (m :: ms) v) =
  snd (apply_matcher m v) ++ snd (apply_matchers ms (fst (step_matcher m v))).
Proof.
  rewrite <- step_matcher_snd, apply_matchers_cons. destruct (step_matcher m v) as [w ew]. cbn [fst snd].
  now destruct (apply_matchers ms w).
Qed.

(* ================================================================== *)
(* 5. C15: target replaced, everything disjoint untouched, shape kept   *)

Lemma apply_path_frame e f v p v' q :
  apply_path e f v p = PROk v' -> pdisj p q = true -> get v' q = get v q.
Proof.
  intros H Hd. destruct (apply_path_ok_inv _ _ _ _ _ H) as (comps & old & x & Hc & _ & _ & Hs).
  unfold pdisj in Hd. rewrite Hc in Hd.
  eapply get_set_disjoint; eauto. now apply cdisj_sound.
Qed.

Lemma run_paths_frame k e f ps : forall v q,
  (forall p, In p ps -> pdisj p q = true) -> get (fst (run_paths k e f ps v)) q = get v q.
Proof.
  induction ps as [|p rest IH]; intros v q Hd; [reflexivity|].
  cbn [run_paths]. destruct (apply_path e f v p) as [v'| |r] eqn:Ep.
  - rewrite IH by (intros; apply Hd; now right).
    eapply apply_path_frame; eauto. apply Hd. now left.
  - apply IH. intros; apply Hd; now right.
  - destruct (run_paths k e f rest v) as [v2 es] eqn:Er.
    change v2 with (fst (v2, es)). rewrite <- Er. apply IH. intros; apply Hd; now right.
Qed.

Lemma step_matcher_frame m v q :
  (forall p, In p (matcher_paths m) -> pdisj p q = true) -> get (fst (step_matcher m v)) q = get v q.
Proof.
  intros Hd. rewrite step_matcher_fst. destruct (snd (apply_matcher m v)); [|reflexivity].
  now apply run_paths_frame.
Qed.

(* whatever the matchers do (succeed, fail, get discarded), a path that is disjoint from all their
   paths keeps its value *)
Theorem matchers_others_untouched ms : forall v q,
  (forall p, In p (all_paths ms) -> pdisj p q = true) ->
  get (fst (apply_matchers ms v)) q = get v q.
Proof.
  induction ms as [|m rest IH]; intros v q Hd; [reflexivity|].
  rewrite apply_matchers_cons_fst. unfold all_paths in Hd. cbn [flat_map] in Hd.
  rewrite IH by (intros p Hp; apply Hd, in_or_app; now right).
  apply step_matcher_frame. intros p Hp. apply Hd, in_or_app. now left.
Qed.

Corollary C15_others_untouched_list ms v v' q :
  apply_matchers ms v = (v', []) ->
  (forall p, In p (all_paths ms) -> pdisj p q = true) ->
  get v' q = get v q.
Proof. intros H Hd. rewrite <- (matchers_others_untouched ms v q Hd), H. reflexivity. Qed.

(* a single successful path IS a [set] at the resolved steps: all the C15_* lens theorems apply *)
Theorem matcher_path_is_set e f v p v' :
  apply_path e f v p = PROk v' ->
  exists comps old x, path_comps p = Some comps /\ steps_of v comps <> [] /\
    get v (steps_of v comps) = Some old /\ f old = AReplace x /\
    set v (steps_of v comps) x = Some v' /\ steps_of v' comps = steps_of v comps.
Proof.
  intros H. destruct (apply_path_ok_inv _ _ _ _ _ H) as (comps & old & x & Hc & Hg & Hf & Hs).
  exists comps, old, x. repeat split; auto.
  - apply steps_of_nonempty. eapply path_comps_nonempty; eauto.
  - eapply steps_of_set_same; eauto.
Qed.

(* match.Any(p).Placeholder(x) on a document where p exists: no error, the placeholder sits at p *)
Theorem C15_any_target_replaced p comps x e v :
  path_comps p = Some comps -> get v (steps_of v comps) <> None ->
  exists v', apply_matchers [MAny [p] x e] v = (v', []) /\
    set v (steps_of v comps) x = Some v' /\
    get v' (steps_of v comps) = Some x /\ steps_of v' comps = steps_of v comps.
Proof.
  intros Hc Hg. destruct (get v (steps_of v comps)) as [old|] eqn:Eg; [|congruence].
  destruct (apply_path_replace e (matcher_fun (MAny [p] x e)) v p comps old x Hc Eg eq_refl)
    as (v' & Hs & Hp).
  exists v'. cbn [apply_matchers]. unfold apply_matcher. cbn [matcher_kind matcher_eom matcher_paths run_paths].
  rewrite Hp. repeat split; auto.
  - eapply get_set_same; eauto.
  - eapply steps_of_set_same; eauto.
Qed.

(* and conversely: without an error and with ErrOnMissingPath(true) the path existed *)
Theorem C15_any_no_error_inv p x v v' :
  apply_matchers [MAny [p] x true] v = (v', []) ->
  exists comps, path_comps p = Some comps /\ set v (steps_of v comps) x = Some v' /\
                get v' (steps_of v comps) = Some x.
Proof.
  cbn [apply_matchers]. unfold apply_matcher. cbn [matcher_kind matcher_eom matcher_paths run_paths].
  destruct (apply_path true (matcher_fun (MAny [p] x true)) v p) as [w| |r] eqn:Ep.
  - intros [= <-]. destruct (apply_path_ok_inv _ _ _ _ _ Ep) as (comps & old & x' & Hc & Hg & Hf & Hs).
    cbn in Hf. injection Hf as <-. exists comps. repeat split; auto. eapply get_set_same; eauto.
  - apply apply_path_skip_inv in Ep. destruct Ep as [? _]. discriminate.
  - discriminate.
Qed.

Lemma apply_path_shape e f v p v' : apply_path e f v p = PROk v' -> same_top_shape v v'.
Proof.
  intros H. destruct (matcher_path_is_set _ _ _ _ _ H) as (comps & old & x & _ & Hne & _ & _ & Hs & _).
  eapply set_nonempty_shape; eauto.
Qed.

Lemma run_paths_shape k e f ps : forall v, same_top_shape v (fst (run_paths k e f ps v)).
Proof.
  induction ps as [|p rest IH]; intros v; [apply same_top_shape_refl|].
  cbn [run_paths]. destruct (apply_path e f v p) as [v'| |r] eqn:Ep.
  - eapply same_top_shape_trans; [eapply apply_path_shape; eauto|apply IH].
  - apply IH.
  - destruct (run_paths k e f rest v) as [v2 es] eqn:Er.
    change v2 with (fst (v2, es)). rewrite <- Er. apply IH.
Qed.

(* paths are never empty, so the ROOT value is never replaced: the result is an object with the same
   keys in the same order / an array of the same length / the same scalar *)
Theorem C15_top_shape ms : forall v, same_top_shape v (fst (apply_matchers ms v)).
Proof.
  induction ms as [|m rest IH]; intros v; [apply same_top_shape_refl|].
  rewrite apply_matchers_cons_fst. eapply same_top_shape_trans; [|apply IH].
  rewrite step_matcher_fst. destruct (snd (apply_matcher m v)); [|apply same_top_shape_refl].
  apply run_paths_shape.
Qed.

(* ================================================================== *)
(* 6. left to right                                                     *)

(* within a matcher: the paths are applied one after the other on the running document and the
   errors accumulate *)
Theorem matcher_paths_left_to_right_any p1 ps x e v :
  apply_matcher (MAny (p1 :: ps) x e) v =
  let (v1, e1) := apply_matcher (MAny [p1] x e) v in
  let (v2, e2) := apply_matcher (MAny ps x e) v1 in (v2, e1 ++ e2).
Proof. unfold apply_matcher. cbn [matcher_kind matcher_eom matcher_paths]. apply (run_paths_app 0 e _ [p1] ps v). Qed.

Theorem matcher_paths_left_to_right_type p1 ps t e v :
  apply_matcher (MType (p1 :: ps) t e) v =
  let (v1, e1) := apply_matcher (MType [p1] t e) v in
  let (v2, e2) := apply_matcher (MType ps t e) v1 in (v2, e1 ++ e2).
Proof. unfold apply_matcher. cbn [matcher_kind matcher_eom matcher_paths]. apply (run_paths_app 1 e _ [p1] ps v). Qed.

Corollary matcher_first_path_ok_any p1 ps x e v v1 :
  apply_matcher (MAny [p1] x e) v = (v1, []) ->
  apply_matcher (MAny (p1 :: ps) x e) v = apply_matcher (MAny ps x e) v1.
Proof.
  intros H. rewrite matcher_paths_left_to_right_any, H. now destruct (apply_matcher (MAny ps x e) v1).
Qed.

Corollary matcher_first_path_ok_type p1 ps t e v v1 :
  apply_matcher (MType [p1] t e) v = (v1, []) ->
  apply_matcher (MType (p1 :: ps) t e) v = apply_matcher (MType ps t e) v1.
Proof.
  intros H. rewrite matcher_paths_left_to_right_type, H. now destruct (apply_matcher (MType ps t e) v1).
Qed.

(* across matchers: KEEP rule ... *)
Theorem matchers_keep_rule m ms v :
  snd (apply_matcher m v) = [] ->
  apply_matchers (m :: ms) v = apply_matchers ms (fst (apply_matcher m v)).
Proof. cbn [apply_matchers]. destruct (apply_matcher m v) as [v1 e1]. cbn. now intros ->. Qed.

(* ... and DISCARD rule: the next matcher receives the document the failing matcher received *)
Theorem matchers_discard_rule m ms v :
  snd (apply_matcher m v) <> [] ->
  apply_matchers (m :: ms) v =
  (fst (apply_matchers ms v), snd (apply_matcher m v) ++ snd (apply_matchers ms v)).
Proof.
  cbn [apply_matchers]. destruct (apply_matcher m v) as [v1 [|x e1]]; cbn [snd]; [congruence|].
  intros _. now destruct (apply_matchers ms v).
Qed.

(* an ancestor replaced by a scalar makes every descendant listed after it missing *)
Theorem ancestor_then_descendant x e v p1 p2 c1 c2 :
  path_comps p1 = Some c1 -> path_comps p2 = Some (c1 ++ c2) -> c2 <> [] ->
  is_scalar x = true -> get v (steps_of v c1) <> None ->
  exists v1, set v (steps_of v c1) x = Some v1 /\
    get v1 (steps_of v1 (c1 ++ c2)) = None /\
    apply_matcher (MAny [p1; p2] x e) v =
    (v1, if e then [{| me_matcher := 0; me_path := p2; me_reason := RMissing |}] else []).
Proof.
  intros Hc1 Hc2 Hne Hx Hg. destruct (get v (steps_of v c1)) as [old|] eqn:Eg; [|congruence].
  destruct (apply_path_replace e (matcher_fun (MAny [p1; p2] x e)) v p1 c1 old x Hc1 Eg eq_refl)
    as (v1 & Hs & Hp).
  assert (Hmiss : get v1 (steps_of v1 (c1 ++ c2)) = None).
  { rewrite steps_of_app, (steps_of_set_same c1 v x v1 Hs), (get_set_same _ _ _ _ Hs).
    eapply get_below_scalar; eauto. apply sprefix_app. now apply steps_of_nonempty. }
  exists v1. repeat split; auto.
  unfold apply_matcher. cbn [matcher_kind matcher_eom matcher_paths run_paths]. rewrite Hp.
  rewrite (apply_path_missing e _ v1 p2 (c1 ++ c2) Hc2 Hmiss). now destruct e.
Qed.

(* ================================================================== *)
(* 7. C17: every failing (matcher, path) is named, nothing else is      *)

(* the document matcher [m] receives when it runs after [ms1] (failed matchers discarded), and the
   running document inside [m] when the path that follows [ps1] is reached *)
Definition doc_at (ms1 : list matcher) (m : matcher) (ps1 : list bytes) (v : jv) : jv :=
  fst (run_paths (matcher_kind m) (matcher_eom m) (matcher_fun m) ps1 (fst (apply_matchers ms1 v))).

Definition path_outcome (m : matcher) (w : jv) (p : bytes) : path_result :=
  apply_path (matcher_eom m) (matcher_fun m) w p.

Theorem C17_errors_named ms1 m ms2 ps1 p ps2 v r :
  matcher_paths m = ps1 ++ p :: ps2 ->
  path_outcome m (doc_at ms1 m ps1 v) p = PRErr r ->
  In (mk_err m p r) (snd (apply_matchers (ms1 ++ m :: ms2) v)).
Proof.
  intros Hps H. rewrite apply_matchers_app_snd. apply in_or_app. right.
  rewrite apply_matchers_cons_snd. apply in_or_app. left.
  unfold apply_matcher. rewrite Hps. now apply run_paths_err_in.
Qed.

Corollary C17_errors_nonempty ms1 m ms2 ps1 p ps2 v r :
  matcher_paths m = ps1 ++ p :: ps2 ->
  path_outcome m (doc_at ms1 m ps1 v) p = PRErr r ->
  snd (apply_matchers (ms1 ++ m :: ms2) v) <> [].
Proof.
  intros Hps H E. generalize (C17_errors_named ms1 m ms2 ps1 p ps2 v r Hps H). now rewrite E.
Qed.

Theorem C17_errors_sound ms : forall v err,
  In err (snd (apply_matchers ms v)) ->
  exists ms1 m ms2 ps1 p ps2 r,
    ms = ms1 ++ m :: ms2 /\ matcher_paths m = ps1 ++ p :: ps2 /\ err = mk_err m p r /\
    path_outcome m (doc_at ms1 m ps1 v) p = PRErr r.
Proof.
  induction ms as [|m rest IH]; intros v err H; [contradiction|].
  rewrite apply_matchers_cons_snd in H. apply in_app_or in H. destruct H as [H|H].
  - destruct (run_paths_err_sound _ _ _ _ _ _ H) as (ps1 & p & ps2 & r & Hps & -> & Hr).
    exists [], m, rest, ps1, p, ps2, r. repeat split; auto.
  - destruct (IH _ _ H) as (ms1 & m' & ms2 & ps1 & p & ps2 & r & -> & Hps & -> & Hr).
    exists (m :: ms1), m', ms2, ps1, p, ps2, r. repeat split; auto.
    unfold doc_at in *. cbn [app]. now rewrite apply_matchers_cons_fst.
Qed.

(* when does a path fail?  exactly in the four ways below *)
Theorem path_fails_iff m w p r :
  path_outcome m w p = PRErr r <->
  (path_comps p = None /\ r = RUnsupportedPath) \/
  exists comps, path_comps p = Some comps /\
    ((get w (steps_of w comps) = None /\ matcher_eom m = true /\ r = RMissing) \/
     exists old, get w (steps_of w comps) = Some old /\ matcher_fun m old = AFail r).
Proof.
  split; [apply apply_path_err_inv|]. unfold path_outcome.
  intros [[Hc ->]|(comps & Hc & [(Hg & He & ->)|(old & Hg & Hf)])].
  - now apply apply_path_unsupported.
  - rewrite (apply_path_missing _ _ _ _ _ Hc Hg). now rewrite He.
  - eapply apply_path_fail; eauto.
Qed.

Theorem matcher_fun_fail_iff m old r :
  matcher_fun m old = AFail r <->
  (exists ps t e, m = MType ps t e /\ type_of old <> Some t /\ r = RType) \/
  (exists p e, m = MCustom p CRError e /\ r = RCallback).
Proof.
  split.
  - destruct m as [ps x e|ps t e|p [x|] e]; cbn [matcher_fun]; try discriminate.
    + destruct (has_type t old) eqn:E; [discriminate|]. intros [= <-]. left.
      exists ps, t, e. repeat split. now apply has_type_false_iff.
    + intros [= <-]. right. eauto.
  - intros [(ps & t & e & -> & Ht & ->)|(p & e & -> & ->)]; cbn [matcher_fun]; [|reflexivity].
    apply has_type_false_iff in Ht. now rewrite Ht.
Qed.

(* the three user-visible failures *)
Corollary C17_missing_path_fails m w p comps :
  path_comps p = Some comps -> get w (steps_of w comps) = None -> matcher_eom m = true ->
  path_outcome m w p = PRErr RMissing.
Proof. intros. apply path_fails_iff. right. exists comps. auto. Qed.

Corollary C17_wrong_type_fails ps t e w p comps old :
  path_comps p = Some comps -> get w (steps_of w comps) = Some old -> type_of old <> Some t ->
  path_outcome (MType ps t e) w p = PRErr RType.
Proof.
  intros Hc Hg Ht. apply path_fails_iff. right. exists comps. split; auto. right. exists old. split; auto.
  apply matcher_fun_fail_iff. left. exists ps, t, e. auto.
Qed.

Corollary C17_null_has_no_type ps t e w p comps :
  path_comps p = Some comps -> get w (steps_of w comps) = Some JNull ->
  path_outcome (MType ps t e) w p = PRErr RType.
Proof. intros Hc Hg. eapply C17_wrong_type_fails; eauto. discriminate. Qed.

Corollary C17_callback_error_fails p0 e w p comps old :
  path_comps p = Some comps -> get w (steps_of w comps) = Some old ->
  path_outcome (MCustom p0 CRError e) w p = PRErr RCallback.
Proof.
  intros Hc Hg. apply path_fails_iff. right. exists comps. split; auto. right. exists old. split; auto.
Qed.

(* ErrOnMissingPath(false): a missing path is skipped - no error, and the other paths of the matcher
   are applied exactly as if the missing one had not been listed *)
Theorem C17_tolerated_missing m w p comps :
  path_comps p = Some comps -> get w (steps_of w comps) = None -> matcher_eom m = false ->
  path_outcome m w p = PRSkip.
Proof. intros Hc Hg He. unfold path_outcome. rewrite (apply_path_missing _ _ _ _ _ Hc Hg). now rewrite He. Qed.

Theorem C17_tolerated_missing_any ps1 p ps2 x v comps :
  path_comps p = Some comps ->
  get (fst (apply_matcher (MAny ps1 x false) v)) (steps_of (fst (apply_matcher (MAny ps1 x false) v)) comps) = None ->
  apply_matcher (MAny (ps1 ++ p :: ps2) x false) v = apply_matcher (MAny (ps1 ++ ps2) x false) v.
Proof.
  intros Hc Hg. unfold apply_matcher in *. cbn [matcher_kind matcher_eom matcher_paths matcher_fun] in *.
  apply run_paths_skip. now rewrite (apply_path_missing _ _ _ _ _ Hc Hg).
Qed.

Theorem C17_tolerated_missing_type ps1 p ps2 t v comps :
  path_comps p = Some comps ->
  get (fst (apply_matcher (MType ps1 t false) v)) (steps_of (fst (apply_matcher (MType ps1 t false) v)) comps) = None ->
  apply_matcher (MType (ps1 ++ p :: ps2) t false) v = apply_matcher (MType (ps1 ++ ps2) t false) v.
Proof.
  intros Hc Hg. unfold apply_matcher in *. cbn [matcher_kind matcher_eom matcher_paths] in *.
  apply run_paths_skip. now rewrite (apply_path_missing _ _ _ _ _ Hc Hg).
Qed.

Theorem C17_tolerated_missing_custom p r v comps :
  path_comps p = Some comps -> get v (steps_of v comps) = None ->
  apply_matcher (MCustom p r false) v = (v, []).
Proof.
  intros Hc Hg. unfold apply_matcher. cbn [matcher_kind matcher_eom matcher_paths run_paths].
  now rewrite (apply_path_missing _ _ _ _ _ Hc Hg).
Qed.

(* ================================================================== *)
(* 8. C16: masking                                                      *)

(* [y] may stand where [old] stood without the matcher noticing: any value for Any and Custom
   (constant callback), a value that passes / fails the type test like [old] for Type *)
Definition same_class (m : matcher) (y old : jv) : Prop :=
  match m with MType _ t _ => has_type t y = has_type t old | _ => True end.

Lemma same_class_type_of m y old : type_of y = type_of old -> same_class m y old.
Proof. destruct m; cbn; auto. unfold has_type. now intros ->. Qed.

Lemma same_class_fun m y old : same_class m y old -> matcher_fun m y = matcher_fun m old.
Proof. destruct m as [ps x e|ps t e|p r e]; cbn; auto. now intros ->. Qed.

Section Mask.
  (* the masked path (its components), what its matcher does with a value, and the other value *)
  Variables (comps0 : list bytes) (f0 : jv -> action) (y : jv).

  (* [w2] is [w1] with [y] at the masked path, where the matcher cannot tell [y] from what was there *)
  Definition Inv (w1 w2 : jv) : Prop :=
    set w1 (steps_of w1 comps0) y = Some w2 /\
    exists old, get w1 (steps_of w1 comps0) = Some old /\ f0 y = f0 old.

  Definition other (p : bytes) : Prop :=
    exists comps, path_comps p = Some comps /\ cdisj2 comps comps0 = true.

  Lemma path_rel_other e f p w1 w2 :
    other p -> Inv w1 w2 ->
    match apply_path e f w1 p, apply_path e f w2 p with
    | PROk a, PROk b => Inv a b
    | PRSkip, PRSkip => True
    | PRErr r1, PRErr r2 => r1 = r2
    | _, _ => False
    end.
  Proof.
    intros (comps & Hc & Hd) (Hs & old & Hg & Hf).
    set (d := steps_of w1 comps0) in *. set (s := steps_of w1 comps).
    assert (Hcd : cdisj comps d = true) by (eapply cdisj2_may; eauto; apply steps_of_may).
    assert (Hcs : cdisj comps0 s = true)
      by (eapply cdisj2_may; [apply steps_of_may|now rewrite cdisj2_sym]).
    assert (Hsd : disjoint_paths s d = true) by now apply cdisj_sound.
    assert (Hds : disjoint_paths d s = true) by now rewrite disjoint_paths_sym.
    assert (Es : steps_of w2 comps = s) by (eapply steps_of_set_disjoint; eauto).
    assert (Eg : get w2 s = get w1 s) by (eapply get_set_disjoint; eauto).
    unfold apply_path. rewrite Hc. cbv zeta. rewrite Es, Eg. fold s.
    destruct (get w1 s) as [found|] eqn:Egs; [|now destruct e].
    destruct (f found) as [x|r]; [|reflexivity].
    destruct (set w1 s x) as [a|] eqn:Ea; [|exfalso; exact (apply_path_set_total w1 s found x Egs Ea)].
    destruct (set_set_comm s d w1 x y a w2 Hsd Ea Hs) as (b & Hb1 & Hb2).
    rewrite Hb2.
    assert (Ed : steps_of a comps0 = d) by (eapply steps_of_set_disjoint; eauto).
    unfold Inv. rewrite Ed. split; [assumption|]. exists old. split; [|assumption].
    rewrite <- Hg. eapply get_set_disjoint; eauto.
  Qed.

  Lemma path_rel_self e p0 w1 w2 :
    path_comps p0 = Some comps0 -> Inv w1 w2 ->
    apply_path e f0 w2 p0 = apply_path e f0 w1 p0 /\ apply_path e f0 w1 p0 <> PRSkip.
  Proof.
    intros Hc (Hs & old & Hg & Hf).
    assert (Es : steps_of w2 comps0 = steps_of w1 comps0) by now apply steps_of_set_same in Hs.
    unfold apply_path. rewrite Hc. cbv zeta. rewrite Es, (get_set_same _ _ _ _ Hs), Hg, Hf.
    destruct (f0 old) as [x|r]; [|split; [reflexivity|discriminate]].
    rewrite (set_set_same _ _ _ _ _ Hs).
    split; [reflexivity|]. destruct (set w1 (steps_of w1 comps0) x); discriminate.
  Qed.

  Lemma run_rel_other k e f ps : Forall other ps -> forall w1 w2, Inv w1 w2 ->
    snd (run_paths k e f ps w1) = snd (run_paths k e f ps w2) /\
    Inv (fst (run_paths k e f ps w1)) (fst (run_paths k e f ps w2)).
  Proof.
    induction 1 as [|p rest Hp _ IH]; intros w1 w2 HI; [split; [reflexivity|exact HI]|].
    cbn [run_paths]. generalize (path_rel_other e f p w1 w2 Hp HI).
    destruct (apply_path e f w1 p) as [a| |r1], (apply_path e f w2 p) as [b| |r2]; try contradiction.
    - intros HI'. now apply IH.
    - intros _. now apply IH.
    - intros <-. destruct (IH w1 w2 HI) as [He HI'].
      destruct (run_paths k e f rest w1) as [a ea], (run_paths k e f rest w2) as [b eb].
      cbn [fst snd] in *. split; [now rewrite He|assumption].
  Qed.

  Lemma run_rel_self k e ps1 p0 ps2 w1 w2 :
    Forall other ps1 -> Forall other ps2 -> path_comps p0 = Some comps0 -> Inv w1 w2 ->
    snd (run_paths k e f0 (ps1 ++ p0 :: ps2) w1) = snd (run_paths k e f0 (ps1 ++ p0 :: ps2) w2) /\
    (snd (run_paths k e f0 (ps1 ++ p0 :: ps2) w1) = [] ->
     fst (run_paths k e f0 (ps1 ++ p0 :: ps2) w1) = fst (run_paths k e f0 (ps1 ++ p0 :: ps2) w2)).
  Proof.
    intros H1 H2 Hc HI. rewrite !run_paths_app_snd, !run_paths_app_fst.
    destruct (run_rel_other k e f0 ps1 H1 w1 w2 HI) as [He HI'].
    rewrite <- He. set (a := fst (run_paths k e f0 ps1 w1)) in *.
    set (b := fst (run_paths k e f0 ps1 w2)) in *. cbn [run_paths].
    destruct (path_rel_self e p0 a b Hc HI') as [Ep Hns]. rewrite Ep.
    destruct (apply_path e f0 a p0) as [c| |r]; [auto|congruence|].
    destruct (run_rel_other k e f0 ps2 H2 a b HI') as [He2 _].
    destruct (run_paths k e f0 ps2 a) as [a2 ea], (run_paths k e f0 ps2 b) as [b2 eb].
    cbn [fst snd] in *. rewrite He2. split; [reflexivity|].
    intros E. apply app_eq_nil in E. destruct E as [_ E]. discriminate.
  Qed.

  Definition other_matcher (m : matcher) : Prop := Forall other (matcher_paths m).

  Lemma step_rel_other m w1 w2 : other_matcher m -> Inv w1 w2 ->
    snd (step_matcher m w1) = snd (step_matcher m w2) /\
    Inv (fst (step_matcher m w1)) (fst (step_matcher m w2)).
  Proof.
    intros Hm HI. rewrite !step_matcher_snd, !step_matcher_fst.
    destruct (run_rel_other (matcher_kind m) (matcher_eom m) (matcher_fun m) _ Hm w1 w2 HI) as [He HI'].
    unfold apply_matcher. rewrite <- He. split; [reflexivity|].
    now destruct (snd (run_paths (matcher_kind m) (matcher_eom m) (matcher_fun m) (matcher_paths m) w1)).
  Qed.

  Lemma matchers_rel_other ms : Forall other_matcher ms -> forall w1 w2, Inv w1 w2 ->
    snd (apply_matchers ms w1) = snd (apply_matchers ms w2) /\
    Inv (fst (apply_matchers ms w1)) (fst (apply_matchers ms w2)).
  Proof.
    induction 1 as [|m rest Hm _ IH]; intros w1 w2 HI; [split; [reflexivity|exact HI]|].
    rewrite !apply_matchers_cons_snd, !apply_matchers_cons_fst.
    destruct (step_rel_other m w1 w2 Hm HI) as [He HI']. rewrite !step_matcher_snd in He.
    destruct (IH _ _ HI') as [He2 HI2]. rewrite He, He2. auto.
  Qed.

  Lemma matchers_rel_self ms1 m0 ms2 ps1 p0 ps2 w1 w2 :
    Forall other_matcher ms1 -> Forall other_matcher ms2 ->
    matcher_paths m0 = ps1 ++ p0 :: ps2 -> Forall other ps1 -> Forall other ps2 ->
    path_comps p0 = Some comps0 -> matcher_fun m0 = f0 -> Inv w1 w2 ->
    snd (apply_matchers (ms1 ++ m0 :: ms2) w1) = snd (apply_matchers (ms1 ++ m0 :: ms2) w2) /\
    (snd (apply_matchers (ms1 ++ m0 :: ms2) w1) = [] ->
     fst (apply_matchers (ms1 ++ m0 :: ms2) w1) = fst (apply_matchers (ms1 ++ m0 :: ms2) w2)).
  Proof.
    intros Hm1 Hm2 Hps Hp1 Hp2 Hc Hf HI.
    rewrite !apply_matchers_app_snd, !apply_matchers_app_fst.
    destruct (matchers_rel_other ms1 Hm1 w1 w2 HI) as [He HI']. rewrite <- He.
    set (a := fst (apply_matchers ms1 w1)) in *. set (b := fst (apply_matchers ms1 w2)) in *.
    rewrite !apply_matchers_cons_snd, !apply_matchers_cons_fst, !step_matcher_fst.
    destruct (run_rel_self (matcher_kind m0) (matcher_eom m0) ps1 p0 ps2 a b Hp1 Hp2 Hc HI') as [Hs Hfst].
    unfold apply_matcher. rewrite Hps, Hf, <- Hs.
    destruct (snd (run_paths (matcher_kind m0) (matcher_eom m0) f0 (ps1 ++ p0 :: ps2) a)) as [|x ea] eqn:Ea.
    - rewrite <- (Hfst eq_refl). cbn [app]. split; [reflexivity|auto].
    - destruct (matchers_rel_other ms2 Hm2 a b HI') as [He2 _]. rewrite He2. split; [reflexivity|].
      intros E. apply app_eq_nil in E. destruct E as [_ E]. discriminate.
  Qed.
End Mask.

Lemma pairwise_disj_split A : forall x B,
  pairwise_disj (A ++ x :: B) = true ->
  (forall a, In a A -> paths_disj a x = true) /\ (forall b, In b B -> paths_disj x b = true).
Proof.
  induction A as [|a A IH]; intros x B H; cbn [app pairwise_disj] in H;
    apply andb_true_iff in H; destruct H as [H1 H2].
  - split; [contradiction|]. now apply forallb_forall.
  - destruct (IH x B H2) as [Ha Hb]. split; [|assumption].
    intros a' [<-|Hin]; [|now apply Ha].
    rewrite forallb_forall in H1. apply H1, in_elt.
Qed.

Lemma paths_disj_other_l comps0 p p0 :
  path_comps p0 = Some comps0 -> paths_disj p p0 = true -> other comps0 p.
Proof.
  unfold paths_disj, other. intros ->. destruct (path_comps p) as [c|]; [|discriminate]. eauto.
Qed.

Lemma paths_disj_other_r comps0 p p0 :
  path_comps p0 = Some comps0 -> paths_disj p0 p = true -> other comps0 p.
Proof.
  unfold paths_disj, other. intros ->. destruct (path_comps p) as [c|]; [|discriminate].
  intros H. exists c. now rewrite cdisj2_sym.
Qed.

Lemma all_paths_app ms1 ms2 : all_paths (ms1 ++ ms2) = all_paths ms1 ++ all_paths ms2.
Proof. apply flat_map_app. Qed.

Lemma in_all_paths p m ms : In m ms -> In p (matcher_paths m) -> In p (all_paths ms).
Proof. intros Hm Hp. apply in_flat_map. eauto. Qed.

(* ONE difference, at a path covered by a matcher of a list whose paths are pairwise disjoint:
   the error lists are the same, and without errors so are the resulting documents *)
Theorem C16_masked_one ms m0 p0 comps0 v1 v2 y old :
  pairwise_disj (all_paths ms) = true ->
  In m0 ms -> In p0 (matcher_paths m0) -> path_comps p0 = Some comps0 ->
  get v1 (steps_of v1 comps0) = Some old -> same_class m0 y old ->
  set v1 (steps_of v1 comps0) y = Some v2 ->
  snd (apply_matchers ms v1) = snd (apply_matchers ms v2) /\
  (snd (apply_matchers ms v1) = [] -> fst (apply_matchers ms v1) = fst (apply_matchers ms v2)).
Proof.
  intros Hpw Hm Hp Hc Hg Hcl Hs.
  destruct (in_split _ _ Hm) as (ms1 & ms2 & ->).
  destruct (in_split _ _ Hp) as (ps1 & ps2 & Hps).
  rewrite all_paths_app in Hpw. unfold all_paths at 2 in Hpw. cbn [flat_map] in Hpw.
  fold (all_paths ms2) in Hpw. rewrite Hps in Hpw.
  replace (all_paths ms1 ++ (ps1 ++ p0 :: ps2) ++ all_paths ms2)
    with ((all_paths ms1 ++ ps1) ++ p0 :: (ps2 ++ all_paths ms2)) in Hpw
    by (rewrite <- !app_assoc; reflexivity).
  destruct (pairwise_disj_split _ _ _ Hpw) as [HA HB].
  assert (H1 : Forall (other_matcher comps0) ms1).
  { apply Forall_forall. intros m Hin. apply Forall_forall. intros p Hpin.
    eapply paths_disj_other_l; eauto. apply HA, in_or_app. left. eapply in_all_paths; eauto. }
  assert (H2 : Forall (other_matcher comps0) ms2).
  { apply Forall_forall. intros m Hin. apply Forall_forall. intros p Hpin.
    eapply paths_disj_other_r; eauto. apply HB, in_or_app. right. eapply in_all_paths; eauto. }
  assert (H3 : Forall (other comps0) ps1).
  { apply Forall_forall. intros p Hpin. eapply paths_disj_other_l; eauto. apply HA, in_or_app. now right. }
  assert (H4 : Forall (other comps0) ps2).
  { apply Forall_forall. intros p Hpin. eapply paths_disj_other_r; eauto. apply HB, in_or_app. now left. }
  apply (matchers_rel_self comps0 (matcher_fun m0) y ms1 m0 ms2 ps1 p0 ps2 v1 v2); auto.
  split; [assumption|]. exists old. split; [assumption|]. now apply same_class_fun.
Qed.

(* the single-path single-matcher version needs no hypothesis on disjointness.  (When the matcher
   FAILS at the path - a Type mismatch that [y] shares with [old], a failing callback - it returns its
   input, so the two returned documents still differ: only the error lists coincide.) *)
Theorem C16_masked_single m p comps v1 v2 y old :
  matcher_paths m = [p] -> path_comps p = Some comps ->
  get v1 (steps_of v1 comps) = Some old -> same_class m y old ->
  set v1 (steps_of v1 comps) y = Some v2 ->
  snd (apply_matcher m v2) = snd (apply_matcher m v1) /\
  (snd (apply_matcher m v1) = [] -> apply_matcher m v2 = apply_matcher m v1).
Proof.
  intros Hps Hc Hg Hcl Hs. unfold apply_matcher. rewrite Hps. cbn [run_paths].
  destruct (path_rel_self comps (matcher_fun m) y (matcher_eom m) p v1 v2 Hc) as [E Hns].
  - split; [assumption|]. exists old. split; [assumption|]. now apply same_class_fun.
  - rewrite E. destruct (apply_path (matcher_eom m) (matcher_fun m) v1 p) as [c| |r];
      [split; reflexivity|congruence|]. cbn [fst snd]. split; [reflexivity|discriminate].
Qed.

(* match.Any never fails on an existing path: the two results are simply equal *)
Corollary C16_masked_single_any p comps x e v1 v2 y :
  path_comps p = Some comps -> set v1 (steps_of v1 comps) y = Some v2 ->
  apply_matcher (MAny [p] x e) v2 = apply_matcher (MAny [p] x e) v1 /\
  snd (apply_matcher (MAny [p] x e) v1) = [].
Proof.
  intros Hc Hs.
  assert (Hg : get v1 (steps_of v1 comps) <> None) by (apply (set_some_iff_get _ v1 y); congruence).
  destruct (get v1 (steps_of v1 comps)) as [old|] eqn:Eg; [|congruence].
  assert (He : snd (apply_matcher (MAny [p] x e) v1) = []).
  { unfold apply_matcher. cbn [matcher_kind matcher_eom matcher_paths run_paths].
    destruct (apply_path_replace e (matcher_fun (MAny [p] x e)) v1 p comps old x Hc Eg eq_refl) as (v' & _ & Hp).
    now rewrite Hp. }
  split; [|assumption].
  destruct (C16_masked_single (MAny [p] x e) p comps v1 v2 y old eq_refl Hc Eg I Hs) as [_ H]. auto.
Qed.

(* "v2 agrees with v1 except at covered paths": v2 is reached from v1 by replacing, one after the
   other, values at paths [p] of matchers [m] (as picked by [C]) that exist, by values of the same class *)
Inductive masked_variant (C : bytes -> matcher -> Prop) : jv -> jv -> Prop :=
| mv_refl v : masked_variant C v v
| mv_step v1 v2 v3 p m comps old y :
    masked_variant C v1 v2 -> C p m -> path_comps p = Some comps ->
    get v2 (steps_of v2 comps) = Some old -> same_class m y old ->
    set v2 (steps_of v2 comps) y = Some v3 ->
    masked_variant C v1 v3.

Definition covered_by (ms : list matcher) (p : bytes) (m : matcher) : Prop :=
  In m ms /\ In p (matcher_paths m).

Lemma pair_eq {A B} (x y : A * B) : fst x = fst y -> snd x = snd y -> x = y.
Proof. destruct x, y; cbn; congruence. Qed.

(* documents that agree except at masked paths give the same result (document AND error list) *)
Theorem C16_masked_list ms v1 v2 :
  pairwise_disj (all_paths ms) = true ->
  masked_variant (covered_by ms) v1 v2 ->
  snd (apply_matchers ms v1) = [] ->
  apply_matchers ms v2 = apply_matchers ms v1.
Proof.
  intros Hpw Hmv. induction Hmv as [v|v1 v2 v3 p m comps old y _ IH [Hm Hp] Hc Hg Hcl Hs]; intros He;
    [reflexivity|].
  specialize (IH He). rewrite <- IH in *.
  destruct (C16_masked_one ms m p comps v2 v3 y old Hpw Hm Hp Hc Hg Hcl Hs) as [E1 E2].
  symmetry. apply pair_eq; auto.
Qed.

(* ... hence the same stored text, and each passes against the other's snapshot *)
Corollary C16_masked_text width indent sk ms d1 d2 v1 v2 :
  parse (S (length d1)) d1 = Some v1 -> parse (S (length d2)) d2 = Some v2 ->
  pairwise_disj (all_paths ms) = true ->
  masked_variant (covered_by ms) v1 v2 ->
  snd (apply_matchers ms v1) = [] ->
  apply_matchers_snapshot width indent sk ms d2 = apply_matchers_snapshot width indent sk ms d1.
Proof.
  intros P1 P2 Hpw Hmv He. unfold apply_matchers_snapshot. rewrite P1, P2.
  now rewrite (C16_masked_list ms v1 v2 Hpw Hmv He).
Qed.

Corollary C16_masked_text_default ms d1 d2 v1 v2 :
  parse (S (length d1)) d1 = Some v1 -> parse (S (length d2)) d2 = Some v2 ->
  pairwise_disj (all_paths ms) = true ->
  masked_variant (covered_by ms) v1 v2 ->
  snd (apply_matchers ms v1) = [] ->
  apply_matchers_text ms d2 = apply_matchers_text ms d1.
Proof. apply C16_masked_text. Qed.

(* conversely: a difference at a path that no matcher can touch survives *)
Theorem C16_unmasked_list ms v1 v2 q :
  (forall p, In p (all_paths ms) -> pdisj p q = true) ->
  get v1 q <> get v2 q ->
  get (fst (apply_matchers ms v1)) q <> get (fst (apply_matchers ms v2)) q /\
  fst (apply_matchers ms v1) <> fst (apply_matchers ms v2).
Proof.
  intros Hd Hne.
  assert (H : get (fst (apply_matchers ms v1)) q <> get (fst (apply_matchers ms v2)) q)
    by now rewrite !matchers_others_untouched.
  split; [assumption|]. intros E. apply H. now rewrite E.
Qed.

(* ================================================================== *)
(* 9. idempotence                                                       *)

(* matchers whose placeholder is accepted again: Any, Custom with a value, Type[string] *)
Definition stable_matcher (m : matcher) : Prop :=
  match m with MType _ t _ => t = TString | _ => True end.

Lemma stable_class m old x : stable_matcher m -> matcher_fun m old = AReplace x -> same_class m x old.
Proof.
  destruct m as [ps x0 e|ps t e|p r e]; cbn; auto.
  intros ->. destruct (has_type TString old) eqn:E; [|discriminate]. now intros [= <-].
Qed.

Lemma run_paths_variant (C : bytes -> matcher -> Prop) m v ps : stable_matcher m -> (forall p, In p ps -> C p m) -> forall w,
  masked_variant C v w ->
  masked_variant C v (fst (run_paths (matcher_kind m) (matcher_eom m) (matcher_fun m) ps w)).
Proof.
  intros Hst. induction ps as [|p rest IH]; intros HC w Hw; [exact Hw|].
  cbn [run_paths].
  destruct (apply_path (matcher_eom m) (matcher_fun m) w p) as [w'| |r] eqn:Ep.
  - apply IH; [intros; apply HC; now right|].
    destruct (apply_path_ok_inv _ _ _ _ _ Ep) as (comps & old & x & Hc & Hg & Hf & Hs).
    eapply mv_step; eauto. { apply HC. now left. } now apply stable_class.
  - apply IH; auto. intros; apply HC; now right.
  - destruct (run_paths _ _ _ rest w) as [v2 es] eqn:Er.
    change v2 with (fst (v2, es)). rewrite <- Er. apply IH; auto. intros; apply HC; now right.
Qed.

Lemma matchers_variant (C : bytes -> matcher -> Prop) v ms : (forall m, In m ms -> stable_matcher m /\ forall p, In p (matcher_paths m) -> C p m) ->
  forall w, masked_variant C v w -> masked_variant C v (fst (apply_matchers ms w)).
Proof.
  induction ms as [|m rest IH]; intros H w Hw; [exact Hw|].
  rewrite apply_matchers_cons_fst. apply IH; [intros; apply H; now right|].
  rewrite step_matcher_fst. destruct (snd (apply_matcher m w)); [|exact Hw].
  destruct (H m (or_introl eq_refl)) as [Hst HC]. now apply run_paths_variant.
Qed.

(* the result of a run is a masked variant of its input ... *)
Theorem result_is_masked_variant ms v :
  Forall stable_matcher ms -> masked_variant (covered_by ms) v (fst (apply_matchers ms v)).
Proof.
  intros Hst. apply matchers_variant; [|constructor].
  intros m Hm. rewrite Forall_forall in Hst. split; [auto|]. intros p Hp. now split.
Qed.

(* ... so running non-failing matchers with pairwise disjoint paths again changes nothing *)
Theorem matchers_idempotent ms v :
  pairwise_disj (all_paths ms) = true -> Forall stable_matcher ms ->
  snd (apply_matchers ms v) = [] ->
  apply_matchers ms (fst (apply_matchers ms v)) = apply_matchers ms v.
Proof.
  intros Hpw Hst He. apply C16_masked_list; auto. now apply result_is_masked_variant.
Qed.

Lemma all_any_stable ms : Forall (fun m => matcher_kind m = 0) ms -> Forall stable_matcher ms.
Proof. apply Forall_impl. intros [ps x e|ps t e|p r e]; cbn; auto; discriminate. Qed.

Corollary any_matchers_idempotent ms v v' :
  Forall (fun m => matcher_kind m = 0) ms -> pairwise_disj (all_paths ms) = true ->
  apply_matchers ms v = (v', []) -> apply_matchers ms v' = (v', []).
Proof.
  intros Hk Hpw H. generalize (matchers_idempotent ms v Hpw (all_any_stable ms Hk)).
  rewrite H. cbn [fst snd]. auto.
Qed.

(* ================================================================== *)
(* 10. well-formedness and the stored text                              *)

Definition wf_matcher (m : matcher) : Prop :=
  match m with
  | MAny _ x _ => wf_json x
  | MCustom _ (CRValue x) _ => wf_json x
  | _ => True
  end.

Lemma type_placeholder_wf t : wf_json (type_placeholder t).
Proof.
  destruct t; vm_compute; repeat (apply so_char; [reflexivity|discriminate|discriminate|]); apply so_nil.
Qed.

Lemma matcher_fun_wf m old x : wf_matcher m -> matcher_fun m old = AReplace x -> wf_json x.
Proof.
  destruct m as [ps x0 e|ps t e|p [x0|] e]; cbn [wf_matcher matcher_fun].
  - now intros H [= <-].
  - intros _. destruct (has_type t old); [|discriminate]. intros [= <-]. apply type_placeholder_wf.
  - now intros H [= <-].
  - discriminate.
Qed.

Lemma run_paths_wf m ps : wf_matcher m -> forall v, wf_json v ->
  wf_json (fst (run_paths (matcher_kind m) (matcher_eom m) (matcher_fun m) ps v)).
Proof.
  intros Hm. induction ps as [|p rest IH]; intros v Hv; [exact Hv|]. cbn [run_paths].
  destruct (apply_path (matcher_eom m) (matcher_fun m) v p) as [v'| |r] eqn:Ep.
  - apply IH. destruct (apply_path_ok_inv _ _ _ _ _ Ep) as (comps & old & x & _ & _ & Hf & Hs).
    apply (set_wf (steps_of v comps) v x v' Hv); [eapply matcher_fun_wf; eauto|exact Hs].
  - now apply IH.
  - destruct (run_paths _ _ _ rest v) as [v2 es] eqn:Er.
    change v2 with (fst (v2, es)). rewrite <- Er. now apply IH.
Qed.

(* the result of well-formed matchers on a well-formed document is a well-formed document *)
Theorem matchers_wf ms : Forall wf_matcher ms -> forall v, wf_json v -> wf_json (fst (apply_matchers ms v)).
Proof.
  induction 1 as [|m rest Hm _ IH]; intros v Hv; [exact Hv|].
  rewrite apply_matchers_cons_fst. apply IH. rewrite step_matcher_fst.
  destruct (snd (apply_matcher m v)); [|exact Hv]. now apply run_paths_wf.
Qed.

(* without key sorting the stored text determines the document, so an unmasked difference is
   visible in the snapshot text (with sorting: the text determines the sorted document) *)
Theorem snapshot_text_injective width indent (r1 r2 : jv) :
  ws_bytes indent -> wf_json r1 -> wf_json r2 ->
  pretty_v width indent 0 0 r1 = pretty_v width indent 0 0 r2 -> r1 = r2.
Proof.
  intros Hi H1 H2 E.
  generalize (parse_pretty width indent 0 0 r1 _ H1 Hi (le_n _)).
  rewrite E, (parse_pretty width indent 0 0 r2 _ H2 Hi) by (rewrite <- E; apply le_n). congruence.
Qed.

Corollary C16_unmasked_text_nosort width indent ms d1 d2 v1 v2 q :
  parse (S (length d1)) d1 = Some v1 -> parse (S (length d2)) d2 = Some v2 ->
  ws_bytes indent -> Forall wf_matcher ms ->
  (forall p, In p (all_paths ms) -> pdisj p q = true) ->
  get v1 q <> get v2 q ->
  option_map fst (apply_matchers_snapshot width indent false ms d1) <>
  option_map fst (apply_matchers_snapshot width indent false ms d2).
Proof.
  intros P1 P2 Hi Hwf Hd Hne. unfold apply_matchers_snapshot. rewrite P1, P2.
  destruct (C16_unmasked_list ms v1 v2 q Hd Hne) as [_ Hdiff].
  generalize (matchers_wf ms Hwf v1 (parse_wf _ _ _ P1)) (matchers_wf ms Hwf v2 (parse_wf _ _ _ P2)).
  destruct (apply_matchers ms v1) as [r1 e1], (apply_matchers ms v2) as [r2 e2].
  cbn [fst option_map sort_if] in *. intros W1 W2 [= E]. apply Hdiff.
  eapply snapshot_text_injective; eauto.
Qed.

(* ================================================================== *)
(* 11. computed examples (non-vacuity)                                  *)

Definition exdoc : bytes :=
  B "{""user"":{""name"":""n"",""age"":3},""tags"":[""x"",""y""],""time"":""t"",""ok"":true,""nil"":null}".

Definition exv : jv :=
  JObj [(B "user", JObj [(B "name", JStr (B "n")); (B "age", JNum (B "3"))]);
        (B "tags", JArr [JStr (B "x"); JStr (B "y")]);
        (B "time", JStr (B "t")); (B "ok", JTrue); (B "nil", JNull)].

Example ex_parse : parse (S (length exdoc)) exdoc = Some exv.
Proof. vm_compute. reflexivity. Qed.

Definition k_user := PKey (B "user").  Definition k_name := PKey (B "name").
Definition k_age := PKey (B "age").    Definition k_tags := PKey (B "tags").
Definition k_time := PKey (B "time").  Definition k_ok := PKey (B "ok").
Definition k_nil := PKey (B "nil").
Definition err (k : nat) (p : string) (r : merr_reason) : merr :=
  {| me_matcher := k; me_path := B p; me_reason := r |}.
Definition ANY := any_placeholder.

(* each matcher kind succeeding *)
Example ex_any_ok :
  let '(v', es) := apply_matchers [MAny [B "user.name"; B "tags.1"] ANY true] exv in
  es = [] /\ get v' [k_user; k_name] = Some ANY /\ get v' [k_tags; PIdx 1] = Some ANY /\
  get v' [k_tags; PIdx 0] = Some (JStr (B "x")) /\ get v' [k_user; k_age] = Some (JNum (B "3")) /\
  get v' [k_time] = Some (JStr (B "t")).
Proof. vm_compute. repeat split. Qed.

Example ex_type_ok :
  let '(v', es) := apply_matchers [MType [B "user.name"; B "time"] TString true; MType [B "user.age"] TNumber true;
                                   MType [B "ok"] TBool true; MType [B "tags"] TArray true;
                                   MType [B "user"] TObject true] exv in
  es = [] /\ get v' [k_time] = Some (JStr (B "<Type:string>")) /\
  get v' [k_ok] = Some (JStr (B "<Type:bool>")) /\
  get v' [k_tags] = Some (JStr (B "<Type:[]interface {}>")) /\
  get v' [k_user] = Some (JStr (B "<Type:map[string]interface {}>")) /\
  get v' [k_nil] = Some JNull.
Proof. vm_compute. repeat split. Qed.

Example ex_type_number :
  apply_matcher (MType [B "user.age"] TNumber true) exv =
  (JObj [(B "user", JObj [(B "name", JStr (B "n")); (B "age", JStr (B "<Type:float64>"))]);
         (B "tags", JArr [JStr (B "x"); JStr (B "y")]);
         (B "time", JStr (B "t")); (B "ok", JTrue); (B "nil", JNull)], []).
Proof. vm_compute. reflexivity. Qed.

Example ex_custom_ok :
  let '(v', es) := apply_matchers [MCustom (B "user.age") (CRValue (JStr (B "some number"))) true] exv in
  es = [] /\ get v' [k_user; k_age] = Some (JStr (B "some number")) /\ get v' [k_user; k_name] = Some (JStr (B "n")).
Proof. vm_compute. repeat split. Qed.

(* each failing reason; a failing matcher leaves the document alone *)
Example ex_fail_missing :
  apply_matchers [MAny [B "user.nope"] ANY true] exv = (exv, [err 0 "user.nope" RMissing]).
Proof. vm_compute. reflexivity. Qed.

Example ex_fail_type :
  apply_matchers [MType [B "user.age"] TString true] exv = (exv, [err 1 "user.age" RType]).
Proof. vm_compute. reflexivity. Qed.

Example ex_fail_type_on_null :
  apply_matchers [MType [B "nil"] TBool true; MType [B "nil"] TString true; MType [B "nil"] TObject true] exv =
  (exv, [err 1 "nil" RType; err 1 "nil" RType; err 1 "nil" RType]).
Proof. vm_compute. reflexivity. Qed.

Example ex_fail_callback :
  apply_matchers [MCustom (B "time") CRError true] exv = (exv, [err 2 "time" RCallback]).
Proof. vm_compute. reflexivity. Qed.

Example ex_fail_custom_missing :
  apply_matchers [MCustom (B "nope") (CRValue JNull) true] exv = (exv, [err 2 "nope" RMissing]) /\
  apply_matchers [MCustom (B "nope") (CRValue JNull) false] exv = (exv, []).
Proof. vm_compute. split; reflexivity. Qed.

Example ex_fail_unsupported :
  apply_matchers [MAny [B "tags.#"; B ""; B "tags.*"] ANY false] exv =
  (exv, [err 0 "tags.#" RUnsupportedPath; err 0 "" RUnsupportedPath; err 0 "tags.*" RUnsupportedPath]).
Proof. vm_compute. reflexivity. Qed.

(* several paths, a missing one in the middle: with ErrOnMissingPath(true) the matcher itself returns
   the document with the two good paths replaced plus one error, and applyJSONMatchers discards it;
   with ErrOnMissingPath(false) the missing path is skipped *)
Example ex_missing_middle_err :
  let m := MAny [B "user.name"; B "missing"; B "time"] ANY true in
  (let '(v', es) := apply_matcher m exv in
   es = [err 0 "missing" RMissing] /\ get v' [k_user; k_name] = Some ANY /\ get v' [k_time] = Some ANY) /\
  apply_matchers [m] exv = (exv, [err 0 "missing" RMissing]).
Proof. vm_compute. repeat split. Qed.

Example ex_missing_middle_tolerated :
  let '(v', es) := apply_matchers [MAny [B "user.name"; B "missing"; B "time"] ANY false] exv in
  es = [] /\ get v' [k_user; k_name] = Some ANY /\ get v' [k_time] = Some ANY.
Proof. vm_compute. repeat split. Qed.

Example ex_type_reports_every_failing_path :
  snd (apply_matchers [MType [B "user.name"; B "ok"; B "nope"; B "user.age"; B "time"] TString true] exv) =
  [err 1 "ok" RType; err 1 "nope" RMissing; err 1 "user.age" RType].
Proof. vm_compute. reflexivity. Qed.

(* ancestor listed before its descendant *)
Example ex_ancestor_then_descendant :
  apply_matchers [MAny [B "user"; B "user.name"] ANY true] exv = (exv, [err 0 "user.name" RMissing]) /\
  (let '(v', es) := apply_matchers [MAny [B "user"; B "user.name"] ANY false] exv in
   es = [] /\ get v' [k_user] = Some ANY /\ get v' [k_user; k_name] = None).
Proof. vm_compute. repeat split. Qed.

(* the hypotheses of [ancestor_then_descendant] are satisfiable *)
Example ex_ancestor_theorem_instance :
  path_comps (B "user") = Some [B "user"] /\ path_comps (B "user.name") = Some ([B "user"] ++ [B "name"]) /\
  is_scalar ANY = true /\ get exv (steps_of exv [B "user"]) <> None.
Proof. vm_compute. repeat split; discriminate. Qed.

(* a failing matcher followed by a succeeding one: DISCARD rule *)
Example ex_discard_rule :
  let '(v', es) := apply_matchers [MAny [B "user.name"; B "missing"] ANY true; MAny [B "time"] ANY true] exv in
  es = [err 0 "missing" RMissing] /\ get v' [k_user; k_name] = Some (JStr (B "n")) /\ get v' [k_time] = Some ANY.
Proof. vm_compute. repeat split. Qed.

(* left to right ACROSS matchers: the second matcher sees what the first one wrote *)
Example ex_across_matchers :
  let '(v', es) := apply_matchers [MAny [B "user"] (JObj [(B "name", JNum (B "5"))]) true;
                                   MType [B "user.name"] TNumber true] exv in
  es = [] /\ get v' [k_user] = Some (JObj [(B "name", JStr (B "<Type:float64>"))]).
Proof. vm_compute. repeat split. Qed.

(* the resolution of a path depends on the running document: "a.0" is an index, then a key *)
Example ex_resolution_changes :
  let v := JObj [(B "a", JArr [JNum (B "5")])] in
  steps_of v [B "a"; B "0"] = [PKey (B "a"); PIdx 0] /\
  (let '(v', es) := apply_matchers [MAny [B "a.0"] ANY true; MAny [B "a"] (JObj [(B "0", JNull)]) true;
                                    MAny [B "a.0"] JTrue true] v in
   es = [] /\ v' = JObj [(B "a", JObj [(B "0", JTrue)])] /\
   steps_of v' [B "a"; B "0"] = [PKey (B "a"); PKey (B "0")]).
Proof. vm_compute. repeat split. Qed.

(* the disjointness checks compute *)
Example ex_disjointness :
  pdisj (B "user.name") [k_user; k_age] = true /\ pdisj (B "user") [k_user; k_age] = false /\
  pdisj (B "user.name.x") [k_user; k_name] = false /\ pdisj (B "tags.1") [k_tags; PIdx 0] = true /\
  pdisj (B "tags.01") [k_tags; PIdx 1] = false /\
  pairwise_disj [B "user.name"; B "user.age"; B "tags.0"; B "time"] = true /\
  pairwise_disj [B "user.name"; B "user"] = false /\ pairwise_disj [B "tags.1"; B "tags.01"] = false.
Proof. vm_compute. repeat split. Qed.

(* masking: two documents that differ at masked paths only; same result, same stored text *)
Definition exdoc2 : bytes :=
  B "{""user"":{""name"":""other"",""age"":41},""tags"":[""x"",""y""],""time"":""later"",""ok"":true,""nil"":null}".
Definition ex_ms : list matcher :=
  [MAny [B "time"] ANY true; MType [B "user.age"] TNumber true;
   MCustom (B "user.name") (CRValue (JStr (B "<name>"))) true].

Example ex_masked_same_text :
  apply_matchers_text ex_ms exdoc = apply_matchers_text ex_ms exdoc2 /\
  option_map snd (apply_matchers_text ex_ms exdoc) = Some [] /\
  pairwise_disj (all_paths ex_ms) = true.
Proof. vm_compute. repeat split. Qed.

(* the second document IS a masked variant of the first (so [C16_masked_list] applies to the pair) *)
Definition setp (v : jv) (p : list pstep) (y : jv) : jv :=
  match set v p y with Some w => w | None => v end.

Example ex_masked_variant : exists v2,
  parse (S (length exdoc2)) exdoc2 = Some v2 /\ masked_variant (covered_by ex_ms) exv v2.
Proof.
  eexists. split; [vm_compute; reflexivity|].
  pose (u1 := setp exv [k_time] (JStr (B "later"))).
  pose (u2 := setp u1 [k_user; k_age] (JNum (B "41"))).
  apply (mv_step _ exv u2 _ (B "user.name") (MCustom (B "user.name") (CRValue (JStr (B "<name>"))) true)
           [B "user"; B "name"] (JStr (B "n")) (JStr (B "other"))).
  - apply (mv_step _ exv u1 u2 (B "user.age") (MType [B "user.age"] TNumber true)
             [B "user"; B "age"] (JNum (B "3")) (JNum (B "41"))).
    + apply (mv_step _ exv exv u1 (B "time") (MAny [B "time"] ANY true)
               [B "time"] (JStr (B "t")) (JStr (B "later"))).
      * apply mv_refl.
      * split; [left; reflexivity|left; reflexivity].
      * reflexivity.
      * vm_compute; reflexivity.
      * exact I.
      * vm_compute; reflexivity.
    + split; [right; left; reflexivity|left; reflexivity].
    + reflexivity.
    + vm_compute; reflexivity.
    + reflexivity.
    + vm_compute; reflexivity.
  - split; [right; right; left; reflexivity|left; reflexivity].
  - reflexivity.
  - vm_compute; reflexivity.
  - exact I.
  - vm_compute; reflexivity.
Qed.

(* an unmasked difference survives *)
Example ex_unmasked_differs :
  let d2 := B "{""user"":{""name"":""n"",""age"":3},""tags"":[""x"",""z""],""time"":""t"",""ok"":true,""nil"":null}" in
  option_map fst (apply_matchers_text ex_ms exdoc) <> option_map fst (apply_matchers_text ex_ms d2).
Proof. vm_compute. discriminate. Qed.

(* when the single masked matcher FAILS at the path, its two returned documents still differ
   (why [C16_masked_single] has the shape it has) *)
Example ex_masked_single_failing :
  let m := MType [B "user.age"] TString true in
  let v2 := JObj [(B "user", JObj [(B "name", JStr (B "n")); (B "age", JNum (B "4"))]);
                  (B "tags", JArr [JStr (B "x"); JStr (B "y")]);
                  (B "time", JStr (B "t")); (B "ok", JTrue); (B "nil", JNull)] in
  set exv [k_user; k_age] (JNum (B "4")) = Some v2 /\
  snd (apply_matcher m exv) = snd (apply_matcher m v2) /\ apply_matcher m exv <> apply_matcher m v2.
Proof. vm_compute. repeat split. discriminate. Qed.

(* [C16_masked_list] needs disjoint paths: the same path under Type[string] and then Any; a variation that
   is fine for Any (a number instead of the string) makes the Type matcher fail *)
Example ex_masking_needs_disjoint :
  let ms := [MType [B "time"] TString true; MAny [B "time"] ANY true] in
  pairwise_disj (all_paths ms) = false /\
  covered_by ms (B "time") (MAny [B "time"] ANY true) /\
  same_class (MAny [B "time"] ANY true) (JNum (B "5")) (JStr (B "t")) /\
  snd (apply_matchers ms exv) = [] /\
  snd (apply_matchers ms (setp exv [k_time] (JNum (B "5")))) = [err 1 "time" RType].
Proof. vm_compute. repeat split; auto. Qed.

(* idempotence needs disjoint paths: descendant-then-ancestor succeeds once and fails the second time *)
Example ex_not_idempotent_with_overlap :
  let ms := [MAny [B "user.name"; B "user"] ANY true] in
  let '(v', es) := apply_matchers ms exv in
  es = [] /\ get v' [k_user] = Some ANY /\
  apply_matchers ms v' = (v', [err 0 "user.name" RMissing]).
Proof. vm_compute. repeat split. Qed.

(* idempotence fails for Type matchers other than Type[string]: the placeholder is a string *)
Example ex_type_not_idempotent :
  let ms := [MType [B "user.age"] TNumber true] in
  let '(v', es) := apply_matchers ms exv in
  es = [] /\ apply_matchers ms v' = (v', [err 1 "user.age" RType]).
Proof. vm_compute. repeat split. Qed.

Example ex_idempotent_instance :
  let ms := [MAny [B "time"; B "tags.0"] ANY true; MAny [B "user.name"; B "nope"] JNull false] in
  pairwise_disj (all_paths ms) = true /\
  let '(v', es) := apply_matchers ms exv in es = [] /\ apply_matchers ms v' = (v', []).
Proof. vm_compute. repeat split. Qed.

(* the text-level function on the rendered document: byte for byte what the Go code returned
   (go_ref.txt, cases any_one and discard_rule) *)
Example ex_text_any_one :
  apply_matchers_text [MAny [B "time"] ANY true] exdoc =
  Some ([123; 10; 32; 34; 110; 105; 108; 34; 58; 32; 110; 117; 108; 108; 44; 10; 32; 34; 111; 107; 34; 58; 32; 116; 114; 117; 101; 44; 10; 32; 34; 116; 97; 103; 115; 34; 58; 32; 91; 10; 32; 32; 34; 120; 34; 44; 10; 32; 32; 34; 121; 34; 10; 32; 93; 44; 10; 32; 34; 116; 105; 109; 101; 34; 58; 32; 34; 60; 65; 110; 121; 32; 118; 97; 108; 117; 101; 62; 34; 44; 10; 32; 34; 117; 115; 101; 114; 34; 58; 32; 123; 10; 32; 32; 34; 97; 103; 101; 34; 58; 32; 51; 44; 10; 32; 32; 34; 110; 97; 109; 101; 34; 58; 32; 34; 110; 34; 10; 32; 125; 10; 125]%N, []).
Proof. vm_compute. reflexivity. Qed.

Example ex_text_discard_rule :
  apply_matchers_text [MAny [B "user.name"; B "missing"] ANY true; MAny [B "time"] ANY true] exdoc =
  Some ([123; 10; 32; 34; 110; 105; 108; 34; 58; 32; 110; 117; 108; 108; 44; 10; 32; 34; 111; 107; 34; 58; 32; 116; 114; 117; 101; 44; 10; 32; 34; 116; 97; 103; 115; 34; 58; 32; 91; 10; 32; 32; 34; 120; 34; 44; 10; 32; 32; 34; 121; 34; 10; 32; 93; 44; 10; 32; 34; 116; 105; 109; 101; 34; 58; 32; 34; 60; 65; 110; 121; 32; 118; 97; 108; 117; 101; 62; 34; 44; 10; 32; 34; 117; 115; 101; 114; 34; 58; 32; 123; 10; 32; 32; 34; 97; 103; 101; 34; 58; 32; 51; 44; 10; 32; 32; 34; 110; 97; 109; 101; 34; 58; 32; 34; 110; 34; 10; 32; 125; 10; 125]%N, [err 0 "missing" RMissing]).
Proof. vm_compute. reflexivity. Qed.

Example ex_text_invalid_document : apply_matchers_text [MAny [B "time"] ANY true] (B "{""a"":}") = None.
Proof. vm_compute. reflexivity. Qed.

(* ================================================================== *)
(* assumptions                                                          *)

Print Assumptions matchers_others_untouched.
Print Assumptions C15_others_untouched_list.
Print Assumptions matcher_path_is_set.
Print Assumptions C15_any_target_replaced.
Print Assumptions C15_any_no_error_inv.
Print Assumptions C15_top_shape.
Print Assumptions matcher_paths_left_to_right_any.
Print Assumptions matcher_paths_left_to_right_type.
Print Assumptions matchers_keep_rule.
Print Assumptions matchers_discard_rule.
Print Assumptions apply_matchers_app.
Print Assumptions get_below_scalar.
Print Assumptions ancestor_then_descendant.
Print Assumptions C17_errors_named.
Print Assumptions C17_errors_nonempty.
Print Assumptions C17_errors_sound.
Print Assumptions path_fails_iff.
Print Assumptions matcher_fun_fail_iff.
Print Assumptions C17_tolerated_missing_any.
Print Assumptions C17_tolerated_missing_type.
Print Assumptions C17_tolerated_missing_custom.
Print Assumptions set_set_comm.
Print Assumptions steps_of_set_stable.
Print Assumptions C16_masked_single.
Print Assumptions C16_masked_single_any.
Print Assumptions C16_masked_one.
Print Assumptions C16_masked_list.
Print Assumptions C16_masked_text.
Print Assumptions C16_unmasked_list.
Print Assumptions C16_unmasked_text_nosort.
Print Assumptions result_is_masked_variant.
Print Assumptions matchers_idempotent.
Print Assumptions any_matchers_idempotent.
Print Assumptions matchers_wf.
Print Assumptions cdisj_sound.
Print Assumptions cdisj2_sound.
