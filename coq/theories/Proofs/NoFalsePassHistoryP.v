(* C02 over histories: a recorded history replayed with ONE call's value changed - that call, and
   only that call, fails with a diff; nothing is written. Stated for multi-entry histories
   (hypotheses of HistoryP.replay_after_create) and for histories mixing all five APIs
   (hypotheses of StandaloneHistoryP.replay_after_create_all_gen). *)
From Coq Require Import String.
From Coq Require Import List NArith Arith Bool Lia.
Import ListNotations.
From Snaps Require Import Base.Bytes Base.Lines Base.Dec Base.Assoc.
From Snaps Require Import Model.Frame Model.PathModel Model.Mode Model.Api.
From Snaps Require Import Proofs.BytesP Proofs.LinesP Proofs.DecP Proofs.FrameP Proofs.DiffDecisionP
  Proofs.ApiP Proofs.StandaloneP Proofs.StepP Proofs.OutcomeP Proofs.HistoryP Proofs.UpdateHistoryP
  Proofs.StandaloneHistoryP.

(* ====================================================================================== *)
(* 1. The comparison depends on the value exactly through its stored form                  *)
(* ====================================================================================== *)

Lemma unesc_line_inj l1 l2 : l1 <> endseq -> l2 <> endseq -> unesc_line l1 = unesc_line l2 -> l1 = l2.
Proof.
  unfold unesc_line. intros H1 H2.
  destruct (beq_spec l1 token) as [->|N1], (beq_spec l2 token) as [->|N2]; intros E; congruence.
Qed.

Lemma map_unesc_inj ls1 : forall ls2,
  ~ In endseq ls1 -> ~ In endseq ls2 -> map unesc_line ls1 = map unesc_line ls2 -> ls1 = ls2.
Proof.
  induction ls1 as [|l1 ls1 IH]; intros [|l2 ls2] H1 H2 E; cbn [map] in E; try discriminate; [reflexivity|].
  injection E as E1 E2. f_equal.
  - apply unesc_line_inj; [intros ->; apply H1; now left|intros ->; apply H2; now left|assumption].
  - apply IH; [intros H; apply H1; now right|intros H; apply H2; now right|assumption].
Qed.

(* unescaping is injective on texts without a terminator line - in particular on escaped texts *)
Lemma unescape_inj_no_endseq x y :
  ~ In endseq (split_nl x) -> ~ In endseq (split_nl y) -> unescape x = unescape y -> x = y.
Proof.
  intros Hx Hy E. apply split_nl_inj. apply map_unesc_inj; [assumption..|].
  rewrite <- !unescape_lines. now rewrite E.
Qed.

Lemma unescape_escape_inj t t' : unescape (escape t') = unescape (escape t) -> escape t' = escape t.
Proof. apply unescape_inj_no_endseq; apply escape_no_endseq. Qed.

(* what a call of API [a] stores for [text] (multi-entry: escaped unless JSON; standalone: the bytes) *)
Definition stored_of (a : api) (text : bytes) : bytes :=
  if is_standalone a then text else snap_of a text.

(* a slot that passes for [text] fails for every [text'] with a different stored form ... *)
Lemma same_changed a prev text text' :
  same a prev text = true -> snap_of a text' <> snap_of a text -> same a prev text' = false.
Proof.
  intros Hs Hne.
  assert (Hgen : diff_empty (unescape prev) (unescape (escape text)) = true ->
                 escape text' <> escape text ->
                 diff_empty (unescape prev) (unescape (escape text')) = false).
  { intros H1 H2. apply diff_empty_true_eq in H1. apply diff_empty_false. rewrite H1.
    intros E. apply H2. apply unescape_escape_inj. now symmetry. }
  destruct a; cbn [same snap_of] in *; try (now apply Hgen).
  apply diff_empty_true_eq in Hs. subst prev. apply diff_empty_false. intros E. apply Hne. now symmetry.
Qed.

(* ... and passes for every [text'] with the same stored form (the whole of finding K1) *)
Lemma same_unchanged a prev text text' :
  snap_of a text' = snap_of a text -> same a prev text' = same a prev text.
Proof. destruct a; cbn [same snap_of]; intros ->; reflexivity. Qed.

(* away from the escape token, a different value has a different stored form *)
Lemma snap_of_differs a text text' :
  text' <> text -> (a <> AJson -> no_token_line text /\ no_token_line text') ->
  snap_of a text' <> snap_of a text.
Proof.
  intros Hne Htok E.
  assert (Hgen : escape text' = escape text -> a <> AJson -> False).
  { intros E' Ha. destruct (Htok Ha) as [H0 H1]. apply Hne. apply unescape_inj_on; [assumption..|].
    now rewrite <- (unescape_escape text'), <- (unescape_escape text), E'. }
  destruct a; cbn [snap_of] in E; try (apply Hgen; [assumption|discriminate]).
  now apply Hne.
Qed.

(* ====================================================================================== *)
(* 2. Runs of concatenated histories                                                       *)
(* ====================================================================================== *)

Lemma run_nil s : run s [] = (s, []).
Proof. reflexivity. Qed.

Lemma run_app h1 : forall s h2,
  run s (h1 ++ h2) =
  (fst (run (fst (run s h1)) h2), snd (run s h1) ++ snd (run (fst (run s h1)) h2)).
Proof.
  induction h1 as [|o r IH]; intros s h2.
  - cbn [app]. rewrite run_nil. cbn [fst snd app]. now destruct (run s h2).
  - change ((o :: r) ++ h2) with (o :: (r ++ h2)). rewrite (run_cons s o (r ++ h2)), (run_cons s o r).
    rewrite IH. reflexivity.
Qed.

Lemma run_length h : forall s, length (snd (run s h)) = length h.
Proof.
  induction h as [|o r IH]; intros s; [reflexivity|]. rewrite run_cons. cbn [snd length]. now rewrite IH.
Qed.

Lemma mfacts_app h1 : forall s h2, mfacts s (h1 ++ h2) = mfacts s h1 ++ mfacts (fst (run s h1)) h2.
Proof.
  induction h1 as [|o r IH]; intros s h2; [reflexivity|].
  change ((o :: r) ++ h2) with (o :: (r ++ h2)). cbn [mfacts]. rewrite IH, run_cons. cbn [fst].
  now rewrite app_assoc.
Qed.

Lemma sfacts_app h1 : forall s h2, sfacts s (h1 ++ h2) = sfacts s h1 ++ sfacts (fst (run s h1)) h2.
Proof.
  induction h1 as [|o r IH]; intros s h2; [reflexivity|].
  change ((o :: r) ++ h2) with (o :: (r ++ h2)). cbn [sfacts]. rewrite IH, run_cons. cbn [fst].
  now rewrite app_assoc.
Qed.

Lemma mixed_run_view h : forall s t,
  Forall mixed_op_ok h -> reg_view s = reg_view t -> reg_view (fst (run s h)) = reg_view (fst (run t h)).
Proof.
  induction h as [|o r IH]; intros s t Hok Hv; [exact Hv|].
  inversion Hok as [|? ? Ho Hr]; subst. rewrite !run_cons. cbn [fst].
  apply IH; [assumption|]. now destruct (mixed_step_view s t o Ho Hv).
Qed.

Lemma mixed_api_op o : mixed_op_ok o -> api_op o.
Proof.
  intros [H|H]; destruct o; cbn [hist_op_ok stand_op_ok api_op] in *; try contradiction; exact I.
Qed.

(* the mode of a process does not change along a history *)
Lemma mixed_run_env h : forall s, Forall mixed_op_ok h -> s_env (fst (run s h)) = s_env s.
Proof.
  induction h as [|o r IH]; intros s Hok; [reflexivity|].
  inversion Hok as [|? ? Ho Hr]; subst. rewrite run_cons. cbn [fst].
  rewrite IH by assumption. apply step_env. now apply mixed_api_op.
Qed.

(* ====================================================================================== *)
(* 3. The changed call                                                                     *)
(* ====================================================================================== *)

(* reported as a mismatch: one error for the test, no log line, nothing written *)
Definition diff_fail (o : obs) : Prop :=
  o_outcome o = Failed EDiff /\ o_errors o = 1 /\ o_logs o = [] /\ o_writes o = [].

Lemma eff_cfg_update a c : c_update (eff_cfg a c) = c_update c.
Proof. destruct a; cbn [eff_cfg]; try reflexivity. apply json_ext_update. Qed.

Lemma stand_call_path' s a c test p : o_path (snd (stand_call s a c test p)) = stand_path s c test.
Proof. destruct (stand_call s a c test p) as [s' o] eqn:E. exact (stand_call_path _ _ _ _ _ _ _ E). Qed.

Lemma stand_call_id s a c test p : o_id (snd (stand_call s a c test p)) = [].
Proof.
  unfold stand_call, reg_stand, finish. cbn. destruct p; cbn; try reflexivity.
  destruct (alookup _ _).
  - destruct (diff_empty _ _); [reflexivity|]. destruct (should_update _ _); reflexivity.
  - destruct (should_create _ _); reflexivity.
Qed.

(* one step: the slot holds the recorded value, the call brings a value with another stored form,
   updating is off => diff failure, same file system, same registry evolution, same slot *)
Lemma changed_step t a hd test text text' c :
  nth_error (s_cfgs t) hd = Some c ->
  Forall (holds (s_fs t)) (mfact_of t (OMatch a hd test (POk text))) ->
  Forall (sholds (s_fs t)) (sfact_of t (OMatch a hd test (POk text))) ->
  stored_of a text' <> stored_of a text ->
  should_update (s_env t) (c_update c) = false ->
  let r' := step t (OMatch a hd test (POk text')) in
  let r := step t (OMatch a hd test (POk text)) in
  diff_fail (snd r') /\ s_fs (fst r') = s_fs t /\ reg_view (fst r') = reg_view (fst r) /\
  o_path (snd r') = o_path (snd r) /\ o_id (snd r') = o_id (snd r).
Proof.
  intros Hc Hm Hs Hne Hup. cbv zeta. unfold stored_of in Hne.
  cbn [mfact_of sfact_of fact_of] in Hm, Hs.
  destruct (is_standalone a) eqn:Hst; try rewrite Hst in Hm; try rewrite Hst in Hs;
    try rewrite Hc in Hm; try rewrite Hc in Hs.
  - (* standalone *)
    rewrite !(step_match_stand _ _ _ _ _ _ Hst Hc).
    inversion Hs as [|? ? Hh _]; subst. unfold sholds in Hh. cbn [fst snd] in Hh.
    split; [|split; [|split; [|split]]].
    + destruct (stand_call_spec t a (eff_cfg a c) test text')
        as [s' [o [E [_ [_ [_ [_ [_ [Hmm [_ [He Hl]]]]]]]]]]].
      rewrite Hh, (diff_empty_false _ _ (not_eq_sym Hne)), eff_cfg_update, Hup in Hmm.
      destruct Hmm as [Ho [Hw _]]. rewrite E. cbn [snd]. rewrite Ho in He, Hl.
      unfold diff_fail. auto.
    + destruct (stand_call_spec t a (eff_cfg a c) test text')
        as [s' [o [E [_ [_ [_ [_ [_ [Hmm _]]]]]]]]].
      rewrite Hh, (diff_empty_false _ _ (not_eq_sym Hne)), eff_cfg_update, Hup in Hmm.
      destruct Hmm as [_ [_ Hfs]]. rewrite E. exact Hfs.
    + now rewrite !stand_call_view.
    + now rewrite !stand_call_path'.
    + now rewrite !stand_call_id.
  - (* multi-entry *)
    rewrite !(step_match_multi _ _ _ _ _ _ Hst Hc).
    inversion Hm as [|? ? Hh _]; subst. destruct Hh as [prev [n [Hl Hsame]]].
    destruct (multi_call_spec t a c test text' Hst)
      as [s' [o [E [Hp [Hi [_ [_ [_ [_ [_ [Hmm [_ [He Hlg]]]]]]]]]]]]].
    destruct (multi_call_spec t a c test text Hst) as [s0' [o0 [E0 [Hp0 [Hi0 _]]]]].
    rewrite Hl, (same_changed a prev text text' Hsame Hne), Hup in Hmm.
    destruct Hmm as [Ho [Hw [Hfs _]]].
    split; [|split; [|split; [|split]]].
    + rewrite E. cbn [snd]. rewrite Ho in He, Hlg. unfold diff_fail. auto.
    + rewrite E. exact Hfs.
    + rewrite !multi_call_view. destruct a; reflexivity.
    + rewrite E, E0. cbn [snd]. congruence.
    + rewrite E, E0. cbn [snd]. congruence.
Qed.

(* the replay process, one value changed: generic form on any state in which every recorded fact of
   the ORIGINAL history holds *)
Lemma changed_replay_run t h1 h2 a hd test text text' c :
  let o := OMatch a hd test (POk text) in
  let o' := OMatch a hd test (POk text') in
  Forall mixed_op_ok (h1 ++ o :: h2) -> Forall has_value (h1 ++ o :: h2) ->
  Forall (holds (s_fs t)) (mfacts t (h1 ++ o :: h2)) ->
  Forall (sholds (s_fs t)) (sfacts t (h1 ++ o :: h2)) ->
  nth_error (s_cfgs (fst (run t h1))) hd = Some c ->
  stored_of a text' <> stored_of a text ->
  should_update (s_env t) (c_update c) = false ->
  exists obs1 ob obs2,
    snd (run t (h1 ++ o' :: h2)) = obs1 ++ ob :: obs2 /\
    length obs1 = length h1 /\ length obs2 = length h2 /\
    Forall silent_pass obs1 /\ diff_fail ob /\ Forall silent_pass obs2 /\
    o_path ob = o_path (nth (length h1) (snd (run t (h1 ++ o :: h2))) obs_none) /\
    o_id ob = o_id (nth (length h1) (snd (run t (h1 ++ o :: h2))) obs_none) /\
    s_fs (fst (run t (h1 ++ o' :: h2))) = s_fs t.
Proof.
  intros o o' Hok Hval Hm Hs Hc Hne Hup.
  apply Forall_app in Hok as [Hok1 Hok2]. inversion Hok2 as [|? ? Hoko Hok3]; subst.
  apply Forall_app in Hval as [Hval1 Hval2]. inversion Hval2 as [|? ? _ Hval3]; subst.
  rewrite mfacts_app in Hm. apply Forall_app in Hm as [Hm1 Hm2].
  rewrite sfacts_app in Hs. apply Forall_app in Hs as [Hs1 Hs2].
  cbn [mfacts sfacts] in Hm2, Hs2.
  apply Forall_app in Hm2 as [Hmo Hm3]. apply Forall_app in Hs2 as [Hso Hs3].
  (* the prefix replays *)
  destruct (replay_run_mixed h1 t Hok1 Hm1 Hs1 Hval1) as [Hsil1 Hfs1].
  set (t1 := fst (run t h1)) in *.
  assert (Henv1 : s_env t1 = s_env t) by (unfold t1; now apply mixed_run_env).
  rewrite <- Hfs1 in Hmo, Hso, Hm3, Hs3.
  (* the changed call *)
  rewrite <- Henv1 in Hup.
  destruct (changed_step t1 a hd test text text' c Hc Hmo Hso Hne Hup) as [Hdf [Hfs2 [Hv2 [Hpath Hid]]]].
  fold o o' in Hdf, Hfs2, Hv2, Hpath, Hid.
  set (t2' := fst (step t1 o')) in *. set (t2 := fst (step t1 o)) in *.
  (* the suffix replays from the view-equal state *)
  destruct (mixed_facts_view h2 t2' t2 Hok3 Hv2) as [Hmf Hsf].
  destruct (replay_run_mixed h2 t2' Hok3) as [Hsil3 Hfs3]; try assumption.
  { rewrite Hmf, Hfs2. exact Hm3. }
  { rewrite Hsf, Hfs2. exact Hs3. }
  exists (snd (run t h1)), (snd (step t1 o')), (snd (run t2' h2)).
  rewrite !run_app, !run_cons. cbn [fst snd]. fold t1. fold t2' t2.
  split; [reflexivity|]. split; [apply run_length|]. split; [apply run_length|].
  split; [assumption|]. split; [assumption|]. split; [assumption|].
  rewrite app_nth2 by (rewrite run_length; lia). rewrite run_length, Nat.sub_diag. cbn [nth].
  split; [assumption|]. split; [assumption|]. now rewrite Hfs3, Hfs2.
Qed.

(* ====================================================================================== *)
(* 4. Which slot an observation names depends on the registry view only                    *)
(* ====================================================================================== *)

Lemma step_obs_view s t o :
  mixed_op_ok o -> has_value o -> reg_view s = reg_view t ->
  o_path (snd (step s o)) = o_path (snd (step t o)) /\ o_id (snd (step s o)) = o_id (snd (step t o)).
Proof.
  intros Ho Hv Hview.
  assert (Hcf : s_cfgs s = s_cfgs t) by (unfold reg_view in Hview; congruence).
  destruct o as [a hd test p|test|test|fn d ex u|e|pa co|pa|];
    try (exfalso; destruct Ho as [Ho|Ho]; exact Ho); try (split; reflexivity).
  destruct Hv as [text ->].
  destruct (nth_error (s_cfgs s) hd) as [c|] eqn:Ec.
  - assert (Ec' : nth_error (s_cfgs t) hd = Some c) by now rewrite <- Hcf.
    destruct (is_standalone a) eqn:Hst.
    + rewrite (step_match_stand _ _ _ _ _ _ Hst Ec), (step_match_stand _ _ _ _ _ _ Hst Ec').
      rewrite !stand_call_path', !stand_call_id.
      destruct (view_spaths s t (eff_cfg a c) test Hview) as [_ Hp]. now rewrite Hp.
    + rewrite (step_match_multi _ _ _ _ _ _ Hst Ec), (step_match_multi _ _ _ _ _ _ Hst Ec').
      destruct (multi_call_spec s a c test text Hst) as [s1 [o1 [E1 [Hp1 [Hi1 _]]]]].
      destruct (multi_call_spec t a c test text Hst) as [s2 [o2 [E2 [Hp2 [Hi2 _]]]]].
      rewrite E1, E2. cbn [snd]. destruct (view_paths s t c test Hview) as [Hp Hi]. split; congruence.
  - assert (Ec' : nth_error (s_cfgs t) hd = None) by now rewrite <- Hcf.
    rewrite !step_match_nocfg by assumption. split; reflexivity.
Qed.

Lemma run_obs_view h : forall s t,
  Forall mixed_op_ok h -> Forall has_value h -> reg_view s = reg_view t ->
  map o_path (snd (run s h)) = map o_path (snd (run t h)) /\
  map o_id (snd (run s h)) = map o_id (snd (run t h)).
Proof.
  induction h as [|o r IH]; intros s t Hok Hval Hv; [split; reflexivity|].
  inversion Hok as [|? ? Ho Hr]; subst. inversion Hval as [|? ? Hvo Hvr]; subst.
  rewrite !run_cons. cbn [snd map].
  destruct (step_obs_view s t o Ho Hvo Hv) as [Hp Hi].
  destruct (mixed_step_view s t o Ho Hv) as [Hv' _].
  destruct (IH _ _ Hr Hvr Hv') as [H1 H2]. now rewrite Hp, Hi, H1, H2.
Qed.

Lemma nth_obs_view h s t i :
  Forall mixed_op_ok h -> Forall has_value h -> reg_view s = reg_view t ->
  o_path (nth i (snd (run s h)) obs_none) = o_path (nth i (snd (run t h)) obs_none) /\
  o_id (nth i (snd (run s h)) obs_none) = o_id (nth i (snd (run t h)) obs_none).
Proof.
  intros Hok Hval Hv. destruct (run_obs_view h s t Hok Hval Hv) as [Hp Hi].
  rewrite <- !(map_nth o_path), <- !(map_nth o_id). now rewrite Hp, Hi.
Qed.

(* ====================================================================================== *)
(* 5. C02 over histories                                                                   *)
(* ====================================================================================== *)

(* Histories mixing all five APIs (hypotheses of replay_after_create_all_gen). [h] is recorded from a
   fresh process; the replay process (new process, mode e2) executes [h] with the value of ONE call
   changed to [text'] whose stored form differs; the Config the call goes through does not enable
   updating in mode e2. Then exactly that call fails with a diff (one error, no log, no write, naming
   the slot - file and header - the recorded call addressed), every other call passes silently and the
   file system is the recorded one.
   No slot-uniqueness hypothesis is needed: every call of the recorded history passed or added
   (rec_ok), so all recorded facts hold TOGETHER in the final file system - a slot addressed twice
   (after the end of a test execution) was addressed with values that compare equal - and the failing
   call writes nothing, so the calls after it still find their values. [h] may contain any number of
   OEndTest re-executions, also of the changed test. *)
Theorem changed_call_fails_all s0 h1 h2 e2 a hd test text text' c :
  let o := OMatch a hd test (POk text) in
  let o' := OMatch a hd test (POk text') in
  let h := h1 ++ o :: h2 in
  let h' := h1 ++ o' :: h2 in
  fresh s0 -> Forall mixed_op_ok h -> Forall has_value h ->
  wf_on (fun p => In p (map fpath (mfacts s0 h))) (s_fs s0) ->
  disjoint_paths (mfacts s0 h) (sfacts s0 h) ->
  Forall rec_ok (snd (run s0 h)) ->
  nth_error (s_cfgs (fst (run s0 h1))) hd = Some c ->
  stored_of a text' <> stored_of a text ->
  should_update e2 (c_update c) = false ->
  let s1 := fst (run s0 h) in
  let t0 := replay_start s1 e2 in
  exists obs1 ob obs2,
    snd (run t0 h') = obs1 ++ ob :: obs2 /\
    length obs1 = length h1 /\ length obs2 = length h2 /\
    Forall silent_pass obs1 /\ diff_fail ob /\ Forall silent_pass obs2 /\
    o_path ob = o_path (nth (length h1) (snd (run s0 h)) obs_none) /\
    o_id ob = o_id (nth (length h1) (snd (run s0 h)) obs_none) /\
    s_fs (fst (run t0 h')) = s_fs s1.
Proof.
  intros o o' h h' Hfr Hok Hval Hwf Hdis Hrec Hc Hne Hup s1 t0.
  destruct (record_run_mixed (fun p => In p (map fpath (mfacts s0 h))) h s0 Hok Hwf)
    as [Hm [Hs _]]; try assumption.
  { apply Forall_forall. intros f Hin. now apply in_map. }
  { apply Forall_forall. intros sf Hin Hin'. apply in_map_iff in Hin' as [f [E Hf]].
    now apply (Hdis f sf). }
  fold s1 in Hm, Hs.
  pose proof (replay_view s0 h e2 Hfr Hok) as Hview. fold s1 t0 in Hview.
  assert (Hfs : s_fs t0 = s_fs s1) by reflexivity.
  assert (Henv : s_env t0 = e2) by reflexivity.
  destruct (mixed_facts_view h s0 t0 Hok Hview) as [Hmf Hsf].
  assert (Hok1 : Forall mixed_op_ok h1) by (unfold h in Hok; now apply Forall_app in Hok as [H _]).
  assert (Hc' : nth_error (s_cfgs (fst (run t0 h1))) hd = Some c).
  { pose proof (mixed_run_view h1 s0 t0 Hok1 Hview) as Hv1. unfold reg_view in Hv1.
    injection Hv1 as _ _ _ Hcf _. now rewrite <- Hcf. }
  rewrite <- Henv in Hup. rewrite Hmf, <- Hfs in Hm. rewrite Hsf, <- Hfs in Hs.
  destruct (changed_replay_run t0 h1 h2 a hd test text text' c Hok Hval Hm Hs Hc' Hne Hup)
    as [obs1 [ob [obs2 [E [L1 [L2 [S1 [D [S2 [Hp [Hi Hf]]]]]]]]]]].
  destruct (nth_obs_view h s0 t0 (length h1) Hok Hval Hview) as [Hp' Hi'].
  exists obs1, ob, obs2. fold o o' h h' in E, Hp, Hi, Hf.
  repeat (split; [assumption|]). split; [congruence|]. split; [congruence|]. congruence.
Qed.

(* Multi-entry histories (hypotheses of HistoryP.replay_after_create): the formatted snapshots differ *)
Theorem changed_call_fails s0 h1 h2 e2 a hd test text text' c :
  let o := OMatch a hd test (POk text) in
  let o' := OMatch a hd test (POk text') in
  let h := h1 ++ o :: h2 in
  let h' := h1 ++ o' :: h2 in
  fresh s0 -> wf_fs (s_fs s0) -> Forall hist_op_ok h -> Forall has_value h ->
  Forall rec_ok (snd (run s0 h)) ->
  nth_error (s_cfgs (fst (run s0 h1))) hd = Some c ->
  snap_of a text' <> snap_of a text ->
  should_update e2 (c_update c) = false ->
  let s1 := fst (run s0 h) in
  let t0 := replay_start s1 e2 in
  exists obs1 ob obs2,
    snd (run t0 h') = obs1 ++ ob :: obs2 /\
    length obs1 = length h1 /\ length obs2 = length h2 /\
    Forall silent_pass obs1 /\ diff_fail ob /\ Forall silent_pass obs2 /\
    o_path ob = o_path (nth (length h1) (snd (run s0 h)) obs_none) /\
    o_id ob = o_id (nth (length h1) (snd (run s0 h)) obs_none) /\
    s_fs (fst (run t0 h')) = s_fs s1.
Proof.
  intros o o' h h' Hfr Hwf Hok Hval Hrec Hc Hne Hup.
  assert (Hst : is_standalone a = false).
  { unfold h in Hok. apply Forall_app in Hok as [_ Hok]. inversion Hok as [|? ? Ho _]. exact (proj1 Ho). }
  apply (changed_call_fails_all s0 h1 h2 e2 a hd test text text' c); try assumption.
  - now apply hist_is_mixed.
  - intros p f _ Hl. now apply (Hwf p f).
  - intros f sf _ Hin. pose proof (sfacts_hist h s0 Hok) as E. unfold h, o in E. rewrite E in Hin. destruct Hin.
  - unfold stored_of. now rewrite Hst.
Qed.

(* In the words of C02 as stated for one call (Properties/C02.v): ANY different value, away from the
   escape token for MatchSnapshot / MatchYAML *)
Corollary changed_value_fails s0 h1 h2 e2 a hd test text text' c :
  let o := OMatch a hd test (POk text) in
  let o' := OMatch a hd test (POk text') in
  let h := h1 ++ o :: h2 in
  let h' := h1 ++ o' :: h2 in
  fresh s0 -> wf_fs (s_fs s0) -> Forall hist_op_ok h -> Forall has_value h ->
  Forall rec_ok (snd (run s0 h)) ->
  nth_error (s_cfgs (fst (run s0 h1))) hd = Some c ->
  text' <> text -> (a <> AJson -> no_token_line text /\ no_token_line text') ->
  should_update e2 (c_update c) = false ->
  let s1 := fst (run s0 h) in
  let t0 := replay_start s1 e2 in
  exists obs1 ob obs2,
    snd (run t0 h') = obs1 ++ ob :: obs2 /\
    length obs1 = length h1 /\ length obs2 = length h2 /\
    Forall silent_pass obs1 /\ diff_fail ob /\ Forall silent_pass obs2 /\
    o_path ob = o_path (nth (length h1) (snd (run s0 h)) obs_none) /\
    o_id ob = o_id (nth (length h1) (snd (run s0 h)) obs_none) /\
    s_fs (fst (run t0 h')) = s_fs s1.
Proof.
  intros o o' h h' Hfr Hwf Hok Hval Hrec Hc Hne Htok Hup.
  apply (changed_call_fails s0 h1 h2 e2 a hd test text text' c); try assumption. now apply snap_of_differs.
Qed.

(* ---------- the same by position ---------- *)

Definition replace_at {A} (i : nat) (x : A) (l : list A) : list A := firstn i l ++ x :: skipn (S i) l.

Lemma nth_error_split_at {A} (l : list A) : forall i x,
  nth_error l i = Some x -> l = firstn i l ++ x :: skipn (S i) l /\ length (firstn i l) = i.
Proof.
  induction l as [|y l IH]; intros [|i] x H; cbn [nth_error] in H; try discriminate.
  - injection H as ->. split; reflexivity.
  - destruct (IH i x H) as [E L]. split.
    + change (skipn (S (S i)) (y :: l)) with (skipn (S i) l). cbn [firstn app]. f_equal. exact E.
    + cbn [firstn length]. now rewrite L.
Qed.

Lemma nth_error_around {A} (P : A -> Prop) (l1 l2 : list A) x j y :
  Forall P l1 -> Forall P l2 -> j <> length l1 -> nth_error (l1 ++ x :: l2) j = Some y -> P y.
Proof.
  intros H1 H2 Hj E. destruct (Nat.lt_ge_cases j (length l1)) as [Hlt|Hge].
  - rewrite nth_error_app1 in E by assumption. apply nth_error_In in E.
    rewrite Forall_forall in H1. now apply H1.
  - rewrite nth_error_app2 in E by assumption.
    destruct (j - length l1) as [|k] eqn:Ek; [lia|]. cbn [nth_error] in E. apply nth_error_In in E.
    rewrite Forall_forall in H2. now apply H2.
Qed.

Theorem changed_call_fails_at s0 h e2 i a hd test text text' c :
  nth_error h i = Some (OMatch a hd test (POk text)) ->
  let h' := replace_at i (OMatch a hd test (POk text')) h in
  fresh s0 -> Forall mixed_op_ok h -> Forall has_value h ->
  wf_on (fun p => In p (map fpath (mfacts s0 h))) (s_fs s0) ->
  disjoint_paths (mfacts s0 h) (sfacts s0 h) ->
  Forall rec_ok (snd (run s0 h)) ->
  nth_error (s_cfgs (fst (run s0 (firstn i h)))) hd = Some c ->
  stored_of a text' <> stored_of a text ->
  should_update e2 (c_update c) = false ->
  let s1 := fst (run s0 h) in
  let obs' := snd (run (replay_start s1 e2) h') in
  length obs' = length h /\
  (exists ob, nth_error obs' i = Some ob /\ diff_fail ob /\
              o_path ob = o_path (nth i (snd (run s0 h)) obs_none) /\
              o_id ob = o_id (nth i (snd (run s0 h)) obs_none)) /\
  (forall j ob, j <> i -> nth_error obs' j = Some ob -> silent_pass ob) /\
  s_fs (fst (run (replay_start s1 e2) h')) = s_fs s1.
Proof.
  intros Hi h' Hfr Hok Hval Hwf Hdis Hrec Hc Hne Hup s1 obs'.
  destruct (nth_error_split_at h i _ Hi) as [Eh Li].
  set (h1 := firstn i h) in *. set (h2 := skipn (S i) h) in *.
  assert (Hs1 : s1 = fst (run s0 (h1 ++ OMatch a hd test (POk text) :: h2))) by (unfold s1; now rewrite <- Eh).
  rewrite Eh in Hok, Hval, Hwf, Hdis, Hrec.
  destruct (changed_call_fails_all s0 h1 h2 e2 a hd test text text' c Hfr Hok Hval Hwf Hdis Hrec Hc Hne Hup)
    as [obs1 [ob [obs2 [E [L1 [L2 [S1 [D [S2 [Hp [Hid Hf]]]]]]]]]]].
  rewrite <- Hs1 in E, Hf. rewrite <- Eh in Hp, Hid. rewrite Li in Hp, Hid.
  unfold obs', h', replace_at. fold h1 h2. rewrite E. split; [|split; [|split]].
  - rewrite app_length. cbn [length]. rewrite L1, L2, Eh at 1. rewrite app_length. reflexivity.
  - exists ob. split; [|auto]. rewrite nth_error_app2 by lia. rewrite L1, Li, Nat.sub_diag. reflexivity.
  - intros j ob' Hj Ej. apply (nth_error_around silent_pass obs1 obs2 ob j ob' S1 S2); [lia|exact Ej].
  - exact Hf.
Qed.

(* ====================================================================================== *)
(* 6. Non-vacuity and the necessity side, computed                                         *)
(* ====================================================================================== *)

Module NfpExample.
  Local Open Scope string_scope.

  Definition env0 := {| ci := false; upd := UUnset; colour := false |}.
  Definition env_ci := {| ci := true; upd := UUnset; colour := false |}.
  Definition env_upd := {| ci := false; upd := UTrue; colour := false |}.
  Definition s0 := init_state env0 (B "/r/x_test.go") (B "__snapshots__").
  Definition file := B "/r/__snapshots__/x_test.snap".

  (* TestA makes three calls, ends, and is executed AGAIN (same slots, same values); TestB follows.
     The changed call is the second one (slot "[TestA - 2]"), which the re-execution addresses too. *)
  Definition h1 : list op := [OMatch ASnap 0 (B "TestA") (POk (B "first"))].
  Definition h2 : list op :=
    [OMatch AJson 0 (B "TestA") (POk (B "{}"));
     OEndTest (B "TestA");
     OMatch ASnap 0 (B "TestA") (POk (B "first"));
     OMatch ASnap 0 (B "TestA") (POk (B "hello"));
     OMatch AYaml 0 (B "TestB") (POk (B "k: v"))].
  Definition h : list op := h1 ++ OMatch ASnap 0 (B "TestA") (POk (B "hello")) :: h2.
  Definition h' : list op := h1 ++ OMatch ASnap 0 (B "TestA") (POk (B "hullo")) :: h2.

  Ltac op_ok :=
    repeat first [ exact I | reflexivity | discriminate
                 | apply Forall_nil | apply Forall_cons | split
                 | (intros; intuition discriminate) ].

  Example hyps :
    fresh s0 /\ wf_fs (s_fs s0) /\ Forall hist_op_ok h /\ Forall has_value h /\
    Forall rec_ok (snd (run s0 h)) /\
    nth_error (s_cfgs (fst (run s0 h1))) 0 = Some (default_config (B "__snapshots__")) /\
    snap_of ASnap (B "hullo") <> snap_of ASnap (B "hello") /\
    should_update env0 (c_update (default_config (B "__snapshots__"))) = false /\
    should_update env_ci (c_update (default_config (B "__snapshots__"))) = false.
  Proof.
    split; [repeat split|]. split; [intros p f H; discriminate H|].
    split; [vm_compute; op_ok|]. split; [forall_by_compute|]. split; [forall_by_compute|].
    split; [vm_compute; reflexivity|]. split; [vm_compute; discriminate|]. split; reflexivity.
  Qed.

  Example recording :
    map o_outcome (snd (run s0 h)) = [Added; Added; Added; NoCall; Passed; Passed; Added] /\
    map o_id (snd (run s0 h)) =
      [B "[TestA - 1]"; B "[TestA - 2]"; B "[TestA - 3]"; []; B "[TestA - 1]"; B "[TestA - 2]"; B "[TestB - 1]"].
  Proof. split; vm_compute; reflexivity. Qed.

  (* by the theorem, in the default mode and on CI *)
  Example changed_by_theorem : forall e2, e2 = env0 \/ e2 = env_ci ->
    let s1 := fst (run s0 h) in
    exists obs1 ob obs2,
      snd (run (replay_start s1 e2) h') = (obs1 ++ ob :: obs2)%list /\
      length obs1 = 1 /\ length obs2 = 5 /\
      Forall silent_pass obs1 /\ diff_fail ob /\ Forall silent_pass obs2 /\
      o_path ob = file /\ o_id ob = B "[TestA - 2]" /\
      s_fs (fst (run (replay_start s1 e2) h')) = s_fs s1.
  Proof.
    intros e2 He2. destruct hyps as [H1 [H2 [H3 [H4 [H5 [H6 [H7 [H8 H9]]]]]]]].
    assert (Hup : should_update e2 (c_update (default_config (B "__snapshots__"))) = false)
      by (destruct He2 as [-> | ->]; assumption).
    destruct (changed_call_fails s0 h1 h2 e2 ASnap 0 (B "TestA") (B "hello") (B "hullo") _ H1 H2 H3 H4 H5 H6 H7 Hup)
      as [obs1 [ob [obs2 [E [L1 [L2 [S1 [D [S2 [Hp [Hi Hf]]]]]]]]]]].
    exists obs1, ob, obs2. split; [exact E|]. split; [exact L1|]. split; [exact L2|].
    split; [exact S1|]. split; [exact D|]. split; [exact S2|].
    split; [rewrite Hp; vm_compute; reflexivity|]. split; [rewrite Hi; vm_compute; reflexivity|]. exact Hf.
  Qed.

  (* and computed: exactly the changed call fails - the later call of the re-executed TestA on the same
     slot, which still brings the recorded value, passes *)
  Example changed_computed : forall e2, In e2 [env0; env_ci] ->
    let r := run (replay_start (fst (run s0 h)) e2) h' in
    map o_outcome (snd r) = [Passed; Failed EDiff; Passed; NoCall; Passed; Passed; Passed] /\
    map o_errors (snd r) = [0; 1; 0; 0; 0; 0; 0] /\
    map o_logs (snd r) = [[]; []; []; []; []; []; []] /\
    map o_writes (snd r) = [[]; []; []; []; []; []; []] /\
    s_fs (fst r) = s_fs (fst (run s0 h)).
  Proof. intros e2 [<-|[<-|[]]]; repeat split; vm_compute; reflexivity. Qed.

  (* NECESSITY 1 - "unless updating is enabled": with UPDATE_SNAPS=true the changed call is not a
     failure but an update: it is reported by a log line and a write (so still no false pass), and the
     file now holds the new value - which the later call on the same slot (still bringing the recorded
     value) updates back *)
  Example updating_enabled :
    let r := run (replay_start (fst (run s0 h)) env_upd) h' in
    should_update env_upd (c_update (default_config (B "__snapshots__"))) = true /\
    map o_outcome (snd r) = [Passed; Updated; Passed; NoCall; Passed; Updated; Passed] /\
    map o_errors (snd r) = [0; 0; 0; 0; 0; 0; 0] /\
    map o_logs (snd r) = [[]; [LUpdated]; []; []; []; [LUpdated]; []] /\
    map o_writes (snd r) = [[]; [(WRewrite, file)]; []; []; []; [(WRewrite, file)]; []].
  Proof. repeat split; vm_compute; reflexivity. Qed.

  (* the same through a Config that enables updating although the environment does not *)
  Definition hc (v : string) : list op :=
    [ONewConfig None None None (Some true); OMatch ASnap 1 (B "TestA") (POk (B v))].
  Example updating_enabled_by_config :
    let r := run (replay_start (fst (run s0 (hc "hello"))) env0) (hc "hullo") in
    map o_outcome (snd (run s0 (hc "hello"))) = [NoCall; Added] /\
    map o_outcome (snd r) = [NoCall; Updated] /\ map o_logs (snd r) = [[]; [LUpdated]] /\
    map o_writes (snd r) = [[]; [(WRewrite, file)]].
  Proof. repeat split; vm_compute; reflexivity. Qed.

  (* NECESSITY 2 - the hypothesis is on the STORED forms: finding K1 (C02_refuted_escape) over a
     history. The recorded value is the line "/-/-/-/", the replayed value the line "---": different
     values, same stored form, every other hypothesis of changed_call_fails holds - and the replay
     passes silently in every mode (a false pass). *)
  Definition hk : list op := [OMatch ASnap 0 (B "TestK") (POk token)].
  Definition hk' : list op := [OMatch ASnap 0 (B "TestK") (POk endseq)].
  Example escape_collision_over_history : forall e2, In e2 [env0; env_ci; env_upd] ->
    let r := run (replay_start (fst (run s0 hk)) e2) hk' in
    fresh s0 /\ wf_fs (s_fs s0) /\ Forall hist_op_ok hk /\ Forall has_value hk /\
    Forall rec_ok (snd (run s0 hk)) /\
    endseq <> token /\ snap_of ASnap endseq = snap_of ASnap token /\
    map o_outcome (snd r) = [Passed] /\ map o_errors (snd r) = [0] /\ map o_logs (snd r) = [[]] /\
    map o_writes (snd r) = [[]] /\ s_fs (fst r) = s_fs (fst (run s0 hk)).
  Proof.
    intros e2 He2. split; [repeat split|]. split; [intros p f H; discriminate H|].
    split; [vm_compute; op_ok|]. split; [forall_by_compute|]. split; [forall_by_compute|].
    split; [discriminate|]. split; [vm_compute; reflexivity|].
    destruct He2 as [<-|[<-|[<-|[]]]]; repeat split; vm_compute; reflexivity.
  Qed.

  (* ... in general: a changed value with the SAME stored form always compares as the recorded one *)
  Example same_stored_form_passes : forall a prev text text',
    snap_of a text' = snap_of a text -> same a prev text' = same a prev text.
  Proof. exact same_unchanged. Qed.

  (* the mixed theorem on a history with a standalone call changed (any bytes differ) *)
  Definition hm1 : list op := [ONewConfig (Some (B "other")) None None None; OMatch ASnap 0 (B "TestM") (POk (B "w"))].
  Definition hm2 : list op := [OMatch ASnap 0 (B "TestM") (POk (B "z"))].
  Definition hm : list op := hm1 ++ OMatch AStand 1 (B "TestS") (POk [13; 0; 255]%N) :: hm2.
  Definition hm' : list op := hm1 ++ OMatch AStand 1 (B "TestS") (POk [13; 0; 254]%N) :: hm2.
  Example mixed_changed_computed : forall e2, In e2 [env0; env_ci] ->
    let r := run (replay_start (fst (run s0 hm)) e2) hm' in
    map o_outcome (snd (run s0 hm)) = [NoCall; Added; Added; Added] /\
    map o_outcome (snd r) = [NoCall; Passed; Failed EDiff; Passed] /\
    map o_writes (snd r) = [[]; []; []; []] /\ s_fs (fst r) = s_fs (fst (run s0 hm)).
  Proof. intros e2 [<-|[<-|[]]]; repeat split; vm_compute; reflexivity. Qed.

  Example mixed_changed_by_theorem : forall e2, e2 = env0 \/ e2 = env_ci ->
    let s1 := fst (run s0 hm) in
    exists obs1 ob obs2,
      snd (run (replay_start s1 e2) hm') = (obs1 ++ ob :: obs2)%list /\
      length obs1 = 2 /\ length obs2 = 1 /\
      Forall silent_pass obs1 /\ diff_fail ob /\ Forall silent_pass obs2 /\
      o_path ob = B "/r/__snapshots__/other_1.snap" /\
      s_fs (fst (run (replay_start s1 e2) hm')) = s_fs s1.
  Proof.
    intros e2 He2.
    pose (cfg := {| c_filename := B "other"; c_dir := B "__snapshots__"; c_ext := []; c_update := None |}).
    assert (Hc : nth_error (s_cfgs (fst (run s0 hm1))) 1 = Some cfg) by (vm_compute; reflexivity).
    assert (Hup : should_update e2 (c_update cfg) = false) by (destruct He2 as [-> | ->]; reflexivity).
    destruct (changed_call_fails_all s0 hm1 hm2 e2 AStand 1 (B "TestS") [13; 0; 255]%N [13; 0; 254]%N cfg)
      as [obs1 [ob [obs2 [E [L1 [L2 [S1 [D [S2 [Hp [_ Hf]]]]]]]]]]]; try exact Hc; try exact Hup.
    - repeat split.
    - repeat first [apply Forall_nil | apply Forall_cons]; try (right; exact I); try (right; reflexivity).
      + left. vm_compute. op_ok.
      + left. vm_compute. op_ok.
    - forall_by_compute.
    - intros p f Hin Hl. discriminate Hl.
    - intros f sf Hf Hs. vm_compute in Hf, Hs.
      destruct Hf as [<-|[<-|[]]]; destruct Hs as [<-|[]]; vm_compute; discriminate.
    - forall_by_compute.
    - vm_compute. discriminate.
    - exists obs1, ob, obs2. split; [exact E|]. split; [exact L1|]. split; [exact L2|].
      split; [exact S1|]. split; [exact D|]. split; [exact S2|].
      split; [rewrite Hp; vm_compute; reflexivity|exact Hf].
  Qed.
End NfpExample.

(* ====================================================================================== *)
(* Assumptions                                                                            *)
(* ====================================================================================== *)
Print Assumptions unescape_inj_no_endseq.
Print Assumptions same_changed.
Print Assumptions same_unchanged.
Print Assumptions snap_of_differs.
Print Assumptions changed_step.
Print Assumptions changed_replay_run.
Print Assumptions step_obs_view.
Print Assumptions changed_call_fails_all.
Print Assumptions changed_call_fails.
Print Assumptions changed_value_fails.
Print Assumptions changed_call_fails_at.
Print Assumptions NfpExample.hyps.
Print Assumptions NfpExample.recording.
Print Assumptions NfpExample.changed_by_theorem.
Print Assumptions NfpExample.changed_computed.
Print Assumptions NfpExample.updating_enabled.
Print Assumptions NfpExample.updating_enabled_by_config.
Print Assumptions NfpExample.escape_collision_over_history.
Print Assumptions NfpExample.mixed_changed_computed.
Print Assumptions NfpExample.mixed_changed_by_theorem.
