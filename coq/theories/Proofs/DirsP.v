(* DirsP: the directories of the sandbox. An API step creates a directory only when it creates a snapshot; never on CI,
   never where creation is not allowed. (Clean: Proofs/CleanRunP.clean_run_dirs.) *)
From Coq Require Import String.
From Coq Require Import List NArith Arith Bool Lia.
Import ListNotations.
From Snaps Require Import Base.Bytes Base.Lines Base.Dec Base.Assoc.
From Snaps Require Import Model.Frame Model.PathModel Model.Mode Model.Api.
From Snaps Require Import Proofs.OutcomeP.

Lemma end_test_dirs s test : s_dirs (end_test s test) = s_dirs s.
Proof.
  unfold end_test.
  assert (H : forall (l : list (bytes * creset)) st,
             s_dirs (fold_left (fun st p => apply_reset st (snd p)) l st) = s_dirs st).
  { induction l as [|x l IH]; intros st; cbn [fold_left]; [reflexivity|].
    rewrite IH. destruct (snd x); reflexivity. }
  now rewrite H.
Qed.

(* an API step changes the directories only when it CREATES a snapshot (outcome Added) *)
Lemma step_dirs_unless_added s o :
  api_op o -> o_outcome (snd (step s o)) <> Added -> s_dirs (fst (step s o)) = s_dirs s.
Proof.
  destruct o as [a hd test p|test|test|fn d ex u|e|pa co|pa|]; cbn [api_op]; try contradiction; intros _.
  - cbn [step]. destruct (nth_error (s_cfgs s) hd) as [c|]; [|reflexivity].
    destruct (is_standalone a).
    + unfold stand_call, finish, reg_stand. destruct p; cbn; try reflexivity;
        repeat match goal with |- context [match ?x with _ => _ end] => destruct x eqn:? end; cbn; try reflexivity; intros H; now elim H.
    + unfold multi_call, finish, reg_multi. destruct a, p; cbn; try reflexivity;
        repeat match goal with |- context [match ?x with _ => _ end] => destruct x eqn:? end; cbn; try reflexivity; intros H; now elim H.
  - intros _. cbn [step fst]. apply end_test_dirs.
  - intros _. reflexivity.
  - intros _. reflexivity.
  - intros _. reflexivity.
Qed.

(* a call may create a directory only where it may create a snapshot: never on CI, never under Update(false) *)
Lemma step_dirs_need_create s a hd test p c :
  nth_error (s_cfgs s) hd = Some c ->
  should_create (s_env s) (c_update (match a with AStandJson => json_ext c | _ => c end)) = false ->
  s_dirs (fst (step s (OMatch a hd test p))) = s_dirs s.
Proof.
  intros Hc Hno. apply step_dirs_unless_added; [exact I|].
  destruct (step s (OMatch a hd test p)) as [s' o] eqn:E. cbn [snd].
  destruct (step_write_permission s a hd test p s' o c Hc E) as [[_ [_ [H _]]]|[[_ [H _]]|[H _]]].
  - exact H.
  - rewrite Hno in H. discriminate.
  - rewrite H. discriminate.
Qed.

Lemma step_ci_dirs s o :
  api_op o -> ci (s_env s) = true -> s_dirs (fst (step s o)) = s_dirs s.
Proof.
  intros Ha Hci.
  destruct o as [a hd test p|test|test|fn d ex u|e|pa co|pa|]; cbn [api_op] in Ha; try contradiction.
  - destruct (nth_error (s_cfgs s) hd) as [c|] eqn:Ec; [|cbn [step]; now rewrite Ec].
    apply (step_dirs_need_create s a hd test p c Ec). unfold should_create. now rewrite Hci.
  - cbn [step fst]. apply end_test_dirs.
  - reflexivity.
  - reflexivity.
  - reflexivity.
Qed.

(* on CI no history of API operations creates a directory *)
Lemma run_ci_dirs ops : forall s,
  Forall api_op ops -> ci (s_env s) = true -> s_dirs (fst (run s ops)) = s_dirs s.
Proof.
  induction ops as [|o r IH]; intros s Hok Hci; [reflexivity|].
  inversion Hok as [|? ? Ho Hr]; subst.
  pose proof (step_ci_dirs s o Ho Hci) as Hd.
  pose proof (step_env s o Ho) as Henv.
  cbn [run]. destruct (step s o) as [s1 ob] eqn:E. cbn [fst snd] in *.
  assert (Hci1 : ci (s_env s1) = true) by now rewrite Henv.
  pose proof (IH s1 Hr Hci1) as H1.
  destruct (run s1 r) as [s2 obs]. cbn [fst] in *. congruence.
Qed.
