(* WitnessesP: non-vacuity witnesses for the property theorems of Properties/C01.v ... C20.v.

   For every theorem with hypotheses, a lemma <Theorem>_witness exhibits a CONCRETE, non-trivial instance that meets all
   its hypotheses (proved by computation), and - where cheap - a lemma <Theorem>_applied instantiates the lemma the
   theorem is closed with (Properties/Cxx.v: `exact <lemma>`) and states the concrete conclusion.
   (This file cannot import Properties/Cxx.v: those files import this one for their Cxx_witnesses examples.) *)
From Coq Require Import String.
From Coq Require Import List NArith Arith Bool Lia Permutation.
Import ListNotations.
From Snaps Require Import Base.Bytes Base.Lines Base.Dec Base.Assoc.
From Snaps Require Import Model.Frame Model.PathModel Model.Mode Model.Api Model.Sched Model.SchedSpec.
From Snaps Require Import Proofs.BytesP Proofs.LinesP Proofs.DecP Proofs.FrameP Proofs.ApiP Proofs.StepP
  Proofs.IsolationP Proofs.YamlP Proofs.HistoryP Proofs.SchedP.
Local Open Scope list_scope.

(* ================================================================== *)
(* 0. boolean deciders for the side conditions (sound, used with vm_compute) *)
(* ================================================================== *)

Definition no_nl_b (l : bytes) : bool := negb (existsb (N.eqb nl) l).
Lemma no_nl_b_sound l : no_nl_b l = true -> no_nl l.
Proof.
  unfold no_nl_b, no_nl. intros H Hin. apply negb_true_iff in H.
  assert (existsb (N.eqb nl) l = true); [|congruence].
  apply existsb_exists. exists nl. split; [assumption|apply N.eqb_refl].
Qed.

Definition safe_line_b (l : bytes) : bool := no_nl_b l && beq (drop_cr l) l.
Lemma safe_line_b_sound l : safe_line_b l = true -> safe_line l.
Proof.
  unfold safe_line_b. intros H. apply andb_true_iff in H as [H1 H2]. split.
  - now apply no_nl_b_sound.
  - unfold no_cr_end. now apply beq_eq.
Qed.

Lemma forallb_Forall {A} (f : A -> bool) (P : A -> Prop) l :
  (forall x, f x = true -> P x) -> forallb f l = true -> Forall P l.
Proof.
  intros HfP. induction l as [|x l IH]; cbn; intros H; constructor.
  - apply HfP. now apply andb_true_iff in H as [H _].
  - apply IH. now apply andb_true_iff in H as [_ H].
Qed.

Definition safe_text_b (s : bytes) : bool := forallb safe_line_b (split_nl s).
Lemma safe_text_b_sound s : safe_text_b s = true -> safe_text s.
Proof. apply forallb_Forall. apply safe_line_b_sound. Qed.

(* membership of a byte string in a list of byte strings *)
Lemma mem_bytes_false_notin x l : mem_bytes x l = false -> ~ In x l.
Proof.
  induction l as [|y l IH]; intros H; [intros []|].
  change (beq x y || mem_bytes x l = false) in H. apply orb_false_iff in H as [H1 H2].
  intros [E|Hin]; [subst y; rewrite beq_refl in H1; discriminate|now apply IH].
Qed.
Lemma mem_bytes_true_in x l : mem_bytes x l = true -> In x l.
Proof.
  induction l as [|y l IH]; intros H; [discriminate|].
  change (beq x y || mem_bytes x l = true) in H. apply orb_true_iff in H as [H|H].
  - left. symmetry. now apply beq_eq.
  - right. now apply IH.
Qed.

Lemma beq_false_neq a b : beq a b = false -> a <> b.
Proof. apply beq_neq. Qed.

Definition wf_entry_b (e : entry) : bool :=
  safe_line_b (fst e) && negb (beq (fst e) []) && negb (beq (fst e) endseq) &&
  safe_text_b (snd e) && negb (mem_bytes endseq (split_nl (snd e))).
Lemma wf_entry_b_sound e : wf_entry_b e = true -> wf_entry e.
Proof.
  unfold wf_entry_b, wf_entry. intros H.
  apply andb_true_iff in H as [H H5]. apply andb_true_iff in H as [H H4].
  apply andb_true_iff in H as [H H3]. apply andb_true_iff in H as [H1 H2].
  apply negb_true_iff in H2, H3, H5.
  split; [now apply safe_line_b_sound|].
  split; [now apply beq_false_neq|].
  split; [now apply beq_false_neq|].
  split; [now apply safe_text_b_sound|now apply mem_bytes_false_notin].
Qed.

Lemma wf_entries_b_sound es : forallb wf_entry_b es = true -> Forall wf_entry es.
Proof. apply forallb_Forall. apply wf_entry_b_sound. Qed.

Fixpoint nodup_bytes_b (l : list bytes) : bool :=
  match l with [] => true | x :: r => negb (mem_bytes x r) && nodup_bytes_b r end.
Lemma nodup_bytes_b_sound l : nodup_bytes_b l = true -> NoDup l.
Proof.
  induction l as [|x l IH]; intros H; [constructor|].
  change (negb (mem_bytes x l) && nodup_bytes_b l = true) in H. apply andb_true_iff in H as [H1 H2].
  apply negb_true_iff in H1. constructor; [now apply mem_bytes_false_notin|now apply IH].
Qed.

(* ================================================================== *)
(* C06 - scheduling                                                    *)
(* ================================================================== *)

(* the instance: the file holds [TestA - 1] "old"; goroutine 0 UPDATES that entry, goroutine 1 ADDS [TestB - 1];
   [ex_sched_ok] is a complete interleaved schedule (B's read phase, A's read phase, A's write phase, B's add phase
   which had to wait for A's EUnlock) *)
Definition w06_es0 : list entry := [(ex_tidA, ex_old)].
Definition w06_H : list bytes := map cl_tid (concat ex_prog).

Lemma w06_ok_call k : In k (concat ex_prog) -> ok_call w06_H k.
Proof.
  intros Hin. unfold ok_call.
  assert (E : k = ex_callA \/ k = ex_callB).
  { cbn in Hin. destruct Hin as [<-|[<-|[]]]; auto. }
  destruct E as [-> | ->].
  - split; [left; reflexivity|]. split; [apply wf_entry_b_sound; vm_compute; reflexivity|].
    intros h Hh Hin'. cbn in Hh. destruct Hh as [<-|[<-|[]]];
      (apply mem_bytes_false_notin in Hin'; [exact Hin'|vm_compute; reflexivity]).
  - split; [right; left; reflexivity|]. split; [apply wf_entry_b_sound; vm_compute; reflexivity|].
    intros h Hh Hin'. cbn in Hh. destruct Hh as [<-|[<-|[]]];
      (apply mem_bytes_false_notin in Hin'; [exact Hin'|vm_compute; reflexivity]).
Qed.

Lemma C06_serialisable_witness :
  exists c : cfg,
    content ex_file = render w06_es0 /\
    Forall wf_entry w06_es0 /\
    no_collisions (map cl_tid (concat ex_prog)) w06_es0 /\
    NoDup (map cl_tid (concat ex_prog)) /\
    Forall (ok_call (map cl_tid (concat ex_prog))) (concat ex_prog) /\
    run_sched Repaired (init_cfg ex_file ex_prog) ex_sched_ok = Some c /\
    finished c = true.
Proof.
  destruct repaired_example as [c [Hrun [Hfin _]]]. exists c.
  split; [vm_compute; reflexivity|].
  split; [apply wf_entries_b_sound; vm_compute; reflexivity|].
  split.
  { intros h Hh. unfold no_collision, w06_es0. constructor; [|constructor]. cbn [snd].
    cbn in Hh. destruct Hh as [<-|[<-|[]]]; apply mem_bytes_false_notin; vm_compute; reflexivity. }
  split.
  { change (map cl_tid (concat ex_prog)) with [ex_tidA; ex_tidB].
    constructor; [apply mem_bytes_false_notin; vm_compute; reflexivity|].
    constructor; [intros []|constructor]. }
  split; [apply Forall_forall; apply w06_ok_call|].
  split; assumption.
Qed.

(* the theorem applied to the witness: the concrete conclusion *)
Lemma C06_serialisable_applied :
  exists c : cfg,
    run_sched Repaired (init_cfg ex_file ex_prog) ex_sched_ok = Some c /\
    outcomes c = [[OUpdated]; [OAdded]] /\
    outcomes c = map (map (fun k => snd (run_alone Repaired ex_file k))) ex_prog /\
    map fst (lin_order Repaired (init_cfg ex_file ex_prog) ex_sched_ok) = [0; 1] /\
    content (final_file c) = render [(ex_tidA, ex_new); (ex_tidB, ex_snapB)] /\
    lookup_entry ex_tidA (es_of w06_es0 (map snd (lin_order Repaired (init_cfg ex_file ex_prog) ex_sched_ok))) = Some ex_new /\
    lookup_entry ex_tidB (es_of w06_es0 (map snd (lin_order Repaired (init_cfg ex_file ex_prog) ex_sched_ok))) = Some ex_snapB.
Proof.
  destruct C06_serialisable_witness as [c [H1 [H2 [H3 [H4 [H5 [H6 H7]]]]]]].
  exists c. split; [exact H6|].
  destruct (serialisable w06_es0 ex_file ex_prog ex_sched_ok c H1 H2 H3 H4 H5 H6 H7)
    as [Ha [Hb [Hc [_ [Hd _]]]]].
  split; [rewrite Hb; vm_compute; reflexivity|].
  split; [exact Ha|].
  split; [vm_compute; reflexivity|].
  split; [rewrite Hc; vm_compute; reflexivity|].
  split.
  - apply (Hd ex_callA); [left; reflexivity|right; vm_compute; reflexivity].
  - apply (Hd ex_callB); [right; left; reflexivity|left; vm_compute; reflexivity].
Qed.

(* mutual exclusion / progress: the same run stopped after A's ELock - A (goroutine 0) holds the write lock at PUo,
   B (goroutine 1) has decided to add and waits at PAl; the configuration is not finished *)
Definition w06_sched_mid : list nat := [1;1;1; 0;0;0; 0].

Lemma w06_quiescent : quiescent (init_cfg ex_file ex_prog).
Proof. split; [reflexivity|]. split; [reflexivity|]. repeat constructor. Qed.

Lemma C06_mutual_exclusion_witness :
  exists c t t',
    quiescent (init_cfg ex_file ex_prog) /\
    run_sched Repaired (init_cfg ex_file ex_prog) w06_sched_mid = Some c /\
    nth_error (g_threads c) 0 = Some t /\ holds_w t = true /\
    nth_error (g_threads c) 1 = Some t' /\ 1 <> 0 /\
    t_pc t = PUo /\ t_pc t' = PAl.
Proof.
  eexists. eexists. eexists. split; [exact w06_quiescent|].
  split; [vm_compute; reflexivity|].
  split; [cbn; reflexivity|]. split; [reflexivity|].
  split; [cbn; reflexivity|]. split; [discriminate|]. split; reflexivity.
Qed.

Lemma C06_mutual_exclusion_applied :
  exists c t',
    run_sched Repaired (init_cfg ex_file ex_prog) w06_sched_mid = Some c /\
    nth_error (g_threads c) 1 = Some t' /\ holds_r t' = false /\ holds_w t' = false.
Proof.
  destruct C06_mutual_exclusion_witness as [c [t [t' [H1 [H2 [H3 [H4 [H5 [H6 _]]]]]]]]].
  exists c, t'. split; [exact H2|]. split; [exact H5|].
  exact (mutual_exclusion _ _ _ _ _ _ _ H1 H2 H3 H4 H5 H6).
Qed.

Lemma C06_progress_witness :
  exists c,
    quiescent (init_cfg ex_file ex_prog) /\
    run_sched Repaired (init_cfg ex_file ex_prog) w06_sched_mid = Some c /\
    finished c = false /\
    (* the waiting goroutine 1 is NOT enabled there: progress is not trivial *)
    sched_step Repaired c 1 = None.
Proof.
  eexists. split; [exact w06_quiescent|]. split; [vm_compute; reflexivity|].
  split; vm_compute; reflexivity.
Qed.

Lemma C06_progress_applied :
  exists c, run_sched Repaired (init_cfg ex_file ex_prog) w06_sched_mid = Some c /\
            exists g c', sched_step Repaired c g = Some c'.
Proof.
  destruct C06_progress_witness as [c [H1 [H2 [H3 _]]]]. exists c. split; [exact H2|].
  exact (repaired_progress _ _ _ H1 H2 H3).
Qed.

(* counters: the two orders in which the increments of the example can happen *)
Lemma C06_counters_commute_witness :
  Permutation [(0, OUpdated); (1, OAdded); (0, OPassed)] [(1, OAdded); (0, OUpdated); (0, OPassed)] /\
  [(0, OUpdated); (1, OAdded); (0, OPassed)] <> [(1, OAdded); (0, OUpdated); (0, OPassed)].
Proof. split; [apply perm_swap|discriminate]. Qed.

(* ================================================================== *)
(* deciders for histories                                              *)
(* ================================================================== *)

Definition value_ok_b (a : api) (text : bytes) : bool :=
  safe_text_b text && match a with AJson => negb (mem_bytes endseq (split_nl text)) | _ => true end.
Lemma value_ok_b_sound a text : value_ok_b a text = true -> value_ok a text.
Proof.
  unfold value_ok_b, value_ok. intros H. apply andb_true_iff in H as [H1 H2].
  split; [now apply safe_text_b_sound|]. intros ->. apply negb_true_iff in H2.
  now apply mem_bytes_false_notin.
Qed.

Definition hist_op_ok_b (o : op) : bool :=
  match o with
  | OMatch a _ test p =>
      negb (is_standalone a) && no_nl_b test &&
      match p with POk text => value_ok_b a text | _ => true end
  | OEndTest _ => true
  | ONewConfig _ _ _ _ => true
  | _ => false
  end.
Lemma hist_op_ok_b_sound o : hist_op_ok_b o = true -> hist_op_ok o.
Proof.
  destruct o as [a hd test p|test|test|fn d ex u|e|pa co|pa|]; cbn [hist_op_ok_b hist_op_ok];
    try discriminate; try (intros _; exact I).
  intros H. apply andb_true_iff in H as [H H3]. apply andb_true_iff in H as [H1 H2].
  split; [now apply negb_true_iff in H1|]. split; [now apply no_nl_b_sound|].
  destruct p; try exact I. now apply value_ok_b_sound.
Qed.
Lemma hist_ok_b_sound h : forallb hist_op_ok_b h = true -> Forall hist_op_ok h.
Proof. apply forallb_Forall. apply hist_op_ok_b_sound. Qed.

Definition has_value_b (o : op) : bool :=
  match o with OMatch _ _ _ (POk _) => true | OMatch _ _ _ _ => false | _ => true end.
Lemma has_value_b_sound o : has_value_b o = true -> has_value o.
Proof.
  destruct o as [a hd test p|test|test|fn d ex u|e|pa co|pa|]; cbn [has_value_b has_value];
    try (intros _; exact I).
  destruct p; try discriminate. intros _. eexists; reflexivity.
Qed.
Lemma has_values_b_sound h : forallb has_value_b h = true -> Forall has_value h.
Proof. apply forallb_Forall. apply has_value_b_sound. Qed.

Definition rec_ok_b (o : obs) : bool :=
  match o_outcome o with Passed | Added | NoCall => true | _ => false end.
Lemma rec_ok_b_sound o : rec_ok_b o = true -> rec_ok o.
Proof. unfold rec_ok_b, rec_ok. destruct (o_outcome o); try discriminate; auto. Qed.
Lemma recs_ok_b_sound l : forallb rec_ok_b l = true -> Forall rec_ok l.
Proof. apply forallb_Forall. apply rec_ok_b_sound. Qed.

(* a file system with ONE entry-structured file is well-formed *)
Lemma wf_fs_single p es : Forall wf_entry es -> wf_fs [(p, render es)].
Proof.
  intros H q f Hl. unfold alookup in Hl. destruct (beq q p); [|discriminate].
  injection Hl as <-. now apply wf_file_render.
Qed.

(* ================================================================== *)
(* C18 - YAML                                                          *)
(* ================================================================== *)

Section W18.
Local Open Scope string_scope.

(* a YAML stream with a comment line, an inline comment, a `---` separator line, a blank line and NO final newline *)
Definition w18_doc : bytes :=
  (B "# service config" ++ [nl] ++ B "name: app  # inline comment" ++ [nl] ++ B "---" ++ [nl] ++
   B "list:" ++ [nl] ++ B "  - a" ++ [nl] ++ [nl] ++ B "  - b")%list.
(* a second document, ending in a newline *)
Definition w18_doc2 : bytes := (B "k: v" ++ [nl] ++ B "---" ++ [nl] ++ B "# tail comment" ++ [nl])%list.

Definition w18_env : env := {| ci := false; upd := UUnset; colour := false |}.
Definition w18_old : list entry := [(B "[TestOld - 1]", B "kept")].
(* start: a process with a pre-existing well-formed snapshot file at the default location *)
Definition w18_s0 : state :=
  fst (step (init_state w18_env (B "/r/x_test.go") (B "/S")) (OPutFile (B "/S/x_test.snap") (render w18_old))).
(* two tests interleaved, four calls, one of them through a Config created by WithConfig(Filename("other")) *)
Definition w18_h : list op :=
  [ONewConfig (Some (B "other")) None None None;
   OMatch AYaml 0 (B "TestA") (POk w18_doc);
   OMatch AYaml 1 (B "TestB") (POk w18_doc2);
   OMatch AYaml 0 (B "TestA") (POk w18_doc2);
   OEndTest (B "TestA");
   OMatch ASnap 0 (B "TestB") (POk w18_doc)].
End W18.

Lemma C18_roundtrip_bytes_witness :
  no_token_line w18_doc /\ In endseq (split_nl w18_doc) /\ last w18_doc 0%N <> nl /\ escape w18_doc <> w18_doc.
Proof.
  split; [apply mem_bytes_false_notin; vm_compute; reflexivity|].
  split; [apply mem_bytes_true_in; vm_compute; reflexivity|].
  split; vm_compute; discriminate.
Qed.

Lemma C18_roundtrip_bytes_applied : unescape (escape w18_doc) = w18_doc.
Proof. apply yaml_verbatim. exact (proj1 C18_roundtrip_bytes_witness). Qed.

Lemma w18_s0_fs : s_fs w18_s0 = [(B "/S/x_test.snap"%string, render w18_old)].
Proof. vm_compute. reflexivity. Qed.

Lemma C18_replay_histories_witness :
  fresh w18_s0 /\ wf_fs (s_fs w18_s0) /\ Forall hist_op_ok w18_h /\ Forall has_value w18_h /\
  Forall rec_ok (snd (run w18_s0 w18_h)) /\
  (* what the recording run did, and where *)
  map o_outcome (snd (run w18_s0 w18_h)) = [NoCall; Added; Added; Added; NoCall; Added] /\
  map o_path (snd (run w18_s0 w18_h)) =
    [[]; B "/S/x_test.snap"%string; B "/S/other.snap"%string; B "/S/x_test.snap"%string; [];
     B "/S/x_test.snap"%string] /\
  map o_id (snd (run w18_s0 w18_h)) =
    [[]; B "[TestA - 1]"%string; B "[TestB - 1]"%string; B "[TestA - 2]"%string; []; B "[TestB - 1]"%string].
Proof.
  split; [vm_compute; repeat split|].
  split; [rewrite w18_s0_fs; apply wf_fs_single; apply wf_entries_b_sound; vm_compute; reflexivity|].
  split; [apply hist_ok_b_sound; vm_compute; reflexivity|].
  split; [apply has_values_b_sound; vm_compute; reflexivity|].
  split; [apply recs_ok_b_sound; vm_compute; reflexivity|].
  split; [vm_compute; reflexivity|]. split; vm_compute; reflexivity.
Qed.

Lemma C18_replay_histories_applied : forall e2,
  Forall silent_pass (snd (run (replay_start (fst (run w18_s0 w18_h)) e2) w18_h)) /\
  s_fs (fst (run (replay_start (fst (run w18_s0 w18_h)) e2) w18_h)) = s_fs (fst (run w18_s0 w18_h)).
Proof.
  intros e2. destruct C18_replay_histories_witness as [H1 [H2 [H3 [H4 [H5 _]]]]].
  exact (replay_after_create w18_s0 w18_h e2 H1 H2 H3 H4 H5).
Qed.

(* representative statement restated in Properties/C18.v *)
Lemma C18_witnesses_all :
  (no_token_line w18_doc /\ In endseq (split_nl w18_doc)) /\
  (fresh w18_s0 /\ wf_fs (s_fs w18_s0) /\ Forall hist_op_ok w18_h /\ Forall has_value w18_h /\
   Forall rec_ok (snd (run w18_s0 w18_h))).
Proof.
  destruct C18_roundtrip_bytes_witness as [A1 [A2 _]].
  destruct C18_replay_histories_witness as [H1 [H2 [H3 [H4 [H5 _]]]]].
  split; [split; assumption|]. repeat (split; [assumption|]). assumption.
Qed.


(* ==================================================================================================== *)
(* fragment G1 *)
(* ==================================================================================================== *)
(* Wit_G1: non-vacuity witnesses for Properties/C01.v and Properties/C02.v *)
From Coq Require Import String.
From Coq Require Import List NArith Arith Bool Lia Permutation.
Import ListNotations.
From Snaps Require Import Base.Bytes Base.Lines Base.Dec Base.Assoc.
From Snaps Require Import Model.Frame Model.PathModel Model.Mode Model.Api.
From Snaps Require Import Proofs.BytesP Proofs.LinesP Proofs.DecP Proofs.FrameP Proofs.DiffDecisionP Proofs.ApiP
  Proofs.StandaloneP Proofs.StepP Proofs.OutcomeP Proofs.HistoryP Proofs.UpdateHistoryP
  Proofs.StandaloneHistoryP Proofs.NoFalsePassHistoryP.
Local Open Scope list_scope.

(* ================================================================== *)
(* C01 - further sound boolean deciders                                 *)
(* ================================================================== *)

Definition w01_stand_op_ok_b (o : op) : bool :=
  match o with
  | OMatch a _ _ _ => is_standalone a
  | OEndTest _ => true
  | ONewConfig _ _ _ _ => true
  | _ => false
  end.
Lemma w01_stand_op_ok_b_sound o : w01_stand_op_ok_b o = true -> stand_op_ok o.
Proof.
  destruct o as [a hd test p|test|test|fn d ex u|e|pa co|pa|]; cbn [w01_stand_op_ok_b stand_op_ok];
    try discriminate; try (intros _; exact I). intros H; exact H.
Qed.

Definition w01_mixed_op_ok_b (o : op) : bool := hist_op_ok_b o || w01_stand_op_ok_b o.
Lemma w01_mixed_op_ok_b_sound o : w01_mixed_op_ok_b o = true -> mixed_op_ok o.
Proof.
  unfold w01_mixed_op_ok_b. intros H. apply orb_true_iff in H as [H|H].
  - left. now apply hist_op_ok_b_sound.
  - right. now apply w01_stand_op_ok_b_sound.
Qed.
Lemma w01_mixed_ok_b_sound h : forallb w01_mixed_op_ok_b h = true -> Forall mixed_op_ok h.
Proof. apply forallb_Forall. apply w01_mixed_op_ok_b_sound. Qed.

Definition w01_disjoint_b (ms : list fact) (ss : list sfact) : bool :=
  forallb (fun f => forallb (fun sf => negb (beq (fpath f) (fst sf))) ss) ms.
Lemma w01_disjoint_b_sound ms ss : w01_disjoint_b ms ss = true -> disjoint_paths ms ss.
Proof.
  unfold w01_disjoint_b, disjoint_paths. intros H f sf Hf Hs.
  rewrite forallb_forall in H. specialize (H f Hf). rewrite forallb_forall in H. specialize (H sf Hs).
  apply negb_true_iff in H. now apply beq_false_neq.
Qed.

Definition w01_rec_ok_upd_b (o : obs) : bool :=
  match o_outcome o with Passed | Added | Updated | NoCall => true | _ => false end.
Lemma w01_rec_ok_upd_b_sound o : w01_rec_ok_upd_b o = true -> rec_ok_upd o.
Proof. unfold w01_rec_ok_upd_b, rec_ok_upd. destruct (o_outcome o); try discriminate; auto. Qed.
Lemma w01_recs_ok_upd_b_sound l : forallb w01_rec_ok_upd_b l = true -> Forall rec_ok_upd l.
Proof. apply forallb_Forall. apply w01_rec_ok_upd_b_sound. Qed.

Definition w01_headers_ok_b (H : list bytes) : bool :=
  forallb (fun h => negb (beq h []) && negb (beq h endseq)) H.
Lemma w01_headers_ok_b_sound H : w01_headers_ok_b H = true -> headers_ok H.
Proof.
  unfold w01_headers_ok_b, headers_ok. apply forallb_Forall. intros h Hh.
  apply andb_true_iff in Hh as [H1 H2]. apply negb_true_iff in H1, H2.
  split; now apply beq_false_neq.
Qed.

Definition w01_coll_free_b (H : list bytes) (es : list entry) : bool :=
  forallb (fun h => forallb (fun e : entry => negb (mem_bytes h (split_nl (snd e)))) es) H.
Lemma w01_coll_free_b_sound H es : w01_coll_free_b H es = true -> coll_free H es.
Proof.
  unfold w01_coll_free_b, coll_free, no_collision. apply forallb_Forall. intros h.
  apply forallb_Forall. intros e He. apply mem_bytes_false_notin. now apply negb_true_iff.
Qed.

(* a file system with ONE entry-structured, collision-free file *)
Lemma w01_efs_single H p es : Forall wf_entry es -> coll_free H es -> efs_ok H [(p, render es)].
Proof.
  intros Hw Hc q f Hl. unfold alookup in Hl. destruct (beq q p); [|discriminate].
  injection Hl as <-. exists es. split; [reflexivity|]. split; assumption.
Qed.

Definition w01_fact_ok_b (H : list bytes) (f : fact) : bool :=
  let '(p, id, a, text) := f in
  mem_bytes id H && wf_entry_b (id, snap_of a text) &&
  forallb (fun h => negb (mem_bytes h (split_nl (snap_of a text)))) H.
Lemma w01_fact_ok_b_sound H f : w01_fact_ok_b H f = true -> fact_ok H f.
Proof.
  destruct f as [[[p id] a] text]. unfold w01_fact_ok_b, fact_ok. intros Hb.
  apply andb_true_iff in Hb as [Hb H3]. apply andb_true_iff in Hb as [H1 H2].
  split; [now apply mem_bytes_true_in|]. split; [now apply wf_entry_b_sound|].
  revert H3. apply forallb_Forall. intros h Hh. apply mem_bytes_false_notin. now apply negb_true_iff.
Qed.
Lemma w01_facts_ok_b_sound H l : forallb (w01_fact_ok_b H) l = true -> Forall (fact_ok H) l.
Proof. apply forallb_Forall. apply w01_fact_ok_b_sound. Qed.

Definition w01_api_eqb (a b : api) : bool :=
  match a, b with
  | ASnap, ASnap | AJson, AJson | AYaml, AYaml | AStand, AStand | AStandJson, AStandJson => true
  | _, _ => false
  end.
Lemma w01_api_eqb_sound a b : w01_api_eqb a b = true -> a = b.
Proof. destruct a, b; try discriminate; reflexivity. Qed.

Definition w01_fact_agree_b (f g : fact) : bool :=
  let '(p, id, a, t) := f in
  let '(p', id', a', t') := g in
  if beq p p' && beq id id' then w01_api_eqb a a' && beq t t' else true.
Definition w01_consistent_b (fs : list fact) : bool :=
  forallb (fun f => forallb (w01_fact_agree_b f) fs) fs.
Lemma w01_consistent_b_sound fs : w01_consistent_b fs = true -> consistent fs.
Proof.
  unfold w01_consistent_b. intros H p id a t a' t' H1 H2.
  rewrite forallb_forall in H. specialize (H _ H1). rewrite forallb_forall in H. specialize (H _ H2).
  unfold w01_fact_agree_b in H. rewrite !beq_refl in H. cbn [andb] in H.
  apply andb_true_iff in H as [Ha Ht]. split; [now apply w01_api_eqb_sound|now apply beq_eq].
Qed.

(* wf_on for a finite set of paths *)
Lemma w01_wf_on_list (L : list bytes) fs :
  Forall (fun p => forall f, alookup p fs = Some f -> wf_file f) L -> wf_on (fun p => In p L) fs.
Proof. intros H p f Hin Hl. rewrite Forall_forall in H. exact (H p Hin f Hl). Qed.

(* a file that is not empty and does not end in a newline is not a well-formed multi-entry file *)
Lemma w01_last_app {A} (a b : list A) d : b <> [] -> last (a ++ b) d = last b d.
Proof.
  intros Hb. induction a as [|x a IH]; [reflexivity|].
  cbn [app]. destruct (a ++ b) eqn:E.
  - destruct a; [cbn in E; contradiction|discriminate E].
  - cbn [last]. cbn [last] in IH. exact IH.
Qed.
Lemma w01_unlines_last ls : ls <> [] -> last (unlines ls) 0%N = nl.
Proof.
  induction ls as [|l ls IH]; [congruence|]. intros _.
  unfold unlines. cbn [map concat]. fold (unlines ls).
  destruct ls as [|l2 ls].
  - cbn [unlines map concat]. rewrite app_nil_r. apply last_last.
  - rewrite w01_last_app.
    + apply IH. discriminate.
    + unfold unlines. cbn [map concat]. destruct l2; discriminate.
Qed.
Lemma w01_not_wf_file f : f <> [] -> last f 0%N <> nl -> ~ wf_file f.
Proof.
  intros Hne Hl [ls [E _]]. subst f. destruct ls as [|l ls]; [now apply Hne|].
  apply Hl. apply w01_unlines_last. discriminate.
Qed.

(* ================================================================== *)
(* C01 - instances                                                      *)
(* ================================================================== *)

Section W01.
Local Open Scope string_scope.

Definition w01_env : env := {| ci := false; upd := UUnset; colour := false |}.
Definition w01_env_ci : env := {| ci := true; upd := UUnset; colour := false |}.
Definition w01_env_upd : env := {| ci := false; upd := UTrue; colour := false |}.

Definition w01_snap : bytes := B "/S/x_test.snap".
Definition w01_other : bytes := B "/S/other.snap".
Definition w01_init (e : env) : state := init_state e (B "/r/x_test.go") (B "/S").

(* values: a terminator line, its escape, a blank line, a header-looking line, no final newline /
   JSON over three lines / YAML with a `---` separator, non-UTF-8 bytes and a final newline *)
Definition w01_v_esc : bytes := (B "---" ++ [nl] ++ B "/-/-/-/" ++ [nl; nl] ++ B "[TestC - 1]")%list.
Definition w01_v_json : bytes := (B "{" ++ [nl] ++ B " ""a"": 1" ++ [nl] ++ B "}")%list.
Definition w01_v_yaml : bytes := (B "a: 1" ++ [nl] ++ B "---" ++ [nl] ++ [255; 254]%N ++ [nl])%list.

(* --- recording without rewrites: a pre-existing file with two entries, one of them stale --- *)
Definition w01_old : list entry :=
  [(B "[TestA - 1]", B "kept"); (B "[TestOld - 1]", (B "stale" ++ [nl] ++ B "body")%list)].
Definition w01_s0 : state := fst (step (w01_init w01_env) (OPutFile w01_snap (render w01_old))).
Definition w01_h : list op :=
  [ONewConfig (Some (B "other")) None None None;
   OMatch ASnap 0 (B "TestA") (POk (B "kept"));
   OMatch AJson 1 (B "TestB") (POk w01_v_json);
   OMatch AYaml 0 (B "TestA") (POk w01_v_yaml);
   OEndTest (B "TestA");
   OMatch ASnap 0 (B "TestA") (POk (B "kept"));
   OMatch ASnap 1 (B "TestB") (POk w01_v_esc)].

(* --- recording WITH rewrites (update mode): two entries, one rewritten, one kept, one appended --- *)
Definition w01_uold : list entry := [(B "[TestA - 1]", B "old"); (B "[TestB - 1]", B "keep")].
Definition w01_us0 : state := fst (step (w01_init w01_env_upd) (OPutFile w01_snap (render w01_uold))).
Definition w01_uh : list op :=
  [ONewConfig (Some (B "other")) None None None;
   OMatch ASnap 0 (B "TestA") (POk (B "new"));
   OMatch ASnap 0 (B "TestB") (POk (B "keep"));
   OMatch ASnap 0 (B "TestA") (POk w01_v_esc);
   OMatch AJson 1 (B "TestB") (POk w01_v_json);
   OEndTest (B "TestA");
   OMatch ASnap 0 (B "TestA") (POk (B "new"))].
Definition w01_uH : list bytes := [B "[TestA - 1]"; B "[TestA - 2]"; B "[TestB - 1]"].

(* --- all five entry points; the initial file system holds a multi-entry file, a standalone file with arbitrary
       bytes and a file that is NOT a well-formed multi-entry file (nobody addresses it) --- *)
Definition w01_sbytes : bytes := [13; 0; 255]%N.
Definition w01_junk : bytes := B "no terminator".
Definition w01_ms0 : state :=
  fst (run (w01_init w01_env)
         [OPutFile w01_snap (render w01_old);
          OPutFile (B "/S/TestS_1.snap") w01_sbytes;
          OPutFile (B "/S/junk.snap") w01_junk]).
Definition w01_mh1 : list op :=
  [ONewConfig (Some (B "other")) None None None;
   OMatch AStand 0 (B "TestS") (POk w01_sbytes);
   OMatch ASnap 0 (B "TestA") (POk (B "kept"));
   OMatch AStandJson 1 (B "TestS") (POk [0]%N)].
Definition w01_mv : bytes := w01_v_yaml.
Definition w01_mo : op := OMatch AYaml 1 (B "TestA") (POk w01_mv).
Definition w01_mh2 : list op :=
  [OMatch AStand 1 (B "TestA") (POk [10; 45; 45; 45; 10]%N);
   OEndTest (B "TestA");
   OMatch AYaml 1 (B "TestA") (POk w01_mv);
   OMatch ASnap 0 (B "TestS") (POk w01_v_esc)].
Definition w01_mh : list op := (w01_mh1 ++ w01_mo :: w01_mh2)%list.
Definition w01_mpaths : list bytes := [w01_snap; w01_other; w01_other; w01_snap].
Definition w01_junk_path : bytes := B "/S/junk.snap".

(* what the recording runs are expected to do *)
Definition w01_outcomes : list outcome := [NoCall; Passed; Added; Added; NoCall; Passed; Added].
Definition w01_paths : list bytes := [[]; w01_snap; w01_other; w01_snap; []; w01_snap; w01_other].
Definition w01_ids : list bytes :=
  [[]; B "[TestA - 1]"; B "[TestB - 1]"; B "[TestA - 2]"; []; B "[TestA - 1]"; B "[TestB - 2]"].
Definition w01_uoutcomes : list outcome := [NoCall; Updated; Passed; Added; Added; NoCall; Passed].
Definition w01_uids : list bytes :=
  [[]; B "[TestA - 1]"; B "[TestB - 1]"; B "[TestA - 2]"; B "[TestB - 1]"; []; B "[TestA - 1]"].
Definition w01_moutcomes : list outcome := [NoCall; Passed; Passed; Added; Added; Added; NoCall; Passed; Added].
Definition w01_mobs_paths : list bytes :=
  [[]; B "/S/TestS_1.snap"; w01_snap; B "/S/other_1.snap.json"; w01_other; B "/S/other_1.snap"; []; w01_other; w01_snap].

(* single-file instances *)
Definition w01_tid_new : bytes := B "[TestNew - 1]".
Definition w01_tid_old : bytes := B "[TestOld - 1]".
Definition w01_body : bytes := escape w01_v_esc.
Definition w01_r : bytes * nat := ((B "stale" ++ [nl] ++ B "body")%list, 6).
(* a text with a CR before a newline: NOT CR-safe *)
Definition w01_v_crlf : bytes := (B "x" ++ [cr; nl] ++ B "---")%list.

End W01.


(* ---------- C01_replay_after_create ---------- *)

Lemma w01_s0_fs : s_fs w01_s0 = [(w01_snap, render w01_old)].
Proof. vm_compute. reflexivity. Qed.

Lemma w01_old_wf : Forall wf_entry w01_old.
Proof. apply wf_entries_b_sound. vm_compute. reflexivity. Qed.

Lemma C01_replay_after_create_witness :
  fresh w01_s0 /\ wf_fs (s_fs w01_s0) /\ Forall hist_op_ok w01_h /\ Forall has_value w01_h /\
  Forall rec_ok (snd (run w01_s0 w01_h)) /\
  (* what the recording run did, and where: two passes against the pre-existing entry (the second one in a
     re-execution of TestA), a file created through the Config, appends; [TestOld - 1] stays stale *)
  map o_outcome (snd (run w01_s0 w01_h)) = w01_outcomes /\
  map o_path (snd (run w01_s0 w01_h)) = w01_paths /\
  map o_id (snd (run w01_s0 w01_h)) = w01_ids.
Proof.
  split; [vm_compute; repeat split|].
  split; [rewrite w01_s0_fs; apply wf_fs_single; exact w01_old_wf|].
  split; [apply hist_ok_b_sound; vm_compute; reflexivity|].
  split; [apply has_values_b_sound; vm_compute; reflexivity|].
  split; [apply recs_ok_b_sound; vm_compute; reflexivity|].
  split; [vm_compute; reflexivity|]. split; vm_compute; reflexivity.
Qed.

Lemma C01_replay_after_create_applied : forall e2,
  Forall silent_pass (snd (run (replay_start (fst (run w01_s0 w01_h)) e2) w01_h)) /\
  s_fs (fst (run (replay_start (fst (run w01_s0 w01_h)) e2) w01_h)) = s_fs (fst (run w01_s0 w01_h)).
Proof.
  intros e2. destruct C01_replay_after_create_witness as [H1 [H2 [H3 [H4 [H5 _]]]]].
  exact (replay_after_create w01_s0 w01_h e2 H1 H2 H3 H4 H5).
Qed.

(* ---------- C01_replay_after_update ---------- *)

Lemma w01_us0_fs : s_fs w01_us0 = [(w01_snap, render w01_uold)].
Proof. vm_compute. reflexivity. Qed.

Lemma C01_replay_after_update_witness :
  fresh w01_us0 /\ headers_ok w01_uH /\ efs_ok w01_uH (s_fs w01_us0) /\
  Forall hist_op_ok w01_uh /\ Forall has_value w01_uh /\
  Forall rec_ok_upd (snd (run w01_us0 w01_uh)) /\
  Forall (fact_ok w01_uH) (facts w01_us0 w01_uh) /\ consistent (facts w01_us0 w01_uh) /\
  (* one entry rewritten, one passed, one appended, one file created through the Config, a re-execution *)
  map o_outcome (snd (run w01_us0 w01_uh)) = w01_uoutcomes /\
  map o_id (snd (run w01_us0 w01_uh)) = w01_uids.
Proof.
  split; [vm_compute; repeat split|].
  split; [apply w01_headers_ok_b_sound; vm_compute; reflexivity|].
  split.
  { rewrite w01_us0_fs. apply w01_efs_single.
    - apply wf_entries_b_sound. vm_compute. reflexivity.
    - apply w01_coll_free_b_sound. vm_compute. reflexivity. }
  split; [apply hist_ok_b_sound; vm_compute; reflexivity|].
  split; [apply has_values_b_sound; vm_compute; reflexivity|].
  split; [apply w01_recs_ok_upd_b_sound; vm_compute; reflexivity|].
  split; [apply w01_facts_ok_b_sound; vm_compute; reflexivity|].
  split; [apply w01_consistent_b_sound; vm_compute; reflexivity|].
  split; vm_compute; reflexivity.
Qed.

Lemma C01_replay_after_update_applied : forall e2,
  Forall silent_pass (snd (run (replay_start (fst (run w01_us0 w01_uh)) e2) w01_uh)) /\
  s_fs (fst (run (replay_start (fst (run w01_us0 w01_uh)) e2) w01_uh)) = s_fs (fst (run w01_us0 w01_uh)).
Proof.
  intros e2. destruct C01_replay_after_update_witness as [H1 [H2 [H3 [H4 [H5 [H6 [H7 [H8 _]]]]]]]].
  exact (replay_after_update w01_uH w01_us0 w01_uh e2 H1 H2 H3 H4 H5 H6 H7 H8).
Qed.

(* ---------- C01_replay_all_entry_points ---------- *)

Lemma w01_mpaths_eq : map fpath (mfacts w01_ms0 w01_mh) = w01_mpaths.
Proof. vm_compute. reflexivity. Qed.

Lemma C01_replay_all_entry_points_witness :
  fresh w01_ms0 /\ Forall mixed_op_ok w01_mh /\ Forall has_value w01_mh /\
  wf_on (fun p => In p (map fpath (mfacts w01_ms0 w01_mh))) (s_fs w01_ms0) /\
  disjoint_paths (mfacts w01_ms0 w01_mh) (sfacts w01_ms0 w01_mh) /\
  Forall rec_ok (snd (run w01_ms0 w01_mh)) /\
  (* the initial file system is NOT well-formed as a whole (wf_on is really weaker than wf_fs) *)
  ~ wf_fs (s_fs w01_ms0) /\
  map o_outcome (snd (run w01_ms0 w01_mh)) = w01_moutcomes /\
  map o_path (snd (run w01_ms0 w01_mh)) = w01_mobs_paths.
Proof.
  split; [vm_compute; repeat split|].
  split; [apply w01_mixed_ok_b_sound; vm_compute; reflexivity|].
  split; [apply has_values_b_sound; vm_compute; reflexivity|].
  split.
  { assert (E1 : alookup w01_snap (s_fs w01_ms0) = Some (render w01_old)) by (vm_compute; reflexivity).
    assert (E2 : alookup w01_other (s_fs w01_ms0) = None) by (vm_compute; reflexivity).
    assert (Hw : wf_file (render w01_old)) by (apply wf_file_render; exact w01_old_wf).
    assert (HF : Forall (fun p => forall f, alookup p (s_fs w01_ms0) = Some f -> wf_file f) w01_mpaths).
    { unfold w01_mpaths.
      repeat (apply Forall_cons;
              [intros f Hl; first [rewrite E1 in Hl; injection Hl as <-; exact Hw
                                  |rewrite E2 in Hl; discriminate Hl]|]).
      apply Forall_nil. }
    intros p f Hin Hl. rewrite w01_mpaths_eq in Hin.
    exact (w01_wf_on_list w01_mpaths (s_fs w01_ms0) HF p f Hin Hl). }
  split; [apply w01_disjoint_b_sound; vm_compute; reflexivity|].
  split; [apply recs_ok_b_sound; vm_compute; reflexivity|].
  split.
  { intros Hwf. apply (w01_not_wf_file w01_junk).
    - vm_compute. discriminate.
    - vm_compute. discriminate.
    - apply (Hwf w01_junk_path). vm_compute. reflexivity. }
  split; vm_compute; reflexivity.
Qed.

Lemma C01_replay_all_entry_points_applied : forall e2,
  Forall silent_pass (snd (run (replay_start (fst (run w01_ms0 w01_mh)) e2) w01_mh)) /\
  s_fs (fst (run (replay_start (fst (run w01_ms0 w01_mh)) e2) w01_mh)) = s_fs (fst (run w01_ms0 w01_mh)).
Proof.
  intros e2. destruct C01_replay_all_entry_points_witness as [H1 [H2 [H3 [H4 [H5 [H6 _]]]]]].
  exact (replay_after_create_all_gen w01_ms0 w01_mh e2 H1 H2 H3 H4 H5 H6).
Qed.

(* ---------- C01_write_then_read / C01_append_stable ---------- *)

Lemma C01_write_then_read_witness :
  wf_file (render w01_old) /\ safe_line w01_tid_new /\ w01_tid_new <> [] /\ w01_tid_new <> endseq /\
  safe_text w01_body /\ ~ In endseq (split_nl w01_body) /\
  get_prev w01_tid_new (render w01_old) = None /\
  (* the value itself does contain a terminator line: escaping changed it *)
  In endseq (split_nl w01_v_esc) /\ w01_body <> w01_v_esc.
Proof.
  split; [apply wf_file_render; exact w01_old_wf|].
  split; [apply safe_line_b_sound; vm_compute; reflexivity|].
  split; [apply beq_false_neq; vm_compute; reflexivity|].
  split; [apply beq_false_neq; vm_compute; reflexivity|].
  split; [apply safe_text_b_sound; vm_compute; reflexivity|].
  split; [apply mem_bytes_false_notin; vm_compute; reflexivity|].
  split; [vm_compute; reflexivity|].
  split; [apply mem_bytes_true_in; vm_compute; reflexivity|].
  apply beq_false_neq; vm_compute; reflexivity.
Qed.

Lemma C01_write_then_read_applied :
  exists n, get_prev w01_tid_new (add_entry w01_tid_new w01_body (render w01_old)) = Some (w01_body, n).
Proof.
  destruct C01_write_then_read_witness as [H1 [H2 [H3 [H4 [H5 [H6 [H7 _]]]]]]].
  exact (get_prev_add_new (render w01_old) w01_tid_new w01_body H1 H2 H3 H4 H5 H6 H7).
Qed.

Lemma C01_append_stable_witness :
  wf_file (render w01_old) /\ safe_line w01_tid_new /\ safe_text w01_body /\
  get_prev w01_tid_old (render w01_old) = Some w01_r /\
  (* the existing header is not the first entry and not the appended one *)
  w01_tid_old <> w01_tid_new /\ snd w01_r <> 0.
Proof.
  destruct C01_write_then_read_witness as [H1 [H2 [_ [_ [H5 _]]]]].
  split; [exact H1|]. split; [exact H2|]. split; [exact H5|].
  split; [vm_compute; reflexivity|].
  split; [apply beq_false_neq; vm_compute; reflexivity|vm_compute; discriminate].
Qed.

Lemma C01_append_stable_applied :
  get_prev w01_tid_old (add_entry w01_tid_new w01_body (render w01_old)) = Some w01_r.
Proof.
  destruct C01_append_stable_witness as [H1 [H2 [H3 [H4 _]]]].
  exact (get_prev_add_other (render w01_old) w01_tid_new w01_body w01_tid_old w01_r H1 H2 H3 H4).
Qed.

(* ---------- C01_escape_storable (the inner implication safe_text s -> safe_text (escape s)) ---------- *)

Lemma C01_escape_storable_witness :
  safe_text w01_v_esc /\ In endseq (split_nl w01_v_esc) /\ escape w01_v_esc <> w01_v_esc /\
  (* the premise is a real restriction: a CR before a newline is not CR-safe *)
  ~ safe_text w01_v_crlf.
Proof.
  split; [apply safe_text_b_sound; vm_compute; reflexivity|].
  split; [apply mem_bytes_true_in; vm_compute; reflexivity|].
  split; [apply beq_false_neq; vm_compute; reflexivity|].
  intros H. unfold safe_text in H.
  assert (E : split_nl w01_v_crlf = [[120; 13]; [45; 45; 45]]%N) by (vm_compute; reflexivity).
  rewrite E in H. inversion H as [|x l [_ Hcr] _]. vm_compute in Hcr. discriminate Hcr.
Qed.

Lemma C01_escape_storable_applied :
  ~ In endseq (split_nl (escape w01_v_esc)) /\ safe_text (escape w01_v_esc) /\
  unescape (escape w01_v_esc) = unescape w01_v_esc.
Proof.
  split; [apply escape_no_endseq|]. split; [|apply unescape_escape].
  apply escape_safe. exact (proj1 C01_escape_storable_witness).
Qed.

(* ================================================================== *)
(* C02 - instances                                                      *)
(* ================================================================== *)

Section W02.
Local Open Scope string_scope.

Definition w02_testA : bytes := B "TestA".
Definition w02_testB : bytes := B "TestB".
Definition w02_testS : bytes := B "TestS".

(* the replay process (read-only CI mode) of the recording run w01_s0 / w01_h of C01, stopped
   - after its first three operations: TestA's next call through the default Config addresses [TestA - 2], which the
     recording run stored for MatchYAML of w01_v_yaml (escaped: it has a `---` line);
   - after its first operation: TestB's first call through the Config `other` addresses [TestB - 1] of /S/other.snap,
     stored for MatchJSON of w01_v_json *)
Definition w02_t0 : state := replay_start (fst (run w01_s0 w01_h)) w01_env_ci.
Definition w02_s : state := fst (run w02_t0 (firstn 3 w01_h)).
Definition w02_sj : state := fst (run w02_t0 (firstn 1 w01_h)).
Definition w02_c0 : config := default_config (B "/S").
Definition w02_c1 : config := {| c_filename := B "other"; c_dir := B "/S"; c_ext := []; c_update := None |}.
(* the YAML value without its final newline / the JSON value with one more newline *)
Definition w02_v1 : bytes := (B "a: 1" ++ [nl] ++ B "---" ++ [nl] ++ [255; 254]%N)%list.
Definition w02_vj1 : bytes := (w01_v_json ++ [nl])%list.
Definition w02_line : nat := 11.
Definition w02_linej : nat := 2.
Definition w02_id2 : bytes := B "[TestA - 2]".
Definition w02_id1 : bytes := B "[TestA - 1]".
Definition w02_call : op := OMatch AYaml 0 w02_testA (POk w02_v1).
Definition w02_callj : op := OMatch AJson 1 w02_testB (POk w02_vj1).

(* standalone: the replay process of the mixed recording run w01_ms0 / w01_mh of C01 in mode e, after its first
   operation (the Config); TestS's call through the default Config addresses /S/TestS_1.snap (which holds w01_sbytes),
   its MatchStandaloneJSON call through the Config `other` addresses /S/other_1.snap.json (which holds one NUL byte) *)
Definition w02_ss (e : env) : state := fst (run (replay_start (fst (run w01_ms0 w01_mh)) e) (firstn 1 w01_mh)).
Definition w02_stext : bytes := [13; 0; 254]%N.
Definition w02_nul : bytes := [0]%N.
Definition w02_empty : bytes := [].

(* over histories: the call w01_mo of the mixed history (MatchYAML through the Config `other`) changed *)
Definition w02_hd : nat := 1.
Definition w02_mo' : op := OMatch AYaml 1 w02_testA (POk w02_v1).
Definition w02_mh' : list op := (w01_mh1 ++ w02_mo' :: w01_mh2)%list.
Definition w02_replay_outcomes : list outcome :=
  [NoCall; Passed; Passed; Passed; Failed EDiff; Passed; NoCall; Passed; Passed].

End W02.

(* ---------- C02_no_false_pass ---------- *)

Lemma C02_no_false_pass_witness :
  (* MatchYAML, default Config, second slot of TestA; values differ in the final newline only *)
  (is_standalone AYaml = false /\
   lookup_slot (s_fs w02_s) (multi_path w02_s w02_c0 w02_testA) (multi_id w02_s w02_c0 w02_testA)
     = Some (snap_of AYaml w01_v_yaml, w02_line) /\
   w01_v_yaml <> w02_v1 /\ (AYaml <> AJson -> no_token_line w01_v_yaml /\ no_token_line w02_v1) /\
   should_update (s_env w02_s) (c_update w02_c0) = false /\
   (* the Config is the one handle 0 denotes there; the slot; what is stored is not the value itself *)
   nth_error (s_cfgs w02_s) 0 = Some w02_c0 /\ multi_id w02_s w02_c0 w02_testA = w02_id2 /\
   snap_of AYaml w01_v_yaml <> w01_v_yaml) /\
  (* MatchJSON through the Config `other` (no hypothesis on the texts) *)
  (is_standalone AJson = false /\
   lookup_slot (s_fs w02_sj) (multi_path w02_sj w02_c1 w02_testB) (multi_id w02_sj w02_c1 w02_testB)
     = Some (snap_of AJson w01_v_json, w02_linej) /\
   w01_v_json <> w02_vj1 /\ (AJson <> AJson -> no_token_line w01_v_json /\ no_token_line w02_vj1) /\
   should_update (s_env w02_sj) (c_update w02_c1) = false /\
   nth_error (s_cfgs w02_sj) 1 = Some w02_c1 /\ multi_path w02_sj w02_c1 w02_testB = w01_other).
Proof.
  split.
  - split; [reflexivity|]. split; [vm_compute; reflexivity|].
    split; [apply beq_false_neq; vm_compute; reflexivity|].
    split; [intros _; split; apply mem_bytes_false_notin; vm_compute; reflexivity|].
    split; [vm_compute; reflexivity|]. split; [vm_compute; reflexivity|].
    split; [vm_compute; reflexivity|apply beq_false_neq; vm_compute; reflexivity].
  - split; [reflexivity|]. split; [vm_compute; reflexivity|].
    split; [apply beq_false_neq; vm_compute; reflexivity|].
    split; [intros Hne; exfalso; apply Hne; reflexivity|].
    split; [vm_compute; reflexivity|]. split; vm_compute; reflexivity.
Qed.

(* the theorem on both instances, stated for the operation [step] executes *)
Lemma C02_no_false_pass_applied :
  (exists s' o, step w02_s w02_call = (s', o) /\
     o_outcome o = Failed EDiff /\ o_errors o = 1 /\ o_logs o = [] /\ o_writes o = [] /\ s_fs s' = s_fs w02_s) /\
  (exists s' o, step w02_sj w02_callj = (s', o) /\
     o_outcome o = Failed EDiff /\ o_errors o = 1 /\ o_logs o = [] /\ o_writes o = [] /\ s_fs s' = s_fs w02_sj).
Proof.
  destruct C02_no_false_pass_witness as [[A1 [A2 [A3 [A4 [A5 [A6 _]]]]]] [J1 [J2 [J3 [J4 [J5 [J6 _]]]]]]].
  split.
  - unfold w02_call. rewrite (step_match_multi w02_s AYaml 0 w02_testA (POk w02_v1) w02_c0 A1 A6).
    exact (multi_no_false_pass w02_s AYaml w02_c0 w02_testA w01_v_yaml w02_v1 w02_line A1 A2 A3 A4 A5).
  - unfold w02_callj. rewrite (step_match_multi w02_sj AJson 1 w02_testB (POk w02_vj1) w02_c1 J1 J6).
    exact (multi_no_false_pass w02_sj AJson w02_c1 w02_testB w01_v_json w02_vj1 w02_linej J1 J2 J3 J4 J5).
Qed.

(* ---------- C02_no_false_pass_standalone ---------- *)

Lemma C02_no_false_pass_standalone_witness :
  (* read-only mode, MatchStandaloneSnapshot, default Config: bytes differ in the last byte *)
  (exists s' o,
     alookup (stand_path (w02_ss w01_env_ci) w02_c0 w02_testS) (s_fs (w02_ss w01_env_ci)) = Some w01_sbytes /\
     w01_sbytes <> w02_stext /\
     stand_call (w02_ss w01_env_ci) AStand w02_c0 w02_testS (POk w02_stext) = (s', o)) /\
  (* update mode, MatchStandaloneJSON through the Config `other` (extension defaulted): one NUL byte vs the empty text *)
  (exists s' o,
     alookup (stand_path (w02_ss w01_env_upd) (json_ext w02_c1) w02_testS) (s_fs (w02_ss w01_env_upd)) = Some w02_nul /\
     w02_nul <> w02_empty /\
     stand_call (w02_ss w01_env_upd) AStandJson (json_ext w02_c1) w02_testS (POk w02_empty) = (s', o)) /\
  nth_error (s_cfgs (w02_ss w01_env_ci)) 0 = Some w02_c0 /\
  nth_error (s_cfgs (w02_ss w01_env_upd)) 1 = Some w02_c1.
Proof.
  split.
  { exists (fst (stand_call (w02_ss w01_env_ci) AStand w02_c0 w02_testS (POk w02_stext))),
           (snd (stand_call (w02_ss w01_env_ci) AStand w02_c0 w02_testS (POk w02_stext))).
    split; [vm_compute; reflexivity|]. split; [discriminate|apply surjective_pairing]. }
  split.
  { exists (fst (stand_call (w02_ss w01_env_upd) AStandJson (json_ext w02_c1) w02_testS (POk w02_empty))),
           (snd (stand_call (w02_ss w01_env_upd) AStandJson (json_ext w02_c1) w02_testS (POk w02_empty))).
    split; [vm_compute; reflexivity|]. split; [discriminate|apply surjective_pairing]. }
  split; vm_compute; reflexivity.
Qed.

Lemma C02_no_false_pass_standalone_applied :
  (* read-only: the failure branch *)
  (let s := w02_ss w01_env_ci in
   let r := stand_call s AStand w02_c0 w02_testS (POk w02_stext) in
   should_update (s_env s) (c_update w02_c0) = false /\
   o_outcome (snd r) = Failed EDiff /\ o_errors (snd r) = 1 /\ o_writes (snd r) = [] /\ s_fs (fst r) = s_fs s) /\
  (* update mode: the wholesale-update branch *)
  (let s := w02_ss w01_env_upd in
   let r := stand_call s AStandJson (json_ext w02_c1) w02_testS (POk w02_empty) in
   should_update (s_env s) (c_update (json_ext w02_c1)) = true /\
   o_outcome (snd r) = Updated /\ o_errors (snd r) = 0 /\ o_logs (snd r) = [LUpdated] /\
   alookup (o_path (snd r)) (s_fs (fst r)) = Some w02_empty).
Proof.
  destruct C02_no_false_pass_standalone_witness as [[s1 [o1 [A1 [A2 A3]]]] [[s2 [o2 [B1 [B2 B3]]]] _]].
  split; cbv zeta.
  - assert (E : should_update (s_env (w02_ss w01_env_ci)) (c_update w02_c0) = false) by (vm_compute; reflexivity).
    destruct (stand_mismatch (w02_ss w01_env_ci) AStand w02_c0 w02_testS w02_stext w01_sbytes s1 o1 A1 A2 A3)
      as [HL|[Hu _]].
    + rewrite A3. cbn [fst snd]. exact HL.
    + rewrite E in Hu. discriminate Hu.
  - assert (E : should_update (s_env (w02_ss w01_env_upd)) (c_update (json_ext w02_c1)) = true)
      by (vm_compute; reflexivity).
    destruct (stand_mismatch (w02_ss w01_env_upd) AStandJson (json_ext w02_c1) w02_testS w02_empty w02_nul s2 o2 B1 B2 B3)
      as [[Hu _]|HR].
    + rewrite E in Hu. discriminate Hu.
    + rewrite B3. cbn [fst snd]. exact HR.
Qed.

(* ---------- C02_unescape_injective ---------- *)

(* Injectivity: the three premises together hold on the diagonal only (that is the theorem). The diagonal instance,
   and an off-diagonal pair of token-free texts (differing in the final newline, both with a `---` line) on which the
   third premise fails - as the theorem, read contrapositively, says it must. *)
Lemma C02_unescape_injective_witness :
  (no_token_line w01_v_yaml /\ no_token_line w01_v_yaml /\ unescape w01_v_yaml = unescape w01_v_yaml) /\
  (no_token_line w01_v_yaml /\ no_token_line w02_v1 /\ w01_v_yaml <> w02_v1) /\
  (* the premises are needed (finding K1): the token itself *)
  (~ no_token_line token /\ unescape token = unescape endseq /\ token <> endseq).
Proof.
  assert (Ha : no_token_line w01_v_yaml) by (apply mem_bytes_false_notin; vm_compute; reflexivity).
  split; [split; [exact Ha|split; [exact Ha|reflexivity]]|].
  split.
  - split; [exact Ha|]. split; [apply mem_bytes_false_notin; vm_compute; reflexivity|].
    apply beq_false_neq; vm_compute; reflexivity.
  - split; [|split; [vm_compute; reflexivity|discriminate]].
    intros H. apply H. apply mem_bytes_true_in. vm_compute. reflexivity.
Qed.

Lemma C02_unescape_injective_applied : unescape w01_v_yaml <> unescape w02_v1.
Proof.
  destruct C02_unescape_injective_witness as [_ [[Ha [Hb Hne]] _]].
  intros E. apply Hne. exact (unescape_inj_on w01_v_yaml w02_v1 Ha Hb E).
Qed.

(* ---------- C02_changed_call_fails ---------- *)

Lemma C02_changed_call_fails_witness :
  fresh w01_ms0 /\ Forall mixed_op_ok w01_mh /\ Forall has_value w01_mh /\
  wf_on (fun p => In p (map fpath (mfacts w01_ms0 w01_mh))) (s_fs w01_ms0) /\
  disjoint_paths (mfacts w01_ms0 w01_mh) (sfacts w01_ms0 w01_mh) /\
  Forall rec_ok (snd (run w01_ms0 w01_mh)) /\
  nth_error (s_cfgs (fst (run w01_ms0 w01_mh1))) 1 = Some w02_c1 /\
  stored_of AYaml w02_v1 <> stored_of AYaml w01_mv /\
  should_update w01_env_ci (c_update w02_c1) = false /\ should_update w01_env (c_update w02_c1) = false /\
  (* the history is h1 ++ o :: h2 with the changed call o in the middle; computed replay in read-only mode: the later
     call on the same slot (re-execution of TestA, recorded value) passes *)
  w01_mh = w01_mh1 ++ OMatch AYaml 1 w02_testA (POk w01_mv) :: w01_mh2 /\
  w02_mh' = w01_mh1 ++ OMatch AYaml 1 w02_testA (POk w02_v1) :: w01_mh2 /\
  map o_outcome (snd (run (replay_start (fst (run w01_ms0 w01_mh)) w01_env_ci) w02_mh')) = w02_replay_outcomes.
Proof.
  destruct C01_replay_all_entry_points_witness as [H1 [H2 [H3 [H4 [H5 [H6 _]]]]]].
  split; [exact H1|]. split; [exact H2|]. split; [exact H3|]. split; [exact H4|]. split; [exact H5|].
  split; [exact H6|].
  split; [vm_compute; reflexivity|].
  split; [apply beq_false_neq; vm_compute; reflexivity|].
  split; [reflexivity|]. split; [reflexivity|]. split; [reflexivity|]. split; [reflexivity|].
  vm_compute. reflexivity.
Qed.

Lemma C02_changed_call_fails_applied : forall e2, should_update e2 (c_update w02_c1) = false ->
  exists obs1 ob obs2,
    snd (run (replay_start (fst (run w01_ms0 w01_mh)) e2) w02_mh') = obs1 ++ ob :: obs2 /\
    length obs1 = length w01_mh1 /\ length obs2 = length w01_mh2 /\
    Forall silent_pass obs1 /\ diff_fail ob /\ Forall silent_pass obs2 /\
    o_path ob = w01_other /\ o_id ob = w02_id1 /\
    s_fs (fst (run (replay_start (fst (run w01_ms0 w01_mh)) e2) w02_mh')) = s_fs (fst (run w01_ms0 w01_mh)).
Proof.
  intros e2 Hup.
  destruct C02_changed_call_fails_witness as [H1 [H2 [H3 [H4 [H5 [H6 [H7 [H8 [_ [_ [E1 [E2 _]]]]]]]]]]]].
  rewrite E1 in H2, H3, H4, H5, H6.
  destruct (changed_call_fails_all w01_ms0 w01_mh1 w01_mh2 e2 AYaml 1 w02_testA w01_mv w02_v1 w02_c1
              H1 H2 H3 H4 H5 H6 H7 H8 Hup)
    as [obs1 [ob [obs2 [R [L1 [L2 [S1 [D [S2 [Hp [Hi Hf]]]]]]]]]]].
  rewrite <- E1 in R, Hp, Hi, Hf. rewrite <- E2 in R, Hf.
  exists obs1, ob, obs2.
  split; [exact R|]. split; [exact L1|]. split; [exact L2|].
  split; [exact S1|]. split; [exact D|]. split; [exact S2|].
  split; [rewrite Hp; vm_compute; reflexivity|]. split; [rewrite Hi; vm_compute; reflexivity|]. exact Hf.
Qed.

(* ================================================================== *)
(* representative statements over named constants only                  *)
(* ================================================================== *)

(* the hypotheses of C01_replay_after_create, C01_replay_after_update and C01_replay_all_entry_points *)
Lemma C01_witnesses_all :
  (fresh w01_s0 /\ wf_fs (s_fs w01_s0) /\ Forall hist_op_ok w01_h /\ Forall has_value w01_h /\
   Forall rec_ok (snd (run w01_s0 w01_h)) /\ map o_outcome (snd (run w01_s0 w01_h)) = w01_outcomes) /\
  (fresh w01_us0 /\ headers_ok w01_uH /\ efs_ok w01_uH (s_fs w01_us0) /\
   Forall hist_op_ok w01_uh /\ Forall has_value w01_uh /\ Forall rec_ok_upd (snd (run w01_us0 w01_uh)) /\
   Forall (fact_ok w01_uH) (facts w01_us0 w01_uh) /\ consistent (facts w01_us0 w01_uh) /\
   map o_outcome (snd (run w01_us0 w01_uh)) = w01_uoutcomes) /\
  (fresh w01_ms0 /\ Forall mixed_op_ok w01_mh /\ Forall has_value w01_mh /\
   wf_on (fun p => In p (map fpath (mfacts w01_ms0 w01_mh))) (s_fs w01_ms0) /\
   disjoint_paths (mfacts w01_ms0 w01_mh) (sfacts w01_ms0 w01_mh) /\
   Forall rec_ok (snd (run w01_ms0 w01_mh)) /\ map o_outcome (snd (run w01_ms0 w01_mh)) = w01_moutcomes).
Proof.
  destruct C01_replay_after_create_witness as [A1 [A2 [A3 [A4 [A5 [A6 _]]]]]].
  destruct C01_replay_after_update_witness as [U1 [U2 [U3 [U4 [U5 [U6 [U7 [U8 [U9 _]]]]]]]]].
  destruct C01_replay_all_entry_points_witness as [M1 [M2 [M3 [M4 [M5 [M6 [_ [M7 _]]]]]]]].
  split; [|split].
  - split; [exact A1|]. split; [exact A2|]. split; [exact A3|]. split; [exact A4|]. split; [exact A5|exact A6].
  - split; [exact U1|]. split; [exact U2|]. split; [exact U3|]. split; [exact U4|]. split; [exact U5|].
    split; [exact U6|]. split; [exact U7|]. split; [exact U8|exact U9].
  - split; [exact M1|]. split; [exact M2|]. split; [exact M3|]. split; [exact M4|]. split; [exact M5|].
    split; [exact M6|exact M7].
Qed.

(* the hypotheses of C02_no_false_pass (MatchYAML instance) and of C02_changed_call_fails (the changed call is
   w01_mo = OMatch AYaml w02_hd w02_testA (POk w01_mv) inside w01_mh = w01_mh1 ++ w01_mo :: w01_mh2) *)
Lemma C02_witnesses_all :
  (is_standalone AYaml = false /\
   lookup_slot (s_fs w02_s) (multi_path w02_s w02_c0 w02_testA) (multi_id w02_s w02_c0 w02_testA)
     = Some (snap_of AYaml w01_v_yaml, w02_line) /\
   w01_v_yaml <> w02_v1 /\ (AYaml <> AJson -> no_token_line w01_v_yaml /\ no_token_line w02_v1) /\
   should_update (s_env w02_s) (c_update w02_c0) = false) /\
  (w01_mo = OMatch AYaml w02_hd w02_testA (POk w01_mv) /\ w02_mo' = OMatch AYaml w02_hd w02_testA (POk w02_v1) /\
   fresh w01_ms0 /\ Forall mixed_op_ok w01_mh /\ Forall has_value w01_mh /\
   wf_on (fun p => In p (map fpath (mfacts w01_ms0 w01_mh))) (s_fs w01_ms0) /\
   disjoint_paths (mfacts w01_ms0 w01_mh) (sfacts w01_ms0 w01_mh) /\
   Forall rec_ok (snd (run w01_ms0 w01_mh)) /\
   nth_error (s_cfgs (fst (run w01_ms0 w01_mh1))) w02_hd = Some w02_c1 /\
   stored_of AYaml w02_v1 <> stored_of AYaml w01_mv /\
   should_update w01_env_ci (c_update w02_c1) = false /\
   map o_outcome (snd (run (replay_start (fst (run w01_ms0 w01_mh)) w01_env_ci) w02_mh')) = w02_replay_outcomes).
Proof.
  destruct C02_no_false_pass_witness as [[A1 [A2 [A3 [A4 [A5 _]]]]] _].
  destruct C02_changed_call_fails_witness as [H1 [H2 [H3 [H4 [H5 [H6 [H7 [H8 [H9 [_ [_ [_ H10]]]]]]]]]]]].
  split.
  - split; [exact A1|]. split; [exact A2|]. split; [exact A3|]. split; [exact A4|exact A5].
  - split; [reflexivity|]. split; [reflexivity|].
    split; [exact H1|]. split; [exact H2|]. split; [exact H3|]. split; [exact H4|]. split; [exact H5|].
    split; [exact H6|]. split; [exact H7|]. split; [exact H8|]. split; [exact H9|exact H10].
Qed.


(* ==================================================================================================== *)
(* fragment G2 *)
(* ==================================================================================================== *)
(* Wit_G2: non-vacuity witnesses for Properties/C03.v, C04.v, C05.v and C12.v.
   Every theorem of these files that carries hypotheses gets a lemma <Theorem>_witness (a concrete, non-trivial instance
   meeting ALL hypotheses, proved by computation) and a lemma <Theorem>_applied (the lemma the theorem is closed with,
   instantiated on the witness: the concrete conclusion). *)
From Coq Require Import String.
From Coq Require Import List NArith Arith Bool Lia Permutation.
Import ListNotations.
From Snaps Require Import Base.Bytes Base.Lines Base.Dec Base.Assoc.
From Snaps Require Import Model.Frame Model.PathModel Model.Mode Model.Api.
From Snaps Require Import Proofs.BytesP Proofs.LinesP Proofs.DecP Proofs.FrameP Proofs.ApiP Proofs.StandaloneP
  Proofs.StepP Proofs.OutcomeP Proofs.HistoryP Proofs.RegistryP Proofs.IsolationP Proofs.UpdateHistoryP
  Proofs.StandaloneHistoryP.
Local Open Scope list_scope.

(* ================================================================== *)
(* C03 - slots                                                         *)
(* ================================================================== *)

(* ---------- deciders ---------- *)

Definition w03_call_op_b (o : op) : bool :=
  match o with OMatch _ _ _ _ | OEndTest _ | OSkip _ => true | _ => false end.
Lemma w03_call_op_b_sound o : w03_call_op_b o = true -> call_op o.
Proof. destruct o; cbn [w03_call_op_b call_op]; try discriminate; intros _; exact I. Qed.
Lemma w03_call_ops_b_sound l : forallb w03_call_op_b l = true -> Forall call_op l.
Proof. apply forallb_Forall. apply w03_call_op_b_sound. Qed.

Definition w03_no_collision_b (tid : bytes) (es : list entry) : bool :=
  forallb (fun e => negb (mem_bytes tid (split_nl (snd e)))) es.
Lemma w03_no_collision_b_sound tid es : w03_no_collision_b tid es = true -> no_collision tid es.
Proof.
  unfold w03_no_collision_b, no_collision. apply forallb_Forall.
  intros e H. apply negb_true_iff in H. now apply mem_bytes_false_notin.
Qed.

(* ---------- the instance ---------- *)

Section W03.
Local Open Scope string_scope.

Definition w03_env : env := {| ci := false; upd := UUnset; colour := false |}.

(* a file of three entries with multi-line bodies (a blank line, an escaped terminator line) *)
Definition w03_bodyA : bytes := (B "alpha" ++ [nl] ++ [nl] ++ B "omega")%list.
Definition w03_bodyB : bytes := (B "long" ++ [nl] ++ B "body" ++ [nl] ++ B "of three lines")%list.
Definition w03_bodyC : bytes := (B "k: v" ++ [nl] ++ B "/-/-/-/" ++ [nl] ++ B "tail")%list.
Definition w03_tidA : bytes := B "[TestA - 1]".
Definition w03_tidB : bytes := B "[TestB - 1]".
Definition w03_tidC : bytes := B "[TestB/sub - 1]".
Definition w03_es : list entry := [(w03_tidA, w03_bodyA); (w03_tidB, w03_bodyB); (w03_tidC, w03_bodyC)].
Definition w03_file : bytes := render w03_es.

(* the new body written under [TestB - 1]: shorter, two lines *)
Definition w03_snap : bytes := (B "new" ++ [nl] ++ B "value")%list.

(* an appended entry whose BODY contains a line equal to the existing header [TestB - 1] *)
Definition w03_tidD : bytes := B "[TestD - 1]".
Definition w03_bodyD : bytes := (B "x" ++ [nl] ++ B "[TestB - 1]" ++ [nl] ++ B "y")%list.

(* the process: two Configs (handle 1 = WithConfig(Filename("other"))), the file above at the default location *)
Definition w03_s0 : state :=
  fst (run (init_state w03_env (B "/r/x_test.go") (B "/S"))
           [ONewConfig (Some (B "other")) None None None; OPutFile (B "/S/x_test.snap") w03_file]).
Definition w03_c1 : config := {| c_filename := B "other"; c_dir := B "/S"; c_ext := []; c_update := None |}.
Definition w03_tA : bytes := B "TestA".
Definition w03_tB : bytes := B "TestB".
Definition w03_path1 : bytes := B "/S/other.snap".

(* the history before the call: two tests interleaved over both Configs, all payload kinds, a standalone call,
   the end of TestB, a snaps.Skip *)
Definition w03_pre : list op :=
  [OMatch ASnap 0 w03_tA (POk (B "v1"));              (* x_test.snap [TestA - 1]: differs from the stored body - fails *)
   OMatch AJson 1 w03_tA (POk (B "{}"));              (* other.snap  [TestA - 1] *)
   OMatch AYaml 0 w03_tB (POk (B "a: 1"));            (* x_test.snap [TestB - 1] *)
   OMatch ASnap 1 w03_tA PInvalid;                    (* other.snap  [TestA - 2]: failing call, consumes the ordinal *)
   OSkip (B "TestC");
   OEndTest w03_tB;
   OMatch AJson 1 w03_tA PMatchErr;                   (* other.snap  [TestA - 3]: failing call *)
   OMatch ASnap 1 w03_tB (POk (B "v2"));              (* other.snap  [TestB - 1]: another test on the same file *)
   OMatch AStand 1 w03_tA (POk (B "v3"));             (* standalone: another registry *)
   OMatch ASnap 1 w03_tA PNoValues;                   (* warning only: no ordinal consumed *)
   OMatch ASnap 0 w03_tA (POk (B "v1"))].             (* x_test.snap [TestA - 2] *)
Definition w03_p : pre := POk (B "z").
Definition w03_hd : nat := 1.
Definition w03_k : nat := 3.
Definition w03_k0 : nat := 0.
Definition w03_lineB : nat := 8.
End W03.

(* ---------- C03_slot ---------- *)

Lemma C03_slot_witness :
  s_running w03_s0 = [] /\ s_pending w03_s0 = [] /\ Forall call_op w03_pre /\
  nth_error (s_cfgs w03_s0) w03_hd = Some w03_c1 /\ is_standalone AYaml = false /\
  ~ (AYaml = ASnap /\ w03_p = PNoValues) /\
  (* the instance is the interesting one: two Configs, the addressed file is the Config's, the ordinal is not 0 *)
  List.length (s_cfgs w03_s0) = 2 /\
  snapshot_path w03_c1 (s_caller w03_s0) w03_tA false = w03_path1 /\
  spec_counts (s_cfgs w03_s0) (s_caller w03_s0) w03_pre fresh_counts
    (snapshot_path w03_c1 (s_caller w03_s0) w03_tA false, w03_tA) = w03_k /\
  w03_k0 < w03_k.
Proof.
  split; [vm_compute; reflexivity|]. split; [vm_compute; reflexivity|].
  split; [apply w03_call_ops_b_sound; vm_compute; reflexivity|].
  split; [vm_compute; reflexivity|]. split; [reflexivity|].
  split; [intros [H _]; discriminate H|].
  split; [vm_compute; reflexivity|]. split; [vm_compute; reflexivity|].
  split; [vm_compute; reflexivity|]. unfold w03_k0, w03_k. lia.
Qed.

Lemma C03_slot_applied :
  o_id (snd (step (fst (run w03_s0 w03_pre)) (OMatch AYaml w03_hd w03_tA w03_p))) = header w03_tA (S w03_k) /\
  o_path (snd (step (fst (run w03_s0 w03_pre)) (OMatch AYaml w03_hd w03_tA w03_p))) = w03_path1 /\
  header w03_tA (S w03_k) = B "[TestA - 4]"%string.
Proof.
  destruct C03_slot_witness as [H1 [H2 [H3 [H4 [H5 [H6 [_ [Hp [Hk _]]]]]]]]].
  pose proof (slot_after_history w03_s0 w03_pre AYaml w03_hd w03_tA w03_p w03_c1 H1 H2 H3 H4 H5 H6) as H.
  cbv zeta in H. rewrite Hk, Hp in H. destruct H as [Ha Hb].
  split; [exact Ha|]. split; [exact Hb|]. vm_compute. reflexivity.
Qed.

(* ---------- C03_header_injective: satisfiable only on the diagonal, of course ---------- *)

Section W03b.
Local Open Scope string_scope.
Definition w03_n1 : bytes := B "TestA - 1".
Definition w03_n2 : bytes := B "TestA".
End W03b.

Lemma C03_header_injective_witness :
  header w03_n1 1 = header w03_n1 1 /\
  (* off the diagonal the premise fails, also for names that are prefixes of each other and contain " - " *)
  header w03_n1 1 <> header w03_n2 11 /\ header w03_n2 1 <> header w03_n2 11 /\ header w03_n1 1 <> header w03_n2 1.
Proof. split; [reflexivity|]. repeat split; vm_compute; discriminate. Qed.

Lemma C03_header_injective_applied : w03_n1 = w03_n1 /\ 1 = 1.
Proof. exact (header_inj w03_n1 1 w03_n1 1 (proj1 C03_header_injective_witness)). Qed.

(* ---------- C03_create_isolated ---------- *)

Lemma w03_es_wf : Forall wf_entry w03_es.
Proof. apply wf_entries_b_sound. vm_compute. reflexivity. Qed.

Lemma C03_create_isolated_witness :
  wf_file w03_file /\ safe_line w03_tidD /\ safe_text w03_bodyD /\
  get_prev w03_tidB w03_file = Some (w03_bodyB, w03_lineB) /\
  (* the appended body contains a line equal to the header whose replay is preserved *)
  In w03_tidB (split_nl w03_bodyD).
Proof.
  split; [apply wf_file_render; exact w03_es_wf|].
  split; [apply safe_line_b_sound; vm_compute; reflexivity|].
  split; [apply safe_text_b_sound; vm_compute; reflexivity|].
  split; [vm_compute; reflexivity|].
  apply mem_bytes_true_in. vm_compute. reflexivity.
Qed.

Lemma C03_create_isolated_applied :
  get_prev w03_tidB (add_entry w03_tidD w03_bodyD w03_file) = Some (w03_bodyB, w03_lineB).
Proof.
  destruct C03_create_isolated_witness as [H1 [H2 [H3 [H4 _]]]].
  exact (get_prev_add_other w03_file w03_tidD w03_bodyD w03_tidB (w03_bodyB, w03_lineB) H1 H2 H3 H4).
Qed.

(* ---------- C03_rewrite_isolated / C03_rewrite_keeps_entries ---------- *)

(* rewrite [TestB - 1] (the middle entry); observe [TestB/sub - 1] (the entry behind it) *)
Lemma C03_rewrite_isolated_witness :
  Forall wf_entry w03_es /\ wf_entry (w03_tidB, w03_snap) /\
  no_collision w03_tidB w03_es /\ no_collision w03_tidC w03_es /\ ~ In w03_tidC (split_nl w03_snap) /\
  w03_tidB <> [] /\ w03_tidB <> endseq /\ w03_tidC <> [] /\ w03_tidC <> endseq /\ w03_tidC <> w03_tidB /\
  (* the rewritten entry exists and really changes; the observed entry exists *)
  lookup_entry w03_tidB w03_es = Some w03_bodyB /\ w03_bodyB <> w03_snap /\
  lookup_entry w03_tidC w03_es = Some w03_bodyC.
Proof.
  split; [exact w03_es_wf|].
  split; [apply wf_entry_b_sound; vm_compute; reflexivity|].
  split; [apply w03_no_collision_b_sound; vm_compute; reflexivity|].
  split; [apply w03_no_collision_b_sound; vm_compute; reflexivity|].
  split; [apply mem_bytes_false_notin; vm_compute; reflexivity|].
  split; [vm_compute; discriminate|]. split; [vm_compute; discriminate|].
  split; [vm_compute; discriminate|]. split; [vm_compute; discriminate|].
  split; [vm_compute; discriminate|].
  split; [vm_compute; reflexivity|]. split; [vm_compute; discriminate|]. vm_compute; reflexivity.
Qed.

Lemma C03_rewrite_isolated_applied :
  option_map fst (get_prev w03_tidC (update_entry w03_tidB w03_snap (render w03_es))) = Some w03_bodyC /\
  update_entry w03_tidB w03_snap (render w03_es) <> render w03_es.
Proof.
  destruct C03_rewrite_isolated_witness as [H1 [H2 [H3 [H4 [H5 [H6 [H7 [H8 [H9 [H10 _]]]]]]]]]].
  split.
  - rewrite (update_isolation w03_tidB w03_snap w03_tidC w03_es H1 H2 H3 H4 H5 H6 H7 H8 H9 H10).
    vm_compute. reflexivity.
  - vm_compute. discriminate.
Qed.

Lemma C03_rewrite_keeps_entries_witness :
  Forall wf_entry w03_es /\ wf_entry (w03_tidB, w03_snap) /\ no_collision w03_tidB w03_es /\
  w03_tidB <> [] /\ w03_tidB <> endseq.
Proof.
  destruct C03_rewrite_isolated_witness as [H1 [H2 [H3 [_ [_ [H6 [H7 _]]]]]]].
  split; [exact H1|]. split; [exact H2|]. split; [exact H3|]. split; [exact H6|exact H7].
Qed.

Lemma C03_rewrite_keeps_entries_applied :
  exists es', update_entry w03_tidB w03_snap (render w03_es) = render es' /\ Forall wf_entry es' /\
              map fst es' = map fst w03_es /\ (forall e, In e w03_es -> fst e <> w03_tidB -> In e es').
Proof.
  destruct C03_rewrite_keeps_entries_witness as [H1 [H2 [H3 [H4 H5]]]].
  exact (update_no_residue w03_tidB w03_snap w03_es H1 H2 H3 H4 H5).
Qed.

(* representative statement over named constants only *)
Lemma C03_witnesses_all :
  (s_running w03_s0 = [] /\ s_pending w03_s0 = [] /\ Forall call_op w03_pre /\
   nth_error (s_cfgs w03_s0) w03_hd = Some w03_c1 /\ is_standalone AYaml = false /\
   ~ (AYaml = ASnap /\ w03_p = PNoValues) /\
   spec_counts (s_cfgs w03_s0) (s_caller w03_s0) w03_pre fresh_counts
     (snapshot_path w03_c1 (s_caller w03_s0) w03_tA false, w03_tA) = w03_k /\ w03_k0 < w03_k) /\
  (Forall wf_entry w03_es /\ wf_entry (w03_tidB, w03_snap) /\
   no_collision w03_tidB w03_es /\ no_collision w03_tidC w03_es /\ ~ In w03_tidC (split_nl w03_snap) /\
   w03_tidB <> [] /\ w03_tidB <> endseq /\ w03_tidC <> [] /\ w03_tidC <> endseq /\ w03_tidC <> w03_tidB) /\
  (wf_file w03_file /\ safe_line w03_tidD /\ safe_text w03_bodyD /\ In w03_tidB (split_nl w03_bodyD)).
Proof.
  destruct C03_slot_witness as [H1 [H2 [H3 [H4 [H5 [H6 [_ [_ [Hk Hlt]]]]]]]]].
  destruct C03_rewrite_isolated_witness as [R1 [R2 [R3 [R4 [R5 [R6 [R7 [R8 [R9 [R10 _]]]]]]]]]].
  destruct C03_create_isolated_witness as [K1 [K2 [K3 [_ K5]]]].
  split; [repeat (split; [assumption|]); assumption|].
  split; [repeat (split; [assumption|]); assumption|].
  repeat (split; [assumption|]); assumption.
Qed.

(* ================================================================== *)
(* C04 - update mode                                                   *)
(* ================================================================== *)

(* ---------- deciders ---------- *)

Definition w04_coll_free_b (H : list bytes) (es : list entry) : bool :=
  forallb (fun h => w03_no_collision_b h es) H.
Lemma w04_coll_free_b_sound H es : w04_coll_free_b H es = true -> coll_free H es.
Proof. unfold w04_coll_free_b, coll_free. apply forallb_Forall. intros h. apply w03_no_collision_b_sound. Qed.

Definition w04_headers_ok_b (H : list bytes) : bool :=
  forallb (fun h => negb (beq h []) && negb (beq h endseq)) H.
Lemma w04_headers_ok_b_sound H : w04_headers_ok_b H = true -> headers_ok H.
Proof.
  unfold w04_headers_ok_b, headers_ok. apply forallb_Forall. intros h E.
  apply andb_true_iff in E as [E1 E2]. apply negb_true_iff in E1, E2.
  split; now apply beq_false_neq.
Qed.

Lemma w04_efs_ok_single H p es : Forall wf_entry es -> coll_free H es -> efs_ok H [(p, render es)].
Proof.
  intros Hw Hc q f Hl. unfold alookup in Hl. destruct (beq q p); [|discriminate].
  injection Hl as <-. exists es. split; [reflexivity|]. split; assumption.
Qed.

Definition w04_fact_ok_b (H : list bytes) (f : fact) : bool :=
  let '(p, id, a, text) := f in
  mem_bytes id H && wf_entry_b (id, snap_of a text) &&
  forallb (fun h => negb (mem_bytes h (split_nl (snap_of a text)))) H.
Lemma w04_fact_ok_b_sound H f : w04_fact_ok_b H f = true -> fact_ok H f.
Proof.
  destruct f as [[[p id] a] text]. unfold w04_fact_ok_b, fact_ok. intros E.
  apply andb_true_iff in E as [E E3]. apply andb_true_iff in E as [E1 E2].
  split; [now apply mem_bytes_true_in|]. split; [now apply wf_entry_b_sound|].
  revert E3. apply forallb_Forall. intros h Hh. apply negb_true_iff in Hh. now apply mem_bytes_false_notin.
Qed.
Lemma w04_facts_ok_b_sound H l : forallb (w04_fact_ok_b H) l = true -> Forall (fact_ok H) l.
Proof. apply forallb_Forall. apply w04_fact_ok_b_sound. Qed.

Definition w04_api_eqb (a b : api) : bool :=
  match a, b with
  | ASnap, ASnap | AJson, AJson | AYaml, AYaml | AStand, AStand | AStandJson, AStandJson => true
  | _, _ => false
  end.
Lemma w04_api_eqb_eq a b : w04_api_eqb a b = true -> a = b.
Proof. destruct a, b; try discriminate; reflexivity. Qed.

Definition w04_fact_agree_b (f g : fact) : bool :=
  let '(p, id, a, t) := f in
  let '(p', id', a', t') := g in
  if beq p p' && beq id id' then w04_api_eqb a a' && beq t t' else true.
Definition w04_consistent_b (l : list fact) : bool := forallb (fun f => forallb (w04_fact_agree_b f) l) l.
Lemma w04_consistent_b_sound l : w04_consistent_b l = true -> consistent l.
Proof.
  unfold w04_consistent_b, consistent. intros E p id a t a' t' H1 H2.
  rewrite forallb_forall in E. specialize (E _ H1). rewrite forallb_forall in E. specialize (E _ H2).
  unfold w04_fact_agree_b in E. rewrite !beq_refl in E. cbn [andb] in E.
  apply andb_true_iff in E as [Ea Et]. split; [now apply w04_api_eqb_eq|now apply beq_eq].
Qed.

Definition w04_rec_ok_upd_b (o : obs) : bool :=
  match o_outcome o with Passed | Added | Updated | NoCall => true | _ => false end.
Lemma w04_rec_ok_upd_b_sound o : w04_rec_ok_upd_b o = true -> rec_ok_upd o.
Proof. unfold w04_rec_ok_upd_b, rec_ok_upd. destruct (o_outcome o); try discriminate; auto. Qed.
Lemma w04_recs_ok_upd_b_sound l : forallb w04_rec_ok_upd_b l = true -> Forall rec_ok_upd l.
Proof. apply forallb_Forall. apply w04_rec_ok_upd_b_sound. Qed.

Definition w04_stand_op_ok_b (o : op) : bool :=
  match o with OMatch a _ _ _ => is_standalone a | OEndTest _ => true | ONewConfig _ _ _ _ => true | _ => false end.
Lemma w04_stand_op_ok_b_sound o : w04_stand_op_ok_b o = true -> stand_op_ok o.
Proof. destruct o; cbn [w04_stand_op_ok_b stand_op_ok]; try discriminate; auto. Qed.
Lemma w04_stand_ops_ok_b_sound l : forallb w04_stand_op_ok_b l = true -> Forall stand_op_ok l.
Proof. apply forallb_Forall. apply w04_stand_op_ok_b_sound. Qed.

Definition w04_sagree_b (f g : sfact) : bool := if beq (fst f) (fst g) then beq (snd f) (snd g) else true.
Definition w04_sconsistent_b (l : list sfact) : bool := forallb (fun f => forallb (w04_sagree_b f) l) l.
Lemma w04_sconsistent_b_sound l : w04_sconsistent_b l = true -> sconsistent l.
Proof.
  unfold w04_sconsistent_b, sconsistent. intros E p v v' H1 H2.
  rewrite forallb_forall in E. specialize (E _ H1). rewrite forallb_forall in E. specialize (E _ H2).
  unfold w04_sagree_b in E. cbn [fst snd] in E. rewrite beq_refl in E. now apply beq_eq.
Qed.

(* ---------- rewriting one entry of a file: C04_rewrite_exact, C04_converges ---------- *)

Section W04.
Local Open Scope string_scope.

(* three entries with multi-line bodies; two ordinals of one test; the rewritten entry is the middle one *)
Definition w04_tid1 : bytes := B "[TestA - 1]".
Definition w04_tid2 : bytes := B "[TestB - 1]".
Definition w04_tid3 : bytes := B "[TestB - 2]".
Definition w04_body1 : bytes := (B "a" ++ [nl] ++ [nl] ++ B "b")%list.
Definition w04_body2 : bytes := (B "long" ++ [nl] ++ B "body" ++ [nl] ++ B "three lines")%list.
Definition w04_body3 : bytes := (B "{" ++ [nl] ++ B " ""k"": 1" ++ [nl] ++ B "}")%list.
Definition w04_es : list entry := [(w04_tid1, w04_body1); (w04_tid2, w04_body2); (w04_tid3, w04_body3)].
(* the new body: fewer lines than the old one, the last line empty *)
Definition w04_snap : bytes := (B "short" ++ [nl])%list.
Definition w04_es' : list entry := [(w04_tid1, w04_body1); (w04_tid2, w04_snap); (w04_tid3, w04_body3)].
End W04.

Lemma C04_rewrite_exact_witness :
  Forall wf_entry w04_es /\ no_collision w04_tid2 w04_es /\ w04_tid2 <> [] /\ w04_tid2 <> endseq /\
  map (replace_entry w04_tid2 w04_snap) w04_es = w04_es' /\ w04_es' <> w04_es.
Proof.
  split; [apply wf_entries_b_sound; vm_compute; reflexivity|].
  split; [apply w03_no_collision_b_sound; vm_compute; reflexivity|].
  split; [vm_compute; discriminate|]. split; [vm_compute; discriminate|].
  split; [vm_compute; reflexivity|vm_compute; discriminate].
Qed.

Lemma C04_rewrite_exact_applied : update_entry w04_tid2 w04_snap (render w04_es) = render w04_es'.
Proof.
  destruct C04_rewrite_exact_witness as [H1 [H2 [H3 [H4 [H5 _]]]]].
  rewrite <- H5. exact (update_entry_render w04_tid2 w04_snap w04_es H1 H2 H3 H4).
Qed.

Lemma C04_converges_witness :
  Forall wf_entry w04_es /\ wf_entry (w04_tid2, w04_snap) /\ no_collision w04_tid2 w04_es /\
  ~ In w04_tid2 (split_nl w04_snap) /\ w04_tid2 <> [] /\ w04_tid2 <> endseq /\
  lookup_entry w04_tid2 w04_es <> None /\
  (* before the rewrite the slot replays the OLD value *)
  option_map fst (get_prev w04_tid2 (render w04_es)) = Some w04_body2 /\ w04_body2 <> w04_snap.
Proof.
  destruct C04_rewrite_exact_witness as [H1 [H2 [H3 [H4 _]]]].
  split; [exact H1|]. split; [apply wf_entry_b_sound; vm_compute; reflexivity|].
  split; [exact H2|]. split; [apply mem_bytes_false_notin; vm_compute; reflexivity|].
  split; [exact H3|]. split; [exact H4|]. split; [vm_compute; discriminate|].
  split; [vm_compute; reflexivity|vm_compute; discriminate].
Qed.

Lemma C04_converges_applied :
  option_map fst (get_prev w04_tid2 (update_entry w04_tid2 w04_snap (render w04_es))) = Some w04_snap.
Proof.
  destruct C04_converges_witness as [H1 [H2 [H3 [H4 [H5 [H6 [H7 _]]]]]]].
  exact (update_sets w04_tid2 w04_snap w04_es H1 H2 H3 H4 H5 H6 H7).
Qed.

(* ---------- C04_call_table / C04_standalone: single calls in update mode ---------- *)

Section W04b.
Local Open Scope string_scope.

Definition w04_env_upd : env := {| ci := false; upd := UTrue; colour := false |}.
Definition w04_env_ro : env := {| ci := false; upd := UUnset; colour := false |}.
Definition w04_tA : bytes := B "TestA".
Definition w04_tB : bytes := B "TestB".
Definition w04_snapfile : bytes := B "/S/x_test.snap".

(* old file: two entries; [TestA - 1] will be rewritten, [TestB - 1] passes, [TestB - 2] is appended *)
Definition w04_old1 : bytes := (B "old" ++ [nl] ++ B "value" ++ [nl] ++ B "of three lines")%list.
Definition w04_keep : bytes := (B "keep" ++ [nl] ++ B "me")%list.
Definition w04_es0 : list entry := [(w04_tid1, w04_old1); (w04_tid2, w04_keep)].
Definition w04_newA : bytes := (B "new" ++ [nl] ++ B "value")%list.
Definition w04_json : bytes := (B "{" ++ [nl] ++ B " ""k"": [1, 2]" ++ [nl] ++ B "}")%list.
(* a YAML value with a `---` line (stored escaped) and no final newline *)
Definition w04_yaml : bytes := (B "a: 1" ++ [nl] ++ B "---" ++ [nl] ++ B "b: 2")%list.

Definition w04_s0 : state :=
  fst (step (init_state w04_env_upd (B "/r/x_test.go") (B "/S")) (OPutFile w04_snapfile (render w04_es0))).
Definition w04_c0 : config := default_config (B "/S").

(* standalone: a pre-existing file TestA_1.snap *)
Definition w04_sold : bytes := [13; 0; 255; 10]%N.
Definition w04_snew : bytes := [255; 13; 10; 0]%N.
Definition w04_spath1 : bytes := B "/S/TestA_1.snap".
Definition w04_ss0 : state :=
  fst (step (init_state w04_env_upd (B "/r/x_test.go") (B "/S")) (OPutFile w04_spath1 w04_sold)).
Definition w04_ss0_ro : state :=
  fst (step (init_state w04_env_ro (B "/r/x_test.go") (B "/S")) (OPutFile w04_spath1 w04_sold)).
Definition w04_lineA : nat := 2.
End W04b.

(* the only hypothesis of C04_call_table is [is_standalone a = false]; the instance exercises the row
   "found, differs, updating enabled" of the table *)
Lemma C04_call_table_witness :
  is_standalone ASnap = false /\
  lookup_slot (s_fs w04_s0) (multi_path w04_s0 w04_c0 w04_tA) (multi_id w04_s0 w04_c0 w04_tA) = Some (w04_old1, w04_lineA) /\
  same ASnap w04_old1 w04_newA = false /\ should_update (s_env w04_s0) (c_update w04_c0) = true /\
  multi_path w04_s0 w04_c0 w04_tA = w04_snapfile /\ multi_id w04_s0 w04_c0 w04_tA = w04_tid1.
Proof.
  split; [reflexivity|]. split; [vm_compute; reflexivity|]. split; [vm_compute; reflexivity|].
  split; [vm_compute; reflexivity|]. split; vm_compute; reflexivity.
Qed.

Lemma C04_call_table_applied :
  exists s' o, multi_call w04_s0 ASnap w04_c0 w04_tA (POk w04_newA) = (s', o) /\
    o_path o = w04_snapfile /\ o_id o = w04_tid1 /\
    o_outcome o = Updated /\ o_writes o = [(WRewrite, w04_snapfile)] /\
    s_fs s' = aset w04_snapfile (update_entry w04_tid1 (snap_of ASnap w04_newA) (file_or_empty (s_fs w04_s0) w04_snapfile))
                   (s_fs w04_s0) /\
    o_errors o = 0 /\ o_logs o = [LUpdated].
Proof.
  destruct C04_call_table_witness as [H1 [H2 [H3 [H4 [H5 H6]]]]].
  destruct (multi_call_spec w04_s0 ASnap w04_c0 w04_tA w04_newA H1)
    as [s' [o [E [Hp [Hi [_ [_ [_ [_ [_ [Hm [_ [He Hl]]]]]]]]]]]]].
  rewrite H2, H3, H4 in Hm. destruct Hm as [Ho [Hw Hf]].
  rewrite H5 in Hp, Hw, Hf. rewrite H6 in Hi, Hf.
  exists s', o. split; [exact E|]. split; [exact Hp|]. split; [exact Hi|]. split; [exact Ho|].
  split; [exact Hw|]. split; [exact Hf|]. rewrite Ho in He, Hl. split; [exact He|exact Hl].
Qed.

(* C04_standalone: both disjuncts - update mode (file replaced wholesale), default mode (failure, nothing written) *)
Lemma C04_standalone_witness :
  (alookup (stand_path w04_ss0 w04_c0 w04_tA) (s_fs w04_ss0) = Some w04_sold /\ w04_sold <> w04_snew /\
   stand_call w04_ss0 AStand w04_c0 w04_tA (POk w04_snew) =
     (fst (stand_call w04_ss0 AStand w04_c0 w04_tA (POk w04_snew)),
      snd (stand_call w04_ss0 AStand w04_c0 w04_tA (POk w04_snew))) /\
   should_update (s_env w04_ss0) (c_update w04_c0) = true) /\
  (alookup (stand_path w04_ss0_ro w04_c0 w04_tA) (s_fs w04_ss0_ro) = Some w04_sold /\ w04_sold <> w04_snew /\
   stand_call w04_ss0_ro AStand w04_c0 w04_tA (POk w04_snew) =
     (fst (stand_call w04_ss0_ro AStand w04_c0 w04_tA (POk w04_snew)),
      snd (stand_call w04_ss0_ro AStand w04_c0 w04_tA (POk w04_snew))) /\
   should_update (s_env w04_ss0_ro) (c_update w04_c0) = false).
Proof.
  split.
  - split; [vm_compute; reflexivity|]. split; [vm_compute; discriminate|].
    split; [apply surjective_pairing|vm_compute; reflexivity].
  - split; [vm_compute; reflexivity|]. split; [vm_compute; discriminate|].
    split; [apply surjective_pairing|vm_compute; reflexivity].
Qed.

Lemma C04_standalone_applied :
  (let s' := fst (stand_call w04_ss0 AStand w04_c0 w04_tA (POk w04_snew)) in
   let o := snd (stand_call w04_ss0 AStand w04_c0 w04_tA (POk w04_snew)) in
   o_outcome o = Updated /\ o_errors o = 0 /\ o_logs o = [LUpdated] /\ alookup (o_path o) (s_fs s') = Some w04_snew) /\
  (let s' := fst (stand_call w04_ss0_ro AStand w04_c0 w04_tA (POk w04_snew)) in
   let o := snd (stand_call w04_ss0_ro AStand w04_c0 w04_tA (POk w04_snew)) in
   o_outcome o = Failed EDiff /\ o_errors o = 1 /\ o_writes o = [] /\ s_fs s' = s_fs w04_ss0_ro).
Proof.
  destruct C04_standalone_witness as [[A1 [A2 [A3 A4]]] [B1 [B2 [B3 B4]]]]. cbv zeta. split.
  - destruct (stand_mismatch w04_ss0 AStand w04_c0 w04_tA w04_snew w04_sold _ _ A1 A2 A3) as [[Hf _]|[_ H]].
    + rewrite A4 in Hf. discriminate Hf.
    + exact H.
  - destruct (stand_mismatch w04_ss0_ro AStand w04_c0 w04_tA w04_snew w04_sold _ _ B1 B2 B3) as [[_ H]|[Hf _]].
    + exact H.
    + rewrite B4 in Hf. discriminate Hf.
Qed.

(* ---------- C04_update_run_converges ---------- *)

Section W04c.
Local Open Scope string_scope.

(* two tests interleaved, six calls, one through a Config created by WithConfig; the pre-existing file has two
   entries: [TestA - 1] is REWRITTEN, [TestB - 1] passes, [TestB - 2] is APPENDED, other.snap is CREATED, and the
   second execution of TestA addresses the rewritten slot [TestA - 1] again (same value: consistent) *)
Definition w04_h : list op :=
  [ONewConfig (Some (B "other")) None None None;
   OMatch ASnap 0 w04_tA (POk w04_newA);
   OMatch ASnap 0 w04_tB (POk w04_keep);
   OMatch AJson 0 w04_tB (POk w04_json);
   OMatch AYaml 1 w04_tA (POk w04_yaml);
   OEndTest w04_tA;
   OMatch ASnap 0 w04_tA (POk w04_newA)].
Definition w04_H : list bytes := [w04_tid1; w04_tid2; w04_tid3].
Definition w04_outcomes : list outcome := [NoCall; Updated; Passed; Added; Added; NoCall; Passed].
Definition w04_otherfile : bytes := B "/S/other.snap".
Definition w04_writes : list (list (wkind * bytes)) :=
  [[]; [(WRewrite, w04_snapfile)]; []; [(WAppend, w04_snapfile)]; [(WCreate, w04_otherfile)]; []; []].
Definition w04_ids : list bytes := [[]; w04_tid1; w04_tid2; w04_tid3; w04_tid1; []; w04_tid1].
End W04c.

Lemma w04_s0_fs : s_fs w04_s0 = [(w04_snapfile, render w04_es0)].
Proof. vm_compute. reflexivity. Qed.

Lemma C04_update_run_converges_witness :
  fresh w04_s0 /\ headers_ok w04_H /\ efs_ok w04_H (s_fs w04_s0) /\
  Forall hist_op_ok w04_h /\ Forall has_value w04_h /\
  Forall rec_ok_upd (snd (run w04_s0 w04_h)) /\
  Forall (fact_ok w04_H) (facts w04_s0 w04_h) /\ consistent (facts w04_s0 w04_h) /\
  (* what the update run did *)
  map o_outcome (snd (run w04_s0 w04_h)) = w04_outcomes /\
  map o_writes (snd (run w04_s0 w04_h)) = w04_writes /\
  map o_id (snd (run w04_s0 w04_h)) = w04_ids.
Proof.
  split; [vm_compute; repeat split|].
  split; [apply w04_headers_ok_b_sound; vm_compute; reflexivity|].
  split.
  { rewrite w04_s0_fs. apply w04_efs_ok_single.
    - apply wf_entries_b_sound. vm_compute. reflexivity.
    - apply w04_coll_free_b_sound. vm_compute. reflexivity. }
  split; [apply hist_ok_b_sound; vm_compute; reflexivity|].
  split; [apply has_values_b_sound; vm_compute; reflexivity|].
  split; [apply w04_recs_ok_upd_b_sound; vm_compute; reflexivity|].
  split; [apply w04_facts_ok_b_sound; vm_compute; reflexivity|].
  split; [apply w04_consistent_b_sound; vm_compute; reflexivity|].
  split; [vm_compute; reflexivity|]. split; vm_compute; reflexivity.
Qed.

Lemma C04_update_run_converges_applied : forall e2,
  Forall silent_pass (snd (run (replay_start (fst (run w04_s0 w04_h)) e2) w04_h)) /\
  s_fs (fst (run (replay_start (fst (run w04_s0 w04_h)) e2) w04_h)) = s_fs (fst (run w04_s0 w04_h)).
Proof.
  intros e2. destruct C04_update_run_converges_witness as [H1 [H2 [H3 [H4 [H5 [H6 [H7 [H8 _]]]]]]]].
  exact (replay_after_update w04_H w04_s0 w04_h e2 H1 H2 H3 H4 H5 H6 H7 H8).
Qed.

(* the second update run, computed: no outcome other than passed, no write *)
Lemma C04_update_run_converges_computed :
  map o_outcome (snd (run (replay_start (fst (run w04_s0 w04_h)) w04_env_upd) w04_h)) =
    [NoCall; Passed; Passed; Passed; Passed; NoCall; Passed] /\
  map o_writes (snd (run (replay_start (fst (run w04_s0 w04_h)) w04_env_upd) w04_h)) = [[]; []; []; []; []; []; []].
Proof. split; vm_compute; reflexivity. Qed.

(* ---------- C04_standalone_update_run_converges ---------- *)

Section W04d.
Local Open Scope string_scope.

(* TestA_1.snap pre-exists with other bytes and is REPLACED; TestA_2.snap, shared_1.snap, TestB_1.snap.json are
   created; after the end of TestA its next execution addresses TestA_1.snap again with the same bytes *)
Definition w04_sh : list op :=
  [ONewConfig (Some (B "shared")) None None None;
   OMatch AStand 0 w04_tA (POk w04_snew);
   OMatch AStand 0 w04_tA (POk []);
   OMatch AStand 1 w04_tB (POk w04_sold);
   OMatch AStandJson 0 w04_tB (POk (B "{}"));
   OEndTest w04_tA;
   OMatch AStand 0 w04_tA (POk w04_snew)].
Definition w04_soutcomes : list outcome := [NoCall; Updated; Added; Added; Added; NoCall; Passed].
Definition w04_spaths : list bytes :=
  [[]; w04_spath1; B "/S/TestA_2.snap"; B "/S/shared_1.snap"; B "/S/TestB_1.snap.json"; []; w04_spath1].
End W04d.

Lemma C04_standalone_update_run_converges_witness :
  fresh w04_ss0 /\ Forall stand_op_ok w04_sh /\ Forall has_value w04_sh /\
  Forall rec_ok_upd (snd (run w04_ss0 w04_sh)) /\ sconsistent (sfacts w04_ss0 w04_sh) /\
  map o_outcome (snd (run w04_ss0 w04_sh)) = w04_soutcomes /\
  map o_path (snd (run w04_ss0 w04_sh)) = w04_spaths.
Proof.
  split; [vm_compute; repeat split|].
  split; [apply w04_stand_ops_ok_b_sound; vm_compute; reflexivity|].
  split; [apply has_values_b_sound; vm_compute; reflexivity|].
  split; [apply w04_recs_ok_upd_b_sound; vm_compute; reflexivity|].
  split; [apply w04_sconsistent_b_sound; vm_compute; reflexivity|].
  split; vm_compute; reflexivity.
Qed.

Lemma C04_standalone_update_run_converges_applied : forall e2,
  Forall silent_pass (snd (run (replay_start (fst (run w04_ss0 w04_sh)) e2) w04_sh)) /\
  s_fs (fst (run (replay_start (fst (run w04_ss0 w04_sh)) e2) w04_sh)) = s_fs (fst (run w04_ss0 w04_sh)).
Proof.
  intros e2. destruct C04_standalone_update_run_converges_witness as [H1 [H2 [H3 [H4 [H5 _]]]]].
  exact (standalone_replay_after_update w04_ss0 w04_sh e2 H1 H2 H3 H4 H5).
Qed.

(* representative statement over named constants only *)
Lemma C04_witnesses_all :
  (fresh w04_s0 /\ headers_ok w04_H /\ efs_ok w04_H (s_fs w04_s0) /\
   Forall hist_op_ok w04_h /\ Forall has_value w04_h /\ Forall rec_ok_upd (snd (run w04_s0 w04_h)) /\
   Forall (fact_ok w04_H) (facts w04_s0 w04_h) /\ consistent (facts w04_s0 w04_h) /\
   map o_outcome (snd (run w04_s0 w04_h)) = w04_outcomes) /\
  (fresh w04_ss0 /\ Forall stand_op_ok w04_sh /\ Forall has_value w04_sh /\
   Forall rec_ok_upd (snd (run w04_ss0 w04_sh)) /\ sconsistent (sfacts w04_ss0 w04_sh) /\
   map o_outcome (snd (run w04_ss0 w04_sh)) = w04_soutcomes) /\
  (Forall wf_entry w04_es /\ wf_entry (w04_tid2, w04_snap) /\ no_collision w04_tid2 w04_es /\
   ~ In w04_tid2 (split_nl w04_snap) /\ w04_tid2 <> [] /\ w04_tid2 <> endseq /\
   lookup_entry w04_tid2 w04_es <> None).
Proof.
  destruct C04_update_run_converges_witness as [H1 [H2 [H3 [H4 [H5 [H6 [H7 [H8 [H9 _]]]]]]]]].
  destruct C04_standalone_update_run_converges_witness as [S1 [S2 [S3 [S4 [S5 [S6 _]]]]]].
  destruct C04_converges_witness as [K1 [K2 [K3 [K4 [K5 [K6 [K7 _]]]]]]].
  split; [repeat (split; [assumption|]); assumption|].
  split; [repeat (split; [assumption|]); assumption|].
  repeat (split; [assumption|]); assumption.
Qed.

(* ================================================================== *)
(* C05 - write permissions                                             *)
(* ================================================================== *)

Definition w05_api_op_b (o : op) : bool :=
  match o with
  | OMatch _ _ _ _ | OEndTest _ | OSkip _ | ONewConfig _ _ _ _ | ONewProcess => true
  | _ => false
  end.
Lemma w05_api_op_b_sound o : w05_api_op_b o = true -> api_op o.
Proof. destruct o; cbn [w05_api_op_b api_op]; try discriminate; intros _; exact I. Qed.
Lemma w05_api_ops_b_sound l : forallb w05_api_op_b l = true -> Forall api_op l.
Proof. apply forallb_Forall. apply w05_api_op_b_sound. Qed.

Section W05.
Local Open Scope string_scope.

Definition w05_env : env := {| ci := false; upd := UUnset; colour := false |}.
Definition w05_env_ci : env := {| ci := true; upd := UTrue; colour := false |}.
Definition w05_tA : bytes := B "TestA".
Definition w05_tB : bytes := B "TestB".
Definition w05_snapfile : bytes := B "/S/x_test.snap".
Definition w05_es0 : list entry :=
  [(B "[TestA - 1]", (B "old" ++ [nl] ++ B "value")%list); (B "[TestB - 1]", B "keep")].

(* a process in the default mode with: the default Config, a Config with Update(true) (handle 1), a Config with
   Update(false) (handle 2); a two-entry snapshot file; one call of TestB already made *)
Definition w05_s : state :=
  fst (run (init_state w05_env (B "/r/x_test.go") (B "/S"))
           [OPutFile w05_snapfile (render w05_es0);
            ONewConfig None None None (Some true);
            ONewConfig (Some (B "ro")) None None (Some false);
            OMatch ASnap 0 w05_tB (POk (B "keep"))]).
Definition w05_c0 : config := default_config (B "/S").
Definition w05_c1 : config := {| c_filename := []; c_dir := B "/S"; c_ext := []; c_update := Some true |}.
Definition w05_c2 : config := {| c_filename := B "ro"; c_dir := B "/S"; c_ext := []; c_update := Some false |}.

(* (1) differs, default Config, UPDATE_SNAPS unset: fails, writes nothing *)
Definition w05_op1 : op := OMatch ASnap 0 w05_tA (POk (B "new")).
(* (2) differs, Config with Update(true): rewrites *)
Definition w05_op2 : op := OMatch ASnap 1 w05_tA (POk (B "new")).
(* (3) MatchStandaloneJSON, new file, default Config (the effective Config is json_ext c): creates *)
Definition w05_op3 : op := OMatch AStandJson 0 w05_tA (POk (B "{}")).
(* (4) new entry through the Config with Update(false): not created, fails *)
Definition w05_op4 : op := OMatch AYaml 2 w05_tA (POk (B "a: 1")).
(* (5) new entry of an existing file, default Config: appended *)
Definition w05_op5 : op := OMatch AJson 0 w05_tB (POk (B "{}")).

(* the CI process: same files and Configs, CI=true (and UPDATE_SNAPS=true, which must not matter) *)
Definition w05_s_ci : state :=
  fst (run (init_state w05_env_ci (B "/r/x_test.go") (B "/S"))
           [OPutFile w05_snapfile (render w05_es0);
            ONewConfig None None None (Some true)]).
Definition w05_ops : list op :=
  [OMatch ASnap 0 w05_tA (POk (B "new"));          (* differs: fails, not rewritten *)
   OMatch ASnap 1 w05_tB (POk (B "changed"));      (* differs, Update(true) Config: still not rewritten *)
   OEndTest w05_tB;
   OMatch ASnap 0 w05_tB (POk (B "keep"));         (* next execution of TestB: passes *)
   OMatch AJson 1 w05_tB (POk (B "{}"));           (* new entry: not created *)
   ONewConfig (Some (B "other")) None None (Some true);
   OMatch AYaml 2 w05_tA (POk (B "a: 1"));         (* new file: not created *)
   OMatch AStand 0 w05_tA (POk (B "bytes"));       (* new standalone file: not created *)
   OMatch AStandJson 2 w05_tB PInvalid;
   OSkip (B "TestC");
   OEndTest w05_tA;
   ONewProcess;
   OMatch ASnap 0 w05_tA (POk (B "new"))].
Definition w05_ci_outcomes : list outcome :=
  [Failed EDiff; Failed EDiff; NoCall; Passed; Failed ENotFound; NoCall; Failed ENotFound; Failed ENotFound;
   Failed EInvalid; SkipLogged; NoCall; NoCall; Failed EDiff].
End W05.

Lemma w05_step_eq s o : step s o = (fst (step s o), snd (step s o)).
Proof. apply surjective_pairing. Qed.

(* five instances: each of the three disjuncts of the conclusion is reached, the second one twice (create through
   json_ext c; append) and the first one twice (update refused by the mode; create refused by the Config) *)
Lemma C05_write_permission_witness :
  (nth_error (s_cfgs w05_s) 0 = Some w05_c0 /\ step w05_s w05_op1 = (fst (step w05_s w05_op1), snd (step w05_s w05_op1)) /\
   o_outcome (snd (step w05_s w05_op1)) = Failed EDiff) /\
  (nth_error (s_cfgs w05_s) 1 = Some w05_c1 /\ step w05_s w05_op2 = (fst (step w05_s w05_op2), snd (step w05_s w05_op2)) /\
   o_outcome (snd (step w05_s w05_op2)) = Updated) /\
  (nth_error (s_cfgs w05_s) 0 = Some w05_c0 /\ step w05_s w05_op3 = (fst (step w05_s w05_op3), snd (step w05_s w05_op3)) /\
   o_outcome (snd (step w05_s w05_op3)) = Added /\ json_ext w05_c0 <> w05_c0) /\
  (nth_error (s_cfgs w05_s) 2 = Some w05_c2 /\ step w05_s w05_op4 = (fst (step w05_s w05_op4), snd (step w05_s w05_op4)) /\
   o_outcome (snd (step w05_s w05_op4)) = Failed ENotFound) /\
  (nth_error (s_cfgs w05_s) 0 = Some w05_c0 /\ step w05_s w05_op5 = (fst (step w05_s w05_op5), snd (step w05_s w05_op5)) /\
   o_outcome (snd (step w05_s w05_op5)) = Added).
Proof.
  split; [split; [vm_compute; reflexivity|split; [apply w05_step_eq|vm_compute; reflexivity]]|].
  split; [split; [vm_compute; reflexivity|split; [apply w05_step_eq|vm_compute; reflexivity]]|].
  split; [split; [vm_compute; reflexivity|split; [apply w05_step_eq|split; [vm_compute; reflexivity|vm_compute; discriminate]]]|].
  split; [split; [vm_compute; reflexivity|split; [apply w05_step_eq|vm_compute; reflexivity]]|].
  split; [vm_compute; reflexivity|split; [apply w05_step_eq|vm_compute; reflexivity]].
Qed.

Lemma C05_write_permission_applied :
  (* (1) refused update: nothing written *)
  (o_writes (snd (step w05_s w05_op1)) = [] /\ s_fs (fst (step w05_s w05_op1)) = s_fs w05_s) /\
  (* (2) rewrite, allowed by the Config's Update(true) *)
  (should_update (s_env w05_s) (c_update w05_c1) = true /\
   o_writes (snd (step w05_s w05_op2)) = [(WRewrite, o_path (snd (step w05_s w05_op2)))]) /\
  (* (3) creation, allowed for the effective Config json_ext c *)
  (should_create (s_env w05_s) (c_update (json_ext w05_c0)) = true /\
   exists k, o_writes (snd (step w05_s w05_op3)) = [(k, o_path (snd (step w05_s w05_op3)))] /\ k <> WRewrite /\ k <> WRemove) /\
  (* (4) refused creation: nothing written *)
  (o_writes (snd (step w05_s w05_op4)) = [] /\ s_fs (fst (step w05_s w05_op4)) = s_fs w05_s) /\
  (* (5) append *)
  (should_create (s_env w05_s) (c_update w05_c0) = true /\
   exists k, o_writes (snd (step w05_s w05_op5)) = [(k, o_path (snd (step w05_s w05_op5)))] /\ k <> WRewrite /\ k <> WRemove).
Proof.
  destruct C05_write_permission_witness
    as [[A1 [A2 A3]] [[B1 [B2 B3]] [[C1 [C2 [C3 _]]] [[D1 [D2 D3]] [E1 [E2 E3]]]]]].
  split.
  { destruct (step_write_permission w05_s ASnap 0 w05_tA _ _ _ w05_c0 A1 A2) as [[H1 [H2 _]]|[[H _]|[H _]]].
    - split; assumption.
    - rewrite A3 in H. discriminate H.
    - rewrite A3 in H. discriminate H. }
  split.
  { destruct (step_write_permission w05_s ASnap 1 w05_tA _ _ _ w05_c1 B1 B2) as [[_ [_ [_ H]]]|[[H _]|[_ H]]].
    - contradiction (H B3).
    - rewrite B3 in H. discriminate H.
    - exact H. }
  split.
  { destruct (step_write_permission w05_s AStandJson 0 w05_tA _ _ _ w05_c0 C1 C2) as [[_ [_ [H _]]]|[[_ H]|[H _]]].
    - contradiction (H C3).
    - exact H.
    - rewrite C3 in H. discriminate H. }
  split.
  { destruct (step_write_permission w05_s AYaml 2 w05_tA _ _ _ w05_c2 D1 D2) as [[H1 [H2 _]]|[[H _]|[H _]]].
    - split; assumption.
    - rewrite D3 in H. discriminate H.
    - rewrite D3 in H. discriminate H. }
  destruct (step_write_permission w05_s AJson 0 w05_tB _ _ _ w05_c0 E1 E2) as [[_ [_ [H _]]]|[[_ H]|[H _]]].
  - contradiction (H E3).
  - exact H.
  - rewrite E3 in H. discriminate H.
Qed.

Lemma C05_ci_readonly_witness :
  Forall api_op w05_ops /\ ci (s_env w05_s_ci) = true /\
  map o_outcome (snd (run w05_s_ci w05_ops)) = w05_ci_outcomes /\ s_fs w05_s_ci <> [].
Proof.
  split; [apply w05_api_ops_b_sound; vm_compute; reflexivity|].
  split; [vm_compute; reflexivity|]. split; [vm_compute; reflexivity|vm_compute; discriminate].
Qed.

Lemma C05_ci_readonly_applied :
  Forall (fun o => o_writes o = []) (snd (run w05_s_ci w05_ops)) /\ s_fs (fst (run w05_s_ci w05_ops)) = s_fs w05_s_ci.
Proof.
  destruct C05_ci_readonly_witness as [H1 [H2 _]]. exact (run_ci_readonly w05_ops w05_s_ci H1 H2).
Qed.

(* representative statement over named constants only *)
Lemma C05_witnesses_all :
  (Forall api_op w05_ops /\ ci (s_env w05_s_ci) = true /\
   map o_outcome (snd (run w05_s_ci w05_ops)) = w05_ci_outcomes) /\
  (nth_error (s_cfgs w05_s) 1 = Some w05_c1 /\
   step w05_s w05_op2 = (fst (step w05_s w05_op2), snd (step w05_s w05_op2)) /\
   o_outcome (snd (step w05_s w05_op2)) = Updated) /\
  (nth_error (s_cfgs w05_s) 0 = Some w05_c0 /\
   step w05_s w05_op3 = (fst (step w05_s w05_op3), snd (step w05_s w05_op3)) /\
   o_outcome (snd (step w05_s w05_op3)) = Added).
Proof.
  destruct C05_ci_readonly_witness as [H1 [H2 [H3 _]]].
  destruct C05_write_permission_witness as [_ [[B1 [B2 B3]] [[C1 [C2 [C3 _]]] _]]].
  split; [split; [exact H1|split; [exact H2|exact H3]]|].
  split; [split; [exact B1|split; [exact B2|exact B3]]|].
  split; [exact C1|split; [exact C2|exact C3]].
Qed.

(* ================================================================== *)
(* C12 - Configs                                                       *)
(* ================================================================== *)

Section W12.
Local Open Scope string_scope.

Definition w12_env : env := {| ci := false; upd := UUnset; colour := false |}.
Definition w12_tA : bytes := B "TestA".
Definition w12_tB : bytes := B "TestB/sub case".

(* three Configs: the defaults, WithConfig(Filename, Dir (relative), Ext), WithConfig(Update(true)) *)
Definition w12_s0 : state :=
  fst (run (init_state w12_env (B "/r/pkg/x_test.go") (B "__snapshots__"))
           [ONewConfig (Some (B "custom")) (Some (B "snaps/sub")) (Some (B ".txt")) None;
            ONewConfig None None None (Some true)]).
Definition w12_c1 : config :=
  {| c_filename := B "custom"; c_dir := B "snaps/sub"; c_ext := B ".txt"; c_update := None |}.
Definition w12_c2 : config :=
  {| c_filename := []; c_dir := B "__snapshots__"; c_ext := []; c_update := Some true |}.
Definition w12_cfgs : list config := [default_config (B "__snapshots__"); w12_c1; w12_c2].

(* a history of calls through all three Configs: all five entry points, failing payloads, Skip, end of test *)
Definition w12_ops : list op :=
  [OMatch ASnap 0 w12_tA (POk (B "v1"));
   OMatch AJson 1 w12_tA (POk (B "{}"));
   OMatch AStand 1 w12_tB (POk (B "bytes"));
   OMatch AStandJson 1 w12_tA (POk (B "[]"));
   OMatch AYaml 2 w12_tB (POk (B "a: 1"));
   OMatch ASnap 2 w12_tA PInvalid;
   OSkip (B "TestC");
   OMatch AStand 1 w12_tA (POk (B "more"));
   OEndTest w12_tA;
   OMatch ASnap 1 w12_tA PNoValues;
   OMatch ASnap 2 w12_tA (POk (B "v2"));
   OMatch AStand 1 w12_tB (POk (B "bytes"));
   OMatch AStandJson 1 w12_tA (POk (B "[]"))].
Definition w12_s1 : state := fst (run w12_s0 w12_ops).
Definition w12_outcomes : list outcome :=
  [Added; Added; Added; Added; Added; Failed EInvalid; SkipLogged; Added; NoCall; Warned; Updated; Passed; Passed].

Definition w12_path_multi : bytes := B "/r/pkg/snaps/sub/custom.snap.txt".
Definition w12_path_stand : bytes := B "/r/pkg/snaps/sub/custom_3.snap.txt".
Definition w12_p : pre := POk (B "z").
Definition w12_h : nat := 1.
End W12.

Lemma C12_immutable_witness :
  Forall call_op w12_ops /\ s_cfgs w12_s0 = w12_cfgs /\
  (* the history did something: outcomes, files written *)
  map o_outcome (snd (run w12_s0 w12_ops)) = w12_outcomes /\ s_fs w12_s1 <> s_fs w12_s0.
Proof.
  split; [apply w03_call_ops_b_sound; vm_compute; reflexivity|].
  split; [vm_compute; reflexivity|]. split; [vm_compute; reflexivity|vm_compute; discriminate].
Qed.

Lemma C12_immutable_applied : s_cfgs (fst (run w12_s0 w12_ops)) = w12_cfgs.
Proof.
  destruct C12_immutable_witness as [H1 [H2 _]]. rewrite <- H2. exact (run_cfgs w12_ops w12_s0 H1).
Qed.

(* a multi-entry call through Config 1 AFTER the history (registries, files and counters are not the initial ones);
   one passing payload and one failing payload *)
Lemma C12_location_multi_witness :
  (is_standalone AYaml = false /\ ~ (AYaml = ASnap /\ w12_p = PNoValues) /\
   multi_call w12_s1 AYaml w12_c1 w12_tB w12_p =
     (fst (multi_call w12_s1 AYaml w12_c1 w12_tB w12_p), snd (multi_call w12_s1 AYaml w12_c1 w12_tB w12_p))) /\
  (is_standalone ASnap = false /\ ~ (ASnap = ASnap /\ PMatchErr = PNoValues) /\
   multi_call w12_s1 ASnap w12_c1 w12_tB PMatchErr =
     (fst (multi_call w12_s1 ASnap w12_c1 w12_tB PMatchErr), snd (multi_call w12_s1 ASnap w12_c1 w12_tB PMatchErr))) /\
  nth_error (s_cfgs w12_s1) w12_h = Some w12_c1 /\
  snapshot_path w12_c1 (s_caller w12_s1) w12_tB false = w12_path_multi /\
  s_running w12_s1 <> [] /\ s_events w12_s1 <> s_events w12_s0.
Proof.
  split; [split; [reflexivity|split; [intros [H _]; discriminate H|apply surjective_pairing]]|].
  split; [split; [reflexivity|split; [intros [_ H]; discriminate H|apply surjective_pairing]]|].
  split; [vm_compute; reflexivity|]. split; [vm_compute; reflexivity|].
  split; vm_compute; discriminate.
Qed.

Lemma C12_location_multi_applied :
  o_path (snd (multi_call w12_s1 AYaml w12_c1 w12_tB w12_p)) = w12_path_multi /\
  o_path (snd (multi_call w12_s1 ASnap w12_c1 w12_tB PMatchErr)) = w12_path_multi.
Proof.
  destruct C12_location_multi_witness as [[A1 [A2 A3]] [[B1 [B2 B3]] [_ [Hp _]]]].
  rewrite <- Hp. split.
  - exact (multi_call_path w12_s1 AYaml w12_c1 w12_tB w12_p _ _ A1 A2 A3).
  - exact (multi_call_path w12_s1 ASnap w12_c1 w12_tB PMatchErr _ _ B1 B2 B3).
Qed.

(* a standalone call through Config 1 after the history: since the end of TestA restarted the shared registry slot,
   two standalone calls already went through the generic path custom_%d.snap.txt (by two different tests, one of
   them MatchStandaloneJSON - the Config has an extension, so json_ext keeps it), so this one is number 3 *)
Lemma C12_location_standalone_witness :
  stand_call w12_s1 AStand w12_c1 w12_tB w12_p =
    (fst (stand_call w12_s1 AStand w12_c1 w12_tB w12_p), snd (stand_call w12_s1 AStand w12_c1 w12_tB w12_p)) /\
  get1 (s_srunning w12_s1) (snapshot_path w12_c1 (s_caller w12_s1) w12_tB true) = 2 /\
  subst_d (snapshot_path w12_c1 (s_caller w12_s1) w12_tB true)
          (Dec.dec (S (get1 (s_srunning w12_s1) (snapshot_path w12_c1 (s_caller w12_s1) w12_tB true)))) = w12_path_stand.
Proof.
  split; [apply surjective_pairing|]. split; vm_compute; reflexivity.
Qed.

Lemma C12_location_standalone_applied :
  o_path (snd (stand_call w12_s1 AStand w12_c1 w12_tB w12_p)) = w12_path_stand.
Proof.
  destruct C12_location_standalone_witness as [H1 [_ H3]]. rewrite <- H3.
  exact (stand_call_path_full w12_s1 AStand w12_c1 w12_tB w12_p _ _ H1).
Qed.

(* a fourth Config is created in the state reached by the history; handle 1 (and 0, 2) stay what they were *)
Lemma C12_with_config_independent_witness :
  w12_h < List.length (s_cfgs w12_s1) /\ List.length (s_cfgs w12_s1) = 3 /\
  nth_error (s_cfgs w12_s1) w12_h = Some w12_c1 /\
  List.length (s_cfgs (fst (step w12_s1 (ONewConfig (Some w12_tA) None (Some w12_tB) (Some false))))) = 4.
Proof.
  assert (E : List.length (s_cfgs w12_s1) = 3) by (vm_compute; reflexivity).
  split; [rewrite E; unfold w12_h; lia|]. split; [exact E|]. split; vm_compute; reflexivity.
Qed.

Lemma C12_with_config_independent_applied :
  nth_error (s_cfgs (fst (step w12_s1 (ONewConfig (Some w12_tA) None (Some w12_tB) (Some false))))) w12_h = Some w12_c1.
Proof.
  destruct C12_with_config_independent_witness as [H1 [_ [H3 _]]]. rewrite <- H3.
  exact (new_config_keeps w12_s1 (Some w12_tA) None (Some w12_tB) (Some false) w12_h H1).
Qed.

(* representative statement over named constants only *)
Lemma C12_witnesses_all :
  (Forall call_op w12_ops /\ s_cfgs w12_s0 = w12_cfgs /\ map o_outcome (snd (run w12_s0 w12_ops)) = w12_outcomes) /\
  (is_standalone AYaml = false /\ ~ (AYaml = ASnap /\ w12_p = PNoValues) /\
   multi_call w12_s1 AYaml w12_c1 w12_tB w12_p =
     (fst (multi_call w12_s1 AYaml w12_c1 w12_tB w12_p), snd (multi_call w12_s1 AYaml w12_c1 w12_tB w12_p)) /\
   snapshot_path w12_c1 (s_caller w12_s1) w12_tB false = w12_path_multi) /\
  (stand_call w12_s1 AStand w12_c1 w12_tB w12_p =
     (fst (stand_call w12_s1 AStand w12_c1 w12_tB w12_p), snd (stand_call w12_s1 AStand w12_c1 w12_tB w12_p)) /\
   subst_d (snapshot_path w12_c1 (s_caller w12_s1) w12_tB true)
           (Dec.dec (S (get1 (s_srunning w12_s1) (snapshot_path w12_c1 (s_caller w12_s1) w12_tB true)))) = w12_path_stand) /\
  nth_error (s_cfgs w12_s1) w12_h = Some w12_c1.
Proof.
  destruct C12_immutable_witness as [I1 [I2 [I3 _]]].
  destruct C12_location_multi_witness as [[A1 [A2 A3]] [_ [Hn [Hp _]]]].
  destruct C12_location_standalone_witness as [S1 [_ S3]].
  split; [split; [exact I1|split; [exact I2|exact I3]]|].
  split; [split; [exact A1|split; [exact A2|split; [exact A3|exact Hp]]]|].
  split; [split; [exact S1|exact S3]|exact Hn].
Qed.

(* ================================================================== *)


(* ==================================================================================================== *)
(* fragment G3 *)
(* ==================================================================================================== *)
From Coq Require Import String.
From Coq Require Import List NArith Arith Bool Lia Permutation.
Import ListNotations.
From Snaps Require Import Base.Bytes Base.Lines Base.Dec Base.Assoc.
From Snaps Require Import Model.Frame Model.PathModel Model.Mode Model.Api Model.Natural Model.Clean Model.RunFilter.
From Snaps Require Import Proofs.BytesP Proofs.FrameP Proofs.ApiP Proofs.CleanP Proofs.CleanEntriesP Proofs.TestIdP
  Proofs.RunFilterP Proofs.CleanFilesP Proofs.CleanRunP.
Local Open Scope list_scope.

Section W07defs.
Local Open Scope string_scope.

Definition w07_snap : bytes := B "/p/__snapshots__/a_test.snap".
Definition w07_other : bytes := B "/p/__snapshots__/other.snap".
Definition w07_tA : bytes := B "TestA".
Definition w07_tB : bytes := B "TestB/sub".
Definition w07_tSkip : bytes := B "TestSkip".
Definition w07_tSkipSub : bytes := B "TestSkip/sub".

Definition w07_b : centry := (B "TestB/sub - 1", B "b").
Definition w07_a2 : centry := (B "TestA - 2", (B "second" ++ [nl] ++ B "line")%list).
Definition w07_stale : centry := (B "TestOld - 1", B "old").
Definition w07_prot : centry := (B "TestSkip/sub - 1", B "s").
Definition w07_a10 : centry := (B "TestA - 10", B "left over ordinal").
Definition w07_a1 : centry := (B "TestA - 1", B "first").
Definition w07_es : list centry := [w07_b; w07_a2; w07_stale; w07_prot; w07_a10; w07_a1].

Definition w07_o1 : centry := (B "TestA - 1", B "c").
Definition w07_oz : centry := (B "TestZ - 1", B "left over").
Definition w07_es_other : list centry := [w07_o1; w07_oz].

Definition w07_reg : list bytes := [B "TestA - 1"; B "TestA - 2"; B "TestB/sub - 1"].
Definition w07_skp : list bytes := [w07_tSkip].

Definition w07_env (c : bool) (u : updvar) : env := {| ci := c; upd := u; colour := false |}.

Definition w07_exec : list op :=
  [OMatch ASnap 0 w07_tA (POk (B "first"));
   OMatch ASnap 0 w07_tA (POk (B "second" ++ [nl] ++ B "line")%list);
   OMatch ASnap 1 w07_tA (POk (B "c"));
   OEndTest w07_tA;
   OMatch ASnap 0 w07_tB (POk (B "b"));
   OEndTest w07_tB;
   OSkip w07_tSkip].

Definition w07_ops : list op :=
  ([OPutFile w07_snap (render (map to_entry w07_es));
    OPutFile w07_other (render (map to_entry w07_es_other));
    ONewConfig (Some (B "other")) None None None] ++ w07_exec ++ w07_exec)%list.

Definition w07_st (c : bool) (u : updvar) : state :=
  fst (run (init_state (w07_env c u) (B "/p/a_test.go") (B "__snapshots__")) w07_ops).
End W07defs.


(* ================================================================== *)
(* deciders                                                            *)
(* ================================================================== *)

Definition w07_centry_ok_b (e : centry) : bool :=
  match get_test_id (hdr (fst e)) with Some x => beq x (fst e) | None => false end && wf_entry_b (to_entry e).
Lemma w07_centry_ok_b_sound e : w07_centry_ok_b e = true -> centry_ok e.
Proof.
  unfold w07_centry_ok_b, centry_ok, recognised. intros H. apply andb_true_iff in H as [H1 H2].
  split; [|now apply wf_entry_b_sound].
  destruct (get_test_id (hdr (fst e))) as [x|]; [|discriminate]. apply beq_eq in H1. now subst x.
Qed.
Lemma w07_centries_ok_b_sound es : forallb w07_centry_ok_b es = true -> Forall centry_ok es.
Proof. apply forallb_Forall. apply w07_centry_ok_b_sound. Qed.

Definition w07_no_space_b (l : bytes) : bool := negb (existsb (N.eqb 32%N) l).
Lemma w07_no_space_b_sound l : w07_no_space_b l = true -> no_space l.
Proof.
  unfold w07_no_space_b, no_space. intros H Hin. apply negb_true_iff in H.
  assert (existsb (N.eqb 32%N) l = true); [|congruence].
  apply existsb_exists. exists 32%N. split; [assumption|apply N.eqb_refl].
Qed.

(* the results of the rewrite of the file, per mode (natural order: "TestA - 10" after "TestA - 2") *)
Definition w07_out_del_sort : list centry := [w07_a1; w07_a2; w07_b; w07_prot].
Definition w07_out_del : list centry := [w07_b; w07_a2; w07_prot; w07_a1].
Definition w07_out_sort : list centry := [w07_a1; w07_a2; w07_a10; w07_b; w07_stale; w07_prot].
Definition w07_file : bytes := render (map to_entry w07_es).

Lemma w07_es_ok : Forall centry_ok w07_es.
Proof. apply w07_centries_ok_b_sound. vm_compute. reflexivity. Qed.
Lemma w07_es_nodup : NoDup (map fst w07_es).
Proof. apply nodup_bytes_b_sound. vm_compute. reflexivity. Qed.
Lemma w07_es_other_ok : Forall centry_ok w07_es_other.
Proof. apply w07_centries_ok_b_sound. vm_compute. reflexivity. Qed.
Lemma w07_es_other_nodup : NoDup (map fst w07_es_other).
Proof. apply nodup_bytes_b_sound. vm_compute. reflexivity. Qed.
Lemma w07_a2_in : In w07_a2 w07_es.
Proof. right. left. reflexivity. Qed.
Lemma w07_prot_in : In w07_prot w07_es.
Proof. right. right. right. left. reflexivity. Qed.

(* ================================================================== *)
(* C07 - one file (examine_file)                                       *)
(* ================================================================== *)

(* the file holds, unsorted: two live entries of TestA (one with a two-line body), a live sub-test entry, a stale entry
   (TestOld), a left-over ordinal of a live test (TestA - 10), and the entry of a sub-test of a skipped test.
   The premise `snd (examine_file ...) = Some nf` holds in the three modes that rewrite; with update = sort = false
   nothing is rewritten and the premise is false (last conjunct). *)
Lemma C07_addressed_survives_witness :
  Forall centry_ok w07_es /\ NoDup (map fst w07_es) /\ In w07_a2 w07_es /\ mem_bytes (fst w07_a2) w07_reg = true /\
  snd (examine_file w07_reg w07_skp true true w07_file) = Some (render (map to_entry w07_out_del_sort)) /\
  snd (examine_file w07_reg w07_skp true false w07_file) = Some (render (map to_entry w07_out_del)) /\
  snd (examine_file w07_reg w07_skp false true w07_file) = Some (render (map to_entry w07_out_sort)) /\
  snd (examine_file w07_reg w07_skp false false w07_file) = None.
Proof.
  split; [exact w07_es_ok|]. split; [exact w07_es_nodup|]. split; [exact w07_a2_in|].
  split; [vm_compute; reflexivity|].
  split; [vm_compute; reflexivity|]. split; [vm_compute; reflexivity|]. split; vm_compute; reflexivity.
Qed.

Lemma C07_addressed_survives_applied : forall update sort, (update || sort = true)%bool ->
  exists nf out, snd (examine_file w07_reg w07_skp update sort w07_file) = Some nf /\
                 nf = render (map to_entry out) /\ In w07_a2 out /\ NoDup (map fst out).
Proof.
  intros update sort Hus.
  destruct C07_addressed_survives_witness as [H1 [H2 [H3 [H4 [H5 [H6 [H7 _]]]]]]].
  assert (E : exists nf, snd (examine_file w07_reg w07_skp update sort w07_file) = Some nf).
  { destruct update, sort; [eexists; exact H5|eexists; exact H6|eexists; exact H7|discriminate Hus]. }
  destruct E as [nf E]. exists nf.
  destruct (addressed_survives w07_reg w07_skp update sort w07_es nf w07_a2 H1 H2 H3 H4 E) as [out [Ho [Hi Hn]]].
  exists out. split; [exact E|]. split; [exact Ho|]. split; assumption.
Qed.

Lemma C07_addressed_not_reported_witness :
  Forall centry_ok w07_es /\ NoDup (map fst w07_es) /\ mem_bytes (fst w07_a2) w07_reg = true /\
  (* the report of this file is not empty *)
  fst (examine_file w07_reg w07_skp true true w07_file) = [fst w07_stale; fst w07_a10].
Proof.
  split; [exact w07_es_ok|]. split; [exact w07_es_nodup|]. split; vm_compute; reflexivity.
Qed.

Lemma C07_addressed_not_reported_applied : forall update sort,
  ~ In (fst w07_a2) (fst (examine_file w07_reg w07_skp update sort w07_file)).
Proof.
  intros update sort. destruct C07_addressed_not_reported_witness as [H1 [H2 [H3 _]]].
  exact (addressed_not_reported w07_reg w07_skp update sort w07_es w07_a2 H1 H2 H3).
Qed.

Section W07lit.
Local Open Scope string_scope.
Definition w07_Test : bytes := B "Test".
Definition w07_id_B12 : bytes := B "TestB/sub - 12".
Definition w07_fuzz : bytes := B "FuzzThing/seed#0".
End W07lit.

Lemma C07_ids_recognised_witness :
  is_prefix w07_Test w07_tB = true /\ no_space w07_tB /\ snapshot_occ_fmt w07_tB 12 = w07_id_B12 /\
  (* off the premise: a fuzz seed name *)
  is_prefix w07_Test w07_fuzz = false /\ get_test_id (hdr (snapshot_occ_fmt w07_fuzz 1)) = None.
Proof.
  split; [vm_compute; reflexivity|]. split; [apply w07_no_space_b_sound; vm_compute; reflexivity|].
  split; [vm_compute; reflexivity|]. split; vm_compute; reflexivity.
Qed.

Lemma C07_ids_recognised_applied : recognised (snapshot_occ_fmt w07_tB 12).
Proof.
  destruct C07_ids_recognised_witness as [H1 [H2 _]]. exact (recognised_go_name w07_tB 12 H1 H2).
Qed.

(* ================================================================== *)
(* the state: -count=2, TestA makes two calls on the default file and one through a Config (other.snap), a sub-test
   TestB/sub makes one call, TestSkip calls snaps.Skip - all of it twice                                        *)
(* ================================================================== *)

Lemma w07_st_keys c u : NoDup (map fst (s_fs (w07_st c u))).
Proof. apply reachable_keys_nodup. Qed.

Lemma w07_st_usedlist c u : fr_used (run_files (w07_st c u) 2) = [w07_snap; w07_other].
Proof. destruct c, u; vm_compute; reflexivity. Qed.

Lemma w07_st_used c u : In w07_snap (fr_used (run_files (w07_st c u) 2)).
Proof. rewrite w07_st_usedlist. left. reflexivity. Qed.

Lemma w07_st_content c u : alookup w07_snap (s_fs (w07_st c u)) = Some (render (map to_entry w07_es)).
Proof. destruct c, u; vm_compute; reflexivity. Qed.

Lemma w07_st_cleanup c u :
  s_cleanup (w07_st c u) = [((w07_snap, w07_tA), 4); ((w07_other, w07_tA), 2); ((w07_snap, w07_tB), 2)].
Proof. destruct c, u; vm_compute; reflexivity. Qed.

Lemma w07_st_skipped c u : s_skipped (w07_st c u) = [w07_tSkip; w07_tSkip].
Proof. destruct c, u; vm_compute; reflexivity. Qed.

(* every call of the history passes (the files hold exactly what the tests produce) *)
Lemma w07_st_outcomes :
  map o_outcome (snd (run (init_state (w07_env false UClean) (B "/p/a_test.go"%string) (B "__snapshots__"%string)) w07_ops)) =
  [NoCall; NoCall; NoCall; Passed; Passed; Passed; NoCall; Passed; NoCall; SkipLogged;
   Passed; Passed; Passed; NoCall; Passed; NoCall; SkipLogged].
Proof. vm_compute. reflexivity. Qed.

(* the other addressed file reports only its own stale id *)
Lemma w07_other_report c u so : file_report (w07_st c u) so 2 w07_other = [fst w07_oz].
Proof. destruct c, u, so; vm_compute; reflexivity. Qed.

Lemma w07_others c u so (id : bytes) : id <> fst w07_oz ->
  forall q, In q (fr_used (run_files (w07_st c u) 2)) -> q <> w07_snap -> ~ In id (file_report (w07_st c u) so 2 q).
Proof.
  intros Hid q Hq Hne. rewrite w07_st_usedlist in Hq.
  destruct Hq as [<-|[<-|[]]]; [contradiction|]. rewrite w07_other_report. intros [H|[]]. now apply Hid.
Qed.

(* ---------- C07_count_registered ---------- *)
Lemma C07_count_registered_witness : forall c u,
  0 < 2 /\ 1 <= 2 <= 2 /\ alookup2 (w07_snap, w07_tA) (s_cleanup (w07_st c u)) = Some (2 * 2) /\
  (* the registry for this file, and a left-over ordinal that is NOT registered *)
  registered_tests (s_cleanup (w07_st c u)) w07_snap 2 = [fst w07_a1; fst w07_a2; fst w07_a2; fst w07_b] /\
  mem_bytes (fst w07_a10) (registered_tests (s_cleanup (w07_st c u)) w07_snap 2) = false.
Proof.
  intros c u. split; [lia|]. split; [lia|]. rewrite w07_st_cleanup.
  split; [vm_compute; reflexivity|]. split; vm_compute; reflexivity.
Qed.

Lemma C07_count_registered_applied : forall c u,
  mem_bytes (snapshot_occ_fmt w07_tA 2) (registered_tests (s_cleanup (w07_st c u)) w07_snap 2) = true.
Proof.
  intros c u. destruct (C07_count_registered_witness c u) as [H1 [H2 [H3 _]]].
  exact (registered_tests_uniform (s_cleanup (w07_st c u)) w07_snap w07_tA 2 2 2 H1 H2 H3).
Qed.

(* ---------- C07_report_mode_untouched ---------- *)
(* (a) UPDATE_SNAPS unset, no sort option; (b) on CI with UPDATE_SNAPS=clean AND the sort option.
   In both the run does find stale entries (and the file is unsorted), yet nothing is written. *)
Lemma C07_report_mode_untouched_witness :
  clean_deletes (s_env (w07_st false UUnset)) = false /\ clean_sorts (s_env (w07_st false UUnset)) false = false /\
  clean_deletes (s_env (w07_st true UClean)) = false /\ clean_sorts (s_env (w07_st true UClean)) true = false /\
  cr_obsolete_tests (snd (clean_run (w07_st false UUnset) false 2)) = [fst w07_stale; fst w07_a10; fst w07_oz] /\
  cr_obsolete_tests (snd (clean_run (w07_st true UClean) true 2)) = [fst w07_stale; fst w07_a10; fst w07_oz] /\
  is_sorted_nat (map fst w07_es) = false /\
  (* outside the premise the same state IS rewritten *)
  cr_writes (snd (clean_run (w07_st false UClean) true 2)) = [(WRewrite, w07_snap); (WRewrite, w07_other)].
Proof. vm_compute. repeat split; reflexivity. Qed.

Lemma C07_report_mode_untouched_applied :
  (s_fs (fst (clean_run (w07_st false UUnset) false 2)) = s_fs (w07_st false UUnset) /\
   cr_writes (snd (clean_run (w07_st false UUnset) false 2)) = []) /\
  (s_fs (fst (clean_run (w07_st true UClean) true 2)) = s_fs (w07_st true UClean) /\
   cr_writes (snd (clean_run (w07_st true UClean) true 2)) = []).
Proof.
  destruct C07_report_mode_untouched_witness as [H1 [H2 [H3 [H4 _]]]]. split.
  - exact (clean_readonly (w07_st false UUnset) false 2 H1 H2).
  - exact (clean_readonly (w07_st true UClean) true 2 H3 H4).
Qed.

(* ---------- C07_run_addressed_entry_survives ---------- *)
Lemma C07_run_addressed_entry_survives_witness : forall c u,
  NoDup (map fst (s_fs (w07_st c u))) /\
  In w07_snap (fr_used (run_files (w07_st c u) 2)) /\
  alookup w07_snap (s_fs (w07_st c u)) = Some (render (map to_entry w07_es)) /\
  Forall centry_ok w07_es /\ NoDup (map fst w07_es) /\
  In w07_a2 w07_es /\ In (fst w07_a2) (registered_tests (s_cleanup (w07_st c u)) w07_snap 2) /\
  (* the inner premise about the OTHER addressed files (there is one: other.snap, with a stale entry of its own) *)
  (forall so q, In q (fr_used (run_files (w07_st c u) 2)) -> q <> w07_snap ->
                ~ In (fst w07_a2) (file_report (w07_st c u) so 2 q)) /\
  fr_used (run_files (w07_st c u) 2) = [w07_snap; w07_other].
Proof.
  intros c u. split; [apply w07_st_keys|]. split; [apply w07_st_used|]. split; [apply w07_st_content|].
  split; [exact w07_es_ok|]. split; [exact w07_es_nodup|]. split; [exact w07_a2_in|].
  split; [rewrite w07_st_cleanup; apply mem_bytes_true_in; vm_compute; reflexivity|].
  split; [|apply w07_st_usedlist].
  intros so. apply w07_others. vm_compute. discriminate.
Qed.

Lemma C07_run_addressed_entry_survives_applied : forall c u so,
  alookup w07_snap (s_fs (fst (clean_run (w07_st c u) so 2))) =
    Some (render (map to_entry (run_entries (w07_st c u) so 2 w07_snap w07_es))) /\
  In w07_a2 (run_entries (w07_st c u) so 2 w07_snap w07_es) /\
  NoDup (map fst (run_entries (w07_st c u) so 2 w07_snap w07_es)) /\
  ~ In (fst w07_a2) (file_report (w07_st c u) so 2 w07_snap) /\
  ~ In (fst w07_a2) (cr_obsolete_tests (snd (clean_run (w07_st c u) so 2))).
Proof.
  intros c u so.
  destruct (C07_run_addressed_entry_survives_witness c u) as [H1 [H2 [H3 [H4 [H5 [H6 [H7 [H8 _]]]]]]]].
  destruct (run_addressed_entry_survives (w07_st c u) so 2 w07_snap w07_es H1 H2 H3 H4 H5 w07_a2 H6 H7)
    as [G1 [G2 [G3 [G4 G5]]]].
  split; [exact G1|]. split; [exact G2|]. split; [exact G3|]. split; [exact G4|]. exact (G5 (H8 so)).
Qed.

(* what the run leaves in the file, per mode *)
Lemma w07_run_entries_computed :
  run_entries (w07_st false UClean) true 2 w07_snap w07_es = w07_out_del_sort /\
  run_entries (w07_st false UClean) false 2 w07_snap w07_es = w07_out_del /\
  run_entries (w07_st false UUnset) true 2 w07_snap w07_es = w07_out_sort /\
  run_entries (w07_st false UUnset) false 2 w07_snap w07_es = w07_es /\
  run_entries (w07_st true UClean) true 2 w07_snap w07_es = w07_es.
Proof. vm_compute. repeat split; reflexivity. Qed.

(* ---------- C07_run_count_uniform: count = 2 executions, k = 2 calls each, ordinal i = 2 ---------- *)
Lemma C07_run_count_uniform_witness : forall c u,
  NoDup (map fst (s_fs (w07_st c u))) /\
  In w07_snap (fr_used (run_files (w07_st c u) 2)) /\
  alookup w07_snap (s_fs (w07_st c u)) = Some (render (map to_entry w07_es)) /\
  Forall centry_ok w07_es /\ NoDup (map fst w07_es) /\
  0 < 2 /\ 1 <= 2 <= 2 /\ alookup2 (w07_snap, w07_tA) (s_cleanup (w07_st c u)) = Some (2 * 2) /\
  In w07_a2 w07_es /\ fst w07_a2 = snapshot_occ_fmt w07_tA 2.
Proof.
  intros c u. split; [apply w07_st_keys|]. split; [apply w07_st_used|]. split; [apply w07_st_content|].
  split; [exact w07_es_ok|]. split; [exact w07_es_nodup|]. split; [lia|]. split; [lia|].
  split; [rewrite w07_st_cleanup; vm_compute; reflexivity|]. split; [exact w07_a2_in|]. vm_compute. reflexivity.
Qed.

Lemma C07_run_count_uniform_applied : forall c u so,
  alookup w07_snap (s_fs (fst (clean_run (w07_st c u) so 2))) =
    Some (render (map to_entry (run_entries (w07_st c u) so 2 w07_snap w07_es))) /\
  In w07_a2 (run_entries (w07_st c u) so 2 w07_snap w07_es) /\
  NoDup (map fst (run_entries (w07_st c u) so 2 w07_snap w07_es)) /\
  ~ In (fst w07_a2) (file_report (w07_st c u) so 2 w07_snap) /\
  ~ In (fst w07_a2) (cr_obsolete_tests (snd (clean_run (w07_st c u) so 2))).
Proof.
  intros c u so.
  destruct (C07_run_count_uniform_witness c u) as [H1 [H2 [H3 [H4 [H5 [H6 [H7 [H8 [H9 H10]]]]]]]]].
  destruct (run_count_uniform (w07_st c u) so 2 w07_snap w07_es H1 H2 H3 H4 H5 w07_tA 2 2 w07_a2 H6 H7 H8 H9 H10)
    as [G1 [G2 [G3 [G4 G5]]]].
  split; [exact G1|]. split; [exact G2|]. split; [exact G3|]. split; [exact G4|].
  apply G5. apply w07_others. vm_compute. discriminate.
Qed.

(* representative statement for Properties/C07.v: named constants only *)
Lemma C07_witnesses_all : forall c u,
  NoDup (map fst (s_fs (w07_st c u))) /\
  In w07_snap (fr_used (run_files (w07_st c u) 2)) /\
  alookup w07_snap (s_fs (w07_st c u)) = Some (render (map to_entry w07_es)) /\
  Forall centry_ok w07_es /\ NoDup (map fst w07_es) /\
  0 < 2 /\ 1 <= 2 <= 2 /\ alookup2 (w07_snap, w07_tA) (s_cleanup (w07_st c u)) = Some (2 * 2) /\
  In w07_a2 w07_es /\ fst w07_a2 = snapshot_occ_fmt w07_tA 2.
Proof. exact C07_run_count_uniform_witness. Qed.

(* ================================================================== *)
(* C08                                                                 *)
(* ================================================================== *)

Section W08lit.
Local Open Scope string_scope.
Definition w08_tOtherSkip : bytes := B "TestElsewhere".
Definition w08_skipped : list bytes := [w08_tOtherSkip; w07_tSkip].
Definition w08_sibling : bytes := B "TestSkipper/sub".    (* shares the name prefix "TestSkip", is no descendant *)
Definition w08_sub : bytes := B "sub".
End W08lit.

(* m is n itself or a descendant n/... *)
Definition w08_descends (n m : bytes) : Prop := m = n \/ exists r, m = (n ++ [slash] ++ r)%list.

Lemma w08_descends_sub : w08_descends w07_tSkip w07_tSkipSub.
Proof. right. exists w08_sub. vm_compute. reflexivity. Qed.
Lemma w08_descends_self : w08_descends w07_tSkip w07_tSkip.
Proof. left. reflexivity. Qed.
Lemma w08_no_space_sub : no_space w07_tSkipSub.
Proof. apply w07_no_space_b_sound. vm_compute. reflexivity. Qed.
Lemma w08_no_space_self : no_space w07_tSkip.
Proof. apply w07_no_space_b_sound. vm_compute. reflexivity. Qed.

Lemma C08_skip_protects_witness :
  In w07_tSkip w08_skipped /\
  (w07_tSkipSub = w07_tSkip \/ exists r, w07_tSkipSub = (w07_tSkip ++ [slash] ++ r)%list) /\ no_space w07_tSkipSub /\
  (* the other disjunct: the skipped test itself *)
  (w07_tSkip = w07_tSkip \/ exists r, w07_tSkip = (w07_tSkip ++ [slash] ++ r)%list) /\ no_space w07_tSkip /\
  snapshot_occ_fmt w07_tSkipSub 1 = fst w07_prot.
Proof.
  split; [right; left; reflexivity|]. split; [exact w08_descends_sub|]. split; [exact w08_no_space_sub|].
  split; [exact w08_descends_self|]. split; [exact w08_no_space_self|]. vm_compute. reflexivity.
Qed.

Lemma C08_skip_protects_applied :
  test_skipped w08_skipped (snapshot_occ_fmt w07_tSkipSub 1) = true /\
  test_skipped w08_skipped (snapshot_occ_fmt w07_tSkip 3) = true.
Proof.
  destruct C08_skip_protects_witness as [H1 [H2 [H3 [H4 [H5 _]]]]]. split.
  - exact (skip_protects w08_skipped w07_tSkip w07_tSkipSub 1 H1 H2 H3).
  - exact (skip_protects w08_skipped w07_tSkip w07_tSkip 3 H1 H4 H5).
Qed.

Lemma C08_skipped_entry_kept_witness :
  In w07_tSkip w08_skipped /\
  (w07_tSkipSub = w07_tSkip \/ exists r, w07_tSkipSub = (w07_tSkip ++ [slash] ++ r)%list) /\ no_space w07_tSkipSub /\
  (* the id is NOT registered: only the skip list protects it; without the skip list it is not kept *)
  mem_bytes (snapshot_occ_fmt w07_tSkipSub 1) w07_reg = false /\
  keep_id w07_reg [] (snapshot_occ_fmt w07_tSkipSub 1) = false.
Proof.
  destruct C08_skip_protects_witness as [H1 [H2 [H3 _]]].
  split; [exact H1|]. split; [exact H2|]. split; [exact H3|]. split; vm_compute; reflexivity.
Qed.

Lemma C08_skipped_entry_kept_applied : keep_id w07_reg w08_skipped (snapshot_occ_fmt w07_tSkipSub 1) = true.
Proof.
  destruct C08_skipped_entry_kept_witness as [H1 [H2 [H3 _]]].
  exact (skipped_entry_kept w07_reg w08_skipped w07_tSkip w07_tSkipSub 1 H1 H2 H3).
Qed.

Lemma C08_skip_exact_witness :
  w08_sibling <> w07_tSkip /\ (forall r, w08_sibling <> (w07_tSkip ++ [slash] ++ r)%list) /\ no_space w08_sibling /\
  (* the interesting case: the sibling shares the name prefix *)
  is_prefix w07_tSkip w08_sibling = true.
Proof.
  split; [vm_compute; discriminate|].
  split; [intros r H; vm_compute in H; discriminate H|].
  split; [apply w07_no_space_b_sound; vm_compute; reflexivity|]. vm_compute. reflexivity.
Qed.

Lemma C08_skip_exact_applied : test_skipped [w07_tSkip] (snapshot_occ_fmt w08_sibling 1) = false.
Proof.
  destruct C08_skip_exact_witness as [H1 [H2 [H3 _]]]. exact (skip_exact w07_tSkip w08_sibling 1 H1 H2 H3).
Qed.

(* ---------- C08_run_skip_protected_entry_kept ---------- *)
Lemma C08_run_skip_protected_entry_kept_witness : forall c u,
  NoDup (map fst (s_fs (w07_st c u))) /\
  In w07_snap (fr_used (run_files (w07_st c u) 2)) /\
  alookup w07_snap (s_fs (w07_st c u)) = Some (render (map to_entry w07_es)) /\
  Forall centry_ok w07_es /\ NoDup (map fst w07_es) /\
  In w07_tSkip (s_skipped (w07_st c u)) /\
  (w07_tSkipSub = w07_tSkip \/ exists r, w07_tSkipSub = (w07_tSkip ++ [slash] ++ r)%list) /\ no_space w07_tSkipSub /\
  In w07_prot w07_es /\ fst w07_prot = snapshot_occ_fmt w07_tSkipSub 1 /\
  (* the registry does not hold the id: the skip clause alone protects the entry *)
  ~ In (fst w07_prot) (registered_tests (s_cleanup (w07_st c u)) w07_snap 2).
Proof.
  intros c u. split; [apply w07_st_keys|]. split; [apply w07_st_used|]. split; [apply w07_st_content|].
  split; [exact w07_es_ok|]. split; [exact w07_es_nodup|].
  split; [rewrite w07_st_skipped; left; reflexivity|].
  split; [exact w08_descends_sub|]. split; [exact w08_no_space_sub|]. split; [exact w07_prot_in|].
  split; [vm_compute; reflexivity|].
  rewrite w07_st_cleanup. apply mem_bytes_false_notin. vm_compute. reflexivity.
Qed.

Lemma C08_run_skip_protected_entry_kept_applied : forall c u so,
  alookup w07_snap (s_fs (fst (clean_run (w07_st c u) so 2))) =
    Some (render (map to_entry (run_entries (w07_st c u) so 2 w07_snap w07_es))) /\
  In w07_prot (run_entries (w07_st c u) so 2 w07_snap w07_es) /\
  NoDup (map fst (run_entries (w07_st c u) so 2 w07_snap w07_es)) /\
  ~ In (fst w07_prot) (file_report (w07_st c u) so 2 w07_snap) /\
  ~ In (fst w07_prot) (cr_obsolete_tests (snd (clean_run (w07_st c u) so 2))).
Proof.
  intros c u so.
  destruct (C08_run_skip_protected_entry_kept_witness c u) as [H1 [H2 [H3 [H4 [H5 [H6 [H7 [H8 [H9 [H10 _]]]]]]]]]].
  destruct (run_skip_protected_entry_kept (w07_st c u) so 2 w07_snap w07_es H1 H2 H3 H4 H5
              w07_tSkip w07_tSkipSub 1 w07_prot H6 H7 H8 H9 H10) as [G1 [G2 [G3 [G4 G5]]]].
  split; [exact G1|]. split; [exact G2|]. split; [exact G3|]. split; [exact G4|].
  apply G5. apply w07_others. vm_compute. discriminate.
Qed.

(* representative statement for Properties/C08.v: named constants only *)
Lemma C08_witnesses_all : forall c u so,
  NoDup (map fst (s_fs (w07_st c u))) /\
  In w07_snap (fr_used (run_files (w07_st c u) 2)) /\
  alookup w07_snap (s_fs (w07_st c u)) = Some (render (map to_entry w07_es)) /\
  Forall centry_ok w07_es /\ NoDup (map fst w07_es) /\
  In w07_tSkip (s_skipped (w07_st c u)) /\ w08_descends w07_tSkip w07_tSkipSub /\ no_space w07_tSkipSub /\
  In w07_prot w07_es /\ fst w07_prot = snapshot_occ_fmt w07_tSkipSub 1 /\
  In w07_prot (run_entries (w07_st c u) so 2 w07_snap w07_es) /\
  ~ In (fst w07_prot) (cr_obsolete_tests (snd (clean_run (w07_st c u) so 2))).
Proof.
  intros c u so.
  destruct (C08_run_skip_protected_entry_kept_witness c u) as [H1 [H2 [H3 [H4 [H5 [H6 [H7 [H8 [H9 [H10 _]]]]]]]]]].
  destruct (C08_run_skip_protected_entry_kept_applied c u so) as [_ [G2 [_ [_ G5]]]].
  split; [exact H1|]. split; [exact H2|]. split; [exact H3|]. split; [exact H4|]. split; [exact H5|].
  split; [exact H6|]. split; [exact H7|]. split; [exact H8|]. split; [exact H9|]. split; [exact H10|].
  split; [exact G2|exact G5].
Qed.


(* ==================================================================================================== *)
(* fragment G4 *)
(* ==================================================================================================== *)
(* Wit_G4: non-vacuity witnesses for Properties/C09.v (Clean: report, delete, touch nothing else).

   ONE concrete run serves all whole-run theorems. Before the test binary starts the disk holds, in this order
   (so the listing has to sort): a file in an unvisited directory, a file in a sub-directory of the snapshot directory,
   an unaddressed old.snap, the addressed a_test.snap (five entries in UNSORTED order: three live ones, a stale one and
   one protected by snaps.Skip of its parent test), notes.txt (no ".snap" in the name), a second addressed file
   other.snap (reached through a Config made by ONewConfig; sorted; one live and one stale entry) and a registered
   standalone snapshot TestB_1.snap. The binary runs TestA (two calls), TestB (a call on each multi-entry file and a
   standalone call) and TestSkip (snaps.Skip). The state is taken in three environments:
     w09_sD  UPDATE_SNAPS=clean, not CI  (Clean deletes)
     w09_sR  UPDATE_SNAPS unset, not CI  (report only; sorting allowed)
     w09_sCI UPDATE_SNAPS=clean, CI      (nothing may be written)                                             *)
From Coq Require Import String.
From Coq Require Import List NArith Arith Bool Lia Permutation.
Import ListNotations.
From Snaps Require Import Base.Bytes Base.Lines Base.Dec Base.Assoc.
From Snaps Require Import Model.Frame Model.PathModel Model.Mode Model.Api Model.Natural Model.Clean Model.RunFilter
  Proofs.BytesP Proofs.FrameP Proofs.CleanP Proofs.CleanEntriesP Proofs.TestIdP
  Proofs.RunFilterP Proofs.CleanFilesP Proofs.CleanRunP.
Local Open Scope list_scope.

(* ================================================================== *)
(* C09 - the instance                                                  *)
(* ================================================================== *)

Definition w09_envD : env := {| ci := false; upd := UClean; colour := false |}.
Definition w09_envR : env := {| ci := false; upd := UUnset; colour := false |}.
Definition w09_envCI : env := {| ci := true; upd := UClean; colour := false |}.

Definition w09_count : nat := 1.

(* paths *)
Definition w09_dir : bytes := B "/p/__snapshots__"%string.
Definition w09_snap : bytes := B "/p/__snapshots__/a_test.snap"%string.     (* addressed, unsorted *)
Definition w09_other : bytes := B "/p/__snapshots__/other.snap"%string.     (* addressed through a Config, sorted *)
Definition w09_old : bytes := B "/p/__snapshots__/old.snap"%string.         (* unaddressed *)
Definition w09_sa : bytes := B "/p/__snapshots__/TestB_1.snap"%string.      (* registered standalone snapshot *)
Definition w09_notes : bytes := B "/p/__snapshots__/notes.txt"%string.      (* no ".snap" in the name *)
Definition w09_deep : bytes := B "/p/__snapshots__/sub/deep.snap"%string.   (* in a sub-directory *)
Definition w09_far : bytes := B "/p/other/x.snap"%string.                   (* in an unvisited directory *)
Definition w09_missing : bytes := B "/p/__snapshots__/new.snap"%string.     (* does not exist *)
(* names inside w09_dir *)
Definition w09_snapname : bytes := B "a_test.snap"%string.
Definition w09_othername : bytes := B "other.snap"%string.
Definition w09_oldname : bytes := B "old.snap"%string.
Definition w09_saname : bytes := B "TestB_1.snap"%string.
Definition w09_notesname : bytes := B "notes.txt"%string.
Definition w09_sub : bytes := B "sub"%string.
Definition w09_deepname : bytes := B "deep.snap"%string.
(* contents of the files that are not entry files *)
Definition w09_oldc : bytes := B "o"%string.
Definition w09_notesc : bytes := B "n"%string.
Definition w09_deepc : bytes := B "d"%string.
Definition w09_farc : bytes := B "x"%string.
Definition w09_sac : bytes := B "standalone"%string.

(* entries of a_test.snap, in file order (not the natural order) *)
Definition w09_b1 : centry := (B "TestB - 1"%string, B "b"%string).
Definition w09_a2 : centry := (B "TestA - 2"%string, B "a2"%string).
Definition w09_stale : centry := (B "TestOld - 1"%string, B "old"%string).
Definition w09_prot : centry := (B "TestSkip/sub - 1"%string, B "s"%string).
Definition w09_a1 : centry := (B "TestA - 1"%string, B "a1"%string).
Definition w09_es : list centry := [w09_b1; w09_a2; w09_stale; w09_prot; w09_a1].
Definition w09_kept : list centry := [w09_b1; w09_a2; w09_prot; w09_a1].              (* file order, stale one gone *)
Definition w09_sorted_all : list centry := [w09_a1; w09_a2; w09_b1; w09_stale; w09_prot].
Definition w09_sorted_kept : list centry := [w09_a1; w09_a2; w09_b1; w09_prot].
(* entries of other.snap *)
Definition w09_o1 : centry := (B "TestB - 1"%string, B "c"%string).
Definition w09_o2 : centry := (B "TestGone - 1"%string, B "left over"%string).
Definition w09_es2 : list centry := [w09_o1; w09_o2].

Definition w09_content : bytes := render (map to_entry w09_es).
Definition w09_content2 : bytes := render (map to_entry w09_es2).

Definition w09_tA : bytes := B "TestA"%string.
Definition w09_tB : bytes := B "TestB"%string.
Definition w09_tSkip : bytes := B "TestSkip"%string.
Definition w09_name : bytes := B "TestSkip/sub"%string.       (* a sub-test name: "Test" prefix, no space *)
Definition w09_badname : bytes := B "Test - x"%string.        (* a name with " - " inside: NOT recognised *)

(* registry of a_test.snap and skip list as the run passes them to examineSnaps *)
Definition w09_reg : list bytes := [fst w09_a1; fst w09_a2; fst w09_a2; fst w09_b1].
Definition w09_skp : list bytes := [w09_tSkip].

Definition w09_ops : list op :=
  [OPutFile w09_far w09_farc;
   OPutFile w09_deep w09_deepc;
   OPutFile w09_old w09_oldc;
   OPutFile w09_snap w09_content;
   OPutFile w09_notes w09_notesc;
   OPutFile w09_other w09_content2;
   OPutFile w09_sa w09_sac;
   ONewConfig (Some (B "other"%string)) None None None;
   OMatch ASnap 0 w09_tA (POk (B "a1"%string));
   OMatch ASnap 0 w09_tA (POk (B "a2"%string));
   OEndTest w09_tA;
   OMatch ASnap 0 w09_tB (POk (B "b"%string));
   OMatch ASnap 1 w09_tB (POk (B "c"%string));
   OMatch AStand 0 w09_tB (POk w09_sac);
   OEndTest w09_tB;
   OSkip w09_tSkip].

Definition w09_init (e : env) : state := init_state e (B "/p/a_test.go"%string) (B "__snapshots__"%string).
Definition w09_st (e : env) : state := fst (run (w09_init e) w09_ops).
Definition w09_sD : state := w09_st w09_envD.
Definition w09_sR : state := w09_st w09_envR.
Definition w09_sCI : state := w09_st w09_envCI.
Definition w09_states : list state := [w09_sD; w09_sR; w09_sCI].
Definition w09_readonly_states : list state := [w09_sR; w09_sCI].

(* the file system all three states hold (every call passes, so nothing was written by the tests) *)
Definition w09_fs : list (bytes * bytes) :=
  [(w09_far, w09_farc); (w09_deep, w09_deepc); (w09_old, w09_oldc); (w09_snap, w09_content);
   (w09_notes, w09_notesc); (w09_other, w09_content2); (w09_sa, w09_sac)].

(* ---------- tactics and deciders ---------- *)

Ltac w09_each Hs := destruct Hs as [<-|[<-|[<-|[]]]].
Ltac w09_each2 Hs := destruct Hs as [<-|[<-|[]]].
Ltac w09_vm := vm_compute; reflexivity.
Ltac w09_in := apply mem_bytes_true_in; vm_compute; reflexivity.
Ltac w09_notin := apply mem_bytes_false_notin; vm_compute; reflexivity.
Ltac w09_inpair := vm_compute; repeat (first [left; reflexivity | right]).
Ltac w09_neq := apply beq_false_neq; vm_compute; reflexivity.

Definition w09_centry_ok_b (e : centry) : bool :=
  match get_test_id (hdr (fst e)) with Some i => beq i (fst e) | None => false end && wf_entry_b (to_entry e).
Lemma w09_centry_ok_b_sound e : w09_centry_ok_b e = true -> centry_ok e.
Proof.
  unfold w09_centry_ok_b, centry_ok, recognised. intros H. apply andb_true_iff in H as [H1 H2].
  split; [|now apply wf_entry_b_sound].
  destruct (get_test_id (hdr (fst e))) as [i|]; [|discriminate]. apply beq_eq in H1. now subst i.
Qed.
Lemma w09_centries_ok_b_sound es : forallb w09_centry_ok_b es = true -> Forall centry_ok es.
Proof. apply forallb_Forall. apply w09_centry_ok_b_sound. Qed.

Lemma w09_no_space_b_sound n : mem_bytes [32%N] (map (fun c => [c]) n) = false -> no_space n.
Proof.
  intros H Hin. apply mem_bytes_false_notin in H. apply H. apply in_map_iff. exists 32%N. split; [reflexivity|exact Hin].
Qed.

(* ---------- basic facts about the instance ---------- *)

Lemma w09_keys e : NoDup (map fst (s_fs (w09_st e))).
Proof. apply reachable_keys_nodup. Qed.

Lemma w09_keys_states s : In s w09_states -> NoDup (map fst (s_fs s)).
Proof. intros Hs. w09_each Hs; apply w09_keys. Qed.

Lemma w09_es_ok : Forall centry_ok w09_es.
Proof. apply w09_centries_ok_b_sound. w09_vm. Qed.
Lemma w09_es_nodup : NoDup (map fst w09_es).
Proof. apply nodup_bytes_b_sound. w09_vm. Qed.
Lemma w09_es2_ok : Forall centry_ok w09_es2.
Proof. apply w09_centries_ok_b_sound. w09_vm. Qed.
Lemma w09_es2_nodup : NoDup (map fst w09_es2).
Proof. apply nodup_bytes_b_sound. w09_vm. Qed.

(* what the test run looked like, and what Clean is given - the same in the three environments *)
Lemma w09_run_facts s : In s w09_states ->
  s_fs s = w09_fs /\
  run_dirs s w09_count = [w09_dir] /\
  registry_paths (s_cleanup s) = [w09_snap; w09_other] /\
  registered_standalone (s_scleanup s) w09_count = [w09_sa] /\
  run_reg s w09_count w09_snap = w09_reg /\
  run_reg s w09_count w09_other = [fst w09_o1] /\
  s_skipped s = w09_skp /\
  fr_used (run_files s w09_count) = [w09_snap; w09_other] /\
  fr_obsolete (run_files s w09_count) = [w09_old].
Proof. intros Hs. w09_each Hs; vm_compute; repeat split; reflexivity. Qed.

Lemma w09_outcomes e : In e [w09_envD; w09_envR; w09_envCI] ->
  map o_outcome (snd (run (w09_init e) w09_ops)) =
  [NoCall; NoCall; NoCall; NoCall; NoCall; NoCall; NoCall; NoCall;
   Passed; Passed; NoCall; Passed; Passed; Passed; NoCall; SkipLogged].
Proof. intros He. w09_each He; w09_vm. Qed.

Lemma w09_modes :
  clean_deletes (s_env w09_sD) = true /\ clean_deletes (s_env w09_sR) = false /\ clean_deletes (s_env w09_sCI) = false /\
  ci (s_env w09_sD) = false /\ ci (s_env w09_sR) = false /\ ci (s_env w09_sCI) = true /\
  should_clean_var (s_env w09_sCI) = true.
Proof. vm_compute. repeat split; reflexivity. Qed.

(* ================================================================== *)
(* C09 - one file (examine_file)                                       *)
(* ================================================================== *)

(* C09_report_exact: Forall centry_ok es -> NoDup (map fst es) -> ... *)
Lemma C09_report_exact_witness :
  Forall centry_ok w09_es /\ NoDup (map fst w09_es) /\
  (* the instance is the interesting case: unsorted, one stale entry, one entry kept only by the skip list *)
  is_sorted_nat (map fst w09_es) = false /\
  filter (fun e => negb (kept w09_reg w09_skp e)) w09_es = [w09_stale] /\
  mem_bytes (fst w09_prot) w09_reg = false /\ kept w09_reg w09_skp w09_prot = true.
Proof.
  split; [exact w09_es_ok|]. split; [exact w09_es_nodup|]. vm_compute. repeat split; reflexivity.
Qed.

Lemma C09_report_exact_applied : forall update sort,
  fst (examine_file w09_reg w09_skp update sort (render (map to_entry w09_es))) = [fst w09_stale].
Proof.
  intros update sort. rewrite (obsolete_exact w09_reg w09_skp update sort w09_es w09_es_ok w09_es_nodup). w09_vm.
Qed.

(* C09_ids_recognised: is_prefix "Test" name = true -> no_space name -> ... *)
Lemma C09_ids_recognised_witness :
  is_prefix (B "Test"%string) w09_name = true /\ no_space w09_name /\
  snapshot_occ_fmt w09_name 1 = fst w09_prot /\
  (* off the hypotheses: a name containing " - " gives an id Clean does not recognise *)
  is_prefix (B "Test"%string) w09_badname = true /\ ~ no_space w09_badname /\
  get_test_id (hdr (snapshot_occ_fmt w09_badname 1)) = None.
Proof.
  split; [w09_vm|]. split; [apply w09_no_space_b_sound; w09_vm|]. split; [w09_vm|]. split; [w09_vm|].
  split; [|w09_vm]. intros H. apply H. w09_inpair.
Qed.

Lemma C09_ids_recognised_applied : recognised (fst w09_prot).
Proof.
  destruct C09_ids_recognised_witness as [H1 [H2 [H3 _]]]. rewrite <- H3.
  exact (recognised_go_name w09_name 1 H1 H2).
Qed.

(* C09_file_result: same hypotheses; the four flag combinations *)
Lemma C09_file_result_witness : Forall centry_ok w09_es /\ NoDup (map fst w09_es).
Proof. split; [exact w09_es_ok|exact w09_es_nodup]. Qed.

Lemma C09_file_result_applied :
  examine_file w09_reg w09_skp true true w09_content = ([fst w09_stale], Some (render (map to_entry w09_sorted_kept))) /\
  examine_file w09_reg w09_skp true false w09_content = ([fst w09_stale], Some (render (map to_entry w09_kept))) /\
  examine_file w09_reg w09_skp false true w09_content = ([fst w09_stale], Some (render (map to_entry w09_sorted_all))) /\
  examine_file w09_reg w09_skp false false w09_content = ([fst w09_stale], None).
Proof.
  unfold w09_content.
  pose proof (fun u srt => examine_file_entries w09_reg w09_skp u srt w09_es w09_es_ok w09_es_nodup) as H.
  cbv zeta in H. rewrite !H. vm_compute. repeat split; reflexivity.
Qed.

(* C09_rewrite_is_permutation_of_staying: ... -> snd (examine_file ...) = Some nf -> ... *)
Lemma C09_rewrite_is_permutation_of_staying_witness :
  Forall centry_ok w09_es /\ NoDup (map fst w09_es) /\
  snd (examine_file w09_reg w09_skp true true (render (map to_entry w09_es))) = Some (render (map to_entry w09_sorted_kept)) /\
  snd (examine_file w09_reg w09_skp false true (render (map to_entry w09_es))) = Some (render (map to_entry w09_sorted_all)).
Proof.
  split; [exact w09_es_ok|]. split; [exact w09_es_nodup|]. split; w09_vm.
Qed.

Lemma C09_rewrite_is_permutation_of_staying_applied :
  (exists out, render (map to_entry w09_sorted_kept) = render (map to_entry out) /\
               Permutation out (stay w09_reg w09_skp true w09_es)) /\
  (exists out, render (map to_entry w09_sorted_all) = render (map to_entry out) /\
               Permutation out (stay w09_reg w09_skp false w09_es)) /\
  stay w09_reg w09_skp true w09_es = w09_kept /\ stay w09_reg w09_skp false w09_es = w09_es.
Proof.
  destruct C09_rewrite_is_permutation_of_staying_witness as [H1 [H2 [H3 H4]]].
  split; [exact (rewrite_content w09_reg w09_skp true true w09_es _ H1 H2 H3)|].
  split; [exact (rewrite_content w09_reg w09_skp false true w09_es _ H1 H2 H4)|].
  split; w09_vm.
Qed.

(* ================================================================== *)
(* C09 - read-only modes                                               *)
(* ================================================================== *)

(* C09_readonly: clean_deletes = false -> clean_sorts = false -> ... *)
Lemma C09_readonly_witness :
  clean_deletes (s_env w09_sR) = false /\ clean_sorts (s_env w09_sR) false = false /\
  clean_deletes (s_env w09_sCI) = false /\ clean_sorts (s_env w09_sCI) true = false /\
  (* there IS something to report, and with sorting allowed (sort option, off CI) the first hypothesis alone is not enough *)
  cr_obsolete_files (snd (clean_run w09_sR false w09_count)) = [w09_old] /\
  cr_obsolete_tests (snd (clean_run w09_sR false w09_count)) = [fst w09_stale; fst w09_o2] /\
  clean_sorts (s_env w09_sR) true = true /\
  cr_writes (snd (clean_run w09_sR true w09_count)) = [(WRewrite, w09_snap)].
Proof. vm_compute. repeat split; reflexivity. Qed.

Lemma C09_readonly_applied :
  (s_fs (fst (clean_run w09_sR false w09_count)) = s_fs w09_sR /\ cr_writes (snd (clean_run w09_sR false w09_count)) = []) /\
  (s_fs (fst (clean_run w09_sCI true w09_count)) = s_fs w09_sCI /\ cr_writes (snd (clean_run w09_sCI true w09_count)) = []).
Proof.
  destruct C09_readonly_witness as [H1 [H2 [H3 [H4 _]]]].
  split; [exact (clean_readonly w09_sR false w09_count H1 H2)|exact (clean_readonly w09_sCI true w09_count H3 H4)].
Qed.

(* C09_ci_untouched: ci = true -> ... (here with UPDATE_SNAPS=clean, the variable that would delete off CI) *)
Lemma C09_ci_untouched_witness :
  ci (s_env w09_sCI) = true /\ should_clean_var (s_env w09_sCI) = true /\
  cr_obsolete_files (snd (clean_run w09_sCI true w09_count)) = [w09_old] /\
  cr_obsolete_tests (snd (clean_run w09_sCI true w09_count)) = [fst w09_stale; fst w09_o2].
Proof. vm_compute. repeat split; reflexivity. Qed.

Lemma C09_ci_untouched_applied : forall sort_opt,
  s_fs (fst (clean_run w09_sCI sort_opt w09_count)) = s_fs w09_sCI /\
  cr_writes (snd (clean_run w09_sCI sort_opt w09_count)) = [].
Proof.
  intros sort_opt. exact (clean_ci_readonly w09_sCI sort_opt w09_count (proj1 C09_ci_untouched_witness)).
Qed.

(* ================================================================== *)
(* C09 - the file level                                                *)
(* ================================================================== *)

(* C09_only_snap_files: In p (fr_obsolete (examine_files ...)) -> ... /\ (dirname p <> [dot] -> ...) *)
Lemma C09_only_snap_files_witness : forall s, In s w09_states ->
  In w09_old (fr_obsolete (examine_files (s_fs s) (s_cleanup s) (registered_standalone (s_scleanup s) w09_count))) /\
  dirname w09_old <> [dot] /\
  (* both registries are non-empty *)
  registry_paths (s_cleanup s) = [w09_snap; w09_other] /\ registered_standalone (s_scleanup s) w09_count = [w09_sa].
Proof.
  intros s Hs. split; [w09_each Hs; w09_in|]. split; [w09_neq|].
  destruct (w09_run_facts s Hs) as [_ [_ [H1 [H2 _]]]]. split; assumption.
Qed.

Lemma C09_only_snap_files_applied : forall s, In s w09_states ->
  contains snaps_ext (base_part w09_old) = true /\ noslash (base_part w09_old) /\
  ((exists q, In q (registry_paths (s_cleanup s)) /\ dirname w09_old = dirname q) \/
   (exists q, In q (registered_standalone (s_scleanup s) w09_count) /\ dirname w09_old = dirname q)) /\
  ~ In w09_old (registry_paths (s_cleanup s)) /\ ~ In w09_old (registered_standalone (s_scleanup s) w09_count) /\
  w09_old = dir_pre (dirname w09_old) ++ base_part w09_old /\ In w09_old (map fst (s_fs s)).
Proof.
  intros s Hs. destruct (C09_only_snap_files_witness s Hs) as [H1 [H2 _]].
  destruct (reported_file_sound _ _ _ _ H1) as [G1 [G2 [G3 [G4 [G5 G6]]]]].
  split; [exact G1|]. split; [exact G2|]. split; [exact G3|]. split; [exact G4|]. split; [exact G5|exact (G6 H2)].
Qed.

(* C09_file_report_exact is an equivalence (no hypotheses); both sides are inhabited: *)
Lemma C09_file_report_exact_witness : forall s, In s w09_states ->
  let fs := s_fs s in
  let paths := registry_paths (s_cleanup s) in
  let standalone := registered_standalone (s_scleanup s) w09_count in
  let dirs := dedup (map dirname paths ++ map dirname standalone) in
  In w09_dir dirs /\ In w09_oldname (readdir_files fs w09_dir) /\ contains snaps_ext w09_oldname = true /\
  w09_old = join2 w09_dir w09_oldname /\ mem_bytes w09_old paths = false /\ mem_bytes w09_old standalone = false.
Proof.
  intros s Hs. cbv zeta. w09_each Hs.
  all: split; [w09_in|]; split; [w09_in|]; vm_compute; repeat split; reflexivity.
Qed.

Lemma C09_file_report_exact_applied : forall s, In s w09_states ->
  In w09_old (fr_obsolete (examine_files (s_fs s) (s_cleanup s) (registered_standalone (s_scleanup s) w09_count))) /\
  (* the registered standalone file, the sub-directory file and the addressed files are NOT reported *)
  fr_obsolete (examine_files (s_fs s) (s_cleanup s) (registered_standalone (s_scleanup s) w09_count)) = [w09_old].
Proof.
  intros s Hs. split.
  - apply (proj2 (examine_files_obsolete_iff (s_fs s) (s_cleanup s) (registered_standalone (s_scleanup s) w09_count) w09_old)).
    exists w09_dir, w09_oldname. exact (C09_file_report_exact_witness s Hs).
  - exact (proj2 (proj2 (proj2 (proj2 (proj2 (proj2 (proj2 (proj2 (w09_run_facts s Hs))))))))).
Qed.

(* C09_unaddressed_file_reported: seven hypotheses *)
Lemma C09_unaddressed_file_reported_witness : forall s, In s w09_states ->
  In (w09_old, w09_oldc) (s_fs s) /\ In w09_dir (run_dirs s w09_count) /\ w09_dir <> [dot] /\
  file_name_in w09_dir w09_old = Some w09_oldname /\ contains snaps_ext w09_oldname = true /\
  ~ In w09_old (registry_paths (s_cleanup s)) /\ ~ In w09_old (registered_standalone (s_scleanup s) w09_count).
Proof.
  intros s Hs. destruct (w09_run_facts s Hs) as [E1 [E2 [E3 [E4 _]]]]. rewrite E1, E2, E3, E4.
  split; [w09_inpair|]. split; [w09_in|]. split; [w09_neq|]. split; [w09_vm|]. split; [w09_vm|].
  split; w09_notin.
Qed.

Lemma C09_unaddressed_file_reported_applied : forall s, In s w09_states ->
  In w09_old (fr_obsolete (run_files s w09_count)).
Proof.
  intros s Hs. destruct (C09_unaddressed_file_reported_witness s Hs) as [H1 [H2 [H3 [H4 [H5 [H6 H7]]]]]].
  exact (run_unaddressed_file_reported s w09_count w09_dir w09_old w09_oldc w09_oldname H1 H2 H3 H4 H5 H6 H7).
Qed.

(* C09_listing is an equivalence (no hypotheses); the listing of the visited directory: direct children only, sorted *)
Lemma C09_listing_witness :
  readdir_files (s_fs w09_sD) w09_dir = [w09_saname; w09_snapname; w09_notesname; w09_oldname; w09_othername] /\
  file_name_in w09_dir w09_deep = None /\ file_name_in w09_dir w09_far = None /\
  In (w09_old, w09_oldc) (s_fs w09_sD) /\ file_name_in w09_dir w09_old = Some w09_oldname.
Proof.
  split; [w09_vm|]. split; [w09_vm|]. split; [w09_vm|]. split; [w09_inpair|w09_vm].
Qed.

Lemma C09_listing_applied : In w09_oldname (readdir_files (s_fs w09_sD) w09_dir).
Proof.
  destruct C09_listing_witness as [_ [_ [_ [H1 H2]]]].
  apply (proj2 (readdir_files_in (s_fs w09_sD) w09_dir w09_oldname)). exists w09_old, w09_oldc. split; assumption.
Qed.

(* C09_reported_files_removed: NoDup keys -> clean_deletes = true -> In p (cr_obsolete_files ...) -> ... *)
Lemma C09_reported_files_removed_witness : forall sort_opt,
  NoDup (map fst (s_fs w09_sD)) /\ clean_deletes (s_env w09_sD) = true /\
  In w09_old (cr_obsolete_files (snd (clean_run w09_sD sort_opt w09_count))) /\
  alookup w09_old (s_fs w09_sD) = Some w09_oldc.
Proof.
  intros sort_opt. split; [apply w09_keys|]. split; [w09_vm|]. split; [destruct sort_opt; w09_in|w09_vm].
Qed.

Lemma C09_reported_files_removed_applied : forall sort_opt,
  alookup w09_old (s_fs (fst (clean_run w09_sD sort_opt w09_count))) = None.
Proof.
  intros sort_opt. destruct (C09_reported_files_removed_witness sort_opt) as [H1 [H2 [H3 _]]].
  exact (clean_run_deletes_reported w09_sD sort_opt w09_count H1 w09_old H2 H3).
Qed.

(* C09_report_only_keeps_paths: clean_deletes = false -> (... <-> ...) *)
Lemma C09_report_only_keeps_paths_witness : forall s, In s w09_readonly_states ->
  clean_deletes (s_env s) = false /\
  (* a reported file and a missing path *)
  In w09_old (fr_obsolete (run_files s w09_count)) /\ alookup w09_old (s_fs s) = Some w09_oldc /\
  alookup w09_missing (s_fs s) = None.
Proof. intros s Hs. w09_each2 Hs; (split; [w09_vm|]; split; [w09_in|]; split; w09_vm). Qed.

Lemma C09_report_only_keeps_paths_applied : forall s, In s w09_readonly_states -> forall sort_opt,
  alookup w09_old (s_fs (fst (clean_run s sort_opt w09_count))) <> None /\
  alookup w09_missing (s_fs (fst (clean_run s sort_opt w09_count))) = None.
Proof.
  intros s Hs sort_opt. destruct (C09_report_only_keeps_paths_witness s Hs) as [H1 [_ [H3 H4]]].
  split.
  - intros E. apply (proj1 (clean_run_report_only_keeps_paths s sort_opt w09_count w09_old H1)) in E.
    rewrite H3 in E. discriminate E.
  - exact (proj2 (clean_run_report_only_keeps_paths s sort_opt w09_count w09_missing H1) H4).
Qed.

(* C09_report_only_changes_only_addressed: clean_deletes = false -> content of p changed -> ...
   The second hypothesis needs a mode that does not delete but sorts: sort option on, off CI, an unsorted file. *)
Lemma C09_report_only_changes_only_addressed_witness :
  clean_deletes (s_env w09_sR) = false /\
  alookup w09_snap (s_fs (fst (clean_run w09_sR true w09_count))) <> alookup w09_snap (s_fs w09_sR) /\
  alookup w09_snap (s_fs w09_sR) = Some (render (map to_entry w09_es)) /\
  alookup w09_snap (s_fs (fst (clean_run w09_sR true w09_count))) = Some (render (map to_entry w09_sorted_all)).
Proof.
  assert (E1 : alookup w09_snap (s_fs w09_sR) = Some (render (map to_entry w09_es))) by w09_vm.
  assert (E2 : alookup w09_snap (s_fs (fst (clean_run w09_sR true w09_count))) = Some (render (map to_entry w09_sorted_all)))
    by w09_vm.
  split; [w09_vm|]. split; [|split; assumption].
  rewrite E1, E2. intros E.
  assert (E' : render (map to_entry w09_sorted_all) = render (map to_entry w09_es)) by congruence.
  revert E'. w09_neq.
Qed.

(* without sorting the second hypothesis cannot hold (C09_readonly): it is satisfiable only off CI with the sort option on *)
Lemma w09_changes_need_sort s sort_opt count p :
  clean_deletes (s_env s) = false -> clean_sorts (s_env s) sort_opt = false ->
  alookup p (s_fs (fst (clean_run s sort_opt count))) = alookup p (s_fs s).
Proof. intros H1 H2. now rewrite (proj1 (clean_readonly s sort_opt count H1 H2)). Qed.

Lemma C09_report_only_changes_only_addressed_applied : In w09_snap (fr_used (run_files w09_sR w09_count)).
Proof.
  destruct C09_report_only_changes_only_addressed_witness as [H1 [H2 _]].
  exact (clean_run_report_only_changes w09_sR true w09_count w09_snap H1 H2).
Qed.

(* C09_addressed_file_result: NoDup keys -> In p (fr_used ...) -> ... *)
Lemma C09_addressed_file_result_witness : forall s, In s w09_states ->
  NoDup (map fst (s_fs s)) /\ In w09_snap (fr_used (run_files s w09_count)) /\
  In w09_other (fr_used (run_files s w09_count)) /\
  alookup w09_snap (s_fs s) = Some w09_content /\ alookup w09_other (s_fs s) = Some w09_content2.
Proof.
  intros s Hs. split; [exact (w09_keys_states s Hs)|].
  w09_each Hs; (split; [w09_in|]; split; [w09_in|]; split; w09_vm).
Qed.

Lemma C09_addressed_file_result_applied :
  alookup w09_snap (s_fs (fst (clean_run w09_sD true w09_count))) = Some (render (map to_entry w09_sorted_kept)) /\
  alookup w09_other (s_fs (fst (clean_run w09_sD true w09_count))) = Some (render (map to_entry [w09_o1])) /\
  alookup w09_snap (s_fs (fst (clean_run w09_sR true w09_count))) = Some (render (map to_entry w09_sorted_all)) /\
  alookup w09_snap (s_fs (fst (clean_run w09_sCI true w09_count))) = Some w09_content.
Proof.
  assert (HD : In w09_sD w09_states) by (left; reflexivity).
  assert (HR : In w09_sR w09_states) by (right; left; reflexivity).
  assert (HC : In w09_sCI w09_states) by (right; right; left; reflexivity).
  destruct (C09_addressed_file_result_witness _ HD) as [D1 [D2 [D3 _]]].
  destruct (C09_addressed_file_result_witness _ HR) as [R1 [R2 _]].
  destruct (C09_addressed_file_result_witness _ HC) as [C1 [C2 _]].
  rewrite (clean_run_used_content w09_sD true w09_count D1 w09_snap D2).
  rewrite (clean_run_used_content w09_sD true w09_count D1 w09_other D3).
  rewrite (clean_run_used_content w09_sR true w09_count R1 w09_snap R2).
  rewrite (clean_run_used_content w09_sCI true w09_count C1 w09_snap C2).
  vm_compute. repeat split; reflexivity.
Qed.

(* C09_run_entry_report: NoDup keys -> ... ; two addressed files, so the report is a genuine concatenation *)
Lemma C09_run_entry_report_witness : forall s, In s w09_states ->
  NoDup (map fst (s_fs s)) /\ fr_used (run_files s w09_count) = [w09_snap; w09_other].
Proof.
  intros s Hs. split; [exact (w09_keys_states s Hs)|].
  exact (proj1 (proj2 (proj2 (proj2 (proj2 (proj2 (proj2 (proj2 (w09_run_facts s Hs))))))))).
Qed.

Lemma C09_run_entry_report_applied : forall s, In s w09_states -> forall sort_opt,
  cr_obsolete_tests (snd (clean_run s sort_opt w09_count)) = [fst w09_stale; fst w09_o2].
Proof.
  intros s Hs sort_opt. destruct (C09_run_entry_report_witness s Hs) as [H1 _].
  rewrite (clean_run_obsolete_tests s sort_opt w09_count H1).
  w09_each Hs; destruct sort_opt; w09_vm.
Qed.

(* ================================================================== *)
(* C09 - touches nothing else                                          *)
(* ================================================================== *)

(* C09_untouched_no_snap_in_name: contains ".snap" (base_part p) = false -> ... ; the file sits in the visited directory *)
Lemma C09_untouched_no_snap_in_name_witness :
  contains snaps_ext (base_part w09_notes) = false /\
  forall s, In s w09_states -> In (w09_notes, w09_notesc) (s_fs s) /\ In (dirname w09_notes) (run_dirs s w09_count).
Proof.
  split; [w09_vm|]. intros s Hs. destruct (w09_run_facts s Hs) as [E1 [E2 _]]. rewrite E1, E2.
  split; [w09_inpair|w09_in].
Qed.

Lemma C09_untouched_no_snap_in_name_applied : forall s sort_opt count, untouched s sort_opt count w09_notes.
Proof.
  intros s sort_opt count. exact (untouched_no_snap_in_name s sort_opt count w09_notes (proj1 C09_untouched_no_snap_in_name_witness)).
Qed.

(* C09_untouched_unvisited_dir: ~ In (dirname p) (run_dirs ...) -> ... ; the file has ".snap" in its name *)
Lemma C09_untouched_unvisited_dir_witness : forall s, In s w09_states ->
  ~ In (dirname w09_far) (run_dirs s w09_count) /\
  In (w09_far, w09_farc) (s_fs s) /\ contains snaps_ext (base_part w09_far) = true.
Proof.
  intros s Hs. destruct (w09_run_facts s Hs) as [E1 [E2 _]]. rewrite E1, E2.
  split; [w09_notin|]. split; [w09_inpair|w09_vm].
Qed.

Lemma C09_untouched_unvisited_dir_applied : forall s, In s w09_states -> forall sort_opt,
  untouched s sort_opt w09_count w09_far.
Proof.
  intros s Hs sort_opt.
  exact (untouched_unvisited_dir s sort_opt w09_count w09_far (proj1 (C09_untouched_unvisited_dir_witness s Hs))).
Qed.

(* C09_untouched_subdir: In dir (run_dirs ...) -> ~ In (dirname (dir/sub/x)) (run_dirs ...) -> ... *)
Lemma C09_untouched_subdir_witness : forall s, In s w09_states ->
  In w09_dir (run_dirs s w09_count) /\
  ~ In (dirname (dir_pre w09_dir ++ w09_sub ++ slash :: w09_deepname)) (run_dirs s w09_count) /\
  dir_pre w09_dir ++ w09_sub ++ slash :: w09_deepname = w09_deep /\
  In (w09_deep, w09_deepc) (s_fs s) /\ contains snaps_ext (base_part w09_deep) = true.
Proof.
  intros s Hs. destruct (w09_run_facts s Hs) as [E1 [E2 _]]. rewrite E1, E2.
  split; [w09_in|]. split; [w09_notin|]. split; [w09_vm|]. split; [w09_inpair|w09_vm].
Qed.

Lemma C09_untouched_subdir_applied : forall s, In s w09_states -> forall sort_opt,
  untouched s sort_opt w09_count w09_deep.
Proof.
  intros s Hs sort_opt. destruct (C09_untouched_subdir_witness s Hs) as [H1 [H2 [H3 _]]].
  rewrite <- H3. exact (untouched_subdir s sort_opt w09_count w09_dir w09_sub w09_deepname H1 H2).
Qed.

(* the three kinds of untouched file, unfolded on the deleting run with sorting on *)
Lemma w09_untouched_computed :
  let res := clean_run w09_sD true w09_count in
  alookup w09_notes (s_fs (fst res)) = Some w09_notesc /\ alookup w09_far (s_fs (fst res)) = Some w09_farc /\
  alookup w09_deep (s_fs (fst res)) = Some w09_deepc /\ alookup w09_sa (s_fs (fst res)) = Some w09_sac /\
  cr_writes (snd res) = [(WRemove, w09_old); (WRewrite, w09_snap); (WRewrite, w09_other)].
Proof. vm_compute. repeat split; reflexivity. Qed.

(* C09_creates_nothing: alookup p (s_fs s) = None -> ... ; a path that WOULD be listed (".snap", visited directory) *)
Lemma C09_creates_nothing_witness : forall s, In s w09_states ->
  alookup w09_missing (s_fs s) = None /\
  In (dirname w09_missing) (run_dirs s w09_count) /\ contains snaps_ext (base_part w09_missing) = true.
Proof.
  intros s Hs. destruct (w09_run_facts s Hs) as [E1 [E2 _]]. rewrite E1, E2.
  split; [w09_vm|]. split; [w09_in|w09_vm].
Qed.

Lemma C09_creates_nothing_applied : forall s, In s w09_states -> forall sort_opt,
  alookup w09_missing (s_fs (fst (clean_run s sort_opt w09_count))) = None.
Proof.
  intros s Hs sort_opt.
  exact (clean_run_creates_nothing s sort_opt w09_count w09_missing (proj1 (C09_creates_nothing_witness s Hs))).
Qed.

(* ================================================================== *)
(* C09 - the entry level of a whole run                                *)
(* ================================================================== *)

(* the five hypotheses the entry-level run theorems share, for both addressed files *)
Lemma w09_file_hyps : forall s, In s w09_states ->
  NoDup (map fst (s_fs s)) /\
  (In w09_snap (fr_used (run_files s w09_count)) /\ alookup w09_snap (s_fs s) = Some (render (map to_entry w09_es)) /\
   Forall centry_ok w09_es /\ NoDup (map fst w09_es)) /\
  (In w09_other (fr_used (run_files s w09_count)) /\ alookup w09_other (s_fs s) = Some (render (map to_entry w09_es2)) /\
   Forall centry_ok w09_es2 /\ NoDup (map fst w09_es2)).
Proof.
  intros s Hs. destruct (C09_addressed_file_result_witness s Hs) as [H1 [H2 [H3 [H4 H5]]]].
  split; [exact H1|]. split.
  - split; [exact H2|]. split; [exact H4|]. split; [exact w09_es_ok|exact w09_es_nodup].
  - split; [exact H3|]. split; [exact H5|]. split; [exact w09_es2_ok|exact w09_es2_nodup].
Qed.

(* C09_run_stale_entries_reported: eight hypotheses *)
Lemma C09_run_stale_entries_reported_witness : forall s, In s w09_states ->
  NoDup (map fst (s_fs s)) /\ In w09_snap (fr_used (run_files s w09_count)) /\
  alookup w09_snap (s_fs s) = Some (render (map to_entry w09_es)) /\
  Forall centry_ok w09_es /\ NoDup (map fst w09_es) /\
  In w09_stale w09_es /\ mem_bytes (fst w09_stale) (run_reg s w09_count w09_snap) = false /\
  test_skipped (s_skipped s) (fst w09_stale) = false.
Proof.
  intros s Hs. destruct (w09_file_hyps s Hs) as [H1 [[H2 [H3 [H4 H5]]] _]].
  destruct (w09_run_facts s Hs) as [_ [_ [_ [_ [E5 [_ [E7 _]]]]]]]. rewrite E5, E7.
  split; [exact H1|]. split; [exact H2|]. split; [exact H3|]. split; [exact H4|]. split; [exact H5|].
  split; [right; right; left; reflexivity|]. split; w09_vm.
Qed.

Lemma C09_run_stale_entries_reported_applied : forall s, In s w09_states -> forall sort_opt,
  In (fst w09_stale) (cr_obsolete_tests (snd (clean_run s sort_opt w09_count))).
Proof.
  intros s Hs sort_opt.
  destruct (C09_run_stale_entries_reported_witness s Hs) as [H1 [H2 [H3 [H4 [H5 [H6 [H7 H8]]]]]]].
  exact (run_stale_entries_reported s sort_opt w09_count w09_snap w09_es H1 H2 H3 H4 H5 w09_stale H6 H7 H8).
Qed.

(* C09_run_reported_entries_stale: four hypotheses *)
Lemma C09_run_reported_entries_stale_witness : forall s, In s w09_states -> forall sort_opt,
  alookup w09_snap (s_fs s) = Some (render (map to_entry w09_es)) /\ Forall centry_ok w09_es /\ NoDup (map fst w09_es) /\
  In (fst w09_stale) (file_report s sort_opt w09_count w09_snap).
Proof.
  intros s Hs sort_opt. destruct (w09_file_hyps s Hs) as [_ [[_ [H3 [H4 H5]]] _]].
  split; [exact H3|]. split; [exact H4|]. split; [exact H5|].
  w09_each Hs; destruct sort_opt; w09_in.
Qed.

Lemma C09_run_reported_entries_stale_applied : forall s, In s w09_states ->
  exists e, In e w09_es /\ fst e = fst w09_stale /\
            mem_bytes (fst w09_stale) (run_reg s w09_count w09_snap) = false /\
            test_skipped (s_skipped s) (fst w09_stale) = false.
Proof.
  intros s Hs. destruct (C09_run_reported_entries_stale_witness s Hs true) as [H1 [H2 [H3 H4]]].
  exact (run_reported_entries_stale s true w09_count w09_snap w09_es H1 H2 H3 (fst w09_stale) H4).
Qed.

(* C09_run_report_only_keeps_entries: six hypotheses, and an inner implication with a disjunctive premise.
   UPDATE_SNAPS not set off CI, and UPDATE_SNAPS=clean on CI. Left disjunct: sort option off, or on CI;
   right disjunct: the sorted file other.snap with the sort option on. *)
Lemma C09_run_report_only_keeps_entries_witness : forall s, In s w09_readonly_states ->
  (NoDup (map fst (s_fs s)) /\ In w09_snap (fr_used (run_files s w09_count)) /\
   alookup w09_snap (s_fs s) = Some (render (map to_entry w09_es)) /\
   Forall centry_ok w09_es /\ NoDup (map fst w09_es) /\ clean_deletes (s_env s) = false) /\
  (In w09_other (fr_used (run_files s w09_count)) /\
   alookup w09_other (s_fs s) = Some (render (map to_entry w09_es2)) /\
   Forall centry_ok w09_es2 /\ NoDup (map fst w09_es2)) /\
  (* premises of the inner implication *)
  clean_sorts (s_env s) false = false /\ clean_sorts (s_env w09_sCI) true = false /\
  is_sorted_nat (map fst w09_es2) = true /\
  (* ... and the case where it fails: sorting is due *)
  clean_sorts (s_env w09_sR) true = true /\ is_sorted_nat (map fst w09_es) = false.
Proof.
  intros s Hs.
  assert (Hs' : In s w09_states) by (w09_each2 Hs; [right; left; reflexivity|right; right; left; reflexivity]).
  destruct (w09_file_hyps s Hs') as [H1 [[H2 [H3 [H4 H5]]] Hother]].
  split.
  { split; [exact H1|]. split; [exact H2|]. split; [exact H3|]. split; [exact H4|]. split; [exact H5|].
    w09_each2 Hs; w09_vm. }
  split; [exact Hother|].
  split; [w09_each2 Hs; w09_vm|]. vm_compute. repeat split; reflexivity.
Qed.

Lemma C09_run_report_only_keeps_entries_applied :
  (* sorting due: the file is rewritten with ALL its entries, in natural order *)
  (alookup w09_snap (s_fs (fst (clean_run w09_sR true w09_count))) = Some (render (map to_entry w09_sorted_all)) /\
   Permutation w09_sorted_all w09_es /\ In (WRewrite, w09_snap) (cr_writes (snd (clean_run w09_sR true w09_count)))) /\
  (* sort option off (both states), or on CI, or the file is sorted: identical entries, no rewrite *)
  (forall s, In s w09_readonly_states ->
     run_entries s false w09_count w09_snap w09_es = w09_es /\
     ~ In (WRewrite, w09_snap) (cr_writes (snd (clean_run s false w09_count)))) /\
  (run_entries w09_sCI true w09_count w09_snap w09_es = w09_es /\
   ~ In (WRewrite, w09_snap) (cr_writes (snd (clean_run w09_sCI true w09_count)))) /\
  (run_entries w09_sR true w09_count w09_other w09_es2 = w09_es2 /\
   ~ In (WRewrite, w09_other) (cr_writes (snd (clean_run w09_sR true w09_count)))).
Proof.
  assert (HR : In w09_sR w09_readonly_states) by (left; reflexivity).
  assert (HC : In w09_sCI w09_readonly_states) by (right; left; reflexivity).
  destruct (C09_run_report_only_keeps_entries_witness _ HR)
    as [[R1 [R2 [R3 [R4 [R5 R6]]]]] [[O2 [O3 [O4 O5]]] [_ [Hci [Hsorted _]]]]].
  destruct (C09_run_report_only_keeps_entries_witness _ HC) as [[C1 [C2 [C3 [C4 [C5 C6]]]]] _].
  split; [|split; [|split]].
  - destruct (run_report_only_keeps_entries w09_sR true w09_count w09_snap w09_es R1 R2 R3 R4 R5 R6) as [G1 [G2 _]].
    assert (E : run_entries w09_sR true w09_count w09_snap w09_es = w09_sorted_all) by w09_vm.
    rewrite E in G1, G2. split; [exact G1|]. split; [exact G2|]. vm_compute. left. reflexivity.
  - intros s Hs.
    destruct (C09_run_report_only_keeps_entries_witness s Hs) as [[S1 [S2 [S3 [S4 [S5 S6]]]]] [_ [Hoff _]]].
    destruct (run_report_only_keeps_entries s false w09_count w09_snap w09_es S1 S2 S3 S4 S5 S6) as [_ [_ G]].
    exact (G (or_introl Hoff)).
  - destruct (run_report_only_keeps_entries w09_sCI true w09_count w09_snap w09_es C1 C2 C3 C4 C5 C6) as [_ [_ G]].
    exact (G (or_introl Hci)).
  - destruct (run_report_only_keeps_entries w09_sR true w09_count w09_other w09_es2 R1 O2 O3 O4 O5 R6) as [_ [_ G]].
    exact (G (or_intror Hsorted)).
Qed.

(* C09_run_delete_mode_removes_reported: six hypotheses, and the inner implication *)
Lemma C09_run_delete_mode_removes_reported_witness :
  NoDup (map fst (s_fs w09_sD)) /\ In w09_snap (fr_used (run_files w09_sD w09_count)) /\
  alookup w09_snap (s_fs w09_sD) = Some (render (map to_entry w09_es)) /\
  Forall centry_ok w09_es /\ NoDup (map fst w09_es) /\ clean_deletes (s_env w09_sD) = true /\
  (* premise of the inner implication (sort option off), and the case where it fails *)
  clean_sorts (s_env w09_sD) false = false /\
  clean_sorts (s_env w09_sD) true = true /\ is_sorted_nat (map fst w09_es) = false.
Proof.
  assert (HD : In w09_sD w09_states) by (left; reflexivity).
  destruct (w09_file_hyps _ HD) as [H1 [[H2 [H3 [H4 H5]]] _]].
  split; [exact H1|]. split; [exact H2|]. split; [exact H3|]. split; [exact H4|]. split; [exact H5|].
  vm_compute. repeat split; reflexivity.
Qed.

Lemma C09_run_delete_mode_removes_reported_applied :
  (* sort option on: the kept entries in natural order *)
  (alookup w09_snap (s_fs (fst (clean_run w09_sD true w09_count))) = Some (render (map to_entry w09_sorted_kept)) /\
   Permutation w09_sorted_kept (filter (kept (run_reg w09_sD w09_count w09_snap) (s_skipped w09_sD)) w09_es) /\
   (forall e, In e w09_sorted_kept <-> In e w09_es /\ ~ In (fst e) (file_report w09_sD true w09_count w09_snap))) /\
  (* sort option off: the kept entries in place *)
  (alookup w09_snap (s_fs (fst (clean_run w09_sD false w09_count))) = Some (render (map to_entry w09_kept)) /\
   run_entries w09_sD false w09_count w09_snap w09_es = w09_kept /\
   filter (kept (run_reg w09_sD w09_count w09_snap) (s_skipped w09_sD)) w09_es = w09_kept) /\
  file_report w09_sD true w09_count w09_snap = [fst w09_stale].
Proof.
  destruct C09_run_delete_mode_removes_reported_witness as [H1 [H2 [H3 [H4 [H5 [H6 [H7 _]]]]]]].
  split; [|split].
  - destruct (run_delete_mode_removes_reported w09_sD true w09_count w09_snap w09_es H1 H2 H3 H4 H5 H6) as [G1 [G2 [G3 _]]].
    assert (E : run_entries w09_sD true w09_count w09_snap w09_es = w09_sorted_kept) by w09_vm.
    rewrite E in G1, G2. split; [exact G1|]. split; [exact G2|]. intros e. rewrite <- E. exact (G3 e).
  - destruct (run_delete_mode_removes_reported w09_sD false w09_count w09_snap w09_es H1 H2 H3 H4 H5 H6) as [G1 [_ [_ G4]]].
    assert (F : filter (kept (run_reg w09_sD w09_count w09_snap) (s_skipped w09_sD)) w09_es = w09_kept) by w09_vm.
    pose proof (G4 (or_introl H7)) as E. rewrite F in E. rewrite E in G1.
    split; [exact G1|]. split; [exact E|exact F].
  - w09_vm.
Qed.

(* ================================================================== *)
(* C09 - representative statement (named constants only)               *)
(* ================================================================== *)

(* the hypotheses of the whole-run theorems hold for the addressed, unsorted file with a stale, a live and a
   skip-protected entry: in the deleting state, the report-only state and the CI state; the deleting state deletes,
   the other two do not; the unaddressed file is reported and the stale entry is reported *)
Lemma C09_witnesses_all :
  (forall s, In s w09_states ->
     NoDup (map fst (s_fs s)) /\ In w09_snap (fr_used (run_files s w09_count)) /\
     alookup w09_snap (s_fs s) = Some (render (map to_entry w09_es)) /\
     Forall centry_ok w09_es /\ NoDup (map fst w09_es) /\
     In w09_stale w09_es /\ mem_bytes (fst w09_stale) (run_reg s w09_count w09_snap) = false /\
     test_skipped (s_skipped s) (fst w09_stale) = false /\
     In w09_old (fr_obsolete (run_files s w09_count))) /\
  clean_deletes (s_env w09_sD) = true /\ clean_deletes (s_env w09_sR) = false /\
  clean_deletes (s_env w09_sCI) = false /\ ci (s_env w09_sCI) = true /\
  (forall sort_opt, In w09_old (cr_obsolete_files (snd (clean_run w09_sD sort_opt w09_count)))) /\
  (forall s, In s w09_states -> forall sort_opt,
     In (fst w09_stale) (cr_obsolete_tests (snd (clean_run s sort_opt w09_count)))).
Proof.
  split.
  { intros s Hs. destruct (C09_run_stale_entries_reported_witness s Hs) as [H1 [H2 [H3 [H4 [H5 [H6 [H7 H8]]]]]]].
    repeat (split; [assumption|]). exact (C09_unaddressed_file_reported_applied s Hs). }
  destruct w09_modes as [M1 [M2 [M3 [_ [_ [M6 _]]]]]].
  split; [exact M1|]. split; [exact M2|]. split; [exact M3|]. split; [exact M6|].
  split; [intros sort_opt; exact (proj1 (proj2 (proj2 (C09_reported_files_removed_witness sort_opt))))|].
  exact C09_run_stale_entries_reported_applied.
Qed.


(* ==================================================================================================== *)
(* fragment G5 *)
(* ==================================================================================================== *)
(* Wit_G5: non-vacuity witnesses for Properties/C10.v (Clean: pruning / sorting) and Properties/C11.v (snapshot location). *)
From Coq Require Import String.
From Coq Require Import List NArith Arith Bool Lia Permutation.
Import ListNotations.
From Snaps Require Import Base.Bytes Base.Lines Base.Dec Base.Assoc.
From Snaps Require Import Model.Frame Model.PathModel Model.Mode Model.Api Model.Natural Model.Clean Model.Caller.
From Snaps Require Import Proofs.BytesP Proofs.FrameP Proofs.ApiP Proofs.CleanP Proofs.CleanEntriesP Proofs.SortP Proofs.CallerP.
Local Open Scope list_scope.

(* ================================================================== *)
(* C10 - Clean: pruning and sorting                                    *)
(* ================================================================== *)

(* the instance: one snapshot file of four tests, six entries, NOT in sorted order (ordinals 10 before 2);
   two entries are stale (TestB - 2, TestC - 1), one belongs to a test that was skipped in this run
   (TestS/sub - 1: not registered, kept because TestS is in the skip list); bodies with several lines and a blank line *)
Definition w10_es : list centry :=
  [ (B "TestB - 1", B "b one");
    (B "TestA - 10", (B "a ten" ++ [nl] ++ [nl] ++ B "second paragraph"));
    (B "TestC - 1", B "c one (stale)");
    (B "TestS/sub - 1", (B "skipped test" ++ [nl] ++ B "  indented: yes"));
    (B "TestB - 2", B "b two (stale)");
    (B "TestA - 2", B "a two") ].
(* the same entries in another order (a second file) *)
Definition w10_es' : list centry :=
  [ (B "TestB - 2", B "b two (stale)");
    (B "TestA - 2", B "a two");
    (B "TestS/sub - 1", (B "skipped test" ++ [nl] ++ B "  indented: yes"));
    (B "TestB - 1", B "b one");
    (B "TestC - 1", B "c one (stale)");
    (B "TestA - 10", (B "a ten" ++ [nl] ++ [nl] ++ B "second paragraph")) ].
Definition w10_reg : list bytes := [B "TestA - 2"; B "TestA - 10"; B "TestB - 1"].
Definition w10_skp : list bytes := [B "TestS"].

(* pruned + sorted (clean mode, sorting) *)
Definition w10_sorted : list centry :=
  [ (B "TestA - 2", B "a two");
    (B "TestA - 10", (B "a ten" ++ [nl] ++ [nl] ++ B "second paragraph"));
    (B "TestB - 1", B "b one");
    (B "TestS/sub - 1", (B "skipped test" ++ [nl] ++ B "  indented: yes")) ].
(* sorted, nothing pruned (report-only mode, sorting) *)
Definition w10_sorted_all : list centry :=
  [ (B "TestA - 2", B "a two");
    (B "TestA - 10", (B "a ten" ++ [nl] ++ [nl] ++ B "second paragraph"));
    (B "TestB - 1", B "b one");
    (B "TestB - 2", B "b two (stale)");
    (B "TestC - 1", B "c one (stale)");
    (B "TestS/sub - 1", (B "skipped test" ++ [nl] ++ B "  indented: yes")) ].
(* pruned in place (clean mode, no sorting) *)
Definition w10_pruned : list centry :=
  [ (B "TestB - 1", B "b one");
    (B "TestA - 10", (B "a ten" ++ [nl] ++ [nl] ++ B "second paragraph"));
    (B "TestS/sub - 1", (B "skipped test" ++ [nl] ++ B "  indented: yes"));
    (B "TestA - 2", B "a two") ].
Definition w10_obs : list bytes := [B "TestC - 1"; B "TestB - 2"].     (* stale ids, file order of w10_es *)
Definition w10_obs' : list bytes := [B "TestB - 2"; B "TestC - 1"].    (* stale ids, file order of w10_es' *)
Definition w10_f : bytes := render (map to_entry w10_es).
Definition w10_f' : bytes := render (map to_entry w10_es').
Definition w10_nf : bytes := render (map to_entry w10_sorted).
Definition w10_nf_all : bytes := render (map to_entry w10_sorted_all).
Definition w10_nf_pruned : bytes := render (map to_entry w10_pruned).
Definition w10_ids_sorted : list bytes := map fst w10_sorted_all.

(* boolean decider for centry_ok *)
Definition w10_centry_ok_b (e : centry) : bool :=
  match get_test_id (hdr (fst e)) with Some x => beq x (fst e) | None => false end && wf_entry_b (to_entry e).
Lemma w10_centry_ok_b_sound e : w10_centry_ok_b e = true -> centry_ok e.
Proof.
  unfold w10_centry_ok_b, centry_ok, recognised. intros H. apply andb_true_iff in H as [H1 H2].
  split; [|now apply wf_entry_b_sound].
  destruct (get_test_id (hdr (fst e))) as [x|]; [|discriminate]. apply beq_eq in H1. now subst x.
Qed.

Lemma w10_es_ok : Forall centry_ok w10_es.
Proof. apply (forallb_Forall w10_centry_ok_b); [exact w10_centry_ok_b_sound|]. vm_compute. reflexivity. Qed.
Lemma w10_es_nodup : NoDup (map fst w10_es).
Proof. apply nodup_bytes_b_sound. vm_compute. reflexivity. Qed.
Lemma w10_es_total : total_on nat_lt (map fst w10_es).
Proof. apply total_nat_b_spec. vm_compute. reflexivity. Qed.

Lemma w10_hyps : Forall centry_ok w10_es /\ NoDup (map fst w10_es) /\ total_on nat_lt (map fst w10_es).
Proof. exact (conj w10_es_ok (conj w10_es_nodup w10_es_total)). Qed.

Ltac w10_perm :=
  repeat first
    [ apply perm_nil
    | apply perm_skip
    | apply (Permutation_cons_app [_]); cbn [app]
    | apply (Permutation_cons_app [_;_]); cbn [app]
    | apply (Permutation_cons_app [_;_;_]); cbn [app]
    | apply (Permutation_cons_app [_;_;_;_]); cbn [app]
    | apply (Permutation_cons_app [_;_;_;_;_]); cbn [app] ].

Lemma w10_es_perm : Permutation w10_es w10_es'.
Proof. unfold w10_es, w10_es'. w10_perm. Qed.

(* the four runs of the model on the two files *)
Lemma w10_run_clean_sort : examine_file w10_reg w10_skp true true w10_f = (w10_obs, Some w10_nf).
Proof. vm_compute. reflexivity. Qed.
Lemma w10_run_clean_sort' : examine_file w10_reg w10_skp true true w10_f' = (w10_obs', Some w10_nf).
Proof. vm_compute. reflexivity. Qed.
Lemma w10_run_report_sort : examine_file w10_reg w10_skp false true w10_f = (w10_obs, Some w10_nf_all).
Proof. vm_compute. reflexivity. Qed.
Lemma w10_run_report_sort' : examine_file w10_reg w10_skp false true w10_f' = (w10_obs', Some w10_nf_all).
Proof. vm_compute. reflexivity. Qed.
Lemma w10_run_clean_nosort : examine_file w10_reg w10_skp true false w10_f = (w10_obs, Some w10_nf_pruned).
Proof. vm_compute. reflexivity. Qed.
Lemma w10_unsorted : is_sorted_nat (map fst w10_es) = false.
Proof. vm_compute. reflexivity. Qed.
Lemma w10_stale : filter (fun e => negb (kept w10_reg w10_skp e)) w10_es =
                  [(B "TestC - 1", B "c one (stale)"); (B "TestB - 2", B "b two (stale)")].
Proof. vm_compute. reflexivity. Qed.
Lemma w10_stale_nonempty : filter (fun e => negb (kept w10_reg w10_skp e)) w10_es <> [].
Proof. rewrite w10_stale. discriminate. Qed.
Ltac w10_neq := let E := fresh "E" in intros E; vm_compute in E; discriminate E.
Lemma w10_obs_differ : w10_obs <> w10_obs'.
Proof. w10_neq. Qed.

(* ---------- C10_rewrite_preserves_content ---------- *)
Lemma C10_rewrite_preserves_content_witness :
  Forall centry_ok w10_es /\ NoDup (map fst w10_es) /\
  snd (examine_file w10_reg w10_skp true true (render (map to_entry w10_es))) = Some w10_nf /\
  (* interesting case: the file was unsorted, two entries are pruned, a skipped test's entry stays *)
  is_sorted_nat (map fst w10_es) = false /\ stay w10_reg w10_skp true w10_es = w10_pruned.
Proof.
  split; [exact w10_es_ok|]. split; [exact w10_es_nodup|].
  split; [change (render (map to_entry w10_es)) with w10_f; rewrite w10_run_clean_sort; reflexivity|].
  split; [exact w10_unsorted|]. vm_compute. reflexivity.
Qed.
Lemma C10_rewrite_preserves_content_applied :
  exists out, w10_nf = render (map to_entry out) /\ Permutation out (stay w10_reg w10_skp true w10_es).
Proof.
  destruct C10_rewrite_preserves_content_witness as [H1 [H2 [H3 _]]].
  exact (rewrite_content w10_reg w10_skp true true w10_es w10_nf H1 H2 H3).
Qed.

(* ---------- C10_prune_in_place ---------- *)
Lemma C10_prune_in_place_witness :
  Forall centry_ok w10_es /\ NoDup (map fst w10_es) /\
  filter (fun e => negb (kept w10_reg w10_skp e)) w10_es <> [] /\
  filter (kept w10_reg w10_skp) w10_es = w10_pruned.
Proof.
  split; [exact w10_es_ok|]. split; [exact w10_es_nodup|]. split; [exact w10_stale_nonempty|].
  vm_compute. reflexivity.
Qed.
Lemma C10_prune_in_place_applied :
  examine_file w10_reg w10_skp true false (render (map to_entry w10_es)) =
  (map fst (filter (fun e => negb (kept w10_reg w10_skp e)) w10_es),
   Some (render (map to_entry (filter (kept w10_reg w10_skp) w10_es)))).
Proof. exact (examine_file_prune w10_reg w10_skp w10_es w10_es_ok w10_es_nodup w10_stale_nonempty). Qed.

(* ---------- C10_rewrite_only_if: the three ways a rewrite happens ---------- *)
Lemma C10_rewrite_only_if_witness :
  (* pruning and sorting *)
  examine_file w10_reg w10_skp true true w10_f = (w10_obs, Some w10_nf) /\
  (* pruning only: sort = false, so the left disjunct is the one that holds *)
  examine_file w10_reg w10_skp true false w10_f = (w10_obs, Some w10_nf_pruned) /\
  (* sorting only (report-only mode): update = false, so the right disjunct is the one that holds *)
  examine_file w10_reg w10_skp false true w10_f = (w10_obs, Some w10_nf_all).
Proof. exact (conj w10_run_clean_sort (conj w10_run_clean_nosort w10_run_report_sort)). Qed.
Lemma C10_rewrite_only_if_applied :
  ((true = true /\ w10_obs <> []) \/ true = true) /\
  ((true = true /\ w10_obs <> []) \/ false = true) /\
  ((false = true /\ w10_obs <> []) \/ true = true).
Proof.
  split; [exact (examine_file_rewrite_iff _ _ _ _ _ _ _ w10_run_clean_sort)|].
  split; [exact (examine_file_rewrite_iff _ _ _ _ _ _ _ w10_run_clean_nosort)|].
  exact (examine_file_rewrite_iff _ _ _ _ _ _ _ w10_run_report_sort).
Qed.

(* ---------- C10_sorted_result ---------- *)
Lemma C10_sorted_result_witness :
  Forall centry_ok w10_es /\ NoDup (map fst w10_es) /\ total_on nat_lt (map fst w10_es) /\
  examine_file w10_reg w10_skp true true (render (map to_entry w10_es)) = (w10_obs, Some w10_nf).
Proof.
  split; [exact w10_es_ok|]. split; [exact w10_es_nodup|]. split; [exact w10_es_total|]. exact w10_run_clean_sort.
Qed.
Lemma C10_sorted_result_applied :
  exists out, w10_nf = render (map to_entry out) /\
              map fst out = filter (stays w10_reg w10_skp true) (sort_nat (map fst w10_es)) /\
              is_sorted_nat (map fst out) = true /\
              Permutation out (stay w10_reg w10_skp true w10_es).
Proof.
  exact (clean_sorted_result w10_reg w10_skp true w10_es w10_obs w10_nf
           w10_es_ok w10_es_nodup w10_es_total w10_run_clean_sort).
Qed.

(* ---------- C10_sorted_order_independent: two differently ordered files; report-only mode, so that even the
   reported lists differ (file order) while the rewritten contents agree ---------- *)
Lemma C10_sorted_order_independent_witness :
  Forall centry_ok w10_es /\ NoDup (map fst w10_es) /\ total_on nat_lt (map fst w10_es) /\
  Permutation w10_es w10_es' /\
  examine_file w10_reg w10_skp false true (render (map to_entry w10_es)) = (w10_obs, Some w10_nf_all) /\
  examine_file w10_reg w10_skp false true (render (map to_entry w10_es')) = (w10_obs', Some w10_nf_all) /\
  w10_es <> w10_es' /\ w10_obs <> w10_obs'.
Proof.
  split; [exact w10_es_ok|]. split; [exact w10_es_nodup|]. split; [exact w10_es_total|].
  split; [exact w10_es_perm|]. split; [exact w10_run_report_sort|]. split; [exact w10_run_report_sort'|].
  split; [|exact w10_obs_differ].
  w10_neq.
Qed.
(* applied with nf, nf' kept as the theorem's variables would make the conclusion a mere restatement; here both
   runs are obtained from the model and the theorem (not the computation) identifies them - in both modes *)
Lemma C10_sorted_order_independent_applied : forall update obs nf obs' nf',
  examine_file w10_reg w10_skp update true (render (map to_entry w10_es)) = (obs, Some nf) ->
  examine_file w10_reg w10_skp update true (render (map to_entry w10_es')) = (obs', Some nf') ->
  nf = nf'.
Proof.
  intros update obs nf obs' nf'.
  exact (clean_sorted_order_independent w10_reg w10_skp update w10_es w10_es' obs nf obs' nf'
           w10_es_ok w10_es_nodup w10_es_total w10_es_perm).
Qed.

(* ---------- C10_clean_twice ---------- *)
Lemma C10_clean_twice_witness :
  Forall centry_ok w10_es /\ NoDup (map fst w10_es) /\ total_on nat_lt (map fst w10_es) /\
  examine_file w10_reg w10_skp true true (render (map to_entry w10_es)) = (w10_obs, Some w10_nf) /\
  examine_file w10_reg w10_skp false true (render (map to_entry w10_es)) = (w10_obs, Some w10_nf_all) /\
  examine_file w10_reg w10_skp true false (render (map to_entry w10_es)) = (w10_obs, Some w10_nf_pruned).
Proof.
  split; [exact w10_es_ok|]. split; [exact w10_es_nodup|]. split; [exact w10_es_total|].
  exact (conj w10_run_clean_sort (conj w10_run_report_sort w10_run_clean_nosort)).
Qed.
Lemma C10_clean_twice_applied :
  examine_file w10_reg w10_skp true true w10_nf = ([], None) /\
  examine_file w10_reg w10_skp false true w10_nf_all = (sort_nat w10_obs, None) /\
  examine_file w10_reg w10_skp true false w10_nf_pruned = ([], None).
Proof.
  split; [|split].
  - exact (clean_sort_idempotent w10_reg w10_skp true true w10_es w10_obs w10_nf
             w10_es_ok w10_es_nodup w10_es_total w10_run_clean_sort).
  - exact (clean_sort_idempotent w10_reg w10_skp false true w10_es w10_obs w10_nf_all
             w10_es_ok w10_es_nodup w10_es_total w10_run_report_sort).
  - exact (clean_sort_idempotent w10_reg w10_skp true false w10_es w10_obs w10_nf_pruned
             w10_es_ok w10_es_nodup w10_es_total w10_run_clean_nosort).
Qed.

(* ---------- C10_sorted_arrangement_unique: a uniqueness statement; its hypotheses (l, l' permutations of each
   other, both sorted) are by the theorem itself satisfiable only with l = l'. Diagonal instance (six ids of four
   tests), and an off-diagonal pair (same ids in file order) on which the premise "l' sorted" computes to false ---------- *)
Lemma C10_sorted_arrangement_unique_witness :
  total_on nat_lt w10_ids_sorted /\ NoDup w10_ids_sorted /\ Permutation w10_ids_sorted w10_ids_sorted /\
  is_sorted_nat w10_ids_sorted = true /\ is_sorted_nat w10_ids_sorted = true.
Proof.
  split; [apply total_nat_b_spec; vm_compute; reflexivity|].
  split; [apply nodup_bytes_b_sound; vm_compute; reflexivity|].
  split; [apply Permutation_refl|]. split; vm_compute; reflexivity.
Qed.
Lemma C10_sorted_arrangement_unique_offdiagonal :
  Permutation w10_ids_sorted (map fst w10_es) /\ w10_ids_sorted <> map fst w10_es /\
  is_sorted_nat (map fst w10_es) = false.
Proof.
  split; [|split].
  - unfold w10_ids_sorted. apply Permutation_map. unfold w10_sorted_all, w10_es. w10_perm.
  - w10_neq.
  - exact w10_unsorted.
Qed.
(* the only use of the theorem with non-identical data: any sorted permutation of the file's ids IS the model's sort *)
Lemma C10_sorted_arrangement_unique_applied : forall l',
  Permutation (sort_nat (map fst w10_es)) l' -> is_sorted_nat l' = true -> sort_nat (map fst w10_es) = l'.
Proof.
  intros l' Hp Hs.
  assert (E : sort_nat (map fst w10_es) = w10_ids_sorted) by (vm_compute; reflexivity).
  rewrite E in *.
  destruct C10_sorted_arrangement_unique_witness as [H1 [H2 [_ [H4 _]]]].
  exact (sorted_perm_unique_nat w10_ids_sorted l' H1 H2 Hp H4 Hs).
Qed.

(* ---------- C10_sort_sorted ---------- *)
Lemma C10_sort_sorted_witness :
  total_on nat_lt (map fst w10_es) /\ is_sorted_nat (map fst w10_es) = false /\
  sort_nat (map fst w10_es) = w10_ids_sorted.
Proof. split; [exact w10_es_total|]. split; [exact w10_unsorted|]. vm_compute. reflexivity. Qed.
Lemma C10_sort_sorted_applied : is_sorted_nat (sort_nat (map fst w10_es)) = true.
Proof. exact (sort_nat_sorted (map fst w10_es) w10_es_total). Qed.

(* ---------- C10_same_test_*: a test name with digit runs inside, ordinals out of order ---------- *)
Definition w10_p : bytes := B "TestV2/case_10 - ".
Definition w10_ks : list nat := [2; 10; 9; 1; 11].
Definition w10_ks_sorted : list nat := [1; 2; 9; 10; 11].
Definition w10_j : nat := 10.
Definition w10_k : nat := 9.
Definition w10_id (k : nat) : bytes := w10_p ++ dec k.

Lemma w10_p_good : good_prefix w10_p.
Proof. vm_compute. reflexivity. Qed.
Lemma w10_ks_range : Forall in_range w10_ks.
Proof. unfold w10_ks. repeat (apply Forall_cons; [vm_compute; reflexivity|]). apply Forall_nil. Qed.
Lemma w10_ks_nodup : NoDup w10_ks.
Proof. unfold w10_ks. repeat (apply NoDup_cons; [cbn [In]; lia|]). apply NoDup_nil. Qed.

Lemma C10_same_test_by_ordinal_witness :
  good_prefix w10_p /\ in_range w10_j /\ in_range w10_k /\
  (* the interesting case: 10 vs 9 - byte order says "10" < "9", the numeric order says otherwise *)
  bytes_ltb (w10_id w10_j) (w10_id w10_k) = true.
Proof.
  split; [exact w10_p_good|]. split; [vm_compute; reflexivity|]. split; vm_compute; reflexivity.
Qed.
Lemma C10_same_test_by_ordinal_applied :
  nat_lt (w10_p ++ dec w10_j) (w10_p ++ dec w10_k) = false /\
  nat_lt (w10_p ++ dec w10_k) (w10_p ++ dec w10_j) = true.
Proof.
  destruct C10_same_test_by_ordinal_witness as [Hp [Hj [Hk _]]]. split.
  - rewrite (nat_lt_same_test w10_p w10_j w10_k Hp Hj Hk). reflexivity.
  - rewrite (nat_lt_same_test w10_p w10_k w10_j Hp Hk Hj). reflexivity.
Qed.

Lemma C10_same_test_sorted_increasing_witness :
  good_prefix w10_p /\ Forall in_range w10_ks /\ NoDup w10_ks /\
  sort_nat (map (fun k => w10_p ++ dec k) w10_ks) = map (fun k => w10_p ++ dec k) w10_ks_sorted.
Proof.
  split; [exact w10_p_good|]. split; [exact w10_ks_range|]. split; [exact w10_ks_nodup|].
  vm_compute. reflexivity.
Qed.
Lemma C10_same_test_sorted_increasing_applied :
  exists ks', Permutation w10_ks ks' /\ Sorted.StronglySorted Nat.lt ks' /\
              sort_nat (map (fun k => w10_p ++ dec k) w10_ks) = map (fun k => w10_p ++ dec k) ks'.
Proof. exact (sort_nat_same_test_increasing w10_p w10_ks w10_p_good w10_ks_range w10_ks_nodup). Qed.

Lemma C10_same_test_total_witness : good_prefix w10_p /\ Forall in_range w10_ks.
Proof. exact (conj w10_p_good w10_ks_range). Qed.
Lemma C10_same_test_total_applied : total_on nat_lt (map (fun k => w10_p ++ dec k) w10_ks).
Proof. exact (ids_total_on w10_p w10_ks w10_p_good w10_ks_range). Qed.

(* ---------- representative statement for Properties/C10.v: named constants only ---------- *)
Lemma C10_witnesses_all :
  (Forall centry_ok w10_es /\ NoDup (map fst w10_es) /\ total_on nat_lt (map fst w10_es)) /\
  Permutation w10_es w10_es' /\
  filter (fun e => negb (kept w10_reg w10_skp e)) w10_es <> nil /\
  examine_file w10_reg w10_skp true true (render (map to_entry w10_es)) = (w10_obs, Some w10_nf) /\
  examine_file w10_reg w10_skp true false (render (map to_entry w10_es)) = (w10_obs, Some w10_nf_pruned) /\
  examine_file w10_reg w10_skp false true (render (map to_entry w10_es)) = (w10_obs, Some w10_nf_all) /\
  examine_file w10_reg w10_skp false true (render (map to_entry w10_es')) = (w10_obs', Some w10_nf_all) /\
  is_sorted_nat (map fst w10_es) = false /\
  (total_on nat_lt w10_ids_sorted /\ NoDup w10_ids_sorted /\ is_sorted_nat w10_ids_sorted = true) /\
  (good_prefix w10_p /\ Forall in_range w10_ks /\ NoDup w10_ks /\ in_range w10_j /\ in_range w10_k).
Proof.
  split; [exact w10_hyps|]. split; [exact w10_es_perm|]. split; [exact w10_stale_nonempty|].
  split; [exact w10_run_clean_sort|]. split; [exact w10_run_clean_nosort|].
  split; [exact w10_run_report_sort|]. split; [exact w10_run_report_sort'|]. split; [exact w10_unsorted|].
  split.
  - destruct C10_sorted_arrangement_unique_witness as [H1 [H2 [_ [H4 _]]]]. exact (conj H1 (conj H2 H4)).
  - destruct C10_same_test_by_ordinal_witness as [Hp [Hj [Hk _]]].
    exact (conj Hp (conj w10_ks_range (conj w10_ks_nodup (conj Hj Hk)))).
Qed.

(* ================================================================== *)
(* C11 - snapshot location                                             *)
(* ================================================================== *)

Definition w11_trunner : bytes := B "testing.tRunner".
(* absolute Dir + Filename *)
Definition w11_cfg_abs : config :=
  {| c_filename := B "shared"; c_dir := B "/srv/snaps//go/./"; c_ext := B ".txt"; c_update := None |}.
(* relative Dir, no Filename, no Ext *)
Definition w11_cfg_rel : config :=
  {| c_filename := []; c_dir := B "../shared//x/./"; c_ext := []; c_update := Some true |}.
Definition w11_caller1 : bytes := B "/m/pkg/sub/a_test.go".
Definition w11_caller2 : bytes := B "/other/mod/deep/b_test.go".
Definition w11_caller3 : bytes := B "/elsewhere/vendor/a_test.go".    (* same base name as caller1, other directory *)
Definition w11_test : bytes := B "TestA/b c".

(* ---------- C11_abs_dir_independent ---------- *)
Lemma C11_abs_dir_independent_witness :
  is_abs (c_dir w11_cfg_abs) = true /\ c_filename w11_cfg_abs <> [] /\
  w11_caller1 <> w11_caller2 /\ dirname w11_caller1 <> dirname w11_caller2 /\
  basename w11_caller1 <> basename w11_caller2 /\
  (* without the hypotheses (relative Dir, no Filename) the two callers do give different locations *)
  snapshot_path w11_cfg_rel w11_caller1 w11_test false <> snapshot_path w11_cfg_rel w11_caller2 w11_test false.
Proof.
  split; [vm_compute; reflexivity|]. split; [discriminate|].
  repeat split; apply beq_false_neq; vm_compute; reflexivity.
Qed.
Lemma C11_abs_dir_independent_applied :
  snapshot_path w11_cfg_abs w11_caller1 w11_test false = snapshot_path w11_cfg_abs w11_caller2 w11_test false /\
  snapshot_path w11_cfg_abs w11_caller1 w11_test true = snapshot_path w11_cfg_abs w11_caller2 w11_test true /\
  snapshot_path w11_cfg_abs w11_caller1 w11_test false = B "/srv/snaps/go/shared.snap.txt" /\
  snapshot_path w11_cfg_abs w11_caller1 w11_test true = B "/srv/snaps/go/shared_%d.snap.txt".
Proof.
  destruct C11_abs_dir_independent_witness as [Ha [Hf _]].
  split; [exact (path_abs_dir w11_cfg_abs w11_caller1 w11_caller2 w11_test false Ha Hf)|].
  split; [exact (path_abs_dir w11_cfg_abs w11_caller1 w11_caller2 w11_test true Ha Hf)|].
  split; vm_compute; reflexivity.
Qed.

(* ---------- C11_helper_frames_ignored: two helper frames (non-test files) before the test function's frame ---------- *)
Definition w11_h1 : frame := {| fr_func := B "bbmod/helper.Snap"; fr_file := B "/m/helper/helper.go" |}.
Definition w11_h2 : frame := {| fr_func := B "bbmod/helper/inner.Check"; fr_file := B "/m/helper/inner/check_testing.go" |}.
Definition w11_ftest : frame := {| fr_func := B "bbmod/pkg.TestX.func1"; fr_file := B "/m/pkg/a_test.go" |}.
Definition w11_frun : frame := {| fr_func := B "testing.tRunner"; fr_file := B "/go/src/testing/testing.go" |}.
Definition w11_fexit : frame := {| fr_func := B "runtime.goexit"; fr_file := B "/go/src/runtime/asm_amd64.s" |}.
Definition w11_hs : list frame := [w11_h1; w11_h2].
Definition w11_prev : bytes := B "/go/pkg/mod/go-snaps/snaps/snapshot.go".
(* a test function that lives in a file NOT named *_test.go (tRunner fallback) *)
Definition w11_h3 : frame := {| fr_func := B "bbmod/pkg.RunSuite.func2"; fr_file := B "/m/pkg/suite.go" |}.
Definition w11_hs_fb : list frame := [w11_h1; w11_h3].

Lemma w11_hs_ok :
  Forall (fun h => is_test_file (fr_file h) = false /\ beq (fr_func h) w11_trunner = false) w11_hs.
Proof. unfold w11_hs. repeat (apply Forall_cons; [split; vm_compute; reflexivity|]). apply Forall_nil. Qed.
Lemma w11_hs_fb_ok :
  Forall (fun h => is_test_file (fr_file h) = false /\ beq (fr_func h) w11_trunner = false) w11_hs_fb.
Proof. unfold w11_hs_fb. repeat (apply Forall_cons; [split; vm_compute; reflexivity|]). apply Forall_nil. Qed.

Lemma C11_helper_frames_ignored_witness :
  Forall (fun h => is_test_file (fr_file h) = false /\ beq (fr_func h) w11_trunner = false) w11_hs /\
  is_test_file (fr_file w11_ftest) = true /\ beq (fr_func w11_ftest) w11_trunner = false.
Proof. split; [exact w11_hs_ok|]. split; vm_compute; reflexivity. Qed.
Lemma C11_helper_frames_ignored_applied :
  base_caller_from w11_prev (w11_hs ++ w11_ftest :: [w11_frun; w11_fexit]) = fr_file w11_ftest /\
  base_caller (w11_hs ++ w11_ftest :: [w11_frun; w11_fexit]) = B "/m/pkg/a_test.go".
Proof.
  destruct C11_helper_frames_ignored_witness as [H1 [H2 H3]]. split.
  - exact (base_caller_skips_helpers w11_prev w11_hs w11_ftest [w11_frun; w11_fexit] H1 H2 H3).
  - exact (base_caller_skips_helpers [] w11_hs w11_ftest [w11_frun; w11_fexit] H1 H2 H3).
Qed.

(* ---------- C11_runner_fallback ---------- *)
Lemma C11_runner_fallback_witness :
  Forall (fun h => is_test_file (fr_file h) = false /\ beq (fr_func h) w11_trunner = false) w11_hs_fb /\
  beq (fr_func w11_frun) w11_trunner = true.
Proof. split; [exact w11_hs_fb_ok|]. vm_compute. reflexivity. Qed.
Lemma C11_runner_fallback_applied :
  base_caller_from w11_prev (w11_hs_fb ++ w11_frun :: [w11_fexit]) = last (map fr_file w11_hs_fb) w11_prev /\
  last (map fr_file w11_hs_fb) w11_prev = fr_file w11_h3.
Proof.
  destruct C11_runner_fallback_witness as [H1 H2]. split; [|reflexivity].
  exact (base_caller_trunner w11_prev w11_hs_fb w11_frun [w11_fexit] H1 H2).
Qed.

(* ---------- C11_ordinal_substitution: the generic standalone path of a real configuration whose test name holds a '%',
   cut at the "%d" that constructFilename appended ---------- *)
Definition w11_pct_test : bytes := B "TestA/100%d b".
Definition w11_pre : bytes := B "/m/pkg/shared/x/TestA_100%d b_".
Definition w11_post : bytes := B ".snap".
Definition w11_ord : bytes := dec 12.
Definition w11_generic : bytes := snapshot_path w11_cfg_rel w11_caller1 w11_pct_test true.

Lemma C11_ordinal_substitution_witness :
  In 37%N w11_pre /\ w11_generic = esc_pct w11_pre ++ 37%N :: 100%N :: esc_pct w11_post.
Proof.
  split; [|vm_compute; reflexivity].
  assert (E : existsb (N.eqb 37%N) w11_pre = true) by (vm_compute; reflexivity).
  apply existsb_exists in E. destruct E as [x [Hin Hx]]. apply N.eqb_eq in Hx. now subst x.
Qed.
Lemma C11_ordinal_substitution_applied :
  subst_d w11_generic w11_ord = w11_pre ++ w11_ord ++ w11_post /\
  subst_d w11_generic w11_ord = B "/m/pkg/shared/x/TestA_100%d b_12.snap".
Proof.
  destruct C11_ordinal_substitution_witness as [_ H2]. split.
  - rewrite H2. exact (subst_d_format w11_pre w11_post w11_ord).
  - vm_compute. reflexivity.
Qed.

(* ---------- C11_json_ext_default / C11_json_ext_given ---------- *)
Lemma C11_json_ext_default_witness : c_ext w11_cfg_rel = [] /\ c_dir w11_cfg_rel <> [] /\ c_update w11_cfg_rel = Some true.
Proof. split; [reflexivity|]. split; [discriminate|reflexivity]. Qed.
Lemma C11_json_ext_default_applied : c_ext (json_ext w11_cfg_rel) = B ".json".
Proof. exact (json_ext_default w11_cfg_rel (proj1 C11_json_ext_default_witness)). Qed.
Lemma C11_json_ext_given_witness : c_ext w11_cfg_abs <> [].
Proof. discriminate. Qed.
Lemma C11_json_ext_given_applied : json_ext w11_cfg_abs = w11_cfg_abs.
Proof. exact (json_ext_given w11_cfg_abs C11_json_ext_given_witness). Qed.

(* ---------- C11_trim_caller_dir_irrelevant: equal base names, different directories ---------- *)
Lemma C11_trim_caller_dir_irrelevant_witness :
  basename w11_caller1 = basename w11_caller3 /\ dirname w11_caller1 <> dirname w11_caller3 /\
  (* without -trimpath the two callers give different locations for this (relative Dir) configuration *)
  snapshot_path_gen false w11_cfg_rel w11_caller1 w11_test false <>
  snapshot_path_gen false w11_cfg_rel w11_caller3 w11_test false.
Proof.
  split; [vm_compute; reflexivity|]. split; apply beq_false_neq; vm_compute; reflexivity.
Qed.
Lemma C11_trim_caller_dir_irrelevant_applied :
  snapshot_path_gen true w11_cfg_rel w11_caller1 w11_test false =
  snapshot_path_gen true w11_cfg_rel w11_caller3 w11_test false /\
  snapshot_path_gen true w11_cfg_rel w11_caller1 w11_test true =
  snapshot_path_gen true w11_cfg_rel w11_caller3 w11_test true /\
  snapshot_path_gen true w11_cfg_rel w11_caller1 w11_test false = B "../shared/x/a_test.snap".
Proof.
  pose proof (proj1 C11_trim_caller_dir_irrelevant_witness) as E.
  split; [exact (trim_caller_dir_irrelevant w11_cfg_rel w11_caller1 w11_caller3 w11_test false E)|].
  split; [exact (trim_caller_dir_irrelevant w11_cfg_rel w11_caller1 w11_caller3 w11_test true E)|].
  vm_compute. reflexivity.
Qed.

(* ---------- representative statement for Properties/C11.v: named constants only ---------- *)
Lemma C11_witnesses_all :
  (is_abs (c_dir w11_cfg_abs) = true /\ c_filename w11_cfg_abs <> nil /\ w11_caller1 <> w11_caller2) /\
  (Forall (fun h => is_test_file (fr_file h) = false /\ beq (fr_func h) w11_trunner = false) w11_hs /\
   is_test_file (fr_file w11_ftest) = true /\ beq (fr_func w11_ftest) w11_trunner = false) /\
  (Forall (fun h => is_test_file (fr_file h) = false /\ beq (fr_func h) w11_trunner = false) w11_hs_fb /\
   beq (fr_func w11_frun) w11_trunner = true) /\
  (c_ext w11_cfg_rel = nil /\ c_ext w11_cfg_abs <> nil) /\
  (basename w11_caller1 = basename w11_caller3 /\ dirname w11_caller1 <> dirname w11_caller3).
Proof.
  split.
  { destruct C11_abs_dir_independent_witness as [H1 [H2 [H3 _]]]. exact (conj H1 (conj H2 H3)). }
  split; [exact C11_helper_frames_ignored_witness|].
  split; [exact C11_runner_fallback_witness|].
  split; [exact (conj (proj1 C11_json_ext_default_witness) C11_json_ext_given_witness)|].
  destruct C11_trim_caller_dir_irrelevant_witness as [H1 [H2 _]]. exact (conj H1 H2).
Qed.


(* ==================================================================================================== *)
(* fragment G6 *)
(* ==================================================================================================== *)
From Coq Require Import String.
From Coq Require Import List NArith Arith Bool Lia Permutation.
Import ListNotations.
From Snaps Require Import Base.Bytes Base.Lines Base.Dec Base.Assoc.
From Snaps Require Import Model.Difflib Model.DifflibSpec Model.Report Model.ReportSpec
  Model.Summary Model.ReportReader Model.ScriptGen.
From Snaps Require Import Proofs.BytesP Proofs.DifflibP Proofs.ReportP Proofs.SummaryP Proofs.ReportReaderP
  Proofs.ScriptGenP.
Local Open Scope list_scope.

(* ================================================================== *)
(* C13 - difflib / report / report reader / valid_script               *)
(* ================================================================== *)

(* ---- the instance ----
   Two texts of 16 lines, no final newline, with an empty line, a `---` line and a line ending in CR.
     stored   : a b "" --- e f g h i j k l m n o\r p
     received : a   "" --- e f g h i j k l m X o\r Y p
   i.e. line 2 deleted, line 14 replaced, a line inserted before the last one.  The equal run between the deletion and the
   replacement is 11 lines long (> 2 * context), so the report has TWO hunks, both with a range line (more than 10 lines). *)
Definition w13_la : list bytes :=
  [B "a"; B "b"; []; B "---"; B "e"; B "f"; B "g"; B "h"; B "i"; B "j"; B "k"; B "l"; B "m"; B "n";
   B "o" ++ [13%N]; B "p"].
Definition w13_lb : list bytes :=
  [B "a"; []; B "---"; B "e"; B "f"; B "g"; B "h"; B "i"; B "j"; B "k"; B "l"; B "m"; B "X";
   B "o" ++ [13%N]; B "Y"; B "p"].
Definition w13_a : bytes := join_nl w13_la.
Definition w13_b : bytes := join_nl w13_lb.
Definition w13_al : list bytes := split_newlines w13_a.
Definition w13_bl : list bytes := split_newlines w13_b.

(* the same two texts with line 8 ("h"), which lies OUTSIDE both hunks, changed to "H" in both *)
Definition w13_la2 : list bytes :=
  [B "a"; B "b"; []; B "---"; B "e"; B "f"; B "g"; B "H"; B "i"; B "j"; B "k"; B "l"; B "m"; B "n";
   B "o" ++ [13%N]; B "p"].
Definition w13_lb2 : list bytes :=
  [B "a"; []; B "---"; B "e"; B "f"; B "g"; B "H"; B "i"; B "j"; B "k"; B "l"; B "m"; B "X";
   B "o" ++ [13%N]; B "Y"; B "p"].
Definition w13_a2 : bytes := join_nl w13_la2.
Definition w13_b2 : bytes := join_nl w13_lb2.

Definition w13_name : bytes := B "pkg/__snapshots__/f_test.snap".
Definition w13_line : nat := 42.
Definition w13_line2 : nat := 7.
Definition w13_noname : bytes := [].

(* the model's script ... *)
Definition w13_ops : list opcode :=
  [mkop Equal 0 1 0 1; mkop Delete 1 2 1 1; mkop Equal 2 13 1 12; mkop Replace 13 14 12 13;
   mkop Equal 14 15 13 14; mkop Insert 15 15 14 15; mkop Equal 15 16 15 16].
(* ... and ANOTHER valid script of the same pair: the first Equal + Delete merged into one Replace, the Replace split into
   Insert + Delete (in that order) *)
Definition w13_hand : list opcode :=
  [mkop Replace 0 2 0 1; mkop Equal 2 13 1 12; mkop Insert 13 13 12 13; mkop Delete 13 14 13 13;
   mkop Equal 14 15 13 14; mkop Insert 15 15 14 15; mkop Equal 15 16 15 16].
(* an invalid one: lines 1..2 of the stored text are not covered *)
Definition w13_bad : list opcode :=
  [mkop Equal 2 13 1 12; mkop Replace 13 14 12 13; mkop Equal 14 15 13 14; mkop Insert 15 15 14 15;
   mkop Equal 15 16 15 16].
(* the all-Equal script of a text against itself *)
Definition w13_same : list opcode := [mkop Equal 0 16 0 16].

Definition w13_esc : N := 27%N.

Lemma w13_model_ops : get_opcodes w13_al w13_bl = w13_ops.
Proof. vm_compute. reflexivity. Qed.

Lemma w13_ne : w13_a <> w13_b.
Proof. apply beq_false_neq. vm_compute. reflexivity. Qed.

Lemma w13_name_ok : name_ok w13_name = true.
Proof. vm_compute. reflexivity. Qed.

Lemma w13_hand_valid : valid_script w13_al w13_bl w13_hand = true.
Proof. vm_compute. reflexivity. Qed.

(* the hand script is not the model's, and its report is another text *)
Lemma w13_hand_differs :
  w13_hand <> get_opcodes w13_al w13_bl /\
  report_of_script w13_a w13_b w13_hand w13_name w13_line <> pretty_diff_nocolor w13_a w13_b w13_name w13_line /\
  (r_del (unified_of_script w13_al w13_bl w13_hand), r_ins (unified_of_script w13_al w13_bl w13_hand)) = (3, 3) /\
  (r_del (unified_nocolor w13_a w13_b), r_ins (unified_nocolor w13_a w13_b)) = (2, 2).
Proof.
  split; [rewrite w13_model_ops; discriminate|].
  split; [apply beq_false_neq; vm_compute; reflexivity|].
  split; vm_compute; reflexivity.
Qed.

(* ---- deciders ---- *)
Definition w13_notin_b (x : N) (l : bytes) : bool := negb (existsb (N.eqb x) l).
Lemma w13_notin_b_sound x l : w13_notin_b x l = true -> ~ In x l.
Proof.
  unfold w13_notin_b. intros H Hin. apply negb_true_iff in H.
  assert (E : existsb (N.eqb x) l = true); [|congruence].
  apply existsb_exists. exists x. split; [assumption|apply N.eqb_refl].
Qed.

Definition w13_text_line_ok_b (l : bytes) : bool :=
  match rev l with
  | c :: r => N.eqb c nl && nonl (rev r)
  | [] => false
  end.
Lemma w13_text_line_ok_b_sound l : w13_text_line_ok_b l = true -> text_line_ok l.
Proof.
  unfold w13_text_line_ok_b. destruct (rev l) as [|c r] eqn:E; [discriminate|].
  intros H. apply andb_true_iff in H as [Hc Hr]. apply N.eqb_eq in Hc. subst c.
  exists (rev r). split; [|exact Hr].
  rewrite <- (rev_involutive l), E. reflexivity.
Qed.

Definition w13_rline_wf_b (r : rline) : bool :=
  match r with
  | REq l | RDel l | RIns l => w13_text_line_ok_b l
  | RRange r1 r2 => (is_range_spec r1 && forallb is_range_char r1) && (is_range_spec r2 && forallb is_range_char r2)
  end.
Lemma w13_rline_wf_b_sound r : w13_rline_wf_b r = true -> rline_wf r.
Proof.
  destruct r as [l|l|l|r1 r2]; cbn [w13_rline_wf_b rline_wf]; try apply w13_text_line_ok_b_sound.
  intros H. apply andb_true_iff in H as [H1 H2].
  apply andb_true_iff in H1 as [H1 H1']. apply andb_true_iff in H2 as [H2 H2'].
  split; split; assumption.
Qed.

(* membership by computation: normalise, then walk the disjunction *)
Ltac w13_in := vm_compute; repeat first [left; reflexivity | right].

(* ------------------------------------------------------------------ *)
(* C13_empty_iff (an equivalence): both sides, both ways *)
Lemma C13_empty_iff_witness :
  (pretty_diff_nocolor w13_a w13_a w13_name w13_line = [] /\ w13_a = w13_a) /\
  (pretty_diff_nocolor w13_a w13_b w13_name w13_line <> [] /\ w13_a <> w13_b).
Proof.
  split; [split; [vm_compute|]; reflexivity|].
  split; [apply beq_false_neq; vm_compute; reflexivity|exact w13_ne].
Qed.

(* C13_lines_truthful: a `-` line and a `+` line that ARE in the report *)
Definition w13_del_l : bytes := B "n" ++ [nl].
Definition w13_ins_l : bytes := B "Y" ++ [nl].
Lemma C13_lines_truthful_witness :
  In (RDel w13_del_l) (r_lines (unified_nocolor w13_a w13_b)) /\
  In (RIns w13_ins_l) (r_lines (unified_nocolor w13_a w13_b)).
Proof. split; w13_in. Qed.
Lemma C13_lines_truthful_applied :
  In w13_del_l (split_newlines w13_a) /\ In w13_ins_l (split_newlines w13_b).
Proof.
  destruct C13_lines_truthful_witness as [Hd Hi]. split.
  - exact (proj1 (report_lines_truthful w13_a w13_b w13_del_l) Hd).
  - exact (proj2 (report_lines_truthful w13_a w13_b w13_ins_l) Hi).
Qed.

(* C13_no_escape *)
Lemma C13_no_escape_witness : ~ In w13_esc (w13_a ++ w13_b ++ w13_name).
Proof. apply w13_notin_b_sound. vm_compute. reflexivity. Qed.
Lemma C13_no_escape_applied : ~ In w13_esc (pretty_diff_nocolor w13_a w13_b w13_name w13_line).
Proof. exact (pretty_diff_no_esc_In w13_a w13_b w13_name w13_line C13_no_escape_witness). Qed.

(* C13_split_inj (injectivity): the diagonal; off the diagonal the premise fails - also for two texts that differ only
   in the final newline *)
Definition w13_x : bytes := B "x".
Definition w13_xnl : bytes := B "x" ++ [nl].
Lemma C13_split_inj_witness :
  split_newlines w13_a = split_newlines w13_a /\
  split_newlines w13_a <> split_newlines w13_b /\
  split_newlines w13_x <> split_newlines w13_xnl.
Proof.
  split; [reflexivity|].
  split; vm_compute; discriminate.
Qed.

(* C13_longest_match_valid: the whole rectangle (the match starts INSIDE the window), and the window right of that match *)
Lemma C13_longest_match_valid_witness :
  (0 <= 16 /\ 16 <= length w13_al /\ 0 <= 16 /\ 16 <= length w13_bl /\
   find_longest_match w13_al w13_bl 0 16 0 16 = (2, 1, 11)) /\
  (13 <= 16 /\ 16 <= length w13_al /\ 12 <= 16 /\ 16 <= length w13_bl /\
   find_longest_match w13_al w13_bl 13 16 12 16 = (14, 13, 1)).
Proof.
  assert (La : length w13_al = 16) by (vm_compute; reflexivity).
  assert (Lb : length w13_bl = 16) by (vm_compute; reflexivity).
  rewrite La, Lb.
  repeat split; try lia; vm_compute; reflexivity.
Qed.
Lemma C13_longest_match_valid_applied :
  0 <= 2 /\ 2 + 11 <= 16 /\ 0 <= 1 /\ 1 + 11 <= 16 /\
  (forall t, t < 11 -> nth (2 + t) w13_al [] = nth (1 + t) w13_bl []).
Proof.
  destruct C13_longest_match_valid_witness as [(H1 & H2 & H3 & H4 & H5) _].
  exact (flm_valid w13_al w13_bl 0 16 0 16 2 1 11 H1 H2 H3 H4 H5).
Qed.

(* C13_tile_first / abut / last: concrete decompositions of the model's script *)
Definition w13_c0 : opcode := mkop Equal 0 1 0 1.
Definition w13_r0 : list opcode :=
  [mkop Delete 1 2 1 1; mkop Equal 2 13 1 12; mkop Replace 13 14 12 13;
   mkop Equal 14 15 13 14; mkop Insert 15 15 14 15; mkop Equal 15 16 15 16].
Definition w13_l1 : list opcode := [mkop Equal 0 1 0 1; mkop Delete 1 2 1 1].
Definition w13_c : opcode := mkop Equal 2 13 1 12.
Definition w13_d : opcode := mkop Replace 13 14 12 13.
Definition w13_l2 : list opcode := [mkop Equal 14 15 13 14; mkop Insert 15 15 14 15; mkop Equal 15 16 15 16].
Definition w13_linit : list opcode :=
  [mkop Equal 0 1 0 1; mkop Delete 1 2 1 1; mkop Equal 2 13 1 12; mkop Replace 13 14 12 13;
   mkop Equal 14 15 13 14; mkop Insert 15 15 14 15].
Definition w13_clast : opcode := mkop Equal 15 16 15 16.

Lemma C13_tile_first_witness : get_opcodes w13_al w13_bl = w13_c0 :: w13_r0.
Proof. vm_compute. reflexivity. Qed.
Lemma C13_tile_first_applied : i1 w13_c0 = 0 /\ j1 w13_c0 = 0.
Proof. exact (opcodes_tile_first w13_al w13_bl w13_c0 w13_r0 C13_tile_first_witness). Qed.

Lemma C13_tile_abut_witness : get_opcodes w13_al w13_bl = w13_l1 ++ w13_c :: w13_d :: w13_l2.
Proof. vm_compute. reflexivity. Qed.
Lemma C13_tile_abut_applied : i1 w13_d = i2 w13_c /\ j1 w13_d = j2 w13_c.
Proof. exact (opcodes_tile_abut w13_al w13_bl w13_l1 w13_c w13_d w13_l2 C13_tile_abut_witness). Qed.

Lemma C13_tile_last_witness : get_opcodes w13_al w13_bl = w13_linit ++ [w13_clast].
Proof. vm_compute. reflexivity. Qed.
Lemma C13_tile_last_applied : i2 w13_clast = length w13_al /\ j2 w13_clast = length w13_bl.
Proof. exact (opcodes_tile_last w13_al w13_bl w13_linit w13_clast C13_tile_last_witness). Qed.

(* C13_equal_sound: one opcode of each of the four tags is in the model's script *)
Definition w13_op_del : opcode := mkop Delete 1 2 1 1.
Definition w13_op_ins : opcode := mkop Insert 15 15 14 15.
Lemma C13_equal_sound_witness :
  In w13_c (get_opcodes w13_al w13_bl) /\ In w13_d (get_opcodes w13_al w13_bl) /\
  In w13_op_del (get_opcodes w13_al w13_bl) /\ In w13_op_ins (get_opcodes w13_al w13_bl).
Proof. rewrite w13_model_ops. repeat split; w13_in. Qed.
Lemma C13_equal_sound_applied :
  (slice w13_al 2 13 = slice w13_bl 1 12 /\ 2 < 13 /\ 1 < 12) /\ (13 < 14 /\ 12 < 13) /\
  (1 < 2 /\ 1 = 1) /\ (15 = 15 /\ 14 < 15).
Proof.
  destruct C13_equal_sound_witness as (H1 & H2 & H3 & H4).
  split; [exact (opcodes_equal_sound w13_al w13_bl w13_c H1)|].
  split; [exact (opcodes_equal_sound w13_al w13_bl w13_d H2)|].
  split; [exact (opcodes_equal_sound w13_al w13_bl w13_op_del H3)|].
  exact (opcodes_equal_sound w13_al w13_bl w13_op_ins H4).
Qed.

(* C13_report_readable / printed_counts / printed_lines_truthful: different texts, a name without newline *)
Lemma C13_report_readable_witness : w13_a <> w13_b /\ name_ok w13_name = true.
Proof. split; [exact w13_ne|exact w13_name_ok]. Qed.
Lemma C13_report_readable_applied :
  read_report (pretty_diff_nocolor w13_a w13_b w13_name w13_line)
  = Some (report_read_of (unified_nocolor w13_a w13_b) w13_name w13_line) /\
  rr_footer (report_read_of (unified_nocolor w13_a w13_b) w13_name w13_line) = Some (w13_name, w13_line) /\
  length (rr_lines (report_read_of (unified_nocolor w13_a w13_b) w13_name w13_line)) = 15.
Proof.
  split; [exact (read_report_correct w13_a w13_b w13_name w13_line w13_ne w13_name_ok)|].
  split; vm_compute; reflexivity.
Qed.
Lemma C13_printed_counts_witness : w13_a <> w13_b /\ name_ok w13_name = true.
Proof. exact C13_report_readable_witness. Qed.
Lemma C13_printed_counts_applied :
  exists rr, read_report (pretty_diff_nocolor w13_a w13_b w13_name w13_line) = Some rr /\
             rr_del_count rr = count_del (rr_lines rr) /\ rr_ins_count rr = count_ins (rr_lines rr).
Proof. exact (printed_counts w13_a w13_b w13_name w13_line w13_ne w13_name_ok). Qed.
Lemma C13_printed_lines_truthful_witness : w13_a <> w13_b /\ name_ok w13_name = true.
Proof. exact C13_report_readable_witness. Qed.
Lemma C13_printed_lines_truthful_applied :
  exists rr, read_report (pretty_diff_nocolor w13_a w13_b w13_name w13_line) = Some rr /\
             (forall l, In (RDel l) (rr_lines rr) -> In l (split_newlines w13_a)) /\
             (forall l, In (RIns l) (rr_lines rr) -> In l (split_newlines w13_b)).
Proof. exact (printed_lines_truthful w13_a w13_b w13_name w13_line w13_ne w13_name_ok). Qed.

(* C13_printed_injective (premise: two printed reports are the same bytes).
   (1) the diagonal;
   (2) OFF the diagonal, same name and line: the pair (a2, b2) differs from (a, b) in a line that no hunk shows;
   (3) OFF the diagonal, no name: then no footer is printed and the line numbers may differ;
   (4) where the premise fails: another line number under a non-empty name. *)
Lemma C13_printed_injective_witness :
  (w13_a <> w13_b /\ name_ok w13_name = true /\ name_ok w13_name = true /\
   pretty_diff_nocolor w13_a w13_b w13_name w13_line = pretty_diff_nocolor w13_a w13_b w13_name w13_line) /\
  (w13_a <> w13_b /\ name_ok w13_name = true /\ name_ok w13_name = true /\
   pretty_diff_nocolor w13_a w13_b w13_name w13_line = pretty_diff_nocolor w13_a2 w13_b2 w13_name w13_line /\
   w13_a <> w13_a2 /\ w13_b <> w13_b2) /\
  (w13_a <> w13_b /\ name_ok w13_noname = true /\ name_ok w13_noname = true /\
   pretty_diff_nocolor w13_a w13_b w13_noname w13_line = pretty_diff_nocolor w13_a2 w13_b2 w13_noname w13_line2 /\
   w13_line <> w13_line2) /\
  pretty_diff_nocolor w13_a w13_b w13_name w13_line <> pretty_diff_nocolor w13_a w13_b w13_name w13_line2.
Proof.
  split; [split; [exact w13_ne|]; split; [exact w13_name_ok|]; split; [exact w13_name_ok|reflexivity]|].
  split.
  { split; [exact w13_ne|]. split; [exact w13_name_ok|]. split; [exact w13_name_ok|].
    split; [vm_compute; reflexivity|].
    split; apply beq_false_neq; vm_compute; reflexivity. }
  split.
  { split; [exact w13_ne|]. split; [reflexivity|]. split; [reflexivity|].
    split; [vm_compute; reflexivity|]. vm_compute. discriminate. }
  apply beq_false_neq. vm_compute. reflexivity.
Qed.
Lemma C13_printed_injective_applied :
  (unified_nocolor w13_a w13_b = unified_nocolor w13_a2 w13_b2 /\ w13_name = w13_name /\
   (w13_name <> [] -> w13_line = w13_line)) /\
  (unified_nocolor w13_a w13_b = unified_nocolor w13_a2 w13_b2 /\ w13_noname = w13_noname /\
   (w13_noname <> [] -> w13_line = w13_line2)).
Proof.
  destruct C13_printed_injective_witness as (_ & (H1 & H2 & H3 & H4 & _) & (K1 & K2 & K3 & K4 & _) & _).
  split.
  - exact (printed_injective w13_a w13_b w13_name w13_line w13_a2 w13_b2 w13_name w13_line H1 H2 H3 H4).
  - exact (printed_injective w13_a w13_b w13_noname w13_line w13_a2 w13_b2 w13_noname w13_line2 K1 K2 K3 K4).
Qed.

(* ------------------------------------------------------------------ *)
(* the generic-script theorems, on the HAND script (not the model's) *)

(* C13_valid_script_spec (an equivalence): both sides for the hand script (the right side proved directly, not
   through the theorem), and both sides failing for a script with a gap *)
Ltac w13_op_wf :=
  unfold op_wf; cbn [op_tag i1 i2 j1 j2]; split; [lia|split; [lia|]];
  first [lia | split; [lia|split; [lia|vm_compute; reflexivity]]].
Lemma C13_valid_script_spec_witness :
  (valid_script w13_al w13_bl w13_hand = true /\
   tiles 0 0 w13_hand (length w13_al) (length w13_bl) /\ Forall (op_wf w13_al w13_bl) w13_hand) /\
  (valid_script w13_al w13_bl w13_bad = false /\ ~ tiles 0 0 w13_bad (length w13_al) (length w13_bl)).
Proof.
  split.
  - split; [exact w13_hand_valid|]. split.
    + vm_compute. repeat split.
    + unfold w13_hand. repeat (apply Forall_cons; [w13_op_wf|]). apply Forall_nil.
  - split; [vm_compute; reflexivity|].
    intros H. unfold w13_bad in H. cbn [tiles i1] in H. destruct H as [H _]. discriminate H.
Qed.

(* C13_script_empty_iff: valid script of two different texts (report not empty), and the all-Equal script of a text
   against itself (valid; report empty) *)
Lemma C13_script_empty_iff_witness :
  (valid_script (split_newlines w13_a) (split_newlines w13_b) w13_hand = true /\
   w13_a <> w13_b /\ report_of_script w13_a w13_b w13_hand w13_name w13_line <> []) /\
  (valid_script (split_newlines w13_a) (split_newlines w13_a) w13_same = true /\
   w13_a = w13_a /\ report_of_script w13_a w13_a w13_same w13_name w13_line = []).
Proof.
  split.
  - split; [exact w13_hand_valid|]. split; [exact w13_ne|].
    apply beq_false_neq. vm_compute. reflexivity.
  - split; [vm_compute; reflexivity|]. split; [reflexivity|vm_compute; reflexivity].
Qed.
Lemma C13_script_empty_iff_applied :
  report_of_script w13_a w13_b w13_hand w13_name w13_line = [] <-> w13_a = w13_b.
Proof. exact (report_of_script_empty_iff w13_a w13_b w13_hand w13_name w13_line w13_hand_valid). Qed.

(* C13_script_no_escape *)
Lemma C13_script_no_escape_witness : ~ In w13_esc (w13_a ++ w13_b ++ w13_name).
Proof. exact C13_no_escape_witness. Qed.
Lemma C13_script_no_escape_applied : ~ In w13_esc (report_of_script w13_a w13_b w13_hand w13_name w13_line).
Proof. exact (report_of_script_no_esc_In w13_a w13_b w13_hand w13_name w13_line C13_no_escape_witness). Qed.

(* C13_script_lines_truthful: the hand script shows "a" both as a `-` and as a `+` line (its first opcode is a Replace) *)
Definition w13_a_l : bytes := B "a" ++ [nl].
Lemma C13_script_lines_truthful_witness :
  In (RDel w13_a_l) (r_lines (unified_of_script w13_al w13_bl w13_hand)) /\
  In (RIns w13_a_l) (r_lines (unified_of_script w13_al w13_bl w13_hand)) /\
  ~ In (RDel w13_a_l) (r_lines (unified_nocolor w13_a w13_b)).
Proof.
  split; [w13_in|]. split; [w13_in|].
  vm_compute. intros H. repeat (destruct H as [H|H]; [discriminate H|]). exact H.
Qed.
Lemma C13_script_lines_truthful_applied : In w13_a_l w13_al /\ In w13_a_l w13_bl.
Proof.
  destruct C13_script_lines_truthful_witness as (Hd & Hi & _). split.
  - exact (proj1 (script_lines_truthful w13_al w13_bl w13_hand w13_a_l) Hd).
  - exact (proj2 (script_lines_truthful w13_al w13_bl w13_hand w13_a_l) Hi).
Qed.

(* C13_script_residual *)
Lemma C13_script_residual_witness :
  valid_script (split_newlines w13_a) (split_newlines w13_b) w13_hand = true /\ w13_hand <> get_opcodes w13_al w13_bl.
Proof. split; [exact w13_hand_valid|exact (proj1 w13_hand_differs)]. Qed.
Lemma C13_script_residual_applied :
  w13_al = concat (map (fun c => kept_a_of w13_al c ++ deleted_of w13_al c) w13_hand) /\
  w13_bl = concat (map (fun c => kept_a_of w13_al c ++ inserted_of w13_bl c) w13_hand) /\
  map (kept_a_of w13_al) w13_hand = map (kept_b_of w13_bl) w13_hand /\
  del_lines (r_lines (unified_of_script w13_al w13_bl w13_hand)) = concat (map (deleted_of w13_al) w13_hand) /\
  ins_lines (r_lines (unified_of_script w13_al w13_bl w13_hand)) = concat (map (inserted_of w13_bl) w13_hand).
Proof. exact (script_residual w13_a w13_b w13_hand w13_hand_valid). Qed.

(* C13_script_tile_first / abut / last: concrete decompositions of the hand script *)
Definition w13_h0 : opcode := mkop Replace 0 2 0 1.
Definition w13_hr : list opcode :=
  [mkop Equal 2 13 1 12; mkop Insert 13 13 12 13; mkop Delete 13 14 13 13;
   mkop Equal 14 15 13 14; mkop Insert 15 15 14 15; mkop Equal 15 16 15 16].
Definition w13_hl1 : list opcode := [mkop Replace 0 2 0 1; mkop Equal 2 13 1 12].
Definition w13_hc : opcode := mkop Insert 13 13 12 13.
Definition w13_hd : opcode := mkop Delete 13 14 13 13.
Definition w13_hl2 : list opcode := [mkop Equal 14 15 13 14; mkop Insert 15 15 14 15; mkop Equal 15 16 15 16].
Definition w13_hinit : list opcode :=
  [mkop Replace 0 2 0 1; mkop Equal 2 13 1 12; mkop Insert 13 13 12 13; mkop Delete 13 14 13 13;
   mkop Equal 14 15 13 14; mkop Insert 15 15 14 15].

Lemma C13_script_tile_first_witness :
  valid_script w13_al w13_bl w13_hand = true /\ w13_hand = w13_h0 :: w13_hr.
Proof. split; [exact w13_hand_valid|reflexivity]. Qed.
Lemma C13_script_tile_first_applied : i1 w13_h0 = 0 /\ j1 w13_h0 = 0.
Proof. exact (script_tile_first w13_al w13_bl w13_hand w13_hand_valid w13_h0 w13_hr eq_refl). Qed.

Lemma C13_script_tile_abut_witness :
  valid_script w13_al w13_bl w13_hand = true /\ w13_hand = w13_hl1 ++ w13_hc :: w13_hd :: w13_hl2.
Proof. split; [exact w13_hand_valid|reflexivity]. Qed.
Lemma C13_script_tile_abut_applied : i1 w13_hd = i2 w13_hc /\ j1 w13_hd = j2 w13_hc.
Proof. exact (script_tile_abut w13_al w13_bl w13_hand w13_hand_valid w13_hl1 w13_hc w13_hd w13_hl2 eq_refl). Qed.

Lemma C13_script_tile_last_witness :
  valid_script w13_al w13_bl w13_hand = true /\ w13_hand = w13_hinit ++ [w13_clast].
Proof. split; [exact w13_hand_valid|reflexivity]. Qed.
Lemma C13_script_tile_last_applied : i2 w13_clast = length w13_al /\ j2 w13_clast = length w13_bl.
Proof. exact (script_tile_last w13_al w13_bl w13_hand w13_hand_valid w13_hinit w13_clast eq_refl). Qed.

(* C13_script_equal_sound: one opcode of each tag in the hand script *)
Lemma C13_script_equal_sound_witness :
  valid_script w13_al w13_bl w13_hand = true /\
  In w13_c w13_hand /\ In w13_h0 w13_hand /\ In w13_hc w13_hand /\ In w13_hd w13_hand.
Proof. split; [exact w13_hand_valid|]. repeat split; w13_in. Qed.
Lemma C13_script_equal_sound_applied :
  (slice w13_al 2 13 = slice w13_bl 1 12 /\ 2 < 13 /\ 1 < 12) /\ (0 < 2 /\ 0 < 1) /\
  (13 = 13 /\ 12 < 13) /\ (13 < 14 /\ 13 = 13).
Proof.
  destruct C13_script_equal_sound_witness as (Hv & H1 & H2 & H3 & H4).
  split; [exact (script_equal_sound w13_al w13_bl w13_hand Hv w13_c H1)|].
  split; [exact (script_equal_sound w13_al w13_bl w13_hand Hv w13_h0 H2)|].
  split; [exact (script_equal_sound w13_al w13_bl w13_hand Hv w13_hc H3)|].
  exact (script_equal_sound w13_al w13_bl w13_hand Hv w13_hd H4).
Qed.

(* C13_script_replay, C13_script_hunks_contiguous *)
Lemma C13_script_replay_witness : valid_script w13_al w13_bl w13_hand = true.
Proof. exact w13_hand_valid. Qed.
Lemma C13_script_replay_applied : replay_b w13_al w13_bl w13_hand = w13_bl /\ replay_a w13_al w13_hand = w13_al.
Proof. exact (script_replay w13_al w13_bl w13_hand w13_hand_valid). Qed.
Lemma C13_script_hunks_contiguous_witness :
  valid_script w13_al w13_bl w13_hand = true /\ length (grouped_of_codes context w13_hand) = 2.
Proof. split; [exact w13_hand_valid|vm_compute; reflexivity]. Qed.
Lemma C13_script_hunks_contiguous_applied : forall n, Forall abuts (grouped_of_codes n w13_hand).
Proof. exact (script_hunks_contiguous w13_al w13_bl w13_hand w13_hand_valid). Qed.

(* C13_script_report_readable / printed_counts / printed_lines_truthful / printed_residual *)
Lemma C13_script_report_readable_witness :
  valid_script (split_newlines w13_a) (split_newlines w13_b) w13_hand = true /\ w13_a <> w13_b /\
  name_ok w13_name = true.
Proof. split; [exact w13_hand_valid|]. split; [exact w13_ne|exact w13_name_ok]. Qed.
Lemma C13_script_report_readable_applied :
  read_report (report_of_script w13_a w13_b w13_hand w13_name w13_line)
  = Some (report_read_of (unified_of_script w13_al w13_bl w13_hand) w13_name w13_line) /\
  read_report (report_of_script w13_a w13_b w13_hand w13_name w13_line)
  <> read_report (pretty_diff_nocolor w13_a w13_b w13_name w13_line).
Proof.
  pose proof (read_report_of_script w13_a w13_b w13_hand w13_name w13_line w13_hand_valid w13_ne w13_name_ok) as R.
  split; [exact R|].
  rewrite R, (read_report_correct w13_a w13_b w13_name w13_line w13_ne w13_name_ok).
  vm_compute. discriminate.
Qed.
Lemma C13_script_printed_counts_witness :
  valid_script (split_newlines w13_a) (split_newlines w13_b) w13_hand = true /\ w13_a <> w13_b /\
  name_ok w13_name = true.
Proof. exact C13_script_report_readable_witness. Qed.
Lemma C13_script_printed_counts_applied :
  exists rr, read_report (report_of_script w13_a w13_b w13_hand w13_name w13_line) = Some rr /\
             rr_del_count rr = count_del (rr_lines rr) /\ rr_ins_count rr = count_ins (rr_lines rr).
Proof. exact (script_printed_counts w13_a w13_b w13_hand w13_name w13_line w13_hand_valid w13_ne w13_name_ok). Qed.
Lemma C13_script_printed_lines_truthful_witness :
  valid_script (split_newlines w13_a) (split_newlines w13_b) w13_hand = true /\ w13_a <> w13_b /\
  name_ok w13_name = true.
Proof. exact C13_script_report_readable_witness. Qed.
Lemma C13_script_printed_lines_truthful_applied :
  exists rr, read_report (report_of_script w13_a w13_b w13_hand w13_name w13_line) = Some rr /\
             (forall l, In (RDel l) (rr_lines rr) -> In l (split_newlines w13_a)) /\
             (forall l, In (RIns l) (rr_lines rr) -> In l (split_newlines w13_b)).
Proof.
  exact (script_printed_lines_truthful w13_a w13_b w13_hand w13_name w13_line w13_hand_valid w13_ne w13_name_ok).
Qed.
Lemma C13_script_printed_residual_witness :
  valid_script (split_newlines w13_a) (split_newlines w13_b) w13_hand = true /\ w13_a <> w13_b /\
  name_ok w13_name = true.
Proof. exact C13_script_report_readable_witness. Qed.
Lemma C13_script_printed_residual_applied :
  exists rr, read_report (report_of_script w13_a w13_b w13_hand w13_name w13_line) = Some rr /\
    w13_al = concat (map (fun c => kept_a_of w13_al c ++ deleted_of w13_al c) w13_hand) /\
    w13_bl = concat (map (fun c => kept_a_of w13_al c ++ inserted_of w13_bl c) w13_hand) /\
    map (kept_a_of w13_al) w13_hand = map (kept_b_of w13_bl) w13_hand /\
    del_lines (rr_lines rr) = concat (map (deleted_of w13_al) w13_hand) /\
    ins_lines (rr_lines rr) = concat (map (inserted_of w13_bl) w13_hand).
Proof.
  exact (script_printed_residual w13_a w13_b w13_hand w13_name w13_line w13_hand_valid w13_ne w13_name_ok).
Qed.

(* ------------------------------------------------------------------ *)
(* C13_reader_label_irrelevant: labels other than the real ones (of other lengths, one with punctuation), on
   (1) the structured report of the hand script, (2) a structure that comes from NO diff (counts of different widths that
   do not even match the lines: the theorem does not ask for that), with a range line *)
Definition w13_ld : bytes := B "Expected".
Definition w13_li : bytes := B "got:".
Definition w13_ld_real : bytes := B "Snapshot".
Definition w13_li_real : bytes := B "Received".
Definition w13_u : acc3 := unified_of_script w13_al w13_bl w13_hand.
Definition w13_u_free : acc3 :=
  ([RRange (B "3,2") (B "7"); REq (B "x" ++ [nl]); RDel (B "- y" ++ [nl]); RIns (B "@@ -1 +1 @@" ++ [nl]);
    REq (new_line_symbol ++ [nl])], 120, 7).

Lemma C13_reader_label_irrelevant_witness :
  (label_ok w13_ld = true /\ label_ok w13_li = true /\ Forall rline_wf (r_lines w13_u) /\ r_lines w13_u <> [] /\
   name_ok w13_name = true) /\
  (label_ok w13_ld = true /\ label_ok w13_li = true /\ Forall rline_wf (r_lines w13_u_free) /\
   r_lines w13_u_free <> [] /\ name_ok w13_name = true) /\
  w13_ld <> w13_ld_real /\ w13_li <> w13_li_real /\
  render_lbl w13_ld w13_li w13_u w13_name w13_line <> render_nocolor w13_u w13_name w13_line /\
  render_lbl w13_ld w13_li w13_u_free w13_name w13_line <> render_nocolor w13_u_free w13_name w13_line.
Proof.
  split.
  { split; [reflexivity|]. split; [reflexivity|].
    split; [apply (forallb_Forall w13_rline_wf_b rline_wf _ w13_rline_wf_b_sound); vm_compute; reflexivity|].
    split; [vm_compute; discriminate|exact w13_name_ok]. }
  split.
  { split; [reflexivity|]. split; [reflexivity|].
    split; [apply (forallb_Forall w13_rline_wf_b rline_wf _ w13_rline_wf_b_sound); vm_compute; reflexivity|].
    split; [vm_compute; discriminate|exact w13_name_ok]. }
  split; [vm_compute; discriminate|]. split; [vm_compute; discriminate|].
  split; apply beq_false_neq; vm_compute; reflexivity.
Qed.
Lemma C13_reader_label_irrelevant_applied :
  read_report (render_lbl w13_ld w13_li w13_u w13_name w13_line) = read_report (render_nocolor w13_u w13_name w13_line) /\
  read_report (render_lbl w13_ld w13_li w13_u_free w13_name w13_line)
  = read_report (render_nocolor w13_u_free w13_name w13_line) /\
  read_report (render_nocolor w13_u_free w13_name w13_line) = Some (report_read_of w13_u_free w13_name w13_line).
Proof.
  destruct C13_reader_label_irrelevant_witness as ((A1 & A2 & A3 & A4 & A5) & (B1 & B2 & B3 & B4 & B5) & _).
  split; [exact (read_report_label_irrelevant w13_ld w13_li w13_u w13_name w13_line A1 A2 A3 A4 A5)|].
  split; [exact (read_report_label_irrelevant w13_ld w13_li w13_u_free w13_name w13_line B1 B2 B3 B4 B5)|].
  vm_compute. reflexivity.
Qed.

(* ------------------------------------------------------------------ *)
(* the representative statement (named constants only) *)
Lemma C13_witnesses_all :
  valid_script w13_al w13_bl w13_hand = true /\ w13_hand <> get_opcodes w13_al w13_bl /\
  w13_a <> w13_b /\ name_ok w13_name = true /\
  get_opcodes w13_al w13_bl = app w13_l1 (cons w13_c (cons w13_d w13_l2)) /\
  w13_hand = app w13_hl1 (cons w13_hc (cons w13_hd w13_hl2)) /\
  pretty_diff_nocolor w13_a w13_b w13_name w13_line = pretty_diff_nocolor w13_a2 w13_b2 w13_name w13_line /\
  w13_a <> w13_a2 /\ w13_b <> w13_b2 /\
  ~ In w13_esc (app w13_a (app w13_b w13_name)) /\
  label_ok w13_ld = true /\ label_ok w13_li = true /\ Forall rline_wf (r_lines w13_u_free) /\
  r_lines w13_u_free <> nil.
Proof.
  destruct C13_printed_injective_witness as (_ & (_ & _ & _ & E & N1 & N2) & _).
  destruct C13_reader_label_irrelevant_witness as (_ & (B1 & B2 & B3 & B4 & _) & _).
  split; [exact w13_hand_valid|]. split; [exact (proj1 w13_hand_differs)|].
  split; [exact w13_ne|]. split; [exact w13_name_ok|].
  split; [exact C13_tile_abut_witness|]. split; [reflexivity|].
  split; [exact E|]. split; [exact N1|]. split; [exact N2|].
  split; [exact C13_no_escape_witness|].
  split; [exact B1|]. split; [exact B2|]. split; [exact B3|exact B4].
Qed.


(* ==================================================================================================== *)
(* fragment G7 *)
(* ==================================================================================================== *)
(* Wit_G7: non-vacuity witnesses for Properties/C14.v (JSON canonicalisation), Properties/C15.v (matchers change only
   what they target) and Properties/C16.v (masked fields never influence the snapshot). *)
From Coq Require Import String.
From Coq Require Import List NArith Arith Bool Lia Permutation.
Import ListNotations.
From Snaps Require Import Base.Bytes Base.Lines Base.Dec Base.Assoc.
From Snaps Require Import Model.Json Model.JsonSpec Model.Matchers.
From Snaps Require Import Proofs.BytesP Proofs.JsonP Proofs.MaskP Proofs.MatchersP.
Local Open Scope list_scope.

(* ================================================================== *)
(* C14 - JSON snapshots are canonical and lossless                     *)
(* ================================================================== *)

(* the instance: one nested document - an object holding an array (numbers, one with fraction and exponent, an object,
   an empty array), a nested object (a string with the escapes backslash-quote, backslash-n, backslash-u00e9 and a bare /, false) and an empty object;
   null / true / false all occur.  Members are NOT in key order, at both depths. *)
Definition w14_str : jv := JStr (B "q\""x\n\u00e9/").
Definition w14_zy : jv := JObj [(B "z", JNull); (B "y", JTrue)].
Definition w14_yz : jv := JObj [(B "y", JTrue); (B "z", JNull)].
Definition w14_tags (o : jv) : jv := JArr [JNum (B "1"); JNum (B "-2.50e+3"); o; JArr []].
Definition w14_meta : jv := JObj [(B "name", w14_str); (B "ok", JFalse)].
Definition w14_meta_p : jv := JObj [(B "ok", JFalse); (B "name", w14_str)].
Definition w14_v : jv := JObj [(B "tags", w14_tags w14_zy); (B "meta", w14_meta); (B "empty", JObj [])].
(* the same document with the members permuted at depth 1 (reversed), at depth 2 ("meta") and at depth 3 (the object
   inside the array) *)
Definition w14_vp : jv := JObj [(B "empty", JObj []); (B "meta", w14_meta_p); (B "tags", w14_tags w14_yz)].

(* a hand-written text of the document with irregular whitespace: leading space+tab, a newline+two spaces inside the
   array, CR LF between members, a tab inside the empty object, a final newline *)
Definition w14_text : bytes :=
  ([32; 9]%N ++ B "{ ""tags"" :[1 ,-2.50e+3," ++ [10; 32; 32]%N ++ B "{""z"":null , ""y"":true},[ ]]" ++ [13; 10]%N ++
   B ",""meta"": {""name"" : ""q\""x\n\u00e9/"", ""ok"":false } ,""empty"":{" ++ [9]%N ++ B "}}" ++ [10]%N)%list.

(* two whitespace layouts, computed from the gap address: every gap of [w14_l1] holds at least one byte (spaces, tabs,
   newlines, carriage returns, depending on the address); [w14_l2] leaves some gaps empty and fills others with up to
   two bytes *)
Definition w14_wsb (n : nat) : N :=
  match Nat.modulo n 4 with O => 32%N | S O => 9%N | S (S O) => 10%N | _ => 13%N end.
Definition w14_l1 : layout := fun p => map w14_wsb p.
Definition w14_l2 : layout := fun p => repeat (w14_wsb (list_sum p)) (List.length p mod 3).

(* Indent / Width settings: a tab with Width 30 (some arrays fit on one line), two spaces with Width 0 *)
Definition w14_tab : bytes := [9%N].
Definition w14_two : bytes := [32%N; 32%N].
Definition w14_width : nat := 30.
(* an Indent that is not whitespace (allowed by C14_no_frame_lines): three dashes *)
Definition w14_dashes : bytes := B "---".
Definition w14_fuel : nat := 400.

Lemma w14_wsb_ws n : is_ws (w14_wsb n) = true.
Proof. unfold w14_wsb. destruct (Nat.modulo n 4) as [|[|[|k]]]; reflexivity. Qed.

Lemma w14_l1_ws : ws_layout w14_l1.
Proof.
  intros p. unfold ws_bytes, w14_l1. induction p as [|n p IH]; [reflexivity|].
  cbn [map forallb]. now rewrite w14_wsb_ws, IH.
Qed.

Lemma w14_l2_ws : ws_layout w14_l2.
Proof.
  intros p. unfold ws_bytes, w14_l2. generalize (List.length p mod 3) as k. generalize (list_sum p) as s.
  intros s k. induction k as [|k IH]; [reflexivity|]. cbn [repeat forallb]. now rewrite w14_wsb_ws, IH.
Qed.

Lemma w14_text_parses : parse (S (List.length w14_text)) w14_text = Some w14_v.
Proof. vm_compute. reflexivity. Qed.

Lemma w14_text_valid : valid w14_text = true.
Proof. vm_compute. reflexivity. Qed.

(* well-formedness through the verified parser: what [parse] returns is well-formed ([parse_wf]) *)
Lemma w14_v_wf : wf_json w14_v.
Proof. exact (parse_wf _ _ _ w14_text_parses). Qed.

Lemma w14_vp_wf : wf_json w14_vp.
Proof.
  apply (parse_wf (S (List.length (JsonSpec.render compact w14_vp))) (JsonSpec.render compact w14_vp)).
  vm_compute. reflexivity.
Qed.

Lemma w14_tab_ws : ws_bytes w14_tab.
Proof. reflexivity. Qed.
Lemma w14_two_ws : ws_bytes w14_two.
Proof. reflexivity. Qed.

Lemma w14_jperm : jperm w14_v w14_vp.
Proof.
  unfold w14_v, w14_vp.
  apply (jp_obj _ [(B "tags", w14_tags w14_yz); (B "meta", w14_meta_p); (B "empty", JObj [])]).
  - constructor.
    { split; [reflexivity|]. cbn [snd]. unfold w14_tags. apply jp_arr.
      constructor; [apply jp_num|]. constructor; [apply jp_num|]. constructor.
      { unfold w14_zy, w14_yz. apply (jp_obj _ [(B "z", JNull); (B "y", JTrue)]).
        - constructor; [split; [reflexivity|apply jp_null]|].
          constructor; [split; [reflexivity|apply jp_true]|constructor].
        - apply perm_swap. }
      constructor; [apply jp_arr; constructor|constructor]. }
    constructor.
    { split; [reflexivity|]. cbn [snd]. unfold w14_meta, w14_meta_p.
      apply (jp_obj _ [(B "name", w14_str); (B "ok", JFalse)]).
      - constructor; [split; [reflexivity|apply jp_str]|].
        constructor; [split; [reflexivity|apply jp_false]|constructor].
      - apply perm_swap. }
    constructor; [|constructor].
    split; [reflexivity|]. cbn [snd]. apply (jp_obj [] [] []); constructor.
  - exact (Permutation_rev [(B "tags", w14_tags w14_yz); (B "meta", w14_meta_p); (B "empty", JObj [])]).
Qed.

(* ---- C14_parse_render ---- *)
Lemma C14_parse_render_witness :
  wf_json w14_v /\ ws_layout w14_l1 /\ List.length (JsonSpec.render w14_l1 w14_v) <= w14_fuel /\
  JsonSpec.render w14_l1 w14_v <> JsonSpec.render compact w14_v.
Proof.
  split; [exact w14_v_wf|]. split; [exact w14_l1_ws|].
  split; [apply Nat.leb_le; vm_compute; reflexivity|vm_compute; discriminate].
Qed.

Lemma C14_parse_render_applied : parse w14_fuel (JsonSpec.render w14_l1 w14_v) = Some w14_v.
Proof.
  destruct C14_parse_render_witness as [Hw [Hl [Hf _]]].
  exact (parse_render w14_l1 w14_v w14_fuel Hw Hl Hf).
Qed.

(* ---- C14_valid_is_rendering ---- *)
Lemma C14_valid_is_rendering_witness : valid w14_text = true.
Proof. exact w14_text_valid. Qed.

Lemma C14_valid_is_rendering_applied :
  exists (v : jv) (l : layout), wf_json v /\ ws_layout l /\ w14_text = JsonSpec.render l v.
Proof. exact (valid_is_render w14_text w14_text_valid). Qed.

(* ---- C14_lossless ---- *)
Lemma C14_lossless_witness :
  parse (S (List.length w14_text)) w14_text = Some w14_v /\ ws_bytes w14_tab /\
  List.length (snapshot_json w14_width w14_tab true w14_text) <= w14_fuel /\
  List.length (snapshot_json w14_width w14_tab false w14_text) <= w14_fuel /\
  sort_if true w14_v <> w14_v.
Proof.
  split; [exact w14_text_parses|]. split; [exact w14_tab_ws|].
  split; [apply Nat.leb_le; vm_compute; reflexivity|].
  split; [apply Nat.leb_le; vm_compute; reflexivity|vm_compute; discriminate].
Qed.

Lemma C14_lossless_applied :
  parse w14_fuel (snapshot_json w14_width w14_tab true w14_text) = Some (sort_if true w14_v) /\
  parse w14_fuel (snapshot_json w14_width w14_tab false w14_text) = Some (sort_if false w14_v).
Proof.
  destruct C14_lossless_witness as [Hp [Hi [Hf1 [Hf2 _]]]]. split.
  - exact (snapshot_lossless w14_width w14_tab true w14_text w14_v w14_fuel Hp Hi Hf1).
  - exact (snapshot_lossless w14_width w14_tab false w14_text w14_v w14_fuel Hp Hi Hf2).
Qed.

(* ---- C14_stored_is_valid ---- *)
Lemma C14_stored_is_valid_witness : valid w14_text = true /\ ws_bytes w14_two.
Proof. split; [exact w14_text_valid|exact w14_two_ws]. Qed.

Lemma C14_stored_is_valid_applied : forall sk, valid (snapshot_json 0 w14_two sk w14_text) = true.
Proof. intros sk. exact (snapshot_valid 0 w14_two sk w14_text w14_text_valid w14_two_ws). Qed.

(* ---- C14_whitespace_insensitive ---- *)
Lemma C14_whitespace_insensitive_witness :
  wf_json w14_v /\ ws_layout w14_l1 /\ ws_layout w14_l2 /\
  JsonSpec.render w14_l1 w14_v <> JsonSpec.render w14_l2 w14_v /\ JsonSpec.render w14_l2 w14_v <> JsonSpec.render compact w14_v.
Proof.
  split; [exact w14_v_wf|]. split; [exact w14_l1_ws|]. split; [exact w14_l2_ws|].
  split; vm_compute; discriminate.
Qed.

Lemma C14_whitespace_insensitive_applied : forall width indent sk,
  snapshot_json width indent sk (JsonSpec.render w14_l1 w14_v) = snapshot_json width indent sk (JsonSpec.render w14_l2 w14_v).
Proof.
  intros width indent sk.
  exact (snapshot_ws_insensitive width indent sk w14_v w14_l1 w14_l2 w14_v_wf w14_l1_ws w14_l2_ws).
Qed.

(* ---- C14_member_order_insensitive ---- *)
Lemma C14_member_order_insensitive_witness :
  jperm w14_v w14_vp /\ distinct_keys w14_v = true /\ wf_json w14_v /\ wf_json w14_vp /\
  ws_layout w14_l1 /\ ws_layout w14_l2 /\ w14_v <> w14_vp /\
  (* without SortKeys the two texts do NOT store identically: the hypothesis sk = true matters *)
  snapshot_json 0 w14_two false (JsonSpec.render w14_l1 w14_v) <> snapshot_json 0 w14_two false (JsonSpec.render w14_l2 w14_vp).
Proof.
  split; [exact w14_jperm|]. split; [vm_compute; reflexivity|]. split; [exact w14_v_wf|].
  split; [exact w14_vp_wf|]. split; [exact w14_l1_ws|]. split; [exact w14_l2_ws|].
  split; [discriminate|vm_compute; discriminate].
Qed.

Lemma C14_member_order_insensitive_applied : forall width indent,
  snapshot_json width indent true (JsonSpec.render w14_l1 w14_v) = snapshot_json width indent true (JsonSpec.render w14_l2 w14_vp).
Proof.
  intros width indent.
  exact (snapshot_perm_insensitive width indent w14_v w14_vp w14_l1 w14_l2 w14_jperm
           (proj1 (proj2 C14_member_order_insensitive_witness)) w14_v_wf w14_vp_wf w14_l1_ws w14_l2_ws).
Qed.

(* ---- C14_idempotent ---- *)
Lemma C14_idempotent_witness :
  valid w14_text = true /\ ws_bytes w14_tab /\ snapshot_json w14_width w14_tab true w14_text <> w14_text.
Proof. split; [exact w14_text_valid|]. split; [exact w14_tab_ws|vm_compute; discriminate]. Qed.

Lemma C14_idempotent_applied : forall sk,
  snapshot_json w14_width w14_tab sk (snapshot_json w14_width w14_tab sk w14_text) =
  snapshot_json w14_width w14_tab sk w14_text.
Proof. intros sk. exact (snapshot_idempotent w14_width w14_tab sk w14_text w14_text_valid w14_tab_ws). Qed.

(* ---- C14_no_frame_lines ---- *)
(* the Indent need not be whitespace here: three dashes, so that some stored lines START with --- *)
Definition w14_line : bytes := B "---""empty"": {},".
Lemma C14_no_frame_lines_witness :
  valid w14_text = true /\ JsonSpec.no_nl_b w14_dashes = true /\
  In w14_line (split_nl (snapshot_json 0 w14_dashes true w14_text)) /\
  frame_line w14_dashes = true /\ is_prefix w14_dashes w14_line = true.
Proof.
  split; [exact w14_text_valid|]. split; [vm_compute; reflexivity|].
  split; [vm_compute; right; left; reflexivity|]. split; vm_compute; reflexivity.
Qed.

Lemma C14_no_frame_lines_applied : forall line,
  In line (split_nl (snapshot_json 0 w14_dashes true w14_text)) -> frame_line line = false.
Proof.
  intros line Hin.
  exact (canon_no_frame_lines 0 w14_dashes true w14_text line w14_text_valid
           (proj1 (proj2 C14_no_frame_lines_witness)) Hin).
Qed.

(* ---- C14_fuel ---- *)
Definition w14_f1 : nat := List.length w14_text.
Definition w14_f2 : nat := w14_fuel.
Lemma C14_fuel_witness :
  List.length w14_text <= w14_f1 /\ List.length w14_text <= w14_f2 /\ w14_f1 <> w14_f2 /\
  (* with too little fuel the parser does give up: the premise matters *)
  parse 5 w14_text = None.
Proof.
  split; [apply le_n|]. split; [apply Nat.leb_le; vm_compute; reflexivity|].
  split; [vm_compute; discriminate|vm_compute; reflexivity].
Qed.

Lemma C14_fuel_applied : parse w14_f1 w14_text = parse w14_f2 w14_text /\ parse w14_f2 w14_text = Some w14_v.
Proof.
  destruct C14_fuel_witness as [H1 [H2 _]]. split.
  - exact (parse_fuel_enough w14_f1 w14_f2 w14_text H1 H2).
  - vm_compute. reflexivity.
Qed.

(* representative statement (named constants only) *)
Lemma C14_witnesses_all :
  wf_json w14_v /\ wf_json w14_vp /\ ws_layout w14_l1 /\ ws_layout w14_l2 /\
  jperm w14_v w14_vp /\ distinct_keys w14_v = true /\ w14_v <> w14_vp /\
  JsonSpec.render w14_l1 w14_v <> JsonSpec.render w14_l2 w14_v /\
  valid w14_text = true /\ ws_bytes w14_tab /\ ws_bytes w14_two /\
  snapshot_json w14_width w14_tab true w14_text <> w14_text.
Proof.
  split; [exact w14_v_wf|]. split; [exact w14_vp_wf|]. split; [exact w14_l1_ws|]. split; [exact w14_l2_ws|].
  split; [exact w14_jperm|]. split; [vm_compute; reflexivity|]. split; [discriminate|].
  split; [exact (proj1 (proj2 (proj2 (proj2 C14_whitespace_insensitive_witness))))|].
  split; [exact w14_text_valid|]. split; [exact w14_tab_ws|]. split; [exact w14_two_ws|].
  exact (proj2 (proj2 C14_idempotent_witness)).
Qed.

(* ================================================================== *)
(* C15 - matchers change only what they target                         *)
(* ================================================================== *)

(* the instance: an object holding an array of objects that hold arrays (paths mix keys and indices, length up to 4),
   a number, and a nested object whose KEY is written with an escape (the raw key me-backslash-u0074-a is the key "meta": a path component
   is compared with the DECODED key, [key_is]) *)
Definition w15_ann : jv := JObj [(B "name", JStr (B "ann")); (B "roles", JArr [JStr (B "admin"); JStr (B "dev")])].
Definition w15_bob : jv := JObj [(B "name", JStr (B "bob")); (B "roles", JArr [])].
Definition w15_users : list jv := [w15_ann; w15_bob].
Definition w15_metakey : bytes := B "me\u0074a".
Definition w15_meta : jv := JObj [(B "ts", JStr (B "t0")); (B "nil", JNull)].
Definition w15_m : list (bytes * jv) :=
  [(B "users", JArr w15_users); (B "count", JNum (B "2")); (w15_metakey, w15_meta)].
Definition w15_v : jv := JObj w15_m.
Definition w15_doc : bytes :=
  B "{""users"":[{""name"":""ann"",""roles"":[""admin"",""dev""]},{""name"":""bob"",""roles"":[]}],""count"":2,""me\u0074a"":{""ts"":""t0"",""nil"":null}}".

Definition w15_x : jv := any_placeholder.
(* the target: users[0].roles[1]; an observation path next to it: users[1].name; a path that does not exist *)
Definition w15_p : list pstep := [PKey (B "users"); PIdx 0; PKey (B "roles"); PIdx 1].
Definition w15_q : list pstep := [PKey (B "users"); PIdx 1; PKey (B "name")].
Definition w15_missing : list pstep := [PKey (B "users"); PIdx 1; PKey (B "roles"); PIdx 0].
Definition w15_ann' : jv := JObj [(B "name", JStr (B "ann")); (B "roles", JArr [JStr (B "admin"); w15_x])].
Definition w15_v' : jv := JObj [(B "users", JArr [w15_ann'; w15_bob]); (B "count", JNum (B "2")); (w15_metakey, w15_meta)].

(* object shape: the key "meta" (third member, raw key with an escape), then "ts" *)
Definition w15_k : bytes := B "meta".
Definition w15_ktail : list pstep := [PKey (B "ts")].
Definition w15_vk' : jv :=
  JObj [(B "users", JArr w15_users); (B "count", JNum (B "2")); (w15_metakey, JObj [(B "ts", w15_x); (B "nil", JNull)])].
(* array shape: element 1 of the users array, then "name" *)
Definition w15_itail : list pstep := [PKey (B "name")].
Definition w15_arr' : jv := JArr [w15_ann; JObj [(B "name", w15_x); (B "roles", JArr [])]].

(* the same target as a path TEXT, and an ancestor of it *)
Definition w15_ptext : bytes := B "users.0.roles.1".
Definition w15_comps : list bytes := [B "users"; B "0"; B "roles"; B "1"].
Definition w15_anc : bytes := B "users.0".
Definition w15_c1 : list bytes := [B "users"; B "0"].
Definition w15_c2 : list bytes := [B "roles"; B "1"].

(* a matcher list: Any on two paths (one through the escaped key), a Type matcher that FAILS (name is not a number),
   a Custom matcher on a missing path (tolerated), a Type matcher that succeeds *)
Definition w15_ms : list matcher :=
  [MAny [w15_ptext; B "meta.ts"] any_placeholder true;
   MType [B "users.0.name"] TNumber true;
   MCustom (B "users.1.roles.0") (CRValue JNull) false;
   MType [B "count"] TNumber true].

Lemma w15_doc_parses : parse (S (List.length w15_doc)) w15_doc = Some w15_v.
Proof. vm_compute. reflexivity. Qed.
Lemma w15_v_wf : wf_json w15_v.
Proof. exact (parse_wf _ _ _ w15_doc_parses). Qed.
Lemma w15_x_wf : wf_json w15_x.
Proof.
  apply (parse_wf (S (List.length (JsonSpec.render compact w15_x))) (JsonSpec.render compact w15_x)).
  vm_compute. reflexivity.
Qed.
Lemma w15_set : Json.set w15_v w15_p w15_x = Some w15_v'.
Proof. vm_compute. reflexivity. Qed.
Lemma w15_disj : JsonSpec.disjoint_paths w15_p w15_q = true.
Proof. vm_compute. reflexivity. Qed.
Lemma w15_forall_paths ms q :
  forallb (fun p => pdisj p q) (all_paths ms) = true -> forall p, In p (all_paths ms) -> pdisj p q = true.
Proof. intros H p Hin. rewrite forallb_forall in H. now apply H. Qed.

(* ---- C15_target_replaced ---- *)
Lemma C15_target_replaced_witness :
  Json.set w15_v w15_p w15_x = Some w15_v' /\ Json.get w15_v w15_p = Some (JStr (B "dev")) /\ w15_v' <> w15_v.
Proof. split; [exact w15_set|]. split; [vm_compute; reflexivity|vm_compute; discriminate]. Qed.
Lemma C15_target_replaced_applied : Json.get w15_v' w15_p = Some w15_x.
Proof. exact (get_set_same w15_p w15_v w15_x w15_v' w15_set). Qed.

(* ---- C15_others_untouched ---- *)
Lemma C15_others_untouched_witness :
  Json.set w15_v w15_p w15_x = Some w15_v' /\ JsonSpec.disjoint_paths w15_p w15_q = true /\
  Json.get w15_v w15_q = Some (JStr (B "bob")).
Proof. split; [exact w15_set|]. split; [exact w15_disj|vm_compute; reflexivity]. Qed.
Lemma C15_others_untouched_applied : Json.get w15_v' w15_q = Json.get w15_v w15_q.
Proof. exact (get_set_disjoint w15_p w15_q w15_v w15_x w15_v' w15_set w15_disj). Qed.

(* ---- C15_object_shape ---- *)
Lemma C15_object_shape_witness :
  Json.set (JObj w15_m) (PKey w15_k :: w15_ktail) w15_x = Some w15_vk' /\
  (* the member found is the third one and its raw key differs from the path component *)
  w15_metakey <> w15_k /\ key_is w15_k w15_metakey = true.
Proof. split; [vm_compute; reflexivity|]. split; [vm_compute; discriminate|vm_compute; reflexivity]. Qed.
Lemma C15_object_shape_applied :
  exists m1 kr x0 y m2, w15_m = m1 ++ (kr, x0) :: m2 /\ w15_vk' = JObj (m1 ++ (kr, y) :: m2) /\
    key_is w15_k kr = true /\ Forall (fun kv : bytes * jv => key_is w15_k (fst kv) = false) m1 /\
    Json.set x0 w15_ktail w15_x = Some y.
Proof. exact (set_obj_shape w15_k w15_ktail w15_m w15_x w15_vk' (proj1 C15_object_shape_witness)). Qed.

(* ---- C15_array_shape ---- *)
Lemma C15_array_shape_witness :
  Json.set (JArr w15_users) (PIdx 1 :: w15_itail) w15_x = Some w15_arr'.
Proof. vm_compute. reflexivity. Qed.
Lemma C15_array_shape_applied :
  exists l1 x0 y l2, w15_users = l1 ++ x0 :: l2 /\ w15_arr' = JArr (l1 ++ y :: l2) /\ List.length l1 = 1 /\
    Json.set x0 w15_itail w15_x = Some y.
Proof. exact (set_arr_shape 1 w15_itail w15_users w15_x w15_arr' C15_array_shape_witness). Qed.

(* ---- C15_result_wellformed ---- *)
Lemma C15_result_wellformed_witness :
  wf_json w15_v /\ wf_json w15_x /\ Json.set w15_v w15_p w15_x = Some w15_v'.
Proof. split; [exact w15_v_wf|]. split; [exact w15_x_wf|exact w15_set]. Qed.
Lemma C15_result_wellformed_applied : wf_json w15_v'.
Proof. exact (set_wf w15_p w15_v w15_x w15_v' w15_v_wf w15_x_wf w15_set). Qed.

(* ---- C15_settable_iff_exists: an equivalence without hypotheses; both sides occur ---- *)
Lemma C15_settable_iff_exists_witness :
  (Json.set w15_v w15_p w15_x <> None /\ Json.get w15_v w15_p <> None) /\
  (Json.set w15_v w15_missing w15_x = None /\ Json.get w15_v w15_missing = None).
Proof. vm_compute. repeat split; discriminate. Qed.

(* ---- C15_list_others_untouched ---- *)
Lemma C15_list_others_untouched_witness :
  (forall p, In p (all_paths w15_ms) -> pdisj p w15_q = true) /\
  (* the run changes the document and one matcher fails *)
  fst (apply_matchers w15_ms w15_v) <> w15_v /\
  snd (apply_matchers w15_ms w15_v) = [{| me_matcher := 1; me_path := B "users.0.name"; me_reason := RType |}] /\
  Json.get w15_v w15_q = Some (JStr (B "bob")).
Proof.
  split; [apply w15_forall_paths; vm_compute; reflexivity|].
  split; [vm_compute; discriminate|]. split; vm_compute; reflexivity.
Qed.
Lemma C15_list_others_untouched_applied :
  Json.get (fst (apply_matchers w15_ms w15_v)) w15_q = Json.get w15_v w15_q.
Proof. exact (matchers_others_untouched w15_ms w15_v w15_q (proj1 C15_list_others_untouched_witness)). Qed.

(* ---- C15_list_any_target_replaced ---- *)
Lemma C15_list_any_target_replaced_witness :
  path_comps w15_ptext = Some w15_comps /\ Json.get w15_v (steps_of w15_v w15_comps) <> None /\
  steps_of w15_v w15_comps = w15_p.
Proof. split; [vm_compute; reflexivity|]. split; [vm_compute; discriminate|vm_compute; reflexivity]. Qed.
Lemma C15_list_any_target_replaced_applied :
  exists v', apply_matchers [MAny [w15_ptext] w15_x true] w15_v = (v', []) /\
    Json.set w15_v (steps_of w15_v w15_comps) w15_x = Some v' /\
    Json.get v' (steps_of w15_v w15_comps) = Some w15_x /\ steps_of v' w15_comps = steps_of w15_v w15_comps.
Proof.
  destruct C15_list_any_target_replaced_witness as [Hc [Hg _]].
  exact (C15_any_target_replaced w15_ptext w15_comps w15_x true w15_v Hc Hg).
Qed.

(* ---- C15_ancestor_then_descendant ---- *)
Lemma C15_ancestor_then_descendant_witness :
  path_comps w15_anc = Some w15_c1 /\ path_comps w15_ptext = Some (w15_c1 ++ w15_c2) /\ w15_c2 <> [] /\
  is_scalar w15_x = true /\ Json.get w15_v (steps_of w15_v w15_c1) <> None /\
  (* before the ancestor is masked the descendant exists *)
  Json.get w15_v (steps_of w15_v (w15_c1 ++ w15_c2)) = Some (JStr (B "dev")).
Proof.
  split; [vm_compute; reflexivity|]. split; [vm_compute; reflexivity|]. split; [discriminate|].
  split; [reflexivity|]. split; [vm_compute; discriminate|vm_compute; reflexivity].
Qed.
Lemma C15_ancestor_then_descendant_applied : forall e,
  exists v1, Json.set w15_v (steps_of w15_v w15_c1) w15_x = Some v1 /\
    Json.get v1 (steps_of v1 (w15_c1 ++ w15_c2)) = None /\
    apply_matcher (MAny [w15_anc; w15_ptext] w15_x e) w15_v =
    (v1, if e then [{| me_matcher := 0; me_path := w15_ptext; me_reason := RMissing |}] else []).
Proof.
  intros e. destruct C15_ancestor_then_descendant_witness as [H1 [H2 [H3 [H4 [H5 _]]]]].
  exact (ancestor_then_descendant w15_x e w15_v w15_anc w15_ptext w15_c1 w15_c2 H1 H2 H3 H4 H5).
Qed.

(* representative statement (named constants only) *)
Lemma C15_witnesses_all :
  Json.set w15_v w15_p w15_x = Some w15_v' /\ JsonSpec.disjoint_paths w15_p w15_q = true /\
  wf_json w15_v /\ wf_json w15_x /\
  (forall p, In p (all_paths w15_ms) -> pdisj p w15_q = true) /\
  path_comps w15_ptext = Some w15_comps /\ Json.get w15_v (steps_of w15_v w15_comps) <> None /\
  path_comps w15_anc = Some w15_c1 /\ w15_comps = app w15_c1 w15_c2 /\ w15_c2 <> nil /\ is_scalar w15_x = true /\
  Json.get w15_v (steps_of w15_v w15_c1) <> None.
Proof.
  split; [exact w15_set|]. split; [exact w15_disj|]. split; [exact w15_v_wf|]. split; [exact w15_x_wf|].
  split; [exact (proj1 C15_list_others_untouched_witness)|].
  split; [exact (proj1 C15_list_any_target_replaced_witness)|].
  split; [exact (proj1 (proj2 C15_list_any_target_replaced_witness))|].
  destruct C15_ancestor_then_descendant_witness as [H1 [_ [H3 [H4 [H5 _]]]]].
  split; [exact H1|]. split; [reflexivity|]. split; [exact H3|]. split; [exact H4|exact H5].
Qed.

(* ================================================================== *)
(* C16 - masked fields never influence the snapshot; unmasked do       *)
(* ================================================================== *)

(* the instance: two "order" documents that differ at FOUR masked places - "id" (a number vs a string: Custom accepts
   any value), "created", "owner.token" (a string vs null: Any accepts any value) and "items.1.sku" (two strings:
   Type[string] needs the same type) - and agree everywhere else; a third document differs from the first at the
   UNMASKED path items[0].qty *)
Definition w16_mk (id : jv) (created qty0 sku1 : bytes) (token : jv) : jv :=
  JObj [(B "id", id); (B "created", JStr created);
        (B "items", JArr [JObj [(B "sku", JStr (B "a1")); (B "qty", JNum qty0)];
                          JObj [(B "sku", JStr sku1); (B "qty", JNum (B "1"))]]);
        (B "owner", JObj [(B "name", JStr (B "ann")); (B "token", token)])].
Definition w16_v1 : jv := w16_mk (JNum (B "17")) (B "2024-05-01") (B "2") (B "b2") (JStr (B "s3cr3t")).
Definition w16_v2 : jv := w16_mk (JStr (B "x-99")) (B "2025-01-01") (B "2") (B "zz9") JNull.
Definition w16_v3 : jv := w16_mk (JNum (B "17")) (B "2024-05-01") (B "5") (B "b2") (JStr (B "s3cr3t")).
Definition w16_doc1 : bytes :=
  B "{""id"":17,""created"":""2024-05-01"",""items"":[{""sku"":""a1"",""qty"":2},{""sku"":""b2"",""qty"":1}],""owner"":{""name"":""ann"",""token"":""s3cr3t""}}".
Definition w16_doc2 : bytes :=
  B "{ ""id"": ""x-99"", ""created"": ""2025-01-01"", ""items"": [{""sku"":""a1"",""qty"":2}, {""sku"":""zz9"",""qty"":1}], ""owner"": {""name"":""ann"",""token"":null} }".

Definition w16_mA : matcher := MAny [B "created"; B "owner.token"] any_placeholder true.
Definition w16_mT : matcher := MType [B "items.1.sku"] TString true.
Definition w16_mC : matcher := MCustom (B "id") (CRValue (JStr (B "<id>"))) true.
Definition w16_ms : list matcher := [w16_mA; w16_mT; w16_mC].

(* step-level instance: the masked path items[1].sku, the unmasked path items[0].qty *)
Definition w16_p : list pstep := [PKey (B "items"); PIdx 1; PKey (B "sku")].
Definition w16_q : list pstep := [PKey (B "items"); PIdx 0; PKey (B "qty")].
Definition w16_y : jv := JStr (B "zz9").
Definition w16_x : jv := type_placeholder TString.
Definition w16_vy : jv := w16_mk (JNum (B "17")) (B "2024-05-01") (B "2") (B "zz9") (JStr (B "s3cr3t")).
Definition w16_m1 : jv := w16_mk (JNum (B "17")) (B "2024-05-01") (B "2") (B "<Type:string>") (JStr (B "s3cr3t")).
Definition w16_m2 : jv := w16_mk (JNum (B "17")) (B "2024-05-01") (B "5") (B "<Type:string>") (JStr (B "s3cr3t")).

Definition w16_indent : bytes := [32%N; 9%N].
Definition w16_fuel : nat := 400.

Lemma w16_doc1_parses : parse (S (List.length w16_doc1)) w16_doc1 = Some w16_v1.
Proof. vm_compute. reflexivity. Qed.
Lemma w16_doc2_parses : parse (S (List.length w16_doc2)) w16_doc2 = Some w16_v2.
Proof. vm_compute. reflexivity. Qed.
Lemma w16_pairwise : pairwise_disj (all_paths w16_ms) = true.
Proof. vm_compute. reflexivity. Qed.
Lemma w16_no_errors : snd (apply_matchers w16_ms w16_v1) = [].
Proof. vm_compute. reflexivity. Qed.
Lemma w16_stable : Forall stable_matcher w16_ms.
Proof.
  unfold w16_ms. constructor; [exact I|]. constructor; [reflexivity|]. constructor; [exact I|constructor].
Qed.
Lemma w16_forall_paths ms q :
  forallb (fun p => pdisj p q) (all_paths ms) = true -> forall p, In p (all_paths ms) -> pdisj p q = true.
Proof. intros H p Hin. rewrite forallb_forall in H. now apply H. Qed.

(* [w16_v2] is reached from [w16_v1] by four replacements at covered paths, each by a value of the same class *)
Lemma w16_variant : masked_variant (covered_by w16_ms) w16_v1 w16_v2.
Proof.
  pose (u1 := w16_mk (JNum (B "17")) (B "2025-01-01") (B "2") (B "b2") (JStr (B "s3cr3t"))).
  pose (u2 := w16_mk (JNum (B "17")) (B "2025-01-01") (B "2") (B "b2") JNull).
  pose (u3 := w16_mk (JNum (B "17")) (B "2025-01-01") (B "2") (B "zz9") JNull).
  apply (mv_step _ w16_v1 u3 w16_v2 (B "id") w16_mC [B "id"] (JNum (B "17")) (JStr (B "x-99"))).
  - apply (mv_step _ w16_v1 u2 u3 (B "items.1.sku") w16_mT [B "items"; B "1"; B "sku"] (JStr (B "b2")) (JStr (B "zz9"))).
    + apply (mv_step _ w16_v1 u1 u2 (B "owner.token") w16_mA [B "owner"; B "token"] (JStr (B "s3cr3t")) JNull).
      * apply (mv_step _ w16_v1 w16_v1 u1 (B "created") w16_mA [B "created"] (JStr (B "2024-05-01")) (JStr (B "2025-01-01"))).
        -- apply mv_refl.
        -- split; [left; reflexivity|left; reflexivity].
        -- vm_compute; reflexivity.
        -- vm_compute; reflexivity.
        -- exact I.
        -- vm_compute; reflexivity.
      * split; [left; reflexivity|right; left; reflexivity].
      * vm_compute; reflexivity.
      * vm_compute; reflexivity.
      * exact I.
      * vm_compute; reflexivity.
    + split; [right; left; reflexivity|left; reflexivity].
    + vm_compute; reflexivity.
    + vm_compute; reflexivity.
    + reflexivity.
    + vm_compute; reflexivity.
  - split; [right; right; left; reflexivity|left; reflexivity].
  - vm_compute; reflexivity.
  - vm_compute; reflexivity.
  - exact I.
  - vm_compute; reflexivity.
Qed.

(* ---- C16_masked ---- *)
Lemma C16_masked_witness :
  Json.set w16_v1 w16_p w16_y = Some w16_vy /\ w16_vy <> w16_v1.
Proof. split; [vm_compute; reflexivity|vm_compute; discriminate]. Qed.
Lemma C16_masked_applied :
  Json.set w16_vy w16_p w16_x = Json.set w16_v1 w16_p w16_x /\ Json.set w16_v1 w16_p w16_x = Some w16_m1.
Proof.
  split; [exact (mask_erases w16_p w16_v1 w16_y w16_vy w16_x (proj1 C16_masked_witness))|vm_compute; reflexivity].
Qed.

(* ---- C16_unmasked ---- *)
Lemma C16_unmasked_witness :
  JsonSpec.disjoint_paths w16_p w16_q = true /\ Json.set w16_v1 w16_p w16_x = Some w16_m1 /\
  Json.set w16_v3 w16_p w16_x = Some w16_m2 /\ Json.get w16_v1 w16_q <> Json.get w16_v3 w16_q.
Proof.
  split; [vm_compute; reflexivity|]. split; [vm_compute; reflexivity|].
  split; [vm_compute; reflexivity|vm_compute; discriminate].
Qed.
Lemma C16_unmasked_applied : w16_m1 <> w16_m2.
Proof.
  destruct C16_unmasked_witness as [Hd [H1 [H2 Hne]]].
  exact (mask_keeps_difference w16_p w16_q w16_v1 w16_v3 w16_x w16_m1 w16_m2 Hd H1 H2 Hne).
Qed.

(* ---- C16_store_injective (the statement is that of C14_lossless) ---- *)
Lemma C16_store_injective_witness :
  parse (S (List.length w16_doc2)) w16_doc2 = Some w16_v2 /\ ws_bytes w16_indent /\
  List.length (snapshot_json 0 w16_indent true w16_doc2) <= w16_fuel /\
  List.length (snapshot_json 0 w16_indent false w16_doc2) <= w16_fuel.
Proof.
  split; [exact w16_doc2_parses|]. split; [reflexivity|].
  split; apply Nat.leb_le; vm_compute; reflexivity.
Qed.
Lemma C16_store_injective_applied :
  parse w16_fuel (snapshot_json 0 w16_indent true w16_doc2) = Some (sort_if true w16_v2) /\
  parse w16_fuel (snapshot_json 0 w16_indent false w16_doc2) = Some (sort_if false w16_v2).
Proof.
  destruct C16_store_injective_witness as [Hp [Hi [Hf1 Hf2]]]. split.
  - exact (snapshot_lossless 0 w16_indent true w16_doc2 w16_v2 w16_fuel Hp Hi Hf1).
  - exact (snapshot_lossless 0 w16_indent false w16_doc2 w16_v2 w16_fuel Hp Hi Hf2).
Qed.

(* ---- C16_masked_list ---- *)
Lemma C16_masked_list_witness :
  pairwise_disj (all_paths w16_ms) = true /\ masked_variant (covered_by w16_ms) w16_v1 w16_v2 /\
  snd (apply_matchers w16_ms w16_v1) = [] /\ w16_v1 <> w16_v2.
Proof.
  split; [exact w16_pairwise|]. split; [exact w16_variant|]. split; [exact w16_no_errors|vm_compute; discriminate].
Qed.
Lemma C16_masked_list_applied : apply_matchers w16_ms w16_v2 = apply_matchers w16_ms w16_v1.
Proof. exact (MatchersP.C16_masked_list w16_ms w16_v1 w16_v2 w16_pairwise w16_variant w16_no_errors). Qed.

(* the pre-existing examples of Proofs/MatchersP.v, put together, also meet all three hypotheses (instance exv / ex_ms) *)
Lemma w16_exdoc_instance :
  pairwise_disj (all_paths ex_ms) = true /\
  (exists v2, parse (S (List.length exdoc2)) exdoc2 = Some v2 /\ masked_variant (covered_by ex_ms) exv v2) /\
  snd (apply_matchers ex_ms exv) = [].
Proof.
  split; [exact (proj2 (proj2 ex_masked_same_text))|]. split; [exact ex_masked_variant|vm_compute; reflexivity].
Qed.

(* ---- C16_masked_text ---- *)
Lemma C16_masked_text_witness :
  parse (S (List.length w16_doc1)) w16_doc1 = Some w16_v1 /\ parse (S (List.length w16_doc2)) w16_doc2 = Some w16_v2 /\
  pairwise_disj (all_paths w16_ms) = true /\ masked_variant (covered_by w16_ms) w16_v1 w16_v2 /\
  snd (apply_matchers w16_ms w16_v1) = [] /\
  (* without matchers the two texts store differently *)
  apply_matchers_text [] w16_doc2 <> apply_matchers_text [] w16_doc1.
Proof.
  split; [exact w16_doc1_parses|]. split; [exact w16_doc2_parses|]. split; [exact w16_pairwise|].
  split; [exact w16_variant|]. split; [exact w16_no_errors|vm_compute; discriminate].
Qed.
Lemma C16_masked_text_applied : apply_matchers_text w16_ms w16_doc2 = apply_matchers_text w16_ms w16_doc1.
Proof.
  exact (C16_masked_text_default w16_ms w16_doc1 w16_doc2 w16_v1 w16_v2 w16_doc1_parses w16_doc2_parses
           w16_pairwise w16_variant w16_no_errors).
Qed.

(* ---- C16_unmasked_list ---- *)
Lemma C16_unmasked_list_witness :
  (forall p, In p (all_paths w16_ms) -> pdisj p w16_q = true) /\ Json.get w16_v1 w16_q <> Json.get w16_v3 w16_q.
Proof. split; [apply w16_forall_paths; vm_compute; reflexivity|vm_compute; discriminate]. Qed.
Lemma C16_unmasked_list_applied :
  Json.get (fst (apply_matchers w16_ms w16_v1)) w16_q <> Json.get (fst (apply_matchers w16_ms w16_v3)) w16_q /\
  fst (apply_matchers w16_ms w16_v1) <> fst (apply_matchers w16_ms w16_v3).
Proof.
  destruct C16_unmasked_list_witness as [Hd Hne].
  exact (MatchersP.C16_unmasked_list w16_ms w16_v1 w16_v3 w16_q Hd Hne).
Qed.

(* ---- C16_masking_idempotent ---- *)
Lemma C16_masking_idempotent_witness :
  pairwise_disj (all_paths w16_ms) = true /\ Forall stable_matcher w16_ms /\
  snd (apply_matchers w16_ms w16_v1) = [] /\ fst (apply_matchers w16_ms w16_v1) <> w16_v1.
Proof.
  split; [exact w16_pairwise|]. split; [exact w16_stable|]. split; [exact w16_no_errors|vm_compute; discriminate].
Qed.
Lemma C16_masking_idempotent_applied :
  apply_matchers w16_ms (fst (apply_matchers w16_ms w16_v1)) = apply_matchers w16_ms w16_v1.
Proof. exact (matchers_idempotent w16_ms w16_v1 w16_pairwise w16_stable w16_no_errors). Qed.

(* representative statement (named constants only) *)
Definition w16_n1 : nat := S (List.length w16_doc1).
Definition w16_n2 : nat := S (List.length w16_doc2).
Lemma C16_witnesses_all :
  parse w16_n1 w16_doc1 = Some w16_v1 /\ parse w16_n2 w16_doc2 = Some w16_v2 /\
  pairwise_disj (all_paths w16_ms) = true /\ masked_variant (covered_by w16_ms) w16_v1 w16_v2 /\
  Forall stable_matcher w16_ms /\ snd (apply_matchers w16_ms w16_v1) = nil /\ w16_v1 <> w16_v2 /\
  (forall p, In p (all_paths w16_ms) -> pdisj p w16_q = true) /\ Json.get w16_v1 w16_q <> Json.get w16_v3 w16_q /\
  Json.set w16_v1 w16_p w16_y = Some w16_vy /\ JsonSpec.disjoint_paths w16_p w16_q = true /\
  Json.set w16_v1 w16_p w16_x = Some w16_m1 /\ Json.set w16_v3 w16_p w16_x = Some w16_m2.
Proof.
  split; [exact w16_doc1_parses|]. split; [exact w16_doc2_parses|]. split; [exact w16_pairwise|].
  split; [exact w16_variant|]. split; [exact w16_stable|]. split; [exact w16_no_errors|].
  split; [exact (proj2 (proj2 (proj2 C16_masked_list_witness)))|].
  split; [exact (proj1 C16_unmasked_list_witness)|]. split; [exact (proj2 C16_unmasked_list_witness)|].
  split; [exact (proj1 C16_masked_witness)|].
  destruct C16_unmasked_witness as [Hd [H1 [H2 _]]]. split; [exact Hd|]. split; [exact H1|exact H2].
Qed.

(* ================================================================== *)
(* assumptions                                                         *)


(* ==================================================================================================== *)
(* fragment G8 *)
(* ==================================================================================================== *)
(* Wit_G8: non-vacuity witnesses for Properties/C17.v, C19.v, C20.v *)
From Coq Require Import String.
From Coq Require Import List NArith Arith Bool Lia Permutation.
Import ListNotations.
From Snaps Require Import Base.Bytes Base.Lines Base.Dec Base.Assoc.
From Snaps Require Import Model.Frame Model.PathModel Model.Mode Model.Api Model.Json Model.Matchers
  Model.Clean Model.Summary.
From Snaps Require Import Proofs.BytesP Proofs.FrameP Proofs.ApiP Proofs.StandaloneP Proofs.StepP Proofs.HistoryP
  Proofs.UpdateHistoryP Proofs.StandaloneHistoryP Proofs.MatchersP Proofs.OutcomeP Proofs.SummaryP
  Proofs.SummaryHistoryP.
Local Open Scope list_scope.

(* ================================================================== *)
(* C17 - failing matchers / invalid input                              *)
(* ================================================================== *)

Section W17.
Local Open Scope string_scope.

(* --- the state: an UPDATE-mode process after a non-trivial run (two tests, a Config made by ONewConfig,
       a pre-existing file, an updated entry, a standalone call) --- *)
Definition w17_env : env := {| ci := false; upd := UTrue; colour := false |}.
Definition w17_tA : bytes := B "TestA".
Definition w17_tB : bytes := B "TestB".
Definition w17_snapfile : bytes := B "/r/__snapshots__/x_test.snap".
Definition w17_old : list entry := [(B "[TestB - 1]", B "v0")].
Definition w17_h : list op :=
  [OPutFile w17_snapfile (render w17_old);
   ONewConfig (Some (B "cfg")) None None None;
   OMatch AJson 1 w17_tA (POk (B "{}"));
   OMatch ASnap 0 w17_tB (POk (B "v1"));
   OMatch AStand 0 w17_tA (POk (B "s1"));
   OEndTest w17_tB;
   OMatch ASnap 0 w17_tB (POk (B "v1"))].
Definition w17_s : state := fst (run (init_state w17_env (B "/r/x_test.go") (B "__snapshots__")) w17_h).
(* the Config created by ONewConfig (handle 1) and the package default (handle 0) *)
Definition w17_c1 : config := nth 1 (s_cfgs w17_s) (default_config []).
Definition w17_c0 : config := nth 0 (s_cfgs w17_s) (default_config []).
Definition w17_id_A2 : bytes := B "[TestA - 2]".
Definition w17_path_cfg : bytes := B "/r/__snapshots__/cfg.snap".
Definition w17_path_stand2 : bytes := B "/r/__snapshots__/TestA_2.snap".

(* --- matcher lists on the document MatchersP.exv --- *)
Definition w17_p_time : bytes := B "time".
Definition w17_p_user : bytes := B "user".
Definition w17_p_name : bytes := B "user.name".
Definition w17_p_age : bytes := B "user.age".
Definition w17_p_ok : bytes := B "ok".
Definition w17_p_nope : bytes := B "nope".
Definition w17_p_unope : bytes := B "user.nope".
Definition w17_p_nil : bytes := B "nil".
Definition w17_p_missing : bytes := B "missing".

(* ms1: a succeeding matcher (rewrites "time") and a FAILING one (its replacement of "user" is discarded) *)
Definition w17_m1a : matcher := MAny [w17_p_time] any_placeholder true.
Definition w17_m1b : matcher := MAny [w17_p_user; w17_p_missing] any_placeholder true.
Definition w17_ms1 : list matcher := [w17_m1a; w17_m1b].
(* the matcher under test: first path fine, second of the wrong type, third missing *)
Definition w17_ps1 : list bytes := [w17_p_name].
Definition w17_ps2 : list bytes := [w17_p_nope].
Definition w17_paths : list bytes := (w17_ps1 ++ w17_p_ok :: w17_ps2)%list.
Definition w17_m : matcher := MType w17_paths TString true.
Definition w17_m2 : matcher := MCustom w17_p_time CRError true.
Definition w17_ms2 : list matcher := [w17_m2].
Definition w17_ms : list matcher := (w17_ms1 ++ w17_m :: w17_ms2)%list.
Definition w17_err : merr := mk_err w17_m w17_p_ok RType.

Definition w17_comps_unope : list bytes := [B "user"; B "nope"].
Definition w17_comps_age : list bytes := [B "user"; B "age"].
Definition w17_comps_name : list bytes := [B "user"; B "name"].
Definition w17_comps_nil : list bytes := [B "nil"].
Definition w17_comps_time : list bytes := [B "time"].
Definition w17_old_age : jv := JNum (B "3").
Definition w17_old_time : jv := JStr (B "t").
Definition w17_m_any : matcher := MAny [w17_p_name; w17_p_unope] any_placeholder true.
(* discard rule: failing matcher first, then a succeeding one *)
Definition w17_m_fail : matcher := MAny [w17_p_name; w17_p_missing] any_placeholder true.
Definition w17_ms_rest : list matcher := [MAny [w17_p_time] any_placeholder true].
End W17.

(* what the run did *)
Lemma w17_run_facts :
  map o_outcome (snd (run (init_state w17_env (B "/r/x_test.go"%string) (B "__snapshots__"%string)) w17_h)) =
    [NoCall; NoCall; Added; Updated; Added; NoCall; Passed] /\
  should_update (s_env w17_s) (c_update w17_c1) = true /\
  get2 (s_running w17_s) (multi_path w17_s w17_c1 w17_tA, w17_tA) = 1 /\
  get1 (s_srunning w17_s) (stand_generic w17_s w17_c0 w17_tA) = 1 /\
  List.length (s_fs w17_s) = 3.
Proof. repeat split; vm_compute; reflexivity. Qed.

Lemma C17_fail_multi_witness :
  (* MatchJSON with failing matchers through the Config of handle 1 ... *)
  (is_standalone AJson = false /\ bad_pre PMatchErr = Some EMatchers /\ ~ (AJson = ASnap /\ PMatchErr = PNoValues)) /\
  (* ... and MatchYAML without values (third hypothesis met with p = PNoValues, a <> ASnap) *)
  (is_standalone AYaml = false /\ bad_pre PNoValues = Some EInvalid /\ ~ (AYaml = ASnap /\ PNoValues = PNoValues)) /\
  nth_error (s_cfgs w17_s) 1 = Some w17_c1 /\ should_update (s_env w17_s) (c_update w17_c1) = true.
Proof.
  split; [split; [reflexivity|split; [reflexivity|intros [H _]; discriminate H]]|].
  split; [split; [reflexivity|split; [reflexivity|intros [H _]; discriminate H]]|].
  split; vm_compute; reflexivity.
Qed.

Lemma C17_fail_multi_applied :
  exists s' o, multi_call w17_s AJson w17_c1 w17_tA PMatchErr = (s', o) /\
    o_outcome o = Failed EMatchers /\ o_errors o = 1 /\ o_logs o = [] /\ o_writes o = [] /\
    s_fs s' = s_fs w17_s /\ o_id o = w17_id_A2 /\ o_path o = w17_path_cfg /\
    get2 (s_running s') (w17_path_cfg, w17_tA) = 2 /\
    s_events s' = bump (Failed EMatchers) (s_events w17_s).
Proof.
  destruct C17_fail_multi_witness as [[H1 [H2 H3]] _].
  destruct (multi_call_bad_spec w17_s AJson w17_c1 w17_tA PMatchErr EMatchers H1 H2 H3)
    as [s' [o [E [Ho [He [Hl [Hw [Hfs [Hid [Hp [Hr Hev]]]]]]]]]]].
  assert (Eid : multi_id w17_s w17_c1 w17_tA = w17_id_A2) by (vm_compute; reflexivity).
  assert (Epath : multi_path w17_s w17_c1 w17_tA = w17_path_cfg) by (vm_compute; reflexivity).
  assert (Eget : get2 (s_running w17_s) (w17_path_cfg, w17_tA) = 1) by (vm_compute; reflexivity).
  rewrite Eid in Hid. rewrite Epath in Hp, Hr. rewrite Eget in Hr.
  exists s', o. repeat (split; [assumption|]). assumption.
Qed.

Lemma C17_fail_standalone_witness :
  bad_pre PInvalid = Some EInvalid /\ bad_pre PMatchErr = Some EMatchers /\
  nth_error (s_cfgs w17_s) 0 = Some w17_c0 /\
  get1 (s_srunning w17_s) (stand_generic w17_s w17_c0 w17_tA) = 1 /\
  alookup w17_path_stand2 (s_fs w17_s) = None.
Proof. repeat split; vm_compute; reflexivity. Qed.

Lemma C17_fail_standalone_applied :
  exists s' o, stand_call w17_s AStandJson w17_c0 w17_tA PInvalid = (s', o) /\
    o_outcome o = Failed EInvalid /\ o_errors o = 1 /\ o_logs o = [] /\ o_writes o = [] /\
    s_fs s' = s_fs w17_s /\ o_path o = w17_path_stand2 /\
    get1 (s_srunning s') (stand_generic w17_s w17_c0 w17_tA) = 2 /\
    s_events s' = bump (Failed EInvalid) (s_events w17_s).
Proof.
  destruct (stand_call_bad_spec w17_s AStandJson w17_c0 w17_tA PInvalid EInvalid eq_refl)
    as [s' [o [E [Ho [He [Hl [Hw [Hfs [Hp [Hr Hev]]]]]]]]]].
  assert (Epath : stand_path w17_s w17_c0 w17_tA = w17_path_stand2) by (vm_compute; reflexivity).
  assert (Eget : get1 (s_srunning w17_s) (stand_generic w17_s w17_c0 w17_tA) = 1) by (vm_compute; reflexivity).
  rewrite Epath in Hp. rewrite Eget in Hr.
  exists s', o. repeat (split; [assumption|]). assumption.
Qed.

(* ---------- matcher lists ---------- *)

(* the failing matcher is the THIRD of four; ms1 is non-empty and contains a failing matcher whose output is
   discarded (otherwise "user" would be a string and "user.name" missing); the failing path is the SECOND of three *)
Lemma C17_errors_named_witness :
  matcher_paths w17_m = (w17_ps1 ++ w17_p_ok :: w17_ps2)%list /\
  path_outcome w17_m (doc_at w17_ms1 w17_m w17_ps1 exv) w17_p_ok = PRErr RType /\
  (* the document reached differs from the input (ms1 and ps1 did rewrite it) *)
  doc_at w17_ms1 w17_m w17_ps1 exv <> exv /\
  snd (apply_matchers w17_ms1 exv) <> [].
Proof.
  split; [reflexivity|]. split; [vm_compute; reflexivity|]. split; vm_compute; discriminate.
Qed.

Lemma C17_errors_named_applied :
  In (mk_err w17_m w17_p_ok RType) (snd (apply_matchers (w17_ms1 ++ w17_m :: w17_ms2) exv)).
Proof.
  destruct C17_errors_named_witness as [H1 [H2 _]].
  exact (MatchersP.C17_errors_named w17_ms1 w17_m w17_ms2 w17_ps1 w17_p_ok w17_ps2 exv RType H1 H2).
Qed.

Lemma C17_errors_sound_witness :
  In w17_err (snd (apply_matchers w17_ms exv)) /\
  snd (apply_matchers w17_ms exv) =
    [mk_err w17_m1b w17_p_missing RMissing; w17_err;
     mk_err w17_m w17_p_nope RMissing; mk_err w17_m2 w17_p_time RCallback].
Proof.
  assert (E : snd (apply_matchers w17_ms exv) =
    [mk_err w17_m1b w17_p_missing RMissing; w17_err;
     mk_err w17_m w17_p_nope RMissing; mk_err w17_m2 w17_p_time RCallback])
    by (vm_compute; reflexivity).
  split; [rewrite E; right; left; reflexivity|exact E].
Qed.

Lemma C17_errors_sound_applied :
  exists ms1 m ms2 ps1 p ps2 r,
    w17_ms = (ms1 ++ m :: ms2)%list /\ matcher_paths m = (ps1 ++ p :: ps2)%list /\
    w17_err = mk_err m p r /\ path_outcome m (doc_at ms1 m ps1 exv) p = PRErr r.
Proof. exact (MatchersP.C17_errors_sound w17_ms exv w17_err (proj1 C17_errors_sound_witness)). Qed.

Lemma C17_missing_path_fails_witness :
  path_comps w17_p_unope = Some w17_comps_unope /\
  get exv (steps_of exv w17_comps_unope) = None /\
  matcher_eom w17_m_any = true /\
  (* the parent exists: only the last component is missing *)
  get exv (steps_of exv [w17_p_user]) <> None.
Proof. split; [vm_compute; reflexivity|]. split; [vm_compute; reflexivity|]. split; [reflexivity|vm_compute; discriminate]. Qed.

Lemma C17_missing_path_fails_applied : path_outcome w17_m_any exv w17_p_unope = PRErr RMissing.
Proof.
  destruct C17_missing_path_fails_witness as [H1 [H2 [H3 _]]].
  exact (MatchersP.C17_missing_path_fails w17_m_any exv w17_p_unope w17_comps_unope H1 H2 H3).
Qed.

Lemma C17_wrong_type_fails_witness :
  path_comps w17_p_age = Some w17_comps_age /\
  get exv (steps_of exv w17_comps_age) = Some w17_old_age /\
  type_of w17_old_age <> Some TString /\ type_of w17_old_age = Some TNumber.
Proof. split; [vm_compute; reflexivity|]. split; [vm_compute; reflexivity|]. split; [discriminate|reflexivity]. Qed.

Lemma C17_wrong_type_fails_applied : forall ps e,
  path_outcome (MType ps TString e) exv w17_p_age = PRErr RType.
Proof.
  intros ps e. destruct C17_wrong_type_fails_witness as [H1 [H2 [H3 _]]].
  exact (MatchersP.C17_wrong_type_fails ps TString e exv w17_p_age w17_comps_age w17_old_age H1 H2 H3).
Qed.

Lemma C17_null_has_no_type_witness :
  path_comps w17_p_nil = Some w17_comps_nil /\ get exv (steps_of exv w17_comps_nil) = Some JNull.
Proof. split; vm_compute; reflexivity. Qed.

Lemma C17_null_has_no_type_applied : forall ps t e,
  path_outcome (MType ps t e) exv w17_p_nil = PRErr RType.
Proof.
  intros ps t e. destruct C17_null_has_no_type_witness as [H1 H2].
  exact (MatchersP.C17_null_has_no_type ps t e exv w17_p_nil w17_comps_nil H1 H2).
Qed.

Lemma C17_callback_error_fails_witness :
  path_comps w17_p_time = Some w17_comps_time /\ get exv (steps_of exv w17_comps_time) = Some w17_old_time.
Proof. split; vm_compute; reflexivity. Qed.

Lemma C17_callback_error_fails_applied : forall p0 e,
  path_outcome (MCustom p0 CRError e) exv w17_p_time = PRErr RCallback.
Proof.
  intros p0 e. destruct C17_callback_error_fails_witness as [H1 H2].
  exact (MatchersP.C17_callback_error_fails p0 e exv w17_p_time w17_comps_time w17_old_time H1 H2).
Qed.

(* tolerated missing path: "user.name" EXISTS in the input but is missing in the running document, because the
   earlier path "user" of the same matcher replaced its parent by a string; a further path follows *)
Lemma C17_tolerated_missing_witness :
  path_comps w17_p_name = Some w17_comps_name /\
  get (fst (apply_matcher (MAny [w17_p_user] any_placeholder false) exv))
      (steps_of (fst (apply_matcher (MAny [w17_p_user] any_placeholder false) exv)) w17_comps_name) = None /\
  get exv (steps_of exv w17_comps_name) <> None.
Proof. split; [vm_compute; reflexivity|]. split; [vm_compute; reflexivity|vm_compute; discriminate]. Qed.

Lemma C17_tolerated_missing_applied :
  apply_matcher (MAny ([w17_p_user] ++ w17_p_name :: [w17_p_time]) any_placeholder false) exv =
  apply_matcher (MAny ([w17_p_user] ++ [w17_p_time]) any_placeholder false) exv.
Proof.
  destruct C17_tolerated_missing_witness as [H1 [H2 _]].
  exact (C17_tolerated_missing_any [w17_p_user] w17_p_name [w17_p_time] any_placeholder exv w17_comps_name H1 H2).
Qed.

Lemma C17_discard_rule_witness :
  snd (apply_matcher w17_m_fail exv) <> [] /\
  (* the failing matcher DID rewrite its document (user.name) - that output is what gets discarded *)
  fst (apply_matcher w17_m_fail exv) <> exv.
Proof. split; vm_compute; discriminate. Qed.

Lemma C17_discard_rule_applied :
  apply_matchers (w17_m_fail :: w17_ms_rest) exv =
  (fst (apply_matchers w17_ms_rest exv), (snd (apply_matcher w17_m_fail exv) ++ snd (apply_matchers w17_ms_rest exv))%list) /\
  get (fst (apply_matchers (w17_m_fail :: w17_ms_rest) exv)) (steps_of exv w17_comps_name) = get exv (steps_of exv w17_comps_name).
Proof.
  split; [exact (matchers_discard_rule w17_m_fail w17_ms_rest exv (proj1 C17_discard_rule_witness))|].
  vm_compute; reflexivity.
Qed.

(* representative statement for Properties/C17.v (named constants only) *)
Lemma C17_witnesses_all :
  (matcher_paths w17_m = w17_paths /\
   path_outcome w17_m (doc_at w17_ms1 w17_m w17_ps1 exv) w17_p_ok = PRErr RType) /\
  In w17_err (snd (apply_matchers w17_ms exv)) /\
  snd (apply_matcher w17_m_fail exv) <> [] /\
  (is_standalone AJson = false /\ bad_pre PMatchErr = Some EMatchers /\ ~ (AJson = ASnap /\ PMatchErr = PNoValues)).
Proof.
  split; [split; [exact (proj1 C17_errors_named_witness)|exact (proj1 (proj2 C17_errors_named_witness))]|].
  split; [exact (proj1 C17_errors_sound_witness)|].
  split; [exact (proj1 C17_discard_rule_witness)|exact (proj1 C17_fail_multi_witness)].
Qed.

(* ================================================================== *)
(* C19 - standalone snapshots                                          *)
(* ================================================================== *)

(* deciders *)
Definition w19_stand_op_ok_b (o : op) : bool :=
  match o with
  | OMatch a _ _ _ => is_standalone a
  | OEndTest _ => true
  | ONewConfig _ _ _ _ => true
  | _ => false
  end.
Lemma w19_stand_op_ok_b_sound o : w19_stand_op_ok_b o = true -> stand_op_ok o.
Proof.
  destruct o as [a hd test p|test|test|fn d ex u|e|pa co|pa|]; cbn [w19_stand_op_ok_b stand_op_ok];
    try discriminate; try (intros _; exact I). intros H; exact H.
Qed.
Lemma w19_stand_ops_ok_b_sound h : forallb w19_stand_op_ok_b h = true -> Forall stand_op_ok h.
Proof. apply forallb_Forall. apply w19_stand_op_ok_b_sound. Qed.

Definition w19_rec_ok_upd_b (o : obs) : bool :=
  match o_outcome o with Passed | Added | Updated | NoCall => true | _ => false end.
Lemma w19_rec_ok_upd_b_sound o : w19_rec_ok_upd_b o = true -> rec_ok_upd o.
Proof. unfold w19_rec_ok_upd_b, rec_ok_upd. destruct (o_outcome o); try discriminate; tauto. Qed.
Lemma w19_recs_ok_upd_b_sound l : forallb w19_rec_ok_upd_b l = true -> Forall rec_ok_upd l.
Proof. apply forallb_Forall. apply w19_rec_ok_upd_b_sound. Qed.

Definition w19_scons_b (l : list sfact) : bool :=
  forallb (fun f => forallb (fun f' => negb (beq (fst f) (fst f')) || beq (snd f) (snd f')) l) l.
Lemma w19_scons_b_sound l : w19_scons_b l = true -> sconsistent l.
Proof.
  unfold w19_scons_b, sconsistent. intros H p v v' H1 H2.
  rewrite forallb_forall in H. specialize (H _ H1). rewrite forallb_forall in H. specialize (H _ H2).
  cbn [fst snd] in H. rewrite beq_refl in H. cbn [negb orb] in H. now apply beq_eq.
Qed.

Section W19.
Local Open Scope string_scope.

Definition w19_tA : bytes := B "TestA".
Definition w19_tB : bytes := B "TestB".
Definition w19_crs : bytes := [13; 10; 13]%N.                         (* CR LF CR, no final newline *)
Definition w19_v2 : bytes := [255; 0; 10; 45; 45; 45; 10]%N.          (* 0xFF NUL LF "---" LF *)
Definition w19_second : bytes := B "second".
Definition w19_third : bytes := (B "third" ++ [13%N])%list.
Definition w19_oldA1 : bytes := (B "old" ++ [13; 10]%N)%list.
Definition w19_fileA1 : bytes := B "/r/__snapshots__/TestA_1.snap".
Definition w19_fileA2 : bytes := B "/r/__snapshots__/TestA_2.snap".
Definition w19_fileA3 : bytes := B "/r/__snapshots__/TestA_3.snap".
Definition w19_fileA5 : bytes := B "/r/__snapshots__/TestA_5.snap".
Definition w19_keep : bytes := B "/r/__snapshots__/keep.snap".
Definition w19_gA : bytes := B "/r/__snapshots__/TestA_%d.snap".

(* a process start with two pre-existing files: TestA's first standalone file and an unrelated one *)
Definition w19_start (e : env) (content : bytes) : state :=
  fst (run (init_state e (B "/r/x_test.go") (B "__snapshots__"))
           [OPutFile w19_fileA1 content; OPutFile w19_keep (B "kept")]).

(* two tests interleaved, a shared Config created by ONewConfig, MatchStandaloneJSON, a test that ends and runs again *)
Definition w19_h : list op :=
  [ONewConfig (Some (B "shared")) None None None;
   OMatch AStand 0 w19_tA (POk w19_crs);
   OMatch AStand 1 w19_tB (POk w19_v2);
   OMatch AStandJson 1 w19_tA (POk (B "{}"));
   OMatch AStand 0 w19_tA (POk w19_second);
   OEndTest w19_tA;
   OMatch AStand 0 w19_tA (POk w19_crs);
   OMatch AStand 1 w19_tA (POk w19_v2)].

(* create-only recording: the pre-existing file already holds the value *)
Definition w19_s0c : state := w19_start sx_env w19_crs.
(* update-mode recording: the pre-existing file holds other bytes *)
Definition w19_s0u : state := w19_start sx_env_upd w19_oldA1.
(* the state after the update-mode recording, and the same state switched to CI *)
Definition w19_s1 : state := fst (run w19_s0u w19_h).
Definition w19_s1ci : state := fst (step w19_s1 (OSetEnv sx_env_ci)).
Definition w19_c0 : config := nth 0 (s_cfgs w19_s1) (default_config []).
Definition w19_ps : list pre := [POk (B "x"); PMatchErr; POk (B "y"); PInvalid].
End W19.

(* ---------- per-call theorems, on the state w19_s1 ---------- *)

Lemma w19_s1_facts :
  s_fs w19_s1 =
    [(w19_fileA1, w19_crs); (w19_keep, B "kept"%string); (B "/r/__snapshots__/shared_1.snap"%string, w19_v2);
     (B "/r/__snapshots__/shared_1.snap.json"%string, B "{}"%string); (w19_fileA2, w19_second);
     (B "/r/__snapshots__/shared_2.snap"%string, w19_v2)] /\
  stand_path w19_s1 w19_c0 w19_tA = w19_fileA2 /\
  get1 (s_srunning w19_s1) (stand_generic w19_s1 w19_c0 w19_tA) = 1 /\
  nth_error (s_cfgs w19_s1) 0 = Some w19_c0.
Proof. repeat split; vm_compute; reflexivity. Qed.

(* the next standalone call of TestA in w19_s1 addresses file 2, which holds "second": with a new value the file is
   replaced wholesale (update mode) *)
Lemma C19_bytes_witness :
  exists s' o, stand_call w19_s1 AStand w19_c0 w19_tA (POk w19_third) = (s', o) /\
    (o_outcome o = Added \/ o_outcome o = Updated) /\
    o_outcome o = Updated /\ o_path o = w19_fileA2 /\ alookup w19_fileA2 (s_fs w19_s1) = Some w19_second.
Proof.
  eexists. eexists. split; [vm_compute; reflexivity|].
  split; [right; reflexivity|]. split; [reflexivity|]. split; vm_compute; reflexivity.
Qed.

Lemma C19_bytes_applied :
  alookup w19_fileA2 (s_fs (fst (stand_call w19_s1 AStand w19_c0 w19_tA (POk w19_third)))) = Some w19_third.
Proof.
  destruct (stand_call w19_s1 AStand w19_c0 w19_tA (POk w19_third)) as [s' o] eqn:E.
  assert (Ho : o_outcome o = Updated /\ o_path o = w19_fileA2).
  { assert (E1 : o = snd (stand_call w19_s1 AStand w19_c0 w19_tA (POk w19_third))) by (rewrite E; reflexivity).
    rewrite E1. split; vm_compute; reflexivity. }
  destruct Ho as [Ho Hp]. cbn [fst]. rewrite <- Hp.
  exact (stand_bytes w19_s1 AStand w19_c0 w19_tA w19_third s' o E (or_intror Ho)).
Qed.

Lemma C19_others_untouched_witness :
  exists s' o, stand_call w19_s1 AStand w19_c0 w19_tA (POk w19_third) = (s', o) /\
    w19_fileA1 <> o_path o /\ w19_keep <> o_path o /\
    o_writes o = [(WRewrite, w19_fileA2)] /\ alookup w19_fileA1 (s_fs w19_s1) = Some w19_crs.
Proof.
  eexists. eexists. split; [vm_compute; reflexivity|].
  split; [apply beq_false_neq; vm_compute; reflexivity|].
  split; [apply beq_false_neq; vm_compute; reflexivity|]. split; vm_compute; reflexivity.
Qed.

Lemma C19_others_untouched_applied :
  alookup w19_fileA1 (s_fs (fst (stand_call w19_s1 AStand w19_c0 w19_tA (POk w19_third)))) = Some w19_crs /\
  alookup w19_keep (s_fs (fst (stand_call w19_s1 AStand w19_c0 w19_tA (POk w19_third)))) =
    alookup w19_keep (s_fs w19_s1).
Proof.
  destruct C19_others_untouched_witness as [s' [o [E [H1 [H2 [_ H3]]]]]]. rewrite E. cbn [fst].
  split.
  - rewrite <- H3. exact (stand_others w19_s1 AStand w19_c0 w19_tA (POk w19_third) s' o w19_fileA1 E H1).
  - exact (stand_others w19_s1 AStand w19_c0 w19_tA (POk w19_third) s' o w19_keep E H2).
Qed.

Lemma C19_roundtrip_witness :
  alookup (stand_path w19_s1 w19_c0 w19_tA) (s_fs w19_s1) = Some w19_second /\
  alookup (stand_path w19_s1ci w19_c0 w19_tA) (s_fs w19_s1ci) = Some w19_second /\
  stand_path w19_s1 w19_c0 w19_tA = w19_fileA2.
Proof. repeat split; vm_compute; reflexivity. Qed.

(* in update mode and in CI alike, for every standalone API *)
Lemma C19_roundtrip_applied : forall a,
  (exists s' o, stand_call w19_s1 a w19_c0 w19_tA (POk w19_second) = (s', o) /\
    o_outcome o = Passed /\ o_errors o = 0 /\ o_logs o = [] /\ o_writes o = [] /\ s_fs s' = s_fs w19_s1) /\
  (exists s' o, stand_call w19_s1ci a w19_c0 w19_tA (POk w19_second) = (s', o) /\
    o_outcome o = Passed /\ o_errors o = 0 /\ o_logs o = [] /\ o_writes o = [] /\ s_fs s' = s_fs w19_s1ci).
Proof.
  intros a. destruct C19_roundtrip_witness as [H1 [H2 _]]. split.
  - exact (stand_replay w19_s1 a w19_c0 w19_tA w19_second H1).
  - exact (stand_replay w19_s1ci a w19_c0 w19_tA w19_second H2).
Qed.

(* both branches: update allowed (w19_s1, UPDATE_SNAPS=true) and not allowed (w19_s1ci, CI) *)
Lemma C19_update_wholesale_witness :
  (exists s' o, alookup (stand_path w19_s1 w19_c0 w19_tA) (s_fs w19_s1) = Some w19_second /\ w19_second <> w19_third /\
     stand_call w19_s1 AStand w19_c0 w19_tA (POk w19_third) = (s', o) /\
     should_update (s_env w19_s1) (c_update w19_c0) = true) /\
  (exists s' o, alookup (stand_path w19_s1ci w19_c0 w19_tA) (s_fs w19_s1ci) = Some w19_second /\ w19_second <> w19_third /\
     stand_call w19_s1ci AStand w19_c0 w19_tA (POk w19_third) = (s', o) /\
     should_update (s_env w19_s1ci) (c_update w19_c0) = false).
Proof.
  split; eexists; eexists.
  - split; [vm_compute; reflexivity|]. split; [apply beq_false_neq; vm_compute; reflexivity|].
    split; vm_compute; reflexivity.
  - split; [vm_compute; reflexivity|]. split; [apply beq_false_neq; vm_compute; reflexivity|].
    split; vm_compute; reflexivity.
Qed.

Lemma C19_update_wholesale_applied :
  (exists s' o, stand_call w19_s1 AStand w19_c0 w19_tA (POk w19_third) = (s', o) /\
     o_outcome o = Updated /\ o_errors o = 0 /\ o_logs o = [LUpdated] /\ alookup (o_path o) (s_fs s') = Some w19_third) /\
  (exists s' o, stand_call w19_s1ci AStand w19_c0 w19_tA (POk w19_third) = (s', o) /\
     o_outcome o = Failed EDiff /\ o_errors o = 1 /\ o_writes o = [] /\ s_fs s' = s_fs w19_s1ci).
Proof.
  destruct C19_update_wholesale_witness as [[s1 [o1 [A1 [A2 [A3 A4]]]]] [s2 [o2 [B1 [B2 [B3 B4]]]]]].
  split.
  - exists s1, o1. split; [exact A3|].
    destruct (stand_mismatch w19_s1 AStand w19_c0 w19_tA w19_third w19_second s1 o1 A1 A2 A3)
      as [[Hf _]|[_ Hr]]; [rewrite A4 in Hf; discriminate Hf|exact Hr].
  - exists s2, o2. split; [exact B3|].
    destruct (stand_mismatch w19_s1ci AStand w19_c0 w19_tA w19_third w19_second s2 o2 B1 B2 B3)
      as [[_ Hr]|[Hf _]]; [exact Hr|rewrite B4 in Hf; discriminate Hf].
Qed.

(* four further calls of TestA (two of them failing before any value exists): the fourth one addresses file 5 *)
Lemma C19_kth_file_witness :
  3 < List.length w19_ps /\ get1 (s_srunning w19_s1) (stand_generic w19_s1 w19_c0 w19_tA) = 1.
Proof. split; [vm_compute; lia|vm_compute; reflexivity]. Qed.

Lemma C19_kth_file_applied : forall a,
  nth 3 (stand_calls w19_s1 a w19_c0 w19_tA w19_ps) [] = w19_fileA5.
Proof.
  intros a. rewrite (stand_kth w19_s1 a w19_c0 w19_tA w19_ps 3 (proj1 C19_kth_file_witness)).
  vm_compute. reflexivity.
Qed.

(* ---------- histories ---------- *)

(* existing complete witness (StandaloneHistoryP.sx_hyps / sx_replay_by_theorem), restated *)
Lemma C19_replay_histories_witness :
  fresh sx_s0 /\ Forall stand_op_ok sx_h /\ Forall has_value sx_h /\ Forall rec_ok (snd (run sx_s0 sx_h)).
Proof. exact sx_hyps. Qed.

(* a second one over a NON-EMPTY file system: the first call passes against the pre-existing file *)
Lemma C19_replay_histories_witness2 :
  fresh w19_s0c /\ Forall stand_op_ok w19_h /\ Forall has_value w19_h /\ Forall rec_ok (snd (run w19_s0c w19_h)) /\
  map o_outcome (snd (run w19_s0c w19_h)) = [NoCall; Passed; Added; Added; Added; NoCall; Passed; Added] /\
  s_fs w19_s0c = [(w19_fileA1, w19_crs); (w19_keep, B "kept"%string)].
Proof.
  split; [vm_compute; repeat split|].
  split; [apply w19_stand_ops_ok_b_sound; vm_compute; reflexivity|].
  split; [apply has_values_b_sound; vm_compute; reflexivity|].
  split; [apply recs_ok_b_sound; vm_compute; reflexivity|].
  split; vm_compute; reflexivity.
Qed.

Lemma C19_replay_histories_applied : forall e2,
  Forall silent_pass (snd (run (replay_start (fst (run w19_s0c w19_h)) e2) w19_h)) /\
  s_fs (fst (run (replay_start (fst (run w19_s0c w19_h)) e2) w19_h)) = s_fs (fst (run w19_s0c w19_h)).
Proof.
  intros e2. destruct C19_replay_histories_witness2 as [H1 [H2 [H3 [H4 _]]]].
  exact (standalone_replay_after_create w19_s0c w19_h e2 H1 H2 H3 H4).
Qed.

(* the recording run REWRITES the pre-existing file (outcome Updated) and never writes two values to one file *)
Lemma C19_replay_after_update_witness :
  fresh w19_s0u /\ Forall stand_op_ok w19_h /\ Forall has_value w19_h /\
  Forall rec_ok_upd (snd (run w19_s0u w19_h)) /\ sconsistent (sfacts w19_s0u w19_h) /\
  map o_outcome (snd (run w19_s0u w19_h)) = [NoCall; Updated; Added; Added; Added; NoCall; Passed; Added] /\
  List.length (sfacts w19_s0u w19_h) = 6 /\
  ~ Forall rec_ok (snd (run w19_s0u w19_h)).
Proof.
  split; [vm_compute; repeat split|].
  split; [apply w19_stand_ops_ok_b_sound; vm_compute; reflexivity|].
  split; [apply has_values_b_sound; vm_compute; reflexivity|].
  split; [apply w19_recs_ok_upd_b_sound; vm_compute; reflexivity|].
  split; [apply w19_scons_b_sound; vm_compute; reflexivity|].
  split; [vm_compute; reflexivity|]. split; [vm_compute; reflexivity|].
  intros H.
  assert (E : map o_outcome (snd (run w19_s0u w19_h)) = [NoCall; Updated; Added; Added; Added; NoCall; Passed; Added])
    by (vm_compute; reflexivity).
  destruct (snd (run w19_s0u w19_h)) as [|o0 [|o1 l]]; try discriminate E.
  injection E as _ E1 _. apply Forall_inv_tail in H. apply Forall_inv in H.
  unfold rec_ok in H. rewrite E1 in H. destruct H as [H|[H|H]]; discriminate H.
Qed.

Lemma C19_replay_after_update_applied : forall e2,
  Forall silent_pass (snd (run (replay_start (fst (run w19_s0u w19_h)) e2) w19_h)) /\
  s_fs (fst (run (replay_start (fst (run w19_s0u w19_h)) e2) w19_h)) = s_fs (fst (run w19_s0u w19_h)).
Proof.
  intros e2. destruct C19_replay_after_update_witness as [H1 [H2 [H3 [H4 [H5 _]]]]].
  exact (standalone_replay_after_update w19_s0u w19_h e2 H1 H2 H3 H4 H5).
Qed.

(* the k-th call: StandaloneHistoryP.kx_kth establishes four of the six hypotheses on (kx_h1, kx_h2); completed here.
   kx_h1 is non-empty and ends with the end of TestA; in kx_h2 calls of TestB, a MatchSnapshot call, a MatchStandaloneJSON
   call of TestA (other generic path), a failing call, a Skip and the end of TestB are interleaved; i = 2 *)
Lemma C19_kth_call_histories_witness :
  fresh sx_s0 /\ Forall kth_op_ok (kx_h1 ++ kx_h2) /\ only_user w19_gA w19_tA sx_s0 (kx_h1 ++ kx_h2) /\
  (kx_h1 = [] \/ exists h1', kx_h1 = (h1' ++ [OEndTest w19_tA])%list) /\ ~ In (OEndTest w19_tA) kx_h2 /\
  2 < List.length (stand_paths w19_gA (fst (run sx_s0 kx_h1)) kx_h2) /\
  kx_h1 <> [].
Proof.
  pose proof kx_kth as K. cbv zeta in K. destruct K as [K1 [K2 [K3 [K4 [K5 _]]]]].
  split; [exact K1|]. split; [exact K2|]. split; [exact K3|].
  split; [right; exists (removelast kx_h1); reflexivity|].
  split; [exact K4|]. split; [|discriminate].
  change w19_gA with (B "/r/__snapshots__/TestA_%d.snap"%string). rewrite K5. cbn [List.length]. lia.
Qed.

Lemma C19_kth_call_histories_applied :
  nth 2 (stand_paths w19_gA (fst (run sx_s0 kx_h1)) kx_h2) [] = subst_d w19_gA (dec 3) /\
  subst_d w19_gA (dec 3) = w19_fileA3.
Proof.
  destruct C19_kth_call_histories_witness as [H1 [H2 [H3 [H4 [H5 [H6 _]]]]]].
  split; [exact (standalone_kth_call sx_s0 kx_h1 kx_h2 w19_gA w19_tA H1 H2 H3 H4 H5 2 H6)|].
  vm_compute. reflexivity.
Qed.

(* representative statement for Properties/C19.v (named constants only) *)
Lemma C19_witnesses_all :
  (fresh w19_s0u /\ Forall stand_op_ok w19_h /\ Forall has_value w19_h /\
   Forall rec_ok_upd (snd (run w19_s0u w19_h)) /\ sconsistent (sfacts w19_s0u w19_h)) /\
  (fresh w19_s0c /\ Forall rec_ok (snd (run w19_s0c w19_h))) /\
  alookup (stand_path w19_s1 w19_c0 w19_tA) (s_fs w19_s1) = Some w19_second /\ w19_second <> w19_third.
Proof.
  destruct C19_replay_after_update_witness as [H1 [H2 [H3 [H4 [H5 _]]]]].
  destruct C19_replay_histories_witness2 as [G1 [_ [_ [G4 _]]]].
  destruct C19_update_wholesale_witness as [[s1 [o1 [A1 [A2 _]]]] _].
  split; [repeat (split; [assumption|]); assumption|].
  split; [split; assumption|]. split; assumption.
Qed.

(* ================================================================== *)
(* C20 - outcomes, counters, summary                                   *)
(* ================================================================== *)

Section W20.
Local Open Scope string_scope.

Definition w20_env : env := {| ci := false; upd := UTrue; colour := false |}.
Definition w20_tA : bytes := B "TestA".
Definition w20_tB : bytes := B "TestB".
Definition w20_tSkip : bytes := B "TestSkip".
Definition w20_snapfile : bytes := B "/r/__snapshots__/x_test.snap".
Definition w20_orphan : bytes := B "/r/__snapshots__/orphan.snap".
Definition w20_stale_id : bytes := B "TestOld - 1".
(* pre-existing file: an entry that will be updated, a STALE entry, an entry protected by a Skip *)
Definition w20_old : list entry :=
  [(B "[TestA - 1]", B "old"); (B "[TestOld - 1]", B "stale"); (B "[TestSkip - 1]", B "protected")].
(* harness-side setup (files) and an earlier part of the process (one skip, one added snapshot):
   the start state of the history has non-zero counters and a non-empty skip list *)
Definition w20_setup : list op :=
  [OPutFile w20_snapfile (render w20_old);
   OPutFile w20_orphan (render [(B "[TestGone - 1]", B "x")]);
   OSkip (B "TestEarly");
   OMatch ASnap 0 (B "TestZ") (POk (B "z"))].
Definition w20_s0 : state := fst (run (init_state w20_env (B "/r/x_test.go") (B "__snapshots__")) w20_setup).
(* the history: every outcome kind (updated, added, failed twice, warned, skipped, no call, passed), two tests
   interleaved, a Config created by ONewConfig, a standalone call; no ONewProcess *)
Definition w20_ops : list op :=
  [ONewConfig (Some (B "other")) None None None;
   OMatch ASnap 0 w20_tA (POk (B "new"));
   OMatch ASnap 0 w20_tA (POk (B "second"));
   OMatch AJson 1 w20_tB PMatchErr;
   OMatch ASnap 0 w20_tB PNoValues;
   OSkip w20_tSkip;
   OEndTest w20_tA;
   OMatch ASnap 0 w20_tA (POk (B "new"));
   OMatch AStand 1 w20_tB (POk [13; 10]%N);
   OMatch ASnap 7 w20_tB (POk (B "x"));
   OMatch AYaml 1 w20_tB PInvalid].
Definition w20_s : state := fst (run w20_s0 w20_ops).
Definition w20_c1 : config := nth 1 (s_cfgs w20_s) (default_config []).
Definition w20_r : clean_result := snd (clean_run w20_s true 1).
Definition w20_d : sumdata := sumdata_of_result w20_r.
Definition w20_hd : nat := 1.
Definition w20_obs_files : list bytes := [w20_orphan].
Definition w20_obs_tests : list bytes := [w20_stale_id].
Definition w20_counts : counters := {| n_erred := 2; n_added := 3; n_updated := 1; n_passed := 1 |}.
(* two data that differ (sd_update) but print the same text: no list, so no wording *)
Definition w20_dz (u : bool) : sumdata :=
  {| sd_files := []; sd_tests := []; sd_skipped := 2; sd_counts := w20_counts; sd_update := u |}.
Definition w20_zero : sumdata :=
  {| sd_files := []; sd_tests := []; sd_skipped := 0;
     sd_counts := {| n_erred := 0; n_added := 0; n_updated := 0; n_passed := 0 |}; sd_update := false |}.
End W20.

Ltac w20_api_ops := repeat (apply Forall_cons; [exact I|]); apply Forall_nil.
Ltac w20_no_newprocess :=
  let H := fresh "H" in
  intros H; cbn [In] in H; repeat (destruct H as [H|H]; [discriminate H|]); exact H.

(* what the history did *)
Lemma w20_run_facts :
  map o_outcome (snd (run w20_s0 w20_ops)) =
    [NoCall; Updated; Added; Failed EMatchers; Warned; SkipLogged; NoCall; Passed; Added; NoCall; Failed EInvalid] /\
  s_events w20_s0 = {| n_erred := 0; n_added := 1; n_updated := 0; n_passed := 0 |} /\
  List.length (s_skipped w20_s0) = 1 /\
  nth_error (s_cfgs w20_s) 1 = Some w20_c1 /\ nth_error (s_cfgs w20_s) 7 = None.
Proof. repeat split; vm_compute; reflexivity. Qed.

(* ---------- C20_one_outcome ---------- *)
(* a call through the Config of handle 1 in the reached state: with a value, and - the edge of the second
   hypothesis - WITHOUT values through an API other than MatchSnapshot *)
Lemma C20_one_outcome_witness :
  nth_error (s_cfgs w20_s) 1 = Some w20_c1 /\
  ~ (ASnap = ASnap /\ POk w20_tA = PNoValues) /\ ~ (AYaml = ASnap /\ PNoValues = PNoValues) /\
  (* the excluded case really has no outcome *)
  counts_as_outcome (o_outcome (snd (step w20_s (OMatch ASnap 1 w20_tB PNoValues)))) = false.
Proof.
  split; [vm_compute; reflexivity|]. split; [intros [_ H]; discriminate H|].
  split; [intros [H _]; discriminate H|vm_compute; reflexivity].
Qed.

Lemma C20_one_outcome_applied :
  counts_as_outcome (o_outcome (snd (step w20_s (OMatch ASnap 1 w20_tB (POk w20_tA))))) = true /\
  counts_as_outcome (o_outcome (snd (step w20_s (OMatch AYaml 1 w20_tB PNoValues)))) = true /\
  o_outcome (snd (step w20_s (OMatch ASnap 1 w20_tB (POk w20_tA)))) = Added /\
  o_outcome (snd (step w20_s (OMatch AYaml 1 w20_tB PNoValues))) = Failed EInvalid.
Proof.
  destruct C20_one_outcome_witness as [H1 [H2 [H3 _]]].
  split; [exact (match_one_outcome w20_s ASnap 1 w20_tB (POk w20_tA) w20_c1 H1 H2)|].
  split; [exact (match_one_outcome w20_s AYaml 1 w20_tB PNoValues w20_c1 H1 H3)|].
  split; vm_compute; reflexivity.
Qed.

(* ---------- C20_counters ---------- *)
Lemma C20_counters_witness :
  Forall api_op w20_ops /\ ~ In ONewProcess w20_ops /\
  (* every outcome kind occurs, incl. a skip and two failing calls; the start state is not the initial one *)
  map o_outcome (snd (run w20_s0 w20_ops)) =
    [NoCall; Updated; Added; Failed EMatchers; Warned; SkipLogged; NoCall; Passed; Added; NoCall; Failed EInvalid] /\
  n_added (s_events w20_s0) = 1 /\ List.length (s_skipped w20_s0) = 1.
Proof.
  split; [unfold w20_ops; w20_api_ops|]. split; [unfold w20_ops; w20_no_newprocess|].
  split; [exact (proj1 w20_run_facts)|]. split; vm_compute; reflexivity.
Qed.

Lemma C20_counters_applied :
  s_events (fst (run w20_s0 w20_ops)) = tally (snd (run w20_s0 w20_ops)) (s_events w20_s0) /\
  List.length (s_skipped (fst (run w20_s0 w20_ops))) =
    List.length (s_skipped w20_s0) + count_skips (snd (run w20_s0 w20_ops)) /\
  tally (snd (run w20_s0 w20_ops)) (s_events w20_s0) = w20_counts /\
  count_skips (snd (run w20_s0 w20_ops)) = 1.
Proof.
  destruct C20_counters_witness as [H1 [H2 _]].
  destruct (run_counters w20_ops w20_s0 H1 H2) as [Ha Hb].
  split; [exact Ha|]. split; [exact Hb|]. split; vm_compute; reflexivity.
Qed.

(* ---------- C20_summary_readable / C20_summary_totals ---------- *)
(* Clean after the history: the orphan file is obsolete (removed: UPDATE_SNAPS=true), the stale entry is obsolete,
   the entry of the skipped test is protected; both lists are non-empty *)
Lemma w20_clean_facts :
  cr_obsolete_files w20_r = [w20_orphan] /\ cr_obsolete_tests w20_r = [w20_stale_id] /\
  cr_removed w20_r = true /\ cr_writes w20_r = [(WRemove, w20_orphan); (WRewrite, w20_snapfile)].
Proof. repeat split; vm_compute; reflexivity. Qed.

Lemma w20_items_ok_d : items_ok w20_d.
Proof. apply items_ok_b. vm_compute. reflexivity. Qed.
Lemma w20_items_ok : items_ok (sumdata_of_result (snd (clean_run (fst (run w20_s0 w20_ops)) true 1))).
Proof. apply items_ok_b. vm_compute. reflexivity. Qed.
Lemma w20_r_eq : w20_r = snd (clean_run (fst (run w20_s0 w20_ops)) true 1).
Proof. vm_compute. reflexivity. Qed.

(* existing complete witness: SummaryP.ex_items_ok (items_ok ex_d, two files and one test); plus the data
   produced by Clean on the history above *)
Lemma C20_summary_readable_witness : items_ok ex_d /\ items_ok w20_d /\ sd_files w20_d <> [] /\ sd_tests w20_d <> [].
Proof.
  split; [exact ex_items_ok|]. split; [exact w20_items_ok_d|]. split; vm_compute; discriminate.
Qed.

Lemma C20_summary_readable_applied : forall nocolor,
  read_summary (clean_stdout nocolor w20_d) = Some (sumread_of w20_d) /\
  read_summary (clean_stdout nocolor ex_d) = Some (sumread_of ex_d).
Proof.
  intros nocolor. split.
  - exact (read_summary_correct nocolor w20_d (proj1 (proj2 C20_summary_readable_witness))).
  - exact (read_summary_correct nocolor ex_d ex_items_ok).
Qed.

Lemma C20_summary_totals_witness :
  Forall api_op w20_ops /\ ~ In ONewProcess w20_ops /\
  items_ok (sumdata_of_result (snd (clean_run (fst (run w20_s0 w20_ops)) true 1))) /\
  cr_obsolete_files w20_r = [w20_orphan] /\ cr_obsolete_tests w20_r = [w20_stale_id].
Proof.
  destruct C20_counters_witness as [H1 [H2 _]]. split; [exact H1|]. split; [exact H2|].
  split; [exact w20_items_ok|]. split; [exact (proj1 w20_clean_facts)|exact (proj1 (proj2 w20_clean_facts))].
Qed.

Lemma C20_summary_totals_applied : forall nocolor,
  exists rd, read_summary (clean_stdout nocolor (sumdata_of_result w20_r)) = Some rd /\
    sr_counts rd = w20_counts /\ sr_skipped rd = 2 /\
    sr_files rd = [w20_orphan] /\ sr_tests rd = [w20_stale_id].
Proof.
  intros nocolor. rewrite w20_r_eq. destruct C20_summary_totals_witness as [H1 [H2 [H3 _]]].
  destruct (summary_totals_history w20_ops w20_s0 true 1 nocolor H1 H2 H3) as [rd [R1 [R2 [R3 [R4 R5]]]]].
  exists rd. split; [exact R1|].
  split; [rewrite R2; vm_compute; reflexivity|]. split; [rewrite R3; vm_compute; reflexivity|].
  split; [rewrite R4; vm_compute; reflexivity|rewrite R5; vm_compute; reflexivity].
Qed.

(* ---------- C20_summary_injective ---------- *)
(* (1) the diagonal, on data with non-empty lists, in either colour mode;
   (2) an OFF-diagonal instance where the premise holds: two DIFFERENT data (sd_update) with empty lists print
       the same text - which is why the conclusion is about sumread_of and not d1 = d2;
   (3) off-diagonal instances where the premise fails (other colour mode; other data) *)
Lemma C20_summary_injective_witness :
  (items_ok w20_d /\ items_ok w20_d /\ clean_stdout false w20_d = clean_stdout false w20_d) /\
  (items_ok (w20_dz true) /\ items_ok (w20_dz false) /\
   clean_stdout true (w20_dz true) = clean_stdout true (w20_dz false) /\ w20_dz true <> w20_dz false /\
   clean_stdout true (w20_dz true) <> []) /\
  clean_stdout false w20_d <> clean_stdout true w20_d /\
  clean_stdout true w20_d <> clean_stdout true ex_d.
Proof.
  split; [split; [exact w20_items_ok_d|split; [exact w20_items_ok_d|reflexivity]]|].
  split.
  { split; [split; constructor|]. split; [split; constructor|].
    split; [vm_compute; reflexivity|]. split; [discriminate|vm_compute; discriminate]. }
  split; vm_compute; discriminate.
Qed.

Lemma C20_summary_injective_applied : sumread_of (w20_dz true) = sumread_of (w20_dz false).
Proof.
  destruct C20_summary_injective_witness as [_ [[H1 [H2 [H3 _]]] _]].
  exact (summary_injective_partial true true (w20_dz true) (w20_dz false) H1 H2 H3).
Qed.

(* ---------- C20_summary_empty_iff (an equivalence: both sides hold on the all-zero data, both fail on w20_d) ---------- *)
Lemma C20_summary_empty_iff_witness :
  (forall nocolor, summary nocolor w20_zero = []) /\ summary true w20_d <> [] /\ sd_files w20_d <> [].
Proof. split; [intros [|]; vm_compute; reflexivity|]. split; vm_compute; discriminate. Qed.

(* representative statement for Properties/C20.v (named constants only) *)
Lemma C20_witnesses_all :
  Forall api_op w20_ops /\ ~ In ONewProcess w20_ops /\ items_ok w20_d /\
  cr_obsolete_files w20_r = w20_obs_files /\ cr_obsolete_tests w20_r = w20_obs_tests /\
  nth_error (s_cfgs w20_s) w20_hd = Some w20_c1.
Proof.
  destruct C20_summary_totals_witness as [H1 [H2 [_ [H4 H5]]]].
  split; [exact H1|]. split; [exact H2|]. split; [exact w20_items_ok_d|]. split; [exact H4|]. split; [exact H5|].
  exact (proj1 C20_one_outcome_witness).
Qed.


(* ==================================================================================================== *)
(* Print Assumptions for every witness lemma *)
Print Assumptions C06_serialisable_witness.
Print Assumptions C06_serialisable_applied.
Print Assumptions C06_mutual_exclusion_witness.
Print Assumptions C06_mutual_exclusion_applied.
Print Assumptions C06_progress_witness.
Print Assumptions C06_progress_applied.
Print Assumptions C06_counters_commute_witness.
Print Assumptions C18_roundtrip_bytes_witness.
Print Assumptions C18_roundtrip_bytes_applied.
Print Assumptions C18_replay_histories_witness.
Print Assumptions C18_replay_histories_applied.
Print Assumptions C18_witnesses_all.
Print Assumptions C01_replay_after_create_witness.
Print Assumptions C01_replay_after_create_applied.
Print Assumptions C01_replay_after_update_witness.
Print Assumptions C01_replay_after_update_applied.
Print Assumptions C01_replay_all_entry_points_witness.
Print Assumptions C01_replay_all_entry_points_applied.
Print Assumptions C01_write_then_read_witness.
Print Assumptions C01_write_then_read_applied.
Print Assumptions C01_append_stable_witness.
Print Assumptions C01_append_stable_applied.
Print Assumptions C01_escape_storable_witness.
Print Assumptions C01_escape_storable_applied.
Print Assumptions C02_no_false_pass_witness.
Print Assumptions C02_no_false_pass_applied.
Print Assumptions C02_no_false_pass_standalone_witness.
Print Assumptions C02_no_false_pass_standalone_applied.
Print Assumptions C02_unescape_injective_witness.
Print Assumptions C02_unescape_injective_applied.
Print Assumptions C02_changed_call_fails_witness.
Print Assumptions C02_changed_call_fails_applied.
Print Assumptions C01_witnesses_all.
Print Assumptions C02_witnesses_all.
Print Assumptions C03_slot_witness.
Print Assumptions C03_slot_applied.
Print Assumptions C03_header_injective_witness.
Print Assumptions C03_header_injective_applied.
Print Assumptions C03_create_isolated_witness.
Print Assumptions C03_create_isolated_applied.
Print Assumptions C03_rewrite_isolated_witness.
Print Assumptions C03_rewrite_isolated_applied.
Print Assumptions C03_rewrite_keeps_entries_witness.
Print Assumptions C03_rewrite_keeps_entries_applied.
Print Assumptions C03_witnesses_all.
Print Assumptions C04_rewrite_exact_witness.
Print Assumptions C04_rewrite_exact_applied.
Print Assumptions C04_converges_witness.
Print Assumptions C04_converges_applied.
Print Assumptions C04_call_table_witness.
Print Assumptions C04_call_table_applied.
Print Assumptions C04_standalone_witness.
Print Assumptions C04_standalone_applied.
Print Assumptions C04_update_run_converges_witness.
Print Assumptions C04_update_run_converges_applied.
Print Assumptions C04_update_run_converges_computed.
Print Assumptions C04_standalone_update_run_converges_witness.
Print Assumptions C04_standalone_update_run_converges_applied.
Print Assumptions C04_witnesses_all.
Print Assumptions C05_write_permission_witness.
Print Assumptions C05_write_permission_applied.
Print Assumptions C05_ci_readonly_witness.
Print Assumptions C05_ci_readonly_applied.
Print Assumptions C05_witnesses_all.
Print Assumptions C12_immutable_witness.
Print Assumptions C12_immutable_applied.
Print Assumptions C12_location_multi_witness.
Print Assumptions C12_location_multi_applied.
Print Assumptions C12_location_standalone_witness.
Print Assumptions C12_location_standalone_applied.
Print Assumptions C12_with_config_independent_witness.
Print Assumptions C12_with_config_independent_applied.
Print Assumptions C12_witnesses_all.
Print Assumptions C07_addressed_survives_witness.
Print Assumptions C07_addressed_survives_applied.
Print Assumptions C07_addressed_not_reported_witness.
Print Assumptions C07_addressed_not_reported_applied.
Print Assumptions C07_ids_recognised_witness.
Print Assumptions C07_ids_recognised_applied.
Print Assumptions C07_count_registered_witness.
Print Assumptions C07_count_registered_applied.
Print Assumptions C07_report_mode_untouched_witness.
Print Assumptions C07_report_mode_untouched_applied.
Print Assumptions C07_run_addressed_entry_survives_witness.
Print Assumptions C07_run_addressed_entry_survives_applied.
Print Assumptions C07_run_count_uniform_witness.
Print Assumptions C07_run_count_uniform_applied.
Print Assumptions C07_witnesses_all.
Print Assumptions C08_skip_protects_witness.
Print Assumptions C08_skip_protects_applied.
Print Assumptions C08_skipped_entry_kept_witness.
Print Assumptions C08_skipped_entry_kept_applied.
Print Assumptions C08_skip_exact_witness.
Print Assumptions C08_skip_exact_applied.
Print Assumptions C08_run_skip_protected_entry_kept_witness.
Print Assumptions C08_run_skip_protected_entry_kept_applied.
Print Assumptions C08_witnesses_all.
Print Assumptions C09_report_exact_witness.
Print Assumptions C09_report_exact_applied.
Print Assumptions C09_ids_recognised_witness.
Print Assumptions C09_ids_recognised_applied.
Print Assumptions C09_file_result_witness.
Print Assumptions C09_file_result_applied.
Print Assumptions C09_rewrite_is_permutation_of_staying_witness.
Print Assumptions C09_rewrite_is_permutation_of_staying_applied.
Print Assumptions C09_readonly_witness.
Print Assumptions C09_readonly_applied.
Print Assumptions C09_ci_untouched_witness.
Print Assumptions C09_ci_untouched_applied.
Print Assumptions C09_only_snap_files_witness.
Print Assumptions C09_only_snap_files_applied.
Print Assumptions C09_file_report_exact_witness.
Print Assumptions C09_file_report_exact_applied.
Print Assumptions C09_unaddressed_file_reported_witness.
Print Assumptions C09_unaddressed_file_reported_applied.
Print Assumptions C09_listing_witness.
Print Assumptions C09_listing_applied.
Print Assumptions C09_reported_files_removed_witness.
Print Assumptions C09_reported_files_removed_applied.
Print Assumptions C09_report_only_keeps_paths_witness.
Print Assumptions C09_report_only_keeps_paths_applied.
Print Assumptions C09_report_only_changes_only_addressed_witness.
Print Assumptions C09_report_only_changes_only_addressed_applied.
Print Assumptions C09_addressed_file_result_witness.
Print Assumptions C09_addressed_file_result_applied.
Print Assumptions C09_run_entry_report_witness.
Print Assumptions C09_run_entry_report_applied.
Print Assumptions C09_untouched_no_snap_in_name_witness.
Print Assumptions C09_untouched_no_snap_in_name_applied.
Print Assumptions C09_untouched_unvisited_dir_witness.
Print Assumptions C09_untouched_unvisited_dir_applied.
Print Assumptions C09_untouched_subdir_witness.
Print Assumptions C09_untouched_subdir_applied.
Print Assumptions C09_creates_nothing_witness.
Print Assumptions C09_creates_nothing_applied.
Print Assumptions C09_run_stale_entries_reported_witness.
Print Assumptions C09_run_stale_entries_reported_applied.
Print Assumptions C09_run_reported_entries_stale_witness.
Print Assumptions C09_run_reported_entries_stale_applied.
Print Assumptions C09_run_report_only_keeps_entries_witness.
Print Assumptions C09_run_report_only_keeps_entries_applied.
Print Assumptions C09_run_delete_mode_removes_reported_witness.
Print Assumptions C09_run_delete_mode_removes_reported_applied.
Print Assumptions C09_witnesses_all.
Print Assumptions w09_changes_need_sort.
Print Assumptions C10_rewrite_preserves_content_witness.
Print Assumptions C10_rewrite_preserves_content_applied.
Print Assumptions C10_prune_in_place_witness.
Print Assumptions C10_prune_in_place_applied.
Print Assumptions C10_rewrite_only_if_witness.
Print Assumptions C10_rewrite_only_if_applied.
Print Assumptions C10_sorted_result_witness.
Print Assumptions C10_sorted_result_applied.
Print Assumptions C10_sorted_order_independent_witness.
Print Assumptions C10_sorted_order_independent_applied.
Print Assumptions C10_clean_twice_witness.
Print Assumptions C10_clean_twice_applied.
Print Assumptions C10_sorted_arrangement_unique_witness.
Print Assumptions C10_sorted_arrangement_unique_offdiagonal.
Print Assumptions C10_sorted_arrangement_unique_applied.
Print Assumptions C10_sort_sorted_witness.
Print Assumptions C10_sort_sorted_applied.
Print Assumptions C10_same_test_by_ordinal_witness.
Print Assumptions C10_same_test_by_ordinal_applied.
Print Assumptions C10_same_test_sorted_increasing_witness.
Print Assumptions C10_same_test_sorted_increasing_applied.
Print Assumptions C10_same_test_total_witness.
Print Assumptions C10_same_test_total_applied.
Print Assumptions C10_witnesses_all.
Print Assumptions C11_abs_dir_independent_witness.
Print Assumptions C11_abs_dir_independent_applied.
Print Assumptions C11_helper_frames_ignored_witness.
Print Assumptions C11_helper_frames_ignored_applied.
Print Assumptions C11_runner_fallback_witness.
Print Assumptions C11_runner_fallback_applied.
Print Assumptions C11_ordinal_substitution_witness.
Print Assumptions C11_ordinal_substitution_applied.
Print Assumptions C11_json_ext_default_witness.
Print Assumptions C11_json_ext_default_applied.
Print Assumptions C11_json_ext_given_witness.
Print Assumptions C11_json_ext_given_applied.
Print Assumptions C11_trim_caller_dir_irrelevant_witness.
Print Assumptions C11_trim_caller_dir_irrelevant_applied.
Print Assumptions C11_witnesses_all.
Print Assumptions C13_empty_iff_witness.
Print Assumptions C13_lines_truthful_witness.
Print Assumptions C13_lines_truthful_applied.
Print Assumptions C13_no_escape_witness.
Print Assumptions C13_no_escape_applied.
Print Assumptions C13_split_inj_witness.
Print Assumptions C13_longest_match_valid_witness.
Print Assumptions C13_longest_match_valid_applied.
Print Assumptions C13_tile_first_witness.
Print Assumptions C13_tile_first_applied.
Print Assumptions C13_tile_abut_witness.
Print Assumptions C13_tile_abut_applied.
Print Assumptions C13_tile_last_witness.
Print Assumptions C13_tile_last_applied.
Print Assumptions C13_equal_sound_witness.
Print Assumptions C13_equal_sound_applied.
Print Assumptions C13_report_readable_witness.
Print Assumptions C13_report_readable_applied.
Print Assumptions C13_printed_counts_witness.
Print Assumptions C13_printed_counts_applied.
Print Assumptions C13_printed_lines_truthful_witness.
Print Assumptions C13_printed_lines_truthful_applied.
Print Assumptions C13_printed_injective_witness.
Print Assumptions C13_printed_injective_applied.
Print Assumptions C13_valid_script_spec_witness.
Print Assumptions C13_script_empty_iff_witness.
Print Assumptions C13_script_empty_iff_applied.
Print Assumptions C13_script_no_escape_witness.
Print Assumptions C13_script_no_escape_applied.
Print Assumptions C13_script_lines_truthful_witness.
Print Assumptions C13_script_lines_truthful_applied.
Print Assumptions C13_script_residual_witness.
Print Assumptions C13_script_residual_applied.
Print Assumptions C13_script_tile_first_witness.
Print Assumptions C13_script_tile_first_applied.
Print Assumptions C13_script_tile_abut_witness.
Print Assumptions C13_script_tile_abut_applied.
Print Assumptions C13_script_tile_last_witness.
Print Assumptions C13_script_tile_last_applied.
Print Assumptions C13_script_equal_sound_witness.
Print Assumptions C13_script_equal_sound_applied.
Print Assumptions C13_script_replay_witness.
Print Assumptions C13_script_replay_applied.
Print Assumptions C13_script_hunks_contiguous_witness.
Print Assumptions C13_script_hunks_contiguous_applied.
Print Assumptions C13_script_report_readable_witness.
Print Assumptions C13_script_report_readable_applied.
Print Assumptions C13_script_printed_counts_witness.
Print Assumptions C13_script_printed_counts_applied.
Print Assumptions C13_script_printed_lines_truthful_witness.
Print Assumptions C13_script_printed_lines_truthful_applied.
Print Assumptions C13_script_printed_residual_witness.
Print Assumptions C13_script_printed_residual_applied.
Print Assumptions C13_reader_label_irrelevant_witness.
Print Assumptions C13_reader_label_irrelevant_applied.
Print Assumptions C13_witnesses_all.
Print Assumptions C14_parse_render_witness.
Print Assumptions C14_parse_render_applied.
Print Assumptions C14_valid_is_rendering_witness.
Print Assumptions C14_valid_is_rendering_applied.
Print Assumptions C14_lossless_witness.
Print Assumptions C14_lossless_applied.
Print Assumptions C14_stored_is_valid_witness.
Print Assumptions C14_stored_is_valid_applied.
Print Assumptions C14_whitespace_insensitive_witness.
Print Assumptions C14_whitespace_insensitive_applied.
Print Assumptions C14_member_order_insensitive_witness.
Print Assumptions C14_member_order_insensitive_applied.
Print Assumptions C14_idempotent_witness.
Print Assumptions C14_idempotent_applied.
Print Assumptions C14_no_frame_lines_witness.
Print Assumptions C14_no_frame_lines_applied.
Print Assumptions C14_fuel_witness.
Print Assumptions C14_fuel_applied.
Print Assumptions C14_witnesses_all.
Print Assumptions C15_target_replaced_witness.
Print Assumptions C15_target_replaced_applied.
Print Assumptions C15_others_untouched_witness.
Print Assumptions C15_others_untouched_applied.
Print Assumptions C15_object_shape_witness.
Print Assumptions C15_object_shape_applied.
Print Assumptions C15_array_shape_witness.
Print Assumptions C15_array_shape_applied.
Print Assumptions C15_result_wellformed_witness.
Print Assumptions C15_result_wellformed_applied.
Print Assumptions C15_settable_iff_exists_witness.
Print Assumptions C15_list_others_untouched_witness.
Print Assumptions C15_list_others_untouched_applied.
Print Assumptions C15_list_any_target_replaced_witness.
Print Assumptions C15_list_any_target_replaced_applied.
Print Assumptions C15_ancestor_then_descendant_witness.
Print Assumptions C15_ancestor_then_descendant_applied.
Print Assumptions C15_witnesses_all.
Print Assumptions C16_masked_witness.
Print Assumptions C16_masked_applied.
Print Assumptions C16_unmasked_witness.
Print Assumptions C16_unmasked_applied.
Print Assumptions C16_store_injective_witness.
Print Assumptions C16_store_injective_applied.
Print Assumptions C16_masked_list_witness.
Print Assumptions C16_masked_list_applied.
Print Assumptions C16_masked_text_witness.
Print Assumptions C16_masked_text_applied.
Print Assumptions C16_unmasked_list_witness.
Print Assumptions C16_unmasked_list_applied.
Print Assumptions C16_masking_idempotent_witness.
Print Assumptions C16_masking_idempotent_applied.
Print Assumptions C16_witnesses_all.
Print Assumptions C17_fail_multi_witness.
Print Assumptions C17_fail_multi_applied.
Print Assumptions C17_fail_standalone_witness.
Print Assumptions C17_fail_standalone_applied.
Print Assumptions C17_errors_named_witness.
Print Assumptions C17_errors_named_applied.
Print Assumptions C17_errors_sound_witness.
Print Assumptions C17_errors_sound_applied.
Print Assumptions C17_missing_path_fails_witness.
Print Assumptions C17_missing_path_fails_applied.
Print Assumptions C17_wrong_type_fails_witness.
Print Assumptions C17_wrong_type_fails_applied.
Print Assumptions C17_null_has_no_type_witness.
Print Assumptions C17_null_has_no_type_applied.
Print Assumptions C17_callback_error_fails_witness.
Print Assumptions C17_callback_error_fails_applied.
Print Assumptions C17_tolerated_missing_witness.
Print Assumptions C17_tolerated_missing_applied.
Print Assumptions C17_discard_rule_witness.
Print Assumptions C17_discard_rule_applied.
Print Assumptions C17_witnesses_all.
Print Assumptions C19_bytes_witness.
Print Assumptions C19_bytes_applied.
Print Assumptions C19_others_untouched_witness.
Print Assumptions C19_others_untouched_applied.
Print Assumptions C19_roundtrip_witness.
Print Assumptions C19_roundtrip_applied.
Print Assumptions C19_update_wholesale_witness.
Print Assumptions C19_update_wholesale_applied.
Print Assumptions C19_kth_file_witness.
Print Assumptions C19_kth_file_applied.
Print Assumptions C19_replay_histories_witness.
Print Assumptions C19_replay_histories_witness2.
Print Assumptions C19_replay_histories_applied.
Print Assumptions C19_replay_after_update_witness.
Print Assumptions C19_replay_after_update_applied.
Print Assumptions C19_kth_call_histories_witness.
Print Assumptions C19_kth_call_histories_applied.
Print Assumptions C19_witnesses_all.
Print Assumptions C20_one_outcome_witness.
Print Assumptions C20_one_outcome_applied.
Print Assumptions C20_counters_witness.
Print Assumptions C20_counters_applied.
Print Assumptions C20_summary_readable_witness.
Print Assumptions C20_summary_readable_applied.
Print Assumptions C20_summary_totals_witness.
Print Assumptions C20_summary_totals_applied.
Print Assumptions C20_summary_injective_witness.
Print Assumptions C20_summary_injective_applied.
Print Assumptions C20_summary_empty_iff_witness.
Print Assumptions C20_witnesses_all.
