(* Recording runs that also REWRITE entries (update mode): under header-collision freedom and with
   consistent values per slot, everything recorded still replays (C01 / C04 over histories). *)
From Coq Require Import String.
From Coq Require Import List NArith Arith Bool Lia.
Import ListNotations.
From Snaps Require Import Base.Bytes Base.Lines Base.Dec Base.Assoc.
From Snaps Require Import Model.Frame Model.PathModel Model.Mode Model.Api.
From Snaps Require Import Proofs.BytesP Proofs.LinesP Proofs.DecP Proofs.FrameP Proofs.DiffDecisionP
  Proofs.ApiP Proofs.HistoryP Proofs.IsolationP.

(* no body line of any entry equals any header in H *)
Definition coll_free (H : list bytes) (es : list entry) : Prop := Forall (fun h => no_collision h es) H.

Definition efile_ok (H : list bytes) (f : bytes) : Prop :=
  exists es, f = render es /\ Forall wf_entry es /\ coll_free H es.

Definition efs_ok (H : list bytes) (fs : list (bytes * bytes)) : Prop :=
  forall p f, alookup p fs = Some f -> efile_ok H f.

Definition headers_ok (H : list bytes) : Prop := Forall (fun h => h <> [] /\ h <> endseq) H.

(* a recorded fact is admissible: its header is in H, its stored text is a well-formed entry body and
   contains no line equal to a header of H *)
Definition fact_ok (H : list bytes) (f : fact) : Prop :=
  let '(p, id, a, text) := f in
  In id H /\ wf_entry (id, snap_of a text) /\ Forall (fun h => ~ In h (split_nl (snap_of a text))) H.

(* one value per slot *)
Definition consistent (fs : list fact) : Prop :=
  forall p id a t a' t', In (p, id, a, t) fs -> In (p, id, a', t') fs -> a = a' /\ t = t'.

Lemma efile_ok_nil H : efile_ok H [].
Proof. exists []. split; [reflexivity|]. split; [constructor|]. apply Forall_forall. intros h _. constructor. Qed.

Lemma efs_ok_wf H fs : efs_ok H fs -> wf_fs fs.
Proof. intros Hok p f Hl. destruct (Hok p f Hl) as [es [-> [Hwf _]]]. now apply wf_file_render. Qed.

Lemma efs_file_or_empty H fs p : efs_ok H fs -> efile_ok H (file_or_empty fs p).
Proof. intros Hok. unfold file_or_empty. destruct (alookup p fs) eqn:E; [eauto|apply efile_ok_nil]. Qed.

Lemma efs_ok_aset H fs p f : efs_ok H fs -> efile_ok H f -> efs_ok H (aset p f fs).
Proof.
  intros Hok Hf q g. destruct (beq_spec q p) as [->|Hne].
  - rewrite alookup_aset_same. now intros [= <-].
  - rewrite alookup_aset_other by assumption. apply Hok.
Qed.

Lemma render_app es1 es2 : render (es1 ++ es2) = (render es1 ++ render es2)%list.
Proof. unfold render, render_lines. now rewrite flat_map_app, unlines_app. Qed.

Lemma add_entry_render id snap es : add_entry id snap (render es) = render (es ++ [(id, snap)]).
Proof.
  rewrite render_app. unfold add_entry. f_equal.
  unfold render, render_lines. cbn [flat_map]. rewrite app_nil_r. unfold entry_lines. cbn [fst snd].
  apply frame_unlines.
Qed.

Lemma coll_free_app H es e :
  coll_free H es -> Forall (fun h => ~ In h (split_nl (snd e))) H -> coll_free H (es ++ [e]).
Proof.
  unfold coll_free, no_collision. rewrite !Forall_forall. intros H1 H2 h Hh.
  apply Forall_app. split; [now apply H1|]. constructor; [now apply H2|constructor].
Qed.

Lemma coll_free_replace H id snap es :
  coll_free H es -> Forall (fun h => ~ In h (split_nl snap)) H -> coll_free H (map (replace_entry id snap) es).
Proof.
  unfold coll_free. rewrite !Forall_forall. intros H1 H2 h Hh.
  apply replace_no_collision; auto.
Qed.

(* value of a slot in an admissible file *)
Lemma efile_lookup H f id :
  efile_ok H f -> headers_ok H -> In id H ->
  exists es, f = render es /\ Forall wf_entry es /\ coll_free H es /\
             option_map fst (get_prev id f) = lookup_entry id es.
Proof.
  intros [es [-> [Hwf Hcf]]] Hh Hin. exists es. repeat split; auto.
  unfold headers_ok, coll_free in *. rewrite Forall_forall in Hh, Hcf.
  destruct (Hh id Hin) as [Hn He]. apply get_prev_render; auto.
Qed.

Lemma holds_of_lookup fs p id a text f :
  alookup p fs = Some f -> option_map fst (get_prev id f) = Some (snap_of a text) ->
  holds fs (p, id, a, text).
Proof.
  intros Hl Hg. unfold holds, lookup_slot. rewrite Hl.
  destruct (get_prev id f) as [[prev n]|]; [|discriminate]. cbn in Hg. injection Hg as ->.
  exists (snap_of a text), n. split; [reflexivity|apply same_snap].
Qed.

(* a rewrite of slot (path, id): the slot now holds the value, the file stays admissible, every other
   holding fact keeps holding *)
Lemma update_step H fs path id a text f :
  efs_ok H fs -> headers_ok H -> fact_ok H (path, id, a, text) ->
  alookup path fs = Some f -> get_prev id f <> None ->
  let fs' := aset path (update_entry id (snap_of a text) f) fs in
  efs_ok H fs' /\ holds fs' (path, id, a, text) /\
  (forall p' id' a' t', In id' H -> (p', id') <> (path, id) -> holds fs (p', id', a', t') -> holds fs' (p', id', a', t')).
Proof.
  intros Hok Hh [Hin [Hws Hcs]] Hl Hfound fs'.
  destruct (efile_lookup H f id (Hok _ _ Hl) Hh Hin) as [es [-> [Hwf [Hcf Hlk]]]].
  assert (Hhid : id <> [] /\ id <> endseq) by (unfold headers_ok in Hh; rewrite Forall_forall in Hh; auto).
  destruct Hhid as [Hn He].
  assert (Hcid : no_collision id es) by (unfold coll_free in Hcf; rewrite Forall_forall in Hcf; auto).
  assert (Hnew : update_entry id (snap_of a text) (render es) = render (map (replace_entry id (snap_of a text)) es))
    by now apply update_entry_render.
  assert (Hwf' : Forall wf_entry (map (replace_entry id (snap_of a text)) es)) by now apply replace_wf.
  assert (Hcf' : coll_free H (map (replace_entry id (snap_of a text)) es)) by now apply coll_free_replace.
  split; [|split].
  - unfold fs'. apply efs_ok_aset; [assumption|]. rewrite Hnew. eexists. repeat split; eauto.
  - unfold fs'. eapply holds_of_lookup; [apply alookup_aset_same|].
    rewrite Hnew. rewrite get_prev_render; auto.
    + apply lookup_replace_same. rewrite <- Hlk. destruct (get_prev id (render es)); [discriminate|contradiction].
    + unfold coll_free in Hcf'. rewrite Forall_forall in Hcf'. auto.
  - intros p' id' a' t' Hin' Hne [prev [n [Hls Hs]]].
    unfold holds, lookup_slot, fs' in *.
    destruct (beq_spec p' path) as [->|Hp].
    + rewrite alookup_aset_same. rewrite Hl in Hls.
      assert (Hid' : id' <> id) by (intros ->; now apply Hne).
      assert (Hh' : id' <> [] /\ id' <> endseq) by (unfold headers_ok in Hh; rewrite Forall_forall in Hh; auto).
      destruct Hh' as [Hn' He'].
      assert (Hiso : option_map fst (get_prev id' (update_entry id (snap_of a text) (render es))) =
                     option_map fst (get_prev id' (render es))).
      { apply update_isolation; auto.
        - unfold coll_free in Hcf. rewrite Forall_forall in Hcf. auto.
        - rewrite Forall_forall in Hcs. auto. }
      rewrite Hls in Hiso. cbn in Hiso.
      destruct (get_prev id' (update_entry id (snap_of a text) (render es))) as [[prev' n']|]; [|discriminate].
      cbn in Hiso. injection Hiso as ->. exists prev, n'. split; [reflexivity|assumption].
    + rewrite alookup_aset_other by assumption. eauto.
Qed.

(* an append keeps the file admissible *)
Lemma add_step_ok H fs path id a text :
  efs_ok H fs -> fact_ok H (path, id, a, text) ->
  efs_ok H (aset path (add_entry id (snap_of a text) (file_or_empty fs path)) fs).
Proof.
  intros Hok [Hin [Hws Hcs]]. apply efs_ok_aset; [assumption|].
  destruct (efs_file_or_empty H fs path Hok) as [es [-> [Hwf Hcf]]].
  rewrite add_entry_render. eexists. split; [reflexivity|]. split.
  - apply Forall_app. split; [assumption|constructor; [assumption|constructor]].
  - now apply coll_free_app.
Qed.

(* ---------- the recording run with rewrites ---------- *)

Definition rec_ok_upd (o : obs) : Prop :=
  o_outcome o = Passed \/ o_outcome o = Added \/ o_outcome o = Updated \/ o_outcome o = NoCall.

Lemma multi_updated s a c test text s' o :
  is_standalone a = false ->
  multi_call s a c test (POk text) = (s', o) -> o_outcome o = Updated ->
  exists f, alookup (multi_path s c test) (s_fs s) = Some f /\ get_prev (multi_id s c test) f <> None /\
            s_fs s' = aset (multi_path s c test) (update_entry (multi_id s c test) (snap_of a text) f) (s_fs s).
Proof.
  intros Hst Hc Ho.
  destruct (multi_call_spec s a c test text Hst) as [s2 [o2 [E [_ [_ [_ [_ [_ [_ [_ [Hm _]]]]]]]]]]].
  rewrite Hc in E. injection E as <- <-.
  unfold lookup_slot, file_or_empty in Hm.
  destruct (alookup (multi_path s c test) (s_fs s)) as [f|] eqn:El.
  - destruct (get_prev (multi_id s c test) f) as [[prev line]|] eqn:Eg.
    + destruct (same a prev text).
      * destruct Hm as [Hm _]. congruence.
      * destruct (should_update _ _); [|destruct Hm as [Hm _]; congruence].
        destruct Hm as [_ [_ Hfs]]. exists f. repeat split; [congruence|exact Hfs].
    + destruct (should_create _ _); destruct Hm as [Hm _]; congruence.
  - destruct (should_create _ _); destruct Hm as [Hm _]; congruence.
Qed.

Lemma multi_call_bad_upd s a c test p :
  is_standalone a = false -> (forall t, p <> POk t) -> ~ rec_ok_upd (snd (multi_call s a c test p)).
Proof.
  intros Hst Hp. unfold multi_call, rec_ok_upd, finish.
  destruct a; try discriminate Hst; destruct p; try (exfalso; eapply Hp; reflexivity);
    cbn; intuition discriminate.
Qed.

Lemma consistent_sub l1 l2 : consistent (l1 ++ l2) -> consistent l2.
Proof. intros H p id a t a' t' H1 H2. apply (H p id a t a' t'); apply in_or_app; now right. Qed.

Lemma record_run_upd H h : forall s old,
  headers_ok H ->
  Forall hist_op_ok h -> efs_ok H (s_fs s) ->
  Forall rec_ok_upd (snd (run s h)) ->
  Forall (fact_ok H) old -> Forall (fact_ok H) (facts s h) -> consistent (old ++ facts s h) ->
  Forall (holds (s_fs s)) old ->
  let s1 := fst (run s h) in
  efs_ok H (s_fs s1) /\ Forall (holds (s_fs s1)) (old ++ facts s h).
Proof.
  induction h as [|o r IH]; intros s old Hh Hok Hefs Hrec Hold Hfok Hcons Hholds; cbn zeta.
  - cbn. rewrite app_nil_r. split; assumption.
  - rewrite run_cons in *. cbn [fst snd] in *.
    inversion Hok as [|? ? Ho Hr]; subst. inversion Hrec as [|? ? Ho1 Hr1]; subst.
    cbn [facts] in Hfok, Hcons. apply Forall_app in Hfok as [Hfok1 Hfok2].
    (* one step *)
    assert (Hstep : efs_ok H (s_fs (fst (step s o))) /\
                    Forall (holds (s_fs (fst (step s o)))) (old ++ fact_of s o)).
    { destruct o as [a hd test p|test|test|fn d ex u|e|pa co|pa|]; cbn [hist_op_ok] in Ho; try contradiction.
      - destruct Ho as [Hst [Hnl Hv]].
        destruct (nth_error (s_cfgs s) hd) as [c|] eqn:Ec.
        + rewrite (step_match_multi _ _ _ _ _ _ Hst Ec) in *.
          destruct p as [| | |text].
          * exfalso. apply (multi_call_bad_upd s a c test PNoValues Hst); [intros t; discriminate|exact Ho1].
          * exfalso. apply (multi_call_bad_upd s a c test PInvalid Hst); [intros t; discriminate|exact Ho1].
          * exfalso. apply (multi_call_bad_upd s a c test PMatchErr Hst); [intros t; discriminate|exact Ho1].
          * cbn [fact_of] in *. rewrite Ec in *.
            inversion Hfok1 as [|? ? Hfact _]; subst.
            destruct (multi_call s a c test (POk text)) as [s' ob] eqn:Em. cbn [fst snd] in *.
            destruct Ho1 as [Hp|[Ha|[Hu|Hn]]].
            -- destruct (multi_passed _ _ _ _ _ _ _ Hst Em Hp) as [Hhd Hfs]. rewrite Hfs.
               split; [assumption|]. apply Forall_app. split; [assumption|constructor; [assumption|constructor]].
            -- destruct (multi_added _ _ _ _ _ _ _ Hst Hnl Hv (efs_ok_wf _ _ Hefs) Em Ha) as [Hhd [_ Hpres]].
               split.
               ++ destruct (multi_call_spec s a c test text Hst) as [s2 [o2 [E [_ [_ [_ [_ [_ [_ [_ [Hm _]]]]]]]]]]].
                  rewrite Em in E. injection E as <- <-.
                  destruct (lookup_slot _ _ _) as [[prev line]|].
                  ** destruct (same a prev text); [destruct Hm as [Hm _]; congruence|].
                     destruct (should_update _ _); destruct Hm as [Hm _]; congruence.
                  ** destruct (should_create _ _); [|destruct Hm as [Hm _]; congruence].
                     destruct Hm as [_ [_ Hfs]]. rewrite Hfs. now apply add_step_ok.
               ++ apply Forall_app. split; [|constructor; [assumption|constructor]].
                  eapply Forall_impl; [|exact Hholds]. intros fct. apply Hpres.
            -- destruct (multi_updated _ _ _ _ _ _ _ Hst Em Hu) as [f [Hl [Hfound Hfs]]].
               destruct (update_step H (s_fs s) _ _ a text f Hefs Hh Hfact Hl Hfound) as [Hefs' [Hnew Hothers]].
               rewrite Hfs. split; [assumption|].
               apply Forall_app. split; [|constructor; [assumption|constructor]].
               rewrite Forall_forall in *. intros [[[p' id'] a'] t'] Hin.
               destruct (key2_eqb_spec (p', id') (multi_path s c test, multi_id s c test)) as [E|Hne].
               ++ injection E as -> ->.
                  destruct (Hcons (multi_path s c test) (multi_id s c test) a' t' a text) as [-> ->].
                  ** apply in_or_app. now left.
                  ** apply in_or_app. right. apply in_or_app. left. now left.
                  ** exact Hnew.
               ++ apply Hothers; auto.
                  destruct (Hold _ Hin) as [Hid _]. exact Hid.
            -- exfalso.
               destruct (multi_call_spec s a c test text Hst) as [s2 [o2 [E [_ [_ [_ [_ [_ [_ [_ [Hm _]]]]]]]]]]].
               rewrite Em in E. injection E as <- <-.
               destruct (lookup_slot _ _ _) as [[prev line]|].
               ++ destruct (same a prev text); [destruct Hm as [Hm _]; congruence|].
                  destruct (should_update _ _); destruct Hm as [Hm _]; congruence.
               ++ destruct (should_create _ _); destruct Hm as [Hm _]; congruence.
        + rewrite (step_match_nocfg _ _ _ _ _ Ec). cbn [fst fact_of].
          split; [assumption|]. destruct p; try rewrite Ec; now rewrite app_nil_r.
      - cbn [step fst fact_of]. rewrite end_test_fs. rewrite app_nil_r. split; assumption.
      - cbn [step fst fact_of s_fs]. rewrite app_nil_r. split; assumption. }
    destruct Hstep as [Hefs1 Hholds1].
    destruct (IH (fst (step s o)) (old ++ fact_of s o) Hh Hr Hefs1 Hr1) as [He2 Hh2].
    + apply Forall_app. split; assumption.
    + assumption.
    + now rewrite <- app_assoc.
    + assumption.
    + split; [assumption|]. now rewrite <- app_assoc in Hh2.
Qed.

(* ---------- two processes, the first one may rewrite ---------- *)

Theorem replay_after_update H s0 h e2 :
  fresh s0 -> headers_ok H -> efs_ok H (s_fs s0) ->
  Forall hist_op_ok h -> Forall has_value h ->
  Forall rec_ok_upd (snd (run s0 h)) ->
  Forall (fact_ok H) (facts s0 h) -> consistent (facts s0 h) ->
  let s1 := fst (run s0 h) in
  let t0 := replay_start s1 e2 in
  Forall silent_pass (snd (run t0 h)) /\ s_fs (fst (run t0 h)) = s_fs s1.
Proof.
  intros [Hf1 [Hf2 [Hf3 Hf4]]] Hh Hefs Hok Hval Hrec Hfok Hcons s1 t0.
  destruct (record_run_upd H h s0 [] Hh Hok Hefs Hrec (Forall_nil _) Hfok Hcons (Forall_nil _)) as [_ Hfacts].
  cbn [app] in Hfacts. fold s1 in Hfacts.
  destruct (run_caller_cfgs h s0 Hok) as [Hcal [extra Hcf]]. fold s1 in Hcal, Hcf.
  assert (Hview : reg_view s0 = reg_view t0).
  { unfold reg_view, t0, replay_start. cbn. rewrite Hf1, Hf2, Hf3, Hcal, Hcf.
    destruct (s_cfgs s0) as [|c0 [|c1 l]]; try discriminate Hf4. reflexivity. }
  assert (Hfs : s_fs t0 = s_fs s1) by reflexivity.
  destruct (replay_run h t0 Hok) as [H1 H2].
  - rewrite <- (facts_view h s0 t0 Hok Hview), Hfs. exact Hfacts.
  - intros o Hin. rewrite Forall_forall in Hval. apply (Hval o Hin).
  - split; [assumption|]. now rewrite H2.
Qed.
