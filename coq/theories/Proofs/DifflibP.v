(* DifflibP: lemmas about the difflib model (Model/Difflib.v), for ALL line lists. *)
From Coq Require Import List NArith Arith Bool Lia.
Import ListNotations.
From Snaps Require Import Base.Bytes Proofs.BytesP Model.Difflib Model.DifflibSpec.

(* ================================================================== *)
(** * nth / firstn / skipn / slice *)

Lemma nth_skipn_add {A} (d : A) (l : list A) k r : nth r (skipn k l) d = nth (k + r) l d.
Proof.
  revert l; induction k as [|k IH]; intros l; [reflexivity|].
  destruct l as [|x l]; cbn [skipn plus nth].
  - now destruct r.
  - apply IH.
Qed.

Lemma nth_firstn_lt {A} (d : A) (l : list A) n r : r < n -> nth r (firstn n l) d = nth r l d.
Proof.
  revert l r; induction n as [|n IH]; intros l r Hr; [lia|].
  destruct l as [|x l]; [reflexivity|].
  destruct r as [|r]; [reflexivity|]. cbn. apply IH. lia.
Qed.

Lemma slice_nil {A} (l : list A) i : slice l i i = [].
Proof. unfold slice. now rewrite Nat.sub_diag. Qed.

Lemma slice_full {A} (l : list A) : slice l 0 (length l) = l.
Proof. unfold slice. rewrite Nat.sub_0_r. cbn. apply firstn_all. Qed.

Lemma slice_length {A} (l : list A) i1 i2 : i2 <= length l -> length (slice l i1 i2) = i2 - i1.
Proof.
  intros H. unfold slice. rewrite firstn_length, skipn_length. lia.
Qed.

Lemma firstn_add_skipn {A} (l : list A) n m :
  firstn (n + m) l = firstn n l ++ firstn m (skipn n l).
Proof.
  revert l; induction n as [|n IH]; intros l; [reflexivity|].
  destruct l as [|x l]; cbn.
  - now rewrite firstn_nil.
  - now rewrite IH.
Qed.

Lemma skipn_skipn_add {A} (l : list A) n m : skipn m (skipn n l) = skipn (n + m) l.
Proof.
  revert l; induction n as [|n IH]; intros l; [reflexivity|].
  destruct l as [|x l]; cbn; [now rewrite skipn_nil|apply IH].
Qed.

Lemma slice_app_adj {A} (l : list A) i1 i2 i3 :
  i1 <= i2 -> i2 <= i3 -> slice l i1 i2 ++ slice l i2 i3 = slice l i1 i3.
Proof.
  intros H12 H23. unfold slice.
  replace (i3 - i1) with ((i2 - i1) + (i3 - i2)) by lia.
  rewrite firstn_add_skipn, skipn_skipn_add.
  replace (i1 + (i2 - i1)) with i2 by lia. reflexivity.
Qed.

Lemma In_firstn {A} (l : list A) n x : In x (firstn n l) -> In x l.
Proof.
  revert l; induction n as [|n IH]; intros [|y l] H; cbn in H; try contradiction.
  destruct H as [->|H]; [now left|right; now apply IH].
Qed.

Lemma In_slice {A} (l : list A) i1 i2 x : In x (slice l i1 i2) -> In x l.
Proof.
  unfold slice. intros H. apply In_firstn in H.
  rewrite <- (firstn_skipn i1 l). apply in_or_app. now right.
Qed.

Lemma slice_nonempty {A} (l : list A) i1 i2 : i1 < i2 -> i2 <= length l -> slice l i1 i2 <> [].
Proof.
  intros H1 H2 E. apply (f_equal (@length A)) in E. rewrite slice_length in E by assumption.
  cbn in E. lia.
Qed.

(* two lists of the same length with the same nth are equal *)
Lemma nth_ext_nil (l1 l2 : list line) :
  length l1 = length l2 -> (forall t, t < length l1 -> nth t l1 [] = nth t l2 []) -> l1 = l2.
Proof.
  revert l2; induction l1 as [|x l1 IH]; intros [|y l2] Hlen H; cbn in Hlen; try lia; [reflexivity|].
  f_equal.
  - apply (H 0). cbn. lia.
  - apply IH; [lia|]. intros t Ht. apply (H (S t)). cbn. lia.
Qed.

Lemma nth_slice (l : list line) i1 i2 t : t < i2 - i1 -> nth t (slice l i1 i2) [] = nth (i1 + t) l [].
Proof. intros H. unfold slice. rewrite nth_firstn_lt by assumption. apply nth_skipn_add. Qed.

(* an equal run inside both lists gives equal slices *)
Lemma eq_run_slice a b i j k :
  i + k <= length a -> j + k <= length b -> eq_run a b i j k ->
  slice a i (i + k) = slice b j (j + k).
Proof.
  intros Ha Hb H. apply nth_ext_nil.
  - rewrite !slice_length by assumption. lia.
  - intros t Ht. rewrite slice_length in Ht by assumption.
    rewrite !nth_slice by lia. apply H. lia.
Qed.

(* ================================================================== *)
(** * chainB: the index table is sound *)

Lemma indices_from_sound base b x j :
  In j (indices_from base b x) -> base <= j /\ j < base + length b /\ nth (j - base) b [] = x.
Proof.
  revert base; induction b as [|y b IH]; intros base H; cbn in H; [contradiction|].
  destruct (beq_spec x y) as [->|Hne].
  - destruct H as [<-|H].
    + rewrite Nat.sub_diag. cbn. repeat split; lia.
    + apply IH in H as (H1 & H2 & H3). cbn [length]. repeat split; try lia.
      replace (j - base) with (S (j - S base)) by lia. exact H3.
  - apply IH in H as (H1 & H2 & H3). cbn [length]. repeat split; try lia.
    replace (j - base) with (S (j - S base)) by lia. exact H3.
Qed.

Lemma indices_sound b x j : In j (indices b x) -> j < length b /\ nth j b [] = x.
Proof.
  intros H. apply indices_from_sound in H as (_ & H2 & H3).
  rewrite Nat.sub_0_r in H3. split; [lia|assumption].
Qed.

(* b2j lists only positions of x, whatever the popularity purge removes *)
Lemma b2j_sound b x j : In j (b2j b x) -> j < length b /\ nth j b [] = x.
Proof.
  unfold b2j. destruct (popular b x); [intros []|apply indices_sound].
Qed.

(* the indices are complete when x is not popular (not needed for validity; documents b2j) *)
Lemma indices_from_complete base b x t :
  t < length b -> nth t b [] = x -> In (base + t) (indices_from base b x).
Proof.
  revert base t; induction b as [|y b IH]; intros base t Ht Hx; cbn in Ht; [lia|].
  cbn [indices_from]. destruct t as [|t]; cbn in Hx.
  - subst y. rewrite beq_refl. left. lia.
  - assert (In (S base + t) (indices_from (S base) b x)) as Hin by (apply IH; [lia|assumption]).
    replace (base + S t) with (S base + t) by lia.
    destruct (beq x y); [now right|assumption].
Qed.

Lemma b2j_complete b x t :
  popular b x = false -> t < length b -> nth t b [] = x -> In t (b2j b x).
Proof.
  intros Hp Ht Hx. unfold b2j. rewrite Hp. apply (indices_from_complete 0); assumption.
Qed.

Lemma popular_small b x : length b < 200 -> popular b x = false.
Proof.
  intros H. unfold popular. destruct (Nat.leb_spec 200 (length b)); [lia|reflexivity].
Qed.

Lemma b2j_table_sound a b : tbl_sound a b (b2j_table a b).
Proof.
  intros i j H. unfold b2j_table in H.
  destruct (Nat.lt_ge_cases i (length a)) as [Hi|Hi].
  - rewrite (nth_indep _ [] (b2j b [])) in H by now rewrite map_length.
    rewrite map_nth in H. apply b2j_sound in H as [_ H]. now symmetry.
  - rewrite nth_overflow in H by now rewrite map_length. contradiction.
Qed.

(* ================================================================== *)
(** * findLongestMatch: the DP invariant *)

Lemma j2get_in m j : j2get m j = 0 \/ In (j, j2get m j) m.
Proof.
  induction m as [|[j' k] m IH]; cbn; [now left|].
  destruct (Nat.eqb_spec j' j) as [->|Hne].
  - right. now left.
  - destruct IH as [IH|IH]; [now left|right; now right].
Qed.

Section FLM.
  Variables (a b : list line) (alo ahi blo bhi : nat).

  Local Notation j2ok := (DifflibSpec.j2ok a b alo blo bhi).
  Local Notation left_cond := (DifflibSpec.left_cond a b alo blo).
  Local Notation right_cond := (DifflibSpec.right_cond a b ahi bhi).

  Lemma j2ok_nil i : j2ok i [].
  Proof. intros j k []. Qed.

  (* the entry written for (i, j) *)
  Lemma j2ok_new_entry i j prev :
    alo <= i -> blo <= j -> j < bhi -> nth i a [] = nth j b [] -> j2ok i prev ->
    let k := S (j2prev prev j) in
    alo + k <= S i /\ blo + k <= S j /\
    forall t, t < k -> nth (i - t) a [] = nth (j - t) b [].
  Proof.
    intros Hi Hj Hjb Heq Hprev k. subst k.
    destruct j as [|j']; cbn [j2prev].
    - repeat split; try lia. intros t Ht. replace t with 0 by lia. now rewrite !Nat.sub_0_r.
    - destruct (j2get_in prev j') as [E|Hin].
      + rewrite E. repeat split; try lia. intros t Ht. replace t with 0 by lia.
        now rewrite !Nat.sub_0_r.
      + apply Hprev in Hin as (Hk1 & Hk2 & Hk3 & _ & Hk5).
        repeat split; try lia.
        intros t Ht. destruct t as [|t].
        * now rewrite !Nat.sub_0_r.
        * replace (i - S t) with (i - 1 - t) by lia.
          replace (S j' - S t) with (j' - t) by lia. apply Hk5. lia.
  Qed.

  Lemma flm_row_inv i js : forall prev nw best nw' best',
    alo <= i -> i < ahi ->
    (forall j, In j js -> nth i a [] = nth j b []) ->
    j2ok i prev -> j2ok (S i) nw -> blk_ok a b alo ahi blo bhi best ->
    flm_row i blo bhi js prev nw best = (nw', best') ->
    j2ok (S i) nw' /\ blk_ok a b alo ahi blo bhi best'.
  Proof.
    induction js as [|j js IH]; intros prev nw best nw' best' Hlo Hhi Hjs Hprev Hnw Hbest E;
      cbn [flm_row] in E.
    - injection E as <- <-. now split.
    - assert (Hjs' : forall j0, In j0 js -> nth i a [] = nth j0 b []) by (intros; apply Hjs; now right).
      destruct (Nat.ltb_spec j blo) as [Hjlo|Hjlo].
      { eapply IH; eauto. }
      destruct (Nat.leb_spec bhi j) as [Hjhi|Hjhi].
      { injection E as <- <-. now split. }
      destruct best as [[bi bj] bs].
      pose proof (j2ok_new_entry i j prev Hlo Hjlo Hjhi (Hjs j (or_introl eq_refl)) Hprev)
        as (Hk1 & Hk2 & Hk3).
      cbv zeta in Hk1, Hk2, Hk3.
      set (k := S (j2prev prev j)) in *.
      eapply IH in E; eauto.
      + (* new table *)
        intros j0 k0 [H0|H0].
        * injection H0 as <- <-. repeat split; try (subst k; lia).
          intros t Ht. replace (S i - 1 - t) with (i - t) by lia. now apply Hk3.
        * now apply Hnw.
      + (* new best *)
        destruct (Nat.ltb_spec bs k) as [Hlt|Hge]; [|assumption].
        cbn. repeat split; try lia.
        intros t Ht. specialize (Hk3 (k - 1 - t)).
        replace (i - (k - 1 - t)) with (i + 1 - k + t) in Hk3 by lia.
        replace (j - (k - 1 - t)) with (j + 1 - k + t) in Hk3 by lia.
        apply Hk3. lia.
  Qed.

  Lemma flm_rows_inv rows : forall i prev best,
    alo <= i -> i + length rows <= ahi ->
    (forall r j, r < length rows -> In j (nth r rows []) -> nth (i + r) a [] = nth j b []) ->
    j2ok i prev -> blk_ok a b alo ahi blo bhi best ->
    blk_ok a b alo ahi blo bhi (flm_rows blo bhi rows i prev best).
  Proof.
    induction rows as [|js rows IH]; intros i prev best Hlo Hhi Hrows Hprev Hbest; cbn [flm_rows].
    - assumption.
    - cbn [length] in Hhi.
      destruct (flm_row i blo bhi js prev [] best) as [nw best'] eqn:E.
      apply flm_row_inv in E as [Hnw Hbest']; try assumption; try lia.
      + apply IH; try assumption; try lia.
        intros r j Hr Hin. replace (S i + r) with (i + S r) by lia.
        apply Hrows; [cbn; lia|exact Hin].
      + intros j Hin. specialize (Hrows 0 j). rewrite Nat.add_0_r in Hrows.
        apply Hrows; [cbn; lia|exact Hin].
      + apply j2ok_nil.
  Qed.

  (* the two extension loops *)
  Lemma ext_left_ok fuel : forall m,
    blk_ok a b alo ahi blo bhi m -> blk_ok a b alo ahi blo bhi (ext_left a b alo blo fuel m).
  Proof.
    induction fuel as [|f IH]; intros m Hm; cbn [ext_left]; [assumption|].
    destruct m as [[i j] k].
    destruct ((alo <? i) && (blo <? j) && beq (nth (i - 1) a []) (nth (j - 1) b [])) eqn:C;
      [|assumption].
    apply andb_prop in C as [C C3]. apply andb_prop in C as [C1 C2].
    apply Nat.ltb_lt in C1, C2. apply beq_eq in C3.
    apply IH. cbn in Hm |- *. destruct Hm as (H1 & H2 & H3 & H4 & H5).
    repeat split; try lia.
    intros t Ht. destruct t as [|t].
    - now rewrite !Nat.add_0_r.
    - replace (i - 1 + S t) with (i + t) by lia. replace (j - 1 + S t) with (j + t) by lia.
      apply H5. lia.
  Qed.

  Lemma ext_right_ok fuel : forall m,
    blk_ok a b alo ahi blo bhi m -> blk_ok a b alo ahi blo bhi (ext_right a b ahi bhi fuel m).
  Proof.
    induction fuel as [|f IH]; intros m Hm; cbn [ext_right]; [assumption|].
    destruct m as [[i j] k].
    destruct ((i + k <? ahi) && (j + k <? bhi) && beq (nth (i + k) a []) (nth (j + k) b [])) eqn:C;
      [|assumption].
    apply andb_prop in C as [C C3]. apply andb_prop in C as [C1 C2].
    apply Nat.ltb_lt in C1, C2. apply beq_eq in C3.
    apply IH. cbn in Hm |- *. destruct Hm as (H1 & H2 & H3 & H4 & H5).
    repeat split; try lia.
    intros t Ht. destruct (Nat.eq_dec t k) as [->|Hne]; [assumption|]. apply H5. lia.
  Qed.

  (* fuel: the loops stop because their condition fails, not because fuel ran out *)
  Lemma ext_left_fuel_enough fuel : forall i j k,
    i <= fuel -> left_cond (ext_left a b alo blo fuel (i, j, k)) = false.
  Proof.
    induction fuel as [|f IH]; intros i j k Hf; cbn [ext_left].
    - unfold DifflibSpec.left_cond. replace i with 0 by lia. reflexivity.
    - destruct ((alo <? i) && (blo <? j) && beq (nth (i - 1) a []) (nth (j - 1) b [])) eqn:C.
      + apply IH. lia.
      + exact C.
  Qed.

  Lemma ext_right_fuel_enough fuel : forall i j k,
    ahi <= fuel + (i + k) -> right_cond (ext_right a b ahi bhi fuel (i, j, k)) = false.
  Proof.
    induction fuel as [|f IH]; intros i j k Hf; cbn [ext_right].
    - unfold DifflibSpec.right_cond. destruct (Nat.ltb_spec (i + k) ahi); [lia|reflexivity].
    - destruct ((i + k <? ahi) && (j + k <? bhi) && beq (nth (i + k) a []) (nth (j + k) b [])) eqn:C.
      + apply IH. lia.
      + exact C.
  Qed.

  Lemma flm_tbl_ok tbl :
    alo <= ahi -> blo <= bhi -> tbl_sound a b tbl ->
    blk_ok a b alo ahi blo bhi (flm_tbl tbl a b alo ahi blo bhi).
  Proof.
    intros Ha Hb Htbl. unfold flm_tbl.
    set (rows := firstn (ahi - alo) (skipn alo tbl)).
    assert (Hlen : length rows <= ahi - alo) by (subst rows; rewrite firstn_length; lia).
    assert (H0 : blk_ok a b alo ahi blo bhi (flm_rows blo bhi rows alo [] (alo, blo, 0))).
    { apply flm_rows_inv; try lia.
      - intros r j Hr Hin. apply Htbl. subst rows.
        rewrite nth_firstn_lt in Hin by lia. now rewrite nth_skipn_add in Hin.
      - apply j2ok_nil.
      - cbn. repeat split; try lia. intros t Ht. lia. }
    destruct (flm_rows blo bhi rows alo [] (alo, blo, 0)) as [[i0 j0] k0].
    apply ext_right_ok, ext_left_ok, H0.
  Qed.

  (* both extension loops of flm_tbl ran to completion *)
  Lemma flm_tbl_fuel_enough tbl :
    let rows := firstn (ahi - alo) (skipn alo tbl) in
    let m0 := flm_rows blo bhi rows alo [] (alo, blo, 0) in
    let m1 := ext_left a b alo blo (fst (fst m0)) m0 in
    left_cond m1 = false /\ right_cond (ext_right a b ahi bhi ahi m1) = false.
  Proof.
    cbv zeta. destruct (flm_rows _ _ _ _ _ _) as [[i0 j0] k0]. cbn [fst]. split.
    - now apply ext_left_fuel_enough.
    - destruct (ext_left a b alo blo i0 (i0, j0, k0)) as [[i1 j1] k1].
      apply ext_right_fuel_enough. lia.
  Qed.
End FLM.

(** flm_valid *)
Theorem flm_valid a b alo ahi blo bhi i j k :
  alo <= ahi -> ahi <= length a -> blo <= bhi -> bhi <= length b ->
  find_longest_match a b alo ahi blo bhi = (i, j, k) ->
  alo <= i /\ i + k <= ahi /\ blo <= j /\ j + k <= bhi /\
  forall t, t < k -> nth (i + t) a [] = nth (j + t) b [].
Proof.
  intros Ha _ Hb _ E.
  pose proof (flm_tbl_ok a b alo ahi blo bhi (b2j_table a b) Ha Hb (b2j_table_sound a b)) as H.
  unfold find_longest_match in E. rewrite E in H. exact H.
Qed.

(* the same with slices *)
Corollary flm_valid_slices a b alo ahi blo bhi i j k :
  alo <= ahi -> ahi <= length a -> blo <= bhi -> bhi <= length b ->
  find_longest_match a b alo ahi blo bhi = (i, j, k) ->
  slice a i (i + k) = slice b j (j + k).
Proof.
  intros Ha Ha' Hb Hb' E.
  destruct (flm_valid _ _ _ _ _ _ _ _ _ Ha Ha' Hb Hb' E) as (H1 & H2 & H3 & H4 & H5).
  apply eq_run_slice; try lia. exact H5.
Qed.

(* ================================================================== *)
(** * getMatchingBlocks *)

Arguments eq_run : simpl never.

Lemma chain_weaken a b ahi bhi i j i' j' ms :
  i' <= i -> j' <= j -> chain a b ahi bhi i j ms -> chain a b ahi bhi i' j' ms.
Proof.
  intros Hi Hj H. destruct ms as [|[[bi bj] bk] r]; cbn in *.
  - lia.
  - destruct H as (H1 & H2 & H3 & H4). repeat split; try lia; assumption.
Qed.

Lemma chain_le a b ahi bhi ms : forall i j, chain a b ahi bhi i j ms -> i <= ahi /\ j <= bhi.
Proof.
  induction ms as [|[[bi bj] bk] r IH]; intros i j H; cbn in H.
  - exact H.
  - destruct H as (H1 & H2 & _ & H4). apply IH in H4. lia.
Qed.

Lemma chain_app a b ahi bhi mi mj l1 l2 : forall i j,
  chain a b mi mj i j l1 -> chain a b ahi bhi mi mj l2 -> chain a b ahi bhi i j (l1 ++ l2).
Proof.
  induction l1 as [|[[bi bj] bk] r IH]; intros i j H1 H2; cbn in H1 |- *.
  - eapply chain_weaken; [| |exact H2]; lia.
  - destruct H1 as (Ha & Hb & Hc & Hd). repeat split; try assumption. now apply IH.
Qed.

(* a chain also bounds every block *)
Lemma chain_In a b ahi bhi ms : forall i j bi bj bk,
  chain a b ahi bhi i j ms -> In (bi, bj, bk) ms ->
  i <= bi /\ j <= bj /\ bi + bk <= ahi /\ bj + bk <= bhi /\ eq_run a b bi bj bk.
Proof.
  induction ms as [|[[ci cj] ck] r IH]; intros i j bi bj bk H Hin; [contradiction|].
  cbn in H. destruct H as (H1 & H2 & H3 & H4). destruct Hin as [E|Hin].
  - injection E as <- <- <-. apply chain_le in H4. repeat split; try lia; assumption.
  - destruct (IH _ _ _ _ _ H4 Hin) as (G1 & G2 & G3 & G4 & G5). repeat split; try lia; assumption.
Qed.

(* consecutive blocks of a chain do not overlap and are ordered *)
Lemma chain_adjacent a b ahi bhi l1 : forall i j x y l2,
  chain a b ahi bhi i j (l1 ++ x :: y :: l2) ->
  fst (fst x) + snd x <= fst (fst y) /\ snd (fst x) + snd x <= snd (fst y).
Proof.
  induction l1 as [|[[ci cj] ck] r IH]; intros i j [[xi xj] xk] [[yi yj] yk] l2 H; cbn in H.
  - cbn. lia.
  - destruct H as (_ & _ & _ & H). eapply IH. exact H.
Qed.

Lemma match_blocks_chain tbl a b : tbl_sound a b tbl -> forall fuel alo ahi blo bhi,
  alo <= ahi -> blo <= bhi ->
  chain a b ahi bhi alo blo (match_blocks fuel tbl a b alo ahi blo bhi).
Proof.
  intros Htbl. induction fuel as [|f IH]; intros alo ahi blo bhi Ha Hb; cbn [match_blocks].
  - cbn. lia.
  - pose proof (flm_tbl_ok a b alo ahi blo bhi tbl Ha Hb Htbl) as Hm.
    destruct (flm_tbl tbl a b alo ahi blo bhi) as [[i j] k]. cbn in Hm.
    destruct Hm as (H1 & H2 & H3 & H4 & H5).
    destruct (Nat.ltb_spec 0 k) as [Hk|Hk]; [|cbn; lia].
    apply (chain_app a b ahi bhi i j).
    + destruct ((alo <? i) && (blo <? j)); [apply IH; lia|cbn; lia].
    + cbn [chain]. repeat split; try lia; try assumption.
      destruct ((i + k <? ahi) && (j + k <? bhi)); [apply IH; lia|cbn; lia].
Qed.

Lemma match_blocks_pos tbl a b : forall fuel alo ahi blo bhi,
  Forall (fun m => 0 < blk_size m) (match_blocks fuel tbl a b alo ahi blo bhi).
Proof.
  induction fuel as [|f IH]; intros alo ahi blo bhi; cbn [match_blocks]; [constructor|].
  destruct (flm_tbl tbl a b alo ahi blo bhi) as [[i j] k].
  destruct (Nat.ltb_spec 0 k) as [Hk|Hk]; [|constructor].
  apply Forall_app. split.
  - destruct ((alo <? i) && (blo <? j)); [apply IH|constructor].
  - constructor; [exact Hk|]. destruct ((i + k <? ahi) && (j + k <? bhi)); [apply IH|constructor].
Qed.

(* fuel: with more than ahi - alo units the result does not depend on the fuel *)
Lemma match_blocks_fuel_enough tbl a b : tbl_sound a b tbl -> forall f1 f2 alo ahi blo bhi,
  alo <= ahi -> blo <= bhi -> ahi - alo < f1 -> ahi - alo < f2 ->
  match_blocks f1 tbl a b alo ahi blo bhi = match_blocks f2 tbl a b alo ahi blo bhi.
Proof.
  intros Htbl. induction f1 as [|f1 IH]; intros f2 alo ahi blo bhi Ha Hb H1 H2; [lia|].
  destruct f2 as [|f2]; [lia|]. cbn [match_blocks].
  pose proof (flm_tbl_ok a b alo ahi blo bhi tbl Ha Hb Htbl) as Hm.
  destruct (flm_tbl tbl a b alo ahi blo bhi) as [[i j] k]. cbn in Hm.
  destruct Hm as (G1 & G2 & G3 & G4 & G5).
  destruct (Nat.ltb_spec 0 k) as [Hk|Hk]; [|reflexivity].
  f_equal; [|f_equal].
  - destruct ((alo <? i) && (blo <? j)); [apply IH; lia|reflexivity].
  - destruct ((i + k <? ahi) && (j + k <? bhi)); [apply IH; lia|reflexivity].
Qed.

Corollary raw_blocks_fuel_enough a b f :
  length a < f ->
  raw_blocks a b = match_blocks f (b2j_table a b) a b 0 (length a) 0 (length b).
Proof.
  intros H. unfold raw_blocks. apply match_blocks_fuel_enough; try lia. apply b2j_table_sound.
Qed.

Lemma emit_blk_pos m : Forall (fun m => 0 < blk_size m) (emit_blk m).
Proof.
  destruct m as [[i j] k]. cbn [emit_blk].
  destruct (Nat.ltb_spec 0 k); [constructor; [assumption|constructor]|constructor].
Qed.

Lemma merge_adjacent_pos l : forall cur, Forall (fun m => 0 < blk_size m) (merge_adjacent cur l).
Proof.
  induction l as [|[[i2 j2] k2] r IH]; intros [[i1 j1] k1]; cbn [merge_adjacent].
  - apply emit_blk_pos.
  - destruct ((i1 + k1 =? i2) && (j1 + k1 =? j2)); [apply IH|].
    apply Forall_app. split; [apply emit_blk_pos|apply IH].
Qed.

Lemma merge_adjacent_chain a b ahi bhi l : forall i0 j0 i1 j1 k1,
  i0 <= i1 -> j0 <= j1 -> eq_run a b i1 j1 k1 ->
  chain a b ahi bhi (i1 + k1) (j1 + k1) l ->
  chain a b ahi bhi i0 j0 (merge_adjacent (i1, j1, k1) l).
Proof.
  induction l as [|[[i2 j2] k2] r IH]; intros i0 j0 i1 j1 k1 Hi Hj Heq H; cbn [merge_adjacent].
  - cbn in H. cbn [emit_blk]. destruct (Nat.ltb_spec 0 k1); cbn [chain].
    + repeat split; try lia. assumption.
    + lia.
  - cbn in H. destruct H as (H1 & H2 & H3 & H4).
    destruct ((i1 + k1 =? i2) && (j1 + k1 =? j2)) eqn:C.
    + apply andb_prop in C as [C1 C2]. apply Nat.eqb_eq in C1, C2.
      apply IH; try assumption.
      * intros t Ht. destruct (Nat.lt_ge_cases t k1) as [Hlt|Hge]; [now apply Heq|].
        replace (i1 + t) with (i2 + (t - k1)) by lia.
        replace (j1 + t) with (j2 + (t - k1)) by lia. apply H3. lia.
      * replace (i1 + (k1 + k2)) with (i2 + k2) by lia.
        replace (j1 + (k1 + k2)) with (j2 + k2) by lia. exact H4.
    + assert (Hrest : chain a b ahi bhi (i1 + k1) (j1 + k1) (merge_adjacent (i2, j2, k2) r))
        by (apply IH; assumption).
      cbn [emit_blk]. destruct (Nat.ltb_spec 0 k1); cbn [app chain].
      * repeat split; try lia; assumption.
      * eapply chain_weaken; [| |exact Hrest]; lia.
Qed.

Lemma merge_adjacent_head l : forall i1 j1 k1,
  match merge_adjacent (i1, j1, k1) l with
  | [] => True
  | (i, j, k) :: _ => (0 < k1 -> i = i1 /\ j = j1)
  end.
Proof.
  induction l as [|[[i2 j2] k2] r IH]; intros i1 j1 k1; cbn [merge_adjacent].
  - cbn [emit_blk]. destruct (Nat.ltb_spec 0 k1); [now intros|exact I].
  - destruct ((i1 + k1 =? i2) && (j1 + k1 =? j2)).
    + specialize (IH i1 j1 (k1 + k2)). destruct (merge_adjacent (i1, j1, k1 + k2) r) as [|[[i j] k] ?];
        [exact I|]. intros Hk. apply IH. lia.
    + cbn [emit_blk]. destruct (Nat.ltb_spec 0 k1); cbn [app]; [now intros|].
      destruct (merge_adjacent (i2, j2, k2) r) as [|[[i j] k] ?]; [exact I|]. intros; lia.
Qed.

(* ---- the theorems about matching_blocks ---- *)

Lemma matching_blocks_shape a b :
  exists l, matching_blocks a b = l ++ [sentinel a b] /\
            Forall (fun m => 0 < blk_size m) l /\
            chain a b (length a) (length b) 0 0 l.
Proof.
  exists (merge_adjacent (0, 0, 0) (raw_blocks a b)). split; [reflexivity|]. split.
  - apply merge_adjacent_pos.
  - apply merge_adjacent_chain; try lia.
    + intros t Ht. lia.
    + apply match_blocks_chain; try lia. apply b2j_table_sound.
Qed.

(** the whole list, sentinel included, is a chain from (0,0) to (|a|,|b|) *)
Theorem matching_blocks_chain a b :
  chain a b (length a) (length b) 0 0 (matching_blocks a b).
Proof.
  destruct (matching_blocks_shape a b) as (l & -> & _ & Hc).
  eapply chain_app; [exact Hc|]. cbn. repeat split; try lia. intros t Ht. lia.
Qed.

(** the last block is the sentinel and it is the only block of size 0 *)
Theorem matching_blocks_last a b :
  exists l, matching_blocks a b = l ++ [(length a, length b, 0)] /\
            Forall (fun m => 0 < blk_size m) l.
Proof. destruct (matching_blocks_shape a b) as (l & E & Hp & _). now exists l. Qed.

Corollary matching_blocks_last_eq a b d : last (matching_blocks a b) d = (length a, length b, 0).
Proof. destruct (matching_blocks_last a b) as (l & -> & _). apply last_last. Qed.

(** each block is valid: inside both lists, and the two slices are equal *)
Theorem matching_blocks_valid a b i j k :
  In (i, j, k) (matching_blocks a b) ->
  i + k <= length a /\ j + k <= length b /\
  (forall t, t < k -> nth (i + t) a [] = nth (j + t) b []) /\
  slice a i (i + k) = slice b j (j + k).
Proof.
  intros Hin. destruct (chain_In _ _ _ _ _ _ _ _ _ _ (matching_blocks_chain a b) Hin)
    as (_ & _ & H3 & H4 & H5).
  repeat split; try assumption. now apply eq_run_slice.
Qed.

(** consecutive blocks: the next one starts at or after the end of the previous one in both
    coordinates (no overlap), and since the previous one is not the sentinel its size is
    positive, so both coordinates strictly increase *)
Theorem matching_blocks_increasing a b l1 l2 i j k i' j' k' :
  matching_blocks a b = l1 ++ (i, j, k) :: (i', j', k') :: l2 ->
  0 < k /\ i + k <= i' /\ j + k <= j' /\ i < i' /\ j < j'.
Proof.
  intros E. pose proof (matching_blocks_chain a b) as Hc. rewrite E in Hc.
  apply chain_adjacent in Hc. cbn in Hc.
  destruct (matching_blocks_last a b) as (l & E' & Hp). rewrite E in E'.
  assert (0 < k) as Hk.
  { assert (In (i, j, k) l) as Hin.
    { assert (Hl : l1 ++ (i, j, k) :: (i', j', k') :: l2 = (l1 ++ [(i, j, k)]) ++ ((i', j', k') :: l2))
        by (now rewrite <- app_assoc).
      rewrite Hl in E'.
      destruct (@exists_last _ ((i', j', k') :: l2)) as (l3 & z & E3); [discriminate|].
      rewrite E3, app_assoc in E'. apply app_inj_tail in E' as [E' _].
      rewrite <- E'. apply in_or_app. left. apply in_or_app. right. now left. }
    rewrite Forall_forall in Hp. apply (Hp _ Hin). }
  lia.
Qed.

Lemma merge_adjacent_non_adjacent l : forall i1 j1 k1,
  Forall (fun m => 0 < blk_size m) l -> non_adjacent (merge_adjacent (i1, j1, k1) l).
Proof.
  induction l as [|[[i2 j2] k2] r IH]; intros i1 j1 k1 Hp; cbn [merge_adjacent].
  - cbn [emit_blk]. destruct (0 <? k1); cbn; auto.
  - inversion Hp as [|? ? Hk2 Hr]; subst. cbn in Hk2.
    destruct ((i1 + k1 =? i2) && (j1 + k1 =? j2)) eqn:C; [now apply IH|].
    cbn [emit_blk]. destruct (Nat.ltb_spec 0 k1) as [Hk1|Hk1]; cbn [app]; [|now apply IH].
    cbn [non_adjacent]. split; [|now apply IH].
    pose proof (merge_adjacent_head r i2 j2 k2) as Hh.
    destruct (merge_adjacent (i2, j2, k2) r) as [|[[i j] k] rest]; [exact I|].
    destruct (Hh Hk2) as [-> ->]. cbn. intros [E1 E2].
    apply andb_false_iff in C as [C|C]; apply Nat.eqb_neq in C; lia.
Qed.

(** adjacent triples (sentinel excluded) never describe adjacent equal blocks *)
Theorem matching_blocks_non_adjacent a b :
  exists l, matching_blocks a b = l ++ [(length a, length b, 0)] /\ non_adjacent l.
Proof.
  exists (merge_adjacent (0, 0, 0) (raw_blocks a b)). split; [reflexivity|].
  apply merge_adjacent_non_adjacent. apply match_blocks_pos.
Qed.

(* ================================================================== *)
(** * getOpCodes *)

Lemma blocks_end_app i j l x : blocks_end i j (l ++ [x]) = (fst (fst x) + snd x, snd (fst x) + snd x).
Proof.
  revert i j; induction l as [|[[ai bj] s] r IH]; intros i j; cbn.
  - now destruct x as [[? ?] ?].
  - apply IH.
Qed.

Lemma tiles_app i j l1 l2 mi mj ie je :
  tiles i j l1 mi mj -> tiles mi mj l2 ie je -> tiles i j (l1 ++ l2) ie je.
Proof.
  revert i j; induction l1 as [|c r IH]; intros i j H1 H2; cbn in H1 |- *.
  - destruct H1 as [-> ->]. exact H2.
  - destruct H1 as (Ha & Hb & Hc). repeat split; try assumption. now apply IH.
Qed.

Lemma gap_op_tiles i j ai bj : i <= ai -> j <= bj -> tiles i j (gap_op i j ai bj) ai bj.
Proof.
  intros Hi Hj. unfold gap_op.
  destruct (Nat.ltb_spec i ai), (Nat.ltb_spec j bj); cbn; repeat split; lia.
Qed.

Lemma gap_op_wf a b i j ai bj : i <= ai -> j <= bj -> Forall (op_wf a b) (gap_op i j ai bj).
Proof.
  intros Hi Hj. unfold gap_op.
  destruct (Nat.ltb_spec i ai), (Nat.ltb_spec j bj); cbn [andb]; repeat constructor; cbn; lia.
Qed.

Lemma opcodes_from_tiles a b ahi bhi ms : forall i j,
  chain a b ahi bhi i j ms ->
  tiles i j (opcodes_from i j ms) (fst (blocks_end i j ms)) (snd (blocks_end i j ms)).
Proof.
  induction ms as [|[[ai bj] size] r IH]; intros i j H; cbn [opcodes_from blocks_end].
  - cbn. auto.
  - cbn [chain] in H. destruct H as (H1 & H2 & H3 & H4).
    eapply tiles_app; [apply gap_op_tiles; assumption|].
    eapply tiles_app; [|apply IH; exact H4].
    destruct (Nat.ltb_spec 0 size); cbn; repeat split; lia.
Qed.

Lemma opcodes_from_wf a b ms : forall i j,
  chain a b (length a) (length b) i j ms -> Forall (op_wf a b) (opcodes_from i j ms).
Proof.
  induction ms as [|[[ai bj] size] r IH]; intros i j H; cbn [opcodes_from].
  - constructor.
  - cbn [chain] in H. destruct H as (H1 & H2 & H3 & H4).
    apply Forall_app. split; [now apply gap_op_wf|].
    apply Forall_app. split; [|now apply IH].
    destruct (Nat.ltb_spec 0 size) as [Hs|Hs]; constructor; [|constructor].
    apply chain_le in H4.
    unfold op_wf. cbn. repeat split; try lia. apply eq_run_slice; try lia. exact H3.
Qed.

(* ---- unpacking [tiles] ---- *)

Lemma tiles_abuts i j ops ie je : tiles i j ops ie je -> abuts ops.
Proof.
  revert i j; induction ops as [|c r IH]; intros i j H; cbn in H |- *; [exact I|].
  destruct H as (_ & _ & H). split; [|eapply IH; exact H].
  destruct r as [|d r']; [exact I|]. cbn in H. destruct H as (H1 & H2 & _). now split.
Qed.

Lemma tiles_first i j c r ie je : tiles i j (c :: r) ie je -> i1 c = i /\ j1 c = j.
Proof. cbn. intros (H1 & H2 & _). now split. Qed.

Lemma tiles_last i j l c ie je : tiles i j (l ++ [c]) ie je -> i2 c = ie /\ j2 c = je.
Proof.
  revert i j; induction l as [|d r IH]; intros i j H; cbn in H.
  - destruct H as (_ & _ & H). exact H.
  - destruct H as (_ & _ & H). eapply IH. exact H.
Qed.

Lemma abuts_mid l1 c d l2 : abuts (l1 ++ c :: d :: l2) -> i1 d = i2 c /\ j1 d = j2 c.
Proof.
  induction l1 as [|x r IH]; cbn [app abuts]; intros [H1 H2]; [exact H1|now apply IH].
Qed.

(* monotonicity: with well-formed opcodes a tiling only moves forward *)
Lemma tiles_le a b i j ops ie je :
  Forall (op_wf a b) ops -> tiles i j ops ie je -> i <= ie /\ j <= je.
Proof.
  revert i j; induction ops as [|c r IH]; intros i j Hwf H; cbn in H.
  - lia.
  - inversion Hwf as [|? ? Hc Hr]; subst. destruct H as (H1 & H2 & H3).
    apply IH in H3; [|assumption]. destruct Hc as (G1 & G2 & _). lia.
Qed.

(* every opcode of a tiling lies inside it *)
Lemma tiles_In_bounds a b i j ops ie je c :
  Forall (op_wf a b) ops -> tiles i j ops ie je -> In c ops ->
  i <= i1 c /\ i2 c <= ie /\ j <= j1 c /\ j2 c <= je.
Proof.
  revert i j; induction ops as [|d r IH]; intros i j Hwf H Hin; [contradiction|].
  inversion Hwf as [|? ? Hd Hr]; subst. cbn in H. destruct H as (H1 & H2 & H3).
  destruct Hin as [->|Hin].
  - pose proof (tiles_le _ _ _ _ _ _ _ Hr H3). lia.
  - destruct (IH _ _ Hr H3 Hin). destruct Hd as (G1 & G2 & _). lia.
Qed.

(* ---- the theorems about get_opcodes ---- *)

Lemma get_opcodes_tiles a b : tiles 0 0 (get_opcodes a b) (length a) (length b).
Proof.
  unfold get_opcodes.
  pose proof (opcodes_from_tiles a b _ _ _ 0 0 (matching_blocks_chain a b)) as H.
  destruct (matching_blocks_last a b) as (l & E & _). rewrite E in H at 2 3.
  rewrite blocks_end_app in H. cbn in H. now rewrite !Nat.add_0_r in H.
Qed.

Lemma get_opcodes_wf a b : Forall (op_wf a b) (get_opcodes a b).
Proof. apply opcodes_from_wf, matching_blocks_chain. Qed.

(** opcodes_tile *)
Theorem opcodes_tile_first a b c r :
  get_opcodes a b = c :: r -> i1 c = 0 /\ j1 c = 0.
Proof. intros E. pose proof (get_opcodes_tiles a b) as H. rewrite E in H. eapply tiles_first, H. Qed.

Theorem opcodes_tile_abut a b l1 c d l2 :
  get_opcodes a b = l1 ++ c :: d :: l2 -> i1 d = i2 c /\ j1 d = j2 c.
Proof.
  intros E. pose proof (tiles_abuts _ _ _ _ _ (get_opcodes_tiles a b)) as H. rewrite E in H.
  eapply abuts_mid, H.
Qed.

Theorem opcodes_tile_last a b l c :
  get_opcodes a b = l ++ [c] -> i2 c = length a /\ j2 c = length b.
Proof. intros E. pose proof (get_opcodes_tiles a b) as H. rewrite E in H. eapply tiles_last, H. Qed.

Theorem opcodes_tile_nil : get_opcodes [] [] = [].
Proof. reflexivity. Qed.

(* conversely an empty script only happens for two empty sequences *)
Theorem opcodes_nil_inv a b : get_opcodes a b = [] -> a = [] /\ b = [].
Proof.
  intros E. pose proof (get_opcodes_tiles a b) as H. rewrite E in H. cbn in H.
  destruct H as [Ha Hb]. split; apply length_zero_iff_nil; congruence.
Qed.

Theorem opcodes_in_bounds a b c :
  In c (get_opcodes a b) -> i1 c <= i2 c /\ i2 c <= length a /\ j1 c <= j2 c /\ j2 c <= length b.
Proof.
  intros Hin.
  destruct (tiles_In_bounds a b _ _ _ _ _ c (get_opcodes_wf a b) (get_opcodes_tiles a b) Hin)
    as (_ & H2 & _ & H4).
  pose proof (get_opcodes_wf a b) as Hwf. rewrite Forall_forall in Hwf.
  destruct (Hwf _ Hin) as (G1 & G2 & _). lia.
Qed.

(** opcodes_equal_sound *)
Theorem opcodes_equal_sound a b c :
  In c (get_opcodes a b) ->
  match op_tag c with
  | Equal => slice a (i1 c) (i2 c) = slice b (j1 c) (j2 c) /\ i1 c < i2 c /\ j1 c < j2 c
  | Insert => i1 c = i2 c /\ j1 c < j2 c
  | Delete => i1 c < i2 c /\ j1 c = j2 c
  | Replace => i1 c < i2 c /\ j1 c < j2 c
  end.
Proof.
  intros Hin. pose proof (get_opcodes_wf a b) as Hwf. rewrite Forall_forall in Hwf.
  destruct (Hwf _ Hin) as (_ & _ & H). destruct (op_tag c); tauto.
Qed.

Corollary opcodes_nonempty a b c : In c (get_opcodes a b) -> i1 c < i2 c \/ j1 c < j2 c.
Proof.
  intros Hin. pose proof (opcodes_equal_sound a b c Hin) as H. destruct (op_tag c); lia.
Qed.

(** opcodes_replay *)
Lemma replay_tiles a b ops : forall i j ie je,
  Forall (op_wf a b) ops -> tiles i j ops ie je ->
  replay_b a b ops = slice b j je /\ replay_a a ops = slice a i ie.
Proof.
  induction ops as [|c r IH]; intros i j ie je Hwf H; cbn in H.
  - destruct H as [-> ->]. unfold replay_b, replay_a. cbn. now rewrite !slice_nil.
  - inversion Hwf as [|? ? Hc Hr]; subst. destruct H as (<- & <- & H3).
    pose proof (tiles_le _ _ _ _ _ _ _ Hr H3) as [Hle1 Hle2].
    destruct (IH _ _ _ _ Hr H3) as [IHb IHa].
    unfold replay_b, replay_a in *. cbn [map concat]. rewrite IHb, IHa.
    destruct Hc as (G1 & G2 & G3).
    unfold replay_b_op, replay_a_op. destruct (op_tag c).
    + destruct G3 as (_ & _ & E). split; [rewrite E|]; apply slice_app_adj; lia.
    + destruct G3 as (E & _). split; [apply slice_app_adj; lia|]. rewrite E. reflexivity.
    + destruct G3 as (_ & E). split; [|apply slice_app_adj; lia]. rewrite E. reflexivity.
    + split; apply slice_app_adj; lia.
Qed.

Theorem opcodes_replay a b :
  replay_b a b (get_opcodes a b) = b /\ replay_a a (get_opcodes a b) = a.
Proof.
  destruct (replay_tiles a b _ _ _ _ _ (get_opcodes_wf a b) (get_opcodes_tiles a b)) as [Hb Ha].
  now rewrite Hb, Ha, !slice_full.
Qed.

(* a script without changes means equal inputs *)
Lemma replay_all_equal a b ops :
  forallb is_equal ops = true -> replay_b a b ops = replay_a a ops.
Proof.
  induction ops as [|c r IH]; intros H; [reflexivity|]. cbn in H.
  apply andb_prop in H as [Hc Hr]. unfold replay_b, replay_a in *. cbn [map concat].
  rewrite (IH Hr). f_equal. unfold replay_b_op, replay_a_op, is_equal in *.
  destruct (op_tag c); try discriminate. reflexivity.
Qed.

Theorem opcodes_all_equal_same a b : forallb is_equal (get_opcodes a b) = true -> a = b.
Proof.
  intros H. destruct (opcodes_replay a b) as [Hb Ha].
  pose proof (replay_all_equal a b _ H) as E. congruence.
Qed.

(* residual: what is kept of a equals what is kept of b, opcode by opcode *)
Theorem opcodes_kept_same a b :
  map (kept_a_of a) (get_opcodes a b) = map (kept_b_of b) (get_opcodes a b).
Proof.
  apply map_ext_in. intros c Hin. pose proof (opcodes_equal_sound a b c Hin) as H.
  unfold kept_a_of, kept_b_of. destruct (op_tag c); try reflexivity. apply H.
Qed.

(* ================================================================== *)
(** * GetGroupedOpCodes *)

Lemma is_equal_trim_head n c : is_equal (trim_head n c) = is_equal c.
Proof. reflexivity. Qed.
Lemma is_equal_trim_tail n c : is_equal (trim_tail n c) = is_equal c.
Proof. reflexivity. Qed.

Lemma fix_first_filter n codes :
  filter non_equal (fix_first n codes) = filter non_equal codes.
Proof.
  destruct codes as [|c r]; [reflexivity|]. cbn [fix_first].
  destruct (is_equal c) eqn:E; [|reflexivity].
  cbn [filter]. unfold non_equal. now rewrite is_equal_trim_head, E.
Qed.

Lemma fix_last_snoc n l c :
  fix_last n (l ++ [c]) = l ++ [if is_equal c then trim_tail n c else c].
Proof.
  induction l as [|d r IH]; cbn [app fix_last].
  - now destruct (is_equal c).
  - destruct (r ++ [c]) eqn:E; [now destruct r|]. now rewrite <- IH.
Qed.

Lemma list_snoc_cases {A} (l : list A) : l = [] \/ exists l' x, l = l' ++ [x].
Proof.
  destruct l as [|y l]; [now left|right].
  destruct (@exists_last _ (y :: l)) as (l' & x & E); [discriminate|]. now exists l', x.
Qed.

Lemma fix_last_filter n codes :
  filter non_equal (fix_last n codes) = filter non_equal codes.
Proof.
  destruct (list_snoc_cases codes) as [->|(l & c & ->)]; [reflexivity|].
  rewrite fix_last_snoc, !filter_app. f_equal.
  destruct (is_equal c) eqn:E; [|reflexivity].
  cbn [filter]. unfold non_equal. now rewrite is_equal_trim_tail, E.
Qed.

Lemma keep_group_false_filter g : keep_group g = false -> filter non_equal g = [].
Proof.
  destruct g as [|c [|d r]]; cbn; try discriminate; [reflexivity|].
  unfold non_equal. intros ->. reflexivity.
Qed.

Lemma group_loop_filter n codes : forall group,
  filter non_equal (concat (group_loop n codes group)) = filter non_equal (group ++ codes).
Proof.
  induction codes as [|c r IH]; intros group; cbn [group_loop].
  - rewrite app_nil_r. destruct (keep_group group) eqn:K; cbn [concat].
    + now rewrite app_nil_r.
    + rewrite (keep_group_false_filter group K). reflexivity.
  - destruct (is_equal c && (n + n <? i2 c - i1 c)) eqn:C.
    + apply andb_prop in C as [E _]. cbn [concat]. rewrite filter_app, IH, !filter_app.
      assert (N1 : non_equal (trim_tail n c) = false) by (unfold non_equal; now rewrite is_equal_trim_tail, E).
      assert (N2 : non_equal (trim_head n c) = false) by (unfold non_equal; now rewrite is_equal_trim_head, E).
      assert (N3 : non_equal c = false) by (unfold non_equal; now rewrite E).
      cbn [filter]. rewrite N1, N2, N3. cbn [app]. now rewrite app_nil_r.
    + rewrite IH, <- app_assoc. reflexivity.
Qed.

Theorem grouped_of_codes_no_change_lost n codes :
  filter non_equal (concat (grouped_of_codes n codes)) = filter non_equal codes.
Proof.
  unfold grouped_of_codes. rewrite group_loop_filter. cbn [app].
  rewrite fix_last_filter, fix_first_filter. now destruct codes.
Qed.

(** grouped_no_change_lost, for every context size n (the code uses n = 3) *)
Theorem grouped_no_change_lost n a b :
  filter non_equal (concat (grouped_opcodes n a b)) = filter non_equal (get_opcodes a b).
Proof. apply grouped_of_codes_no_change_lost. Qed.

(* ---- abutting inside groups ---- *)

Lemma abuts_app_l l1 l2 : abuts (l1 ++ l2) -> abuts l1.
Proof.
  induction l1 as [|c r IH]; cbn [app abuts]; [auto|]. intros [H1 H2]. split; [|now apply IH].
  destruct r as [|d r']; [exact I|exact H1].
Qed.

Lemma abuts_app_r l1 l2 : abuts (l1 ++ l2) -> abuts l2.
Proof. induction l1 as [|c r IH]; cbn [app abuts]; [auto|]. intros [_ H]. now apply IH. Qed.

Lemma abuts_change_head c c' r :
  i2 c' = i2 c -> j2 c' = j2 c -> abuts (c :: r) -> abuts (c' :: r).
Proof. intros E1 E2. cbn. rewrite E1, E2. auto. Qed.

Lemma abuts_change_last l c c' :
  i1 c' = i1 c -> j1 c' = j1 c -> abuts (l ++ [c]) -> abuts (l ++ [c']).
Proof.
  intros E1 E2. induction l as [|d r IH]; cbn [app abuts]; [auto|].
  intros [H1 H2]. split; [|now apply IH].
  destruct r as [|e r']; cbn [app] in *; [now rewrite E1, E2|exact H1].
Qed.

Lemma fix_first_abuts n codes : abuts codes -> abuts (fix_first n codes).
Proof.
  destruct codes as [|c r]; [auto|]. cbn [fix_first]. destruct (is_equal c); [|auto].
  now apply abuts_change_head.
Qed.

Lemma fix_last_abuts n codes : abuts codes -> abuts (fix_last n codes).
Proof.
  destruct (list_snoc_cases codes) as [->|(l & c & ->)]; [auto|].
  rewrite fix_last_snoc. destruct (is_equal c); [|auto]. now apply abuts_change_last.
Qed.

Lemma group_loop_abuts n codes : forall group,
  abuts (group ++ codes) -> Forall abuts (group_loop n codes group).
Proof.
  induction codes as [|c r IH]; intros group H; cbn [group_loop].
  - rewrite app_nil_r in H. destruct (keep_group group); repeat constructor. exact H.
  - destruct (is_equal c && (n + n <? i2 c - i1 c)).
    + constructor.
      * apply (abuts_change_last group c); try reflexivity.
        apply (abuts_app_l _ r). now rewrite <- app_assoc.
      * apply IH. cbn [app]. apply (abuts_change_head c); try reflexivity.
        now apply abuts_app_r in H.
    + apply IH. now rewrite <- app_assoc.
Qed.

Lemma grouped_of_codes_abuts n codes : abuts codes -> Forall abuts (grouped_of_codes n codes).
Proof.
  intros H. unfold grouped_of_codes. apply group_loop_abuts. cbn [app].
  apply fix_last_abuts, fix_first_abuts. destruct codes; [cbn; auto|exact H].
Qed.

(** within each group consecutive opcodes abut *)
Theorem grouped_abut n a b : Forall abuts (grouped_opcodes n a b).
Proof. apply grouped_of_codes_abuts. eapply tiles_abuts, get_opcodes_tiles. Qed.

Corollary grouped_abut_mid n a b g l1 c d l2 :
  In g (grouped_opcodes n a b) -> g = l1 ++ c :: d :: l2 -> i1 d = i2 c /\ j1 d = j2 c.
Proof.
  intros Hin ->. pose proof (grouped_abut n a b) as H. rewrite Forall_forall in H.
  eapply abuts_mid, H, Hin.
Qed.

(* ---- groups are never empty (printRange indexes opcodes[0]) ---- *)

Lemma group_loop_nonempty n codes : forall group,
  Forall (fun g => g <> []) (group_loop n codes group).
Proof.
  induction codes as [|c r IH]; intros group; cbn [group_loop].
  - destruct group as [|x g]; [cbn; constructor|].
    destruct (keep_group (x :: g)); [|constructor].
    constructor; [discriminate|constructor].
  - destruct (is_equal c && (n + n <? i2 c - i1 c)); [|apply IH].
    constructor; [|apply IH]. now destruct group.
Qed.

Theorem grouped_nonempty n a b : Forall (fun g => g <> []) (grouped_opcodes n a b).
Proof. apply group_loop_nonempty. Qed.

(* ---- opcodes inside groups are still sound ---- *)

Lemma slice_suffix {A} (l : list A) i1 i1' i2 :
  i1 <= i1' -> i1' <= i2 -> i2 <= length l ->
  slice l i1' i2 = skipn (i1' - i1) (slice l i1 i2).
Proof.
  intros H1 H2 H3. rewrite <- (slice_app_adj l i1 i1' i2) by assumption.
  rewrite skipn_app, slice_length by lia.
  rewrite skipn_all2 by (rewrite slice_length; lia).
  now rewrite Nat.sub_diag.
Qed.

Lemma slice_prefix {A} (l : list A) i1 i2' i2 :
  i1 <= i2' -> i2' <= i2 -> i2 <= length l ->
  slice l i1 i2' = firstn (i2' - i1) (slice l i1 i2).
Proof.
  intros H1 H2 H3. rewrite <- (slice_app_adj l i1 i2' i2) by assumption.
  rewrite firstn_app, slice_length by lia.
  rewrite firstn_all2 by (rewrite slice_length; lia).
  now rewrite Nat.sub_diag, firstn_O, app_nil_r.
Qed.

Lemma trim_head_ok a b n c : op_ok a b c -> op_ok a b (trim_head n c).
Proof.
  intros (H1 & H2 & H3 & H4 & H5). unfold op_ok, trim_head. cbn [i1 i2 j1 j2 op_tag].
  do 4 (split; [lia|]). intros Ht. destruct (H5 Ht) as [E Es]. split; [lia|].
  rewrite (slice_suffix a (i1 c)), (slice_suffix b (j1 c)) by lia.
  rewrite Es. f_equal. lia.
Qed.

Lemma trim_tail_ok a b n c : op_ok a b c -> op_ok a b (trim_tail n c).
Proof.
  intros (H1 & H2 & H3 & H4 & H5). unfold op_ok, trim_tail. cbn [i1 i2 j1 j2 op_tag].
  do 4 (split; [lia|]). intros Ht. destruct (H5 Ht) as [E Es]. split; [lia|].
  rewrite (slice_prefix a (i1 c) _ (i2 c)), (slice_prefix b (j1 c) _ (j2 c)) by lia.
  rewrite Es. f_equal. lia.
Qed.

Lemma fix_first_ok a b n codes : Forall (op_ok a b) codes -> Forall (op_ok a b) (fix_first n codes).
Proof.
  destruct codes as [|c r]; [auto|]. intros H. cbn [fix_first]. destruct (is_equal c); [|exact H].
  inversion H; subst. constructor; [now apply trim_head_ok|assumption].
Qed.

Lemma fix_last_ok a b n codes : Forall (op_ok a b) codes -> Forall (op_ok a b) (fix_last n codes).
Proof.
  destruct (list_snoc_cases codes) as [->|(l & c & ->)]; [auto|]. intros H.
  rewrite fix_last_snoc. apply Forall_app in H as [Hl Hc]. apply Forall_app. split; [exact Hl|].
  inversion Hc; subst. constructor; [|constructor]. destruct (is_equal c); [now apply trim_tail_ok|assumption].
Qed.

Lemma group_loop_ok a b n codes : forall group,
  Forall (op_ok a b) group -> Forall (op_ok a b) codes ->
  Forall (Forall (op_ok a b)) (group_loop n codes group).
Proof.
  induction codes as [|c r IH]; intros group Hg Hc; cbn [group_loop].
  - destruct (keep_group group); [|constructor]. constructor; [exact Hg|constructor].
  - inversion Hc as [|? ? Hc1 Hr]; subst.
    destruct (is_equal c && (n + n <? i2 c - i1 c)).
    + constructor.
      * apply Forall_app. split; [exact Hg|]. constructor; [now apply trim_tail_ok|constructor].
      * apply IH; [|exact Hr]. constructor; [now apply trim_head_ok|constructor].
    + apply IH; [|exact Hr]. apply Forall_app. split; [exact Hg|]. constructor; [exact Hc1|constructor].
Qed.

(* the made-up opcode {Equal,0,1,0,1} for an empty script never reaches a group *)
Lemma grouped_of_codes_nil n : grouped_of_codes n [] = [].
Proof. destruct n as [|[|n]]; reflexivity. Qed.

Lemma get_opcodes_ok a b : Forall (op_ok a b) (get_opcodes a b).
Proof.
  apply Forall_forall. intros c Hin.
  destruct (opcodes_in_bounds a b c Hin) as (H1 & H2 & H3 & H4).
  pose proof (opcodes_equal_sound a b c Hin) as Hs.
  unfold op_ok. do 4 (split; [assumption|]). intros E. rewrite E in Hs. destruct Hs as (Es & _ & _).
  split; [|exact Es].
  apply (f_equal (@length line)) in Es. now rewrite !slice_length in Es by assumption.
Qed.

(** every opcode of every group lies inside both sequences; an Equal one still relates two
    identical slices (so the "  " context lines of the report are common lines); a non-Equal
    one is an opcode of the full script, untouched *)
Theorem grouped_ops_sound n a b g c :
  In g (grouped_opcodes n a b) -> In c g ->
  op_ok a b c /\ (op_tag c <> Equal -> In c (get_opcodes a b)).
Proof.
  intros Hg Hc. split.
  - unfold grouped_opcodes in Hg.
    destruct (get_opcodes a b) as [|c0 r] eqn:E; [now rewrite grouped_of_codes_nil in Hg|].
    pose proof (get_opcodes_ok a b) as Hok. rewrite E in Hok.
    unfold grouped_of_codes in Hg.
    assert (H : Forall (Forall (op_ok a b)) (group_loop n (fix_last n (fix_first n (c0 :: r))) [])).
    { apply group_loop_ok; [constructor|]. now apply fix_last_ok, fix_first_ok. }
    rewrite Forall_forall in H. specialize (H g Hg). rewrite Forall_forall in H. now apply H.
  - intros Hne.
    assert (Hin : In c (filter non_equal (concat (grouped_opcodes n a b)))).
    { apply filter_In. split; [apply in_concat; eauto|].
      unfold non_equal, is_equal. destruct (op_tag c); try reflexivity. congruence. }
    rewrite grouped_no_change_lost in Hin. now apply filter_In in Hin.
Qed.
