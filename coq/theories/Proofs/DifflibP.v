(* DifflibP: lemmas about the difflib model (Model/Difflib.v), for ALL line lists. *)
From Coq Require Import List NArith Arith Bool Lia.
Import ListNotations.
From Snaps Require Import Base.Bytes Proofs.BytesP Model.Difflib Model.DifflibSpec.

(* ================================================================== *)
(** * nth / firstn / skipn / slice *)

Lemma nth_skipn_add {A} (d : A) (l : list A) k r : nth r (skipn k l) d = nth (k + r) l d.
Proof.
  revert l; induction k as [|k IH]; intros l; [reflexivity|].
  destruct l as [|x l]; cbn [skipn plus nth].
  - now destruct r.
  - apply IH.
Qed.

Lemma nth_firstn_lt {A} (d : A) (l : list A) n r : r < n -> nth r (firstn n l) d = nth r l d.
Proof.
  revert l r; induction n as [|n IH]; intros l r Hr; [lia|].
  destruct l as [|x l]; [reflexivity|].
  destruct r as [|r]; [reflexivity|]. cbn. apply IH. lia.
Qed.

Lemma slice_nil {A} (l : list A) i : slice l i i = [].
Proof. unfold slice. now rewrite Nat.sub_diag. Qed.

Lemma slice_full {A} (l : list A) : slice l 0 (length l) = l.
Proof. unfold slice. rewrite Nat.sub_0_r. cbn. apply firstn_all. Qed.

Lemma slice_length {A} (l : list A) i1 i2 : i2 <= length l -> length (slice l i1 i2) = i2 - i1.
Proof.
  intros H. unfold slice. rewrite firstn_length, skipn_length. lia.
Qed.

Lemma firstn_add_skipn {A} (l : list A) n m :
  firstn (n + m) l = firstn n l ++ firstn m (skipn n l).
Proof.
  revert l; induction n as [|n IH]; intros l; [reflexivity|].
  destruct l as [|x l]; cbn.
  - now rewrite firstn_nil.
  - now rewrite IH.
Qed.

Lemma skipn_skipn_add {A} (l : list A) n m : skipn m (skipn n l) = skipn (n + m) l.
Proof.
  revert l; induction n as [|n IH]; intros l; [reflexivity|].
  destruct l as [|x l]; cbn; [now rewrite skipn_nil|apply IH].
Qed.

Lemma slice_app_adj {A} (l : list A) i1 i2 i3 :
  i1 <= i2 -> i2 <= i3 -> slice l i1 i2 ++ slice l i2 i3 = slice l i1 i3.
Proof.
  intros H12 H23. unfold slice.
  replace (i3 - i1) with ((i2 - i1) + (i3 - i2)) by lia.
  rewrite firstn_add_skipn, skipn_skipn_add.
  replace (i1 + (i2 - i1)) with i2 by lia. reflexivity.
Qed.

Lemma In_firstn {A} (l : list A) n x : In x (firstn n l) -> In x l.
Proof.
  revert l; induction n as [|n IH]; intros [|y l] H; cbn in H; try contradiction.
  destruct H as [->|H]; [now left|right; now apply IH].
Qed.

Lemma In_slice {A} (l : list A) i1 i2 x : In x (slice l i1 i2) -> In x l.
Proof.
  unfold slice. intros H. apply In_firstn in H.
  rewrite <- (firstn_skipn i1 l). apply in_or_app. now right.
Qed.

Lemma slice_nonempty {A} (l : list A) i1 i2 : i1 < i2 -> i2 <= length l -> slice l i1 i2 <> [].
Proof.
  intros H1 H2 E. apply (f_equal (@length A)) in E. rewrite slice_length in E by assumption.
  cbn in E. lia.
Qed.

(* two lists of the same length with the same nth are equal *)
Lemma nth_ext_nil (l1 l2 : list line) :
  length l1 = length l2 -> (forall t, t < length l1 -> nth t l1 [] = nth t l2 []) -> l1 = l2.
Proof.
  revert l2; induction l1 as [|x l1 IH]; intros [|y l2] Hlen H; cbn in Hlen; try lia; [reflexivity|].
  f_equal.
  - apply (H 0). cbn. lia.
  - apply IH; [lia|]. intros t Ht. apply (H (S t)). cbn. lia.
Qed.

Lemma nth_slice (l : list line) i1 i2 t : t < i2 - i1 -> nth t (slice l i1 i2) [] = nth (i1 + t) l [].
Proof. intros H. unfold slice. rewrite nth_firstn_lt by assumption. apply nth_skipn_add. Qed.

(* an equal run inside both lists gives equal slices *)
Lemma eq_run_slice a b i j k :
  i + k <= length a -> j + k <= length b -> eq_run a b i j k ->
  slice a i (i + k) = slice b j (j + k).
Proof.
  intros Ha Hb H. apply nth_ext_nil.
  - rewrite !slice_length by assumption. lia.
  - intros t Ht. rewrite slice_length in Ht by assumption.
    rewrite !nth_slice by lia. apply H. lia.
Qed.

(* ================================================================== *)
(** * chainB: the index table is sound *)

Lemma indices_from_sound base b x j :
  In j (indices_from base b x) -> base <= j /\ j < base + length b /\ nth (j - base) b [] = x.
Proof.
  revert base; induction b as [|y b IH]; intros base H; cbn in H; [contradiction|].
  destruct (beq_spec x y) as [->|Hne].
  - destruct H as [<-|H].
    + rewrite Nat.sub_diag. cbn. repeat split; lia.
    + apply IH in H as (H1 & H2 & H3). cbn [length]. repeat split; try lia.
      replace (j - base) with (S (j - S base)) by lia. exact H3.
  - apply IH in H as (H1 & H2 & H3). cbn [length]. repeat split; try lia.
    replace (j - base) with (S (j - S base)) by lia. exact H3.
Qed.

Lemma indices_sound b x j : In j (indices b x) -> j < length b /\ nth j b [] = x.
Proof.
  intros H. apply indices_from_sound in H as (_ & H2 & H3).
  rewrite Nat.sub_0_r in H3. split; [lia|assumption].
Qed.

(* b2j lists only positions of x, whatever the popularity purge removes *)
Lemma b2j_sound b x j : In j (b2j b x) -> j < length b /\ nth j b [] = x.
Proof.
  unfold b2j. destruct (popular b x); [intros []|apply indices_sound].
Qed.

(* the indices are complete when x is not popular (not needed for validity; documents b2j) *)
Lemma indices_from_complete base b x t :
  t < length b -> nth t b [] = x -> In (base + t) (indices_from base b x).
Proof.
  revert base t; induction b as [|y b IH]; intros base t Ht Hx; cbn in Ht; [lia|].
  cbn [indices_from]. destruct t as [|t]; cbn in Hx.
  - subst y. rewrite beq_refl. left. lia.
  - assert (In (S base + t) (indices_from (S base) b x)) as Hin by (apply IH; [lia|assumption]).
    replace (base + S t) with (S base + t) by lia.
    destruct (beq x y); [now right|assumption].
Qed.

Lemma b2j_complete b x t :
  popular b x = false -> t < length b -> nth t b [] = x -> In t (b2j b x).
Proof.
  intros Hp Ht Hx. unfold b2j. rewrite Hp. apply (indices_from_complete 0); assumption.
Qed.

Lemma popular_small b x : length b < 200 -> popular b x = false.
Proof.
  intros H. unfold popular. destruct (Nat.leb_spec 200 (length b)); [lia|reflexivity].
Qed.

Lemma b2j_table_sound a b : tbl_sound a b (b2j_table a b).
Proof.
  intros i j H. unfold b2j_table in H.
  destruct (Nat.lt_ge_cases i (length a)) as [Hi|Hi].
  - rewrite (nth_indep _ [] (b2j b [])) in H by now rewrite map_length.
    rewrite map_nth in H. apply b2j_sound in H as [_ H]. now symmetry.
  - rewrite nth_overflow in H by now rewrite map_length. contradiction.
Qed.

(* ================================================================== *)
(** * findLongestMatch: the DP invariant *)

Lemma j2get_in m j : j2get m j = 0 \/ In (j, j2get m j) m.
Proof.
  induction m as [|[j' k] m IH]; cbn; [now left|].
  destruct (Nat.eqb_spec j' j) as [->|Hne].
  - right. now left.
  - destruct IH as [IH|IH]; [now left|right; now right].
Qed.

Section FLM.
  Variables (a b : list line) (alo ahi blo bhi : nat).

  (* entries of j2len before row i: (j,k) is a match of length k ending at a[i-1], b[j] *)
  Definition j2ok (i : nat) (m : list (nat * nat)) : Prop :=
    forall j k, In (j, k) m ->
      1 <= k /\ alo + k <= i /\ blo + k <= S j /\ j < bhi /\
      forall t, t < k -> nth (i - 1 - t) a [] = nth (j - t) b [].

  Lemma j2ok_nil i : j2ok i [].
  Proof. intros j k []. Qed.

  (* the entry written for (i, j) *)
  Lemma j2ok_new_entry i j prev :
    alo <= i -> blo <= j -> j < bhi -> nth i a [] = nth j b [] -> j2ok i prev ->
    let k := S (j2prev prev j) in
    alo + k <= S i /\ blo + k <= S j /\
    forall t, t < k -> nth (i - t) a [] = nth (j - t) b [].
  Proof.
    intros Hi Hj Hjb Heq Hprev k. subst k.
    destruct j as [|j']; cbn [j2prev].
    - repeat split; try lia. intros t Ht. replace t with 0 by lia. now rewrite !Nat.sub_0_r.
    - destruct (j2get_in prev j') as [E|Hin].
      + rewrite E. repeat split; try lia. intros t Ht. replace t with 0 by lia.
        now rewrite !Nat.sub_0_r.
      + apply Hprev in Hin as (Hk1 & Hk2 & Hk3 & _ & Hk5).
        repeat split; try lia.
        intros t Ht. destruct t as [|t].
        * now rewrite !Nat.sub_0_r.
        * replace (i - S t) with (i - 1 - t) by lia.
          replace (S j' - S t) with (j' - t) by lia. apply Hk5. lia.
  Qed.

  Lemma flm_row_inv i js : forall prev nw best nw' best',
    alo <= i -> i < ahi ->
    (forall j, In j js -> nth i a [] = nth j b []) ->
    j2ok i prev -> j2ok (S i) nw -> blk_ok a b alo ahi blo bhi best ->
    flm_row i blo bhi js prev nw best = (nw', best') ->
    j2ok (S i) nw' /\ blk_ok a b alo ahi blo bhi best'.
  Proof.
    induction js as [|j js IH]; intros prev nw best nw' best' Hlo Hhi Hjs Hprev Hnw Hbest E;
      cbn [flm_row] in E.
    - injection E as <- <-. now split.
    - assert (Hjs' : forall j0, In j0 js -> nth i a [] = nth j0 b []) by (intros; apply Hjs; now right).
      destruct (Nat.ltb_spec j blo) as [Hjlo|Hjlo].
      { eapply IH; eauto. }
      destruct (Nat.leb_spec bhi j) as [Hjhi|Hjhi].
      { injection E as <- <-. now split. }
      destruct best as [[bi bj] bs].
      pose proof (j2ok_new_entry i j prev Hlo Hjlo Hjhi (Hjs j (or_introl eq_refl)) Hprev)
        as (Hk1 & Hk2 & Hk3).
      cbv zeta in Hk1, Hk2, Hk3.
      set (k := S (j2prev prev j)) in *.
      eapply IH in E; eauto.
      + (* new table *)
        intros j0 k0 [H0|H0].
        * injection H0 as <- <-. repeat split; try (subst k; lia).
          intros t Ht. replace (S i - 1 - t) with (i - t) by lia. now apply Hk3.
        * now apply Hnw.
      + (* new best *)
        destruct (Nat.ltb_spec bs k) as [Hlt|Hge]; [|assumption].
        cbn. repeat split; try lia.
        intros t Ht. specialize (Hk3 (k - 1 - t)).
        replace (i - (k - 1 - t)) with (i + 1 - k + t) in Hk3 by lia.
        replace (j - (k - 1 - t)) with (j + 1 - k + t) in Hk3 by lia.
        apply Hk3. lia.
  Qed.

  Lemma flm_rows_inv rows : forall i prev best,
    alo <= i -> i + length rows <= ahi ->
    (forall r j, r < length rows -> In j (nth r rows []) -> nth (i + r) a [] = nth j b []) ->
    j2ok i prev -> blk_ok a b alo ahi blo bhi best ->
    blk_ok a b alo ahi blo bhi (flm_rows blo bhi rows i prev best).
  Proof.
    induction rows as [|js rows IH]; intros i prev best Hlo Hhi Hrows Hprev Hbest; cbn [flm_rows].
    - assumption.
    - cbn [length] in Hhi.
      destruct (flm_row i blo bhi js prev [] best) as [nw best'] eqn:E.
      apply flm_row_inv in E as [Hnw Hbest']; try assumption; try lia.
      + apply IH; try assumption; try lia.
        intros r j Hr Hin. replace (S i + r) with (i + S r) by lia.
        apply Hrows; [cbn; lia|exact Hin].
      + intros j Hin. specialize (Hrows 0 j). rewrite Nat.add_0_r in Hrows.
        apply Hrows; [cbn; lia|exact Hin].
      + apply j2ok_nil.
  Qed.

  (* the two extension loops *)
  Lemma ext_left_ok fuel : forall m,
    blk_ok a b alo ahi blo bhi m -> blk_ok a b alo ahi blo bhi (ext_left a b alo blo fuel m).
  Proof.
    induction fuel as [|f IH]; intros m Hm; cbn [ext_left]; [assumption|].
    destruct m as [[i j] k].
    destruct ((alo <? i) && (blo <? j) && beq (nth (i - 1) a []) (nth (j - 1) b [])) eqn:C;
      [|assumption].
    apply andb_prop in C as [C C3]. apply andb_prop in C as [C1 C2].
    apply Nat.ltb_lt in C1, C2. apply beq_eq in C3.
    apply IH. cbn in Hm |- *. destruct Hm as (H1 & H2 & H3 & H4 & H5).
    repeat split; try lia.
    intros t Ht. destruct t as [|t].
    - now rewrite !Nat.add_0_r.
    - replace (i - 1 + S t) with (i + t) by lia. replace (j - 1 + S t) with (j + t) by lia.
      apply H5. lia.
  Qed.

  Lemma ext_right_ok fuel : forall m,
    blk_ok a b alo ahi blo bhi m -> blk_ok a b alo ahi blo bhi (ext_right a b ahi bhi fuel m).
  Proof.
    induction fuel as [|f IH]; intros m Hm; cbn [ext_right]; [assumption|].
    destruct m as [[i j] k].
    destruct ((i + k <? ahi) && (j + k <? bhi) && beq (nth (i + k) a []) (nth (j + k) b [])) eqn:C;
      [|assumption].
    apply andb_prop in C as [C C3]. apply andb_prop in C as [C1 C2].
    apply Nat.ltb_lt in C1, C2. apply beq_eq in C3.
    apply IH. cbn in Hm |- *. destruct Hm as (H1 & H2 & H3 & H4 & H5).
    repeat split; try lia.
    intros t Ht. destruct (Nat.eq_dec t k) as [->|Hne]; [assumption|]. apply H5. lia.
  Qed.

  (* loop conditions, as booleans *)
  Definition left_cond (m : blk) : bool :=
    let '(i, j, k) := m in (alo <? i) && (blo <? j) && beq (nth (i - 1) a []) (nth (j - 1) b []).
  Definition right_cond (m : blk) : bool :=
    let '(i, j, k) := m in
    (i + k <? ahi) && (j + k <? bhi) && beq (nth (i + k) a []) (nth (j + k) b []).

  (* fuel: the loops stop because their condition fails, not because fuel ran out *)
  Lemma ext_left_fuel_enough fuel : forall i j k,
    i <= fuel -> left_cond (ext_left a b alo blo fuel (i, j, k)) = false.
  Proof.
    induction fuel as [|f IH]; intros i j k Hf; cbn [ext_left].
    - unfold left_cond. replace i with 0 by lia. reflexivity.
    - destruct ((alo <? i) && (blo <? j) && beq (nth (i - 1) a []) (nth (j - 1) b [])) eqn:C.
      + apply IH. lia.
      + exact C.
  Qed.

  Lemma ext_right_fuel_enough fuel : forall i j k,
    ahi <= fuel + (i + k) -> right_cond (ext_right a b ahi bhi fuel (i, j, k)) = false.
  Proof.
    induction fuel as [|f IH]; intros i j k Hf; cbn [ext_right].
    - unfold right_cond. destruct (Nat.ltb_spec (i + k) ahi); [lia|reflexivity].
    - destruct ((i + k <? ahi) && (j + k <? bhi) && beq (nth (i + k) a []) (nth (j + k) b [])) eqn:C.
      + apply IH. lia.
      + exact C.
  Qed.

  Lemma flm_tbl_ok tbl :
    alo <= ahi -> blo <= bhi -> tbl_sound a b tbl ->
    blk_ok a b alo ahi blo bhi (flm_tbl tbl a b alo ahi blo bhi).
  Proof.
    intros Ha Hb Htbl. unfold flm_tbl.
    set (rows := firstn (ahi - alo) (skipn alo tbl)).
    assert (Hlen : length rows <= ahi - alo) by (subst rows; rewrite firstn_length; lia).
    assert (H0 : blk_ok a b alo ahi blo bhi (flm_rows blo bhi rows alo [] (alo, blo, 0))).
    { apply flm_rows_inv; try lia.
      - intros r j Hr Hin. apply Htbl. subst rows.
        rewrite nth_firstn_lt in Hin by lia. now rewrite nth_skipn_add in Hin.
      - apply j2ok_nil.
      - cbn. repeat split; try lia. intros t Ht. lia. }
    destruct (flm_rows blo bhi rows alo [] (alo, blo, 0)) as [[i0 j0] k0].
    apply ext_right_ok, ext_left_ok, H0.
  Qed.

  (* both extension loops of flm_tbl ran to completion *)
  Lemma flm_tbl_fuel_enough tbl :
    let rows := firstn (ahi - alo) (skipn alo tbl) in
    let m0 := flm_rows blo bhi rows alo [] (alo, blo, 0) in
    let m1 := ext_left a b alo blo (fst (fst m0)) m0 in
    left_cond m1 = false /\ right_cond (ext_right a b ahi bhi ahi m1) = false.
  Proof.
    cbv zeta. destruct (flm_rows _ _ _ _ _ _) as [[i0 j0] k0]. cbn [fst]. split.
    - now apply ext_left_fuel_enough.
    - destruct (ext_left a b alo blo i0 (i0, j0, k0)) as [[i1 j1] k1].
      apply ext_right_fuel_enough. lia.
  Qed.
End FLM.

(** flm_valid *)
Theorem flm_valid a b alo ahi blo bhi i j k :
  alo <= ahi -> ahi <= length a -> blo <= bhi -> bhi <= length b ->
  find_longest_match a b alo ahi blo bhi = (i, j, k) ->
  alo <= i /\ i + k <= ahi /\ blo <= j /\ j + k <= bhi /\
  forall t, t < k -> nth (i + t) a [] = nth (j + t) b [].
Proof.
  intros Ha _ Hb _ E.
  pose proof (flm_tbl_ok a b alo ahi blo bhi (b2j_table a b) Ha Hb (b2j_table_sound a b)) as H.
  unfold find_longest_match in E. rewrite E in H. exact H.
Qed.

(* the same with slices *)
Corollary flm_valid_slices a b alo ahi blo bhi i j k :
  alo <= ahi -> ahi <= length a -> blo <= bhi -> bhi <= length b ->
  find_longest_match a b alo ahi blo bhi = (i, j, k) ->
  slice a i (i + k) = slice b j (j + k).
Proof.
  intros Ha Ha' Hb Hb' E.
  destruct (flm_valid _ _ _ _ _ _ _ _ _ Ha Ha' Hb Hb' E) as (H1 & H2 & H3 & H4 & H5).
  apply eq_run_slice; try lia. exact H5.
Qed.

(* ================================================================== *)
(** * getMatchingBlocks *)

Arguments eq_run : simpl never.

Lemma chain_weaken a b ahi bhi i j i' j' ms :
  i' <= i -> j' <= j -> chain a b ahi bhi i j ms -> chain a b ahi bhi i' j' ms.
Proof.
  intros Hi Hj H. destruct ms as [|[[bi bj] bk] r]; cbn in *.
  - lia.
  - destruct H as (H1 & H2 & H3 & H4). repeat split; try lia; assumption.
Qed.

Lemma chain_le a b ahi bhi ms : forall i j, chain a b ahi bhi i j ms -> i <= ahi /\ j <= bhi.
Proof.
  induction ms as [|[[bi bj] bk] r IH]; intros i j H; cbn in H.
  - exact H.
  - destruct H as (H1 & H2 & _ & H4). apply IH in H4. lia.
Qed.

Lemma chain_app a b ahi bhi mi mj l1 l2 : forall i j,
  chain a b mi mj i j l1 -> chain a b ahi bhi mi mj l2 -> chain a b ahi bhi i j (l1 ++ l2).
Proof.
  induction l1 as [|[[bi bj] bk] r IH]; intros i j H1 H2; cbn in H1 |- *.
  - eapply chain_weaken; [| |exact H2]; lia.
  - destruct H1 as (Ha & Hb & Hc & Hd). repeat split; try assumption. now apply IH.
Qed.

(* a chain also bounds every block *)
Lemma chain_In a b ahi bhi ms : forall i j bi bj bk,
  chain a b ahi bhi i j ms -> In (bi, bj, bk) ms ->
  i <= bi /\ j <= bj /\ bi + bk <= ahi /\ bj + bk <= bhi /\ eq_run a b bi bj bk.
Proof.
  induction ms as [|[[ci cj] ck] r IH]; intros i j bi bj bk H Hin; [contradiction|].
  cbn in H. destruct H as (H1 & H2 & H3 & H4). destruct Hin as [E|Hin].
  - injection E as <- <- <-. apply chain_le in H4. repeat split; try lia; assumption.
  - destruct (IH _ _ _ _ _ H4 Hin) as (G1 & G2 & G3 & G4 & G5). repeat split; try lia; assumption.
Qed.

(* consecutive blocks of a chain do not overlap and are ordered *)
Lemma chain_adjacent a b ahi bhi l1 : forall i j x y l2,
  chain a b ahi bhi i j (l1 ++ x :: y :: l2) ->
  fst (fst x) + snd x <= fst (fst y) /\ snd (fst x) + snd x <= snd (fst y).
Proof.
  induction l1 as [|[[ci cj] ck] r IH]; intros i j [[xi xj] xk] [[yi yj] yk] l2 H; cbn in H.
  - cbn. lia.
  - destruct H as (_ & _ & _ & H). eapply IH. exact H.
Qed.

Lemma match_blocks_chain tbl a b : tbl_sound a b tbl -> forall fuel alo ahi blo bhi,
  alo <= ahi -> blo <= bhi ->
  chain a b ahi bhi alo blo (match_blocks fuel tbl a b alo ahi blo bhi).
Proof.
  intros Htbl. induction fuel as [|f IH]; intros alo ahi blo bhi Ha Hb; cbn [match_blocks].
  - cbn. lia.
  - pose proof (flm_tbl_ok a b alo ahi blo bhi tbl Ha Hb Htbl) as Hm.
    destruct (flm_tbl tbl a b alo ahi blo bhi) as [[i j] k]. cbn in Hm.
    destruct Hm as (H1 & H2 & H3 & H4 & H5).
    destruct (Nat.ltb_spec 0 k) as [Hk|Hk]; [|cbn; lia].
    apply (chain_app a b ahi bhi i j).
    + destruct ((alo <? i) && (blo <? j)); [apply IH; lia|cbn; lia].
    + cbn [chain]. repeat split; try lia; try assumption.
      destruct ((i + k <? ahi) && (j + k <? bhi)); [apply IH; lia|cbn; lia].
Qed.

Lemma match_blocks_pos tbl a b : forall fuel alo ahi blo bhi,
  Forall (fun m => 0 < blk_size m) (match_blocks fuel tbl a b alo ahi blo bhi).
Proof.
  induction fuel as [|f IH]; intros alo ahi blo bhi; cbn [match_blocks]; [constructor|].
  destruct (flm_tbl tbl a b alo ahi blo bhi) as [[i j] k].
  destruct (Nat.ltb_spec 0 k) as [Hk|Hk]; [|constructor].
  apply Forall_app. split.
  - destruct ((alo <? i) && (blo <? j)); [apply IH|constructor].
  - constructor; [exact Hk|]. destruct ((i + k <? ahi) && (j + k <? bhi)); [apply IH|constructor].
Qed.

(* fuel: with more than ahi - alo units the result does not depend on the fuel *)
Lemma match_blocks_fuel_enough tbl a b : tbl_sound a b tbl -> forall f1 f2 alo ahi blo bhi,
  alo <= ahi -> blo <= bhi -> ahi - alo < f1 -> ahi - alo < f2 ->
  match_blocks f1 tbl a b alo ahi blo bhi = match_blocks f2 tbl a b alo ahi blo bhi.
Proof.
  intros Htbl. induction f1 as [|f1 IH]; intros f2 alo ahi blo bhi Ha Hb H1 H2; [lia|].
  destruct f2 as [|f2]; [lia|]. cbn [match_blocks].
  pose proof (flm_tbl_ok a b alo ahi blo bhi tbl Ha Hb Htbl) as Hm.
  destruct (flm_tbl tbl a b alo ahi blo bhi) as [[i j] k]. cbn in Hm.
  destruct Hm as (G1 & G2 & G3 & G4 & G5).
  destruct (Nat.ltb_spec 0 k) as [Hk|Hk]; [|reflexivity].
  f_equal; [|f_equal].
  - destruct ((alo <? i) && (blo <? j)); [apply IH; lia|reflexivity].
  - destruct ((i + k <? ahi) && (j + k <? bhi)); [apply IH; lia|reflexivity].
Qed.

Corollary raw_blocks_fuel_enough a b f :
  length a < f ->
  raw_blocks a b = match_blocks f (b2j_table a b) a b 0 (length a) 0 (length b).
Proof.
  intros H. unfold raw_blocks. apply match_blocks_fuel_enough; try lia. apply b2j_table_sound.
Qed.

Lemma emit_blk_pos m : Forall (fun m => 0 < blk_size m) (emit_blk m).
Proof.
  destruct m as [[i j] k]. cbn [emit_blk].
  destruct (Nat.ltb_spec 0 k); [constructor; [assumption|constructor]|constructor].
Qed.

Lemma merge_adjacent_pos l : forall cur, Forall (fun m => 0 < blk_size m) (merge_adjacent cur l).
Proof.
  induction l as [|[[i2 j2] k2] r IH]; intros [[i1 j1] k1]; cbn [merge_adjacent].
  - apply emit_blk_pos.
  - destruct ((i1 + k1 =? i2) && (j1 + k1 =? j2)); [apply IH|].
    apply Forall_app. split; [apply emit_blk_pos|apply IH].
Qed.

Lemma merge_adjacent_chain a b ahi bhi l : forall i0 j0 i1 j1 k1,
  i0 <= i1 -> j0 <= j1 -> eq_run a b i1 j1 k1 ->
  chain a b ahi bhi (i1 + k1) (j1 + k1) l ->
  chain a b ahi bhi i0 j0 (merge_adjacent (i1, j1, k1) l).
Proof.
  induction l as [|[[i2 j2] k2] r IH]; intros i0 j0 i1 j1 k1 Hi Hj Heq H; cbn [merge_adjacent].
  - cbn in H. cbn [emit_blk]. destruct (Nat.ltb_spec 0 k1); cbn [chain].
    + repeat split; try lia. assumption.
    + lia.
  - cbn in H. destruct H as (H1 & H2 & H3 & H4).
    destruct ((i1 + k1 =? i2) && (j1 + k1 =? j2)) eqn:C.
    + apply andb_prop in C as [C1 C2]. apply Nat.eqb_eq in C1, C2.
      apply IH; try assumption.
      * intros t Ht. destruct (Nat.lt_ge_cases t k1) as [Hlt|Hge]; [now apply Heq|].
        replace (i1 + t) with (i2 + (t - k1)) by lia.
        replace (j1 + t) with (j2 + (t - k1)) by lia. apply H3. lia.
      * replace (i1 + (k1 + k2)) with (i2 + k2) by lia.
        replace (j1 + (k1 + k2)) with (j2 + k2) by lia. exact H4.
    + assert (Hrest : chain a b ahi bhi (i1 + k1) (j1 + k1) (merge_adjacent (i2, j2, k2) r))
        by (apply IH; assumption).
      cbn [emit_blk]. destruct (Nat.ltb_spec 0 k1); cbn [app chain].
      * repeat split; try lia; assumption.
      * eapply chain_weaken; [| |exact Hrest]; lia.
Qed.

(* adjacent triples never describe adjacent equal blocks (the doc comment of getMatchingBlocks) *)
Fixpoint non_adjacent (l : list blk) : Prop :=
  match l with
  | x :: r => match r with
              | y :: _ => ~ (fst (fst x) + snd x = fst (fst y) /\ snd (fst x) + snd x = snd (fst y))
              | [] => True
              end /\ non_adjacent r
  | [] => True
  end.

Lemma merge_adjacent_head l : forall i1 j1 k1,
  match merge_adjacent (i1, j1, k1) l with
  | [] => True
  | (i, j, k) :: _ => (0 < k1 -> i = i1 /\ j = j1)
  end.
Proof.
  induction l as [|[[i2 j2] k2] r IH]; intros i1 j1 k1; cbn [merge_adjacent].
  - cbn [emit_blk]. destruct (Nat.ltb_spec 0 k1); [now intros|exact I].
  - destruct ((i1 + k1 =? i2) && (j1 + k1 =? j2)).
    + specialize (IH i1 j1 (k1 + k2)). destruct (merge_adjacent (i1, j1, k1 + k2) r) as [|[[i j] k] ?];
        [exact I|]. intros Hk. apply IH. lia.
    + cbn [emit_blk]. destruct (Nat.ltb_spec 0 k1); cbn [app]; [now intros|].
      destruct (merge_adjacent (i2, j2, k2) r) as [|[[i j] k] ?]; [exact I|]. intros; lia.
Qed.

(* ---- the theorems about matching_blocks ---- *)

Definition sentinel (a b : list line) : blk := (length a, length b, 0).

Lemma matching_blocks_shape a b :
  exists l, matching_blocks a b = l ++ [sentinel a b] /\
            Forall (fun m => 0 < blk_size m) l /\
            chain a b (length a) (length b) 0 0 l.
Proof.
  exists (merge_adjacent (0, 0, 0) (raw_blocks a b)). split; [reflexivity|]. split.
  - apply merge_adjacent_pos.
  - apply merge_adjacent_chain; try lia.
    + intros t Ht. lia.
    + apply match_blocks_chain; try lia. apply b2j_table_sound.
Qed.

(** the whole list, sentinel included, is a chain from (0,0) to (|a|,|b|) *)
Theorem matching_blocks_chain a b :
  chain a b (length a) (length b) 0 0 (matching_blocks a b).
Proof.
  destruct (matching_blocks_shape a b) as (l & -> & _ & Hc).
  eapply chain_app; [exact Hc|]. cbn. repeat split; try lia. intros t Ht. lia.
Qed.

(** the last block is the sentinel and it is the only block of size 0 *)
Theorem matching_blocks_last a b :
  exists l, matching_blocks a b = l ++ [(length a, length b, 0)] /\
            Forall (fun m => 0 < blk_size m) l.
Proof. destruct (matching_blocks_shape a b) as (l & E & Hp & _). now exists l. Qed.

Corollary matching_blocks_last_eq a b d : last (matching_blocks a b) d = (length a, length b, 0).
Proof. destruct (matching_blocks_last a b) as (l & -> & _). apply last_last. Qed.

(** each block is valid: inside both lists, and the two slices are equal *)
Theorem matching_blocks_valid a b i j k :
  In (i, j, k) (matching_blocks a b) ->
  i + k <= length a /\ j + k <= length b /\
  (forall t, t < k -> nth (i + t) a [] = nth (j + t) b []) /\
  slice a i (i + k) = slice b j (j + k).
Proof.
  intros Hin. destruct (chain_In _ _ _ _ _ _ _ _ _ _ (matching_blocks_chain a b) Hin)
    as (_ & _ & H3 & H4 & H5).
  repeat split; try assumption. now apply eq_run_slice.
Qed.

(** consecutive blocks: the next one starts at or after the end of the previous one in both
    coordinates (no overlap), and since the previous one is not the sentinel its size is
    positive, so both coordinates strictly increase *)
Theorem matching_blocks_increasing a b l1 l2 i j k i' j' k' :
  matching_blocks a b = l1 ++ (i, j, k) :: (i', j', k') :: l2 ->
  0 < k /\ i + k <= i' /\ j + k <= j' /\ i < i' /\ j < j'.
Proof.
  intros E. pose proof (matching_blocks_chain a b) as Hc. rewrite E in Hc.
  apply chain_adjacent in Hc. cbn in Hc.
  destruct (matching_blocks_last a b) as (l & E' & Hp). rewrite E in E'.
  assert (0 < k) as Hk.
  { assert (In (i, j, k) l) as Hin.
    { assert (Hl : l1 ++ (i, j, k) :: (i', j', k') :: l2 = (l1 ++ [(i, j, k)]) ++ ((i', j', k') :: l2))
        by (now rewrite <- app_assoc).
      rewrite Hl in E'.
      destruct (@exists_last _ ((i', j', k') :: l2)) as (l3 & z & E3); [discriminate|].
      rewrite E3, app_assoc in E'. apply app_inj_tail in E' as [E' _].
      rewrite <- E'. apply in_or_app. left. apply in_or_app. right. now left. }
    rewrite Forall_forall in Hp. apply (Hp _ Hin). }
  lia.
Qed.
