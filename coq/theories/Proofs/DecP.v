From Coq Require Import List NArith Arith Bool Lia Decimal DecimalNat DecimalFacts.
Import ListNotations.
From Snaps Require Import Base.Bytes Base.Dec.

Lemma uint_bytes_inj u v : uint_bytes u = uint_bytes v -> u = v.
Proof.
  revert v; induction u; intros v; destruct v; cbn; intros H; try discriminate;
    try reflexivity; injection H as H; f_equal; auto.
Qed.

Lemma dec_inj n m : dec n = dec m -> n = m.
Proof.
  unfold dec. intros H. apply uint_bytes_inj in H.
  rewrite <- (Unsigned.of_to n), <- (Unsigned.of_to m). now f_equal.
Qed.

Lemma uint_bytes_digits u : forallb is_digit (uint_bytes u) = true.
Proof. induction u; cbn; auto. Qed.

Lemma dec_digits n : forallb is_digit (dec n) = true.
Proof. apply uint_bytes_digits. Qed.

Lemma dec_nonempty n : dec n <> [].
Proof.
  unfold dec. destruct (Nat.to_uint n) eqn:E; cbn; try discriminate.
  exfalso. pose proof (Unsigned.to_of (Nat.to_uint n)) as H.
  rewrite Unsigned.of_to, E in H. cbn in H. discriminate.
Qed.
