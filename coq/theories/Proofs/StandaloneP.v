(* Lemmas about standalone snapshot calls (C19). *)
From Coq Require Import List NArith Arith Bool Lia.
Import ListNotations.
From Snaps Require Import Base.Bytes Base.Lines Base.Dec Base.Assoc.
From Snaps Require Import Model.Frame Model.PathModel Model.Mode Model.Api.
From Snaps Require Import Proofs.BytesP Proofs.DiffDecisionP.

Definition stand_generic (s : state) (c : config) (test : bytes) : bytes :=
  snapshot_path c (s_caller s) test true.

Definition stand_path (s : state) (c : config) (test : bytes) : bytes :=
  subst_d (stand_generic s c test) (dec (S (get1 (s_srunning s) (stand_generic s c test)))).

Lemma stand_call_path s a c test p s' o :
  stand_call s a c test p = (s', o) -> o_path o = stand_path s c test.
Proof.
  unfold stand_call, stand_path, stand_generic, reg_stand, finish. cbn.
  destruct p; cbn; try (intros [= <- <-]; reflexivity).
  destruct (alookup _ _) eqn:E.
  - destruct (diff_empty _ _); [intros [= <- <-]; reflexivity|].
    destruct (should_update _ _); intros [= <- <-]; reflexivity.
  - destruct (should_create _ _); intros [= <- <-]; reflexivity.
Qed.

(* the file written by an added/updated call holds exactly the formatted value *)
Lemma stand_bytes s a c test text s' o :
  stand_call s a c test (POk text) = (s', o) ->
  (o_outcome o = Added \/ o_outcome o = Updated) ->
  alookup (o_path o) (s_fs s') = Some text.
Proof.
  unfold stand_call, reg_stand, finish. cbn.
  destruct (alookup _ _) eqn:E.
  - destruct (diff_empty _ _) eqn:D; [intros [= <- <-]; cbn; intros [|]; discriminate|].
    destruct (should_update _ _); intros [= <- <-]; cbn.
    + intros _. apply alookup_aset_same.
    + intros [|]; discriminate.
  - destruct (should_create _ _); intros [= <- <-]; cbn.
    + intros _. apply alookup_aset_same.
    + intros [|]; discriminate.
Qed.

(* all other files keep their bytes; nothing is ever removed *)
Lemma stand_others s a c test p s' o q :
  stand_call s a c test p = (s', o) -> q <> o_path o ->
  alookup q (s_fs s') = alookup q (s_fs s).
Proof.
  unfold stand_call, reg_stand, finish. cbn.
  destruct p; cbn; try (intros [= <- <-]; reflexivity).
  destruct (alookup _ _) eqn:E.
  - destruct (diff_empty _ _); [intros [= <- <-]; reflexivity|].
    destruct (should_update _ _); intros [= <- <-]; cbn; [|reflexivity].
    intros Hq. now apply alookup_aset_other.
  - destruct (should_create _ _); intros [= <- <-]; cbn; [|reflexivity].
    intros Hq. now apply alookup_aset_other.
Qed.

(* replay: a file holding the formatted value passes in every mode and nothing is written *)
Lemma stand_replay s a c test text :
  alookup (stand_path s c test) (s_fs s) = Some text ->
  exists s' o, stand_call s a c test (POk text) = (s', o) /\
    o_outcome o = Passed /\ o_errors o = 0 /\ o_logs o = [] /\ o_writes o = [] /\
    s_fs s' = s_fs s.
Proof.
  unfold stand_path, stand_generic, stand_call, reg_stand, finish. cbn. intros H.
  rewrite H. rewrite diff_empty_refl.
  eexists _, _. split; [reflexivity|]. cbn. repeat split.
Qed.

(* a differing value never passes: failure (one error, nothing written) or wholesale update *)
Lemma stand_mismatch s a c test text prev s' o :
  alookup (stand_path s c test) (s_fs s) = Some prev -> prev <> text ->
  stand_call s a c test (POk text) = (s', o) ->
  (should_update (s_env s) (c_update c) = false /\
     o_outcome o = Failed EDiff /\ o_errors o = 1 /\ o_writes o = [] /\ s_fs s' = s_fs s)
  \/ (should_update (s_env s) (c_update c) = true /\
     o_outcome o = Updated /\ o_errors o = 0 /\ o_logs o = [LUpdated] /\
     alookup (o_path o) (s_fs s') = Some text).
Proof.
  unfold stand_path, stand_generic, stand_call, reg_stand, finish. cbn. intros H Hne.
  rewrite H. rewrite (diff_empty_false _ _ Hne).
  destruct (should_update _ _); intros [= <- <-]; cbn.
  - right. repeat split. apply alookup_aset_same.
  - left. repeat split.
Qed.

(* the registry part of the state after a standalone call *)
Lemma stand_call_counter s a c test p s' o :
  stand_call s a c test p = (s', o) ->
  get1 (s_srunning s') (stand_generic s c test) = S (get1 (s_srunning s) (stand_generic s c test))
  /\ s_caller s' = s_caller s.
Proof.
  unfold stand_call, stand_generic, reg_stand, finish, get1. cbn.
  destruct p; cbn; try (intros [= <- <-]; cbn; rewrite alookup_aset_same; auto).
  destruct (alookup (subst_d _ _) _) eqn:E.
  - destruct (diff_empty _ _); [intros [= <- <-]; cbn; rewrite alookup_aset_same; auto|].
    destruct (should_update _ _); intros [= <- <-]; cbn; rewrite alookup_aset_same; auto.
  - destruct (should_create _ _); intros [= <- <-]; cbn; rewrite alookup_aset_same; auto.
Qed.

(* k-th call of an uninterrupted execution maps to file k *)
Fixpoint stand_calls (s : state) (a : api) (c : config) (test : bytes) (ps : list pre)
  : list bytes :=
  match ps with
  | [] => []
  | p :: r => let (s', o) := stand_call s a c test p in o_path o :: stand_calls s' a c test r
  end.

Lemma stand_kth s a c test ps :
  forall i, i < length ps ->
  nth i (stand_calls s a c test ps) [] =
  subst_d (stand_generic s c test) (dec (get1 (s_srunning s) (stand_generic s c test) + S i)).
Proof.
  revert s. induction ps as [|p ps IH]; intros s i Hi; cbn in Hi; [lia|].
  cbn [stand_calls]. destruct (stand_call s a c test p) as [s' o] eqn:E.
  destruct i as [|i].
  - cbn [nth]. rewrite (stand_call_path _ _ _ _ _ _ _ E). unfold stand_path.
    now rewrite Nat.add_1_r.
  - cbn [nth]. rewrite IH by lia.
    destruct (stand_call_counter _ _ _ _ _ _ _ E) as [Hc Hcal].
    assert (Hg : stand_generic s' c test = stand_generic s c test)
      by (unfold stand_generic; now rewrite Hcal).
    rewrite Hg, Hc. now rewrite Nat.add_succ_comm.
Qed.
