(* YAML snapshots, second layer (C18): the stored text determines the document, is never cut short by a
   document separator, and carries the final newline (present or absent) of the input. *)
From Coq Require Import String.
From Coq Require Import List NArith Arith Bool Lia.
Import ListNotations.
From Snaps Require Import Base.Bytes Base.Lines Model.Frame.
From Snaps Require Import Proofs.BytesP Proofs.LinesP Proofs.FrameP.

(* two documents that store the same text are the same document: nothing (comments, key order,
   separators, final newline) is lost by storing *)
Lemma yaml_store_injective y y' :
  no_token_line y -> no_token_line y' -> escape y = escape y' -> y = y'.
Proof.
  intros Hy Hy' E. apply (f_equal unescape) in E.
  rewrite !unescape_escape in E. rewrite (unescape_id _ Hy), (unescape_id _ Hy') in E. exact E.
Qed.

(* a multi-document stream is one body: no stored line is the entry terminator *)
Lemma yaml_store_no_terminator y : ~ In endseq (split_nl (escape y)).
Proof. apply escape_no_endseq. Qed.

Lemma split_nl_snoc_nl s : split_nl (s ++ [nl]) = (split_nl s ++ [[]])%list.
Proof.
  rewrite <- unlines_split_nl. apply split_nl_unlines. apply split_nl_all_no_nl.
Qed.

Lemma esc_line_nil : esc_line [] = [].
Proof. reflexivity. Qed.

(* the final newline of the input is the final newline of the stored text: escaping commutes with
   appending one *)
Lemma yaml_store_final_newline y : escape (y ++ [nl]) = (escape y ++ [nl])%list.
Proof.
  apply split_nl_inj. rewrite escape_lines, !split_nl_snoc_nl, map_app, escape_lines. reflexivity.
Qed.

(* ... and a document without a final newline is stored without one *)
Lemma yaml_store_no_final_newline y l :
  last (split_nl y) [] = l -> last (split_nl (escape y)) [] = esc_line l.
Proof.
  intros H. rewrite escape_lines. subst l.
  assert (G : forall ls : list bytes, ls <> [] -> last (map esc_line ls) [] = esc_line (last ls [])).
  { induction ls as [|a ls IH]; [congruence|]. intros _. destruct ls as [|b ls]; [reflexivity|].
    change (last (map esc_line (b :: ls)) [] = esc_line (last (b :: ls) [])). apply IH. discriminate. }
  apply G. apply split_nl_nonempty.
Qed.

(* the number of lines is kept *)
Lemma yaml_store_line_count y : length (split_nl (escape y)) = length (split_nl y).
Proof. rewrite escape_lines. apply map_length. Qed.

(* witnesses for the hypotheses above *)
Definition wys_doc : bytes := (B "# c" ++ [nl] ++ B "a: 1" ++ [nl] ++ B "---" ++ [nl] ++ B "b: 2")%list.
Definition wys_doc' : bytes := (B "# c" ++ [nl] ++ B "a: 1" ++ [nl] ++ B "---" ++ [nl] ++ B "b: 2" ++ [nl])%list.

Lemma yaml_store_injective_witness :
  no_token_line wys_doc /\ no_token_line wys_doc' /\ wys_doc <> wys_doc' /\ In endseq (split_nl wys_doc).
Proof.
  repeat split.
  - unfold no_token_line. vm_compute. intuition discriminate.
  - unfold no_token_line. vm_compute. intuition discriminate.
  - discriminate.
  - vm_compute. intuition.
Qed.

Lemma yaml_store_injective_applied : escape wys_doc <> escape wys_doc'.
Proof.
  intros E. destruct yaml_store_injective_witness as [A [B0 [C _]]].
  apply C. now apply yaml_store_injective.
Qed.

Lemma yaml_store_no_final_newline_witness :
  last (split_nl wys_doc) [] = B "b: 2" /\ last (split_nl (escape wys_doc)) [] = B "b: 2".
Proof. split; vm_compute; reflexivity. Qed.
