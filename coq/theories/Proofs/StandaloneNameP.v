(* The k-th standalone call of an execution, as a NAMED path: Proofs/StandaloneP.stand_kth (ordinal substituted into the
   generic format) composed with Proofs/PercentP.standalone_kth_path (what that substitution yields, for every name). *)
From Coq Require Import String.
From Coq Require Import List NArith Bool Lia.
Import ListNotations.
From Snaps Require Import Base.Bytes Base.Dec Base.Assoc.
From Snaps Require Import Model.PathModel Model.Api.
From Snaps Require Import Proofs.StandaloneP Proofs.PercentP.

Lemma stand_kth_named s a c test ps i : i < length ps ->
  nth i (stand_calls s a c test ps) [] =
  join2 (if is_abs (c_dir c) then c_dir c else join2 (dirname (s_caller s)) (c_dir c))
        ((match c_filename c with [] => replace_byte slash 95%N test | f => f end)
           ++ B "_" ++ dec (get1 (s_srunning s) (stand_generic s c test) + S i) ++ B ".snap" ++ c_ext c).
Proof.
  intros H. rewrite (stand_kth s a c test ps i H). unfold stand_generic. apply standalone_kth_path.
Qed.
