(* API-level lemmas: what a multi-entry call does, registry determinism, histories. *)
From Coq Require Import String.
From Coq Require Import List NArith Arith Bool Lia.
Import ListNotations.
From Snaps Require Import Base.Bytes Base.Lines Base.Dec Base.Assoc.
From Snaps Require Import Model.Frame Model.PathModel Model.Mode Model.Api.
From Snaps Require Import Proofs.BytesP Proofs.LinesP Proofs.DecP Proofs.FrameP Proofs.DiffDecisionP.

#[global] Arguments header : simpl never.
#[global] Arguments snapshot_path : simpl never.
#[global] Arguments get_prev : simpl never.
#[global] Arguments add_entry : simpl never.
#[global] Arguments update_entry : simpl never.
#[global] Arguments escape : simpl never.
#[global] Arguments unescape : simpl never.
#[global] Arguments diff_empty : simpl never.
#[global] Arguments dirname : simpl never.
#[global] Arguments should_update : simpl never.
#[global] Arguments should_create : simpl never.
#[global] Arguments aset : simpl never.
#[global] Arguments aset2 : simpl never.
#[global] Arguments alookup : simpl never.
#[global] Arguments alookup2 : simpl never.
#[global] Arguments get2 : simpl never.
#[global] Arguments get1 : simpl never.
#[global] Arguments subst_d : simpl never.
#[global] Arguments dec : simpl never.
#[global] Arguments mem_bytes : simpl never.

(* ---------- headers ---------- *)

Lemma header_nonempty test k : header test k <> [].
Proof. unfold header. cbn. discriminate. Qed.

Lemma header_not_endseq test k : header test k <> endseq.
Proof. unfold header, endseq. cbn. discriminate. Qed.

Lemma last_app_single {A} (l : list A) x d : last (l ++ [x]) d = x.
Proof. apply last_last. Qed.

Lemma drop_cr_snoc_not_cr l c : c <> cr -> drop_cr (l ++ [c]) = l ++ [c].
Proof.
  intros H. induction l as [|x l IH]; cbn [app drop_cr].
  - apply N.eqb_neq in H. now rewrite H.
  - destruct (l ++ [c]) eqn:E; [now destruct l|]. now rewrite IH.
Qed.

Lemma digits_no_nl d : forallb is_digit d = true -> no_nl d.
Proof.
  induction d as [|c d IH]; cbn; [intros _; apply no_nl_nil|].
  intros H. apply andb_prop in H as [Hc Hd]. apply no_nl_cons. split; [|auto].
  intros ->. discriminate.
Qed.

Lemma no_nl_app a b : no_nl a -> no_nl b -> no_nl (a ++ b).
Proof. unfold no_nl. intros Ha Hb H. apply in_app_or in H as [|]; auto. Qed.

Lemma header_safe test k : no_nl test -> safe_line (header test k).
Proof.
  intros Ht. unfold header. split.
  - repeat apply no_nl_app; auto; try (unfold no_nl, nl; cbn; intuition discriminate).
    apply digits_no_nl, dec_digits.
  - unfold no_cr_end. rewrite !app_assoc. apply drop_cr_snoc_not_cr. discriminate.
Qed.

(* ---------- views ---------- *)

(* the part of the state that determines which slot a call addresses *)
Definition reg_view (s : state) :=
  (s_caller s, s_running s, s_srunning s, s_cfgs s, s_pending s).

Definition multi_path (s : state) (c : config) (test : bytes) : bytes :=
  snapshot_path c (s_caller s) test false.
Definition multi_id (s : state) (c : config) (test : bytes) : bytes :=
  header test (S (get2 (s_running s) (multi_path s c test, test))).

Definition snap_of (a : api) (text : bytes) : bytes :=
  match a with AJson => text | _ => escape text end.

(* the comparison a multi-entry call makes between the stored body and the new value *)
Definition same (a : api) (prev text : bytes) : bool :=
  match a with
  | AJson => diff_empty prev text
  | _ => diff_empty (unescape prev) (unescape (escape text))
  end.

Definition lookup_slot (fs : list (bytes * bytes)) (path id : bytes) : option (bytes * nat) :=
  match alookup path fs with Some f => get_prev id f | None => None end.

Definition file_or_empty (fs : list (bytes * bytes)) (path : bytes) : bytes :=
  match alookup path fs with Some f => f | None => [] end.

(* complete description of a multi-entry call with a formatted value *)
Lemma multi_call_spec s a c test text :
  is_standalone a = false ->
  let path := multi_path s c test in
  let id := multi_id s c test in
  let r := fst (reg_multi s path test) in
  exists s' o, multi_call s a c test (POk text) = (s', o) /\
    o_path o = path /\ o_id o = id /\ reg_view s' = reg_view r /\ s_env s' = s_env s /\
    s_cleanup s' = s_cleanup r /\ s_scleanup s' = s_scleanup s /\ s_skipped s' = s_skipped s /\
    match lookup_slot (s_fs s) path id with
    | Some (prev, line) =>
        if same a prev text then
          o_outcome o = Passed /\ o_writes o = [] /\ s_fs s' = s_fs s /\ o_line o = line
        else if should_update (s_env s) (c_update c) then
          o_outcome o = Updated /\ o_writes o = [(WRewrite, path)] /\
          s_fs s' = aset path (update_entry id (snap_of a text) (file_or_empty (s_fs s) path)) (s_fs s)
        else o_outcome o = Failed EDiff /\ o_writes o = [] /\ s_fs s' = s_fs s /\ o_line o = line
    | None =>
        if should_create (s_env s) (c_update c) then
          o_outcome o = Added /\
          o_writes o = [(match alookup path (s_fs s) with Some _ => WAppend | None => WCreate end, path)] /\
          s_fs s' = aset path (add_entry id (snap_of a text) (file_or_empty (s_fs s) path)) (s_fs s)
        else o_outcome o = Failed ENotFound /\ o_writes o = [] /\ s_fs s' = s_fs s
    end /\
    s_events s' = bump (o_outcome o) (s_events s) /\
    o_errors o = (match o_outcome o with Failed _ => 1 | _ => 0 end) /\
    o_logs o = (match o_outcome o with Added => [LAdded] | Updated => [LUpdated] | _ => [] end).
Proof.
  intros Hst path id r. subst path id r.
  unfold multi_call, lookup_slot, file_or_empty, same, snap_of, finish, reg_multi, reg_view,
    multi_id, multi_path.
  destruct a; try discriminate Hst; cbn;
    (match goal with |- context [alookup ?p ?m] => destruct (alookup p m) as [f|] eqn:Ef end;
     [match goal with |- context [get_prev ?i ?g] => destruct (get_prev i g) as [[prev line]|] eqn:Eg end|]);
    repeat match goal with
           | |- context [if ?b then _ else _] => destruct b eqn:?
           end;
    eexists _, _; (split; [reflexivity|]); cbn; repeat split; reflexivity.
Qed.

(* ---------- recorded facts ---------- *)

(* (file, header, api, formatted text): "this call would pass" *)
Definition fact := (bytes * bytes * api * bytes)%type.

Definition holds (fs : list (bytes * bytes)) (f : fact) : Prop :=
  let '(path, id, a, text) := f in
  exists prev n, lookup_slot fs path id = Some (prev, n) /\ same a prev text = true.

Definition wf_fs (fs : list (bytes * bytes)) : Prop :=
  forall p f, alookup p fs = Some f -> wf_file f.

(* CR-safe value; JSON text (stored without escaping) must not contain a terminator line -
   true of every pretty-printed JSON document (Proofs/JsonP.v) *)
Definition value_ok (a : api) (text : bytes) : Prop :=
  safe_text text /\ (a = AJson -> ~ In endseq (split_nl text)).

Lemma snap_of_ok a text :
  value_ok a text -> safe_text (snap_of a text) /\ ~ In endseq (split_nl (snap_of a text)).
Proof.
  intros [Hs Hj]. destruct a; cbn [snap_of];
    try (split; [now apply escape_safe|apply escape_no_endseq]).
  split; [assumption|now apply Hj].
Qed.

Lemma beq_refl' a : beq a a = true. Proof. apply beq_refl. Qed.

Lemma same_snap a text : same a (snap_of a text) text = true.
Proof. destruct a; cbn [same snap_of]; apply diff_empty_refl. Qed.

Lemma get_prev_nil tid : get_prev tid [] = None.
Proof. reflexivity. Qed.

Lemma wf_fs_file_or_empty fs p : wf_fs fs -> wf_file (file_or_empty fs p).
Proof.
  intros H. unfold file_or_empty. destruct (alookup p fs) eqn:E; [eauto|apply wf_file_nil].
Qed.

Lemma lookup_slot_none_file fs p id :
  lookup_slot fs p id = None -> get_prev id (file_or_empty fs p) = None.
Proof.
  unfold lookup_slot, file_or_empty. destruct (alookup p fs); [auto|intros _; apply get_prev_nil].
Qed.

Lemma wf_fs_aset fs p f : wf_fs fs -> wf_file f -> wf_fs (aset p f fs).
Proof.
  intros H Hf q g. destruct (beq_spec q p) as [->|Hne].
  - rewrite alookup_aset_same. now intros [= <-].
  - rewrite alookup_aset_other by assumption. apply H.
Qed.

(* appending a new entry: the new slot replays its value, every fact keeps holding *)
Lemma add_preserves fs p id snap :
  wf_fs fs -> safe_line id -> safe_text snap ->
  forall fct, holds fs fct ->
  holds (aset p (add_entry id snap (file_or_empty fs p)) fs) fct.
Proof.
  intros Hwf Hid Hsn [[[p' id'] a'] t'] [prev [n [Hl Hs]]].
  exists prev, n. split; [|assumption].
  unfold lookup_slot in *. destruct (beq_spec p' p) as [->|Hne].
  - rewrite alookup_aset_same. unfold file_or_empty.
    destruct (alookup p fs) as [f|] eqn:E; [|discriminate].
    apply get_prev_add_other; eauto.
  - now rewrite alookup_aset_other.
Qed.

Lemma add_holds fs p id a text :
  wf_fs fs -> safe_line id -> id <> [] -> id <> endseq -> value_ok a text ->
  lookup_slot fs p id = None ->
  holds (aset p (add_entry id (snap_of a text) (file_or_empty fs p)) fs) (p, id, a, text).
Proof.
  intros Hwf Hid Hne Hnend Hv Hnone.
  destruct (snap_of_ok _ _ Hv) as [Hs He].
  destruct (get_prev_add_new (file_or_empty fs p) id (snap_of a text)) as [n Hn]; auto.
  - now apply wf_fs_file_or_empty.
  - now apply lookup_slot_none_file.
  - exists (snap_of a text), n. split; [|apply same_snap].
    unfold lookup_slot. now rewrite alookup_aset_same.
Qed.

(* ---------- one call ---------- *)

Lemma outcome_neq_helper : Passed <> Added /\ Updated <> Added /\ Updated <> Passed.
Proof. repeat split; discriminate. Qed.

(* a call that ends in `added`: its slot now replays the value; nothing else changed *)
Lemma multi_added s a c test text s' o :
  is_standalone a = false -> no_nl test -> value_ok a text -> wf_fs (s_fs s) ->
  multi_call s a c test (POk text) = (s', o) -> o_outcome o = Added ->
  holds (s_fs s') (multi_path s c test, multi_id s c test, a, text) /\
  wf_fs (s_fs s') /\ (forall fct, holds (s_fs s) fct -> holds (s_fs s') fct).
Proof.
  intros Hst Hnl Hv Hwf Hc Ho.
  destruct (multi_call_spec s a c test text Hst) as [s2 [o2 [E [_ [_ [_ [_ [_ [_ [_ [Hm _]]]]]]]]]]].
  rewrite Hc in E. injection E as <- <-.
  destruct (snap_of_ok _ _ Hv) as [Hs He].
  assert (Hid : safe_line (multi_id s c test)) by now apply header_safe.
  destruct (lookup_slot (s_fs s) (multi_path s c test) (multi_id s c test)) as [[prev line]|] eqn:El.
  - destruct (same a prev text).
    + destruct Hm as [Hm _]. congruence.
    + destruct (should_update _ _); destruct Hm as [Hm _]; congruence.
  - destruct (should_create _ _); [|destruct Hm as [Hm _]; congruence].
    destruct Hm as [_ [_ Hfs]]. rewrite Hfs. repeat split.
    + apply add_holds; auto; unfold multi_id; [apply header_nonempty|apply header_not_endseq].
    + apply wf_fs_aset; [assumption|]. apply wf_file_add; auto. now apply wf_fs_file_or_empty.
    + now apply add_preserves.
Qed.

Lemma multi_passed s a c test text s' o :
  is_standalone a = false ->
  multi_call s a c test (POk text) = (s', o) -> o_outcome o = Passed ->
  holds (s_fs s) (multi_path s c test, multi_id s c test, a, text) /\ s_fs s' = s_fs s.
Proof.
  intros Hst Hc Ho.
  destruct (multi_call_spec s a c test text Hst) as [s2 [o2 [E [_ [_ [_ [_ [_ [_ [_ [Hm _]]]]]]]]]]].
  rewrite Hc in E. injection E as <- <-.
  unfold holds.
  destruct (lookup_slot (s_fs s) (multi_path s c test) (multi_id s c test)) as [[prev line]|] eqn:El.
  - destruct (same a prev text) eqn:Es.
    + destruct Hm as [_ [_ [Hfs _]]]. split; [eauto|assumption].
    + destruct (should_update _ _); destruct Hm as [Hm _]; congruence.
  - destruct (should_create _ _); destruct Hm as [Hm _]; congruence.
Qed.

(* replay of a holding fact: passes silently, in every mode, without writing *)
Lemma multi_replay s a c test text :
  is_standalone a = false ->
  holds (s_fs s) (multi_path s c test, multi_id s c test, a, text) ->
  exists s' o, multi_call s a c test (POk text) = (s', o) /\
    o_outcome o = Passed /\ o_errors o = 0 /\ o_logs o = [] /\ o_writes o = [] /\
    s_fs s' = s_fs s.
Proof.
  intros Hst [prev [n [Hl Hs]]].
  destruct (multi_call_spec s a c test text Hst)
    as [s2 [o2 [E [_ [_ [_ [_ [_ [_ [_ [Hm [_ [He Hlg]]]]]]]]]]]]].
  rewrite Hl, Hs in Hm. destruct Hm as [Ho [Hw [Hfs _]]].
  exists s2, o2. rewrite Ho in He, Hlg. repeat split; assumption.
Qed.
