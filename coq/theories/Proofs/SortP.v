(* SortP: sorting by a boolean comparator (generic), what the natural order is on the ids
   go-snaps writes, and idempotence of Clean with sorting. *)
From Coq Require Import String.
From Coq Require Import List NArith Arith Bool Lia Permutation Sorted.
From Coq Require DecimalNat.
Import ListNotations.
From Snaps Require Import Base.Bytes Base.Lines Base.Dec Base.Assoc.
From Snaps Require Import Model.Frame Model.PathModel Model.Mode Model.Api Model.Natural Model.Clean.
From Snaps Require Import Proofs.BytesP Proofs.DecP Proofs.LinesP Proofs.FrameP Proofs.CleanEntriesP.

(* ====================================================================================== *)
(* Part 1 - sorting by a boolean comparator                                               *)
(* ====================================================================================== *)

Section SortGeneric.
  Context {A : Type} (lt : A -> A -> bool).

  (* on the elements of [l], [lt] is a strict total order *)
  Definition total_on (l : list A) : Prop :=
    (forall x, In x l -> lt x x = false) /\
    (forall x y z, In x l -> In y l -> In z l -> lt x y = true -> lt y z = true -> lt x z = true) /\
    (forall x y, In x l -> In y l -> x <> y -> lt x y = negb (lt y x)).

  (* slices.IsSortedFunc: no adjacent pair is out of order *)
  Fixpoint adj_sorted (l : list A) : bool :=
    match l with
    | x :: ((y :: _) as r) => negb (lt y x) && adj_sorted r
    | _ => true
    end.

  Fixpoint insert (x : A) (l : list A) : list A :=
    match l with
    | [] => [x]
    | y :: r => if lt x y then x :: l else y :: insert x r
    end.
  Definition isort (l : list A) : list A := fold_right insert [] l.

  (* ---------- boolean version of total_on ---------- *)

  Section Decide.
    Variable eqb : A -> A -> bool.
    Hypothesis eqb_ok : forall x y, eqb x y = true <-> x = y.

    Definition total_onb (l : list A) : bool :=
      forallb (fun x => negb (lt x x)) l &&
      forallb (fun x => forallb (fun y => forallb (fun z =>
                 implb (lt x y && lt y z) (lt x z)) l) l) l &&
      forallb (fun x => forallb (fun y => eqb x y || xorb (lt x y) (lt y x)) l) l.

    Lemma total_onb_spec l : total_onb l = true <-> total_on l.
    Proof.
      unfold total_onb, total_on. rewrite !andb_true_iff. rewrite !forallb_forall.
      split.
      - intros [[Hirr Htr] Htot]. split; [|split].
        + intros x Hx. specialize (Hirr x Hx). now destruct (lt x x).
        + intros x y z Hx Hy Hz Hxy Hyz. specialize (Htr x Hx).
          rewrite forallb_forall in Htr. specialize (Htr y Hy).
          rewrite forallb_forall in Htr. specialize (Htr z Hz).
          rewrite Hxy, Hyz in Htr. exact Htr.
        + intros x y Hx Hy Hne. specialize (Htot x Hx).
          rewrite forallb_forall in Htot. specialize (Htot y Hy).
          destruct (eqb x y) eqn:E; [apply eqb_ok in E; contradiction|].
          cbn [orb] in Htot. now destruct (lt x y), (lt y x).
      - intros [Hirr [Htr Htot]]. split; [split|].
        + intros x Hx. now rewrite (Hirr x Hx).
        + intros x Hx. apply forallb_forall. intros y Hy. apply forallb_forall. intros z Hz.
          destruct (lt x y) eqn:Hxy; [|reflexivity].
          destruct (lt y z) eqn:Hyz; [|reflexivity].
          cbn [andb]. now rewrite (Htr x y z Hx Hy Hz Hxy Hyz).
        + intros x Hx. apply forallb_forall. intros y Hy.
          destruct (eqb x y) eqn:E; [reflexivity|]. cbn [orb].
          assert (Hne : x <> y) by (intros Heq; apply eqb_ok in Heq; congruence).
          rewrite (Htot x y Hx Hy Hne). now destruct (lt y x).
    Qed.
  End Decide.

  (* ---------- elementary facts ---------- *)

  Lemma total_on_incl l l' : incl l' l -> total_on l -> total_on l'.
  Proof.
    intros Hi [Hirr [Htr Htot]]. split; [|split].
    - intros x Hx. apply Hirr. now apply Hi.
    - intros x y z Hx Hy Hz. apply Htr; now apply Hi.
    - intros x y Hx Hy. apply Htot; now apply Hi.
  Qed.

  Lemma total_on_perm l l' : Permutation l l' -> total_on l -> total_on l'.
  Proof.
    intros Hp. apply total_on_incl. intros x Hx. apply (Permutation_in _ (Permutation_sym Hp) Hx).
  Qed.

  Lemma total_on_tail x l : total_on (x :: l) -> total_on l.
  Proof. apply total_on_incl. intros y Hy. now right. Qed.

  Lemma total_on_asym l x y : total_on l -> In x l -> In y l -> lt x y = true -> lt y x = false.
  Proof.
    intros [Hirr [_ Htot]] Hx Hy Hxy.
    destruct (lt y x) eqn:Hyx; [|reflexivity].
    assert (Hxx : lt x x = false) by now apply Hirr.
    (* x <> y, else lt x x = true *)
    assert (Hne : x <> y) by (intros ->; congruence).
    rewrite (Htot x y Hx Hy Hne), Hyx in Hxy. discriminate.
  Qed.

  Definition hd_ok (y : A) (l : list A) : bool :=
    match l with [] => true | z :: _ => negb (lt z y) end.

  Lemma adj_sorted_cons y l : adj_sorted (y :: l) = hd_ok y l && adj_sorted l.
  Proof. destruct l; reflexivity. Qed.

  Lemma adj_sorted_tail y l : adj_sorted (y :: l) = true -> adj_sorted l = true.
  Proof. rewrite adj_sorted_cons. intros H. now apply andb_prop in H. Qed.

  Lemma insert_perm x l : Permutation (insert x l) (x :: l).
  Proof.
    induction l as [|y l IH]; [reflexivity|]. cbn [insert].
    destruct (lt x y); [reflexivity|]. rewrite IH. apply perm_swap.
  Qed.

  Lemma isort_perm l : Permutation (isort l) l.
  Proof.
    induction l as [|x l IH]; [reflexivity|]. unfold isort in *. cbn [fold_right].
    rewrite insert_perm. now constructor.
  Qed.

  Lemma filter_perm (p : A -> bool) l l' : Permutation l l' -> Permutation (filter p l) (filter p l').
  Proof.
    intros H. induction H as [|x l l' H IH|x y l|l l' l'' H1 IH1 H2 IH2]; cbn [filter].
    - reflexivity.
    - destruct (p x); [now constructor|assumption].
    - destruct (p x), (p y); try reflexivity. apply perm_swap.
    - etransitivity; eassumption.
  Qed.

  (* ---------- insertion keeps the adjacent test ---------- *)

  Lemma hd_ok_insert x y r : lt x y = false -> hd_ok y r = true -> hd_ok y (insert x r) = true.
  Proof.
    intros Hxy Hr. destruct r as [|z r]; cbn [insert hd_ok]; [now rewrite Hxy|].
    destruct (lt x z); cbn [hd_ok]; [now rewrite Hxy|exact Hr].
  Qed.

  Lemma insert_sorted x l :
    total_on (x :: l) -> adj_sorted l = true -> adj_sorted (insert x l) = true.
  Proof.
    induction l as [|y l IH]; intros Htot Hs; [reflexivity|].
    cbn [insert]. destruct (lt x y) eqn:Hxy.
    - rewrite adj_sorted_cons. cbn [hd_ok].
      rewrite (total_on_asym (x :: y :: l) x y Htot) by (cbn; auto). now rewrite Hs.
    - rewrite adj_sorted_cons in Hs. apply andb_prop in Hs as [Hh Hs].
      rewrite adj_sorted_cons. rewrite hd_ok_insert by assumption.
      rewrite IH; [reflexivity| |assumption].
      revert Htot. apply total_on_incl. intros z [->|Hz]; cbn; auto.
  Qed.

  Theorem isort_sorted l : total_on l -> adj_sorted (isort l) = true.
  Proof.
    induction l as [|x l IH]; intros Htot; [reflexivity|].
    unfold isort in *. cbn [fold_right]. apply insert_sorted.
    - revert Htot. apply total_on_perm. constructor. symmetry. apply isort_perm.
    - apply IH. now apply total_on_tail in Htot.
  Qed.

  (* ---------- a sorted list is a fixpoint of the sort ---------- *)

  Theorem isort_fixpoint l : total_on l -> NoDup l -> adj_sorted l = true -> isort l = l.
  Proof.
    induction l as [|x l IH]; intros Htot Hnd Hs; [reflexivity|].
    inversion Hnd as [|? ? Hnotin Hnd']; subst.
    unfold isort in *. cbn [fold_right].
    rewrite IH; [|now apply total_on_tail in Htot|assumption|now apply adj_sorted_tail in Hs].
    destruct l as [|y l]; [reflexivity|]. cbn [insert].
    cbn [adj_sorted] in Hs. apply andb_prop in Hs as [Hyx _].
    destruct Htot as [_ [_ Ht]].
    assert (Hne : x <> y) by (intros ->; apply Hnotin; now left).
    rewrite (Ht x y) by (cbn; auto). now rewrite Hyx.
  Qed.

  (* ---------- adjacent-sorted = strongly sorted, on a strict total order ---------- *)

  Definition slt (x y : A) : Prop := lt x y = true.

  Lemma adj_sorted_strongly l :
    total_on l -> NoDup l -> adj_sorted l = true -> StronglySorted slt l.
  Proof.
    induction l as [|x l IH]; intros Htot Hnd Hs; [constructor|].
    inversion Hnd as [|? ? Hnotin Hnd']; subst.
    assert (Hl : StronglySorted slt l).
    { apply IH; [now apply total_on_tail in Htot|assumption|now apply adj_sorted_tail in Hs]. }
    constructor; [assumption|].
    destruct l as [|y l]; [constructor|].
    cbn [adj_sorted] in Hs. apply andb_prop in Hs as [Hyx _].
    assert (Hne : x <> y) by (intros ->; apply Hnotin; now left).
    assert (Hxy : lt x y = true).
    { destruct Htot as [_ [_ Ht]]. rewrite (Ht x y) by (cbn; auto). now rewrite Hyx. }
    constructor; [exact Hxy|].
    apply StronglySorted_inv in Hl as [_ Hall].
    rewrite Forall_forall in *. intros z Hz.
    destruct Htot as [_ [Htr _]]. apply (Htr x y z); cbn; auto. now apply Hall.
  Qed.

  Lemma strongly_adj_sorted l : total_on l -> StronglySorted slt l -> adj_sorted l = true.
  Proof.
    induction l as [|x l IH]; intros Htot Hs; [reflexivity|].
    apply StronglySorted_inv in Hs as [Hl Hall].
    rewrite adj_sorted_cons. rewrite IH; [|now apply total_on_tail in Htot|assumption].
    destruct l as [|y l]; [reflexivity|]. cbn [hd_ok].
    inversion Hall as [|? ? Hxy _]; subst.
    rewrite (total_on_asym (x :: y :: l) x y Htot) by (cbn; auto). reflexivity.
  Qed.

  Lemma strongly_filter (p : A -> bool) l : StronglySorted slt l -> StronglySorted slt (filter p l).
  Proof.
    induction l as [|x l IH]; intros Hs; [constructor|].
    apply StronglySorted_inv in Hs as [Hl Hall]. cbn [filter].
    destruct (p x); [|now apply IH].
    constructor; [now apply IH|].
    rewrite Forall_forall in *. intros z Hz. apply filter_In in Hz as [Hz _]. now apply Hall.
  Qed.

  Lemma strongly_perm_unique l : forall l',
    total_on l -> StronglySorted slt l -> StronglySorted slt l' -> Permutation l l' -> l = l'.
  Proof.
    induction l as [|x l IH]; intros l' Htot Hs Hs' Hp.
    - apply Permutation_nil in Hp. now subst.
    - destruct l' as [|x' l']; [apply Permutation_sym, Permutation_nil in Hp; discriminate|].
      apply StronglySorted_inv in Hs as [Hl Hall].
      apply StronglySorted_inv in Hs' as [Hl' Hall'].
      rewrite Forall_forall in Hall, Hall'.
      assert (Hx' : In x' (x :: l)) by (apply (Permutation_in _ (Permutation_sym Hp)); now left).
      assert (Hx : In x (x' :: l')) by (apply (Permutation_in _ Hp); now left).
      assert (Heq : x = x').
      { destruct Hx as [Hx|Hx]; [now symmetry|].
        destruct Hx' as [Hx'|Hx']; [assumption|].
        exfalso. specialize (Hall x' Hx'). specialize (Hall' x Hx). unfold slt in *.
        rewrite (total_on_asym (x :: l) x x' Htot) in Hall'; [discriminate|now left|now right|assumption]. }
      subst x'. f_equal. apply Permutation_cons_inv in Hp.
      apply IH; [now apply total_on_tail in Htot|assumption|assumption|assumption].
  Qed.

  (* ---------- main theorems ---------- *)

  (* two sorted arrangements of the same distinct elements coincide: every correct sorting
     algorithm returns the list the insertion sort returns *)
  Theorem sorted_perm_unique l l' :
    total_on l -> NoDup l -> Permutation l l' ->
    adj_sorted l = true -> adj_sorted l' = true -> l = l'.
  Proof.
    intros Htot Hnd Hp Hs Hs'.
    apply strongly_perm_unique; [assumption| | |assumption].
    - now apply adj_sorted_strongly.
    - apply adj_sorted_strongly; [now apply (total_on_perm l)|now apply (Permutation_NoDup Hp)|assumption].
  Qed.

  Theorem isort_order_independent l l' :
    total_on l -> NoDup l -> Permutation l l' -> isort l = isort l'.
  Proof.
    intros Htot Hnd Hp.
    assert (Hp1 : Permutation l (isort l)) by (symmetry; apply isort_perm).
    apply sorted_perm_unique.
    - now apply (total_on_perm l).
    - now apply (Permutation_NoDup Hp1).
    - rewrite isort_perm, Hp. symmetry. apply isort_perm.
    - now apply isort_sorted.
    - apply isort_sorted. now apply (total_on_perm l).
  Qed.

  Theorem filter_sorted (p : A -> bool) l :
    total_on l -> NoDup l -> adj_sorted l = true -> adj_sorted (filter p l) = true.
  Proof.
    intros Htot Hnd Hs. apply strongly_adj_sorted.
    - revert Htot. apply total_on_incl. intros x Hx. now apply filter_In in Hx.
    - apply strongly_filter. now apply adj_sorted_strongly.
  Qed.

  (* sorting commutes with filtering *)
  Theorem filter_isort (p : A -> bool) l :
    total_on l -> NoDup l -> filter p (isort l) = isort (filter p l).
  Proof.
    intros Htot Hnd.
    assert (Hp1 : Permutation l (isort l)) by (symmetry; apply isort_perm).
    assert (Hi : incl (filter p l) l) by (intros x Hx; now apply filter_In in Hx).
    apply sorted_perm_unique.
    - apply (total_on_incl (isort l)); [intros x Hx; now apply filter_In in Hx|now apply (total_on_perm l)].
    - apply NoDup_filter. now apply (Permutation_NoDup Hp1).
    - transitivity (filter p l); [apply filter_perm, isort_perm|symmetry; apply isort_perm].
    - apply filter_sorted; [now apply (total_on_perm l)|now apply (Permutation_NoDup Hp1)|now apply isort_sorted].
    - apply isort_sorted. now apply (total_on_incl l).
  Qed.

End SortGeneric.

(* sorting commutes with an order-embedding *)
Lemma isort_map {A B : Type} (ltA : A -> A -> bool) (ltB : B -> B -> bool) (f : A -> B) (l : list A) :
  (forall x y, In x l -> In y l -> ltB (f x) (f y) = ltA x y) ->
  isort ltB (map f l) = map f (isort ltA l).
Proof.
  intros Hf.
  assert (Hins : forall x r, In x l -> incl r l -> insert ltB (f x) (map f r) = map f (insert ltA x r)).
  { intros x r Hx. induction r as [|y r IH]; intros Hi; [reflexivity|].
    cbn [map insert]. rewrite Hf by (auto; apply Hi; now left).
    destruct (ltA x y); [reflexivity|]. cbn [map]. rewrite IH; [reflexivity|].
    intros z Hz. apply Hi. now right. }
  assert (H : forall r, incl r l -> isort ltB (map f r) = map f (isort ltA r)).
  { induction r as [|x r IH]; intros Hi; [reflexivity|].
    unfold isort in *. cbn [map fold_right]. rewrite IH by (intros z Hz; apply Hi; now right).
    apply Hins; [apply Hi; now left|].
    intros z Hz. apply Hi. right. apply (Permutation_in _ (isort_perm ltA r) Hz). }
  apply H. apply incl_refl.
Qed.

(* ---------- instantiation: naturalSort / slices.IsSortedFunc / sort_nat ---------- *)

Lemma is_sorted_nat_adj l : is_sorted_nat l = adj_sorted nat_lt l.
Proof. reflexivity. Qed.

Lemma sort_nat_isort l : sort_nat l = isort nat_lt l.
Proof. reflexivity. Qed.

Definition total_nat_b (l : list bytes) : bool := total_onb nat_lt beq l.

Lemma total_nat_b_spec l : total_nat_b l = true <-> total_on nat_lt l.
Proof. apply total_onb_spec. apply beq_eq. Qed.

Theorem sort_nat_sorted l : total_on nat_lt l -> is_sorted_nat (sort_nat l) = true.
Proof. apply isort_sorted. Qed.

Theorem sort_nat_fixpoint l :
  total_on nat_lt l -> NoDup l -> is_sorted_nat l = true -> sort_nat l = l.
Proof. apply isort_fixpoint. Qed.

Theorem sorted_perm_unique_nat l l' :
  total_on nat_lt l -> NoDup l -> Permutation l l' ->
  is_sorted_nat l = true -> is_sorted_nat l' = true -> l = l'.
Proof. apply sorted_perm_unique. Qed.

Theorem sort_nat_order_independent l l' :
  total_on nat_lt l -> NoDup l -> Permutation l l' -> sort_nat l = sort_nat l'.
Proof. apply isort_order_independent. Qed.

Theorem filter_sorted_nat (p : bytes -> bool) l :
  total_on nat_lt l -> NoDup l -> is_sorted_nat l = true -> is_sorted_nat (filter p l) = true.
Proof. apply filter_sorted. Qed.

Theorem filter_sort_nat (p : bytes -> bool) l :
  total_on nat_lt l -> NoDup l -> filter p (sort_nat l) = sort_nat (filter p l).
Proof. apply filter_isort. Qed.

(* ====================================================================================== *)
(* Part 2 - the natural order on the ids go-snaps writes                                   *)
(* ====================================================================================== *)

(* the loop body of natural.Less after the common prefix has been removed *)
Definition less_body (f : nat) (a b : bytes) : bool :=
  match a with
  | [] => match b with [] => false | _ => true end
  | _ =>
    let ia := digits_len a in
    let ib := digits_len b in
    if Nat.ltb 0 ia && Nat.ltb 0 ib then
      match parse_uint64 (firstn ia a), parse_uint64 (firstn ib b) with
      | Some an, Some bn =>
          if negb (N.eqb an bn) then N.ltb an bn
          else if negb (Nat.eqb ia (length a)) && negb (Nat.eqb ib (length b))
               then less_fuel f (skipn ia a) (skipn ib b)
               else bytes_ltb a b
      | _, _ => bytes_ltb a b
      end
    else bytes_ltb a b
  end.

Lemma less_fuel_S f a b :
  less_fuel (S f) a b =
  less_body f (skipn (common_prefix a b) a) (skipn (common_prefix a b) b).
Proof. reflexivity. Qed.

Lemma less_body_fuel f1 f2 a b :
  (forall a' b', length a' < length a -> less_fuel f1 a' b' = less_fuel f2 a' b') ->
  less_body f1 a b = less_body f2 a b.
Proof.
  intros H. unfold less_body. destruct a as [|c a0]; [reflexivity|].
  remember (c :: a0) as a eqn:Ea. cbv zeta.
  destruct (Nat.ltb 0 (digits_len a)) eqn:E1; [|reflexivity]. cbn [andb].
  destruct (Nat.ltb 0 (digits_len b)); [|reflexivity].
  destruct (parse_uint64 (firstn (digits_len a) a)) as [an|]; [|reflexivity].
  destruct (parse_uint64 (firstn (digits_len b) b)) as [bn|]; [|reflexivity].
  destruct (negb (N.eqb an bn)); [reflexivity|].
  destruct (negb (Nat.eqb (digits_len a) (length a)) && negb (Nat.eqb (digits_len b) (length b)));
    [|reflexivity].
  apply H. rewrite skipn_length. apply Nat.ltb_lt in E1. subst a. cbn [length]. lia.
Qed.

(* 5. the fuel is irrelevant once it exceeds the length of the left argument *)
Theorem less_fuel_indep : forall f1 f2 a b,
  length a < f1 -> length a < f2 -> less_fuel f1 a b = less_fuel f2 a b.
Proof.
  induction f1 as [|f1 IH]; intros f2 a b H1 H2; [lia|].
  destruct f2 as [|f2]; [lia|].
  rewrite !less_fuel_S. apply less_body_fuel.
  intros a' b' Hlen. rewrite skipn_length in Hlen. apply IH; lia.
Qed.

Lemma natural_less_fuel f a b : length a < f -> less_fuel f a b = natural_less a b.
Proof. intros H. unfold natural_less. apply less_fuel_indep; lia. Qed.

(* ---------- 6. ParseUint on the decimal rendering ---------- *)

Lemma parse_uint64_unfold s :
  parse_uint64 s =
  if N.ltb (fold_left (fun acc c => (acc * 10 + (c - 48))%N) s 0%N) 18446744073709551616%N
  then Some (fold_left (fun acc c => (acc * 10 + (c - 48))%N) s 0%N) else None.
Proof. reflexivity. Qed.

Lemma parse_fold_uint u : forall acc,
  fold_left (fun acc c => (acc * 10 + (c - 48))%N) (uint_bytes u) (N.of_nat acc) =
  N.of_nat (Nat.of_uint_acc u acc).
Proof.
  induction u as [|u IH|u IH|u IH|u IH|u IH|u IH|u IH|u IH|u IH|u IH]; intros acc;
    cbn [uint_bytes fold_left Nat.of_uint_acc]; [reflexivity|..];
    rewrite <- IH; f_equal; rewrite Nat.tail_mul_spec; lia.
Qed.

Definition in_range (k : nat) : Prop := (N.of_nat k < 2 ^ 64)%N.

Theorem parse_uint64_dec k : in_range k -> parse_uint64 (dec k) = Some (N.of_nat k).
Proof.
  unfold in_range. change (2 ^ 64)%N with 18446744073709551616%N. intros Hk.
  rewrite parse_uint64_unfold. unfold dec.
  change 0%N with (N.of_nat 0). rewrite parse_fold_uint.
  change (Nat.of_uint_acc (Nat.to_uint k) 0) with (Nat.of_uint (Nat.to_uint k)).
  rewrite DecimalNat.Unsigned.of_to.
  apply N.ltb_lt in Hk. now rewrite Hk.
Qed.

(* ---------- digits, prefixes ---------- *)

Lemma digits_len_all d : forallb is_digit d = true -> digits_len d = length d.
Proof.
  induction d as [|c d IH]; intros H; [reflexivity|].
  cbn [forallb] in H. apply andb_prop in H as [Hc Hd]. cbn [digits_len length].
  rewrite Hc. now rewrite IH.
Qed.

Lemma digits_len_app d c r :
  forallb is_digit d = true -> is_digit c = false -> digits_len (d ++ c :: r) = length d.
Proof.
  intros Hd Hc. induction d as [|x d IH].
  - cbn [app]. cbn [digits_len length]. now rewrite Hc.
  - cbn [forallb] in Hd. apply andb_prop in Hd as [Hx Hd].
    cbn [app]. cbn [digits_len length]. rewrite Hx. now rewrite IH.
Qed.

Lemma firstn_app_len {X} (l1 l2 : list X) : firstn (length l1) (l1 ++ l2) = l1.
Proof. induction l1; cbn; [now destruct l2|now f_equal]. Qed.

Lemma skipn_app_len {X} (l1 l2 : list X) : skipn (length l1) (l1 ++ l2) = l2.
Proof. induction l1; cbn; auto. Qed.

Lemma bytes_ltb_irrefl a : bytes_ltb a a = false.
Proof. induction a as [|x a IH]; [reflexivity|]. cbn [bytes_ltb]. now rewrite N.ltb_irrefl. Qed.

Lemma common_prefix_digit c a b : is_digit c = true -> common_prefix (c :: a) b = 0.
Proof. intros Hc. destruct b; [reflexivity|]. cbn [common_prefix]. now rewrite Hc. Qed.

(* a common non-digit byte is skipped *)
Lemma natural_less_cons c a b :
  is_digit c = false -> natural_less (c :: a) (c :: b) = natural_less a b.
Proof.
  intros Hc. unfold natural_less at 1. cbn [length].
  rewrite less_fuel_S. cbn [common_prefix]. rewrite Hc, N.eqb_refl. cbn [orb negb skipn].
  rewrite <- less_fuel_S. apply natural_less_fuel. lia.
Qed.

(* a common digit run that parses, followed by a non-digit on both sides, is skipped *)
Lemma natural_less_run d v c a b :
  d <> [] -> forallb is_digit d = true -> parse_uint64 d = Some v -> is_digit c = false ->
  natural_less (d ++ c :: a) (d ++ c :: b) = natural_less (c :: a) (c :: b).
Proof.
  intros Hne Hd Hp Hc. unfold natural_less at 1. rewrite less_fuel_S.
  assert (Hcp : common_prefix (d ++ c :: a) (d ++ c :: b) = 0).
  { destruct d as [|x d]; [congruence|]. cbn [forallb] in Hd. apply andb_prop in Hd as [Hx _].
    cbn [app]. now apply common_prefix_digit. }
  rewrite Hcp. cbn [skipn]. unfold less_body.
  destruct (d ++ c :: a) as [|x0 r0] eqn:E; [destruct d; discriminate|]. rewrite <- E.
  cbv zeta. rewrite !digits_len_app by assumption.
  rewrite !firstn_app_len, !skipn_app_len, Hp, N.eqb_refl. cbn [negb].
  assert (Hlen : Nat.ltb 0 (length d) = true).
  { apply Nat.ltb_lt. destruct d; [congruence|cbn [length]; lia]. }
  rewrite Hlen. cbn [andb].
  assert (Ha : Nat.eqb (length d) (length (d ++ c :: a)) = false).
  { apply Nat.eqb_neq. rewrite app_length. cbn [length]. lia. }
  assert (Hb : Nat.eqb (length d) (length (d ++ c :: b)) = false).
  { apply Nat.eqb_neq. rewrite app_length. cbn [length]. lia. }
  rewrite Ha, Hb. cbn [negb andb].
  apply natural_less_fuel. rewrite app_length. cbn [length]. apply Nat.ltb_lt in Hlen. lia.
Qed.

(* two all-digit strings that parse: numeric comparison, byte order on a numeric tie *)
Lemma natural_less_digits d e v w :
  d <> [] -> e <> [] -> forallb is_digit d = true -> forallb is_digit e = true ->
  parse_uint64 d = Some v -> parse_uint64 e = Some w ->
  natural_less d e = if N.eqb v w then bytes_ltb d e else N.ltb v w.
Proof.
  intros Hd0 He0 Hd He Hv Hw. unfold natural_less. rewrite less_fuel_S.
  assert (Hcp : common_prefix d e = 0).
  { destruct d as [|x d]; [congruence|]. cbn [forallb] in Hd. apply andb_prop in Hd as [Hx _].
    now apply common_prefix_digit. }
  rewrite Hcp. cbn [skipn]. unfold less_body.
  destruct d as [|x0 r0] eqn:E; [congruence|]. rewrite <- E in *.
  cbv zeta. rewrite (digits_len_all d Hd), (digits_len_all e He), !firstn_all, Hv, Hw.
  assert (Hl1 : Nat.ltb 0 (length d) = true) by (apply Nat.ltb_lt; subst d; cbn [length]; lia).
  assert (Hl2 : Nat.ltb 0 (length e) = true).
  { apply Nat.ltb_lt. destruct e; [congruence|cbn [length]; lia]. }
  rewrite Hl1, Hl2, Nat.eqb_refl. cbn [andb negb].
  destruct (N.eqb v w); reflexivity.
Qed.

Lemma natural_less_dec j k :
  in_range j -> in_range k -> natural_less (dec j) (dec k) = Nat.ltb j k.
Proof.
  intros Hj Hk.
  rewrite (natural_less_digits (dec j) (dec k) (N.of_nat j) (N.of_nat k));
    try apply dec_nonempty; try apply dec_digits; try now apply parse_uint64_dec.
  destruct (N.eqb_spec (N.of_nat j) (N.of_nat k)) as [Heq|Hne].
  - apply Nat2N.inj in Heq. subst k. now rewrite bytes_ltb_irrefl, Nat.ltb_irrefl.
  - destruct (N.ltb_spec (N.of_nat j) (N.of_nat k)), (Nat.ltb_spec j k); try reflexivity; lia.
Qed.

(* ---------- prefixes that natural.Less walks through in lock-step ---------- *)

(* [gpb run p]: scanning [p] with [run] the digit run currently open; every digit run of the
   prefix is closed by a non-digit (so the prefix does not END in a digit) and parses (< 2^64) *)
Fixpoint gpb (run p : bytes) : bool :=
  match p with
  | [] => match run with [] => true | _ => false end
  | c :: r =>
      if is_digit c then gpb (run ++ [c]) r
      else match run with
           | [] => true
           | _ => match parse_uint64 run with Some _ => true | None => false end
           end && gpb [] r
  end.

Definition good_prefix (p : bytes) : Prop := gpb [] p = true.

Definition digit_free (p : bytes) : Prop := forallb (fun c => negb (is_digit c)) p = true.

Lemma digit_free_good p : digit_free p -> good_prefix p.
Proof.
  unfold digit_free, good_prefix. induction p as [|c p IH]; intros H; [reflexivity|].
  cbn [forallb] in H. apply andb_prop in H as [Hc Hp]. cbn [gpb].
  destruct (is_digit c); [discriminate|]. cbn [andb]. now apply IH.
Qed.

Lemma natural_less_gpb : forall p run x y,
  forallb is_digit run = true -> gpb run p = true ->
  natural_less (run ++ p ++ x) (run ++ p ++ y) = natural_less x y.
Proof.
  induction p as [|c p IH]; intros run x y Hrun Hg; cbn [gpb] in Hg.
  - destruct run; [reflexivity|discriminate].
  - destruct (is_digit c) eqn:Hc.
    + specialize (IH (run ++ [c]) x y). rewrite <- !app_assoc in IH. cbn [app] in IH |- *.
      apply IH; [|assumption]. rewrite forallb_app, Hrun. cbn [forallb]. now rewrite Hc.
    + apply andb_prop in Hg as [Hr Hg]. cbn [app].
      transitivity (natural_less (c :: p ++ x) (c :: p ++ y)).
      * destruct run as [|r0 run]; [reflexivity|].
        destruct (parse_uint64 (r0 :: run)) as [v|] eqn:Hp; [|discriminate].
        apply (natural_less_run (r0 :: run) v); [discriminate|assumption|assumption|assumption].
      * rewrite natural_less_cons by assumption. apply (IH [] x y); [reflexivity|assumption].
Qed.

(* a good common prefix does not influence the comparison *)
Theorem natural_less_good_prefix p x y :
  good_prefix p -> natural_less (p ++ x) (p ++ y) = natural_less x y.
Proof. intros Hg. apply (natural_less_gpb p [] x y); [reflexivity|exact Hg]. Qed.

(* ---------- 7. entries of one test are ordered by ordinal ---------- *)

Theorem natural_less_same_test p j k :
  good_prefix p -> in_range j -> in_range k ->
  natural_less (p ++ dec j) (p ++ dec k) = Nat.ltb j k.
Proof. intros Hg Hj Hk. rewrite natural_less_good_prefix by assumption. now apply natural_less_dec. Qed.

Theorem nat_lt_same_test p j k :
  good_prefix p -> in_range j -> in_range k ->
  nat_lt (p ++ dec j) (p ++ dec k) = Nat.ltb j k.
Proof.
  intros Hg Hj Hk. unfold nat_lt. rewrite natural_less_same_test by assumption.
  destruct (Nat.ltb_spec j k) as [Hlt|Hge]; [|apply andb_false_r].
  destruct (beq_spec (p ++ dec j) (p ++ dec k)) as [Heq|Hne]; [|reflexivity].
  apply app_inv_head, dec_inj in Heq. lia.
Qed.

(* the digit-free versions asked for *)
Theorem natural_less_same_test_digit_free p j k :
  forallb (fun c => negb (is_digit c)) p = true ->
  (N.of_nat j < 2 ^ 64)%N -> (N.of_nat k < 2 ^ 64)%N ->
  natural_less (p ++ dec j) (p ++ dec k) = Nat.ltb j k.
Proof. intros Hp. apply natural_less_same_test. now apply digit_free_good. Qed.

Theorem nat_lt_same_test_digit_free p j k :
  forallb (fun c => negb (is_digit c)) p = true ->
  (N.of_nat j < 2 ^ 64)%N -> (N.of_nat k < 2 ^ 64)%N ->
  nat_lt (p ++ dec j) (p ++ dec k) = Nat.ltb j k.
Proof. intros Hp. apply nat_lt_same_test. now apply digit_free_good. Qed.

(* in the shape Clean writes: name ++ " - " ++ ordinal *)
Corollary nat_lt_snapshot_occ name j k :
  good_prefix (name ++ sep) -> in_range j -> in_range k ->
  nat_lt (snapshot_occ_fmt name j) (snapshot_occ_fmt name k) = Nat.ltb j k.
Proof.
  intros Hg Hj Hk. unfold snapshot_occ_fmt. rewrite !app_assoc. now apply nat_lt_same_test.
Qed.

Lemma digit_free_name_sep name : digit_free name -> good_prefix (name ++ sep).
Proof.
  intros H. apply digit_free_good. unfold digit_free in *. rewrite forallb_app, H. reflexivity.
Qed.

(* a test name with digits inside (checked by computation) *)
Example good_prefix_example : good_prefix (B "TestV2/case_10 - ").
Proof. vm_compute. reflexivity. Qed.

Example order_example :
  map (fun k => nat_lt (B "TestV2/case_10 - " ++ dec 9) (B "TestV2/case_10 - " ++ dec k)) [2; 9; 10; 11]
  = [false; false; true; true].
Proof. vm_compute. reflexivity. Qed.

(* ---------- 8. the ids of one test: totality, and what the sort returns ---------- *)

Lemma in_ids p ks x :
  In x (map (fun k => p ++ dec k) ks) -> exists k, x = p ++ dec k /\ In k ks.
Proof. intros H. apply in_map_iff in H as [k [Hk Hin]]. exists k. now split. Qed.

Theorem ids_total_on p ks :
  good_prefix p -> Forall in_range ks -> total_on nat_lt (map (fun k => p ++ dec k) ks).
Proof.
  intros Hg Hr. rewrite Forall_forall in Hr. split; [|split].
  - intros x Hx. apply in_ids in Hx as [k [-> Hk]].
    rewrite nat_lt_same_test by auto. apply Nat.ltb_irrefl.
  - intros x y z Hx Hy Hz.
    apply in_ids in Hx as [i [-> Hi]]. apply in_ids in Hy as [j [-> Hj]]. apply in_ids in Hz as [k [-> Hk]].
    rewrite !nat_lt_same_test by auto. rewrite !Nat.ltb_lt. lia.
  - intros x y Hx Hy Hne.
    apply in_ids in Hx as [i [-> Hi]]. apply in_ids in Hy as [j [-> Hj]].
    rewrite !nat_lt_same_test by auto.
    assert (Hij : i <> j) by (intros ->; now apply Hne).
    destruct (Nat.ltb_spec i j), (Nat.ltb_spec j i); cbn [negb]; try reflexivity; lia.
Qed.

Lemma ids_NoDup p ks : NoDup ks -> NoDup (map (fun k => p ++ dec k) ks).
Proof.
  apply FinFun.Injective_map_NoDup. intros j k H. now apply app_inv_head, dec_inj in H.
Qed.

Lemma ltb_total_on l : total_on Nat.ltb l.
Proof.
  split; [|split].
  - intros x _. apply Nat.ltb_irrefl.
  - intros x y z _ _ _. rewrite !Nat.ltb_lt. lia.
  - intros x y _ _ Hne. destruct (Nat.ltb_spec x y), (Nat.ltb_spec y x); cbn [negb]; try reflexivity; lia.
Qed.

Lemma strongly_slt_lt l : StronglySorted (slt Nat.ltb) l -> StronglySorted Nat.lt l.
Proof.
  induction 1 as [|x l Hl IH Hall]; constructor; [assumption|].
  rewrite Forall_forall in *. intros y Hy. apply Nat.ltb_lt. now apply Hall.
Qed.

(* the sort puts the entries of one test in increasing ordinal order *)
Theorem sort_nat_same_test p ks :
  good_prefix p -> Forall in_range ks ->
  sort_nat (map (fun k => p ++ dec k) ks) = map (fun k => p ++ dec k) (isort Nat.ltb ks).
Proof.
  intros Hg Hr. rewrite sort_nat_isort. apply isort_map.
  rewrite Forall_forall in Hr. intros j k Hj Hk. apply nat_lt_same_test; auto.
Qed.

Theorem isort_ltb_increasing ks :
  NoDup ks -> Permutation ks (isort Nat.ltb ks) /\ StronglySorted Nat.lt (isort Nat.ltb ks).
Proof.
  intros Hnd. assert (Hp : Permutation ks (isort Nat.ltb ks)) by (symmetry; apply isort_perm).
  split; [assumption|]. apply strongly_slt_lt. apply adj_sorted_strongly.
  - apply ltb_total_on.
  - now apply (Permutation_NoDup Hp).
  - apply isort_sorted. apply ltb_total_on.
Qed.

Corollary sort_nat_same_test_increasing p ks :
  good_prefix p -> Forall in_range ks -> NoDup ks ->
  exists ks', Permutation ks ks' /\ StronglySorted Nat.lt ks' /\
              sort_nat (map (fun k => p ++ dec k) ks) = map (fun k => p ++ dec k) ks'.
Proof.
  intros Hg Hr Hnd. exists (isort Nat.ltb ks).
  destruct (isort_ltb_increasing ks Hnd) as [Hp Hs].
  split; [assumption|]. split; [assumption|]. now apply sort_nat_same_test.
Qed.

Corollary sort_nat_same_test_digit_free p ks :
  forallb (fun c => negb (is_digit c)) p = true ->
  Forall (fun k => (N.of_nat k < 2 ^ 64)%N) ks -> NoDup ks ->
  total_on nat_lt (map (fun k => p ++ dec k) ks) /\
  exists ks', Permutation ks ks' /\ StronglySorted Nat.lt ks' /\
              sort_nat (map (fun k => p ++ dec k) ks) = map (fun k => p ++ dec k) ks'.
Proof.
  intros Hp Hr Hnd. apply digit_free_good in Hp. split.
  - now apply ids_total_on.
  - now apply sort_nat_same_test_increasing.
Qed.

(* ---------- 9. the order is NOT total in general ---------- *)

Local Open Scope string_scope.

(* not transitive: x01a < x1 < x1a, yet x01a and x1a are incomparable (neither is less) *)
Theorem nat_lt_not_total :
  exists a b c : bytes,
    nat_lt a b = true /\ nat_lt b c = true /\ nat_lt a c = false /\ nat_lt c a = false /\ a <> c.
Proof.
  exists (B "x01a"), (B "x1"), (B "x1a"). repeat split; try (vm_compute; reflexivity). discriminate.
Qed.

Corollary nat_lt_not_total_on : exists l, NoDup l /\ ~ total_on nat_lt l.
Proof.
  exists [B "x01a"; B "x1"; B "x1a"]. split.
  - repeat constructor; cbn [In]; intros H; repeat destruct H as [H|H]; try discriminate H; exact H.
  - intros H. apply total_nat_b_spec in H. vm_compute in H. discriminate.
Qed.

(* a cycle through a digit run >= 2^64 (byte-order fallback): a2 < a17 < a18446744073709551616 < a2 *)
Theorem nat_lt_cycle :
  exists a b c : bytes, nat_lt a b = true /\ nat_lt b c = true /\ nat_lt c a = true.
Proof.
  exists (B "a2"), (B "a17"), (B "a18446744073709551616"). repeat split; vm_compute; reflexivity.
Qed.

(* ids go-snaps can actually write (two tests Test01 and Test1 of one package): distinct, but
   neither is less than the other - so BOTH arrangements pass slices.IsSortedFunc, uniqueness of
   the sorted list fails, and the relative position of such entries depends on the algorithm
   (the insertion sort of the model even swaps them: an already sorted list is then NOT a fixpoint,
   so [sort_nat_fixpoint] needs its totality hypothesis; Clean itself never sorts a list that
   passes the test) *)
Theorem nat_lt_incomparable_real_ids :
  let a := snapshot_occ_fmt (B "Test01") 1 in
  let b := snapshot_occ_fmt (B "Test1") 1 in
  a <> b /\ nat_lt a b = false /\ nat_lt b a = false /\
  is_sorted_nat [a; b] = true /\ is_sorted_nat [b; a] = true /\
  sort_nat [a; b] = [b; a] /\ sort_nat [b; a] = [a; b].
Proof.
  cbv zeta. split; [intros H; vm_compute in H; discriminate H|].
  repeat split; vm_compute; reflexivity.
Qed.

Local Close Scope string_scope.

(* ====================================================================================== *)
(* Part 3 - Clean with sorting, run twice                                                  *)
(* ====================================================================================== *)

(* the entries Clean keeps in the rewritten file, as a predicate on ids *)
Definition stays (reg skp : list bytes) (update : bool) (id : bytes) : bool :=
  keep_id reg skp id || negb update.

(* the order in which Clean emits: sorted iff sorting is requested and the ids are not sorted yet *)
Definition emit_ids (sort : bool) (ids : list bytes) : list bytes :=
  if sort && negb (is_sorted_nat ids) then sort_nat ids else ids.

Definition out_entries (reg skp : list bytes) (update sort : bool) (es : list centry) : list centry :=
  flat_map (pick (stay reg skp update es)) (emit_ids sort (map fst es)).

Lemma map_fst_filter {X Y : Type} (g : X -> bool) (l : list (X * Y)) :
  map fst (filter (fun e => g (fst e)) l) = filter g (map fst l).
Proof.
  induction l as [|e l IH]; [reflexivity|]. cbn [filter map].
  destruct (g (fst e)); cbn [map]; now rewrite IH.
Qed.

Lemma obsolete_ids reg skp (es : list centry) :
  map fst (filter (fun e => negb (kept reg skp e)) es) =
  filter (fun id => negb (keep_id reg skp id)) (map fst es).
Proof. exact (map_fst_filter (fun id => negb (keep_id reg skp id)) es). Qed.

Lemma filter_all {X : Type} (g : X -> bool) (l : list X) : (forall x, g x = true) -> filter g l = l.
Proof. intros H. induction l as [|x l IH]; [reflexivity|]. cbn [filter]. now rewrite H, IH. Qed.

Lemma filter_filter_nil {X : Type} (g h : X -> bool) (l : list X) :
  (forall x, g x = true -> h x = false) -> filter h (filter g l) = [].
Proof.
  intros H. induction l as [|x l IH]; [reflexivity|]. cbn [filter].
  destruct (g x) eqn:E; [cbn [filter]; now rewrite (H x E)|assumption].
Qed.

Lemma flat_map_ext_in {X Y : Type} (f g : X -> list Y) (l : list X) :
  (forall x, In x l -> f x = g x) -> flat_map f l = flat_map g l.
Proof.
  induction l as [|x l IH]; intros H; [reflexivity|]. cbn [flat_map].
  rewrite (H x) by now left. rewrite IH; [reflexivity|]. intros y Hy. apply H. now right.
Qed.

Lemma pick_ids (g : bytes -> bool) (es : list centry) ids :
  NoDup (map fst es) -> incl ids (map fst es) ->
  map fst (flat_map (pick (filter (fun e => g (fst e)) es)) ids) = filter g ids.
Proof.
  intros Hnd. induction ids as [|id ids IH]; intros Hi; [reflexivity|].
  cbn [flat_map filter]. rewrite map_app. unfold centry in *.
  rewrite IH by (intros z Hz; apply Hi; now right).
  assert (Hin : In id (map fst es)) by (apply Hi; now left).
  apply in_map_iff in Hin as [e [He Hin]]. subst id.
  pose proof (find_filter_nodup (fun e0 => g (fst e0)) es e Hnd Hin) as Hf.
  unfold pick. unfold centry in *. rewrite Hf.
  destruct (g (fst e)); reflexivity.
Qed.

Lemma pick_in (st : list centry) ids e : In e (flat_map (pick st) ids) -> In e st.
Proof.
  intros H. apply in_flat_map in H as [id [_ H]]. unfold pick in H.
  destruct (find (fun e0 => beq (fst e0) id) st) as [e'|] eqn:Ef; [|destruct H].
  destruct H as [<-|[]]. now apply find_some in Ef.
Qed.

Lemma emit_ids_perm sort ids : Permutation (emit_ids sort ids) ids.
Proof. unfold emit_ids. destruct (sort && negb (is_sorted_nat ids)); [apply sort_nat_perm|reflexivity]. Qed.

Lemma emit_ids_sorted ids : total_on nat_lt ids -> is_sorted_nat (emit_ids true ids) = true.
Proof.
  intros Htot. unfold emit_ids. cbn [andb].
  destruct (is_sorted_nat ids) eqn:E; cbn [negb]; [assumption|now apply sort_nat_sorted].
Qed.

Lemma emit_ids_true ids : total_on nat_lt ids -> NoDup ids -> emit_ids true ids = sort_nat ids.
Proof.
  intros Htot Hnd. unfold emit_ids. cbn [andb].
  destruct (is_sorted_nat ids) eqn:E; cbn [negb]; [|reflexivity].
  symmetry. now apply sort_nat_fixpoint.
Qed.

Section OutEntries.
  Variables (reg skp : list bytes) (update sort : bool) (es : list centry).
  Hypothesis Hok : Forall centry_ok es.
  Hypothesis Hnd : NoDup (map fst es).

  Lemma out_ids :
    map fst (out_entries reg skp update sort es) =
    filter (stays reg skp update) (emit_ids sort (map fst es)).
  Proof.
    unfold out_entries, stay. apply (pick_ids (stays reg skp update) es); [assumption|].
    intros id Hid. apply (Permutation_in _ (emit_ids_perm sort (map fst es)) Hid).
  Qed.

  Lemma out_incl : incl (out_entries reg skp update sort es) es.
  Proof.
    intros e He. apply pick_in in He. unfold stay in He. now apply filter_In in He.
  Qed.

  Lemma out_ok : Forall centry_ok (out_entries reg skp update sort es).
  Proof.
    rewrite Forall_forall in *. intros e He. apply Hok. now apply out_incl.
  Qed.

  Lemma out_nodup : NoDup (map fst (out_entries reg skp update sort es)).
  Proof.
    rewrite out_ids. apply NoDup_filter.
    apply (Permutation_NoDup (Permutation_sym (emit_ids_perm sort (map fst es))) Hnd).
  Qed.

  (* what a rewriting run returns *)
  Lemma examine_file_rewritten obs nf :
    examine_file reg skp update sort (render (map to_entry es)) = (obs, Some nf) ->
    obs = filter (fun id => negb (keep_id reg skp id)) (map fst es) /\
    nf = render (map to_entry (out_entries reg skp update sort es)) /\
    (update = false -> sort && negb (is_sorted_nat (map fst es)) = true).
  Proof.
    intros H. rewrite examine_file_entries in H by assumption. cbn zeta in H.
    rewrite obsolete_ids in H.
    destruct (negb (update && _) && negb (sort && negb (is_sorted_nat (map fst es)))) eqn:Ec;
      [discriminate|].
    injection H as <- <-. split; [reflexivity|]. split; [reflexivity|].
    intros ->. cbn [andb negb] in Ec. now destruct (sort && negb (is_sorted_nat (map fst es))).
  Qed.
End OutEntries.

(* 10. a second Clean in the same mode does not write the file again.
   ADJUSTMENT with respect to the informal statement "obs' = if update then [] else obs":
   in report-only mode (update = false) the file can only have been rewritten because it was
   sorted, and the second run reports the same stale ids in the order of the rewritten file, i.e.
   in SORTED order: obs' = sort_nat obs (a permutation of obs, equal to obs iff obs was sorted;
   see [report_order_changes] below for a computed instance where obs' <> obs). *)
Theorem clean_sort_idempotent reg skp update sort es obs nf :
  Forall centry_ok es -> NoDup (map fst es) -> total_on nat_lt (map fst es) ->
  examine_file reg skp update sort (render (map to_entry es)) = (obs, Some nf) ->
  examine_file reg skp update sort nf = ((if update then [] else sort_nat obs), None).
Proof.
  intros Hok Hnd Htot H.
  destruct (examine_file_rewritten reg skp update sort es Hok Hnd obs nf H) as [-> [-> Hsorted]].
  clear H.
  set (ids := map fst es) in *.
  set (out := out_entries reg skp update sort es).
  assert (Hout_ids : map fst out = filter (stays reg skp update) (emit_ids sort ids))
    by now apply out_ids.
  assert (Hperm : Permutation ids (emit_ids sort ids)) by (symmetry; apply emit_ids_perm).
  assert (Hobs' : map fst (filter (fun e => negb (kept reg skp e)) out) =
                  if update then [] else sort_nat (filter (fun id => negb (keep_id reg skp id)) ids)).
  { rewrite obsolete_ids, Hout_ids. destruct update.
    - apply filter_filter_nil. intros id Hid. unfold stays in Hid. cbn [negb] in Hid.
      rewrite orb_false_r in Hid. now rewrite Hid.
    - rewrite (filter_all (stays reg skp false)) by (intros id; unfold stays; apply orb_true_r).
      unfold emit_ids. rewrite (Hsorted eq_refl). now apply filter_sort_nat. }
  assert (Hsorted' : sort = true -> is_sorted_nat (map fst out) = true).
  { intros ->. rewrite Hout_ids. apply filter_sorted_nat.
    - now apply (total_on_perm nat_lt ids).
    - now apply (Permutation_NoDup Hperm).
    - now apply emit_ids_sorted. }
  rewrite (examine_file_entries reg skp update sort out)
    by (try apply out_ok; try apply out_nodup; assumption).
  cbn zeta. rewrite Hobs'.
  destruct sort; [rewrite (Hsorted' eq_refl)|]; destruct update; reflexivity.
Qed.

Corollary clean_sort_idempotent_report reg skp update sort es obs nf :
  Forall centry_ok es -> NoDup (map fst es) -> total_on nat_lt (map fst es) ->
  examine_file reg skp update sort (render (map to_entry es)) = (obs, Some nf) ->
  exists obs', examine_file reg skp update sort nf = (obs', None) /\
               (update = true -> obs' = []) /\
               (update = false -> Permutation obs' obs /\ is_sorted_nat obs' = true).
Proof.
  intros Hok Hnd Htot H. eexists. split; [now apply (clean_sort_idempotent reg skp update sort es obs nf)|].
  split; intros ->; [reflexivity|]. split; [apply sort_nat_perm|].
  apply sort_nat_sorted.
  destruct (examine_file_rewritten reg skp false sort es Hok Hnd obs nf H) as [-> _].
  revert Htot. apply total_on_incl. intros id Hid. now apply filter_In in Hid.
Qed.

(* 11. with sorting requested, a rewritten file lists its entries in sorted order ... *)
Theorem clean_sorted_result reg skp update es obs nf :
  Forall centry_ok es -> NoDup (map fst es) -> total_on nat_lt (map fst es) ->
  examine_file reg skp update true (render (map to_entry es)) = (obs, Some nf) ->
  exists out, nf = render (map to_entry out) /\
              map fst out = filter (stays reg skp update) (sort_nat (map fst es)) /\
              is_sorted_nat (map fst out) = true /\
              Permutation out (stay reg skp update es).
Proof.
  intros Hok Hnd Htot H.
  destruct (examine_file_rewritten reg skp update true es Hok Hnd obs nf H) as [_ [-> _]].
  exists (out_entries reg skp update true es).
  assert (Hperm : Permutation (map fst es) (emit_ids true (map fst es))) by (symmetry; apply emit_ids_perm).
  split; [reflexivity|]. split; [|split].
  - rewrite out_ids by assumption. now rewrite emit_ids_true.
  - rewrite out_ids by assumption. apply filter_sorted_nat.
    + now apply (total_on_perm nat_lt (map fst es)).
    + now apply (Permutation_NoDup Hperm).
    + now apply emit_ids_sorted.
  - unfold out_entries, emit_ids.
    apply (rewrite_preserves_content reg skp update es (true && negb (is_sorted_nat (map fst es))) Hok Hnd).
Qed.

(* ... and the result does not depend on the order of the entries in the original file *)
Theorem clean_sorted_order_independent reg skp update es es' obs nf obs' nf' :
  Forall centry_ok es -> NoDup (map fst es) -> total_on nat_lt (map fst es) ->
  Permutation es es' ->
  examine_file reg skp update true (render (map to_entry es)) = (obs, Some nf) ->
  examine_file reg skp update true (render (map to_entry es')) = (obs', Some nf') ->
  nf = nf'.
Proof.
  intros Hok Hnd Htot Hp H H'.
  assert (Hpi : Permutation (map fst es) (map fst es')) by now apply Permutation_map.
  assert (Hok' : Forall centry_ok es').
  { rewrite Forall_forall in *. intros e He. apply Hok. apply (Permutation_in _ (Permutation_sym Hp) He). }
  assert (Hnd' : NoDup (map fst es')) by now apply (Permutation_NoDup Hpi).
  assert (Htot' : total_on nat_lt (map fst es')) by now apply (total_on_perm nat_lt (map fst es)).
  destruct (examine_file_rewritten reg skp update true es Hok Hnd obs nf H) as [_ [-> _]].
  destruct (examine_file_rewritten reg skp update true es' Hok' Hnd' obs' nf' H') as [_ [-> _]].
  f_equal. f_equal. unfold out_entries.
  rewrite !emit_ids_true by assumption.
  rewrite <- (sort_nat_order_independent (map fst es) (map fst es')) by assumption.
  apply flat_map_ext_in. intros id Hid.
  apply (Permutation_in _ (sort_nat_perm (map fst es))) in Hid.
  apply in_map_iff in Hid as [e [<- Hin]].
  assert (Hin' : In e es') by apply (Permutation_in _ Hp Hin).
  unfold pick, stay.
  rewrite (find_filter_nodup _ es e Hnd Hin), (find_filter_nodup _ es' e Hnd' Hin'). reflexivity.
Qed.

(* ---------- 12. non-vacuity: a concrete file ---------- *)

Local Open Scope string_scope.

Definition ex_es : list centry :=
  [ (B "TestB - 1", B "b one");
    (B "TestA - 10", B "a ten");
    (B "TestB - 2", B "b two (stale)");
    (B "TestA - 2", B "a two") ].
Definition ex_reg : list bytes := [B "TestA - 2"; B "TestA - 10"; B "TestB - 1"].
Definition ex_sorted : list centry :=
  [ (B "TestA - 2", B "a two"); (B "TestA - 10", B "a ten"); (B "TestB - 1", B "b one") ].

Ltac not_in_tac :=
  let H := fresh "H" in
  intros H; vm_compute in H; repeat (destruct H as [H|H]; [discriminate H|]); exact H.

Ltac safe_line_tac := split; [unfold no_nl; not_in_tac|vm_compute; reflexivity].

Ltac centry_ok_tac :=
  split; [vm_compute; reflexivity|];
  unfold wf_entry; cbn [to_entry fst snd];
  split; [safe_line_tac|];
  split; [intros H; vm_compute in H; discriminate H|];
  split; [intros H; vm_compute in H; discriminate H|];
  split; [unfold safe_text; apply Forall_forall; intros l Hl; vm_compute in Hl;
          destruct Hl as [<-|[]]; safe_line_tac
         |not_in_tac].

Lemma ex_es_ok : Forall centry_ok ex_es.
Proof. unfold ex_es. repeat (apply Forall_cons; [centry_ok_tac|]). apply Forall_nil. Qed.

Lemma ex_es_nodup : NoDup (map fst ex_es).
Proof.
  cbn [ex_es map fst]. repeat constructor; cbn [In]; intros H;
    repeat (destruct H as [H|H]; [vm_compute in H; discriminate H|]); exact H.
Qed.

Lemma ex_es_total : total_on nat_lt (map fst ex_es).
Proof. apply total_nat_b_spec. vm_compute. reflexivity. Qed.

Lemma ex_es_unsorted : is_sorted_nat (map fst ex_es) = false.
Proof. vm_compute. reflexivity. Qed.

(* first run (clean mode, sorting): prunes the stale entry, sorts, rewrites *)
Example ex_first_run :
  examine_file ex_reg [] true true (render (map to_entry ex_es)) =
  ([B "TestB - 2"], Some (render (map to_entry ex_sorted))).
Proof. vm_compute. reflexivity. Qed.

(* second run: by computation ... *)
Example ex_second_run_computed :
  examine_file ex_reg [] true true (render (map to_entry ex_sorted)) = ([], None).
Proof. vm_compute. reflexivity. Qed.

(* ... and as an instance of the theorem (all hypotheses are met) *)
Example ex_second_run_by_theorem :
  examine_file ex_reg [] true true (render (map to_entry ex_sorted)) = ([], None).
Proof.
  exact (clean_sort_idempotent ex_reg [] true true ex_es _ _ ex_es_ok ex_es_nodup ex_es_total ex_first_run).
Qed.

(* report-only mode with sorting: the second run reports the same stale ids, in sorted order *)
Definition ex_es2 : list centry :=
  [ (B "TestC - 1", B "c (stale)"); (B "TestB - 2", B "b two (stale)"); (B "TestA - 2", B "a two") ].

Example report_order_changes :
  let nf := render (map to_entry
              [ (B "TestA - 2", B "a two"); (B "TestB - 2", B "b two (stale)"); (B "TestC - 1", B "c (stale)") ]) in
  examine_file [B "TestA - 2"] [] false true (render (map to_entry ex_es2)) =
    ([B "TestC - 1"; B "TestB - 2"], Some nf) /\
  examine_file [B "TestA - 2"] [] false true nf = ([B "TestB - 2"; B "TestC - 1"], None).
Proof. cbv zeta. split; [vm_compute; reflexivity|vm_compute; reflexivity]. Qed.

Local Close Scope string_scope.

(* ====================================================================================== *)

Print Assumptions total_onb_spec.
Print Assumptions sort_nat_sorted.
Print Assumptions sort_nat_fixpoint.
Print Assumptions sorted_perm_unique_nat.
Print Assumptions sort_nat_order_independent.
Print Assumptions filter_sorted_nat.
Print Assumptions filter_sort_nat.
Print Assumptions less_fuel_indep.
Print Assumptions parse_uint64_dec.
Print Assumptions natural_less_good_prefix.
Print Assumptions natural_less_same_test.
Print Assumptions nat_lt_same_test.
Print Assumptions natural_less_same_test_digit_free.
Print Assumptions nat_lt_same_test_digit_free.
Print Assumptions ids_total_on.
Print Assumptions sort_nat_same_test_increasing.
Print Assumptions sort_nat_same_test_digit_free.
Print Assumptions nat_lt_not_total.
Print Assumptions nat_lt_not_total_on.
Print Assumptions nat_lt_cycle.
Print Assumptions nat_lt_incomparable_real_ids.
Print Assumptions clean_sort_idempotent.
Print Assumptions clean_sort_idempotent_report.
Print Assumptions clean_sorted_result.
Print Assumptions clean_sorted_order_independent.
Print Assumptions ex_second_run_by_theorem.
Print Assumptions report_order_changes.
