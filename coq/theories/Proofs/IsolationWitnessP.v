(* Non-vacuity witnesses for the order-independence theorems of Proofs/IsolationP.v (C03_rewrites_commute,
   C03_rewrites_both_set): the three-entry file of the C03 witnesses, its middle and its last slot rewritten. *)
From Coq Require Import String.
From Coq Require Import List NArith Arith Bool Lia.
Import ListNotations.
From Snaps Require Import Base.Bytes Base.Lines Model.Frame.
From Snaps Require Import Proofs.BytesP Proofs.LinesP Proofs.FrameP Proofs.IsolationP Proofs.WitnessesP.

Definition wiso_snapC : bytes := (B "k: other" ++ [nl] ++ B "" ++ [nl] ++ B "end")%list.

Lemma updates_commute_witness :
  Forall wf_entry w03_es /\ wf_entry (w03_tidB, w03_snap) /\ wf_entry (w03_tidC, wiso_snapC) /\
  no_collision w03_tidB w03_es /\ no_collision w03_tidC w03_es /\
  ~ In w03_tidB (split_nl w03_snap) /\ ~ In w03_tidC (split_nl wiso_snapC) /\
  ~ In w03_tidB (split_nl wiso_snapC) /\ ~ In w03_tidC (split_nl w03_snap) /\ w03_tidB <> w03_tidC /\
  lookup_entry w03_tidB w03_es <> None /\ lookup_entry w03_tidC w03_es <> None /\
  (* both rewrites really change the file *)
  lookup_entry w03_tidB w03_es <> Some w03_snap /\ lookup_entry w03_tidC w03_es <> Some wiso_snapC.
Proof.
  split; [exact w03_es_wf|].
  split; [apply wf_entry_b_sound; vm_compute; reflexivity|].
  split; [apply wf_entry_b_sound; vm_compute; reflexivity|].
  split; [apply w03_no_collision_b_sound; vm_compute; reflexivity|].
  split; [apply w03_no_collision_b_sound; vm_compute; reflexivity|].
  split; [apply mem_bytes_false_notin; vm_compute; reflexivity|].
  split; [apply mem_bytes_false_notin; vm_compute; reflexivity|].
  split; [apply mem_bytes_false_notin; vm_compute; reflexivity|].
  split; [apply mem_bytes_false_notin; vm_compute; reflexivity|].
  split; [vm_compute; discriminate|].
  split; [vm_compute; discriminate|]. split; [vm_compute; discriminate|].
  split; vm_compute; discriminate.
Qed.

Lemma updates_commute_applied :
  update_entry w03_tidB w03_snap (update_entry w03_tidC wiso_snapC (render w03_es)) =
  update_entry w03_tidC wiso_snapC (update_entry w03_tidB w03_snap (render w03_es)) /\
  update_entry w03_tidB w03_snap (update_entry w03_tidC wiso_snapC (render w03_es)) =
  render [(w03_tidA, w03_bodyA); (w03_tidB, w03_snap); (w03_tidC, wiso_snapC)].
Proof.
  destruct updates_commute_witness as [H1 [H2 [H3 [H4 [H5 [H6 [H7 [H8 [H9 [H10 _]]]]]]]]]].
  split; [now apply updates_commute|]. vm_compute. reflexivity.
Qed.

Lemma updates_both_set_applied :
  let f := update_entry w03_tidB w03_snap (update_entry w03_tidC wiso_snapC (render w03_es)) in
  option_map fst (get_prev w03_tidB f) = Some w03_snap /\ option_map fst (get_prev w03_tidC f) = Some wiso_snapC.
Proof.
  destruct updates_commute_witness as [H1 [H2 [H3 [H4 [H5 [H6 [H7 [H8 [H9 [H10 [H11 [H12 _]]]]]]]]]]]].
  now apply updates_both_set.
Qed.
