(* Clean's scanner and rewrite on entry-structured files (C07, C09, C10). *)
From Coq Require Import String.
From Coq Require Import List NArith Arith Bool Lia Permutation.
Import ListNotations.
From Snaps Require Import Base.Bytes Base.Lines Base.Dec Base.Assoc.
From Snaps Require Import Model.Frame Model.PathModel Model.Mode Model.Api Model.Natural Model.Clean.
From Snaps Require Import Proofs.BytesP Proofs.LinesP Proofs.FrameP.

(* an entry as Clean sees it: header line "[" ++ id ++ "]" recognised with inner text id *)
Definition hdr (id : bytes) : bytes := B "[" ++ id ++ B "]".

Definition centry := (bytes * bytes)%type.     (* (inner id, body) *)
Definition to_entry (e : centry) : entry := (hdr (fst e), snd e).

Definition recognised (id : bytes) : Prop := get_test_id (hdr id) = Some id.

Lemma get_test_id_nil : get_test_id [] = None. Proof. reflexivity. Qed.
Lemma get_test_id_endseq : get_test_id endseq = None. Proof. reflexivity. Qed.

(* ---------- the scanner on one entry ---------- *)

Lemma examine_capture reg skp drop id acc ls rest x :
  ~ In endseq ls ->
  examine_lines reg skp drop (MCapture id acc) (ls ++ endseq :: rest) x =
  examine_lines reg skp drop MScan rest
    {| x_ids := x_ids x; x_obsolete := x_obsolete x; x_tests := aset id (rev acc ++ ls) (x_tests x) |}.
Proof.
  revert acc. induction ls as [|l ls IH]; intros acc Hn; cbn [app examine_lines].
  - rewrite beq_refl. now rewrite app_nil_r.
  - destruct (beq_spec l endseq) as [->|Hne]; [exfalso; apply Hn; now left|].
    rewrite IH by (intros Hin; apply Hn; now right). cbn [rev]. now rewrite <- app_assoc.
Qed.

Lemma examine_drop reg skp drop ls rest x :
  ~ In endseq ls ->
  examine_lines reg skp drop MDrop (ls ++ endseq :: rest) x = examine_lines reg skp drop MScan rest x.
Proof.
  induction ls as [|l ls IH]; intros Hn; cbn [app examine_lines].
  - now rewrite beq_refl.
  - destruct (beq_spec l endseq) as [->|Hne]; [exfalso; apply Hn; now left|].
    apply IH. intros Hin. apply Hn. now right.
Qed.

Definition kept (reg skp : list bytes) (e : centry) : bool := keep_id reg skp (fst e).

(* effect of scanning one whole entry *)
Definition scan_entry (reg skp : list bytes) (drop : bool) (x : exam) (e : centry) : exam :=
  let id := fst e in
  let x1 := {| x_ids := x_ids x ++ [id]; x_obsolete := x_obsolete x; x_tests := x_tests x |} in
  if keep_id reg skp id then
    {| x_ids := x_ids x1; x_obsolete := x_obsolete x1; x_tests := aset id (split_nl (snd e)) (x_tests x1) |}
  else
    let x2 := {| x_ids := x_ids x1; x_obsolete := x_obsolete x1 ++ [id]; x_tests := x_tests x1 |} in
    if drop then x2
    else {| x_ids := x_ids x2; x_obsolete := x_obsolete x2; x_tests := aset id (split_nl (snd e)) (x_tests x2) |}.

Lemma examine_entry reg skp drop e rest x :
  recognised (fst e) -> ~ In endseq (split_nl (snd e)) ->
  examine_lines reg skp drop MScan (entry_lines (to_entry e) ++ rest) x =
  examine_lines reg skp drop MScan rest (scan_entry reg skp drop x e).
Proof.
  intros Hr Hb. unfold entry_lines, to_entry. cbn [fst snd]. rewrite frame_lines_app.
  cbn [examine_lines]. rewrite get_test_id_nil. cbn [examine_lines]. rewrite Hr.
  unfold scan_entry. destruct (keep_id reg skp (fst e)).
  - now rewrite examine_capture.
  - destruct drop.
    + now rewrite examine_drop.
    + now rewrite examine_capture.
Qed.

Lemma examine_entries reg skp drop es x :
  Forall (fun e => recognised (fst e) /\ ~ In endseq (split_nl (snd e))) es ->
  examine_lines reg skp drop MScan (render_lines (map to_entry es)) x =
  fold_left (scan_entry reg skp drop) es x.
Proof.
  revert x. induction es as [|e es IH]; intros x H; [reflexivity|].
  inversion H as [|? ? [Hr Hb] Hes]; subst.
  cbn [map]. rewrite render_lines_cons, examine_entry by assumption. cbn [fold_left]. now apply IH.
Qed.

(* ---------- what the scan computes ---------- *)

Lemma fold_scan_ids reg skp drop es : forall x,
  x_ids (fold_left (scan_entry reg skp drop) es x) = x_ids x ++ map fst es.
Proof.
  induction es as [|e es IH]; intros x; cbn [fold_left map]; [now rewrite app_nil_r|].
  rewrite IH. unfold scan_entry. destruct (keep_id reg skp (fst e)); [|destruct drop];
    cbn; now rewrite <- app_assoc.
Qed.

(* every unregistered, unprotected recognised entry is reported - and nothing else *)
Lemma fold_scan_obsolete reg skp drop es : forall x,
  x_obsolete (fold_left (scan_entry reg skp drop) es x) =
  x_obsolete x ++ map fst (filter (fun e => negb (kept reg skp e)) es).
Proof.
  induction es as [|e es IH]; intros x; cbn [fold_left map filter]; [now rewrite app_nil_r|].
  rewrite IH. unfold scan_entry, kept. destruct (keep_id reg skp (fst e)); cbn [negb].
  - reflexivity.
  - destruct drop; cbn; now rewrite <- app_assoc.
Qed.

(* bodies captured for the entries that stay (distinct ids) *)
Lemma fold_scan_tests reg skp drop es : forall x id,
  NoDup (map fst es) ->
  alookup id (x_tests (fold_left (scan_entry reg skp drop) es x)) =
  match find (fun e => beq (fst e) id) (filter (fun e => kept reg skp e || negb drop) es) with
  | Some e => Some (split_nl (snd e))
  | None => alookup id (x_tests x)
  end.
Proof.
  induction es as [|e es IH]; intros x id Hnd; cbn [fold_left filter find]; [reflexivity|].
  inversion Hnd as [|? ? Hnotin Hnd']; subst.
  rewrite IH by assumption. unfold kept at 2.
  assert (Hlater : beq (fst e) id = true ->
            find (fun e0 => beq (fst e0) id) (filter (fun e0 => kept reg skp e0 || negb drop) es) = None).
  { intros Hb. apply beq_eq in Hb. subst id.
    destruct (find _ _) as [e'|] eqn:Ef; [|reflexivity]. exfalso.
    apply find_some in Ef as [Hin Hb]. apply filter_In in Hin as [Hin _]. apply beq_eq in Hb.
    apply Hnotin. rewrite <- Hb. now apply in_map. }
  unfold scan_entry.
  destruct (keep_id reg skp (fst e)) eqn:Ek; cbn [orb].
  - cbn [find]. destruct (beq (fst e) id) eqn:Eb.
    + rewrite (Hlater eq_refl). cbn [x_tests]. apply beq_eq in Eb. subst id. apply alookup_aset_same.
    + destruct (find _ _); [reflexivity|]. cbn [x_tests].
      apply alookup_aset_other. intros E. subst id. now rewrite beq_refl in Eb.
  - destruct drop; cbn [negb] in *; cbn [orb find].
    + destruct (find _ _); reflexivity.
    + destruct (beq (fst e) id) eqn:Eb.
      * rewrite (Hlater eq_refl). cbn [x_tests]. apply beq_eq in Eb. subst id. apply alookup_aset_same.
      * destruct (find _ _); [reflexivity|]. cbn [x_tests].
        apply alookup_aset_other. intros E. subst id. now rewrite beq_refl in Eb.
Qed.

(* ---------- the rewrite ---------- *)

Lemma emit_entry_frame id body : emit_entry id (split_nl body) = frame (hdr id) body.
Proof.
  unfold emit_entry, frame, hdr. rewrite unlines_split_nl. rewrite <- !app_assoc. reflexivity.
Qed.

(* emitting ids in any order: exactly the entries that stay, each with the body it had *)
Lemma emit_all_render (stay : list centry) (tests : list (bytes * list bytes)) ids :
  (forall id, alookup id tests =
     match find (fun e => beq (fst e) id) stay with Some e => Some (split_nl (snd e)) | None => None end) ->
  NoDup (map fst stay) ->
  emit_all ids tests =
  render (map to_entry (flat_map (fun id => match find (fun e => beq (fst e) id) stay with Some e => [e] | None => [] end) ids)).
Proof.
  intros Ht Hnd. induction ids as [|id ids IH]; [reflexivity|].
  unfold emit_all in *. cbn [map concat flat_map]. rewrite IH. rewrite Ht.
  destruct (find (fun e => beq (fst e) id) stay) as [e|] eqn:Ef.
  - apply find_some in Ef as [_ Hb]. apply beq_eq in Hb. subst id.
    cbn [app map]. rewrite render_cons. unfold to_entry at 1. cbn [fst snd]. now rewrite emit_entry_frame.
  - reflexivity.
Qed.

(* ---------- examineSnaps on one entry-structured file ---------- *)

Definition centry_ok (e : centry) : Prop :=
  recognised (fst e) /\ wf_entry (to_entry e).

Definition stay (reg skp : list bytes) (drop : bool) (es : list centry) : list centry :=
  filter (fun e => kept reg skp e || negb drop) es.

Definition pick (st : list centry) (id : bytes) : list centry :=
  match find (fun e => beq (fst e) id) st with Some e => [e] | None => [] end.

Lemma find_filter_nodup (p : centry -> bool) es e :
  NoDup (map fst es) -> In e es ->
  find (fun e0 => beq (fst e0) (fst e)) (filter p es) = if p e then Some e else None.
Proof.
  induction es as [|a es IH]; intros Hnd Hin; [destruct Hin|].
  inversion Hnd as [|? ? Hnotin Hnd']; subst. cbn [filter].
  destruct Hin as [->|Hin].
  - destruct (p e) eqn:Ep.
    + cbn [find]. now rewrite beq_refl.
    + match goal with |- ?x = None => destruct x as [e'|] eqn:Ef end; [|reflexivity]. exfalso.
      apply find_some in Ef as [Hin Hb]. apply filter_In in Hin as [Hin _]. apply beq_eq in Hb.
      apply Hnotin. rewrite <- Hb. now apply in_map.
  - assert (Hne : fst a <> fst e) by (intros E; apply Hnotin; rewrite E; now apply in_map).
    destruct (p a); [cbn [find]; destruct (beq_spec (fst a) (fst e)); [contradiction|]|]; now apply IH.
Qed.

(* in file order the staying entries are emitted exactly once each, in place *)
Lemma pick_file_order (p : centry -> bool) es :
  NoDup (map fst es) -> flat_map (pick (filter p es)) (map fst es) = filter p es.
Proof.
  intros Hnd.
  assert (H : forall l, (forall e, In e l -> In e es) ->
              flat_map (pick (filter p es)) (map fst l) = filter p l).
  { induction l as [|e l IH]; intros Hsub; [reflexivity|].
    cbn [map flat_map filter]. rewrite IH by (intros e' He'; apply Hsub; now right).
    unfold pick. rewrite (find_filter_nodup p es e Hnd (Hsub e (or_introl eq_refl))).
    destruct (p e); reflexivity. }
  now apply H.
Qed.

Lemma centry_lines_ok es :
  Forall centry_ok es ->
  Forall (fun e => recognised (fst e) /\ ~ In endseq (split_nl (snd e))) es /\
  Forall wf_entry (map to_entry es).
Proof.
  intros H. split.
  - eapply Forall_impl; [|exact H]. intros e [Hr [_ [_ [_ [_ Hb]]]]]. split; assumption.
  - apply Forall_map. eapply Forall_impl; [|exact H]. now intros e [_ Hw].
Qed.

(* complete description of examineSnaps on one well-formed file *)
Theorem examine_file_entries reg skp update sort es :
  Forall centry_ok es -> NoDup (map fst es) ->
  let obsolete := map fst (filter (fun e => negb (kept reg skp e)) es) in
  let ids := map fst es in
  let should_sort := sort && negb (is_sorted_nat ids) in
  let should_update := update && (match obsolete with [] => false | _ => true end) in
  examine_file reg skp update sort (render (map to_entry es)) =
  (obsolete,
   if negb should_update && negb should_sort then None
   else Some (render (map to_entry
          (flat_map (pick (stay reg skp update es)) (if should_sort then sort_nat ids else ids))))).
Proof.
  intros Hok Hnd obsolete ids should_sort should_update.
  destruct (centry_lines_ok es Hok) as [Hl Hw].
  unfold examine_file, render. rewrite scan_unlines by now apply render_lines_safe.
  rewrite (examine_entries reg skp update es _ Hl).
  set (x := fold_left _ es _).
  assert (Hids : x_ids x = ids) by (unfold x; now rewrite fold_scan_ids).
  assert (Hobs : x_obsolete x = obsolete) by (unfold x; now rewrite fold_scan_obsolete).
  rewrite Hids, Hobs. fold should_sort. fold should_update.
  destruct (negb should_update && negb should_sort); [reflexivity|].
  f_equal. f_equal.
  apply (emit_all_render (stay reg skp update es) (x_tests x)).
  - intros id. unfold x. rewrite fold_scan_tests by assumption. cbn [x_tests alookup].
    unfold stay. destruct (find _ _); reflexivity.
  - unfold stay. clear -Hnd. induction es as [|e es IH]; [constructor|].
    inversion Hnd as [|? ? Hn Hnd']; subst. cbn [filter].
    destruct (kept reg skp e || negb update); [|now apply IH].
    cbn [map]. constructor; [|now apply IH].
    intros Hin. apply Hn. apply in_map_iff in Hin as [e' [He' Hin]]. apply filter_In in Hin as [Hin _].
    rewrite <- He'. now apply in_map.
Qed.

(* pruning without sorting: the surviving entries, byte-identical and in place *)
Corollary examine_file_prune reg skp es :
  Forall centry_ok es -> NoDup (map fst es) ->
  filter (fun e => negb (kept reg skp e)) es <> [] ->
  examine_file reg skp true false (render (map to_entry es)) =
  (map fst (filter (fun e => negb (kept reg skp e)) es),
   Some (render (map to_entry (filter (kept reg skp) es)))).
Proof.
  intros Hok Hnd Hst. rewrite examine_file_entries by assumption. cbn zeta.
  destruct (filter _ es) as [|o os] eqn:E; [contradiction|]. cbn [map andb negb].
  f_equal. f_equal. f_equal. f_equal. unfold stay. cbn [negb].
  rewrite pick_file_order by assumption. apply filter_ext. intros e. apply orb_false_r.
Qed.

(* registered (addressed) and skip-protected entries always stay *)
Lemma addressed_stays reg skp drop es e :
  In e es -> mem_bytes (fst e) reg = true -> In e (stay reg skp drop es).
Proof.
  intros Hin Hm. apply filter_In. split; [assumption|]. unfold kept, keep_id. now rewrite Hm.
Qed.

(* insertion sort by the natural comparator is a permutation *)
Lemma insert_nat_perm x l : Permutation (insert_nat x l) (x :: l).
Proof.
  induction l as [|y l IH]; [reflexivity|]. cbn [insert_nat].
  destruct (nat_lt x y); [reflexivity|].
  rewrite IH. apply perm_swap.
Qed.

Lemma sort_nat_perm l : Permutation (sort_nat l) l.
Proof.
  induction l as [|x l IH]; [reflexivity|]. unfold sort_nat in *. cbn [fold_right].
  rewrite insert_nat_perm. now constructor.
Qed.

(* whatever the order of emission (file order or sorted), every staying entry is written exactly once
   with the body it had, and nothing else is written *)

Lemma pick_perm (st : list centry) : forall ids ids',
  Permutation ids ids' -> Permutation (flat_map (pick st) ids) (flat_map (pick st) ids').
Proof.
  intros ids ids' H. induction H; cbn [flat_map].
  - reflexivity.
  - now apply Permutation_app_head.
  - rewrite !app_assoc. apply Permutation_app_tail. apply Permutation_app_comm.
  - etransitivity; eassumption.
Qed.

Theorem rewrite_preserves_content reg skp drop es (sorted : bool) :
  Forall centry_ok es -> NoDup (map fst es) ->
  Permutation (flat_map (pick (stay reg skp drop es)) (if sorted then sort_nat (map fst es) else map fst es))
              (stay reg skp drop es).
Proof.
  intros Hok Hnd. unfold stay.
  rewrite <- (pick_file_order (fun e => kept reg skp e || negb drop) es Hnd) at 2.
  apply pick_perm. destruct sorted; [apply sort_nat_perm|reflexivity].
Qed.

(* ---------- corollaries used by C07 / C09 / C10 ---------- *)

(* report-only (removal not allowed): nothing is dropped, whatever the sort option does *)
Lemma stay_report_only reg skp es : stay reg skp false es = es.
Proof.
  unfold stay. induction es as [|e es IH]; [reflexivity|]. cbn [filter].
  replace (kept reg skp e || negb false) with true by (cbn [negb]; now rewrite orb_true_r).
  now rewrite IH.
Qed.

(* clean mode: exactly the reported entries are dropped *)
Lemma stay_clean reg skp es : stay reg skp true es = filter (kept reg skp) es.
Proof. unfold stay. apply filter_ext. intros e. cbn [negb]. apply orb_false_r. Qed.

Lemma obsolete_exact reg skp update sort es :
  Forall centry_ok es -> NoDup (map fst es) ->
  fst (examine_file reg skp update sort (render (map to_entry es))) =
  map fst (filter (fun e => negb (kept reg skp e)) es).
Proof. intros Hok Hnd. now rewrite examine_file_entries. Qed.

(* whenever the file is rewritten, its new content is the rendering of a permutation of the
   staying entries: each written exactly once with the body it had; nothing else is written *)
Theorem rewrite_content reg skp update sort es nf :
  Forall centry_ok es -> NoDup (map fst es) ->
  snd (examine_file reg skp update sort (render (map to_entry es))) = Some nf ->
  exists out, nf = render (map to_entry out) /\ Permutation out (stay reg skp update es).
Proof.
  intros Hok Hnd. rewrite examine_file_entries by assumption. cbn zeta. cbn [snd].
  destruct (negb _ && negb _); [discriminate|]. intros [= <-].
  eexists. split; [reflexivity|].
  destruct (sort && negb (is_sorted_nat (map fst es))).
  - apply (rewrite_preserves_content reg skp update es true Hok Hnd).
  - apply (rewrite_preserves_content reg skp update es false Hok Hnd).
Qed.

(* an entry addressed in this run (registered) survives every rewrite with its body *)
Theorem addressed_survives reg skp update sort es nf e :
  Forall centry_ok es -> NoDup (map fst es) -> In e es -> mem_bytes (fst e) reg = true ->
  snd (examine_file reg skp update sort (render (map to_entry es))) = Some nf ->
  exists out, nf = render (map to_entry out) /\ In e out /\ NoDup (map fst out).
Proof.
  intros Hok Hnd Hin Hm Hs.
  destruct (rewrite_content reg skp update sort es nf Hok Hnd Hs) as [out [-> Hp]].
  exists out. split; [reflexivity|]. split.
  - apply (Permutation_in _ (Permutation_sym Hp)). now apply addressed_stays.
  - apply (Permutation_NoDup (Permutation_map fst (Permutation_sym Hp))).
    unfold stay. clear -Hnd. induction es as [|a es IH]; [constructor|].
    inversion Hnd as [|? ? Hn Hnd']; subst. cbn [filter].
    destruct (kept reg skp a || negb update); [|now apply IH].
    cbn [map]. constructor; [|now apply IH].
    intros Hi. apply Hn. apply in_map_iff in Hi as [e' [He' Hi]]. apply filter_In in Hi as [Hi _].
    rewrite <- He'. now apply in_map.
Qed.

(* ... and is never reported *)
Lemma addressed_not_reported reg skp update sort es (e : centry) :
  Forall centry_ok es -> NoDup (map fst es) -> mem_bytes (fst e) reg = true ->
  ~ In (fst e) (fst (examine_file reg skp update sort (render (map to_entry es)))).
Proof.
  intros Hok Hnd Hm. rewrite obsolete_exact by assumption. intros Hin.
  apply in_map_iff in Hin as [e' [He' Hf]]. apply filter_In in Hf as [_ Hk].
  unfold kept, keep_id in Hk. rewrite He', Hm in Hk. discriminate.
Qed.

(* pruning is idempotent: after a clean-mode rewrite nothing is stale any more *)
Lemma prune_idempotent reg skp es :
  filter (fun e => negb (kept reg skp e)) (filter (kept reg skp) es) = [].
Proof.
  induction es as [|e es IH]; [reflexivity|]. cbn [filter].
  destruct (kept reg skp e) eqn:E; [cbn [filter]; now rewrite E|assumption].
Qed.

(* ---------- -count: the live ids of a test that made k calls in each of `count` executions ---------- *)

Lemma occ_ids_uniform fmt t k count i :
  0 < count -> 1 <= i <= k ->
  In (fmt t i) (occ_ids fmt t (count * k) count).
Proof.
  intros Hc [H1 Hk]. unfold occ_ids.
  rewrite Nat.mul_comm, Nat.div_mul by lia.
  destruct (Nat.ltb_spec 1 k) as [Hlt|Hge].
  - apply in_or_app. left. apply in_map. apply in_seq. lia.
  - assert (i = k) by lia. subst. apply in_or_app. right. now left.
Qed.

(* every id addressed in a run of `count` uniform executions is registered for Clean *)
Lemma registered_tests_uniform cleanup path t k count i :
  0 < count -> 1 <= i <= k -> alookup2 (path, t) cleanup = Some (count * k) ->
  mem_bytes (snapshot_occ_fmt t i) (registered_tests cleanup path count) = true.
Proof.
  intros Hc Hi Hl.
  assert (Hin : In (snapshot_occ_fmt t i) (registered_tests cleanup path count)).
  { unfold registered_tests. apply in_flat_map.
    induction cleanup as [|[[p' t'] n] cl IH]; cbn [alookup2] in Hl; [discriminate|].
    destruct (key2_eqb_spec (path, t) (p', t')) as [E|Hne].
    - injection E as <- <-. injection Hl as ->. exists ((path, t), count * k). split; [now left|].
      cbn [fst snd]. rewrite beq_refl. now apply occ_ids_uniform.
    - destruct (IH Hl) as [x [Hx1 Hx2]]. exists x. split; [now right|assumption]. }
  clear -Hin. induction (registered_tests cleanup path count) as [|y l IH]; [destruct Hin|].
  cbn [mem_bytes]. destruct Hin as [->|Hin]; [now rewrite beq_refl|]. rewrite IH by assumption. apply orb_true_r.
Qed.
