(* Clean's scanner and rewrite on entry-structured files (C07, C09, C10). *)
From Coq Require Import String.
From Coq Require Import List NArith Arith Bool Lia Permutation.
Import ListNotations.
From Snaps Require Import Base.Bytes Base.Lines Base.Dec Base.Assoc.
From Snaps Require Import Model.Frame Model.PathModel Model.Mode Model.Api Model.Natural Model.Clean.
From Snaps Require Import Proofs.BytesP Proofs.LinesP Proofs.FrameP.

(* an entry as Clean sees it: header line "[" ++ id ++ "]" recognised with inner text id *)
Definition hdr (id : bytes) : bytes := B "[" ++ id ++ B "]".

Definition centry := (bytes * bytes)%type.     (* (inner id, body) *)
Definition to_entry (e : centry) : entry := (hdr (fst e), snd e).

Definition recognised (id : bytes) : Prop := get_test_id (hdr id) = Some id.

Lemma get_test_id_nil : get_test_id [] = None. Proof. reflexivity. Qed.
Lemma get_test_id_endseq : get_test_id endseq = None. Proof. reflexivity. Qed.

(* ---------- the scanner on one entry ---------- *)

Lemma examine_capture reg skp drop id acc ls rest x :
  ~ In endseq ls ->
  examine_lines reg skp drop (MCapture id acc) (ls ++ endseq :: rest) x =
  examine_lines reg skp drop MScan rest
    {| x_ids := x_ids x; x_obsolete := x_obsolete x; x_tests := aset id (rev acc ++ ls) (x_tests x) |}.
Proof.
  revert acc. induction ls as [|l ls IH]; intros acc Hn; cbn [app examine_lines].
  - rewrite beq_refl. now rewrite app_nil_r.
  - destruct (beq_spec l endseq) as [->|Hne]; [exfalso; apply Hn; now left|].
    rewrite IH by (intros Hin; apply Hn; now right). cbn [rev]. now rewrite <- app_assoc.
Qed.

Lemma examine_drop reg skp drop ls rest x :
  ~ In endseq ls ->
  examine_lines reg skp drop MDrop (ls ++ endseq :: rest) x = examine_lines reg skp drop MScan rest x.
Proof.
  induction ls as [|l ls IH]; intros Hn; cbn [app examine_lines].
  - now rewrite beq_refl.
  - destruct (beq_spec l endseq) as [->|Hne]; [exfalso; apply Hn; now left|].
    apply IH. intros Hin. apply Hn. now right.
Qed.

Definition kept (reg skp : list bytes) (e : centry) : bool := keep_id reg skp (fst e).

(* effect of scanning one whole entry *)
Definition scan_entry (reg skp : list bytes) (drop : bool) (x : exam) (e : centry) : exam :=
  let id := fst e in
  let x1 := {| x_ids := x_ids x ++ [id]; x_obsolete := x_obsolete x; x_tests := x_tests x |} in
  if keep_id reg skp id then
    {| x_ids := x_ids x1; x_obsolete := x_obsolete x1; x_tests := aset id (split_nl (snd e)) (x_tests x1) |}
  else
    let x2 := {| x_ids := x_ids x1; x_obsolete := x_obsolete x1 ++ [id]; x_tests := x_tests x1 |} in
    if drop then x2
    else {| x_ids := x_ids x2; x_obsolete := x_obsolete x2; x_tests := aset id (split_nl (snd e)) (x_tests x2) |}.

Lemma examine_entry reg skp drop e rest x :
  recognised (fst e) -> ~ In endseq (split_nl (snd e)) ->
  examine_lines reg skp drop MScan (entry_lines (to_entry e) ++ rest) x =
  examine_lines reg skp drop MScan rest (scan_entry reg skp drop x e).
Proof.
  intros Hr Hb. unfold entry_lines, to_entry. cbn [fst snd]. rewrite frame_lines_app.
  cbn [examine_lines]. rewrite get_test_id_nil. cbn [examine_lines]. rewrite Hr.
  unfold scan_entry. destruct (keep_id reg skp (fst e)).
  - now rewrite examine_capture.
  - destruct drop.
    + now rewrite examine_drop.
    + now rewrite examine_capture.
Qed.

Lemma examine_entries reg skp drop es x :
  Forall (fun e => recognised (fst e) /\ ~ In endseq (split_nl (snd e))) es ->
  examine_lines reg skp drop MScan (render_lines (map to_entry es)) x =
  fold_left (scan_entry reg skp drop) es x.
Proof.
  revert x. induction es as [|e es IH]; intros x H; [reflexivity|].
  inversion H as [|? ? [Hr Hb] Hes]; subst.
  cbn [map]. rewrite render_lines_cons, examine_entry by assumption. cbn [fold_left]. now apply IH.
Qed.

(* ---------- what the scan computes ---------- *)

Lemma fold_scan_ids reg skp drop es : forall x,
  x_ids (fold_left (scan_entry reg skp drop) es x) = x_ids x ++ map fst es.
Proof.
  induction es as [|e es IH]; intros x; cbn [fold_left map]; [now rewrite app_nil_r|].
  rewrite IH. unfold scan_entry. destruct (keep_id reg skp (fst e)); [|destruct drop];
    cbn; now rewrite <- app_assoc.
Qed.

(* every unregistered, unprotected recognised entry is reported - and nothing else *)
Lemma fold_scan_obsolete reg skp drop es : forall x,
  x_obsolete (fold_left (scan_entry reg skp drop) es x) =
  x_obsolete x ++ map fst (filter (fun e => negb (kept reg skp e)) es).
Proof.
  induction es as [|e es IH]; intros x; cbn [fold_left map filter]; [now rewrite app_nil_r|].
  rewrite IH. unfold scan_entry, kept. destruct (keep_id reg skp (fst e)); cbn [negb].
  - reflexivity.
  - destruct drop; cbn; now rewrite <- app_assoc.
Qed.

(* bodies captured for the entries that stay (distinct ids) *)
Lemma fold_scan_tests reg skp drop es : forall x id,
  NoDup (map fst es) ->
  alookup id (x_tests (fold_left (scan_entry reg skp drop) es x)) =
  match find (fun e => beq (fst e) id) (filter (fun e => kept reg skp e || negb drop) es) with
  | Some e => Some (split_nl (snd e))
  | None => alookup id (x_tests x)
  end.
Proof.
  induction es as [|e es IH]; intros x id Hnd; cbn [fold_left filter find]; [reflexivity|].
  inversion Hnd as [|? ? Hnotin Hnd']; subst.
  rewrite IH by assumption. unfold kept at 2.
  assert (Hlater : beq (fst e) id = true ->
            find (fun e0 => beq (fst e0) id) (filter (fun e0 => kept reg skp e0 || negb drop) es) = None).
  { intros Hb. apply beq_eq in Hb. subst id.
    destruct (find _ _) as [e'|] eqn:Ef; [|reflexivity]. exfalso.
    apply find_some in Ef as [Hin Hb]. apply filter_In in Hin as [Hin _]. apply beq_eq in Hb.
    apply Hnotin. rewrite <- Hb. now apply in_map. }
  unfold scan_entry.
  destruct (keep_id reg skp (fst e)) eqn:Ek; cbn [orb].
  - cbn [find]. destruct (beq (fst e) id) eqn:Eb.
    + rewrite (Hlater eq_refl). cbn [x_tests]. apply beq_eq in Eb. subst id. apply alookup_aset_same.
    + destruct (find _ _); [reflexivity|]. cbn [x_tests].
      apply alookup_aset_other. intros E. subst id. now rewrite beq_refl in Eb.
  - destruct drop; cbn [negb find].
    + destruct (find _ _); reflexivity.
    + destruct (beq (fst e) id) eqn:Eb.
      * rewrite (Hlater eq_refl). cbn [x_tests]. apply beq_eq in Eb. subst id. apply alookup_aset_same.
      * destruct (find _ _); [reflexivity|]. cbn [x_tests].
        apply alookup_aset_other. intros E. subst id. now rewrite beq_refl in Eb.
Qed.

(* ---------- the rewrite ---------- *)

Lemma emit_entry_frame id body : emit_entry id (split_nl body) = frame (hdr id) body.
Proof.
  unfold emit_entry, frame, hdr. rewrite unlines_split_nl. rewrite <- !app_assoc. reflexivity.
Qed.

(* emitting ids in any order: exactly the entries that stay, each with the body it had *)
Lemma emit_all_render (stay : list centry) (tests : list (bytes * list bytes)) ids :
  (forall id, alookup id tests =
     match find (fun e => beq (fst e) id) stay with Some e => Some (split_nl (snd e)) | None => None end) ->
  NoDup (map fst stay) ->
  emit_all ids tests =
  render (map to_entry (flat_map (fun id => match find (fun e => beq (fst e) id) stay with Some e => [e] | None => [] end) ids)).
Proof.
  intros Ht Hnd. induction ids as [|id ids IH]; [reflexivity|].
  unfold emit_all in *. cbn [map concat flat_map]. rewrite IH. rewrite Ht.
  destruct (find (fun e => beq (fst e) id) stay) as [e|] eqn:Ef.
  - apply find_some in Ef as [_ Hb]. apply beq_eq in Hb. subst id.
    cbn [app map]. rewrite render_cons. unfold to_entry at 1. cbn [fst snd]. now rewrite emit_entry_frame.
  - reflexivity.
Qed.
