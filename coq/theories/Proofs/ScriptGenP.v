(* ScriptGenP: the theorems of property C13 for EVERY valid edit script (Model/ScriptGen.v).

   Nothing below depends on how the script was chosen: [get_opcodes] (the model of the Go
   sequenceMatcher) is just one script that passes [valid_script] ([get_opcodes_valid]).

   Overview
   1. [valid_script_spec]   : the boolean checker decides  tiles /\ Forall op_wf  (no sentinel case).
   2. [get_opcodes_valid], [unified_of_script_model], [report_of_script_model], [groups_of_script_model].
   3. script level : [script_tile_first/abut/last], [script_equal_sound], [script_replay],
                     [script_kept_same], [script_hunks_keep_changes], [script_hunks_contiguous], ...
   4. report level : [script_counts], [script_lines_truthful], [script_residual],
                     [report_of_script_empty_iff], [report_of_script_no_esc_In],
                     [read_report_of_script] and the printed_* corollaries; each is the
                     [n := context] instance of a [.._n] theorem about [unified_of_script_n] /
                     [report_of_script_n], proved for EVERY number n of context lines (no
                     hypothesis on n is needed anywhere, n = 0 included).
   5. examples by [vm_compute].

   Which statements need validity: counts, truthfulness of `-`/`+` lines, no-escape, "hunks keep
   changes" and the identification of the `-`/`+` lines with the deleted/inserted slices of the
   script hold for ARBITRARY opcode lists; tiling/abutting needs the tiling half; replay, residual,
   equal-sound, emptiness, context lines and the reader theorem need full validity. *)
From Coq Require Import String.
From Coq Require Import List NArith Arith Bool Lia.
Import ListNotations.
From Snaps Require Import Base.Bytes Base.Lines Base.Dec.
From Snaps Require Import Proofs.BytesP Proofs.LinesP Proofs.DecP.
From Snaps Require Import Model.Difflib Model.DifflibSpec Model.Report Model.ReportSpec.
From Snaps Require Import Proofs.DifflibP Proofs.ReportP.
From Snaps Require Import Model.Summary Proofs.SummaryP.
From Snaps Require Import Model.ReportReader Proofs.ReportReaderP.
From Snaps Require Import Model.ScriptGen.

(* ================================================================== *)
(** * 1. The checker decides validity *)

Lemma lines_beq_eq (x y : list line) : lines_beq x y = true <-> x = y.
Proof.
  revert y; induction x as [|l x IH]; intros [|m y]; cbn [lines_beq];
    try (split; [discriminate|congruence]); [tauto|].
  rewrite andb_true_iff, beq_eq, IH. split; [intros [-> ->]; reflexivity|].
  intros E. injection E as -> ->. now split.
Qed.

Lemma tiles_b_spec ops : forall i j ie je,
  tiles_b i j ops ie je = true <-> tiles i j ops ie je.
Proof.
  induction ops as [|c r IH]; intros i j ie je; cbn [tiles_b tiles].
  - now rewrite andb_true_iff, !Nat.eqb_eq.
  - now rewrite !andb_true_iff, !Nat.eqb_eq, IH, and_assoc.
Qed.

Lemma op_wf_b_sound a b c : op_wf_b a b c = true -> op_wf a b c.
Proof.
  unfold op_wf_b, op_wf. destruct (op_tag c); intros H;
    repeat (apply andb_prop in H; destruct H as [H ?]);
    repeat match goal with
           | X : (_ <? _) = true |- _ => apply Nat.ltb_lt in X
           | X : (_ =? _) = true |- _ => apply Nat.eqb_eq in X
           | X : lines_beq _ _ = true |- _ => apply lines_beq_eq in X
           end; repeat split; try lia; try assumption.
Qed.

(* inside the two sequences the shape predicate implies the boolean (the explicit length test of
   the Equal case follows from the equality of the two slices) *)
Lemma op_wf_b_complete a b c :
  i2 c <= length a -> j2 c <= length b -> op_wf a b c -> op_wf_b a b c = true.
Proof.
  intros Ha Hb (H1 & H2 & H3). unfold op_wf_b. destruct (op_tag c).
  - destruct H3 as (G1 & G2 & E).
    assert (L : i2 c - i1 c = j2 c - j1 c).
    { apply (f_equal (@length line)) in E. now rewrite !slice_length in E by assumption. }
    rewrite !andb_true_iff. repeat split;
      [now apply Nat.ltb_lt|now apply Nat.ltb_lt|now apply Nat.eqb_eq|now apply lines_beq_eq].
  - destruct H3 as (G1 & G2). rewrite andb_true_iff. split; [now apply Nat.eqb_eq|now apply Nat.ltb_lt].
  - destruct H3 as (G1 & G2). rewrite andb_true_iff. split; [now apply Nat.ltb_lt|now apply Nat.eqb_eq].
  - destruct H3 as (G1 & G2). rewrite andb_true_iff. split; now apply Nat.ltb_lt.
Qed.

(** valid_script_spec.  There is no sentinel case: the empty script is valid exactly for two empty
    sequences ([valid_script_nil]), which is what the Go code (and the model) produce there. *)
Theorem valid_script_spec (a b : list line) (ops : list opcode) :
  valid_script a b ops = true <->
  tiles 0 0 ops (length a) (length b) /\ Forall (op_wf a b) ops.
Proof.
  unfold valid_script. rewrite andb_true_iff, tiles_b_spec, forallb_forall, Forall_forall. split.
  - intros [Ht Hw]. split; [exact Ht|]. intros c Hc. now apply op_wf_b_sound, Hw.
  - intros [Ht Hw]. split; [exact Ht|]. intros c Hc.
    assert (Hw' : Forall (op_wf a b) ops) by (now apply Forall_forall).
    destruct (tiles_In_bounds a b _ _ _ _ _ c Hw' Ht Hc) as (_ & B1 & _ & B2).
    apply op_wf_b_complete; auto.
Qed.

Theorem valid_script_nil (a b : list line) : valid_script a b [] = true <-> a = [] /\ b = [].
Proof.
  rewrite valid_script_spec. cbn [tiles]. split.
  - intros [[Ha Hb] _]. split; apply length_zero_iff_nil; congruence.
  - intros [-> ->]. repeat split. constructor.
Qed.

Lemma valid_tiles a b ops :
  valid_script a b ops = true -> tiles 0 0 ops (length a) (length b).
Proof. intros H. now apply valid_script_spec in H. Qed.

Lemma valid_wf a b ops : valid_script a b ops = true -> Forall (op_wf a b) ops.
Proof. intros H. now apply valid_script_spec in H. Qed.

(* ================================================================== *)
(** * 2. The model's script is one valid script; the generic functions agree with the model *)

Theorem get_opcodes_valid (a b : list line) : valid_script a b (get_opcodes a b) = true.
Proof. apply valid_script_spec. split; [apply get_opcodes_tiles|apply get_opcodes_wf]. Qed.

Theorem groups_of_script_model (a b : list line) :
  groups_of_script (get_opcodes a b) = grouped_opcodes context a b.
Proof. reflexivity. Qed.

Theorem unified_of_script_model (a b : bytes) :
  unified_of_script (split_newlines a) (split_newlines b)
                    (get_opcodes (split_newlines a) (split_newlines b))
  = unified_nocolor a b.
Proof. reflexivity. Qed.

Theorem report_of_script_model (a b name : bytes) (line : nat) :
  report_of_script a b (get_opcodes (split_newlines a) (split_newlines b)) name line
  = pretty_diff_nocolor a b name line.
Proof. reflexivity. Qed.

(* ================================================================== *)
(** * 3. Script level: every valid script ... *)

(* trimming and grouping keep [op_ok] (the proof of DifflibP.grouped_ops_sound, for any codes) *)
Lemma grouped_of_codes_ok (a b : list line) n (codes : list opcode) :
  Forall (op_ok a b) codes ->
  forall g c, In g (grouped_of_codes n codes) -> In c g -> op_ok a b c.
Proof.
  intros Hok g c Hg Hc.
  destruct codes as [|c0 r]; [now rewrite grouped_of_codes_nil in Hg|].
  unfold grouped_of_codes in Hg.
  assert (H : Forall (Forall (op_ok a b)) (group_loop n (fix_last n (fix_first n (c0 :: r))) [])).
  { apply group_loop_ok; [constructor|]. now apply fix_last_ok, fix_first_ok. }
  rewrite Forall_forall in H. specialize (H g Hg). rewrite Forall_forall in H. now apply H.
Qed.

Section Script.
Variables (a b : list line) (ops : list opcode).
Hypothesis Hvalid : valid_script a b ops = true.

(** ... tiles both sequences contiguously ... *)
Theorem script_tile_first c r : ops = c :: r -> i1 c = 0 /\ j1 c = 0.
Proof. intros E. pose proof (valid_tiles _ _ _ Hvalid) as H. rewrite E in H. eapply tiles_first, H. Qed.

Theorem script_tile_abut l1 c d l2 : ops = l1 ++ c :: d :: l2 -> i1 d = i2 c /\ j1 d = j2 c.
Proof.
  intros E. pose proof (tiles_abuts _ _ _ _ _ (valid_tiles _ _ _ Hvalid)) as H. rewrite E in H.
  eapply abuts_mid, H.
Qed.

Theorem script_tile_last l c : ops = l ++ [c] -> i2 c = length a /\ j2 c = length b.
Proof. intros E. pose proof (valid_tiles _ _ _ Hvalid) as H. rewrite E in H. eapply tiles_last, H. Qed.

Theorem script_abuts : abuts ops.
Proof. eapply tiles_abuts, valid_tiles, Hvalid. Qed.

(* an empty valid script only happens for two empty sequences *)
Theorem script_nil_inv : ops = [] -> a = [] /\ b = [].
Proof. intros E. rewrite E in Hvalid. now apply valid_script_nil. Qed.

Theorem script_in_bounds c :
  In c ops -> i1 c <= i2 c /\ i2 c <= length a /\ j1 c <= j2 c /\ j2 c <= length b.
Proof.
  intros Hin. pose proof (valid_wf _ _ _ Hvalid) as Hwf.
  destruct (tiles_In_bounds a b _ _ _ _ _ c Hwf (valid_tiles _ _ _ Hvalid) Hin) as (_ & H2 & _ & H4).
  rewrite Forall_forall in Hwf. destruct (Hwf _ Hin) as (G1 & G2 & _). lia.
Qed.

(** ... marks as equal only identical lines, and every opcode has the shape of its tag ... *)
Theorem script_equal_sound c :
  In c ops ->
  match op_tag c with
  | Equal => slice a (i1 c) (i2 c) = slice b (j1 c) (j2 c) /\ i1 c < i2 c /\ j1 c < j2 c
  | Insert => i1 c = i2 c /\ j1 c < j2 c
  | Delete => i1 c < i2 c /\ j1 c = j2 c
  | Replace => i1 c < i2 c /\ j1 c < j2 c
  end.
Proof.
  intros Hin. pose proof (valid_wf _ _ _ Hvalid) as Hwf. rewrite Forall_forall in Hwf.
  destruct (Hwf _ Hin) as (_ & _ & H). destruct (op_tag c); tauto.
Qed.

(* an Equal opcode relates two runs of the same length, line by line *)
Corollary script_equal_pointwise c :
  In c ops -> op_tag c = Equal ->
  i2 c - i1 c = j2 c - j1 c /\
  forall t, t < i2 c - i1 c -> nth (i1 c + t) a [] = nth (j1 c + t) b [].
Proof.
  intros Hin Ht. pose proof (script_equal_sound c Hin) as H. rewrite Ht in H.
  destruct H as (E & _ & _). destruct (script_in_bounds c Hin) as (_ & B1 & _ & B2).
  assert (L : i2 c - i1 c = j2 c - j1 c).
  { pose proof (f_equal (@length line) E) as L. now rewrite !slice_length in L by assumption. }
  split; [exact L|]. intros t Hlt.
  rewrite <- (nth_slice a (i1 c) (i2 c)) by exact Hlt.
  rewrite <- (nth_slice b (j1 c) (j2 c)) by lia. now rewrite E.
Qed.

Corollary script_nonempty_ops c : In c ops -> i1 c < i2 c \/ j1 c < j2 c.
Proof. intros Hin. pose proof (script_equal_sound c Hin) as H. destruct (op_tag c); lia. Qed.

(** ... replays the first sequence into the second ... *)
Theorem script_replay : replay_b a b ops = b /\ replay_a a ops = a.
Proof.
  destruct (replay_tiles a b _ _ _ _ _ (valid_wf _ _ _ Hvalid) (valid_tiles _ _ _ Hvalid)) as [Hb Ha].
  now rewrite Hb, Ha, !slice_full.
Qed.

(* a valid script without changes means equal inputs; so a valid script of two different
   sequences has a non-Equal opcode *)
Theorem script_all_equal_same : forallb is_equal ops = true -> a = b.
Proof.
  intros H. destruct script_replay as [Hb Ha].
  pose proof (replay_all_equal a b _ H) as E. congruence.
Qed.

Corollary script_has_non_equal : a <> b -> exists c, In c ops /\ non_equal c = true.
Proof.
  intros Hne. destruct (forallb is_equal ops) eqn:F; [now destruct Hne; apply script_all_equal_same|].
  apply forallb_false_exists in F as (c & Hin & Hc). exists c. split; [exact Hin|].
  unfold non_equal. now rewrite Hc.
Qed.

(* what is kept of a equals what is kept of b, opcode by opcode *)
Theorem script_kept_same : map (kept_a_of a) ops = map (kept_b_of b) ops.
Proof.
  apply map_ext_in. intros c Hin. pose proof (script_equal_sound c Hin) as H.
  unfold kept_a_of, kept_b_of. destruct (op_tag c); try reflexivity. apply H.
Qed.

(** residual at the level of the line sequences (the first three conjuncts of C13_residual) *)
Theorem script_residual_lines :
  a = concat (map (fun c => kept_a_of a c ++ deleted_of a c) ops) /\
  b = concat (map (fun c => kept_a_of a c ++ inserted_of b c) ops) /\
  map (kept_a_of a) ops = map (kept_b_of b) ops.
Proof.
  destruct script_replay as [Hb Ha]. repeat split.
  - rewrite <- Ha at 1. unfold replay_a. f_equal. apply map_ext. intros c.
    unfold replay_a_op, kept_a_of, deleted_of. destruct (op_tag c); now rewrite ?app_nil_r.
  - rewrite <- Hb at 1. unfold replay_b. f_equal. apply map_ext. intros c.
    unfold replay_b_op, kept_a_of, inserted_of. destruct (op_tag c); now rewrite ?app_nil_r.
  - apply script_kept_same.
Qed.

Lemma script_ok : Forall (op_ok a b) ops.
Proof.
  apply Forall_forall. intros c Hin.
  destruct (script_in_bounds c Hin) as (H1 & H2 & H3 & H4).
  pose proof (script_equal_sound c Hin) as Hs.
  unfold op_ok. do 4 (split; [assumption|]). intros E. rewrite E in Hs. destruct Hs as (Es & _ & _).
  split; [|exact Es].
  apply (f_equal (@length line)) in Es. now rewrite !slice_length in Es by assumption.
Qed.

(** ... and its hunks are contiguous, for every context size *)
Theorem script_hunks_contiguous n : Forall abuts (grouped_of_codes n ops).
Proof. apply grouped_of_codes_abuts, script_abuts. Qed.

Corollary script_hunks_abut_mid n g l1 c d l2 :
  In g (grouped_of_codes n ops) -> g = l1 ++ c :: d :: l2 -> i1 d = i2 c /\ j1 d = j2 c.
Proof.
  intros Hin ->. pose proof (script_hunks_contiguous n) as H. rewrite Forall_forall in H.
  eapply abuts_mid, H, Hin.
Qed.

(** every opcode of every hunk lies inside both sequences; an Equal one still relates two
    identical slices; a non-Equal one is an opcode of the script, untouched *)
Theorem script_grouped_ops_sound n g c :
  In g (grouped_of_codes n ops) -> In c g ->
  op_ok a b c /\ (op_tag c <> Equal -> In c ops).
Proof.
  intros Hg Hc. split.
  - exact (grouped_of_codes_ok a b n ops script_ok g c Hg Hc).
  - intros Hne.
    assert (Hin : In c (filter non_equal (concat (grouped_of_codes n ops)))).
    { apply filter_In. split; [apply in_concat; eauto|].
      unfold non_equal, is_equal. destruct (op_tag c); try reflexivity. congruence. }
    rewrite grouped_of_codes_no_change_lost in Hin. now apply filter_In in Hin.
Qed.

End Script.

(** hunks never omit a changed line: true of EVERY opcode list and every context size; the proof
    in DifflibP ([grouped_of_codes_no_change_lost]) uses neither tiling nor shapes *)
Theorem script_hunks_keep_changes n (ops : list opcode) :
  filter non_equal (concat (grouped_of_codes n ops)) = filter non_equal ops.
Proof. apply grouped_of_codes_no_change_lost. Qed.

(* hunks are never empty (printRange indexes opcodes[0]): every opcode list *)
Theorem script_groups_nonempty n (ops : list opcode) :
  Forall (fun g => g <> []) (grouped_of_codes n ops).
Proof. apply group_loop_nonempty. Qed.

(* contiguity of the hunks only needs the tiling half of validity *)
Theorem hunks_contiguous_of_abuts n (ops : list opcode) :
  abuts ops -> Forall abuts (grouped_of_codes n ops).
Proof. apply grouped_of_codes_abuts. Qed.

(* ================================================================== *)
(** * 4. Report level

    Every theorem is proved for an ARBITRARY number [n] of context lines ([unified_of_script_n],
    [report_of_script_n]); the statements about [unified_of_script] / [report_of_script] (the
    [n := context] instances, see the three [_context] lemmas) are corollaries, by conversion.

    What depends on [n]: only WHICH unchanged lines are shown and where hunks are cut.  No theorem
    below needs a hypothesis on [n]; in particular [n = 0] is fine ([grouped_of_codes 0] cuts every
    Equal opcode into two EMPTY Equal opcodes, one closing the hunk before it and one opening the
    hunk after it; changes are never dropped: [script_hunks_keep_changes] holds for every n, so
    the report of two different texts is non-empty for every n; see [ex_n_zero]). *)

(* the existing functions are the [context] instances *)
Lemma groups_of_script_n_context (ops : list opcode) :
  groups_of_script_n context ops = groups_of_script ops.
Proof. reflexivity. Qed.

Lemma unified_of_script_n_context (al bl : list bytes) (ops : list opcode) :
  unified_of_script_n context al bl ops = unified_of_script al bl ops.
Proof. reflexivity. Qed.

Lemma report_of_script_n_context (a b : bytes) (ops : list opcode) (name : bytes) (line : nat) :
  report_of_script_n context a b ops name line = report_of_script a b ops name line.
Proof. reflexivity. Qed.

(* ---- facts true of every opcode list and every n ---- *)

(** header counts = numbers of `+` / `-` lines shown (unified_counts analogue) *)
Theorem script_counts_n (n : nat) (al bl : list bytes) (ops : list opcode) :
  r_ins (unified_of_script_n n al bl ops) = count_ins (r_lines (unified_of_script_n n al bl ops)) /\
  r_del (unified_of_script_n n al bl ops) = count_del (r_lines (unified_of_script_n n al bl ops)).
Proof.
  unfold unified_of_script_n.
  induction (groups_of_script_n n ops) as [|g gs [IH1 IH2]]; cbn [fold_right]; [now split|].
  rewrite r_ins_add, r_del_add, r_lines_add, count_ins_app, count_del_app, IH1, IH2.
  match goal with |- context [group_lines ?sr ?al ?bl g] =>
    destruct (group_lines_counts sr al bl g) as [-> ->] end.
  now split.
Qed.

Theorem script_counts (al bl : list bytes) (ops : list opcode) :
  r_ins (unified_of_script al bl ops) = count_ins (r_lines (unified_of_script al bl ops)) /\
  r_del (unified_of_script al bl ops) = count_del (r_lines (unified_of_script al bl ops)).
Proof. exact (script_counts_n context al bl ops). Qed.

(** the `-` lines shown are exactly the a-lines of the Delete/Replace opcodes of the script, the `+`
    lines exactly the b-lines of its Insert/Replace opcodes: the same lines for every n *)
Theorem script_del_lines_n (n : nat) (al bl : list bytes) (ops : list opcode) :
  del_lines (r_lines (unified_of_script_n n al bl ops)) = concat (map (deleted_of al) ops).
Proof.
  unfold unified_of_script_n, groups_of_script_n. rewrite groups_lines_del.
  rewrite concat_deleted_filter, grouped_of_codes_no_change_lost. symmetry. apply concat_deleted_filter.
Qed.

Theorem script_ins_lines_n (n : nat) (al bl : list bytes) (ops : list opcode) :
  ins_lines (r_lines (unified_of_script_n n al bl ops)) = concat (map (inserted_of bl) ops).
Proof.
  unfold unified_of_script_n, groups_of_script_n. rewrite groups_lines_ins.
  rewrite concat_inserted_filter, grouped_of_codes_no_change_lost. symmetry. apply concat_inserted_filter.
Qed.

Theorem script_del_lines (al bl : list bytes) (ops : list opcode) :
  del_lines (r_lines (unified_of_script al bl ops)) = concat (map (deleted_of al) ops).
Proof. exact (script_del_lines_n context al bl ops). Qed.

Theorem script_ins_lines (al bl : list bytes) (ops : list opcode) :
  ins_lines (r_lines (unified_of_script al bl ops)) = concat (map (inserted_of bl) ops).
Proof. exact (script_ins_lines_n context al bl ops). Qed.

(* hence the `-` / `+` lines and the two counts do not depend on the number of context lines *)
Corollary script_changes_independent_of_n (n m : nat) (al bl : list bytes) (ops : list opcode) :
  del_lines (r_lines (unified_of_script_n n al bl ops))
  = del_lines (r_lines (unified_of_script_n m al bl ops)) /\
  ins_lines (r_lines (unified_of_script_n n al bl ops))
  = ins_lines (r_lines (unified_of_script_n m al bl ops)).
Proof. now rewrite !script_del_lines_n, !script_ins_lines_n. Qed.

(** every `-` line is a line of the first sequence, every `+` line a line of the second
    (report_lines_truthful analogue) *)
Theorem script_lines_truthful_n (n : nat) (al bl : list bytes) (ops : list opcode) (l : bytes) :
  (In (RDel l) (r_lines (unified_of_script_n n al bl ops)) -> In l al) /\
  (In (RIns l) (r_lines (unified_of_script_n n al bl ops)) -> In l bl).
Proof.
  split; intros H.
  - apply In_del_lines in H. rewrite script_del_lines_n in H.
    apply In_concat_map in H as (c & _ & H). unfold deleted_of in H.
    destruct (op_tag c); try contradiction; eapply In_slice, H.
  - apply In_ins_lines in H. rewrite script_ins_lines_n in H.
    apply In_concat_map in H as (c & _ & H). unfold inserted_of in H.
    destruct (op_tag c); try contradiction; eapply In_slice, H.
Qed.

Theorem script_lines_truthful (al bl : list bytes) (ops : list opcode) (l : bytes) :
  (In (RDel l) (r_lines (unified_of_script al bl ops)) -> In l al) /\
  (In (RIns l) (r_lines (unified_of_script al bl ops)) -> In l bl).
Proof. exact (script_lines_truthful_n context al bl ops l). Qed.

(* where a report line comes from *)
Lemma script_unified_In_n (n : nat) (al bl : list bytes) (ops : list opcode) r :
  In r (r_lines (unified_of_script_n n al bl ops)) ->
  exists g, In g (groups_of_script_n n ops) /\
    (r = range_line g \/ exists c, In c g /\ In r (r_lines (op_lines al bl c))).
Proof.
  unfold unified_of_script_n.
  induction (groups_of_script_n n ops) as [|g gs IH]; cbn [fold_right]; [intros []|].
  rewrite r_lines_add. intros H. apply in_app_or in H as [H|H].
  - exists g. split; [now left|]. unfold group_lines in H. rewrite r_lines_add in H.
    apply in_app_or in H as [H|H].
    + left. destruct (_ || _); cbn in H; [|contradiction]. destruct H as [<-|[]]. reflexivity.
    + right. now apply ops_lines_In.
  - destruct (IH H) as (g' & Hg & Hr). exists g'. split; [now right|exact Hr].
Qed.

Lemma script_unified_In (al bl : list bytes) (ops : list opcode) r :
  In r (r_lines (unified_of_script al bl ops)) ->
  exists g, In g (groups_of_script ops) /\
    (r = range_line g \/ exists c, In c g /\ In r (r_lines (op_lines al bl c))).
Proof. exact (script_unified_In_n context al bl ops r). Qed.

(* no ESC byte appears in the structure when none is in the lines *)
Lemma script_unified_clean_n (n : nat) (al bl : list bytes) (ops : list opcode) :
  (forall x, In x al -> no_esc x = true) -> (forall x, In x bl -> no_esc x = true) ->
  lines_clean (r_lines (unified_of_script_n n al bl ops)).
Proof.
  intros Ha Hb. unfold unified_of_script_n.
  induction (groups_of_script_n n ops) as [|g gs IH]; cbn [fold_right]; [constructor|].
  rewrite r_lines_add. apply Forall_app. split; [|exact IH]. now apply group_lines_clean.
Qed.

Lemma script_unified_clean (al bl : list bytes) (ops : list opcode) :
  (forall x, In x al -> no_esc x = true) -> (forall x, In x bl -> no_esc x = true) ->
  lines_clean (r_lines (unified_of_script al bl ops)).
Proof. exact (script_unified_clean_n context al bl ops). Qed.

(* the structure satisfies the invariant that makes the printed text unambiguous *)
Lemma script_unified_wf_n (n : nat) (al bl : list bytes) (ops : list opcode) :
  (forall l, In l al -> text_line_ok l) -> (forall l, In l bl -> text_line_ok l) ->
  Forall rline_wf (r_lines (unified_of_script_n n al bl ops)).
Proof.
  intros Ha Hb. apply Forall_forall. intros r H.
  apply script_unified_In_n in H as (g & _ & [->|(c & _ & H)]).
  - unfold range_line. cbn [rline_wf]. split; apply format_range_ok.
  - eapply op_lines_wf; [exact Ha|exact Hb|exact H].
Qed.

Lemma script_unified_wf (al bl : list bytes) (ops : list opcode) :
  (forall l, In l al -> text_line_ok l) -> (forall l, In l bl -> text_line_ok l) ->
  Forall rline_wf (r_lines (unified_of_script al bl ops)).
Proof. exact (script_unified_wf_n context al bl ops). Qed.

(** NO_COLOR mode adds no escape byte: every opcode list (pretty_diff_no_esc analogue) *)
Theorem report_of_script_n_no_esc (n : nat) (a b : bytes) (ops : list opcode) (name : bytes)
        (line : nat) :
  no_esc a = true -> no_esc b = true -> no_esc name = true ->
  no_esc (report_of_script_n n a b ops name line) = true.
Proof.
  intros Ha Hb Hn. unfold report_of_script_n. destruct (beq a b); [reflexivity|].
  assert (Hc : lines_clean (r_lines (unified_of_script_n n (split_newlines a) (split_newlines b) ops))).
  { apply script_unified_clean_n; intros x Hx;
      [apply (no_esc_split_newlines a)|apply (no_esc_split_newlines b)]; assumption. }
  unfold render_nocolor.
  destruct (unified_of_script_n n (split_newlines a) (split_newlines b) ops) as [[ls i] d].
  cbn [r_lines fst] in Hc.
  apply build_report_clean; [|exact Hn]. now apply render_body_clean.
Qed.

Corollary report_of_script_n_no_esc_In (n : nat) (a b : bytes) (ops : list opcode) (name : bytes)
          (line : nat) :
  ~ In 27%N (a ++ b ++ name) -> ~ In 27%N (report_of_script_n n a b ops name line).
Proof.
  intros H. apply no_esc_iff, report_of_script_n_no_esc; apply no_esc_iff; intros Hin; apply H;
    rewrite !in_app_iff; auto.
Qed.

Theorem report_of_script_no_esc (a b : bytes) (ops : list opcode) (name : bytes) (line : nat) :
  no_esc a = true -> no_esc b = true -> no_esc name = true ->
  no_esc (report_of_script a b ops name line) = true.
Proof. exact (report_of_script_n_no_esc context a b ops name line). Qed.

Corollary report_of_script_no_esc_In (a b : bytes) (ops : list opcode) (name : bytes) (line : nat) :
  ~ In 27%N (a ++ b ++ name) -> ~ In 27%N (report_of_script a b ops name line).
Proof. exact (report_of_script_n_no_esc_In context a b ops name line). Qed.

(* ---- facts of valid scripts, for every n ---- *)

(** residual (C13_residual / report_residual with [ops] an arbitrary valid script, at the level of
    line sequences): both sequences decompose along the script into kept + deleted, resp. kept +
    inserted pieces, the kept pieces coincide, and the `-`/`+` lines shown are exactly the deleted /
    inserted pieces *)
Theorem script_residual_gen_n (n : nat) (al bl : list bytes) (ops : list opcode) :
  valid_script al bl ops = true ->
  al = concat (map (fun c => kept_a_of al c ++ deleted_of al c) ops) /\
  bl = concat (map (fun c => kept_a_of al c ++ inserted_of bl c) ops) /\
  map (kept_a_of al) ops = map (kept_b_of bl) ops /\
  del_lines (r_lines (unified_of_script_n n al bl ops)) = concat (map (deleted_of al) ops) /\
  ins_lines (r_lines (unified_of_script_n n al bl ops)) = concat (map (inserted_of bl) ops).
Proof.
  intros Hv. destruct (script_residual_lines al bl ops Hv) as (H1 & H2 & H3).
  repeat split; [exact H1|exact H2|exact H3|apply script_del_lines_n|apply script_ins_lines_n].
Qed.

Theorem script_residual_gen (al bl : list bytes) (ops : list opcode) :
  valid_script al bl ops = true ->
  al = concat (map (fun c => kept_a_of al c ++ deleted_of al c) ops) /\
  bl = concat (map (fun c => kept_a_of al c ++ inserted_of bl c) ops) /\
  map (kept_a_of al) ops = map (kept_b_of bl) ops /\
  del_lines (r_lines (unified_of_script al bl ops)) = concat (map (deleted_of al) ops) /\
  ins_lines (r_lines (unified_of_script al bl ops)) = concat (map (inserted_of bl) ops).
Proof. exact (script_residual_gen_n context al bl ops). Qed.

(** the same with the formulation of [C13_residual]: texts, split into lines *)
Theorem script_residual_n (n : nat) (a b : bytes) (ops : list opcode) :
  let al := split_newlines a in
  let bl := split_newlines b in
  valid_script al bl ops = true ->
  al = concat (map (fun c => kept_a_of al c ++ deleted_of al c) ops) /\
  bl = concat (map (fun c => kept_a_of al c ++ inserted_of bl c) ops) /\
  map (kept_a_of al) ops = map (kept_b_of bl) ops /\
  del_lines (r_lines (unified_of_script_n n al bl ops)) = concat (map (deleted_of al) ops) /\
  ins_lines (r_lines (unified_of_script_n n al bl ops)) = concat (map (inserted_of bl) ops).
Proof. intros al bl. apply script_residual_gen_n. Qed.

Theorem script_residual (a b : bytes) (ops : list opcode) :
  let al := split_newlines a in
  let bl := split_newlines b in
  valid_script al bl ops = true ->
  al = concat (map (fun c => kept_a_of al c ++ deleted_of al c) ops) /\
  bl = concat (map (fun c => kept_a_of al c ++ inserted_of bl c) ops) /\
  map (kept_a_of al) ops = map (kept_b_of bl) ops /\
  del_lines (r_lines (unified_of_script al bl ops)) = concat (map (deleted_of al) ops) /\
  ins_lines (r_lines (unified_of_script al bl ops)) = concat (map (inserted_of bl) ops).
Proof. exact (script_residual_n context a b ops). Qed.

(** every context line of the report is a line common to both sequences *)
Theorem script_context_lines_common_n (n : nat) (al bl : list bytes) (ops : list opcode) (l : bytes) :
  valid_script al bl ops = true ->
  In (REq l) (r_lines (unified_of_script_n n al bl ops)) ->
  exists l0, In l0 al /\ In l0 bl /\ l = show_equal_line l0.
Proof.
  intros Hv H. apply script_unified_In_n in H as (g & Hg & [H|(c & Hc & H)]); [discriminate|].
  destruct (script_grouped_ops_sound al bl ops Hv _ _ _ Hg Hc) as [(_ & _ & _ & _ & Hok) _].
  unfold op_lines in H. destruct (op_tag c) eqn:E; cbn [r_lines fst] in H.
  - destruct (Hok eq_refl) as [_ Es].
    apply in_map_iff in H as (l0 & E0 & Hl0). injection E0 as <-.
    exists l0. repeat split; [eapply In_slice, Hl0|].
    apply (In_slice _ (j1 c) (j2 c)). unfold line in *. rewrite <- Es. exact Hl0.
  - apply in_map_iff in H as (? & ? & _). discriminate.
  - apply in_map_iff in H as (? & ? & _). discriminate.
  - apply in_app_or in H as [H|H]; apply in_map_iff in H as (? & ? & _); discriminate.
Qed.

Theorem script_context_lines_common (al bl : list bytes) (ops : list opcode) (l : bytes) :
  valid_script al bl ops = true ->
  In (REq l) (r_lines (unified_of_script al bl ops)) ->
  exists l0, In l0 al /\ In l0 bl /\ l = show_equal_line l0.
Proof. exact (script_context_lines_common_n context al bl ops l). Qed.

(* a valid script of two different sequences shows a `-` or a `+` line, for every n (0 included) *)
Lemma script_unified_has_change_n (n : nat) (al bl : list bytes) (ops : list opcode) :
  valid_script al bl ops = true -> al <> bl ->
  exists l, In (RDel l) (r_lines (unified_of_script_n n al bl ops)) \/
            In (RIns l) (r_lines (unified_of_script_n n al bl ops)).
Proof.
  intros Hv Hne.
  destruct (script_has_non_equal al bl ops Hv Hne) as (c & Hin & Hc).
  pose proof (script_equal_sound al bl ops Hv c Hin) as Hs.
  pose proof (script_in_bounds al bl ops Hv c Hin) as (_ & Hb1 & _ & Hb2).
  assert (Hd : (exists l, In l (deleted_of al c)) \/ (exists l, In l (inserted_of bl c))).
  { unfold deleted_of, inserted_of, non_equal, is_equal in *. destruct (op_tag c); try discriminate.
    - right. apply nonempty_has_elem, slice_nonempty; [apply Hs|exact Hb2].
    - left. apply nonempty_has_elem, slice_nonempty; [apply Hs|exact Hb1].
    - left. apply nonempty_has_elem, slice_nonempty; [apply Hs|exact Hb1]. }
  destruct Hd as [(l & Hl)|(l & Hl)]; exists l; [left|right].
  - apply In_del_lines. rewrite script_del_lines_n. apply in_concat.
    exists (deleted_of al c). split; [|exact Hl]. apply in_map. exact Hin.
  - apply In_ins_lines. rewrite script_ins_lines_n. apply in_concat.
    exists (inserted_of bl c). split; [|exact Hl]. apply in_map. exact Hin.
Qed.

Lemma script_unified_has_change (al bl : list bytes) (ops : list opcode) :
  valid_script al bl ops = true -> al <> bl ->
  exists l, In (RDel l) (r_lines (unified_of_script al bl ops)) \/
            In (RIns l) (r_lines (unified_of_script al bl ops)).
Proof. exact (script_unified_has_change_n context al bl ops). Qed.

Lemma script_unified_nonempty_n (n : nat) (a b : bytes) (ops : list opcode) :
  valid_script (split_newlines a) (split_newlines b) ops = true -> a <> b ->
  r_lines (unified_of_script_n n (split_newlines a) (split_newlines b) ops) <> [].
Proof.
  intros Hv Hne E.
  assert (Hl : split_newlines a <> split_newlines b)
    by (intros El; now apply Hne, split_newlines_inj).
  destruct (script_unified_has_change_n n _ _ ops Hv Hl) as (l & Hl').
  rewrite E in Hl'. destruct Hl' as [[]|[]].
Qed.

Lemma script_unified_nonempty (a b : bytes) (ops : list opcode) :
  valid_script (split_newlines a) (split_newlines b) ops = true -> a <> b ->
  r_lines (unified_of_script (split_newlines a) (split_newlines b) ops) <> [].
Proof. exact (script_unified_nonempty_n context a b ops). Qed.

(** the report of a valid script is empty iff the texts are byte-identical (C13_empty_iff),
    whatever the number of context lines *)
Theorem report_of_script_n_empty_iff (n : nat) (a b : bytes) (ops : list opcode) (name : bytes)
        (line : nat) :
  valid_script (split_newlines a) (split_newlines b) ops = true ->
  (report_of_script_n n a b ops name line = [] <-> a = b).
Proof.
  intros Hv. unfold report_of_script_n. destruct (beq_spec a b) as [->|Hne]; [tauto|].
  split; [|congruence]. intros H. exfalso.
  pose proof (script_unified_nonempty_n n a b ops Hv Hne) as Hl.
  unfold render_nocolor in H.
  destruct (unified_of_script_n n (split_newlines a) (split_newlines b) ops) as [[ls i] d].
  cbn [r_lines fst] in Hl.
  revert H. now apply build_report_nonempty, render_body_nonempty.
Qed.

Theorem report_of_script_empty_iff (a b : bytes) (ops : list opcode) (name : bytes) (line : nat) :
  valid_script (split_newlines a) (split_newlines b) ops = true ->
  (report_of_script a b ops name line = [] <-> a = b).
Proof. exact (report_of_script_n_empty_iff context a b ops name line). Qed.

(* the direction that needs no validity *)
Theorem report_of_script_n_same (n : nat) (a : bytes) (ops : list opcode) (name : bytes) (line : nat) :
  report_of_script_n n a a ops name line = [].
Proof. unfold report_of_script_n. now rewrite beq_refl. Qed.

Theorem report_of_script_same (a : bytes) (ops : list opcode) (name : bytes) (line : nat) :
  report_of_script a a ops name line = [].
Proof. exact (report_of_script_n_same context a ops name line). Qed.

(* ---- the printed bytes ---- *)

(* the reader recovers any well-formed non-empty structure from its rendering *)
Lemma read_render_correct (u : acc3) (name : bytes) (line : nat) :
  Forall rline_wf (r_lines u) -> r_lines u <> [] -> name_ok name = true ->
  read_report (render_nocolor u name line) = Some (report_read_of u name line).
Proof.
  intros Hwf Hne Hname. rewrite <- render_lbl_real.
  now apply read_render_lbl_correct.
Qed.

(** the reader theorem (C13_report_readable / read_report_correct) for every valid script and
    every number of context lines *)
Theorem read_report_of_script_n (n : nat) (a b : bytes) (ops : list opcode) (name : bytes)
        (line : nat) :
  let al := split_newlines a in
  let bl := split_newlines b in
  valid_script al bl ops = true -> a <> b -> name_ok name = true ->
  read_report (report_of_script_n n a b ops name line) =
  Some {| rr_del_count := r_del (unified_of_script_n n al bl ops);
          rr_ins_count := r_ins (unified_of_script_n n al bl ops);
          rr_lines := r_lines (unified_of_script_n n al bl ops);
          rr_footer := match name with [] => None | _ :: _ => Some (name, line) end |}.
Proof.
  intros al bl Hv Hne Hname. unfold report_of_script_n.
  apply beq_neq in Hne as Hb. rewrite Hb.
  apply (read_render_correct (unified_of_script_n n al bl ops) name line).
  - apply script_unified_wf_n; apply split_newlines_line_ok.
  - now apply script_unified_nonempty_n.
  - exact Hname.
Qed.

Theorem read_report_of_script (a b : bytes) (ops : list opcode) (name : bytes) (line : nat) :
  let al := split_newlines a in
  let bl := split_newlines b in
  valid_script al bl ops = true -> a <> b -> name_ok name = true ->
  read_report (report_of_script a b ops name line) =
  Some {| rr_del_count := r_del (unified_of_script al bl ops);
          rr_ins_count := r_ins (unified_of_script al bl ops);
          rr_lines := r_lines (unified_of_script al bl ops);
          rr_footer := match name with [] => None | _ :: _ => Some (name, line) end |}.
Proof. exact (read_report_of_script_n context a b ops name line). Qed.

(** printed counts: the two numbers in the header equal the numbers of `- ` and `+ ` lines shown *)
Theorem script_printed_counts_n (n : nat) (a b : bytes) (ops : list opcode) (name : bytes)
        (line : nat) :
  valid_script (split_newlines a) (split_newlines b) ops = true -> a <> b -> name_ok name = true ->
  exists rr, read_report (report_of_script_n n a b ops name line) = Some rr /\
             rr_del_count rr = count_del (rr_lines rr) /\ rr_ins_count rr = count_ins (rr_lines rr).
Proof.
  intros Hv Hne Hn. eexists. split; [apply read_report_of_script_n; assumption|].
  cbn [rr_del_count rr_ins_count rr_lines].
  destruct (script_counts_n n (split_newlines a) (split_newlines b) ops) as [Hi Hd]. now split.
Qed.

Theorem script_printed_counts (a b : bytes) (ops : list opcode) (name : bytes) (line : nat) :
  valid_script (split_newlines a) (split_newlines b) ops = true -> a <> b -> name_ok name = true ->
  exists rr, read_report (report_of_script a b ops name line) = Some rr /\
             rr_del_count rr = count_del (rr_lines rr) /\ rr_ins_count rr = count_ins (rr_lines rr).
Proof. exact (script_printed_counts_n context a b ops name line). Qed.

(** printed lines: every line printed behind `- ` is a line of the stored text, every line behind
    `+ ` a line of the received text *)
Theorem script_printed_lines_truthful_n (n : nat) (a b : bytes) (ops : list opcode) (name : bytes)
        (line : nat) :
  valid_script (split_newlines a) (split_newlines b) ops = true -> a <> b -> name_ok name = true ->
  exists rr, read_report (report_of_script_n n a b ops name line) = Some rr /\
             (forall l, In (RDel l) (rr_lines rr) -> In l (split_newlines a)) /\
             (forall l, In (RIns l) (rr_lines rr) -> In l (split_newlines b)).
Proof.
  intros Hv Hne Hn. eexists. split; [apply read_report_of_script_n; assumption|].
  cbn [rr_lines]. split; intros l; apply (script_lines_truthful_n n _ _ ops l).
Qed.

Theorem script_printed_lines_truthful (a b : bytes) (ops : list opcode) (name : bytes) (line : nat) :
  valid_script (split_newlines a) (split_newlines b) ops = true -> a <> b -> name_ok name = true ->
  exists rr, read_report (report_of_script a b ops name line) = Some rr /\
             (forall l, In (RDel l) (rr_lines rr) -> In l (split_newlines a)) /\
             (forall l, In (RIns l) (rr_lines rr) -> In l (split_newlines b)).
Proof. exact (script_printed_lines_truthful_n context a b ops name line). Qed.

Theorem script_printed_context_common_n (n : nat) (a b : bytes) (ops : list opcode) (name : bytes)
        (line : nat) :
  valid_script (split_newlines a) (split_newlines b) ops = true -> a <> b -> name_ok name = true ->
  exists rr, read_report (report_of_script_n n a b ops name line) = Some rr /\
             forall l, In (REq l) (rr_lines rr) ->
                       exists l0, In l0 (split_newlines a) /\ In l0 (split_newlines b) /\
                                  l = show_equal_line l0.
Proof.
  intros Hv Hne Hn. eexists. split; [apply read_report_of_script_n; assumption|].
  cbn [rr_lines]. intros l. now apply script_context_lines_common_n.
Qed.

Theorem script_printed_context_common (a b : bytes) (ops : list opcode) (name : bytes) (line : nat) :
  valid_script (split_newlines a) (split_newlines b) ops = true -> a <> b -> name_ok name = true ->
  exists rr, read_report (report_of_script a b ops name line) = Some rr /\
             forall l, In (REq l) (rr_lines rr) ->
                       exists l0, In l0 (split_newlines a) /\ In l0 (split_newlines b) /\
                                  l = show_equal_line l0.
Proof. exact (script_printed_context_common_n context a b ops name line). Qed.

(** the residual statement on the lines read from the bytes *)
Theorem script_printed_residual_n (n : nat) (a b : bytes) (ops : list opcode) (name : bytes)
        (line : nat) :
  let al := split_newlines a in
  let bl := split_newlines b in
  valid_script al bl ops = true -> a <> b -> name_ok name = true ->
  exists rr, read_report (report_of_script_n n a b ops name line) = Some rr /\
    al = concat (map (fun c => kept_a_of al c ++ deleted_of al c) ops) /\
    bl = concat (map (fun c => kept_a_of al c ++ inserted_of bl c) ops) /\
    map (kept_a_of al) ops = map (kept_b_of bl) ops /\
    del_lines (rr_lines rr) = concat (map (deleted_of al) ops) /\
    ins_lines (rr_lines rr) = concat (map (inserted_of bl) ops).
Proof.
  intros al bl Hv Hne Hn. eexists. split; [apply read_report_of_script_n; assumption|].
  cbn [rr_lines]. now apply script_residual_gen_n.
Qed.

Theorem script_printed_residual (a b : bytes) (ops : list opcode) (name : bytes) (line : nat) :
  let al := split_newlines a in
  let bl := split_newlines b in
  valid_script al bl ops = true -> a <> b -> name_ok name = true ->
  exists rr, read_report (report_of_script a b ops name line) = Some rr /\
    al = concat (map (fun c => kept_a_of al c ++ deleted_of al c) ops) /\
    bl = concat (map (fun c => kept_a_of al c ++ inserted_of bl c) ops) /\
    map (kept_a_of al) ops = map (kept_b_of bl) ops /\
    del_lines (rr_lines rr) = concat (map (deleted_of al) ops) /\
    ins_lines (rr_lines rr) = concat (map (inserted_of bl) ops).
Proof. exact (script_printed_residual_n context a b ops name line). Qed.

(** two reports with the same bytes show the same lines and counts, whatever valid scripts AND
    whatever numbers of context lines they were printed with *)
Theorem script_printed_injective_n n a b ops name line n' a' b' ops' name' line' :
  valid_script (split_newlines a) (split_newlines b) ops = true ->
  valid_script (split_newlines a') (split_newlines b') ops' = true ->
  a <> b -> name_ok name = true -> name_ok name' = true ->
  report_of_script_n n a b ops name line = report_of_script_n n' a' b' ops' name' line' ->
  unified_of_script_n n (split_newlines a) (split_newlines b) ops
  = unified_of_script_n n' (split_newlines a') (split_newlines b') ops' /\
  name = name' /\ (name <> [] -> line = line').
Proof.
  intros Hv Hv' Hne Hn Hn' E.
  assert (Hne' : a' <> b').
  { intros Heq. apply Hne. apply (report_of_script_n_empty_iff n a b ops name line Hv). rewrite E.
    now apply report_of_script_n_empty_iff. }
  pose proof (read_report_of_script_n n a b ops name line Hv Hne Hn) as R.
  pose proof (read_report_of_script_n n' a' b' ops' name' line' Hv' Hne' Hn') as R'.
  rewrite E, R' in R. injection R as Hd Hi Hl Hf.
  split.
  - destruct (unified_of_script_n n (split_newlines a) (split_newlines b) ops) as [[ls i] d],
             (unified_of_script_n n' (split_newlines a') (split_newlines b') ops') as [[ls' i'] d'].
    cbn [r_lines r_ins r_del fst snd] in *. congruence.
  - destruct name as [|c nm], name' as [|c' nm']; try discriminate Hf.
    + split; [reflexivity|congruence].
    + injection Hf as -> -> ->. split; [reflexivity|reflexivity].
Qed.

Corollary script_printed_injective_lines_n n a b ops name line n' a' b' ops' name' line' :
  valid_script (split_newlines a) (split_newlines b) ops = true ->
  valid_script (split_newlines a') (split_newlines b') ops' = true ->
  a <> b -> name_ok name = true -> name_ok name' = true ->
  report_of_script_n n a b ops name line = report_of_script_n n' a' b' ops' name' line' ->
  r_lines (unified_of_script_n n (split_newlines a) (split_newlines b) ops)
  = r_lines (unified_of_script_n n' (split_newlines a') (split_newlines b') ops') /\
  r_ins (unified_of_script_n n (split_newlines a) (split_newlines b) ops)
  = r_ins (unified_of_script_n n' (split_newlines a') (split_newlines b') ops') /\
  r_del (unified_of_script_n n (split_newlines a) (split_newlines b) ops)
  = r_del (unified_of_script_n n' (split_newlines a') (split_newlines b') ops').
Proof.
  intros Hv Hv' Hne Hn Hn' E.
  destruct (script_printed_injective_n _ _ _ _ _ _ _ _ _ _ _ _ Hv Hv' Hne Hn Hn' E) as [-> _].
  repeat split.
Qed.

Theorem script_printed_injective a b ops name line a' b' ops' name' line' :
  valid_script (split_newlines a) (split_newlines b) ops = true ->
  valid_script (split_newlines a') (split_newlines b') ops' = true ->
  a <> b -> name_ok name = true -> name_ok name' = true ->
  report_of_script a b ops name line = report_of_script a' b' ops' name' line' ->
  unified_of_script (split_newlines a) (split_newlines b) ops
  = unified_of_script (split_newlines a') (split_newlines b') ops' /\
  name = name' /\ (name <> [] -> line = line').
Proof. exact (script_printed_injective_n context a b ops name line context a' b' ops' name' line'). Qed.

(* ================================================================== *)
(** * 5. Consistency: the existing theorems about the model's script are instances *)

Corollary C13_residual_from_generic (a b : bytes) :
  let al := split_newlines a in
  let bl := split_newlines b in
  let ops := get_opcodes al bl in
  al = concat (map (fun c => kept_a_of al c ++ deleted_of al c) ops) /\
  bl = concat (map (fun c => kept_a_of al c ++ inserted_of bl c) ops) /\
  map (kept_a_of al) ops = map (kept_b_of bl) ops /\
  del_lines (r_lines (unified_nocolor a b)) = concat (map (deleted_of al) ops) /\
  ins_lines (r_lines (unified_nocolor a b)) = concat (map (inserted_of bl) ops).
Proof.
  intros al bl ops. rewrite <- unified_of_script_model.
  apply script_residual_gen, get_opcodes_valid.
Qed.

Corollary C13_empty_iff_from_generic (a b name : bytes) (line : nat) :
  pretty_diff_nocolor a b name line = [] <-> a = b.
Proof. rewrite <- report_of_script_model. apply report_of_script_empty_iff, get_opcodes_valid. Qed.

Corollary C13_report_readable_from_generic a b name line :
  a <> b -> name_ok name = true ->
  read_report (pretty_diff_nocolor a b name line) =
  Some {| rr_del_count := r_del (unified_nocolor a b); rr_ins_count := r_ins (unified_nocolor a b);
          rr_lines := r_lines (unified_nocolor a b);
          rr_footer := match name with [] => None | _ :: _ => Some (name, line) end |}.
Proof.
  intros Hne Hn. rewrite <- report_of_script_model, <- unified_of_script_model.
  apply read_report_of_script; [apply get_opcodes_valid|exact Hne|exact Hn].
Qed.

(* ================================================================== *)
(** * 6. Examples (all by computation) *)

(* Two texts of 202 lines: a first line, five copies of the line "}", a seventh line, and 195
   distinct lines u1 .. u195; the texts differ in lines 1 and 7.  The second text has >= 200 lines
   and "}" occurs 5 > 202/100 + 1 times in it, so the auto-junk heuristic of the Go matcher drops
   "}" from b2j: the model's script replaces the first seven lines wholesale.  A matcher without
   the heuristic keeps the five "}" lines: that is the hand-written script [ex_hand]. *)
Definition ex_uline (k : nat) : bytes := (B "u" ++ dec k)%list.
Definition ex_common : list bytes := map ex_uline (seq 1 195).
Definition ex_a : bytes := join_nl ([B "old1"] ++ repeat (B "}") 5 ++ [B "old2"] ++ ex_common)%list.
Definition ex_b : bytes := join_nl ([B "new1"] ++ repeat (B "}") 5 ++ [B "new2"] ++ ex_common)%list.
Definition ex_al : list bytes := split_newlines ex_a.
Definition ex_bl : list bytes := split_newlines ex_b.

Definition ex_model : list opcode := [mkop Replace 0 7 0 7; mkop Equal 7 202 7 202].
Definition ex_hand : list opcode :=
  [mkop Replace 0 1 0 1; mkop Equal 1 6 1 6; mkop Replace 6 7 6 7; mkop Equal 7 202 7 202].
Definition ex_one_replace : list opcode := [mkop Replace 0 202 0 202].
Definition ex_del_ins : list opcode := [mkop Delete 0 202 0 0; mkop Insert 202 202 0 202].

Example ex_sizes : List.length ex_al = 202 /\ List.length ex_bl = 202 /\ popular ex_bl (ln "}") = true.
Proof. vm_compute. repeat split. Qed.

(* the model's script (auto-junk at work) *)
Example ex_model_is_model : get_opcodes ex_al ex_bl = ex_model.
Proof. vm_compute. reflexivity. Qed.

(* four different scripts of the same two texts, all valid *)
Example ex_all_valid :
  valid_script ex_al ex_bl ex_model = true /\ valid_script ex_al ex_bl ex_hand = true /\
  valid_script ex_al ex_bl ex_one_replace = true /\ valid_script ex_al ex_bl ex_del_ins = true.
Proof. vm_compute. repeat split. Qed.

(* they give different hunks and different reports ... *)
Example ex_groups :
  groups_of_script ex_model = [[mkop Replace 0 7 0 7; mkop Equal 7 10 7 10]] /\
  groups_of_script ex_hand =
    [[mkop Replace 0 1 0 1; mkop Equal 1 6 1 6; mkop Replace 6 7 6 7; mkop Equal 7 10 7 10]] /\
  groups_of_script ex_one_replace = [ex_one_replace] /\
  groups_of_script ex_del_ins = [ex_del_ins].
Proof. vm_compute. repeat split. Qed.

Local Open Scope string_scope.

Example ex_report_model :
  report_of_script ex_a ex_b ex_model (B "f.snap") 3
  = text_nl [""; "- Snapshot - 7"; "+ Received + 7"; ""; "@@ -1,10 +1,10 @@"; "";
             "- old1"; "- }"; "- }"; "- }"; "- }"; "- }"; "- old2";
             "+ new1"; "+ }"; "+ }"; "+ }"; "+ }"; "+ }"; "+ new2";
             "  u1"; "  u2"; "  u3"; ""; "at f.snap:3"]
  /\ report_of_script ex_a ex_b ex_model (B "f.snap") 3 = pretty_diff_nocolor ex_a ex_b (B "f.snap") 3.
Proof. vm_compute. split; reflexivity. Qed.

Example ex_report_hand :
  report_of_script ex_a ex_b ex_hand (B "f.snap") 3
  = text_nl [""; "- Snapshot - 2"; "+ Received + 2"; ""; "@@ -1,10 +1,10 @@"; "";
             "- old1"; "+ new1"; "  }"; "  }"; "  }"; "  }"; "  }"; "- old2"; "+ new2";
             "  u1"; "  u2"; "  u3"; ""; "at f.snap:3"].
Proof. vm_compute. reflexivity. Qed.

Close Scope string_scope.

Example ex_reports_differ :
  let u1 := unified_of_script ex_al ex_bl ex_model in
  let u2 := unified_of_script ex_al ex_bl ex_hand in
  let u3 := unified_of_script ex_al ex_bl ex_one_replace in
  let u4 := unified_of_script ex_al ex_bl ex_del_ins in
  (r_del u1, r_ins u1) = (7, 7) /\ (r_del u2, r_ins u2) = (2, 2) /\
  (r_del u3, r_ins u3) = (202, 202) /\ (r_del u4, r_ins u4) = (202, 202) /\
  beq (report_of_script ex_a ex_b ex_model [] 0) (report_of_script ex_a ex_b ex_hand [] 0) = false /\
  beq (report_of_script ex_a ex_b ex_hand [] 0) (report_of_script ex_a ex_b ex_one_replace [] 0) = false.
Proof. vm_compute. repeat split. Qed.

(* ... and each of them satisfies the theorems (instances of the generic theorems; the same facts
   can also be checked by computation, see [ex_theorems_computed]) *)
Example ex_theorems_hold : forall ops,
  In ops [ex_model; ex_hand; ex_one_replace; ex_del_ins] ->
  (replay_b ex_al ex_bl ops = ex_bl /\ replay_a ex_al ops = ex_al) /\
  (r_ins (unified_of_script ex_al ex_bl ops) = count_ins (r_lines (unified_of_script ex_al ex_bl ops)) /\
   r_del (unified_of_script ex_al ex_bl ops) = count_del (r_lines (unified_of_script ex_al ex_bl ops))) /\
  (forall l, In (RDel l) (r_lines (unified_of_script ex_al ex_bl ops)) -> In l ex_al) /\
  (forall l, In (RIns l) (r_lines (unified_of_script ex_al ex_bl ops)) -> In l ex_bl) /\
  map (kept_a_of ex_al) ops = map (kept_b_of ex_bl) ops /\
  report_of_script ex_a ex_b ops (B "f") 1 <> [] /\
  read_report (report_of_script ex_a ex_b ops (B "f") 1)
  = Some (report_read_of (unified_of_script ex_al ex_bl ops) (B "f") 1).
Proof.
  intros ops Hin.
  assert (Hv : valid_script ex_al ex_bl ops = true).
  { destruct ex_all_valid as (V1 & V2 & V3 & V4).
    destruct Hin as [<-|[<-|[<-|[<-|[]]]]]; assumption. }
  assert (Hne : ex_a <> ex_b) by (apply beq_neq; vm_compute; reflexivity).
  split; [now apply script_replay|].
  split; [apply script_counts|].
  split; [intros l; apply (script_lines_truthful ex_al ex_bl ops l)|].
  split; [intros l; apply (script_lines_truthful ex_al ex_bl ops l)|].
  split; [now apply script_kept_same|].
  split.
  - intros E. apply Hne. now apply (report_of_script_empty_iff ex_a ex_b ops (B "f") 1 Hv).
  - apply (read_report_of_script ex_a ex_b ops (B "f") 1 Hv Hne). reflexivity.
Qed.

Example ex_theorems_computed :
  forallb (fun ops =>
    lines_beq (replay_b ex_al ex_bl ops) ex_bl && lines_beq (replay_a ex_al ops) ex_al &&
    lines_beq (del_lines (r_lines (unified_of_script ex_al ex_bl ops)))
              (concat (map (deleted_of ex_al) ops)) &&
    lines_beq (ins_lines (r_lines (unified_of_script ex_al ex_bl ops)))
              (concat (map (inserted_of ex_bl) ops)) &&
    (r_del (unified_of_script ex_al ex_bl ops) =? count_del (r_lines (unified_of_script ex_al ex_bl ops))) &&
    (r_ins (unified_of_script ex_al ex_bl ops) =? count_ins (r_lines (unified_of_script ex_al ex_bl ops))))
    [ex_model; ex_hand; ex_one_replace; ex_del_ins] = true.
Proof. vm_compute. reflexivity. Qed.

(* invalid scripts are rejected *)
Example ex_rejected :
  (* a gap in the tiling: lines 1..5 of both texts are not covered *)
  valid_script ex_al ex_bl [mkop Replace 0 1 0 1; mkop Replace 6 7 6 7; mkop Equal 7 202 7 202] = false /\
  (* Equal over different lines ("old1" / "new1") *)
  valid_script ex_al ex_bl [mkop Equal 0 6 0 6; mkop Replace 6 7 6 7; mkop Equal 7 202 7 202] = false /\
  (* overlapping opcodes: line 1 is covered twice *)
  valid_script ex_al ex_bl
    [mkop Replace 0 2 0 2; mkop Equal 1 6 1 6; mkop Replace 6 7 6 7; mkop Equal 7 202 7 202] = false /\
  (* the script stops before the end of both texts *)
  valid_script ex_al ex_bl [mkop Replace 0 7 0 7; mkop Equal 7 201 7 201] = false /\
  (* wrong shapes: an empty Insert; an Equal of different lengths; a Delete that consumes b *)
  valid_script ex_al ex_bl [mkop Replace 0 7 0 7; mkop Insert 7 7 7 7; mkop Equal 7 202 7 202] = false /\
  valid_script ex_al ex_bl [mkop Replace 0 7 0 6; mkop Equal 7 202 6 202] = false /\
  valid_script ex_al ex_bl [mkop Delete 0 7 0 7; mkop Equal 7 202 7 202] = false /\
  (* the empty script is valid only for two empty sequences *)
  valid_script ex_al ex_bl [] = false /\ valid_script [] [] [] = true /\
  valid_script [] [] [mkop Equal 0 0 0 0] = false.
Proof. vm_compute. repeat split. Qed.

(* the validity hypothesis of [report_of_script_empty_iff] is needed: an (invalid) all-Equal script
   of two different texts gives the empty report *)
Example ex_validity_needed :
  ex_a <> ex_b /\ valid_script ex_al ex_bl [mkop Equal 0 202 0 202] = false /\
  report_of_script ex_a ex_b [mkop Equal 0 202 0 202] (B "f") 1 = [].
Proof. split; [apply beq_neq; vm_compute; reflexivity|]. vm_compute. split; reflexivity. Qed.

(* a small pair of texts (12 lines, no auto-junk): the model's script and two other valid ones *)
Example ex_small :
  let a := [97;10;98;10;99;10;100;10;101;10;102;10;103;10;104;10;105;10;106;10;107;10;108]%N in
  let b := [97;10;98;10;99;10;100;10;101;10;88;10;103;10;104;10;105;10;106;10;107;10;108]%N in
  let al := split_newlines a in let bl := split_newlines b in
  let s1 := [mkop Equal 0 5 0 5; mkop Replace 5 6 5 6; mkop Equal 6 12 6 12] in
  let s2 := [mkop Equal 0 5 0 5; mkop Delete 5 6 5 5; mkop Insert 6 6 5 6; mkop Equal 6 12 6 12] in
  let s3 := [mkop Equal 0 5 0 5; mkop Insert 5 5 5 6; mkop Delete 5 6 6 6; mkop Equal 6 12 6 12] in
  get_opcodes al bl = s1 /\
  valid_script al bl s1 = true /\ valid_script al bl s2 = true /\ valid_script al bl s3 = true /\
  report_of_script a b s1 [] 0 = report_of_script a b s2 [] 0 /\
  report_of_script a b s1 [] 0 <> report_of_script a b s3 [] 0 /\
  r_lines (unified_of_script al bl s3) =
    [RRange (B "3,7") (B "3,7"); REq (ln "c"); REq (ln "d"); REq (ln "e");
     RIns (ln "X"); RDel (ln "f"); REq (ln "g"); REq (ln "h"); REq (ln "i")].
Proof. vm_compute. repeat split. discriminate. Qed.

(* ---- the number of context lines ---- *)

Local Open Scope string_scope.

(* the hand-written script of the 202-line pair with 5 lines of context: one hunk, the `-`/`+`
   lines and the counts are those of [ex_report_hand] (n = 3), two more context lines are shown *)
Example ex_report_hand_5 :
  report_of_script_n 5 ex_a ex_b ex_hand (B "f.snap") 3
  = text_nl [""; "- Snapshot - 2"; "+ Received + 2"; ""; "@@ -1,12 +1,12 @@"; "";
             "- old1"; "+ new1"; "  }"; "  }"; "  }"; "  }"; "  }"; "- old2"; "+ new2";
             "  u1"; "  u2"; "  u3"; "  u4"; "  u5"; ""; "at f.snap:3"].
Proof. vm_compute. reflexivity. Qed.

(* with 1 line of context the five "}" lines are cut into two hunks *)
Example ex_report_hand_1 :
  report_of_script_n 1 ex_a ex_b ex_hand (B "f.snap") 3
  = text_nl [""; "- Snapshot - 2"; "+ Received + 2"; ""; "@@ -1,2 +1,2 @@"; "";
             "- old1"; "+ new1"; "  }"; "@@ -6,3 +6,3 @@"; ""; "  }"; "- old2"; "+ new2"; "  u1";
             ""; "at f.snap:3"].
Proof. vm_compute. reflexivity. Qed.

(* n = 0 breaks nothing: no context line is shown, every change is, the report is not empty and
   reads back to its own structure.  ([grouped_of_codes 0] cuts each Equal opcode into two empty
   ones; the hunks are [Replace 0 1 0 1; Equal 1 1 1 1] and [Equal 6 6 6 6; Replace 6 7 6 7;
   Equal 7 7 7 7].) *)
Example ex_n_zero :
  report_of_script_n 0 ex_a ex_b ex_hand (B "f.snap") 3
  = text_nl [""; "- Snapshot - 2"; "+ Received + 2"; ""; "@@ -1 +1 @@"; "";
             "- old1"; "+ new1"; "@@ -7 +7 @@"; ""; "- old2"; "+ new2"; ""; "at f.snap:3"]
  /\ groups_of_script_n 0 ex_hand
     = [[mkop Replace 0 1 0 1; mkop Equal 1 1 1 1];
        [mkop Equal 6 6 6 6; mkop Replace 6 7 6 7; mkop Equal 7 7 7 7]]
  /\ read_report (report_of_script_n 0 ex_a ex_b ex_hand (B "f.snap") 3)
     = Some (report_read_of (unified_of_script_n 0 ex_al ex_bl ex_hand) (B "f.snap") 3).
Proof. vm_compute. repeat split. Qed.

Close Scope string_scope.

(* for n = 0, 1, 3, 5, 1000 and the four valid scripts: the reports for different n differ (unless
   the script has no Equal opcode), each reads back to its own structure, and the `-`/`+` lines and
   the counts are the same for every n *)
Example ex_n_computed :
  forallb (fun ops =>
    forallb (fun n =>
      let u := unified_of_script_n n ex_al ex_bl ops in
      lines_beq (del_lines (r_lines u)) (concat (map (deleted_of ex_al) ops)) &&
      lines_beq (ins_lines (r_lines u)) (concat (map (inserted_of ex_bl) ops)) &&
      (r_del u =? count_del (r_lines u)) && (r_ins u =? count_ins (r_lines u)) &&
      (r_del u =? r_del (unified_of_script ex_al ex_bl ops)) &&
      (r_ins u =? r_ins (unified_of_script ex_al ex_bl ops)) &&
      match read_report (report_of_script_n n ex_a ex_b ops (B "f") 1) with
      | Some rr => (rr_del_count rr =? r_del u) && (rr_ins_count rr =? r_ins u) &&
                   (List.length (rr_lines rr) =? List.length (r_lines u))
      | None => false
      end) [0; 1; 3; 5; 1000])
    [ex_model; ex_hand; ex_one_replace; ex_del_ins] = true
  /\ beq (report_of_script_n 3 ex_a ex_b ex_hand [] 0) (report_of_script_n 5 ex_a ex_b ex_hand [] 0) = false
  /\ beq (report_of_script_n 3 ex_a ex_b ex_model [] 0) (report_of_script_n 5 ex_a ex_b ex_model [] 0) = false
  /\ beq (report_of_script_n 0 ex_a ex_b ex_hand [] 0) (report_of_script_n 1 ex_a ex_b ex_hand [] 0) = false
  /\ report_of_script_n 3 ex_a ex_b ex_hand [] 0 = report_of_script ex_a ex_b ex_hand [] 0.
Proof. vm_compute. repeat split. Qed.

(* ================================================================== *)

Print Assumptions valid_script_spec.
Print Assumptions valid_script_nil.
Print Assumptions get_opcodes_valid.
Print Assumptions groups_of_script_model.
Print Assumptions unified_of_script_model.
Print Assumptions report_of_script_model.
Print Assumptions script_tile_first.
Print Assumptions script_tile_abut.
Print Assumptions script_tile_last.
Print Assumptions script_in_bounds.
Print Assumptions script_equal_sound.
Print Assumptions script_equal_pointwise.
Print Assumptions script_replay.
Print Assumptions script_all_equal_same.
Print Assumptions script_has_non_equal.
Print Assumptions script_kept_same.
Print Assumptions script_residual_lines.
Print Assumptions script_hunks_keep_changes.
Print Assumptions script_hunks_contiguous.
Print Assumptions script_groups_nonempty.
Print Assumptions script_grouped_ops_sound.
Print Assumptions script_counts.
Print Assumptions script_del_lines.
Print Assumptions script_ins_lines.
Print Assumptions script_lines_truthful.
Print Assumptions script_residual.
Print Assumptions script_residual_gen.
Print Assumptions script_context_lines_common.
Print Assumptions report_of_script_empty_iff.
Print Assumptions report_of_script_no_esc_In.
Print Assumptions read_render_correct.
Print Assumptions read_report_of_script.
Print Assumptions script_printed_counts.
Print Assumptions script_printed_lines_truthful.
Print Assumptions script_printed_context_common.
Print Assumptions script_printed_residual.
Print Assumptions script_printed_injective.
Print Assumptions C13_residual_from_generic.
Print Assumptions C13_empty_iff_from_generic.
Print Assumptions C13_report_readable_from_generic.
Print Assumptions ex_theorems_hold.
Print Assumptions groups_of_script_n_context.
Print Assumptions unified_of_script_n_context.
Print Assumptions report_of_script_n_context.
Print Assumptions script_counts_n.
Print Assumptions script_del_lines_n.
Print Assumptions script_ins_lines_n.
Print Assumptions script_changes_independent_of_n.
Print Assumptions script_lines_truthful_n.
Print Assumptions script_residual_n.
Print Assumptions script_residual_gen_n.
Print Assumptions script_context_lines_common_n.
Print Assumptions report_of_script_n_empty_iff.
Print Assumptions report_of_script_n_no_esc_In.
Print Assumptions read_report_of_script_n.
Print Assumptions script_printed_counts_n.
Print Assumptions script_printed_lines_truthful_n.
Print Assumptions script_printed_context_common_n.
Print Assumptions script_printed_residual_n.
Print Assumptions script_printed_injective_n.
Print Assumptions script_printed_injective_lines_n.
